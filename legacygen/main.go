// legacygen writes a database in the legacy (hash-keyed) node format with the legacy library
// (iavl v0.20.0 on cometbft-db v0.7.0 / goleveldb) and reports what that library answered.
//
//	legacygen <dir> <opsfile> [fast=true|fast=false] [cache=N]
//
// The database is created as goleveldb "legacy" inside <dir> (<dir>/legacy.db), which the
// current library opens through dbm.NewGoLevelDB("legacy", dir).
//
// ops file, one operation per line (byte strings in hex, "." = empty):
//
//	set <hexkey> <hexvalue>   -> "set t|f"                 (updated)
//	rm <hexkey>               -> "rm <hexvalue|nil> t|f"   (old value, removed)
//	save                      -> "save <version> <hexroothash>"
//	delete <version>          -> "delete <version> ok|err" (legacy DeleteVersion: orphan records consumed)
//
// after the last operation, for every version that is still available (ascending):
//
//	versions <v1>,<v2>,...
//	root <version> <hexroothash>
//	dump <version> <hexkey>=<hexvalue>,...   ("-" when the version is empty)
//
// Any failure of an operation that is expected to work is reported as "... err <message>" on
// the same line; the exit status is 0 as long as the ops file could be processed.
package main

import (
	"bufio"
	"encoding/hex"
	"fmt"
	"os"
	"path/filepath"
	"sort"
	"strconv"
	"strings"

	dbm "github.com/cometbft/cometbft-db"
	"github.com/cosmos/iavl"
)

func unhx(s string) []byte {
	if s == "." {
		return []byte{}
	}
	b, err := hex.DecodeString(s)
	if err != nil {
		fatal("bad hex token " + s)
	}
	return b
}

func hx(b []byte) string {
	if b == nil {
		return "nil"
	}
	if len(b) == 0 {
		return "."
	}
	return hex.EncodeToString(b)
}

func fatal(msg string) {
	fmt.Fprintln(os.Stderr, "legacygen:", msg)
	os.Exit(2)
}

func oneLine(err error) string { return strings.ReplaceAll(err.Error(), "\n", " ") }

func main() {
	if len(os.Args) < 3 {
		fatal("usage: legacygen <dir> <opsfile> [fast=true|fast=false] [cache=N]")
	}
	skipFast := false
	cache := 100
	for _, a := range os.Args[3:] {
		switch {
		case a == "fast=false":
			skipFast = true
		case a == "fast=true":
			skipFast = false
		case strings.HasPrefix(a, "cache="):
			n, err := strconv.Atoi(a[6:])
			if err != nil {
				fatal("bad cache size")
			}
			cache = n
		default:
			fatal("unknown argument " + a)
		}
	}
	dir, err := filepath.Abs(os.Args[1])
	if err != nil {
		fatal(err.Error())
	}
	if err := os.MkdirAll(dir, 0o755); err != nil {
		fatal(err.Error())
	}
	f, err := os.Open(os.Args[2])
	if err != nil {
		fatal(err.Error())
	}
	defer f.Close()

	db, err := dbm.NewGoLevelDB("legacy", dir)
	if err != nil {
		fatal(err.Error())
	}
	out := bufio.NewWriter(os.Stdout)
	code := run(db, f, out, cache, skipFast)
	out.Flush()
	if err := db.Close(); err != nil {
		fatal("close: " + err.Error())
	}
	os.Exit(code)
}

func run(db dbm.DB, f *os.File, out *bufio.Writer, cache int, skipFast bool) int {
	tree, err := iavl.NewMutableTreeWithOpts(db, cache, nil, skipFast)
	if err != nil {
		fmt.Fprintln(os.Stderr, "legacygen:", err)
		return 2
	}
	if _, err := tree.Load(); err != nil {
		fmt.Fprintln(os.Stderr, "legacygen: load:", err)
		return 2
	}
	sc := bufio.NewScanner(f)
	sc.Buffer(make([]byte, 1<<20), 1<<28)
	for sc.Scan() {
		t := strings.Fields(sc.Text())
		if len(t) == 0 || t[0][0] == '#' {
			continue
		}
		switch {
		case t[0] == "set" && len(t) == 3:
			upd, err := tree.Set(unhx(t[1]), unhx(t[2]))
			if err != nil {
				fmt.Fprintf(out, "set err %s\n", oneLine(err))
			} else {
				fmt.Fprintf(out, "set %s\n", tf(upd))
			}
		case t[0] == "rm" && len(t) == 2:
			v, removed, err := tree.Remove(unhx(t[1]))
			if err != nil {
				fmt.Fprintf(out, "rm err %s\n", oneLine(err))
			} else {
				fmt.Fprintf(out, "rm %s %s\n", hx(v), tf(removed))
			}
		case t[0] == "save" && len(t) == 1:
			h, v, err := tree.SaveVersion()
			if err != nil {
				fmt.Fprintf(out, "save err %s\n", oneLine(err))
			} else {
				fmt.Fprintf(out, "save %d %s\n", v, hex.EncodeToString(h))
			}
		case t[0] == "delete" && len(t) == 2:
			v, err := strconv.ParseInt(t[1], 10, 64)
			if err != nil {
				fmt.Fprintln(os.Stderr, "legacygen: bad version", t[1])
				return 2
			}
			if err := tree.DeleteVersion(v); err != nil {
				fmt.Fprintf(out, "delete %d err %s\n", v, oneLine(err))
			} else {
				fmt.Fprintf(out, "delete %d ok\n", v)
			}
		default:
			fmt.Fprintln(os.Stderr, "legacygen: bad op:", sc.Text())
			return 2
		}
	}

	// what the legacy library reports about every version that is left
	vs := tree.AvailableVersions()
	sort.Ints(vs)
	parts := make([]string, len(vs))
	for i, v := range vs {
		parts[i] = strconv.Itoa(v)
	}
	fmt.Fprintf(out, "versions %s\n", strings.Join(parts, ","))
	for _, v := range vs {
		imm, err := tree.GetImmutable(int64(v))
		if err != nil {
			fmt.Fprintf(out, "root %d err %s\n", v, oneLine(err))
			continue
		}
		h, err := imm.Hash()
		if err != nil {
			fmt.Fprintf(out, "root %d err %s\n", v, oneLine(err))
		} else {
			fmt.Fprintf(out, "root %d %s\n", v, hex.EncodeToString(h))
		}
		var kvs []string
		_, err = imm.Iterate(func(k, val []byte) bool {
			kvs = append(kvs, hex.EncodeToString(k)+"="+hex.EncodeToString(val))
			return false
		})
		if err != nil {
			fmt.Fprintf(out, "dump %d err %s\n", v, oneLine(err))
			continue
		}
		if len(kvs) == 0 {
			fmt.Fprintf(out, "dump %d -\n", v)
		} else {
			fmt.Fprintf(out, "dump %d %s\n", v, strings.Join(kvs, ","))
		}
	}
	return 0
}

func tf(b bool) string {
	if b {
		return "t"
	}
	return "f"
}
