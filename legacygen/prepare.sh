#!/bin/bash
# Builds /verif/build/legacygen offline (iavl v0.20.0 + cometbft-db v0.7.0 from the module cache).
set -e
export GOFLAGS=-mod=mod GOPROXY=off GOSUMDB=off GOTOOLCHAIN=local
cd "$(dirname "$0")"
# go.mod's require block and go.sum are those of /repo/cmd/legacydump (known to resolve offline)
[ -s go.sum ] || cp /repo/cmd/legacydump/go.sum .
mkdir -p ../build
go build -o ../build/legacygen .
