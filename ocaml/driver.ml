(* Hand-written, unverified glue: parses the harness trace, replays every operation on the
   extracted Coq model and diffs the canonical result strings. *)
open Model

(* ---------- conversions between OCaml ints and the extracted binary numbers ---------- *)
let rec pos_of_int (i : int) : positive =
  if i = 1 then XH else if i land 1 = 0 then XO (pos_of_int (i lsr 1)) else XI (pos_of_int (i lsr 1))
let n_of_int (i : int) : n = if i = 0 then N0 else Npos (pos_of_int i)
let z_of_int (i : int) : z = if i = 0 then Z0 else if i > 0 then Zpos (pos_of_int i) else Zneg (pos_of_int (- i))
let rec int_of_pos (p : positive) : int =
  match p with XH -> 1 | XO q -> 2 * int_of_pos q | XI q -> 2 * int_of_pos q + 1
let int_of_n (x : n) : int = match x with N0 -> 0 | Npos p -> int_of_pos p
let int_of_z (x : z) : int = match x with Z0 -> 0 | Zpos p -> int_of_pos p | Zneg p -> - (int_of_pos p)
let rec int_of_nat (x : nat) : int = match x with O -> 0 | S y -> 1 + int_of_nat y
let rec nat_of_int (i : int) : nat = if i <= 0 then O else S (nat_of_int (i - 1))

(* decimal strings beyond OCaml's int range are not needed: versions stay < 2^62 *)
(* decimal strings of any size (int64 extremes do not fit OCaml's 63-bit int) *)
let z_of_string (s : string) : z =
  let neg = String.length s > 0 && s.[0] = '-' in
  let digits = if neg then String.sub s 1 (String.length s - 1) else s in
  if digits = "" then failwith "bad integer";
  let ten = z_of_int 10 in
  let acc = ref Z0 in
  String.iter (fun c ->
      if c < '0' || c > '9' then failwith "bad integer";
      acc := Z.add (Z.mul !acc ten) (z_of_int (Char.code c - 48))) digits;
  if neg then Z.opp !acc else !acc
let string_of_z (x : z) : string = string_of_int (int_of_z x)

(* ---------- hex ---------- *)
let hexval c =
  match c with
  | '0' .. '9' -> Char.code c - 48
  | 'a' .. 'f' -> Char.code c - 87
  | 'A' .. 'F' -> Char.code c - 55
  | _ -> failwith "bad hex"

(* "." = empty, hex otherwise *)
let bytes_of_tok (s : string) : bytes =
  if s = "." then []
  else begin
    let n = String.length s / 2 in
    List.init n (fun i -> n_of_int (hexval s.[2 * i] * 16 + hexval s.[2 * i + 1]))
  end
(* "-" = nil *)
let obytes_of_tok (s : string) : bytes option = if s = "-" then None else Some (bytes_of_tok s)

let hex_of_bytes (b : bytes) : string =
  let buf = Buffer.create 16 in
  List.iter (fun x -> Buffer.add_string buf (Printf.sprintf "%02x" (int_of_n x))) b;
  Buffer.contents buf

let bool_of_tok s = (s = "1" || s = "t")

(* ---------- canonical result printing (must equal the Go harness' printing) ---------- *)
let rec show_out (o : out) : string =
  match o with
  | XErr -> "err"
  | XOk -> "ok"
  | XBool b -> if b then "t" else "f"
  | XInt z -> "i:" ^ string_of_z z
  | XBytes None -> "nil"
  | XBytes (Some b) -> "b:" ^ hex_of_bytes b
  | XKvs l ->
      "kv:[" ^ String.concat "," (List.map (fun (k, v) -> hex_of_bytes k ^ "=" ^ hex_of_bytes v) l) ^ "]"
  | XInts l -> "is:[" ^ String.concat "," (List.map string_of_z l) ^ "]"
  | XPair (a, b) -> "(" ^ show_out a ^ "," ^ show_out b ^ ")"

(* ---------- machine m1: MutableTree ---------- *)
let parse_read (toks : string list) : read =
  match toks with
  | [ "get"; k ] -> RGet (bytes_of_tok k)
  | [ "has"; k ] -> RHas (bytes_of_tok k)
  | [ "gwi"; k ] -> RGetWithIndex (bytes_of_tok k)
  | [ "gbi"; i ] -> RGetByIndex (z_of_string i)
  | [ "size" ] -> RSize
  | [ "height" ] -> RHeight
  | [ "iter"; s; e; incl; asc ] -> RIter (obytes_of_tok s, obytes_of_tok e, bool_of_tok incl, bool_of_tok asc)
  | [ "iterr"; s; e; incl; asc ] -> RIter (obytes_of_tok s, obytes_of_tok e, bool_of_tok incl, bool_of_tok asc)
  | [ "iterate" ] -> RIter (None, None, false, true)
  | [ "hash" ] -> RHash
  | [ "touch"; _ ] -> RTouch
  | _ -> failwith ("bad read: " ^ String.concat " " toks)

let parse_target (s : string) : target =
  if s = "w" then TWorking else TVersion (z_of_string (String.sub s 1 (String.length s - 1)))

let parse_op (toks : string list) : op =
  match toks with
  | [ "set"; k; v ] -> OSet (bytes_of_tok k, bytes_of_tok v)
  | [ "setnil"; k ] -> OSetNil (bytes_of_tok k)
  | [ "rm"; k ] -> ORemove (bytes_of_tok k)
  | [ "save" ] -> OSave
  | [ "rollback" ] -> ORollback
  | [ "reopen" ] -> OReopen
  | [ "reopen"; _ ] -> OReopen
  | [ "load"; v ] -> OLoad (z_of_string v)
  | [ "prune"; v ] -> OPrune (z_of_string v)
  | [ "lvfo"; v ] -> OLvfo (z_of_string v)
  | "r" :: t :: rest -> ORead (parse_target t, parse_read rest)
  | [ "getv"; k; v ] -> OGetVersioned (bytes_of_tok k, z_of_string v)
  | [ "vexists"; v ] -> OVersionExists (z_of_string v)
  | [ "latest" ] -> OLatest
  | [ "avail" ] -> OAvailable
  | [ "whash" ] -> OWorkingHash
  | [ "wver" ] -> OWorkingVersion
  | [ "hash" ] -> OHash
  | _ -> failwith ("bad op: " ^ String.concat " " toks)

(* ---------- generic machine interface ---------- *)
(* [classify toks model impl] is consulted on a mismatch: it names the known finding whose
   trigger predicate the current model state and operation satisfy, if any. It is evaluated
   on the state *before* the operation is applied to the model. *)
(* raised by a machine when an operation is outside the usage contract under which the model is
   compared (VersionFacts.in_contract): the rest of the case is not compared *)
exception Out_of_contract

type machine = { step : string list -> string; classify : string list -> string -> string -> string option;
                 dump : unit -> string }

let starts_with (pre : string) (s : string) : bool =
  String.length s >= String.length pre && String.sub s 0 (String.length pre) = pre

let header_param (params : string list) (name : string) (default : string) : string =
  let pre = name ^ "=" in
  let l = String.length pre in
  match List.find_opt (fun p -> String.length p >= l && String.sub p 0 l = pre) params with
  | Some p -> String.sub p l (String.length p - l)
  | None -> default

(* --- trigger predicates of known findings, evaluated on the model state --- *)
let rec node_has_key (v : int) (nn : int) (t : node) : bool =
  let m = (match t with Leaf (_, _, m) -> m | Inner (_, _, _, m, _, _) -> m) in
  (int_of_z m.ver = v && int_of_z m.nonce = nn)
  || (match t with Leaf _ -> false | Inner (_, _, _, _, l, r) -> node_has_key v nn l || node_has_key v nn r)

(* C14-stale-root-key: version [v] was deleted but its root node (v,1) is still referenced by a
   retained tree, so its root key survives in the store and the version stays loadable. *)
let stale_root (st : mstate) (v : int) : bool =
  (not (List.exists (fun (w, _) -> int_of_z w = v) st.forest))
  && List.exists (fun (_, r) -> match r with Some t -> node_has_key v 1 t | None -> false) st.forest

let rec root_nonce_versions (t : node) (acc : int list) : int list =
  let m = (match t with Leaf (_, _, m) -> m | Inner (_, _, _, m, _, _) -> m) in
  let acc = if int_of_z m.nonce = 1 then int_of_z m.ver :: acc else acc in
  match t with Leaf _ -> acc | Inner (_, _, _, _, l, r) -> root_nonce_versions l (root_nonce_versions r acc)

let stale_candidates (st : mstate) : int list =
  let all = List.fold_left (fun acc (_, r) -> match r with Some t -> root_nonce_versions t acc | None -> acc) [] st.forest in
  List.filter (fun v -> not (List.exists (fun (w, _) -> int_of_z w = v) st.forest)) all

let parse_ints (s : string) : int list =
  (* "is:[1,2,3]" *)
  if not (starts_with "is:[" s) then []
  else begin
    let body = String.sub s 4 (String.length s - 5) in
    if body = "" then [] else List.map int_of_string (String.split_on_char ',' body)
  end

(* "cs[v:x|w:?]" style results: entries whose model side ends in ":?" are not compared *)
let entrywise_match (model : string) (impl : string) : bool =
  let n = String.length model and m = String.length impl in
  let has_q = (try ignore (Str.search_forward (Str.regexp_string ":?") model 0); true with Not_found -> false) in
  if starts_with "cs[" model && impl = "err" && has_q then true (* range touching the first retained version *)
  else if not (starts_with "cs[" model && starts_with "cs[" impl) || n < 4 || m < 4 then false
  else begin
    let a = String.split_on_char '|' (String.sub model 3 (n - 4)) in
    let b = String.split_on_char '|' (String.sub impl 3 (m - 4)) in
    List.length a = List.length b
    && List.for_all2 (fun x y ->
           x = y
           || (String.length x > 2 && String.sub x (String.length x - 2) 2 = ":?"
               && starts_with (String.sub x 0 (String.length x - 1)) y)) a b
  end

(* crash exploration results: model "CR;<res>" matches impl "cr(ok,n=K);<res>" and "cr(skip,..);<res>" *)
let crash_match (model : string) (impl : string) : bool =
  (starts_with "CR;" model || starts_with "FL;" model)
  && (match String.index_opt impl ';' with
      | Some i ->
          let head = String.sub impl 0 i and tail = String.sub impl (i + 1) (String.length impl - i - 1) in
          (starts_with "cr(ok" head || starts_with "cr(skip" head || starts_with "fl(ok" head || starts_with "fl(skip" head)
          && (let mt = String.sub model 3 (String.length model - 3) in
              tail = mt || (mt = "*" && not (starts_with "panic" tail)) || entrywise_match mt tail)
      | None -> false)

let classify_m1 (st : mstate) (toks : string list) (model : string) (impl : string) : string option =
  let finding = Some "C14-stale-root-key" in
  let tv t = int_of_string (String.sub t 1 (String.length t - 1)) in
  match toks with
  | "r" :: t :: _ when t <> "w" && model = "err" && not (starts_with "panic" impl) && stale_root st (tv t) -> finding
  | [ "vexists"; v ] when model = "f" && impl = "t" ->
      (* after a reopen the first version is rediscovered by a search over root keys: every
         version from a stale root key up to the true first version is then reported *)
      let n = int_of_string v in
      let first = (match st.forest with (w, _) :: _ -> int_of_z w | [] -> 0) in
      if n < first && List.exists (fun w -> w <= n) (stale_candidates st) then finding else None
  | "replaycs" :: _ when model = "ok" && impl = "err" ->
      (* the replay walks the change sets from the first *listed* version: with a stale root key the
         listing starts at a deleted version whose change set cannot be extracted *)
      let first = (match st.forest with (w, _) :: _ -> int_of_z w | [] -> 0) in
      if List.exists (fun w -> w < first) (stale_candidates st) then finding else None
  | [ "getv"; _; v ] when model = "nil" && (starts_with "b:" impl || impl = "err") ->
      let n = int_of_string v in
      let first = (match st.forest with (w, _) :: _ -> int_of_z w | [] -> 0) in
      if n < first && List.exists (fun w -> w <= n) (stale_candidates st) then finding else None
  | [ "changes"; _; _ ] when starts_with "cs[" model && starts_with "cs[" impl ->
      (* a stale root key makes a deleted version reappear as the first version after a reopen:
         its change set (and those of the versions up to the true first one) are reported too *)
      let first = (match st.forest with (w, _) :: _ -> int_of_z w | [] -> 0) in
      let body x = String.sub x 3 (String.length x - 4) in
      let ents = String.split_on_char '|' (body impl) in
      let ver e = (try int_of_string (List.hd (String.split_on_char ':' e)) with _ -> Stdlib.max_int) in
      let extra = List.filter (fun e -> ver e < first) ents in
      let rest = List.filter (fun e -> ver e >= first) ents in
      if extra <> [] && List.exists (fun w -> w <= ver (List.hd extra)) (stale_candidates st)
         && entrywise_match model ("cs[" ^ String.concat "|" rest ^ "]") then finding else None
  | ("crash" | "fault") :: o :: _ when starts_with "cr(viol,op=" impl || starts_with "fl(viol,op=" impl ->
      let has x = (try ignore (Str.search_forward (Str.regexp_string x) impl 0); true with Not_found -> false) in
      (* the symptom kinds found over all crash / fault positions: "kind=a+b" *)
      let kinds =
        (try
           ignore (Str.search_forward (Str.regexp "kind=\\([a-z0-9+]+\\)") impl 0);
           String.split_on_char '+' (Str.matched_group 1 impl)
         with Not_found -> []) in
      let all_in allowed = kinds <> [] && List.for_all (fun k -> List.mem k allowed) kinds in
      (* a SaveVersion / rollback whose writes are flushed in several physical batches is not
         crash-atomic; the listed symptoms are the recorded ones, any other kind (alone or together
         with a recorded one) is reported *)
      if o = "save" && starts_with "cr(viol,op=save," impl && all_in [ "loaderr"; "indexahead" ] then Some "C05-split-commit"
      else if o = "save" && starts_with "fl(viol,op=save," impl && all_in [ "reopenerr"; "reopenmixture" ] then Some "C05-split-commit"
      else if o = "lvfo" && starts_with "cr(viol" impl && all_in [ "mixture"; "loaderr" ] then Some "C05-split-rollback"
      else if o = "prune" && starts_with "cr(viol" impl && all_in [ "retrydiffers" ] then Some "C05-split-prune"
      else if o = "bigimport" && starts_with "cr(viol,op=bigimport," impl && all_in [ "loaderr" ] then
        (* every prefix of the physical batches of a large import: nodes without a root make
           Load() fail (the recorded mechanism); a visible but incomplete version is reported *)
        Some "C10-aborted-large-import"
      else if (o = "import" || o = "bigimport") && has "kind=reopenerr," then
        (* position i of fl(viol,op=import_V,i=I/N,..): only after the first background batch *)
        (try
           let a = Str.search_forward (Str.regexp ",i=\\([0-9]+\\)/") impl 0 in
           ignore a;
           if int_of_string (Str.matched_group 1 impl) > 10000 then Some "C10-aborted-large-import" else None
         with Not_found -> None)
      else None
  | [ "x"; "laudit" ] when starts_with "la(" impl
                          && (let has x = (try ignore (Str.search_forward (Str.regexp_string x) impl 0); true with Not_found -> false) in
                              has "dangling=0" && has "bad=0" && not (has "garbage=0")) -> Some "C16-legacy-garbage"
  | "x" :: ("export" | "liveexport") :: _ when starts_with "loadversion:" impl -> Some "C20-export-db-unreadable"
  | "x" :: ("snap" | "livesnap") :: _ when starts_with "savesnapshot-err:cannot_leafWrite_nil_node" impl -> Some "C20-empty-snapshot"
  | [ "avail" ] ->
      let mi = parse_ints model and ii = parse_ints impl in
      let extra = List.filter (fun x -> not (List.mem x mi)) ii in
      let missing = List.filter (fun x -> not (List.mem x ii)) mi in
      let first = (match mi with x :: _ -> x | [] -> 0) in
      if missing = [] && extra <> [] && List.for_all (fun x -> x < first) extra
         && List.exists (fun x -> stale_root st x) extra then finding else None
  | _ -> None

(* --- expected raw store, computed from the model forest (M2 view of M1) --- *)
let node_meta (t : node) : meta = match t with Leaf (_, _, m) -> m | Inner (_, _, _, m, _, _) -> m
let key_str (m : meta) : string = Printf.sprintf "%d.%d" (int_of_z m.ver) (int_of_z m.nonce)

let rec collect_nodes (t : node) (acc : ((int * int) * string) list) : ((int * int) * string) list =
  let m = node_meta t in
  let k = (int_of_z m.ver, int_of_z m.nonce) in
  if List.mem_assoc k acc then acc
  else
    match t with
    | Leaf (key, v, _) -> (k, "N:L," ^ hex_of_bytes key ^ "," ^ hex_of_bytes v) :: acc
    | Inner (key, h, sz, _, l, r) ->
        let acc = (k, Printf.sprintf "N:I,%d,%d,%s,%s,%s,%s" (int_of_z h) (int_of_z sz) (hex_of_bytes key)
                        (hex_of_bytes m.hs) (key_str (node_meta l)) (key_str (node_meta r))) :: acc in
        collect_nodes r (collect_nodes l acc)

(* the expected raw store comes from the proved model (Store.expected_store, StoreFacts) *)
(* what the implementation printed for the operation being stepped (set by the replay loop): only
   environment choices are read from it (the flush positions of a recorded deletion) *)
(* "ac(ok;c=[k=v,..];d=[k=v,..])": the dump of the node cache (most recently used first) and of
   the database records its keys resolve to, judged by the extracted, proved checker
   NodeCache.coherentb (NodeCacheFacts.coherentb_spec: it IS the invariant of cache_transparent).
   Values are the stored bytes; a record is a node unless it is empty or a root reference. *)
let section_between (s : string) (pre : string) : string =
  (* the text between [pre] and the next ']' *)
  let i = Str.search_forward (Str.regexp_string pre) s 0 + String.length pre in
  String.sub s i (String.index_from s i ']' - i)
let cache_dump_coherent (impl : string) : bool =
  try
    let parse body =
      if body = "" then []
      else List.map (fun e ->
          match String.split_on_char '=' e with
          | [ k; v ] ->
              let kb = bytes_of_tok k in
              let num l = List.fold_left (fun a x -> a * 256 + int_of_n x) 0 l in
              let rec take n l = if n = 0 then [] else (match l with x :: r -> x :: take (n - 1) r | [] -> []) in
              let rec drop n l = if n = 0 then l else (match l with _ :: r -> drop (n - 1) r | [] -> []) in
              ((z_of_int (num (take 8 kb)), z_of_int (num (drop 8 kb))), bytes_of_tok v)
          | _ -> failwith "bad cache dump entry") (String.split_on_char ',' body) in
    let cache = parse (section_between impl "c=[") in
    let disk = parse (section_between impl "d=[") in
    let is_node (b : bytes) =
      (match b with
       | [] -> false
       | x :: _ -> not (int_of_n x = 115 && (List.length b = 13 || List.length b = 9))) in
    coherentb (fun a b -> a = b) is_node disk cache
  with _ -> false

(* "<th>:<batch>|<batch>.." with <batch> = "s<klen>+<vlen>,d<klen>,..": the physical batches of a
   commit on a plain MemDB; the extracted Flusher.fl_batches (FlusherFacts: nothing lost, greedy and
   maximal cuts) must cut the same stream of operation sizes at the same places (empty batches,
   which the recorder does not see, left out). Returns the cut list the model computes. *)
let show_bop = function
  | BSet0 (k, v) -> Printf.sprintf "s%d+%d" (List.length k) (List.length v)
  | BDel0 k -> Printf.sprintf "d%d" (List.length k)
let show_batches (th : int) (ops : bop0 list) : string =
  let model = List.filter (fun b -> b <> []) (fl_batches (z_of_int th) ops) in
  String.concat "|" (List.map (fun b -> String.concat "," (List.map show_bop b)) model)
let flusher_cuts (body : string) : string =
  match String.index_opt body ':' with
  | None -> body
  | Some i ->
      let th = int_of_string (String.sub body 0 i) in
      let rest = String.sub body (i + 1) (String.length body - i - 1) in
      let rest, tail = (match String.index_opt rest '#' with
          | Some j -> (String.sub rest 0 j, String.sub rest j (String.length rest - j))
          | None -> (rest, "")) in
      let zeros n = List.init n (fun _ -> N0) in
      let batches = if rest = "" then [] else List.map (fun b -> String.split_on_char ',' b) (String.split_on_char '|' rest) in
      let op_of (o : string) : bop0 =
        let t = String.sub o 1 (String.length o - 1) in
        if o.[0] = 'd' then BDel0 (zeros (int_of_string t))
        else (match String.split_on_char '+' t with
            | [ a; b ] -> BSet0 (zeros (int_of_string a), zeros (int_of_string b))
            | _ -> failwith "bad batch op") in
      let ops = List.map op_of (List.concat batches) in
      Printf.sprintf "%d:%s%s" th (show_batches th ops) tail
(* the same for an operation that consists of several streams, each ended by an explicit commit:
   [lens] = the number of operations of every stream but the last *)
let flusher_cuts_streams (body : string) (lens : int list) : string =
  match String.index_opt body ':' with
  | None -> body
  | Some i ->
      let th = int_of_string (String.sub body 0 i) in
      let rest = String.sub body (i + 1) (String.length body - i - 1) in
      let zeros n = List.init n (fun _ -> N0) in
      let batches = if rest = "" then [] else List.map (fun b -> String.split_on_char ',' b) (String.split_on_char '|' rest) in
      let op_of (o : string) : bop0 =
        let t = String.sub o 1 (String.length o - 1) in
        if o.[0] = 'd' then BDel0 (zeros (int_of_string t))
        else (match String.split_on_char '+' t with
            | [ a; b ] -> BSet0 (zeros (int_of_string a), zeros (int_of_string b))
            | _ -> failwith "bad batch op") in
      let ops = List.map op_of (List.filter (fun o -> o <> "") (List.concat batches)) in
      let rec take n l = if n <= 0 then [] else (match l with x :: r -> x :: take (n - 1) r | [] -> []) in
      let rec drop n l = if n <= 0 then l else (match l with _ :: r -> drop (n - 1) r | [] -> []) in
      let rec split l lens = (match lens with [] -> [ l ] | n :: r -> take n l :: split (drop n l) r) in
      let parts = List.filter (fun p -> p <> "") (List.map (show_batches th) (split ops lens)) in
      Printf.sprintf "%d:%s" th (String.concat "|" parts)

(* the whole "wb" field from the model alone: the byte stream of the commit
   (PhysCommit.commit_bops on the FastLife mirror), cut by Flusher.fl_batches at the configured
   threshold, with the MD5 of every operation's bytes *)
let commit_wb (th : int) (ops : bop0 list) : string =
  let buf = Buffer.create 1024 in
  List.iter (function
      | BSet0 (k, v) -> Buffer.add_string buf (Printf.sprintf "s%s=%s;" (hex_of_bytes k) (hex_of_bytes v))
      | BDel0 k -> Buffer.add_string buf (Printf.sprintf "d%s;" (hex_of_bytes k))) ops;
  Printf.sprintf "%d:%s#%s" th (show_batches th ops) (Digest.to_hex (Digest.string (Buffer.contents buf)))

(* false while V2Orphans.checkpoint_write_at files pending orphans also at a checkpoint of a tree
   without a branch root (the library drops them there) *)
let v2_model_faithful = true

let current_expected : string option ref = ref None

let show_store (pre : string) (store : ((z * z) * entry) list) : string =
  let kstr (v, n) = Printf.sprintf "%d.%d" (int_of_z v) (int_of_z n) in
  let show_entry (e : entry) : string =
    match e with
    | EEmpty -> "E"
    | ERef k -> "R:" ^ kstr k
    | ENode (SLeaf (k, v)) -> "N:L," ^ hex_of_bytes k ^ "," ^ hex_of_bytes v
    | ENode (SInner (k, h, sz, hash, l, r)) ->
        Printf.sprintf "N:I,%d,%d,%s,%s,%s,%s" (int_of_z h) (int_of_z sz) (hex_of_bytes k) (hex_of_bytes hash) (kstr l) (kstr r) in
  pre ^ "[" ^ String.concat ";" (List.map (fun (k, e) -> kstr k ^ "=" ^ show_entry e) store) ^ "]other=0"

let expected_nodes (st : mstate) : string =
  let kstr (v, n) = Printf.sprintf "%d.%d" (int_of_z v) (int_of_z n) in
  let show_entry (e : entry) : string =
    match e with
    | EEmpty -> "E"
    | ERef k -> "R:" ^ kstr k
    | ENode (SLeaf (k, v)) -> "N:L," ^ hex_of_bytes k ^ "," ^ hex_of_bytes v
    | ENode (SInner (k, h, sz, hash, l, r)) ->
        Printf.sprintf "N:I,%d,%d,%s,%s,%s,%s" (int_of_z h) (int_of_z sz) (hex_of_bytes k) (hex_of_bytes hash) (kstr l) (kstr r) in
  "an[" ^ String.concat ";" (List.map (fun (k, e) -> kstr k ^ "=" ^ show_entry e) (expected_store st.forest)) ^ "]other=0"

let rec node_elems (t : node) (acc : (bytes * bytes) list) : (bytes * bytes) list =
  match t with
  | Leaf (k, v, _) -> (k, v) :: acc
  | Inner (_, _, _, _, l, r) -> node_elems l (node_elems r acc)

let expected_fast (st : mstate) : string =
  let rec last = function [] -> None | [ x ] -> Some x | _ :: r -> last r in
  match last st.forest with
  | None -> "af(1.1.0-0;[])"
  | Some (v, r) ->
      let l = (match r with Some t -> node_elems t [] | None -> []) in
      Printf.sprintf "af(1.1.0-%d;[%s])" (int_of_z v)
        (String.concat "," (List.map (fun (k, v) -> hex_of_bytes k ^ "=" ^ hex_of_bytes v) l))

(* C15: the net change set of version v against v-1, computed from the model trees: leaves of
   tree(v) created in v (node version > v-1), and keys of tree(v-1) absent from tree(v). *)
let rec leaves_with_ver (t : node) (acc : (bytes * bytes * int) list) : (bytes * bytes * int) list =
  match t with
  | Leaf (k, v, m) -> (k, v, int_of_z m.ver) :: acc
  | Inner (_, _, _, _, l, r) -> leaves_with_ver l (leaves_with_ver r acc)

let cmp_bytes (a : bytes) (b : bytes) : int = match bcmp a b with Lt -> -1 | Eq -> 0 | Gt -> 1

let expected_changes (st : mstate) (a : int) (b : int) : string =
  let forest = List.map (fun (v, r) -> (int_of_z v, r)) st.forest in
  match forest with
  | [] -> "*"
  | (first, _) :: _ ->
      let latest = List.fold_left (fun _ (v, _) -> v) 0 forest in
      let a = max a first and b = min b latest in
      let parts = ref [] in
      for v = a to b do
        match List.assoc_opt v forest with
        | None -> ()
        | Some r ->
            (* the change set comes from the proved model of extractStateChanges (Diff.extract) *)
            let prev = (match List.assoc_opt (v - 1) forest with Some p -> p | None -> None) in
            let items =
              (match extract (z_of_int (v - 1)) prev r with
               | Some cs -> List.map (function CSet (k, x) -> ((), hex_of_bytes k ^ "=" ^ hex_of_bytes x)
                                              | CDel k -> ((), hex_of_bytes k ^ "-")) cs
               | None -> [ ((), "MODEL-OUT-OF-FUEL") ]) in
            (* the property speaks about versions whose predecessor is retained *)
            if v = first then parts := (string_of_int v ^ ":?") :: !parts
            else parts := (string_of_int v ^ ":" ^ String.concat "," (List.map snd items)) :: !parts
      done;
      "cs[" ^ String.concat "|" (List.rev !parts) ^ "]"

(* --- C13: the stored bytes decoded by the extracted Coq decoders --- *)
let show_ref (c : child_ref) : string =
  match c with
  | RefNew (v, n) -> Printf.sprintf "%d.%d" (int_of_z v) (let x = int_of_z n in if x = 0 then 1 else x)
  | RefLegacy h -> "h" ^ hex_of_bytes h
  | RefNone -> "none"

(* "raw[hexkey=hexval;...]" -> the canonical "an[...]other=0" rendering (nonce 0 printed as 1) *)
(* the raw dump of the real database ("raw[hexkey=hexvalue;...]") decoded by the PROVED decoder of the
   whole image (DbImage.decode_image, DbImageFacts.decode_encode_image): node store rendered with
   nonce 0 read as 1 (keys and references), then the fast index with entry versions and the label *)
let render_decoded_image (raw : string) : string =
  let body = String.sub raw 4 (String.length raw - 5) in
  let ents = if body = "" then [] else String.split_on_char ';' body in
  let pairs = List.filter_map (fun e ->
      match String.split_on_char '=' e with
      | [ k; v ] -> Some (bytes_of_tok k, (if v = "" then [] else bytes_of_tok v))
      | _ -> None) ents in
  match decode_image pairs with
  | None -> "DECODE-FAILED"
  | Some ((store, fi), l) ->
      let n1 (v, n) = (v, (if n = Z0 then z_of_int 1 else n)) in
      let norm_entry = function ERef k -> ERef (n1 k) | ENode (SInner (k, h, sz, hash, lk, rk)) -> ENode (SInner (k, h, sz, hash, n1 lk, n1 rk)) | e -> e in
      let items = List.map (fun (k, e) -> (n1 k, norm_entry e)) store in
      let items = List.stable_sort (fun ((a, b), _) ((c, d), _) -> compare (int_of_z a, int_of_z b) (int_of_z c, int_of_z d)) items in
      let lbl = (match l with None -> "1.0.0" | Some v -> Printf.sprintf "1.1.0-%d" (int_of_z v)) in
      show_store "an" items ^ "|" ^
      Printf.sprintf "af(%s;[%s])" lbl
        (String.concat "," (List.map (fun (k, (u, v)) -> Printf.sprintf "%s=%s@%d" (hex_of_bytes k) (hex_of_bytes v) (int_of_z u)) fi))

let raw_match (model : string) (impl : string) : bool =
  starts_with "an[" model && starts_with "raw[" impl && (try render_decoded_image impl = model with _ -> false)

let cfg_fast (params : string list) : bool =
  let cfg = header_param params "cfg" "" in
  List.mem "fast=true" (String.split_on_char ',' cfg)

let make_m1 (params : string list) : machine =
  let iv = header_param params "iv" "-" in
  let st = ref (if iv = "-" then m_init Z0 false else m_init (z_of_string iv) true) in
  let prev = ref !st in
  let fast = ref (cfg_fast params) in
  (* versions whose root node sits under (v,0) in the physical store (PruneAlgo.phys_of) *)
  let rk : z list ref = ref [] in
  let stale_handle = ref false in
  (* the history of the legacy library (LegacyStore.lop), recorded until "legacyend" *)
  let in_legacy = ref (header_param params "legacy" "" <> "") in
  let lops : lop list ref = ref [] in
  (* v2 (harness2 cases, cfg "ci=.."): the history of one tree object for V2Orphans.os_run -
     versions as lists of LSet / LDel, deletions that were waited for; tracking stops at the first
     operation that replaces or reloads the tree object *)
  let v2cfg = String.split_on_char ',' (header_param params "cfg" "") in
  let v2interval = (match List.find_opt (fun p -> starts_with "ci=" p) v2cfg with
      | Some p -> Some (int_of_string (String.sub p 3 (String.length p - 3))) | None -> None) in
  let v2ok = ref (v2interval <> None) in
  let v2cur : logop list ref = ref [] in
  let v2hist : hstep list ref = ref [] in
  let v2_note (toks : string list) (res : string) : unit =
    if !v2ok then
      (match toks with
       | [ "set"; k; v ] -> if v <> "-" then v2cur := LSet (bytes_of_tok k, bytes_of_tok v) :: !v2cur
       | [ "rm"; k ] -> v2cur := LDel (bytes_of_tok k) :: !v2cur
       | [ "save" ] -> v2hist := HVersion (List.rev !v2cur) :: !v2hist; v2cur := []
       | [ "x"; "prune"; n ] when res = "ok" -> v2hist := HPrune (z_of_string n) :: !v2hist
       | [ "x"; "oraw" ] | [ "x"; "lfraw" ] | "r" :: _ | [ "hash" ] | [ "whash" ] -> ()
       | _ -> v2ok := false) in
  (* the legacy key space (LegacyStore.ldb): written by the legacy library's history, then
     carried through the new library's rollbacks and deletions (rollback_legacy, prune_legacy,
     prune_new_version); None = not tracked (history too long, or an operation the model refuses) *)
  let ldbr : ldb option ref = ref None in
  let tree_at (f : (z * node option) list) (v : int) : node option =
    (match List.find_opt (fun (w, _) -> int_of_z w = v) f with Some (_, t) -> t | None -> None) in
  let rec legacy_note (toks : string list) (res : string) (before : mstate) (after : mstate) : unit =
    (* an operation run under the fault / crash explorer is the same operation for the model *)
    match toks with
    | ("fault" | "crash") :: "cold" :: rest | ("fault" | "crash") :: rest ->
        let res' = if String.length res > 3 && (String.sub res 0 3 = "FL;" || String.sub res 0 3 = "CR;") then String.sub res 3 (String.length res - 3) else res in
        legacy_note rest res' before after
    | _ ->
    if !in_legacy then
      (match toks with
       | [ "save" ] ->
           (match List.rev after.forest with
            | (w, t) :: _ when not (List.exists (fun (u, _) -> u = w) before.forest) -> lops := LCommit t :: !lops
            | _ -> ())
       | [ "prune"; n ] ->
           (* executed by the legacy library as DeleteVersion(i) for every retained i <= n, ascending *)
           List.iter (fun (w, _) -> if int_of_z w <= int_of_string n then lops := LDelete w :: !lops) before.forest
       | [ "ldel"; v ] -> lops := LDelete (z_of_string v) :: !lops
       | [ "legacyend" ] ->
           in_legacy := false;
           if List.length !lops <= 12 then ldbr := Some (fst (legacy_history_sha (List.rev !lops)))
       | _ -> ())
    else
      (match !ldbr, toks with
       | Some db, ([ "lvfo"; v ] | [ "wlvfo"; v ]) when res = "ok" ->
           ldbr := rollback_legacy (legacy_fuel db) db (z_of_int (int_of_string v + 1))
       | Some db, ([ "prune"; n ] | [ "wprune"; n ]) when res = "ok" || starts_with "wp(ok" res ->
           let n = int_of_string n in
           let first = (match before.forest with (w, _) :: _ -> int_of_z w | [] -> 0) in
           let latest = List.fold_left (fun _ (w, _) -> int_of_z w) 0 before.forest in
           let l = int_of_z (legacy_latest db) in
           let db1 = (match prune_legacy_sha db (z_of_int n) (z_of_int first) (z_of_int latest) (tree_at before.forest l) (tree_at before.forest (l + 1)) with
               | Some d -> Some d | None -> None) in
           (* the new-format versions deleted by the same call orphan legacy nodes too *)
           ldbr := (match db1 with
               | None -> None
               | Some d ->
                   Some (List.fold_left (fun d (w, t) ->
                       let w = int_of_z w in
                       if w <= n && w > l then prune_new_version_sha d t (tree_at before.forest (w + 1)) else d) d before.forest))
       | Some _, ([ "dvfrom"; _ ] | "dvreload" :: _ | [ "reopenat"; _; _ ]) -> ldbr := None
       | _ -> ()) in
  let out_of_contract (o : op) : bool =
    not (in_contractb !st o) && (match m_step !st o with (_, XErr) -> false | _ -> true) in
  (* the physical deletion (PruneAlgo.prune_forest) under a flush schedule; updates [rk] *)
  (* databases with a legacy (hash-keyed) part are outside the physical models *)
  let is_legacy = (header_param params "legacy" "" <> "") in
  let phys_prune ?(check_disks = false) (n : string) (sched : bool list) : string * string =
    let pre = !st in
    let s', x = m_step pre (OPrune (z_of_string n)) in
    if is_legacy then begin
      st := s';
      ((match x with XErr -> "err" | _ -> "ok"), "ops=;fl=")
    end else
    match prune_forest_sha true !rk pre.forest sched (z_of_string n), x with
    | POk ((disk, log), fls), XOk ->
        st := s';
        let r' = rekeyed disk in
        let ok = (disk = phys_of r' s'.forest) in
        (* the conclusion of the safety theorem evaluated on this run: every state the disk goes
           through lets every retained version load back node for node *)
        let safe = not check_disks || (match prune_forest_disks_sha true !rk pre.forest sched (z_of_string n) with
                    | POk disks -> List.for_all (fun d -> readable_sha d s'.forest) disks
                    | _ -> false) in
        rk := r';
        let kstr (v, n) = Printf.sprintf "%d.%d" (int_of_z v) (int_of_z n) in
        let ops = List.filter_map (function
            | WSet (KNode k, _) -> Some ("s" ^ kstr k) | WDel (KNode k) -> Some ("d" ^ kstr k) | _ -> None) log in
        let rec nat_to_int = function O -> 0 | S m -> 1 + nat_to_int m in
        if not ok then ("modelfail:physical store differs from phys_of", "")
        else if not safe then ("modelfail:a retained version is unreadable in an intermediate disk state", "")
        else ("ok", Printf.sprintf "ops=%s;fl=%s" (String.concat "," ops)
                      (String.concat "," (List.map (fun i -> string_of_int (nat_to_int i)) fls)))
    | PErr, XErr -> st := s'; ("err", "ops=;fl=")
    | POk _, _ -> ("modelfail:physical deletion succeeds, MTree.step fails", "")
    | PErr, _ -> ("modelfail:physical deletion fails", "")
    | PNoVersion, _ -> ("modelfail:physical deletion: version missing", "")
    | PFuel, _ -> ("modelfail:physical deletion: out of fuel", "") in
  (* the fast-index life cycle (FastLife.fstep) runs alongside: the persisted index with entry
     versions and the label are compared by "audit fast" in every state, index enabled or not *)
  let fs : fstate ref =
    ref (fst (fstep_sha (if iv = "-" then finit Z0 false else finit (z_of_string iv) true) (FOpen (not !fast)))) in
  let fdo (o : fop) : out = let s', x = fstep_sha !fs o in fs := s'; x in
  let rec fmirror (toks : string list) : unit =
    match toks with
    | ("crash" | "fault") :: "cold" :: _ -> ()
    | ("crash" | "fault") :: rest -> fmirror rest
    | [ "set"; k; v ] -> ignore (fdo (FSet (bytes_of_tok k, bytes_of_tok v)))
    | [ "rm"; k ] -> ignore (fdo (FRemove (bytes_of_tok k)))
    | [ "save" ] | [ "wsave" ] | [ "ctab"; "save" ] -> ignore (fdo FSave)
    | [ "rollback" ] -> ignore (fdo FRollback)
    | [ "reopen" ] | [ "reopen"; _ ] -> ignore (fdo (FOpen (not !fast)))
    | [ "reopenat"; v; _ ] -> ignore (fdo (FOpenAt (not !fast, z_of_string v)))
    | [ "load"; v ] -> ignore (fdo (FLoad (z_of_string v)))
    | [ "lvfo"; v ] | [ "wlvfo"; v ] -> ignore (fdo (FLvfo (z_of_string v)))
    | [ "dvreload"; v; mode ] ->
        (match fdo (FLvfo (z_of_string v)) with
         | XOk -> if mode = "reopen" then ignore (fdo (FOpen (not !fast)))
         | _ -> ())
    | [ ("prune" | "wprune"); n ] -> ignore (fdo (FPrune (z_of_string n)))
    | [ "savecs"; pairs ] ->
        let dirty = (match !fs.ms.root with Some t -> int_of_z (node_meta t).ver = 0 | None -> false) in
        if not dirty then begin
          let ps = if pairs = "." then [] else String.split_on_char ',' pairs in
          let ok = ref true in
          List.iter (fun p ->
              if !ok then begin
                let n = String.length p in
                if n > 0 && p.[n - 1] = '-' then
                  (match fdo (FRemove (bytes_of_tok (String.sub p 0 (n - 1)))) with
                   | XPair (_, XBool true) -> () | _ -> ok := false)
                else
                  (match String.split_on_char '=' p with
                   | [ k; v ] -> ignore (fdo (FSet (bytes_of_tok k, bytes_of_tok (if v = "" then "." else v))))
                   | _ -> ())
              end) ps;
          if !ok then ignore (fdo FSave)
        end
    | _ -> () in
  let show_fast () : string =
    let lbl = (match !fs.dlabel with None -> "1.0.0" | Some v -> Printf.sprintf "1.1.0-%d" (int_of_z v)) in
    Printf.sprintf "af(%s;[%s])" lbl
      (String.concat "," (List.map (fun (k, (u, v)) -> Printf.sprintf "%s=%s@%d" (hex_of_bytes k) (hex_of_bytes v) (int_of_z u)) !fs.fidx)) in
  let rec step1 (toks : string list) : string =
        if !stale_handle then
          (match toks with
           | "r" :: t :: _ when t <> "w" -> ()
           | "vexists" :: _ | "getv" :: _ | [ "avail" ] | [ "latest" ] | "audit" :: _ -> ()
           | "load" :: _ | "reopen" :: _ -> stale_handle := false
           | _ -> raise Out_of_contract);
        match toks with
        | ("dvreload" as o) :: n :: _ | [ ("prune" | "lvfo" | "wprune" | "wlvfo") as o; n ]
          when out_of_contract (if o = "lvfo" || o = "wlvfo" || o = "dvreload" then OLvfo (z_of_string n) else OPrune (z_of_string n)) ->
            (* accepted by the model but outside the contract (deleting the version the working tree
               is based on, rolling back to version 0): not compared from here on *)
            raise Out_of_contract
        | "fault" :: "cold" :: rest -> "FL;" ^ step1 rest
        | "fault" :: rest -> "FL;" ^ step1 rest
        | "crash" :: rest -> "CR;" ^ step1 rest
        | [ "reopenat"; v; f ] ->
            fast := (f = "fast=true");
            let s1, x1 = m_step !st OReopen in
            (match x1 with
             | XOk -> let s2, x2 = m_step s1 (OLoad (z_of_string v)) in st := s2; show_out x2
             | _ -> st := s1; "err")
        | [ "x"; "oraw" ] ->
            (* the branch bookkeeping of the v2 tree database: orphan rows, branch row keys and
               root rows of V2Orphans.os_run on the recorded history *)
            (match (if !v2ok then v2interval else None) with
             | None -> "*"
             | Some iv ->
                 (* the model is run step by step; a checkpoint of a tree WITHOUT a branch root that
                    has pending orphans is where the library drops them (saveBranches writes nothing
                    when tree.branches is empty, SaveVersion clears the list): V2Orphans.v as first
                    written files them, so the comparison stops there (see DESIGN 12.6) *)
                 let dropped = ref false in
                 let final = List.fold_left (fun so e ->
                     match so with
                     | None -> None
                     | Some s0 ->
                         (match e with
                          | HVersion ops ->
                              (match os_apply_all_code s0 ops with
                               | Some s1 ->
                                   let nck = List.length s0.os_store.ckpts in
                                   let r = os_step_sha (z_of_int iv) s0 e in
                                   (match r with
                                    | Some s2 when List.length s2.os_store.ckpts > nck && s1.os_pending <> []
                                                   && (match s2.os_root with Some (Inner _) -> false | _ -> true)
                                                   && not v2_model_faithful -> dropped := true
                                    | _ -> ());
                                   r
                               | None -> None)
                          | HPrune _ -> os_step_sha (z_of_int iv) s0 e)) (Some ostate_empty) (List.rev !v2hist) in
                 if !dropped then (v2ok := false; "*") else
                 (match final with
                  | None -> "oraw(model:run-refused)"
                  | Some s ->
                      let st = s.os_store in
                      let key (a, b) = Printf.sprintf "%d.%d" (int_of_z a) (int_of_z b) in
                      let cmpk (a, b) (c, d) = compare (int_of_z a, int_of_z b) (int_of_z c, int_of_z d) in
                      let os = List.map (fun (k, at) -> key k ^ "@" ^ string_of_z at)
                          (List.sort (fun (k1, a1) (k2, a2) -> let c = cmpk k1 k2 in if c <> 0 then c else compare (int_of_z a1) (int_of_z a2)) st.borphans) in
                      let bs = List.sort_uniq compare (List.map (fun (k, _) -> key k) st.branches) in
                      let rs = List.map (fun ((v, _), cp) -> string_of_z v ^ (if cp then "c" else ""))
                          (List.sort (fun ((a, _), _) ((b, _), _) -> compare (int_of_z a) (int_of_z b)) st.roots) in
                      "oraw(o=" ^ String.concat "," os ^ ";b=" ^ String.concat "," bs ^ ";r=" ^ String.concat "," rs ^ ")"))
        | [ "x"; "lfraw" ] ->
            (* the leaf side of the v2 change-log database: leaf row keys, leaf_delete rows and
               leaf_orphan rows of V2Leaves.ls_run on the recorded history (the model covers
               heightFilter > 0: leaves leave memory at every commit) *)
            (match (if !v2ok && List.mem "hf=1" v2cfg then v2interval else None) with
             | None -> "*"
             | Some iv ->
                 (match ls_run_sha (z_of_int iv) ls_empty (List.rev !v2hist) with
                  | None -> "lfraw(model:run-refused)"
                  | Some s ->
                      let st = s.ls_store in
                      let cmpk (a, b) (c, d) = compare (int_of_z a, int_of_z b) (int_of_z c, int_of_z d) in
                      let key (a, b) = Printf.sprintf "%d.%d" (int_of_z a) (int_of_z b) in
                      let ls = List.map key (List.sort cmpk (List.map fst st.leaves)) in
                      let ds = List.map (fun (k, b) -> key k ^ ":" ^ hex_of_bytes b)
                          (List.sort (fun (a, _) (b, _) -> cmpk a b) st.ldeletes) in
                      let os = List.map (fun (k, at) -> key k ^ "@" ^ string_of_z at)
                          (List.sort (fun (k1, a1) (k2, a2) -> let c = cmpk k1 k2 in if c <> 0 then c else compare (int_of_z a1) (int_of_z a2)) st.lorphans) in
                      "lfraw(l=" ^ String.concat "," ls ^ ";d=" ^ String.concat "," ds ^ ";o=" ^ String.concat "," os ^ ")"))
        | [ "x"; "lraw" ] ->
            (* the legacy key space: node hashes, orphan records (to.from.hash) and root records -
               as the legacy library left it (LegacyStore.legacy_history on the recorded history),
               and later as the new library's rollbacks and deletions leave it *)
            (match (if !in_legacy then None else !ldbr) with
             | None -> "*"
             | Some db ->
                 let srt l = List.sort compare l in
                 let ns = srt (List.map (fun (h, _) -> hex_of_bytes h) db.lnodes) in
                 let os = srt (List.map (fun ((t, f), h) -> Printf.sprintf "%d.%d.%s" (int_of_z t) (int_of_z f) (hex_of_bytes h)) db.lorph) in
                 let rs = srt (List.map (fun (v, h) -> Printf.sprintf "%d.%s" (int_of_z v) (hex_of_bytes h)) db.lroots) in
                 "lraw(n=" ^ String.concat "," ns ^ ";o=" ^ String.concat "," os ^ ";r=" ^ String.concat "," rs ^ ")")
        | "x" :: _ -> "ok"
        | [ "legacyend" ] -> "ok"
        | [ "lprune"; _ ] -> "ok" (* DeleteVersionsTo below the latest legacy version: a documented no-op *)
        | [ "ldel"; v ] ->
            (* legacy DeleteVersion of one version (not the latest) *)
            let v = int_of_string v in
            let latest = List.fold_left (fun _ (w, _) -> int_of_z w) 0 !st.forest in
            if v <> latest && List.exists (fun (w, _) -> int_of_z w = v) !st.forest then begin
              st := { !st with forest = List.filter (fun (w, _) -> int_of_z w <> v) !st.forest };
              "ok"
            end else "err"
        | "hbound" :: t :: _ | "cost" :: t :: _ ->
            let is_h = (List.hd toks = "hbound") in
            if t = "w" || List.exists (fun (w, _) -> int_of_z w = int_of_string (String.sub t 1 (String.length t - 1))) !st.forest
            then (if is_h then "hb(ok)" else "ct(ok)") else "err"
        | [ "bigimport"; _ ] -> "ok"   (* fault bigimport n: a scratch tree, not part of the history *)
        | [ "import"; v ] ->
            (* fault import v: the live tree is not touched *)
            if List.exists (fun (w, _) -> int_of_z w = int_of_string v) !st.forest then "ok" else "err"
        | [ "expimp"; v; codec; _ ] ->
            (* the node store the importer writes: the tree the proved importer model builds from
               the export stream (ExportImport.imp_run / cimp_run: keys with the nonces it assigns),
               laid out by Store.expected_store, as a digest of the audit rendering *)
            (match List.find_opt (fun (w, _) -> int_of_z w = int_of_string v) !st.forest with
             | None -> "err"
             | Some (_, t) ->
                 let stream = export t in
                 let imported =
                   (if codec = "compress" then
                      (match compress0 stream with
                       | IOk cs -> cimp_run_sha (z_of_string v) (List.map (fun x -> Some x) cs)
                       | IErr -> IErr | IPanic -> IPanic)
                    else imp_run_sha (z_of_string v) (List.map (fun x -> Some x) stream)) in
                 (match imported with
                  | IOk t' ->
                      (* Store.expected_store sorts by insertion (quadratic): for the few big trees the
                         same entries (Store.tree_entries) are sorted here *)
                      let big = (match t' with Some n -> int_of_z (size0 n) > 1500 | None -> false) in
                      let store =
                        (if not big then expected_store [ (z_of_string v, t') ]
                         else List.sort_uniq (fun ((a, b), _) ((c, d), _) -> compare (int_of_z a, int_of_z b) (int_of_z c, int_of_z d))
                                (tree_entries (z_of_string v, t'))) in
                      let layout = show_store "an" store in
                      "ei(ok;an=" ^ Digest.to_hex (Digest.string layout) ^ ")"
                  | IErr -> "ei(model:import-error)"
                  | IPanic -> "ei(model:import-panic)"))
        | [ "changes"; a; b ] -> expected_changes !st (int_of_string a) (int_of_string b)
        | [ "replaycs" ] | [ "replaycs"; _ ] -> "ok"
        | [ "savecs"; pairs ] ->
            (* SaveChangeSet: refuse when there are uncommitted changes, apply pair by pair (a
               removal of a missing key is an error and leaves the earlier pairs applied), commit *)
            let dirty = (match !st.root with Some t -> int_of_z (node_meta t).ver = 0 | None -> false) in
            if dirty then "err"
            else begin
              let ps = if pairs = "." then [] else String.split_on_char ',' pairs in
              let ok = ref true in
              List.iter (fun p ->
                  if !ok then begin
                    let n = String.length p in
                    if n > 0 && p.[n - 1] = '-' then begin
                      let s', x = m_step !st (ORemove (bytes_of_tok (String.sub p 0 (n - 1)))) in
                      (match x with XPair (_, XBool true) -> st := s' | _ -> ok := false)
                    end else begin
                      match String.split_on_char '=' p with
                      | [ k; v ] -> let s', _ = m_step !st (OSet (bytes_of_tok k, bytes_of_tok (if v = "" then "." else v))) in st := s'
                      | _ -> failwith "bad pair"
                    end
                  end) ps;
              if not !ok then "err"
              else begin
                let s', x = m_step !st OSave in
                st := s';
                match x with XPair (_, v) -> show_out v | _ -> "err"
              end
            end
        | [ "costsweep" ] -> "cs(ok)"
        | [ "dbstring" ] -> "ok" (* every stored record decodes: the dump of a well-formed database is total *)
        | [ "isempty" ] ->
            (match snd (m_step !st (ORead (TWorking, RSize))) with XInt z -> if int_of_z z = 0 then "t" else "f" | _ -> "err")
        | [ "fastflags" ] ->
            (* IsFastCacheEnabled / IsUpgradeable as FastLife defines them *)
            if is_legacy then "*"
            else Printf.sprintf "ff:%b,%b" ((not !fs.skipf || true) && fast_enabled !fs !fs.ms.version) (upgradeable !fs)
        | [ "davail" ] ->
            (* a tree object that has cached nothing discovers the range from the stored keys
               (Discover.v): exact also when a stale root key is present *)
            (match discovered_available (phys_of !rk !st.forest) with
             | Some l -> "is:[" ^ String.concat "," (List.map string_of_z l) ^ "]"
             | None -> "modelfail:discovery out of fuel")
        | [ "audit"; "phys" ] -> show_store "ap" (phys_of !rk !st.forest)
        | [ "prune"; n ] ->
            (* the result of the physical deletion does not depend on the flush schedule
               (PruneAlgoFacts): the re-keyed roots are tracked with the empty schedule *)
            (match phys_prune n [] with
             | (("ok" | "err") as r, _) -> r
             | (bad, _) -> bad)
        | [ "lvfo"; v ] ->
            let s', x = m_step !st (OLvfo (z_of_string v)) in
            st := s';
            (match x with XOk -> rk := List.filter (fun w -> int_of_z w <= int_of_string v) !rk | _ -> ());
            show_out x
        | [ "pintest"; v ] ->
            if List.exists (fun (w, _) -> int_of_z w = int_of_string v) !st.forest then "pin(ok)" else "err"
        | [ "dvfrom"; v ] ->
            (* MutableTree.DeleteVersionsFrom(v) with the loaded version below v: the versions >= v
               go, the tree object stays as it is. MTree has no such operation: the forest is
               filtered here, and the index follows FastLife's rules for a rollback (label dropped
               when something was deleted, rebuilt for the new latest version when enabled) *)
            let vz = int_of_string v in
            let loaded = int_of_z !st.version in
            let dirty = (match !st.root with Some t -> int_of_z (node_meta t).ver = 0 | None -> false) in
            if vz < 1 || (loaded >= vz && dirty) then raise Out_of_contract
            else begin
              (* the handle's own version is deleted under it: until it is reloaded only questions
                 about versions are compared (stale_handle; anything else cuts the case) *)
              if loaded >= vz then stale_handle := true;
              let had = List.exists (fun (w, _) -> int_of_z w >= vz) !st.forest in
              st := { !st with forest = List.filter (fun (w, _) -> int_of_z w < vz) !st.forest };
              rk := List.filter (fun w -> int_of_z w < vz) !rk;
              let f1 = { !fs with ms = !st } in
              let f2 = (if had && f1.mlabel <> None then { f1 with dlabel = None; mlabel = None } else f1) in
              (* the index is rebuilt from the SAVED latest version when enabled (FastLife.enable_if_needed);
                 the working tree and its unsaved additions / removals stay as they are *)
              fs := enable_if_needed f2;
              "ok"
            end
        | [ "dvreload"; v; mode ] ->
            (* DeleteVersionsFrom(v+1) then reload: the rollback to v (then a reopen, which loads
               the latest version = v) *)
            let s', x = m_step !st (OLvfo (z_of_string v)) in
            (match x with
             | XOk ->
                 st := s';
                 rk := List.filter (fun w -> int_of_z w <= int_of_string v) !rk;
                 if mode = "reopen" then begin
                   let s2, x2 = m_step !st OReopen in st := s2; show_out x2
                 end else "ok"
             | _ -> st := s'; "err")
        | [ "wlvfo"; v ] ->
            (* the physical writes of a rollback, in order: Store.rollback_ops on the physical
               database, then - when the index is enabled and the label no longer names the latest
               version - Store.rebuild_ops (the functions CrashFacts classifies the cut points of) *)
            let impl = (match !current_expected with Some e -> e | None -> "") in
            let s', x = m_step !st (OLvfo (z_of_string v)) in
            (match x with
             | XOk ->
                 let d = { nodes1 = phys_of !rk !st.forest;
                           fastidx = List.map (fun (k, (_, vl)) -> (k, vl)) !fs.fidx; label = !fs.dlabel } in
                 let ops1 = rollback_ops d (z_of_string v) in
                 let d1 = apply_ops d ops1 in
                 let latest' = (match snd (m_step s' OLatest) with XInt z -> z | _ -> Z0) in
                 let tree' = (match List.rev s'.forest with (_, t) :: _ -> t | [] -> None) in
                 let need = !fast && (match d1.label with None -> true | Some l -> int_of_z l <> int_of_z latest') in
                 let ops2 = if need then rebuild_ops d1 latest' tree' else [] in
                 let kstr (a, b) = Printf.sprintf "%d.%d" (int_of_z a) (int_of_z b) in
                 let show = function
                   | WSet (KNode k, _) -> "s" ^ kstr k
                   | WDel (KNode k) -> "d" ^ kstr k
                   | WSet (KFast k, VFast vl) -> "fs:" ^ hex_of_bytes k ^ "=" ^ hex_of_bytes vl
                   | WDel (KFast k) -> "fd:" ^ hex_of_bytes k
                   | WSet (KLabel, VLabel None) -> "L:1.0.0"
                   | WSet (KLabel, VLabel (Some l)) -> "L:1.1.0-" ^ string_of_z l
                   | _ -> "?" in
                 st := s';
                 rk := List.filter (fun w -> int_of_z w <= int_of_string v) !rk;
                 (* the physical batches: the sizes of the recorded operations, cut by
                    Flusher.fl_batches separately for the two streams (the first has as many
                    operations as Store.rollback_ops) *)
                 let wb = (try
                             let body = section_between impl ";wb[" in
                             if body = "-" then "-" else flusher_cuts_streams body [ List.length ops1 ]
                           with _ -> "-") in
                 if starts_with "wl-nowrap(" impl then "wl-nowrap(ok)"
                 else "wl(ok;ops=" ^ String.concat "," (List.map show (ops1 @ ops2)) ^ ";wb[" ^ wb ^ "])"
             | _ -> st := s'; if starts_with "wl-nowrap(" impl then "wl-nowrap(err)" else "wl(err;ops=;wb[" ^ (try section_between impl ";wb[" with _ -> "-") ^ "])")
        | [ "wprune"; n ] ->
            let impl = (match !current_expected with Some e -> e | None -> "") in
            if starts_with "wp-nowrap(" impl || impl = "" then
              (match phys_prune n [] with
               | (("ok" | "err") as r, _) -> "wp-nowrap(" ^ r ^ ")"
               | (bad, _) -> bad)
            else begin
              (* flush positions observed on the real database: wp(<st>;ops=..;fl=i,j,..) *)
              let fl =
                (try
                   let i = Str.search_forward (Str.regexp_string ";fl=") impl 0 in
                   let body = String.sub impl (i + 4) (String.length impl - i - 5) in
                   if body = "" then [] else List.map int_of_string (String.split_on_char ',' body)
                 with Not_found | Failure _ -> []) in
              let m = List.fold_left max (-1) fl in
              let sched = List.init (m + 1) (fun i -> List.mem i fl) in
              match phys_prune ~check_disks:true n sched with
              | (("ok" | "err") as r, body) -> "wp(" ^ r ^ ";" ^ body ^ ")"
              | (bad, _) -> bad
            end
        | [ "audit"; "nodes" ] -> expected_nodes !st
        | [ "audit"; "raw" ] -> expected_nodes !st ^ "|" ^ show_fast ()
        | [ "audit"; "fast" ] -> show_fast ()
        | [ "audit"; "cache" ] ->
            (* the node cache and the fast node cache against the database (harness-side
               comparison), and the dump of the node cache with the records it resolves to,
               judged by the extracted checker NodeCache.coherentb *)
            let impl = (match !current_expected with Some e -> e | None -> "") in
            if starts_with "ac(ok;" impl then (if cache_dump_coherent impl then impl else "ac(model:incoherent)")
            else "ac(ok)"
        | [ "audit"; "fastvals" ] ->
            (* a database written by the Coq encoders (backward format check): label and values of
               the index as the encoders wrote them, compared while the index is enabled *)
            if !fast then expected_fast !st else "*"
        | [ "reopen"; f ] when (f = "fast=true" || f = "fast=false") && (fast := (f = "fast=true"); false) -> ""
        | [ "r"; t; "export" ] ->
            (* post-order stream of (key, value | -, node version, height) *)
            if t = "w" then "ex-working"
            else begin
              let v = int_of_string (String.sub t 1 (String.length t - 1)) in
              match List.find_opt (fun (w, _) -> int_of_z w = v) !st.forest with
              | None -> "err"
              | Some (_, r) ->
                  let rec post (n : node) (acc : string list) : string list =
                    match n with
                    | Leaf (k, x, m) ->
                        (Printf.sprintf "%s:%s:%d:0" (hex_of_bytes k) (if x = [] then "." else hex_of_bytes x) (int_of_z m.ver)) :: acc
                    | Inner (k, h, _, m, l, rr) ->
                        let acc = post l acc in
                        let acc = post rr acc in
                        (Printf.sprintf "%s:-:%d:%d" (hex_of_bytes k) (int_of_z m.ver) (int_of_z h)) :: acc in
                  let items = (match r with Some n -> List.rev (post n []) | None -> []) in
                  "ex[" ^ String.concat ";" items ^ "]"
            end
        | [ "r"; t; "proofbytes"; k ] ->
            (* the marshalled ICS-23 proof, byte for byte, from the proved model (Ics23.get_proof) *)
            let tree, wv =
              (if t = "w" then (Some !st.root, (match snd (m_step !st OWorkingVersion) with XInt z -> z | _ -> Z0))
               else (let v = int_of_string (String.sub t 1 (String.length t - 1)) in
                     (List.assoc_opt v (List.map (fun (w, r) -> (int_of_z w, r)) !st.forest), z_of_int (v + 1)))) in
            (match tree with
             | None -> "err"
             | Some tr ->
                 (match get_proof_sha wv tr (bytes_of_tok k) with
                  | Some p -> "pb:" ^ hex_of_bytes (marshal_commitment_proof p)
                  | None -> "err"))
        | [ "ctab"; "save" ] ->
            (* what a new tree object reports on the database image after the first j node-store
               writes of this commit, for the j observed on the real database (Crash.recover on
               Crash.image of Store.commit_node_ops: the functions the C05 theorems are about) *)
            let impl = (match !current_expected with Some e -> e | None -> "") in
            let nodeops = commit_node_ops_sha !st in
            let exists_already = (match m_step !st (OVersionExists (match snd (m_step !st OWorkingVersion) with XInt z -> z | _ -> Z0)) with (_, XBool b) -> b | _ -> false) in
            let nodeops = if exists_already then [] else nodeops in
            let d = { nodes1 = phys_of !rk !st.forest; fastidx = []; label = None } in
            let ivz = (if iv = "-" then Z0 else z_of_string iv) in
            let rec nat_of_int n = if n <= 0 then O else S (nat_of_int (n - 1)) in
            (* on a plain MemDB the prefix lengths are predicted too: the cut points of
               Flusher.fl_batches over PhysCommit.commit_bops, counted in node-store writes *)
            let cfgl = String.split_on_char ',' (header_param params "cfg" "") in
            let predicted_js =
              (if List.mem "backend=memdb" cfgl && not is_legacy && Sys.getenv_opt "VERIF_NOFMIRROR" = None then
                 (match List.find_opt (fun p -> starts_with "flush=" p) cfgl with
                  | Some f ->
                      let th = int_of_string (String.sub f 6 (String.length f - 6)) in
                      let batches = List.filter (fun b -> b <> []) (fl_batches (z_of_int th) (commit_bops_sha !fs)) in
                      let is_node_op = function
                        | BSet0 (k, _) | BDel0 k -> List.length k = 13 && (match k with x :: _ -> int_of_n x = 115 | [] -> false) in
                      let counts = List.rev (snd (List.fold_left (fun (n, acc) b ->
                          let n' = n + List.length (List.filter is_node_op b) in (n', n' :: acc)) (0, [ 0 ]) batches)) in
                      Some (List.sort_uniq compare counts)
                  | None -> None)
               else None) in
            let js =
              (match predicted_js with Some l -> l | None ->
               if starts_with "ct[" impl then
                 (try
                    let e = String.index impl ']' in
                    let body = String.sub impl 3 (e - 3) in
                    List.map (fun ent -> int_of_string (List.hd (String.split_on_char ':' ent))) (String.split_on_char ';' body)
                  with _ -> [])
               else []) in
            let show_rec = function
              | REmpty _ -> "ok:0"
              | ROk (latest, _, _, _) -> "ok:" ^ string_of_z latest
              | RErr _ -> "err" in
            let tab = List.map (fun j -> Printf.sprintf "%d:%s" j (show_rec (recover ivz (image d nodeops (nat_of_int j))))) js in
            let s', x = m_step !st OSave in
            st := s';
            (match x with
             | XErr -> "err"
             | _ ->
                 if starts_with "ct-nowrap;" impl then "ct-nowrap;" ^ show_out x
                 else "ct[" ^ String.concat ";" tab ^ "];" ^ show_out x)
        | [ "wsave" ] ->
            (* the order of the physical writes of a commit: fast index / label first, then the new
               nodes in post order with the root last (Store.commit_ops, used by CrashFacts) *)
            let ops = commit_ops_sha !fast !st in
            let nodes = List.filter_map (function WSet (KNode (v, n), _) -> Some (Printf.sprintf "%d.%d" (int_of_z v) (int_of_z n)) | _ -> None) ops in
            let wsave_bops = commit_bops_sha !fs in
            let rk_at_save = !rk in
            let s', x = m_step !st OSave in
            st := s';
            let impl = (match !current_expected with Some e -> e | None -> "") in
            let wb = (try
                        let body = section_between impl ";wb[" in
                        if body = "-" then "-"
                        else if is_legacy || Sys.getenv_opt "VERIF_NOFMIRROR" <> None then flusher_cuts body
                        else begin
                          let m = commit_wb (int_of_string (String.sub body 0 (String.index body ':'))) wsave_bops in
                          (* while a re-keyed root (v,0) exists, a reference to it (root record or child
                             reference of a new node) is written with nonce 1 or 0 depending on the node
                             cache (12.6, PruneAlgo tie): sizes and cut points are compared, the bytes are
                             not (a false alarm of the byte-level tie met in the thorough tier) *)
                          if rk_at_save <> [] then
                            (match String.index_opt m '#', String.index_opt body '#' with
                             | Some i, Some j -> String.sub m 0 i ^ String.sub body j (String.length body - j)
                             | _ -> m)
                          else m
                        end
                      with _ -> "-") in
            "(ws[" ^ String.concat "," nodes ^ "];wb[" ^ wb ^ "]," ^ show_out x ^ ")"
        | [ "r"; t; "istop"; api; s0; e0; asc; n ] ->
            (* a stop request at the n-th element delivers exactly the first n elements of the
               specified iteration and the call reports that it was stopped; when fewer exist, all of
               them and "not stopped" (IterFacts: stop callbacks deliver a prefix) *)
            let tg = parse_target t in
            let rd = (match api with
                | "it" -> RIter (None, None, false, true)
                | "ir" -> RIter (obytes_of_tok s0, obytes_of_tok e0, false, bool_of_tok asc)
                | _ -> RIter (obytes_of_tok s0, obytes_of_tok e0, true, bool_of_tok asc)) in
            (match snd (m_step !st (ORead (tg, rd))) with
             | XKvs l ->
                 let n = int_of_string n in
                 let rec take k = function [] -> [] | x :: r -> if k <= 0 then [] else x :: take (k - 1) r in
                 Printf.sprintf "st(%b;%s)" (List.length l >= n) (show_out (XKvs (take n l)))
             | _ -> "err")
        | [ "r"; t; "gproof"; k ] ->
            let tg = parse_target t in
            let q r = snd (m_step !st (ORead (tg, r))) in
            (match q RSize with
             | XErr -> "err"
             | XInt z when int_of_z z = 0 -> "*"
             | _ -> (match q (RGet (bytes_of_tok k)) with XBytes (Some _) -> "pk:mem:t" | _ -> "pk:non:t"))
        | [ "r"; t; "proof"; k ] ->
            (* C03 oracle: the expected kind comes from the model's lookup; verification and the
               negative checks are done by the real ICS-23 verifier inside the harness *)
            let tg = parse_target t in
            let q r = snd (m_step !st (ORead (tg, r))) in
            (match q RSize with
             | XErr -> "err"
             | XInt z when int_of_z z = 0 -> "*"
             | _ ->
                 (match q (RGet (bytes_of_tok k)) with
                  | XBytes (Some _) -> "pf(mem,t,t)"
                  | _ -> "pf(non,t,t)"))
        | _ ->
            let o = parse_op toks in
            let s', x = m_step !st o in
            st := s';
            show_out x in
  (* the memoising machine (Memo.memo_step: node.hash, hashWithCount, saveNewNodes,
     resetUnsavedHashes) runs alongside from the start of the case for as long as the same tree
     object is written, hashed and committed; what it returns for WorkingHash / SaveVersion must
     be what M1 returns (the conclusion of MemoFacts.run_refines evaluated on this history; M1's
     answer is the one compared with the implementation). With "ivlate" the harness sets the
     initial version through SetInitialVersion after the first writes and a WorkingHash. *)
  let cfgl = String.split_on_char ',' (header_param params "cfg" "") in
  let ivlate = List.mem "ivlate=true" cfgl && iv <> "-" in
  let mm : memo_state option ref =
    ref (if is_legacy then None else Some (memo_init (if iv = "-" || ivlate then None else Some (z_of_string iv)))) in
  let iv_pending = ref ivlate in
  let mdo (o : mop) : mout option =
    match !mm with
    | None -> None
    | Some s -> let s', x = memo_step_sha s o in mm := Some s'; Some x in
  (* "ivlate": the harness queries the working hash after every odd-numbered write made before
     SetInitialVersion (set and rm calls, accepted or not) *)
  let iv_writes = ref 0 in
  let early_write () =
    if !iv_pending then begin
      incr iv_writes;
      if !iv_writes mod 2 = 1 then ignore (mdo MWorkingHash)
    end in
  let memo_mirror (toks : string list) (r : string) : string =
    if !mm = None then r
    else begin
      (match toks with
       | "set" :: _ | "rm" :: _ -> ()
       | _ -> if !iv_pending then begin
                iv_pending := false;
                (* VERIF_MEMO_NORESET: self-test of the mirror (the unrepaired SetInitialVersion) *)
                ignore (mdo (MSetIV (z_of_string iv, Sys.getenv_opt "VERIF_MEMO_NORESET" = None)))
              end);
      match toks with
      | [ "set"; k; v ] ->
          if v <> "-" then ignore (mdo (MSet (bytes_of_tok k, bytes_of_tok v)));
          early_write (); r
      | [ "rm"; k ] -> ignore (mdo (MRemove (bytes_of_tok k))); early_write (); r
      | [ "whash" ] | [ "r"; "w"; "hash" ] ->
          (match mdo MWorkingHash with
           | Some (MOHash h) when "b:" ^ hex_of_bytes h <> r -> "modelfail:memo machine working hash " ^ hex_of_bytes h ^ " M1 " ^ r
           | _ -> r)
      | "r" :: "w" :: ("proof" | "gproof" | "proofbytes") :: _ | [ "touch"; "w"; _ ] | "r" :: "w" :: "touch" :: _ ->
          ignore (mdo MWorkingHash); r
      | [ "save" ] | [ "wsave" ] | [ "ctab"; "save" ] ->
          (match mdo MSave with
           | Some (MOSaved (h, v)) ->
               let m = Printf.sprintf "(b:%s,i:%s)" (hex_of_bytes h) (string_of_z v) in
               if toks = [ "save" ] && m <> r then "modelfail:memo machine save " ^ m ^ " M1 " ^ r else r
           | Some MOOutOfDomain | None -> mm := None; r
           | Some _ -> r)
      | "r" :: _ | [ "avail" ] | [ "latest" ] | [ "wver" ] | [ "hash" ] | [ "davail" ] | [ "isempty" ] | [ "fastflags" ] | [ "dbstring" ]
      | "vexists" :: _ | "getv" :: _ | "audit" :: _ | "changes" :: _ | "prune" :: _ | "wprune" :: _ | "expimp" :: _
      | "cost" :: _ | [ "costsweep" ] | "pintest" :: _ | "x" :: _ -> r
      | _ -> mm := None; r (* the tree object is replaced, reloaded or rolled back: outside Memo's machine *)
    end in
  { step = (fun toks ->
        prev := !st;
        let r = step1 toks in
        legacy_note toks r !prev !st;
        v2_note toks r;
        (* out-of-contract operations raise above; a failed model step changes nothing below *)
        if Sys.getenv_opt "VERIF_NOFMIRROR" = None then fmirror toks;
        memo_mirror toks r);
    classify = (fun toks model impl ->
        let rec strip = function ("fault" | "cost") :: (("r" :: _) as rest) -> strip rest | l -> l in
        match strip toks with
        | [ "r"; t; ("proof" | "gproof"); k ] ->
            (* C03-empty-value: ICS-23 rejects empty values, so a leaf with an empty value has no
               verifying existence proof, neither as the proved key nor as a bracketing neighbour *)
            let tg = parse_target t in
            let q r = snd (m_step !prev (ORead (tg, r))) in
            let empty_at i =
              (match q (RGetByIndex (z_of_int i)) with
               | XPair (_, XBytes (Some [])) -> true
               | _ -> false) in
            let empty_key_at i =
              (match q (RGetByIndex (z_of_int i)) with
               | XPair (XBytes (Some []), XBytes (Some _)) -> true
               | _ -> false) in
            (match q (RGetWithIndex (bytes_of_tok k)) with
             | XPair (_, XBytes (Some _)) when bytes_of_tok k = [] -> Some "C03-empty-key"
             | XPair (XInt i, XBytes None) when int_of_z i = 1 && empty_key_at 0 -> Some "C03-empty-key"
             | XPair (_, XBytes (Some [])) -> Some "C03-empty-value"
             | XPair (XInt i, XBytes None) ->
                 let i = int_of_z i in
                 if empty_at (i - 1) || empty_at i then Some "C03-empty-value" else None
             | _ -> None)
        | _ ->
            (* C07-unloaded-object-stale-index: a tree object on which no load has succeeded
               serves reads through an index whose label nobody has compared with the latest
               version. Recognised exactly: the object is unloaded, the index is enabled, and the
               implementation answers what the faithful index model (FastLife.fstep) computes
               in that state (FastLifeFacts.openat_failed_refuted) *)
            let unloaded = (int_of_z !fs.ms.version = 0 && !fs.ms.forest <> [] && not !fs.skipf) in
            let tv t = z_of_string (String.sub t 1 (String.length t - 1)) in
            let via_index =
              (if not unloaded then None
               else match toks with
                 | [ "r"; t; "get"; k ] when t <> "w" -> Some (FGetImm (tv t, bytes_of_tok k))
                 | [ "getv"; k; v ] -> Some (FGetVersioned (bytes_of_tok k, z_of_string v))
                 | [ "r"; t; "iter"; "-"; "-"; "0"; "1" ] when t <> "w" -> Some (FIterImm (tv t))
                 | _ -> None) in
            (match via_index with
             | Some o when show_out (snd (fstep_sha !fs o)) = impl -> Some "C07-unloaded-object-stale-index"
             | _ ->
                 (* C14-stale-root-key, reads of a deleted version: recognised exactly - the
                    implementation must answer what the physical model computes by loading that
                    version from the model's physical store (PruneAlgo.load_version on phys_of) *)
                 (match toks with
                  | "r" :: t :: (("get" | "has" | "gwi" | "gbi" | "size" | "height" | "hash" | "iter" | "iterr" | "iteri" | "iterate") :: _ as rd)
                    when t <> "w" && model = "err" && not is_legacy ->
                      let n = z_of_string (String.sub t 1 (String.length t - 1)) in
                      let phys = phys_of !rk !st.forest in
                      let rec nat_of_int k = if k <= 0 then O else S (nat_of_int (k - 1)) in
                      (match load_version_sha (nat_of_int (List.length phys + 1)) phys n with
                       | POk tr ->
                           let tmp = { !st with forest = [ (n, tr) ] } in
                           let predicted = (try show_out (snd (m_step tmp (ORead (TVersion n, parse_read rd)))) with _ -> "?") in
                           if predicted = impl then Some "C14-stale-root-key" else None
                       | _ -> None)
                  | "fault" :: "prune" :: _
                    when is_legacy && starts_with "fl(viol,op=prune_" impl
                         && (try ignore (Str.search_forward (Str.regexp_string ",kind=writefailedok,") impl 0); true with Not_found -> false)
                         && (let l = z_of_string (header_param params "legacy" "0") in
                             match !prev.forest with (w, _) :: _ -> Z.leb w l | [] -> false) ->
                      (* C17-legacy-prune-error-swallowed: the database still holds legacy versions
                         (the first retained version is at or below the legacy boundary) and the only
                         symptom is the unreported write failure: the state left behind reopens to
                         the state before or after (any other symptom kind is joined with '+') *)
                      Some "C17-legacy-prune-error-swallowed"
                  | _ -> classify_m1 !prev toks model impl)));
    dump = (fun () ->
        (* the database image written by the proved encoder of the whole image (DbImage.encode_image)
           from the model's physical store, index and label *)
        String.concat ";" (List.map (fun (k, v) -> hex_of_bytes k ^ "=" ^ hex_of_bytes v)
                             (encode_image (phys_of !rk !st.forest) !fs.fidx !fs.dlabel))) }

(* ---------- machine kv: the storage backends (C18) ---------- *)
let show_kverr = function ErrKeyEmpty -> "err:key" | ErrValueNil -> "err:val" | ErrBatchClosed -> "err:closed"
let show_pairs (l : (bytes * bytes) list) : string =
  "kv:[" ^ String.concat "," (List.map (fun (k, v) -> hex_of_bytes k ^ "=" ^ hex_of_bytes v) l) ^ "]"
let show_kvout (o : kvout) : string =
  match o with
  | OErr e -> show_kverr e
  | OPanic -> "panic"
  | OFuel -> "modelfuel"
  | OOk -> "ok"
  | OBytes None -> "nil"
  | OBytes (Some b) -> "b:" ^ hex_of_bytes b
  | OBool b -> if b then "t" else "f"
  | OPairs l -> show_pairs l
  | OBatch rs -> "bt[" ^ String.concat "," (List.map (function None -> "ok" | Some e -> show_kverr e) rs) ^ "]"

(* keys: nil and empty are both the empty key; values and bounds keep nil apart *)
let key_tok (s : string) : bytes = if s = "-" || s = "." then [] else bytes_of_tok s
let parse_bops (tok : string) : bop list =
  if tok = "." then []
  else List.map (fun p ->
      match String.split_on_char ':' p with
      | [ "s"; k; v ] -> ((true, key_tok k), obytes_of_tok v)
      | [ "d"; k ] -> ((false, key_tok k), None)
      | _ -> failwith "bad bop") (String.split_on_char ',' tok)

let parse_kvop (toks : string list) : kvop =
  match toks with
  | [ "get"; k ] -> KGet (key_tok k)
  | [ "has"; k ] -> KHas (key_tok k)
  | [ "set"; k; v ] -> KSet (key_tok k, obytes_of_tok v)
  | [ "del"; k ] -> KDelete (key_tok k)
  | [ "iter"; a; b ] -> KIter (obytes_of_tok a, obytes_of_tok b)
  | [ "riter"; a; b ] -> KRIter (obytes_of_tok a, obytes_of_tok b)
  | [ "batch"; o1; m; o2 ] -> KBatch (parse_bops o1, m = "w", parse_bops o2)
  | _ -> failwith ("bad kv op: " ^ String.concat " " toks)

let make_kv (params : string list) : machine =
  let backend = header_param params "backend" "memdb" in
  let prefix = bytes_of_tok (header_param params "prefix" "73") in
  let seed = header_param params "seed" "." in
  let m0 =
    if seed = "." then []
    else List.fold_left (fun m p ->
        match String.split_on_char '=' p with
        | [ k; v ] -> kv_set m (bytes_of_tok k) (bytes_of_tok v)
        | _ -> m) [] (String.split_on_char ',' seed) in
  let stepf =
    (match backend with
     | "memdb" -> mem_step
     | "leveldb" -> ldb_step
     | "prefixmem" -> prefix_step mem_step prefix
     | "prefixleveldb" -> prefix_step ldb_step prefix
     | _ -> failwith "unknown backend") in
  let st = ref m0 in
  { step = (fun toks ->
        match toks with
        | [ "base" ] -> show_pairs !st
        | _ ->
            let m', o = stepf !st (parse_kvop toks) in
            st := m';
            show_kvout o);
    classify = (fun _ _ _ -> None); dump = (fun () -> "") }

(* ---------- machine imp: the importer on arbitrary streams (C10) ---------- *)
let parse_stream (tok : string) : enode option list =
  if tok = "." then []
  else List.map (fun p ->
      if p = "N" then None
      else match String.split_on_char ':' p with
        | [ k; v; ver; h ] ->
            Some { e_key = obytes_of_tok k; e_value = obytes_of_tok v; e_version = z_of_string ver; e_height = z_of_string h }
        | _ -> failwith "bad stream node") (String.split_on_char ';' tok)

let make_imp (_ : string list) : machine =
  { step = (fun toks ->
        match toks with
        | [ "imp"; v; codec; stream ] ->
            let r = (if codec = "compress" then cimp_run_sha (z_of_string v) (parse_stream stream)
                     else imp_run_sha (z_of_string v) (parse_stream stream)) in
            (match r with
             | IOk _ -> "ok;vis=" ^ (if int_of_string v = 0 then "none" else "v" ^ v)
             | IErr -> "err;vis=none"
             | IPanic -> "panic")
        | _ -> failwith "bad imp op");
    classify = (fun _ _ _ -> None); dump = (fun () -> "") }

(* ---------- machine dec: the decoders of stored bytes on arbitrary input (C13) ---------- *)
let rec int64_of_pos (p : positive) : int64 =
  match p with
  | XH -> 1L
  | XO q -> Int64.mul 2L (int64_of_pos q)
  | XI q -> Int64.add (Int64.mul 2L (int64_of_pos q)) 1L
let dec_of_n (x : n) : string = match x with N0 -> "0" | Npos p -> Printf.sprintf "%Lu" (int64_of_pos p)
let dec_of_z (x : z) : string =
  match x with Z0 -> "0" | Zpos p -> Printf.sprintf "%Lu" (int64_of_pos p) | Zneg p -> "-" ^ Printf.sprintf "%Lu" (int64_of_pos p)
let empty_tok (s : string) : bytes = if s = "." || s = "-" then [] else bytes_of_tok s
let ref_hex (c : child_ref) : string =
  match c with
  | RefNew (v, n) -> hex_of_bytes (node_key_bytes v n)
  | RefLegacy h -> hex_of_bytes h
  | RefNone -> ""

let make_dec (_ : string list) : machine =
  { step = (fun toks ->
        match toks with
        | [ "dec"; "uvarint"; b ] ->
            (match uvarint_dec (empty_tok b) with Some (v, n) -> Printf.sprintf "ok:%s,%d" (dec_of_n v) (int_of_nat n) | None -> "err")
        | [ "dec"; "varint"; b ] ->
            (match varint_dec (empty_tok b) with Some (v, n) -> Printf.sprintf "ok:%s,%d" (dec_of_z v) (int_of_nat n) | None -> "err")
        | [ "dec"; "bytes"; b ] ->
            (match bytes_dec (empty_tok b) with Some (x, n) -> Printf.sprintf "ok:%s,%d" (hex_of_bytes x) (int_of_nat n) | None -> "err")
        | [ "dec"; "node"; b; nk ] ->
            let nkb = empty_tok nk in
            (match decode_node nkb (empty_tok b) with
             | DOk n ->
                 let ver = (match parse_node_key nkb with DOk (v, _) -> dec_of_z v | _ -> "?") in
                 (match n.rn_value with
                  | Some v -> Printf.sprintf "ok:L,h=%s,s=%s,ver=%s,k=%s,v=%s" (dec_of_z n.rn_height) (dec_of_z n.rn_size) ver (hex_of_bytes n.rn_key) (hex_of_bytes v)
                  | None -> Printf.sprintf "ok:I,h=%s,s=%s,ver=%s,k=%s,hash=%s,l=%s,r=%s" (dec_of_z n.rn_height) (dec_of_z n.rn_size) ver
                              (hex_of_bytes n.rn_key) (hex_of_bytes n.rn_hash) (ref_hex n.rn_left) (ref_hex n.rn_right))
             | DErr -> "err"
             | DPanic -> "panic")
        | [ "dec"; "legacy"; b; h ] ->
            (match decode_legacy_node (empty_tok h) (empty_tok b) with
             | DOk n ->
                 (match n.ln_value with
                  | Some v -> Printf.sprintf "ok:L,h=%s,s=%s,ver=%s,k=%s,v=%s" (dec_of_z n.ln_height) (dec_of_z n.ln_size) (dec_of_z n.ln_version) (hex_of_bytes n.ln_key) (hex_of_bytes v)
                  | None -> Printf.sprintf "ok:I,h=%s,s=%s,ver=%s,k=%s,hash=%s,l=%s,r=%s" (dec_of_z n.ln_height) (dec_of_z n.ln_size) (dec_of_z n.ln_version)
                              (hex_of_bytes n.ln_key) (hex_of_bytes (empty_tok h)) (hex_of_bytes n.ln_left) (hex_of_bytes n.ln_right))
             | DErr -> "err"
             | DPanic -> "panic")
        | [ "dec"; "fast"; b; k ] ->
            (match decode_fast_node (empty_tok k) (empty_tok b) with
             | DOk n -> Printf.sprintf "ok:F,ver=%s,v=%s" (dec_of_z n.fn_version) (hex_of_bytes n.fn_value)
             | DErr -> "err"
             | DPanic -> "panic")
        | [ "dec"; "getroot"; b ] ->
            (* GetRoot + GetNode + Get on a store holding a one-leaf version 1 (6b -> 76) and this
               value as the root entry of version 2 *)
            let bb = empty_tok b in
            let nk21 = node_key_bytes (z_of_int 2) (z_of_int 1) in
            let as_node () =
              (match decode_node nk21 bb with
               | DErr -> "err"
               | DPanic -> "panic"
               | DOk n ->
                   (match n.rn_value with
                    | Some v -> if hex_of_bytes n.rn_key = "6b" then "ok:" ^ (if v = [] then "" else hex_of_bytes v) else "ok:nil"
                    | None -> "*")) in
            let at (ver : z) (nonce : z) =
              (* compared as Z values: a version such as 0x8000000000000001 does not fit an OCaml int *)
              if ver = z_of_int 1 && nonce = z_of_int 1 then "ok:76"
              else if ver = z_of_int 2 && nonce = z_of_int 1 then as_node ()
              else "err" in
            (match classify_root bb with
             | RootEmpty -> "ok:nil"
             | RootRef13 (ver, nonce) ->
                 (* a missing target falls back to (ver,0), which is never present here *)
                 at ver nonce
             | RootRef9 ver -> at ver (z_of_int 1)
             | RootBadRef -> "err"
             | RootNode -> as_node ())
        | [ "dec"; "root"; b ] ->
            let bb = empty_tok b in
            (match classify_root bb with
             | RootEmpty -> "ok:empty"
             | RootNode -> "ok:false,0"
             | _ -> Printf.sprintf "ok:true,%d" (List.length bb))
        | _ -> failwith "bad dec op");
    classify = (fun _ _ _ -> None); dump = (fun () -> "") }

let machines : (string * (string list -> machine)) list ref =
  ref [ ("m1", make_m1); ("m1l", make_m1); ("kv", make_kv); ("imp", make_imp); ("dec", make_dec) ]

(* ---------- trace replay ---------- *)
let split_ws s = List.filter (fun x -> x <> "") (String.split_on_char ' ' s)

let () =
  let cases = ref 0 and ops = ref 0 and mism = ref 0 and skipped = ref 0 and ooc = ref 0 in
  let cur : machine option ref = ref None in
  let cur_id = ref "" in
  let lineno = ref 0 in
  let args = Array.to_list Sys.argv in
  let echo = List.mem "--echo" args in
  let emit_db = List.mem "--emit-db" args in
  let known = ref [] and nknown = ref 0 in
  List.iter (fun a -> if starts_with "--known=" a then
                known := String.split_on_char ',' (String.sub a 8 (String.length a - 8))) args;
  (try
     while true do
       let line = input_line stdin in
       incr lineno;
       if String.length line = 0 || line.[0] = '#' then ()
       else if String.length line > 2 && String.sub line 0 2 = "C " then begin
         match split_ws line with
         | _ :: id :: kind :: params ->
             incr cases;
             cur_id := id;
             (match List.assoc_opt kind !machines with
              | Some mk -> cur := Some (mk params)
              | None -> failwith ("unknown machine " ^ kind))
         | _ -> failwith "bad case header"
       end
       else if line = "E" then begin
         (match !cur with
          | Some m when emit_db -> Printf.printf "DB %s %s\n" !cur_id (m.dump ())
          | _ -> ());
         cur := None
       end
       else begin
         match !cur with
         | None -> ()
         | Some m ->
             let opstr, expected =
               match Str.bounded_split_delim (Str.regexp_string " => ") line 2 with
               | [ a; b ] -> (a, Some b)
               | [ a ] -> (a, None)
               | _ -> (line, None)
             in
             incr ops;
             current_expected := expected;
             let got = try m.step (split_ws opstr) with
               | Failure msg -> "modelfail:" ^ msg
               | Out_of_contract -> "out-of-contract" in
             if got = "out-of-contract" then begin
               incr ooc; cur := None;
               Printf.printf "OUTOFCONTRACT case=%s line=%d op=[%s]\n" !cur_id !lineno opstr
             end else
             (match expected with
              | None -> if echo then Printf.printf "%s => %s\n" opstr got else incr skipped
              | Some e ->
                  if e <> got && not (got = "*" && not (starts_with "panic" e)) && not (entrywise_match got e)
                     && not (got = "panic" && starts_with "panic" e) && not (raw_match got e)
                     && not (crash_match got e) then begin
                    match (if List.length !known = 0 then None else m.classify (split_ws opstr) got e) with
                    | Some f when List.mem f !known ->
                        incr nknown;
                        Printf.printf "KNOWN finding=%s case=%s line=%d op=[%s] model=%s impl=%s\n" f !cur_id !lineno opstr got e
                    | _ ->
                        incr mism;
                        Printf.printf "MISMATCH case=%s line=%d op=[%s] model=%s impl=%s\n" !cur_id !lineno opstr got e
                  end)
       end
     done
   with End_of_file -> ());
  Printf.printf "SUMMARY cases=%d ops=%d mismatches=%d known=%d unchecked=%d outofcontract=%d\n" !cases !ops !mism !nknown !skipped !ooc;
  exit (if !mism > 0 then 1 else 0)
