(** PruneAlgoFacts11 (Stage 6): the physical node store along a history.

    [phys_step]: a commit applies the node writes of [Store.commit_ops], DeleteVersionsTo runs the
    physical algorithm [prune_forest] (on the store's own list of re-keyed versions, with a flush
    schedule and a flush mode taken from an oracle), LoadVersionForOverwriting applies
    [Store.rollback_ops] computed from the physical store, nothing else writes nodes.
    [phys_run_inv]: for every in-contract history and all oracles the physical store is
    [phys_of r (forest s)] with [rekey_ok r (forest s)] after every step - or [H] collides. *)
From Coq Require Import Lia Sorted.
From IAVL Require Import Bytes Varint Tree VMap TreeFacts MTree MTreeFacts HashFacts VersionFacts
  Store StoreFacts PruneAlgo PruneAlgoFacts1 PruneAlgoFacts2 PruneAlgoFacts3 PruneAlgoFacts4
  PruneAlgoFacts5 PruneAlgoFacts6 PruneAlgoFacts7 PruneAlgoFacts8 PruneAlgoFacts9 PruneAlgoFacts10.
Local Open Scope Z_scope.

(** ** [rekey] commutes with writes on versions that are not re-keyed *)
Lemma in_existsb_eqb r w : existsb (Z.eqb w) r = true <-> In w r.
Proof. exact (in_r_true r w). Qed.

Lemma rkk_id r p : ~ In (fst (fst p)) r -> rkk r p = p.
Proof.
  intros N. unfold rkk. destruct (snd p); try reflexivity.
  destruct (existsb (Z.eqb (fst (fst p))) r) eqn:E; [apply in_existsb_eqb in E; contradiction|].
  rewrite andb_false_r. reflexivity.
Qed.

Lemma kcmp_fst_ne a b b' : fst a <> fst b -> fst b' = fst b -> kcmp a b' = kcmp a b.
Proof.
  intros N E. unfold kcmp. rewrite E. destruct (fst a ?= fst b) eqn:C; try reflexivity.
  apply Z.compare_eq in C. contradiction.
Qed.

Lemma kcmp_rkk r k p : ~ In (fst k) r -> kcmp k (fst (rkk r p)) = kcmp k (fst p).
Proof.
  intros N. destruct (in_dec Z.eq_dec (fst (fst p)) r) as [I|NI].
  - apply kcmp_fst_ne; [intros E; rewrite E in N; contradiction|apply rkk_fst].
  - rewrite (rkk_id r p NI). reflexivity.
Qed.

Lemma rekey_mset r k e st :
  ~ In (fst k) r -> rekey r (mset kcmp k e st) = mset kcmp k e (rekey r st).
Proof.
  intros N. rewrite !rekey_map. induction st as [|[k1 e1] st IH]; cbn [mset map].
  - rewrite (rkk_id r (k, e)) by exact N. reflexivity.
  - destruct (rkk r (k1, e1)) as [k1' e1'] eqn:R.
    pose proof (kcmp_rkk r k (k1, e1) N) as Kc. rewrite R in Kc. cbn [fst] in Kc. rewrite Kc.
    destruct (kcmp k k1) eqn:C; cbn [map].
    + rewrite (rkk_id r (k, e)) by exact N. reflexivity.
    + rewrite (rkk_id r (k, e)) by exact N. rewrite R. reflexivity.
    + rewrite R, IH. reflexivity.
Qed.

Lemma rekey_mdel r k st :
  ~ In (fst k) r -> rekey r (mdel kcmp k st) = mdel kcmp k (rekey r st).
Proof.
  intros N. rewrite !rekey_map. induction st as [|[k1 e1] st IH]; cbn [mdel map]; [reflexivity|].
  destruct (rkk r (k1, e1)) as [k1' e1'] eqn:R.
  pose proof (kcmp_rkk r k (k1, e1) N) as Kc. rewrite R in Kc. cbn [fst] in Kc. rewrite Kc.
  destruct (kcmp k k1) eqn:C; cbn [map].
  - reflexivity.
  - rewrite R. reflexivity.
  - rewrite R, IH. reflexivity.
Qed.

Definition ver_free (r : list Z) (o : wop) : Prop :=
  match o with
  | WSet (KNode k) _ | WDel (KNode k) => ~ In (fst k) r
  | _ => True
  end.

Lemma rekey_sapply r o st : ver_free r o -> rekey r (sapply st o) = sapply (rekey r st) o.
Proof.
  destruct o as [[k|k|] [e|e|e]|[k|k|]]; cbn [ver_free sapply]; intros N; try reflexivity.
  - apply rekey_mset, N.
  - apply rekey_mdel, N.
Qed.

Lemma rekey_sapply_all r ops : forall st,
  Forall (ver_free r) ops -> rekey r (sapply_all st ops) = sapply_all (rekey r st) ops.
Proof.
  unfold sapply_all. induction ops as [|o ops IH]; intros st F; [reflexivity|].
  inversion F; subst. cbn [fold_left]. rewrite IH by assumption. rewrite rekey_sapply by assumption.
  reflexivity.
Qed.

Lemma nodes_apply_ops ops : forall d, nodes (apply_ops d ops) = sapply_all (nodes d) ops.
Proof.
  unfold apply_ops, sapply_all. induction ops as [|o ops IH]; intros d; [reflexivity|].
  cbn [fold_left]. rewrite IH. f_equal.
  destruct o as [[k|k|] [e|e|e]|[k|k|]]; reflexivity.
Qed.

(** ** The re-keyed versions of a physical store *)
Lemma rekeyed_phys r f :
  forest_inv f -> NoDup (map fst f) -> rekey_ok r f -> rekeyed (phys_of r f) = r.
Proof.
  intros FI ND [Sr RK].
  apply (sorted_same_elements Z.lt); [intros x; lia|intros x y; lia| |exact Sr|].
  - apply rekeyed_sorted, phys_sorted, FI.
  - intros w. rewrite rekeyed_In. split.
    + intros (e & I). apply (phys_In f FI ND) in I.
      destruct I as [(u & Su & K & _)|(v & rt & _ & E)].
      * destruct (pkey_cases r u) as [(_ & Ir & K')|(_ & K')]; rewrite K' in K.
        -- inversion K; subst. exact Ir.
        -- pose proof (sub_of_nonce f FI u Su). unfold node_key in K. inversion K. lia.
      * destruct (root_entry_Some _ _ _ _ E) as [Q _]. inversion Q.
    + intros Iw. destruct (RK w Iw) as (_ & u & Su & Ku). exists (ENode (snode_of u)).
      apply (phys_In f FI ND). left. exists u. split; [exact Su|]. split; [|reflexivity].
      unfold node_key in Ku. inversion Ku as [[Vu Nu]].
      destruct (pkey_cases r u) as [(_ & _ & K')|([A|A] & _)]; [rewrite K', Vu; reflexivity| |];
        [contradiction|rewrite Vu in A; contradiction].
Qed.

(** ** The physical history *)
Definition phys_step (H : bytes -> bytes) (fast : bool) (s : mstate) (st : store) (o : op)
           (orc : list bool * bool) : store :=
  match o with
  | OSave => sapply_all st (commit_ops H fast s)
  | OPrune n =>
      if latest_version s <=? n then st
      else
        match prune_forest H (snd orc) (rekeyed st) (forest s) (fst orc) n with
        | POk (st', _, _) => st'
        | _ => st
        end
  | OLvfo v =>
      match do_lvfo s v with
      | (_, XOk) => sapply_all st (rollback_ops (Db st [] None) v)
      | _ => st
      end
  | _ => st
  end.

(** every state of the run, the initial one first *)
Fixpoint phys_trace (H : bytes -> bytes) (fast : bool) (s : mstate) (st : store) (ops : list op)
         (orcs : list (list bool * bool)) : list (mstate * store) :=
  (s, st) ::
  match ops with
  | [] => []
  | o :: rest =>
      phys_trace H fast (fst (step H s o)) (phys_step H fast s st o (hd ([], false) orcs)) rest (tl orcs)
  end.

Definition phys_inv (p : mstate * store) : Prop :=
  exists r, snd p = phys_of r (forest (fst p)) /\ rekey_ok r (forest (fst p)).

(** the numbers of every forest met fit int64 *)
Fixpoint bounded_run (H : bytes -> bytes) (s : mstate) (ops : list op) : Prop :=
  forest_bounds (forest s) /\
  match ops with
  | [] => True
  | o :: rest => bounded_run H (fst (step H s o)) rest
  end.

Lemma first_of_forest_app (f g : forest_t) : f <> [] -> first_of_forest (f ++ g) = first_of_forest f.
Proof. destruct f; [congruence|reflexivity]. Qed.

Lemma rekey_ok_nonempty r f w : rekey_ok r f -> In w r -> f <> [].
Proof. intros [_ RK] I -> . destruct (RK w I) as (_ & u & (v & t & [] & _) & _). Qed.

Lemma first_in_forest (f : forest_t) : f <> [] -> exists rt, In (first_of_forest f, rt) f.
Proof. destruct f as [|[v rt] f]; [congruence|]. intros _. exists rt. left. reflexivity. Qed.

Section History.
  Variable H : bytes -> bytes.
  Hypothesis Hlen : forall x, length (H x) = 32%nat.
  Variable fast : bool.

  Lemma save_inv s st :
    store_ok H s -> phys_inv (s, st) -> phys_inv (fst (step H s OSave), phys_step H fast s st OSave ([], false)).
  Proof.
    intros SO (r & Est & RK). cbn [fst snd] in *. cbn [step phys_step].
    pose proof SO as [SI HI C FI B].
    set (E := expected_store (forest s)).
    pose proof (commit_exact H fast s (Db E [] None) SO eq_refl) as CE.
    rewrite nodes_apply_ops in CE. cbn [nodes] in CE.
    assert (VF : Forall (ver_free r) (commit_ops H fast s)).
    { destruct (lookup (working_version s) (forest s)) as [e0|] eqn:L.
      - rewrite (commit_ops_old H fast s e0 L). constructor.
      - rewrite (commit_ops_new H fast s L). apply Forall_app. split.
        + eapply Forall_impl; [|apply meta_not_node].
          intros o No. destruct o as [[k|k|] [e|e|e]|[k|k|]]; cbn in No |- *; try exact I; discriminate.
        + rewrite commit_node_ops_eq. apply Forall_forall. intros o Io. apply in_map_iff in Io.
          destruct Io as ([k e] & <- & Ip). cbn [set_node ver_free fst snd].
          destruct (commit_keys_fresh H s SO L _ Ip) as [Vk _]. cbn [fst] in Vk. rewrite Vk.
          intros Ir. destruct RK as [_ RK]. destruct (RK _ Ir) as (Lt & u & (v & t & Iv & _) & _).
          destruct (save_fresh H s SO L) as (_ & Fr & _).
          assert (NE : forest s <> []) by (intros Q; rewrite Q in Iv; contradiction).
          destruct (first_in_forest (forest s) NE) as (rt & If). specialize (Fr _ _ If). lia. }
    exists r. cbn [fst snd]. split.
    - rewrite Est. unfold phys_of. fold E. rewrite <- (rekey_sapply_all r _ E VF), CE. reflexivity.
    - destruct (lookup (working_version s) (forest s)) as [e0|] eqn:L.
      + rewrite (do_save_old_forest H s e0 L). exact RK.
      + destruct (do_save_new_forest H s L) as (Ef & _). rewrite Ef.
        destruct RK as [Sr RK]. split; [exact Sr|]. intros w Iw.
        destruct (RK w Iw) as (Lt & u & (v & t & Iv & Su) & Ku).
        assert (NE : forest s <> []) by (intros Q; rewrite Q in Iv; contradiction).
        rewrite (first_of_forest_app _ _ NE). split; [exact Lt|].
        exists u. split; [|exact Ku]. exists v, t. split; [apply in_or_app; left; exact Iv|exact Su].
  Qed.

  Lemma store_latest_rekey r st : store_latest (rekey r st) = store_latest st.
  Proof.
    unfold store_latest. rewrite rekey_map. generalize 0 as a.
    induction st as [|p st IH]; intros a; cbn [map fold_left]; [reflexivity|].
    rewrite rkk_fst. apply IH.
  Qed.

  Lemma rollback_keys_rekey r v st :
    (forall w, In w r -> w <= v) ->
    map fst (filter (fun p => v <? fst (fst p)) (rekey r st)) =
    map fst (filter (fun p => v <? fst (fst p)) st).
  Proof.
    intros Hr. rewrite rekey_map. induction st as [|p st IH]; cbn [map filter]; [reflexivity|].
    rewrite rkk_fst. destruct (v <? fst (fst p)) eqn:C; [|exact IH].
    cbn [map]. rewrite IH. f_equal. rewrite rkk_id; [reflexivity|].
    intros I. specialize (Hr _ I). apply Z.ltb_lt in C. lia.
  Qed.

  Lemma lvfo_inv s st v :
    store_ok H s -> 1 <= v -> phys_inv (s, st) ->
    phys_inv (fst (step H s (OLvfo v)), phys_step H fast s st (OLvfo v) ([], false)).
  Proof.
    intros SO Pv (r & Est & RK). cbn [fst snd] in *. cbn [step phys_step].
    pose proof SO as [SI HI C FI B]. pose proof (inv_nodup s SI) as ND.
    pose proof (contig_forest_ok s C) as OK.
    unfold do_lvfo. destruct (do_load_pos s v ltac:(lia)) as [E|(r0 & L & E)]; rewrite E.
    { cbn [fst]. exists r. auto. }
    cbn [fst forest].
    assert (Iv : In v (map fst (forest s))).
    { apply in_map_iff. exists (v, r0). split; [reflexivity|apply lookup_In, L]. }
    assert (NE : forest s <> []) by (intros Q; rewrite Q in Iv; contradiction).
    destruct (forest_ok_range _ _ OK NE) as (R1 & _ & _).
    pose proof (proj1 (forest_ok_In _ _ v OK) Iv) as [_ Rv].
    assert (Hr : forall w, In w r -> w <= v).
    { intros w Iw. destruct RK as [_ RK]. destruct (RK w Iw) as (Lt & _).
      rewrite first_of_forest_eq in Lt. lia. }
    set (Ex := expected_store (forest s)).
    pose proof (rollback_exact_forest (forest s) (init_ver s) (Db Ex [] None) v FI OK ND Iv eq_refl) as RE.
    rewrite nodes_apply_ops in RE. cbn [nodes] in RE.
    assert (Eops : rollback_ops (Db st [] None) v = rollback_ops (Db Ex [] None) v).
    { unfold rollback_ops. cbn [nodes label]. rewrite Est. unfold phys_of. fold Ex.
      rewrite store_latest_rekey, (rollback_keys_rekey r v Ex Hr). reflexivity. }
    assert (VF : Forall (ver_free r) (rollback_ops (Db Ex [] None) v)).
    { unfold rollback_ops. cbn [nodes label]. destruct (store_latest Ex <? v + 1); [constructor|].
      rewrite app_nil_r. apply Forall_forall. intros o Io. apply in_map_iff in Io.
      destruct Io as (k & <- & Ik). cbn [del_node ver_free]. apply in_map_iff in Ik.
      destruct Ik as (p & <- & Ip). apply filter_In in Ip. destruct Ip as [_ Cp].
      apply Z.ltb_lt in Cp. intros Ir. specialize (Hr _ Ir). lia. }
    exists r. cbn [fst snd forest]. split.
    - rewrite Eops, Est. unfold phys_of. fold Ex. rewrite <- (rekey_sapply_all r _ Ex VF), RE. reflexivity.
    - destruct RK as [Sr RK]. split; [exact Sr|]. intros w Iw.
      destruct (RK w Iw) as (Lt & u & (x & t & Ix & Su) & Ku).
      assert (Ef : first_of_forest (filter (fun p => fst p <=? v) (forest s)) = first_of_forest (forest s)).
      { rewrite first_of_forest_eq in *. destruct (forest s) as [|[a y] f1]; [congruence|].
        cbn [first_of] in *. cbn [filter fst]. replace (a <=? v) with true by (symmetry; apply Z.leb_le; lia).
        reflexivity. }
      rewrite Ef. split; [exact Lt|]. exists u. split; [|exact Ku].
      rewrite first_of_forest_eq in Lt.
      assert (If : In (first_of (forest s)) (map fst (forest s))).
      { apply (forest_ok_In _ _ _ OK). split; [exact NE|lia]. }
      assert (Vu : ver (nmeta u) = w) by (unfold node_key in Ku; congruence).
      assert (Ix' : In x (map fst (forest s))) by (apply in_map_iff; exists (x, Some t); auto).
      pose proof (proj1 (forest_ok_In _ _ x OK) Ix') as [_ Rx].
      destruct (chain_down (forest s) (init_ver s) (first_of (forest s)) FI OK If
                  (Z.to_nat (x - first_of (forest s))) x t u ltac:(lia) Ix Su ltac:(lia))
        as (t0 & I0 & S0).
      exists (first_of (forest s)), t0. split; [|exact S0]. apply filter_In. split; [exact I0|].
      cbn [fst]. apply Z.leb_le. lia.
  Qed.

  Lemma prune_inv s st n orc :
    store_ok H s -> forest_bounds (forest s) -> phys_inv (s, st) ->
    phys_inv (fst (step H s (OPrune n)), phys_step H fast s st (OPrune n) orc) \/ collision H.
  Proof.
    intros SO FB (r & Est & RK). cbn [fst snd] in *. cbn [step phys_step].
    pose proof SO as [SI HI C FI B]. pose proof (inv_nodup s SI) as ND.
    destruct (do_prune_cases s n) as [[Ge E]|[Ln E]]; rewrite E; cbn [fst forest].
    - replace (latest_version s <=? n) with true by (symmetry; apply Z.leb_le; exact Ge).
      left. exists r. auto.
    - replace (latest_version s <=? n) with false by (symmetry; apply Z.leb_gt; exact Ln).
      rewrite Est, (rekeyed_phys r (forest s) FI ND RK).
      destruct (prune_refines H Hlen s r (fst orc) (snd orc) n SO FB RK Ln)
        as [(st' & log & fl & Ep & Q1 & Q2 & _)|Col]; [left|right; exact Col].
      rewrite Ep. exists (rekeyed st'). auto.
  Qed.

  Lemma other_inv s st o orc :
    match o with OSave | OPrune _ | OLvfo _ => False | _ => True end ->
    phys_inv (s, st) -> phys_inv (fst (step H s o), phys_step H fast s st o orc).
  Proof.
    intros NO (r & Est & RK). cbn [fst snd] in *.
    assert (Ef : forest (fst (step H s o)) = forest s).
    { destruct o as [k v|k|k| | | |v|n|v|t rd|k v|v| | | | | ]; cbn [step]; try reflexivity; try contradiction.
      - destruct (do_set_same s k v) as (_ & _ & Ef & _). exact Ef.
      - destruct (do_remove_same s k) as (_ & _ & Ef & _). exact Ef.
      - apply do_reopen_forest.
      - apply do_load_forest.
      - destruct t as [|v]; [reflexivity|]. destruct (lookup v (forest s)); reflexivity.
      - destruct (lookup v (forest s)) as [[nd|]|]; reflexivity. }
    exists r. cbn [fst snd]. rewrite Ef. split; [|exact RK].
    destruct o; try contradiction; exact Est.
  Qed.

  Theorem phys_step_inv s st o orc :
    store_ok H s -> in_contract s o -> forest_bounds (forest s) -> phys_inv (s, st) ->
    phys_inv (fst (step H s o), phys_step H fast s st o orc) \/ collision H.
  Proof.
    intros SO IC FB PI.
    destruct o as [k v|k|k| | | |v|n|v|t rd|k v|v| | | | | ];
      try (left; apply other_inv; [exact I|exact PI]).
    - left. exact (save_inv s st SO PI).
    - exact (prune_inv s st n orc SO FB PI).
    - left. exact (lvfo_inv s st v SO IC PI).
  Qed.

  (** the invariant holds after every step of every in-contract history, for all oracles *)
  Theorem phys_run_inv ops : forall s st orcs,
    store_ok H s -> run_ok H s ops -> bounded_run H s ops -> phys_inv (s, st) ->
    Forall phys_inv (phys_trace H fast s st ops orcs) \/ collision H.
  Proof.
    induction ops as [|o ops IH]; intros s st orcs SO R BR PI; cbn [phys_trace].
    - left. constructor; [exact PI|constructor].
    - destruct R as [IC R]. destruct BR as [FB BR].
      destruct (phys_step_inv s st o (hd ([], false) orcs) SO IC FB PI) as [PI'|Col]; [|right; exact Col].
      destruct (IH _ _ (tl orcs) (store_ok_step H s o SO IC) R BR PI') as [F|Col]; [|right; exact Col].
      left. constructor; assumption.
  Qed.

  (** from the empty database *)
  Corollary phys_run_reachable iv b ops orcs :
    init_ok iv b -> run_ok H (init_state iv b) ops -> bounded_run H (init_state iv b) ops ->
    Forall phys_inv (phys_trace H fast (init_state iv b) [] ops orcs) \/ collision H.
  Proof.
    intros IO R BR. apply phys_run_inv; auto; [apply store_ok_init, IO|].
    exists []. cbn. split; [reflexivity|]. split; [constructor|intros w []].
  Qed.
End History.
