(** iavl/v2 orphan bookkeeping and the tree pruner: facts about the model of V2Orphans.v.

    1. [v2_set_o_erase], [remove_gen_erase]: erasing branch sequences and orphans gives V2.v's
       [v2_set] / [v2_remove] (V2Facts.v stays applicable).
    2. [set_ok], [remove_ok] (counting form), [orphans_exact_set], [orphans_exact_remove],
       [orphans_exact], [remove_absent_no_orphans]: THEOREM 1.
    3. [set_prov], [remove_prov]: provenance of subtrees; deepHash; store lookups;
       [load_checkpoint_ok].
    4. [Inv]: the invariant of a run; [os_apply_inv], [os_save_inv], [prune_with_inv], [run_inv].
    5. [checkpoints_load], [prune_keeps_checkpoints] (THEOREM 3), [prune_keeps_checkpoints_race],
       [checkpoint_orphans_sound_partial] (half of THEOREM 2; the rest and THEOREM 4 are in
       V2OrphansFacts2.v).
    6. [sha256_nonnil]; refutations of the seeded variants ([v2_remove_o_early_refuted],
       [remove_early_history_refuted], [checkpoint_write_prev_refuted]) and of the prune race
       ([prune_race_refuted]); examples. *)
From Coq Require Import Permutation Lia ZArith List Bool.
From IAVL Require Import Bytes Varint Tree MTree V2 V2Facts Sha256.
From IAVL Require Import V2Orphans.
Import ListNotations.
Local Open Scope Z_scope.

(** * 0. Basics *)
Lemma key_dec : forall a b : nkey2, {a = b} + {a <> b}.
Proof. decide equality; apply Z.eq_dec. Defined.

Notation cnt l x := (count_occ key_dec l x).

Lemma is_nil_true b : is_nil b = true -> b = [].
Proof. destruct b; [reflexivity|discriminate]. Qed.

Lemma mutate_spec wv bs m m1 bs1 :
  mutate wv bs m = (m1, bs1) -> ver m1 = wv /\ hs m1 = [] /\ bs <= bs1.
Proof.
  unfold mutate. destruct (is_nil (hs m) && (ver m =? wv)) eqn:C; intros E; inversion E; subst.
  - apply andb_true_iff in C. destruct C as [C1 C2]. apply is_nil_true in C1. apply Z.eqb_eq in C2.
    repeat split; auto; lia.
  - cbn. repeat split; lia.
Qed.

Lemma height_erase t : height (erase t) = height t.
Proof. destruct t; reflexivity. Qed.
Lemma size_erase t : size (erase t) = size t.
Proof. destruct t; reflexivity. Qed.
Lemma bal_of_erase t : bal_of (erase t) = bal_of t.
Proof. destruct t; cbn [erase bal_of]; [reflexivity|]. now rewrite !height_erase. Qed.

Lemma erase_node_m wv m k l r :
  ver m = wv -> hs m = [] -> erase (node_m m k l r) = v2_node wv k (erase l) (erase r).
Proof.
  intros <- E. unfold node_m, v2_node, v2_meta. cbn [erase]. rewrite E, !height_erase, !size_erase.
  reflexivity.
Qed.

(** * 1. Projection: erasing branch sequences and orphans gives V2.v's functions *)
Definition proj3 (r : option (node * list nkey2 * Z)) : option node :=
  match r with Some (t, _, _) => Some (erase t) | None => None end.

Lemma rotR_o_erase wv ckpt bs t : proj3 (rotR_o wv ckpt bs t) = v2_rotR wv (erase t).
Proof.
  destruct t as [|k h s m l r]; [reflexivity|]. destruct l as [|lk lh ls lm ll lr]; [reflexivity|].
  cbn [rotR_o erase v2_rotR].
  destruct (mutate wv bs m) as [m1 bs1] eqn:E1. destruct (mutate wv bs1 lm) as [m2 bs2] eqn:E2.
  cbn [proj3]. apply mutate_spec in E1. apply mutate_spec in E2.
  destruct E1 as (V1 & H1 & _). destruct E2 as (V2 & H2 & _).
  rewrite (erase_node_m wv) by assumption. rewrite (erase_node_m wv) by assumption. reflexivity.
Qed.

Lemma rotL_o_erase wv ckpt bs t : proj3 (rotL_o wv ckpt bs t) = v2_rotL wv (erase t).
Proof.
  destruct t as [|k h s m l r]; [reflexivity|]. destruct r as [|rk rh rs rm rl rr]; [reflexivity|].
  cbn [rotL_o erase v2_rotL].
  destruct (mutate wv bs m) as [m1 bs1] eqn:E1. destruct (mutate wv bs1 rm) as [m2 bs2] eqn:E2.
  cbn [proj3]. apply mutate_spec in E1. apply mutate_spec in E2.
  destruct E1 as (V1 & H1 & _). destruct E2 as (V2 & H2 & _).
  rewrite (erase_node_m wv) by assumption. rewrite (erase_node_m wv) by assumption. reflexivity.
Qed.

Lemma balance_o_erase wv ckpt bs t : proj3 (balance_o wv ckpt bs t) = v2_balance wv (erase t).
Proof.
  destruct t as [|k h s m l r]; [reflexivity|].
  cbn [balance_o erase v2_balance hs]. destruct (hs m) eqn:Hm; [|reflexivity].
  rewrite !height_erase, !bal_of_erase.
  destruct (1 <? height l - height r) eqn:C1.
  - destruct (0 <=? bal_of l) eqn:C2.
    + rewrite <- Hm. apply (rotR_o_erase wv ckpt bs (Inner k h s m l r)).
    + pose proof (rotL_o_erase wv ckpt bs l) as EL.
      destruct (rotL_o wv ckpt bs l) as [[[l' o1] bs1]|]; cbn [proj3] in EL; rewrite <- EL; [|reflexivity].
      pose proof (rotR_o_erase wv ckpt bs1 (Inner k h s m l' r)) as ER. cbn [erase] in ER. rewrite Hm in ER.
      rewrite <- ER. destruct (rotR_o wv ckpt bs1 (Inner k h s m l' r)) as [[[t' o2] bs2]|]; reflexivity.
  - destruct (height l - height r <? -1) eqn:C3.
    + destruct (bal_of r <=? 0) eqn:C2.
      * rewrite <- Hm. apply (rotL_o_erase wv ckpt bs (Inner k h s m l r)).
      * pose proof (rotR_o_erase wv ckpt bs r) as EL.
        destruct (rotR_o wv ckpt bs r) as [[[r' o1] bs1]|]; cbn [proj3] in EL; rewrite <- EL; [|reflexivity].
        pose proof (rotL_o_erase wv ckpt bs1 (Inner k h s m l r')) as ER. cbn [erase] in ER. rewrite Hm in ER.
        rewrite <- ER. destruct (rotL_o wv ckpt bs1 (Inner k h s m l r')) as [[[t' o2] bs2]|]; reflexivity.
    + cbn [proj3 erase]. rewrite Hm. reflexivity.
Qed.

Definition proj_set (r : option (node * bool * list nkey2 * Z)) : option (node * bool) :=
  match r with Some (t, u, _, _) => Some (erase t, u) | None => None end.

Theorem v2_set_o_erase wv sq ckpt t k v : forall bs,
  proj_set (v2_set_o wv sq ckpt bs t k v) = v2_set wv sq (erase t) k v.
Proof.
  induction t as [lk lv lm|nk h s m l IHl r IHr]; intros bs.
  - cbn [v2_set_o erase v2_set]. destruct (bcmp k lk); reflexivity.
  - cbn [v2_set_o erase v2_set]. destruct (mutate wv bs m) as [m1 bs1] eqn:E1.
    apply mutate_spec in E1. destruct E1 as (V1 & H1 & _).
    destruct (blt k nk).
    + rewrite <- (IHl bs1). destruct (v2_set_o wv sq ckpt bs1 l k v) as [[[[l' upd] o1] bs2]|]; [|reflexivity].
      cbn [proj_set]. destruct upd.
      * cbn [proj_set erase]. unfold v2_meta. rewrite V1, H1. reflexivity.
      * rewrite <- (erase_node_m wv m1) by assumption.
        rewrite <- balance_o_erase with (ckpt := ckpt) (bs := bs2).
        destruct (balance_o wv ckpt bs2 (node_m m1 nk l' r)) as [[[t' o2] bs3]|]; reflexivity.
    + rewrite <- (IHr bs1). destruct (v2_set_o wv sq ckpt bs1 r k v) as [[[[r' upd] o1] bs2]|]; [|reflexivity].
      cbn [proj_set]. destruct upd.
      * cbn [proj_set erase]. unfold v2_meta. rewrite V1, H1. reflexivity.
      * rewrite <- (erase_node_m wv m1) by assumption.
        rewrite <- balance_o_erase with (ckpt := ckpt) (bs := bs2).
        destruct (balance_o wv ckpt bs2 (node_m m1 nk l r')) as [[[t' o2] bs3]|]; reflexivity.
Qed.

Definition proj_rm (r : option (rm_res * list nkey2 * Z)) : option rm_res :=
  match r with Some (res, _, _) => Some (erase_res res) | None => None end.

Theorem remove_gen_erase early wv ckpt t k : forall bs,
  proj_rm (remove_gen early wv ckpt bs t k) = v2_remove wv (erase t) k.
Proof.
  induction t as [lk lv lm|nk h s m l IHl r IHr]; intros bs.
  - cbn [remove_gen erase v2_remove proj_rm]. destruct (beq k lk); reflexivity.
  - cbn [remove_gen erase v2_remove]. destruct (blt k nk).
    + rewrite <- (IHl bs). destruct (remove_gen early wv ckpt bs l k) as [[[res o1] bs1]|]; [|reflexivity].
      cbn [proj_rm]. destruct res as [rs rk rv]. cbn [erase_res rm_val rm_self rm_key].
      destruct rv as [val|]; [|reflexivity].
      destruct rs as [l'|]; cbn [option_map]; [|reflexivity].
      destruct (mutate wv bs1 m) as [m1 bs2] eqn:E1.
      apply mutate_spec in E1. destruct E1 as (V1 & H1 & _).
      rewrite <- (erase_node_m wv m1) by assumption.
      rewrite <- balance_o_erase with (ckpt := ckpt) (bs := bs2).
      destruct (balance_o wv ckpt bs2 (node_m m1 nk l' r)) as [[[t' o2] bs3]|]; reflexivity.
    + rewrite <- (IHr bs). destruct (remove_gen early wv ckpt bs r k) as [[[res o1] bs1]|]; [|reflexivity].
      cbn [proj_rm]. destruct res as [rs rk rv]. cbn [erase_res rm_val rm_self rm_key].
      destruct rv as [val|]; [|reflexivity].
      destruct rs as [r'|]; cbn [option_map]; [|reflexivity].
      destruct (mutate wv bs1 m) as [m1 bs2] eqn:E1.
      apply mutate_spec in E1. destruct E1 as (V1 & H1 & _).
      rewrite <- (erase_node_m wv m1) by assumption.
      rewrite <- balance_o_erase with (ckpt := ckpt) (bs := bs2).
      destruct (balance_o wv ckpt bs2 (node_m m1 _ l r')) as [[[t' o2] bs3]|]; reflexivity.
Qed.

(** * 2. Counting node keys *)
Definition one (a x : nkey2) : nat := if key_dec a x then 1%nat else 0%nat.

Lemma cnt_cons a l x : cnt (a :: l) x = (one a x + cnt l x)%nat.
Proof. unfold one. cbn [count_occ]. destruct (key_dec a x); lia. Qed.

(** [x] is one of the keys handed out by nextNodeKey while the counter went from [lo] to [hi] *)
Definition fr (wv lo hi : Z) (x : nkey2) : nat :=
  if (fst x =? wv) && (lo <? snd x) && (snd x <=? hi) then 1%nat else 0%nat.

Lemma fr_split wv lo mid hi x : lo <= mid -> mid <= hi ->
  fr wv lo hi x = (fr wv lo mid x + fr wv mid hi x)%nat.
Proof.
  intros A B. unfold fr. destruct (fst x =? wv); cbn [andb]; [|reflexivity].
  destruct (lo <? snd x) eqn:C1, (snd x <=? hi) eqn:C2, (mid <? snd x) eqn:C3, (snd x <=? mid) eqn:C4;
    cbn [andb]; try reflexivity; lia.
Qed.

Lemma fr_refl wv lo x : fr wv lo lo x = 0%nat.
Proof.
  unfold fr. destruct (fst x =? wv); cbn [andb]; [|reflexivity].
  destruct (lo <? snd x) eqn:C1, (snd x <=? lo) eqn:C2; cbn [andb]; try reflexivity; lia.
Qed.

Lemma add_orphan_nil ckpt m : hs m = [] -> add_orphan ckpt m = [].
Proof. intros E. unfold add_orphan, persisted. rewrite E. reflexivity. Qed.

Lemma add_orphan_le ckpt m x : (cnt (add_orphan ckpt m) x <= one (key_of m) x)%nat.
Proof.
  unfold add_orphan. destruct (persisted ckpt m).
  - rewrite cnt_cons. cbn [count_occ]. lia.
  - cbn [count_occ]. lia.
Qed.

Lemma one_fresh (wv bs : Z) (x : nkey2) : (one (wv, (bs + 1)%Z) x <= fr wv bs (bs + 1)%Z x)%nat.
Proof.
  unfold one, fr. destruct (key_dec (wv, bs + 1) x) as [<-|N]; [|lia].
  cbn [fst snd]. rewrite Z.eqb_refl. cbn [andb].
  destruct (bs <? bs + 1) eqn:C1; [|lia]. destruct (bs + 1 <=? bs + 1) eqn:C2; [|lia]. cbn. lia.
Qed.

Lemma mutate_ok wv ckpt bs m m1 bs1 :
  mutate wv bs m = (m1, bs1) ->
  add_orphan ckpt m1 = [] /\ bs <= bs1 /\
  forall x, (one (key_of m1) x + cnt (add_orphan ckpt m) x <= one (key_of m) x + fr wv bs bs1 x)%nat.
Proof.
  intros E. pose proof (mutate_spec _ _ _ _ _ E) as (V & Hn & L).
  split; [now apply add_orphan_nil|]. split; [assumption|]. intros x. clear V.
  unfold mutate in E. destruct (is_nil (hs m) && (ver m =? wv)) eqn:C; inversion E; subst m1 bs1.
  - rewrite (add_orphan_nil ckpt m Hn). cbn [count_occ]. lia.
  - pose proof (add_orphan_le ckpt m x) as A. pose proof (one_fresh wv bs x) as B.
    unfold key_of at 1. cbn [ver nonce]. lia.
Qed.

(** what one tree operation does to the node keys: [pk]/[ik] the recordable / all branch keys
    before, [pk']/[ik'] after, [os] the recorded orphans *)
Definition step_ok (wv bs bs' : Z) (ik pk ik' pk' os : list nkey2) : Prop :=
  bs <= bs' /\
  forall x, cnt pk x = (cnt os x + cnt pk' x)%nat /\
            (cnt ik' x + cnt os x <= cnt ik x + fr wv bs bs' x)%nat.

Ltac norm := cbn [ikeys pkeys node_m okeys]; repeat (rewrite ?cnt_cons, ?count_occ_app); cbn [count_occ].

Lemma rotR_ok wv ckpt bs t t' os bs' :
  rotR_o wv ckpt bs t = Some (t', os, bs') ->
  step_ok wv bs bs' (ikeys t) (pkeys ckpt t) (ikeys t') (pkeys ckpt t') os.
Proof.
  destruct t as [|k h s m l r]; [discriminate|]. destruct l as [|lk lh ls lm ll lr]; [discriminate|].
  cbn [rotR_o]. destruct (mutate wv bs m) as [m1 bs1] eqn:E1. destruct (mutate wv bs1 lm) as [m2 bs2] eqn:E2.
  intros E; inversion E; subst; clear E.
  destruct (mutate_ok wv ckpt _ _ _ _ E1) as (N1 & L1 & M1).
  destruct (mutate_ok wv ckpt _ _ _ _ E2) as (N2 & L2 & M2).
  split; [lia|]. intros x. specialize (M1 x). specialize (M2 x).
  rewrite (fr_split wv bs bs1 bs' x) by lia.
  norm. rewrite N1, N2. cbn [count_occ]. lia.
Qed.

Lemma rotL_ok wv ckpt bs t t' os bs' :
  rotL_o wv ckpt bs t = Some (t', os, bs') ->
  step_ok wv bs bs' (ikeys t) (pkeys ckpt t) (ikeys t') (pkeys ckpt t') os.
Proof.
  destruct t as [|k h s m l r]; [discriminate|]. destruct r as [|rk rh rs rm rl rr]; [discriminate|].
  cbn [rotL_o]. destruct (mutate wv bs m) as [m1 bs1] eqn:E1. destruct (mutate wv bs1 rm) as [m2 bs2] eqn:E2.
  intros E; inversion E; subst; clear E.
  destruct (mutate_ok wv ckpt _ _ _ _ E1) as (N1 & L1 & M1).
  destruct (mutate_ok wv ckpt _ _ _ _ E2) as (N2 & L2 & M2).
  split; [lia|]. intros x. specialize (M1 x). specialize (M2 x).
  rewrite (fr_split wv bs bs1 bs' x) by lia.
  norm. rewrite N1, N2. cbn [count_occ]. lia.
Qed.

Lemma balance_ok wv ckpt bs t t' os bs' :
  balance_o wv ckpt bs t = Some (t', os, bs') ->
  step_ok wv bs bs' (ikeys t) (pkeys ckpt t) (ikeys t') (pkeys ckpt t') os.
Proof.
  destruct t as [|k h s m l r]; [discriminate|].
  cbn [balance_o]. destruct (hs m) eqn:Hm; [|discriminate].
  destruct (1 <? height l - height r).
  - destruct (0 <=? bal_of l); [apply rotR_ok|].
    destruct (rotL_o wv ckpt bs l) as [[[l' o1] bs1]|] eqn:EL; [|discriminate].
    destruct (rotR_o wv ckpt bs1 (Inner k h s m l' r)) as [[[t2 o2] bs2]|] eqn:ER; [|discriminate].
    intros E; inversion E; subst; clear E.
    apply rotL_ok in EL. apply rotR_ok in ER. destruct EL as (L1 & A1). destruct ER as (L2 & A2).
    split; [lia|]. intros x. specialize (A1 x). specialize (A2 x).
    rewrite (fr_split wv bs bs1 bs' x) by lia. revert A1 A2. norm. lia.
  - destruct (height l - height r <? -1).
    + destruct (bal_of r <=? 0); [apply rotL_ok|].
      destruct (rotR_o wv ckpt bs r) as [[[r' o1] bs1]|] eqn:EL; [|discriminate].
      destruct (rotL_o wv ckpt bs1 (Inner k h s m l r')) as [[[t2 o2] bs2]|] eqn:ER; [|discriminate].
      intros E; inversion E; subst; clear E.
      apply rotR_ok in EL. apply rotL_ok in ER. destruct EL as (L1 & A1). destruct ER as (L2 & A2).
      split; [lia|]. intros x. specialize (A1 x). specialize (A2 x).
      rewrite (fr_split wv bs bs1 bs' x) by lia. revert A1 A2. norm. lia.
    + intros E; inversion E; subst; clear E. split; [lia|]. intros x. rewrite fr_refl. norm. lia.
Qed.

Lemma set_ok wv sq ckpt t k v : forall bs t' upd os bs',
  v2_set_o wv sq ckpt bs t k v = Some (t', upd, os, bs') ->
  step_ok wv bs bs' (ikeys t) (pkeys ckpt t) (ikeys t') (pkeys ckpt t') os.
Proof.
  induction t as [lk lv lm|nk h s m l IHl r IHr]; intros bs t' upd os bs'.
  - cbn [v2_set_o].
    pose proof (one_fresh wv bs) as B.
    destruct (bcmp k lk); intros E; inversion E; subst; clear E; (split; [lia|]); intros x;
      specialize (B x); norm; unfold key_of; cbn [ver nonce hs add_orphan persisted is_nil negb andb count_occ];
      try rewrite fr_refl; lia.
  - cbn [v2_set_o]. destruct (mutate wv bs m) as [m1 bs1] eqn:E1.
    destruct (mutate_ok wv ckpt _ _ _ _ E1) as (N1 & L1 & M1).
    destruct (blt k nk).
    + destruct (v2_set_o wv sq ckpt bs1 l k v) as [[[[l' u] o1] bs2]|] eqn:ES; [|discriminate].
      apply IHl in ES. destruct ES as (L2 & A2).
      destruct u.
      * intros E; inversion E; subst; clear E. split; [lia|]. intros x. specialize (M1 x). specialize (A2 x).
        rewrite (fr_split wv bs bs1 bs' x) by lia. revert A2. norm. rewrite N1. cbn [count_occ]. lia.
      * destruct (balance_o wv ckpt bs2 (node_m m1 nk l' r)) as [[[t2 o2] bs3]|] eqn:EB; [|discriminate].
        intros E; inversion E; subst; clear E. apply balance_ok in EB. destruct EB as (L3 & A3).
        split; [lia|]. intros x. specialize (M1 x). specialize (A2 x). specialize (A3 x).
        rewrite (fr_split wv bs bs1 bs' x) by lia. rewrite (fr_split wv bs1 bs2 bs' x) by lia.
        revert A2 A3. norm. rewrite N1. cbn [count_occ]. lia.
    + destruct (v2_set_o wv sq ckpt bs1 r k v) as [[[[r' u] o1] bs2]|] eqn:ES; [|discriminate].
      apply IHr in ES. destruct ES as (L2 & A2).
      destruct u.
      * intros E; inversion E; subst; clear E. split; [lia|]. intros x. specialize (M1 x). specialize (A2 x).
        rewrite (fr_split wv bs bs1 bs' x) by lia. revert A2. norm. rewrite N1. cbn [count_occ]. lia.
      * destruct (balance_o wv ckpt bs2 (node_m m1 nk l r')) as [[[t2 o2] bs3]|] eqn:EB; [|discriminate].
        intros E; inversion E; subst; clear E. apply balance_ok in EB. destruct EB as (L3 & A3).
        split; [lia|]. intros x. specialize (M1 x). specialize (A2 x). specialize (A3 x).
        rewrite (fr_split wv bs bs1 bs' x) by lia. rewrite (fr_split wv bs1 bs2 bs' x) by lia.
        revert A2 A3. norm. rewrite N1. cbn [count_occ]. lia.
Qed.

Definition opkeys (ckpt : Z) (root : option node) : list nkey2 :=
  match root with Some t => pkeys ckpt t | None => [] end.

(** a Remove of an absent key records nothing, hands out no node key, returns the node itself *)
Theorem remove_absent_no_orphans wv ckpt t k : forall bs res os bs',
  v2_remove_o wv ckpt bs t k = Some (res, os, bs') -> rm_val res = None ->
  os = [] /\ bs' = bs /\ rm_self res = Some t.
Proof.
  unfold v2_remove_o.
  induction t as [lk lv lm|nk h s m l IHl r IHr]; intros bs res os bs'.
  - cbn [remove_gen]. destruct (beq k lk); intros E; inversion E; subst; cbn [rm_val rm_self]; intros V;
      [discriminate|auto].
  - cbn [remove_gen]. destruct (blt k nk).
    + destruct (remove_gen false wv ckpt bs l k) as [[[res0 o1] bs1]|] eqn:ER; [|discriminate].
      destruct (rm_val res0) as [val|] eqn:EV.
      * destruct (rm_self res0) as [l'|].
        -- destruct (mutate wv bs1 m) as [m1 bs2]. destruct (balance_o wv ckpt bs2 _) as [[[t2 o2] bs3]|]; [|discriminate].
           intros E; inversion E; subst; cbn [rm_val]; discriminate.
        -- intros E; inversion E; subst; cbn [rm_val]; discriminate.
      * intros E; inversion E; subst; clear E. intros _. destruct (IHl _ _ _ _ ER EV) as (A & B & _). auto.
    + destruct (remove_gen false wv ckpt bs r k) as [[[res0 o1] bs1]|] eqn:ER; [|discriminate].
      destruct (rm_val res0) as [val|] eqn:EV.
      * destruct (rm_self res0) as [r'|].
        -- destruct (mutate wv bs1 m) as [m1 bs2]. destruct (balance_o wv ckpt bs2 _) as [[[t2 o2] bs3]|]; [|discriminate].
           intros E; inversion E; subst; cbn [rm_val]; discriminate.
        -- intros E; inversion E; subst; cbn [rm_val]; discriminate.
      * intros E; inversion E; subst; clear E. intros _. destruct (IHr _ _ _ _ ER EV) as (A & B & _). auto.
Qed.

Lemma remove_ok wv ckpt t k : forall bs res os bs',
  v2_remove_o wv ckpt bs t k = Some (res, os, bs') ->
  step_ok wv bs bs' (ikeys t) (pkeys ckpt t) (okeys (rm_self res)) (opkeys ckpt (rm_self res)) os.
Proof.
  unfold v2_remove_o.
  induction t as [lk lv lm|nk h s m l IHl r IHr]; intros bs res os bs'.
  - cbn [remove_gen]. destruct (beq k lk); intros E; inversion E; subst; clear E; (split; [lia|]); intros x;
      rewrite fr_refl; cbn [rm_self okeys opkeys ikeys pkeys count_occ]; lia.
  - cbn [remove_gen]. destruct (blt k nk).
    + destruct (remove_gen false wv ckpt bs l k) as [[[res0 o1] bs1]|] eqn:ER; [|discriminate].
      pose proof (IHl _ _ _ _ ER) as (L1 & A1).
      destruct (rm_val res0) as [val|] eqn:EV.
      * destruct (rm_self res0) as [l'|].
        -- destruct (mutate wv bs1 m) as [m1 bs2] eqn:E1.
           destruct (mutate_ok wv ckpt _ _ _ _ E1) as (N1 & L2 & M1).
           destruct (balance_o wv ckpt bs2 _) as [[[t2 o2] bs3]|] eqn:EB; [|discriminate].
           apply balance_ok in EB. destruct EB as (L3 & A3).
           intros E; inversion E; subst; clear E. split; [lia|]. intros x.
           specialize (A1 x). specialize (M1 x). specialize (A3 x).
           rewrite (fr_split wv bs bs1 bs' x) by lia. rewrite (fr_split wv bs1 bs2 bs' x) by lia.
           revert A1 A3. cbn [rm_self opkeys]. norm. rewrite N1. cbn [count_occ]. lia.
        -- intros E; inversion E; subst; clear E. split; [lia|]. intros x.
           specialize (A1 x). pose proof (add_orphan_le ckpt m x) as AO.
           revert A1. cbn [rm_self opkeys]. norm. lia.
      * destruct (remove_absent_no_orphans _ _ _ _ _ _ _ _ ER EV) as (-> & -> & _).
        intros E; inversion E; subst; clear E. split; [lia|]. intros x. rewrite fr_refl.
        cbn [rm_self opkeys okeys count_occ]. lia.
    + destruct (remove_gen false wv ckpt bs r k) as [[[res0 o1] bs1]|] eqn:ER; [|discriminate].
      pose proof (IHr _ _ _ _ ER) as (L1 & A1).
      destruct (rm_val res0) as [val|] eqn:EV.
      * destruct (rm_self res0) as [r'|].
        -- destruct (mutate wv bs1 m) as [m1 bs2] eqn:E1.
           destruct (mutate_ok wv ckpt _ _ _ _ E1) as (N1 & L2 & M1).
           destruct (balance_o wv ckpt bs2 _) as [[[t2 o2] bs3]|] eqn:EB; [|discriminate].
           apply balance_ok in EB. destruct EB as (L3 & A3).
           intros E; inversion E; subst; clear E. split; [lia|]. intros x.
           specialize (A1 x). specialize (M1 x). specialize (A3 x).
           rewrite (fr_split wv bs bs1 bs' x) by lia. rewrite (fr_split wv bs1 bs2 bs' x) by lia.
           revert A1 A3. cbn [rm_self opkeys]. norm. rewrite N1. cbn [count_occ]. lia.
        -- intros E; inversion E; subst; clear E. split; [lia|]. intros x.
           specialize (A1 x). pose proof (add_orphan_le ckpt m x) as AO.
           revert A1. cbn [rm_self opkeys]. norm. lia.
      * destruct (remove_absent_no_orphans _ _ _ _ _ _ _ _ ER EV) as (-> & -> & _).
        intros E; inversion E; subst; clear E. split; [lia|]. intros x. rewrite fr_refl.
        cbn [rm_self opkeys okeys count_occ]. lia.
Qed.

(** * 3. Theorem 1: the recorded orphans are exactly the persisted branches that left the tree *)
Definition below (wv bs : Z) (x : nkey2) : Prop := fst x < wv \/ (fst x = wv /\ snd x <= bs).

Lemma fr_cases wv lo hi x :
  fr wv lo hi x = 0%nat \/ (fr wv lo hi x = 1%nat /\ fst x = wv /\ lo < snd x <= hi).
Proof.
  unfold fr. destruct (fst x =? wv) eqn:C0; cbn [andb]; [|auto].
  destruct (lo <? snd x) eqn:C1; cbn [andb]; [|auto].
  destruct (snd x <=? hi) eqn:C2; [|auto]. right. split; [reflexivity|]. lia.
Qed.

Lemma pkeys_le ckpt t x : (cnt (pkeys ckpt t) x <= cnt (ikeys t) x)%nat.
Proof.
  induction t as [|k h s m l IHl r IHr]; [cbn; lia|].
  pose proof (add_orphan_le ckpt m x). norm. lia.
Qed.

Lemma pkeys_ver ckpt t x : In x (pkeys ckpt t) -> fst x <= ckpt.
Proof.
  induction t as [|k h s m l IHl r IHr]; [intros []|].
  cbn [pkeys]. rewrite !in_app_iff. intros [I|[I|I]]; auto.
  unfold add_orphan in I. destruct (persisted ckpt m) eqn:P; [|destruct I].
  destruct I as [<-|[]]. unfold persisted in P. apply andb_true_iff in P. cbn [key_of fst]. lia.
Qed.

Lemma step_ok_facts wv bs bs' ik pk ik' pk' os :
  step_ok wv bs bs' ik pk ik' pk' os ->
  (forall x, (cnt pk x <= cnt ik x)%nat) -> (forall x, (cnt pk' x <= cnt ik' x)%nat) ->
  NoDup ik -> Forall (below wv bs) ik ->
  Permutation pk (os ++ pk') /\
  NoDup ik' /\ Forall (below wv bs') ik' /\ NoDup os /\
  (forall x, In x os <-> In x pk /\ ~ In x ik') /\
  (forall x, In x ik' -> In x ik \/ (fst x = wv /\ bs < snd x)).
Proof.
  intros (L & A) Hle Hle' ND BL.
  assert (forall x, In x ik -> fr wv bs bs' x = 0%nat) as NF.
  { intros x I. rewrite Forall_forall in BL. specialize (BL x I).
    destruct (fr_cases wv bs bs' x) as [E|(E & F1 & F2)]; [assumption|]. unfold below in BL. lia. }
  assert (forall x, (cnt ik x <= 1)%nat) as C1 by (now apply NoDup_count_occ).
  split. { apply (Permutation_count_occ key_dec). intros x. rewrite count_occ_app. apply A. }
  split. { apply (NoDup_count_occ key_dec). intros x. destruct (A x) as (_ & A2). specialize (C1 x).
    destruct (fr_cases wv bs bs' x) as [E|(E & F1 & F2)]; [lia|].
    destruct (in_dec key_dec x ik) as [I|I]; [rewrite (NF x I) in E; discriminate|].
    apply (count_occ_not_In key_dec) in I. lia. }
  split. { apply Forall_forall. intros x I. apply (count_occ_In key_dec) in I. destruct (A x) as (_ & A2).
    destruct (fr_cases wv bs bs' x) as [E|(E & F1 & F2)].
    - assert (In x ik) as I' by (apply (count_occ_In key_dec); lia).
      rewrite Forall_forall in BL. specialize (BL x I'). unfold below in *. lia.
    - unfold below. lia. }
  assert (forall x, In x os -> In x pk /\ ~ In x ik' /\ (cnt os x <= 1)%nat) as OS.
  { intros x I. apply (count_occ_In key_dec) in I. destruct (A x) as (A1 & A2).
    assert (In x pk) as Ip by (apply (count_occ_In key_dec); lia).
    assert (In x ik) as Ii by (apply (count_occ_In key_dec); specialize (Hle x); apply (count_occ_In key_dec) in Ip; lia).
    rewrite (NF x Ii) in A2. specialize (C1 x). split; [assumption|]. split; [|lia].
    apply (count_occ_not_In key_dec). lia. }
  split. { apply (NoDup_count_occ key_dec). intros x. destruct (in_dec key_dec x os) as [I|I].
    - apply OS in I. tauto. - apply (count_occ_not_In key_dec) in I. lia. }
  split. { intros x. split.
    - intros I. apply OS in I. tauto.
    - intros (Ip & Ni). apply (count_occ_In key_dec). apply (count_occ_In key_dec) in Ip.
      apply (count_occ_not_In key_dec) in Ni. destruct (A x) as (A1 & _). specialize (Hle' x). lia. }
  intros x I. apply (count_occ_In key_dec) in I. destruct (A x) as (_ & A2).
  destruct (fr_cases wv bs bs' x) as [E|(E & F1 & F2)].
  - left. apply (count_occ_In key_dec). lia.
  - right. lia.
Qed.

(** THEOREM 1 (Set).  For a tree with distinct branch keys, none of them beyond the counter:
    the orphans recorded by recursiveSet are, each once, exactly the recordable branches
    (hashed, version <= last checkpoint) of the old tree that are not nodes of the new tree;
    the new tree again has distinct keys, all old or handed out by this call. *)
Theorem orphans_exact_set wv sq ckpt bs t k v t' upd os bs' :
  v2_set_o wv sq ckpt bs t k v = Some (t', upd, os, bs') ->
  NoDup (ikeys t) -> Forall (below wv bs) (ikeys t) ->
  Permutation (pkeys ckpt t) (os ++ pkeys ckpt t') /\
  NoDup (ikeys t') /\ Forall (below wv bs') (ikeys t') /\ NoDup os /\
  (forall x, In x os <-> In x (pkeys ckpt t) /\ ~ In x (ikeys t')) /\
  (forall x, In x (ikeys t') -> In x (ikeys t) \/ (fst x = wv /\ bs < snd x)).
Proof.
  intros E. apply (step_ok_facts wv bs bs' _ _ _ _ _ (set_ok _ _ _ _ _ _ _ _ _ _ _ E)); intros x; apply pkeys_le.
Qed.

Lemma opkeys_le ckpt r x : (cnt (opkeys ckpt r) x <= cnt (okeys r) x)%nat.
Proof. destruct r; [apply pkeys_le|cbn; lia]. Qed.

(** THEOREM 1 (Remove). *)
Theorem orphans_exact_remove wv ckpt bs t k res os bs' :
  v2_remove_o wv ckpt bs t k = Some (res, os, bs') ->
  NoDup (ikeys t) -> Forall (below wv bs) (ikeys t) ->
  Permutation (pkeys ckpt t) (os ++ opkeys ckpt (rm_self res)) /\
  NoDup (okeys (rm_self res)) /\ Forall (below wv bs') (okeys (rm_self res)) /\ NoDup os /\
  (forall x, In x os <-> In x (pkeys ckpt t) /\ ~ In x (okeys (rm_self res))) /\
  (forall x, In x (okeys (rm_self res)) -> In x (ikeys t) \/ (fst x = wv /\ bs < snd x)).
Proof.
  intros E. apply (step_ok_facts wv bs bs' _ _ _ _ _ (remove_ok _ _ _ _ _ _ _ _ E)); intros x;
    [apply pkeys_le|apply opkeys_le].
Qed.

(** THEOREM 1 in one statement: exactness for Set and Remove; a Remove of an absent key records
    nothing. *)
Theorem orphans_exact wv ckpt bs t :
  NoDup (ikeys t) -> Forall (below wv bs) (ikeys t) ->
  (forall sq k v t' upd os bs',
     v2_set_o wv sq ckpt bs t k v = Some (t', upd, os, bs') ->
     Permutation (pkeys ckpt t) (os ++ pkeys ckpt t') /\ NoDup os /\
     (forall x, In x os <-> In x (pkeys ckpt t) /\ ~ In x (ikeys t'))) /\
  (forall k res os bs',
     v2_remove_o wv ckpt bs t k = Some (res, os, bs') ->
     Permutation (pkeys ckpt t) (os ++ opkeys ckpt (rm_self res)) /\ NoDup os /\
     (forall x, In x os <-> In x (pkeys ckpt t) /\ ~ In x (okeys (rm_self res))) /\
     (rm_val res = None -> os = [] /\ bs' = bs /\ rm_self res = Some t)).
Proof.
  intros ND BL. split.
  - intros sq k v t' upd os bs' E.
    destruct (orphans_exact_set _ _ _ _ _ _ _ _ _ _ _ E ND BL) as (A & _ & _ & B & C & _). auto.
  - intros k res os bs' E.
    destruct (orphans_exact_remove _ _ _ _ _ _ _ _ E ND BL) as (A & _ & _ & B & C & _).
    split; [exact A|]. split; [exact B|]. split; [exact C|].
    intros V. apply (remove_absent_no_orphans _ _ _ _ _ _ _ _ E V).
Qed.

(** * 4. Provenance of subtrees: a branch of the new tree is a branch of the old tree, untouched
      with everything below it, or was (re)keyed in this working version *)
Fixpoint isub (u t : node) : Prop :=
  match t with
  | Leaf _ _ _ => False
  | Inner _ _ _ _ l r => u = t \/ isub u l \/ isub u r
  end.

Definition oisub (u : node) (root : option node) : Prop :=
  match root with Some t => isub u t | None => False end.

Definition fresh_node (wv : Z) (u : node) : Prop :=
  match u with Inner _ _ _ m _ _ => ver m = wv /\ hs m = [] | Leaf _ _ _ => False end.

Definition prov (wv : Z) (t t' : node) : Prop := forall u, isub u t' -> isub u t \/ fresh_node wv u.

Lemma prov_trans wv a b c : prov wv a b -> prov wv b c -> prov wv a c.
Proof.
  intros P1 P2 u I. destruct (P2 u I) as [J|J]; [|auto]. apply P1, J.
Qed.

Lemma isub_key_in u t : isub u t -> In (key_of (nmeta u)) (ikeys t).
Proof.
  induction t as [|k h s m l IHl r IHr]; [intros []|].
  cbn [isub ikeys]. intros [->|[I|I]].
  - left. reflexivity.
  - right. apply in_or_app. left. auto.
  - right. apply in_or_app. right. auto.
Qed.

Lemma rotR_prov wv ckpt bs t t' os bs' :
  rotR_o wv ckpt bs t = Some (t', os, bs') -> prov wv t t'.
Proof.
  destruct t as [|k h s m l r]; [discriminate|]. destruct l as [|lk lh ls lm ll lr]; [discriminate|].
  cbn [rotR_o]. destruct (mutate wv bs m) as [m1 bs1] eqn:E1. destruct (mutate wv bs1 lm) as [m2 bs2] eqn:E2.
  intros E; inversion E; subst; clear E.
  apply mutate_spec in E1. apply mutate_spec in E2.
  destruct E1 as (V1 & H1 & _). destruct E2 as (V2 & H2 & _).
  intros u. unfold node_m. cbn [isub].
  intros [->|[I|[->|[I|I]]]]; cbn [fresh_node]; auto 6.
Qed.

Lemma rotL_prov wv ckpt bs t t' os bs' :
  rotL_o wv ckpt bs t = Some (t', os, bs') -> prov wv t t'.
Proof.
  destruct t as [|k h s m l r]; [discriminate|]. destruct r as [|rk rh rs rm rl rr]; [discriminate|].
  cbn [rotL_o]. destruct (mutate wv bs m) as [m1 bs1] eqn:E1. destruct (mutate wv bs1 rm) as [m2 bs2] eqn:E2.
  intros E; inversion E; subst; clear E.
  apply mutate_spec in E1. apply mutate_spec in E2.
  destruct E1 as (V1 & H1 & _). destruct E2 as (V2 & H2 & _).
  intros u. unfold node_m. cbn [isub].
  intros [->|[[->|[I|I]]|I]]; cbn [fresh_node]; auto 6.
Qed.

Lemma prov_left wv k h s m l l' r :
  ver m = wv -> hs m = [] -> prov wv l l' -> prov wv (Inner k h s m l r) (Inner k h s m l' r).
Proof.
  intros V Hm P u. cbn [isub]. intros [->|[I|I]]; cbn [fresh_node]; auto.
  destruct (P u I); auto.
Qed.

Lemma prov_right wv k h s m l r r' :
  ver m = wv -> hs m = [] -> prov wv r r' -> prov wv (Inner k h s m l r) (Inner k h s m l r').
Proof.
  intros V Hm P u. cbn [isub]. intros [->|[I|I]]; cbn [fresh_node]; auto.
  destruct (P u I); auto.
Qed.

Lemma prov_refl wv t : prov wv t t.
Proof. intros u I. auto. Qed.

Lemma balance_prov wv ckpt bs t t' os bs' :
  fresh_node wv t -> balance_o wv ckpt bs t = Some (t', os, bs') -> prov wv t t'.
Proof.
  destruct t as [|k h s m l r]; [intros []|]. intros (V & Hm).
  cbn [balance_o]. rewrite Hm.
  destruct (1 <? height l - height r).
  - destruct (0 <=? bal_of l); [apply rotR_prov|].
    destruct (rotL_o wv ckpt bs l) as [[[l' o1] bs1]|] eqn:EL; [|discriminate].
    destruct (rotR_o wv ckpt bs1 (Inner k h s m l' r)) as [[[t2 o2] bs2]|] eqn:ER; [|discriminate].
    intros E; inversion E; subst; clear E.
    apply rotL_prov in EL. apply rotR_prov in ER.
    eapply prov_trans; [|exact ER]. now apply prov_left.
  - destruct (height l - height r <? -1).
    + destruct (bal_of r <=? 0); [apply rotL_prov|].
      destruct (rotR_o wv ckpt bs r) as [[[r' o1] bs1]|] eqn:EL; [|discriminate].
      destruct (rotL_o wv ckpt bs1 (Inner k h s m l r')) as [[[t2 o2] bs2]|] eqn:ER; [|discriminate].
      intros E; inversion E; subst; clear E.
      apply rotR_prov in EL. apply rotL_prov in ER.
      eapply prov_trans; [|exact ER]. now apply prov_right.
    + intros E; inversion E; subst. apply prov_refl.
Qed.

Lemma prov_rebuild_left wv k h s m m1 l l' r h' s' :
  ver m1 = wv -> hs m1 = [] -> prov wv l l' -> prov wv (Inner k h s m l r) (Inner k h' s' m1 l' r).
Proof.
  intros V Hm P u. cbn [isub]. intros [->|[I|I]]; cbn [fresh_node]; auto.
  destruct (P u I); auto.
Qed.

Lemma prov_rebuild_right wv k k' h s m m1 l r r' h' s' :
  ver m1 = wv -> hs m1 = [] -> prov wv r r' -> prov wv (Inner k h s m l r) (Inner k' h' s' m1 l r').
Proof.
  intros V Hm P u. cbn [isub]. intros [->|[I|I]]; cbn [fresh_node]; auto.
  destruct (P u I); auto.
Qed.

Lemma set_prov wv sq ckpt t k v : forall bs t' upd os bs',
  v2_set_o wv sq ckpt bs t k v = Some (t', upd, os, bs') -> prov wv t t'.
Proof.
  induction t as [lk lv lm|nk h s m l IHl r IHr]; intros bs t' upd os bs'.
  - cbn [v2_set_o]. destruct (bcmp k lk); intros E; inversion E; subst; clear E; intros u; cbn [isub];
      intros I; repeat (destruct I as [I|I]); try contradiction; subst; right; cbn; auto.
  - cbn [v2_set_o]. destruct (mutate wv bs m) as [m1 bs1] eqn:E1.
    apply mutate_spec in E1. destruct E1 as (V1 & H1 & _).
    destruct (blt k nk).
    + destruct (v2_set_o wv sq ckpt bs1 l k v) as [[[[l' u] o1] bs2]|] eqn:ES; [|discriminate].
      apply IHl in ES. destruct u.
      * intros E; inversion E; subst; clear E. now apply prov_rebuild_left.
      * destruct (balance_o wv ckpt bs2 (node_m m1 nk l' r)) as [[[t2 o2] bs3]|] eqn:EB; [|discriminate].
        intros E; inversion E; subst; clear E. apply balance_prov in EB; [|unfold node_m; cbn; auto].
        eapply prov_trans; [|exact EB]. unfold node_m. now apply prov_rebuild_left.
    + destruct (v2_set_o wv sq ckpt bs1 r k v) as [[[[r' u] o1] bs2]|] eqn:ES; [|discriminate].
      apply IHr in ES. destruct u.
      * intros E; inversion E; subst; clear E. now apply prov_rebuild_right.
      * destruct (balance_o wv ckpt bs2 (node_m m1 nk l r')) as [[[t2 o2] bs3]|] eqn:EB; [|discriminate].
        intros E; inversion E; subst; clear E. apply balance_prov in EB; [|unfold node_m; cbn; auto].
        eapply prov_trans; [|exact EB]. unfold node_m. now apply prov_rebuild_right.
Qed.

Definition oprov (wv : Z) (t : node) (r : option node) : Prop :=
  forall u, oisub u r -> isub u t \/ fresh_node wv u.

Lemma remove_prov early wv ckpt t k : forall bs res os bs',
  remove_gen early wv ckpt bs t k = Some (res, os, bs') -> oprov wv t (rm_self res).
Proof.
  induction t as [lk lv lm|nk h s m l IHl r IHr]; intros bs res os bs'.
  - cbn [remove_gen]. destruct (beq k lk); intros E; inversion E; subst; clear E; intros u; cbn; auto.
  - cbn [remove_gen]. destruct (blt k nk).
    + destruct (remove_gen early wv ckpt bs l k) as [[[res0 o1] bs1]|] eqn:ER; [|discriminate].
      pose proof (IHl _ _ _ _ ER) as P.
      destruct (rm_val res0) as [val|] eqn:EV.
      * destruct (rm_self res0) as [l'|].
        -- destruct (mutate wv bs1 m) as [m1 bs2] eqn:E1.
           apply mutate_spec in E1. destruct E1 as (V1 & H1 & _).
           destruct (balance_o wv ckpt bs2 _) as [[[t2 o2] bs3]|] eqn:EB; [|discriminate].
           apply balance_prov in EB; [|unfold node_m; cbn; auto].
           intros E; inversion E; subst; clear E. cbn [rm_self]. intros u I. cbn [oisub] in I.
           eapply prov_trans; [|exact EB|exact I]. unfold node_m. apply prov_rebuild_left; auto.
        -- intros E; inversion E; subst; clear E. cbn [rm_self]. intros u I. cbn [oisub] in I.
           left. cbn [isub]. auto.
      * intros E; inversion E; subst; clear E. cbn [rm_self]. intros u I. left. exact I.
    + destruct (remove_gen early wv ckpt bs r k) as [[[res0 o1] bs1]|] eqn:ER; [|discriminate].
      pose proof (IHr _ _ _ _ ER) as P.
      destruct (rm_val res0) as [val|] eqn:EV.
      * destruct (rm_self res0) as [r'|].
        -- destruct (mutate wv bs1 m) as [m1 bs2] eqn:E1.
           apply mutate_spec in E1. destruct E1 as (V1 & H1 & _).
           destruct (balance_o wv ckpt bs2 _) as [[[t2 o2] bs3]|] eqn:EB; [|discriminate].
           apply balance_prov in EB; [|unfold node_m; cbn; auto].
           intros E; inversion E; subst; clear E. cbn [rm_self]. intros u I. cbn [oisub] in I.
           eapply prov_trans; [|exact EB|exact I]. unfold node_m. apply prov_rebuild_right; auto.
        -- intros E; inversion E; subst; clear E. cbn [rm_self]. intros u I. cbn [oisub] in I.
           left. cbn [isub]. auto.
      * intros E; inversion E; subst; clear E. cbn [rm_self]. intros u I. left. exact I.
Qed.

(** * 5. deepHash and the store *)
Lemma isub_trans w u t : isub w u -> isub u t -> isub w t.
Proof.
  induction t as [|k h s m l IHl r IHr]; [intros _ []|].
  cbn [isub]. intros W [->|[I|I]]; auto.
Qed.

Lemma isub_inner u t : isub u t -> exists k h s m l r, u = Inner k h s m l r.
Proof.
  induction t as [|k h s m l IHl r IHr]; [intros []|].
  cbn [isub]. intros [->|[I|I]]; eauto 8.
Qed.

Definition allhashed (t : node) : Prop := forall w, isub w t -> hs (nmeta w) <> [].

Section DeepHash.
  Variable H : bytes -> bytes.
  Hypothesis Hnn : forall x, H x <> [].

  Lemma ikeys_deep_hash t : ikeys (v2_deep_hash H t) = ikeys t.
  Proof.
    induction t as [k v m|k h s m l IHl r IHr]; cbn [v2_deep_hash].
    - destruct (hs m); reflexivity.
    - destruct (hs m); [|reflexivity]. cbn [ikeys]. rewrite IHl, IHr. reflexivity.
  Qed.

  (** a branch of the hashed tree is a branch of the tree, or a rehashed unhashed branch *)
  Lemma isub_deep_hash u t :
    isub u (v2_deep_hash H t) ->
    isub u t \/ exists u0, isub u0 t /\ hs (nmeta u0) = [] /\ ver (nmeta u) = ver (nmeta u0).
  Proof.
    induction t as [k v m|k h s m l IHl r IHr]; cbn [v2_deep_hash].
    - destruct (hs m); intros [].
    - destruct (hs m) eqn:Hm; [|auto]. cbn [isub]. intros [->|[I|I]].
      + right. eexists. split; [left; reflexivity|]. cbn [nmeta ver]. auto.
      + destruct (IHl I) as [J|(u0 & J & A)]; [auto|]. right. exists u0. auto.
      + destruct (IHr I) as [J|(u0 & J & A)]; [auto|]. right. exists u0. auto.
  Qed.

  Lemma allhashed_deep_hash t :
    (forall u, isub u t -> hs (nmeta u) <> [] -> allhashed u) -> allhashed (v2_deep_hash H t).
  Proof.
    induction t as [k v m|k h s m l IHl r IHr]; intros C; cbn [v2_deep_hash].
    - destruct (hs m); intros w [].
    - destruct (hs m) eqn:Hm.
      + intros w. cbn [isub]. intros [->|[I|I]].
        * cbn [nmeta hs]. apply Hnn.
        * apply IHl; [|exact I]. intros u Iu. apply C. cbn [isub]. auto.
        * apply IHr; [|exact I]. intros u Iu. apply C. cbn [isub]. auto.
      + apply C; [left; reflexivity|]. cbn [nmeta]. rewrite Hm. discriminate.
  Qed.
End DeepHash.

Lemma key_eqb_eq a b : key_eqb a b = true <-> a = b.
Proof.
  destruct a as [a1 a2], b as [b1 b2]. unfold key_eqb. cbn [fst snd]. rewrite andb_true_iff, !Z.eqb_eq.
  split; [intros (-> & ->); reflexivity|intros E; inversion E; auto].
Qed.

Lemma key_eqb_refl a : key_eqb a a = true.
Proof. now apply key_eqb_eq. Qed.

Lemma lookup_br_app_some key l l' row :
  lookup_br key l = Some row -> lookup_br key (l ++ l') = Some row.
Proof.
  induction l as [|[k r] l IH]; [discriminate|]. cbn [lookup_br app]. destruct (key_eqb k key); auto.
Qed.

Lemma lookup_br_app_none key l l' :
  lookup_br key l = None -> lookup_br key (l ++ l') = lookup_br key l'.
Proof.
  induction l as [|[k r] l IH]; [reflexivity|]. cbn [lookup_br app]. destruct (key_eqb k key); [discriminate|auto].
Qed.

Lemma lookup_br_none key l : (forall row, ~ In (key, row) l) -> lookup_br key l = None.
Proof.
  induction l as [|[k r] l IH]; [reflexivity|]. intros N. cbn [lookup_br].
  destruct (key_eqb k key) eqn:E.
  - apply key_eqb_eq in E. subst. exfalso. apply (N r). left. reflexivity.
  - apply IH. intros row I. apply (N row). right. exact I.
Qed.

Lemma lookup_br_In key l row : lookup_br key l = Some row -> In (key, row) l.
Proof.
  induction l as [|[k r] l IH]; [discriminate|]. cbn [lookup_br].
  destruct (key_eqb k key) eqn:E.
  - apply key_eqb_eq in E. intros X; inversion X; subst. left. reflexivity.
  - intros X. right. auto.
Qed.

Lemma lookup_br_filter (p : nkey2 -> bool) key l :
  p key = true -> lookup_br key (filter (fun b => p (fst b)) l) = lookup_br key l.
Proof.
  intros P. induction l as [|[k r] l IH]; [reflexivity|]. cbn [filter fst lookup_br].
  destruct (key_eqb k key) eqn:E.
  - apply key_eqb_eq in E. subst k. rewrite P. cbn [lookup_br]. rewrite key_eqb_refl. reflexivity.
  - destruct (p k); [cbn [lookup_br]; rewrite E|]; exact IH.
Qed.

Lemma new_rows_keys last t k row : In (k, row) (new_rows last t) -> In k (ikeys t) /\ last < fst k.
Proof.
  induction t as [|k0 h s m l IHl r IHr]; [intros []|].
  cbn [new_rows ikeys]. rewrite !in_app_iff. intros [I|[I|I]].
  - destruct (last <? ver m) eqn:C; [|destruct I]. destruct I as [E|[]]. inversion E; subst.
    split; [left; reflexivity|]. cbn [key_of fst]. lia.
  - destruct (IHl I). split; [right; apply in_or_app|]; auto.
  - destruct (IHr I). split; [right; apply in_or_app|]; auto.
Qed.

Lemma NoDup_app_disj {A} (l1 l2 : list A) x : NoDup (l1 ++ l2) -> In x l1 -> ~ In x l2.
Proof.
  induction l1 as [|a l1 IH]; [intros _ []|]. cbn [app]. intros ND [->|I] J.
  - apply NoDup_cons_iff in ND. apply (proj1 ND). apply in_or_app. auto.
  - apply NoDup_cons_iff in ND. apply (IH (proj2 ND) I J).
Qed.

Lemma nodup_app_l {A} (l1 l2 : list A) : NoDup (l1 ++ l2) -> NoDup l1.
Proof.
  induction l1 as [|a l1 IH]; [constructor|]. cbn [app]. intros ND. apply NoDup_cons_iff in ND.
  constructor; [|apply IH, ND]. intros I. apply (proj1 ND). apply in_or_app. auto.
Qed.

Lemma nodup_app_r {A} (l1 l2 : list A) : NoDup (l1 ++ l2) -> NoDup l2.
Proof.
  induction l1 as [|a l1 IH]; [auto|]. cbn [app]. intros ND. apply NoDup_cons_iff in ND. apply IH, ND.
Qed.

Lemma new_rows_lookup last t k h s m l r :
  NoDup (ikeys t) -> isub (Inner k h s m l r) t -> last < ver m ->
  lookup_br (key_of m) (new_rows last t) = Some (row_of k h s m l r).
Proof.
  induction t as [|k0 h0 s0 m0 l0 IHl r0 IHr]; [intros _ []|].
  cbn [ikeys isub new_rows]. intros ND I L. apply NoDup_cons_iff in ND. destruct ND as (N0 & ND).
  pose proof (nodup_app_r _ _ ND) as NDr. pose proof (nodup_app_l _ _ ND) as NDl.
  destruct I as [E|[I|I]].
  - inversion E; subst. assert (last <? ver m0 = true) as -> by lia.
    cbn [app lookup_br]. rewrite key_eqb_refl. reflexivity.
  - pose proof (isub_key_in _ _ I) as Ik. cbn [nmeta] in Ik.
    assert (lookup_br (key_of m) (if last <? ver m0 then [(key_of m0, row_of k0 h0 s0 m0 l0 r0)] else []) = None) as E0.
    { destruct (last <? ver m0); [|reflexivity]. cbn [lookup_br]. destruct (key_eqb (key_of m0) (key_of m)) eqn:E; [|reflexivity].
      apply key_eqb_eq in E. exfalso. apply N0. rewrite E. apply in_or_app. auto. }
    rewrite (lookup_br_app_none _ _ _ E0). apply lookup_br_app_some. apply IHl; auto.
  - pose proof (isub_key_in _ _ I) as Ik. cbn [nmeta] in Ik.
    assert (lookup_br (key_of m) (if last <? ver m0 then [(key_of m0, row_of k0 h0 s0 m0 l0 r0)] else []) = None) as E0.
    { destruct (last <? ver m0); [|reflexivity]. cbn [lookup_br]. destruct (key_eqb (key_of m0) (key_of m)) eqn:E; [|reflexivity].
      apply key_eqb_eq in E. exfalso. apply N0. rewrite E. apply in_or_app. auto. }
    rewrite (lookup_br_app_none _ _ _ E0).
    rewrite lookup_br_app_none; [apply IHr; auto|].
    apply lookup_br_none. intros row J. apply new_rows_keys in J. destruct J as (J & _).
    apply (NoDup_app_disj _ _ _ ND J Ik).
Qed.

Lemma lookup_root_app_some v l l' r :
  lookup_root v l = Some r -> lookup_root v (l ++ l') = Some r.
Proof.
  induction l as [|[[w x] b] l IH]; [discriminate|]. cbn [lookup_root app]. destruct (w =? v); auto.
Qed.

Lemma lookup_root_app_new v l r b :
  (forall e, In e l -> fst (fst e) < v) -> lookup_root v (l ++ [(v, r, b)]) = Some r.
Proof.
  induction l as [|[[w x] b'] l IH]; intros B.
  - cbn. rewrite Z.eqb_refl. reflexivity.
  - cbn [lookup_root app]. pose proof (B _ (or_introl eq_refl)) as B0. cbn [fst] in B0.
    destruct (w =? v) eqn:E; [lia|]. apply IH. intros e I. apply B. right. exact I.
Qed.

Lemma lookup_root_filter (p : Z -> bool) v l :
  p v = true -> lookup_root v (filter (fun r => p (fst (fst r))) l) = lookup_root v l.
Proof.
  intros P. induction l as [|[[w x] b] l IH]; [reflexivity|]. cbn [filter fst lookup_root].
  destruct (w =? v) eqn:E.
  - apply Z.eqb_eq in E. subst w. rewrite P. cbn [lookup_root]. rewrite Z.eqb_refl. reflexivity.
  - destruct (p w); [cbn [lookup_root]; rewrite E|]; exact IH.
Qed.

(** a tree all of whose branches have their row loads back *)
Definition rows_ok (br : list (nkey2 * node_row)) (t : node) : Prop :=
  forall k h s m l r, isub (Inner k h s m l r) t ->
    lookup_br (key_of m) br = Some (row_of k h s m l r).

Fixpoint depth (t : node) : nat :=
  match t with Leaf _ _ _ => 0%nat | Inner _ _ _ _ l r => S (Nat.max (depth l) (depth r)) end.

Lemma depth_le t : (depth t <= length (ikeys t))%nat.
Proof.
  induction t as [|k h s m l IHl r IHr]; [cbn; lia|]. cbn [depth ikeys length]. rewrite app_length. lia.
Qed.

Lemma load_ref_ok br t : forall fuel, rows_ok br t -> (depth t <= fuel)%nat ->
  load_ref fuel br (cref_of t) = Some t.
Proof.
  induction t as [k v m|k h s m l IHl r IHr]; intros fuel R D.
  - destruct fuel; reflexivity.
  - cbn [cref_of]. destruct fuel as [|f]; [cbn [depth] in D; lia|]. cbn [load_ref].
    rewrite (R k h s m l r (or_introl eq_refl)). cbn [row_of nr_l nr_r nr_key nr_h nr_s nr_hs].
    cbn [depth] in D.
    rewrite IHl; [|intros k' h' s' m' l' r' I; apply R; cbn [isub]; auto|lia].
    rewrite IHr; [|intros k' h' s' m' l' r' I; apply R; cbn [isub]; auto|lia].
    destruct m. reflexivity.
Qed.

Lemma rows_ok_length br t : rows_ok br t -> NoDup (ikeys t) -> (length (ikeys t) <= length br)%nat.
Proof.
  intros R ND. rewrite <- (map_length fst br). apply NoDup_incl_length; [assumption|].
  intros x I. assert (exists u, isub u t /\ key_of (nmeta u) = x) as (u & Iu & <-).
  { clear R ND. induction t as [|k h s m l IHl r IHr]; [destruct I|]. cbn [ikeys] in I.
    destruct I as [<-|I]; [eexists; split; [left; reflexivity|reflexivity]|].
    apply in_app_or in I. destruct I as [I|I]; [destruct (IHl I) as (u & A & B)|destruct (IHr I) as (u & A & B)];
      exists u; cbn [isub]; auto. }
  destruct (isub_inner _ _ Iu) as (k & h & s & m & l & r & ->). cbn [nmeta].
  apply R in Iu. apply lookup_br_In in Iu. apply (in_map fst) in Iu. exact Iu.
Qed.

Definition orows_ok (br : list (nkey2 * node_row)) (root : option node) : Prop :=
  match root with Some t => rows_ok br t | None => True end.

Theorem load_checkpoint_ok st v root :
  lookup_root v (roots st) = Some (rootrow_of root) -> orows_ok (branches st) root -> NoDup (okeys root) ->
  load_checkpoint st v = Some root.
Proof.
  intros LR R ND. unfold load_checkpoint. rewrite LR. destruct root as [t|]; [|reflexivity].
  destruct t as [k v' m|k h s m l r]; [reflexivity|]. cbn [rootrow_of row_of nr_l nr_r nr_key nr_h nr_s nr_hs].
  cbn [orows_ok okeys] in R, ND. pose proof (rows_ok_length _ _ R ND) as Len. cbn [ikeys length] in Len.
  rewrite app_length in Len. pose proof (depth_le l). pose proof (depth_le r). unfold load_fuel.
  rewrite load_ref_ok; [|intros k' h' s' m' l' r' I; apply R; cbn [isub]; auto|lia].
  rewrite load_ref_ok; [|intros k' h' s' m' l' r' I; apply R; cbn [isub]; auto|lia].
  destruct m. reflexivity.
Qed.

(** * 6. The invariant of a run *)
Definition ck_of (s : ostate) : Z := ckpt_last (ckpts (os_store s)).

Record Inv (lo : Z) (s : ostate) (tr : list (Z * option node)) : Prop := {
  i_ver : 0 <= os_version s;
  i_sorted : zsorted (ckpts (os_store s));
  i_ckle : Forall (fun c => 0 <= c <= os_version s) (ckpts (os_store s));
  i_nodup : NoDup (okeys (os_root s));
  i_below : Forall (below (os_version s + 1) (os_bseq s)) (okeys (os_root s));
  i_closed : forall u, oisub u (os_root s) -> hs (nmeta u) <> [] -> allhashed u;
  i_unh : forall u, oisub u (os_root s) -> hs (nmeta u) = [] -> ck_of s < ver (nmeta u);
  i_stored : forall k h s0 m l r, oisub (Inner k h s0 m l r) (os_root s) -> ver m <= ck_of s ->
               lookup_br (key_of m) (branches (os_store s)) = Some (row_of k h s0 m l r);
  i_rows : forall key row, In (key, row) (branches (os_store s)) -> fst key <= ck_of s;
  i_pend : forall x, In x (os_pending s) -> ~ In x (okeys (os_root s)) /\ fst x <= ck_of s;
  i_orph : forall x a, In (x, a) (borphans (os_store s)) ->
             ~ In x (okeys (os_root s)) /\ fst x <= ck_of s /\ In a (ckpts (os_store s)) /\
             forall v T, In (v, T) tr -> a <= v -> ~ In x (okeys T);
  i_trace : forall v T, In (v, T) tr -> 0 <= v <= os_version s /\ NoDup (okeys T) /\
             (lo <= v -> lookup_root v (roots (os_store s)) = Some (rootrow_of T) /\
                         orows_ok (branches (os_store s)) T);
  i_roots : forall e, In e (roots (os_store s)) -> fst (fst e) <= os_version s
}.

Lemma ckpt_last_bound l V : Forall (fun c => 0 <= c <= V) l -> 0 <= V -> -1 <= ckpt_last l <= V.
Proof.
  unfold ckpt_last. induction l as [|a l IH]; intros F L; [cbn; lia|].
  inversion F; subst. destruct l as [|b l']; [cbn; lia|]. change (last (a :: b :: l') (-1)) with (last (b :: l') (-1)).
  apply IH; assumption.
Qed.

Lemma ck_lt lo s tr : Inv lo s tr -> -1 <= ck_of s <= os_version s.
Proof. intros I. apply ckpt_last_bound; [apply (i_ckle _ _ _ I)|apply (i_ver _ _ _ I)]. Qed.

Lemma inv_tree_step lo s tr r' lseq' bs' os :
  Inv lo s tr ->
  NoDup (okeys r') -> Forall (below (os_version s + 1) bs') (okeys r') ->
  (forall x, In x os -> In x (opkeys (ck_of s) (os_root s)) /\ ~ In x (okeys r')) ->
  (forall x, In x (okeys r') -> In x (okeys (os_root s)) \/ fst x = os_version s + 1) ->
  (forall u, oisub u r' -> oisub u (os_root s) \/ fresh_node (os_version s + 1) u) ->
  Inv lo (OState r' (os_version s) lseq' bs' (os_pending s ++ os) (os_store s)) tr.
Proof.
  intros I ND BL OS KS PR. pose proof (ck_lt _ _ _ I) as CK.
  constructor; cbn [os_version os_store os_root os_bseq os_pending]; unfold ck_of; cbn [os_store]; fold (ck_of s);
    try (apply I; fail); try assumption.
  - intros u Iu Hu. destruct (PR u Iu) as [J|J]; [apply (i_closed _ _ _ I u J Hu)|].
    destruct u; [destruct J|]. destruct J as (_ & J). cbn [nmeta] in Hu. contradiction.
  - intros u Iu Hu. destruct (PR u Iu) as [J|J]; [apply (i_unh _ _ _ I u J Hu)|].
    destruct u; [destruct J|]. destruct J as (J & _). cbn [nmeta]. lia.
  - intros k h s0 m l r Iu Vm. destruct (PR _ Iu) as [J|J]; [apply (i_stored _ _ _ I _ _ _ _ _ _ J Vm)|].
    destruct J as (J & _). lia.
  - intros x Ix. apply in_app_or in Ix. destruct Ix as [Ix|Ix].
    + destruct (i_pend _ _ _ I x Ix) as (A & B). split; [|assumption]. intros J. destruct (KS x J); [auto|lia].
    + destruct (OS x Ix) as (A & B). split; [assumption|].
      destruct (os_root s) as [t|]; [|destruct A]. apply (pkeys_ver _ _ _ A).
  - intros x a Ix. destruct (i_orph _ _ _ I x a Ix) as (A & B & C & D). repeat split; try assumption.
    intros J. destruct (KS x J); [auto|lia].
Qed.

Lemma os_apply_inv lo s tr o s' :
  Inv lo s tr -> os_apply false s o = Some s' -> Inv lo s' tr.
Proof.
  intros I. pose proof (ck_lt _ _ _ I) as CK. unfold os_apply. destruct o as [k v|k].
  - destruct (os_root s) as [t|] eqn:ER.
    + destruct (v2_set_o _ _ _ _ t k v) as [[[[t' upd] os] bs']|] eqn:ES; [|discriminate].
      intros E; inversion E; subst; clear E.
      pose proof (i_nodup _ _ _ I) as ND. pose proof (i_below _ _ _ I) as BL. rewrite ER in ND, BL. cbn [okeys] in ND, BL.
      destruct (orphans_exact_set _ _ _ _ _ _ _ _ _ _ _ ES ND BL) as (_ & ND' & BL' & _ & OS & KS).
      apply inv_tree_step; try assumption.
      * intros x Ix. rewrite ER. cbn [opkeys okeys]. apply OS. exact Ix.
      * intros x Ix. rewrite ER. cbn [okeys]. destruct (KS x Ix) as [J|(J & _)]; auto.
      * intros u Iu. rewrite ER. cbn [oisub] in *. apply (set_prov _ _ _ _ _ _ _ _ _ _ _ ES u Iu).
    + intros E; inversion E; subst; clear E.
      replace (os_pending s) with (os_pending s ++ []) by apply app_nil_r.
      apply inv_tree_step; try assumption.
      * cbn. constructor.
      * cbn. constructor.
      * intros x [].
      * cbn. intros x [].
      * cbn. intros u [].
  - destruct (os_root s) as [t|] eqn:ER; [|intros E; inversion E; subst; exact I].
    destruct (remove_gen false _ _ _ t k) as [[[res os] bs']|] eqn:ES; [|discriminate].
    pose proof (i_nodup _ _ _ I) as ND. pose proof (i_below _ _ _ I) as BL. rewrite ER in ND, BL. cbn [okeys] in ND, BL.
    destruct (orphans_exact_remove _ _ _ _ _ _ _ _ ES ND BL) as (_ & ND' & BL' & _ & OS & KS).
    destruct (rm_val res) as [val|] eqn:EV.
    + intros E; inversion E; subst; clear E.
      apply inv_tree_step; try assumption.
      * intros x Ix. rewrite ER. cbn [opkeys]. apply OS. exact Ix.
      * intros x Ix. rewrite ER. cbn [okeys]. destruct (KS x Ix) as [J|(J & _)]; auto.
      * intros u Iu. rewrite ER. cbn [oisub]. apply (remove_prov _ _ _ _ _ _ _ _ _ ES u Iu).
    + destruct (remove_absent_no_orphans _ _ _ _ _ _ _ _ ES EV) as (-> & -> & _).
      intros E; inversion E; subst; clear E. rewrite <- ER.
      apply inv_tree_step; try assumption; try (apply I); auto. intros x [].
Qed.

Lemma os_apply_all_inv lo tr ops : forall s s',
  Inv lo s tr -> os_apply_all false s ops = Some s' -> Inv lo s' tr.
Proof.
  induction ops as [|o ops IH]; intros s s' I; cbn [os_apply_all].
  - intros E; inversion E; subst; exact I.
  - destruct (os_apply false s o) as [s1|] eqn:E1; [|discriminate]. apply IH. eapply os_apply_inv; eauto.
Qed.

Lemma os_apply_all_store early ops : forall s s',
  os_apply_all early s ops = Some s' -> os_store s' = os_store s /\ os_version s' = os_version s.
Proof.
  induction ops as [|o ops IH]; intros s s'; cbn [os_apply_all].
  - intros E; inversion E; auto.
  - destruct (os_apply early s o) as [s1|] eqn:E1; [|discriminate]. intros E. destruct (IH _ _ E) as (A & B).
    rewrite A, B. clear - E1. unfold os_apply in E1. destruct o.
    + destruct (os_root s); [destruct (v2_set_o _ _ _ _ _ _ _) as [[[[? ?] ?] ?]|]; [|discriminate]|];
        inversion E1; auto.
    + destruct (os_root s); [|inversion E1; auto].
      destruct (remove_gen _ _ _ _ _ _) as [[[? ?] ?]|]; [|discriminate]. destruct (rm_val _); inversion E1; auto.
Qed.

Lemma zsorted_snoc l v : zsorted l -> Forall (fun c => c < v) l -> zsorted (l ++ [v]).
Proof.
  induction l as [|a l IH]; intros S F; cbn [app zsorted].
  - split; [constructor|exact I].
  - destruct S as (S1 & S2). inversion F; subst. split; [|apply IH; assumption].
    apply Forall_app. split; [assumption|]. constructor; [assumption|constructor].
Qed.

Lemma ckpt_last_snoc l v : ckpt_last (l ++ [v]) = v.
Proof. unfold ckpt_last. apply last_last. Qed.

Section Save.
  Variable H : bytes -> bytes.
  Hypothesis Hnn : forall x, H x <> [].

  Definition hash_root (root : option node) : option node :=
    match root with None => None | Some n => Some (v2_deep_hash H n) end.

  Lemma okeys_hash_root root : okeys (hash_root root) = okeys root.
  Proof. destruct root; [apply ikeys_deep_hash|reflexivity]. Qed.

  (** the checkpoint trees this SaveVersion adds to the trace *)
  Definition save_trace (interval : Z) (s : ostate) : list (Z * option node) :=
    if v2_should_checkpoint interval false (ckpts (os_store s)) (os_version s + 1)
    then [(os_version s + 1, hash_root (os_root s))] else [].

  Lemma os_save_inv lo s tr interval :
    Inv lo s tr -> Inv lo (os_save H false interval s) (tr ++ save_trace interval s).
  Proof.
    intros I. pose proof (ck_lt _ _ _ I) as CK. pose proof (i_ver _ _ _ I) as V0.
    assert (forall u, oisub u (hash_root (os_root s)) -> hs (nmeta u) <> []) as R2.
    { destruct (os_root s) as [t|] eqn:ER; [|intros u []]. cbn [hash_root oisub].
      apply (allhashed_deep_hash H Hnn). intros u Iu. apply (i_closed _ _ _ I). rewrite ER. exact Iu. }
    assert (forall u, oisub u (hash_root (os_root s)) ->
              oisub u (os_root s) \/
              exists u0, oisub u0 (os_root s) /\ hs (nmeta u0) = [] /\ ver (nmeta u) = ver (nmeta u0)) as R3.
    { destruct (os_root s) as [t|] eqn:ER; [|intros u []]. cbn [hash_root oisub]. intros u. apply isub_deep_hash. }
    assert (forall k h s0 m l r, oisub (Inner k h s0 m l r) (hash_root (os_root s)) -> ver m <= ck_of s ->
              lookup_br (key_of m) (branches (os_store s)) = Some (row_of k h s0 m l r)) as ST.
    { intros k h s0 m l r Iu Vm. destruct (R3 _ Iu) as [J|(u0 & J & Hu & Vu)].
      - apply (i_stored _ _ _ I _ _ _ _ _ _ J Vm).
      - pose proof (i_unh _ _ _ I u0 J Hu). cbn [nmeta] in Vu. lia. }
    assert (forall u w, oisub u (hash_root (os_root s)) -> isub w u -> hs (nmeta w) <> []) as CL.
    { intros u w Iu Iw. apply R2. destruct (hash_root (os_root s)); [|destruct Iu]. cbn [oisub] in *.
      eapply isub_trans; eauto. }
    assert (Forall (below (os_version s + 1 + 1) 0) (okeys (os_root s))) as BL.
    { eapply Forall_impl; [|apply (i_below _ _ _ I)]. intros x. unfold below. lia. }
    unfold os_save, save_trace. fold (hash_root (os_root s)).
    destruct (v2_should_checkpoint interval false (ckpts (os_store s)) (os_version s + 1)) eqn:SC.
    - (* checkpoint *)
      set (v := os_version s + 1) in *. set (T := hash_root (os_root s)) in *.
      set (br' := branches (os_store s) ++ match T with Some t => new_rows (ckpt_last (ckpts (os_store s))) t | None => [] end).
      assert (orows_ok br' T) as RO.
      { subst br'. pose proof (i_nodup _ _ _ I) as ND. rewrite <- okeys_hash_root in ND. fold T in ND.
        destruct T as [t|] eqn:ET; [|exact Logic.I]. cbn [orows_ok okeys] in *.
        intros k h s0 m l r Iu. destruct (Z_le_gt_dec (ver m) (ck_of s)) as [Vm|Vm].
        - apply lookup_br_app_some. apply ST; assumption.
        - rewrite lookup_br_app_none.
          + apply new_rows_lookup; [assumption|assumption|]. unfold ck_of in Vm. lia.
          + apply lookup_br_none. intros row J. apply (i_rows _ _ _ I) in J. cbn [key_of fst] in J. lia. }
      constructor; cbn [os_version os_store os_root os_bseq os_pending]; unfold ck_of;
        cbn [os_store checkpoint_write_at ckpts branches borphans roots]; rewrite ?ckpt_last_snoc.
      + lia.
      + apply zsorted_snoc; [apply I|]. eapply Forall_impl; [|apply (i_ckle _ _ _ I)]. cbn beta. intros; lia.
      + apply Forall_app. split.
        * eapply Forall_impl; [|apply (i_ckle _ _ _ I)]. cbn beta. intros; lia.
        * constructor; [lia|constructor].
      + subst T. rewrite okeys_hash_root. apply I.
      + subst T. rewrite okeys_hash_root. exact BL.
      + intros u Iu _ w Iw. eapply CL; eauto.
      + intros u Iu Hu. exfalso. apply (R2 u Iu Hu).
      + intros k h s0 m l r Iu _. fold br'. destruct T as [t|]; [|destruct Iu]. apply RO. exact Iu.
      + intros key row J. apply in_app_or in J. destruct J as [J|J].
        * apply (i_rows _ _ _ I) in J. subst v. lia.
        * destruct T as [t|] eqn:ET; [|destruct J]. apply new_rows_keys in J. destruct J as (J & _).
          pose proof (i_below _ _ _ I) as B. rewrite <- okeys_hash_root in B. fold T in B. rewrite ET in B.
          cbn [okeys] in B. rewrite Forall_forall in B. specialize (B _ J). unfold below in B. lia.
      + intros x [].
      + intros x a J. apply in_app_or in J. destruct J as [J|J].
        * destruct (i_orph _ _ _ I x a J) as (A & B & C & D). subst T. rewrite okeys_hash_root.
          split; [assumption|]. split; [subst v; lia|]. split; [apply in_or_app; auto|].
          intros v' T' J' L'. apply in_app_or in J'. destruct J' as [J'|[J'|[]]]; [eauto|].
          inversion J'; subst. rewrite okeys_hash_root. assumption.
        * destruct (root_is_branch T); [|destruct J].
          apply in_map_iff in J. destruct J as (x0 & E & J). inversion E; subst x0 a. clear E.
          destruct (i_pend _ _ _ I x J) as (A & B). subst T. rewrite okeys_hash_root.
          split; [assumption|]. split; [subst v; lia|]. split; [apply in_or_app; right; left; reflexivity|].
          intros v' T' J' L'. apply in_app_or in J'. destruct J' as [J'|[J'|[]]].
          -- destruct (i_trace _ _ _ I _ _ J') as (A' & _). lia.
          -- inversion J'; subst. rewrite okeys_hash_root. assumption.
      + intros v' T' J'. apply in_app_or in J'. destruct J' as [J'|[J'|[]]].
        * destruct (i_trace _ _ _ I _ _ J') as (A' & B' & C'). split; [lia|]. split; [assumption|].
          intros L'. destruct (C' L') as (C1 & C2). split; [apply lookup_root_app_some; assumption|].
          fold br'. destruct T' as [t'|]; [|exact Logic.I]. cbn [orows_ok] in *. intros k h s0 m l r Iu.
          apply lookup_br_app_some. apply C2. exact Iu.
        * inversion J'; subst v' T'. clear J'. split; [lia|]. split; [subst T; rewrite okeys_hash_root; apply I|].
          intros _. split; [|exact RO].
          apply lookup_root_app_new. intros e Ie. apply (i_roots _ _ _ I) in Ie. lia.
      + intros e Ie. apply in_app_or in Ie. destruct Ie as [Ie|[<-|[]]]; [apply (i_roots _ _ _ I) in Ie; lia|cbn; lia].
    - (* no checkpoint *)
      rewrite app_nil_r.
      constructor; cbn [os_version os_store os_root os_bseq os_pending]; unfold ck_of;
        cbn [os_store save_root ckpts branches borphans roots]; fold (ck_of s).
      + lia.
      + apply I.
      + eapply Forall_impl; [|apply (i_ckle _ _ _ I)]. cbn beta. intros; lia.
      + rewrite okeys_hash_root. apply I.
      + rewrite okeys_hash_root. exact BL.
      + intros u Iu _ w Iw. eapply CL; eauto.
      + intros u Iu Hu. exfalso. apply (R2 u Iu Hu).
      + exact ST.
      + apply I.
      + intros x J. rewrite okeys_hash_root. apply (i_pend _ _ _ I x J).
      + intros x a J. rewrite okeys_hash_root. apply (i_orph _ _ _ I x a J).
      + intros v' T' J'. destruct (i_trace _ _ _ I _ _ J') as (A' & B' & C'). split; [lia|]. split; [assumption|].
        intros L'. destruct (C' L') as (C1 & C2). split; [apply lookup_root_app_some; assumption|assumption].
      + intros e Ie. apply in_app_or in Ie. destruct Ie as [Ie|[<-|[]]]; [apply (i_roots _ _ _ I) in Ie; lia|cbn; lia].
  Qed.
End Save.

(** * 7. The pruner *)
Lemma fp_bound cks n c :
  zsorted cks -> find_previous cks n = FPVal c -> forall a, In a cks -> a <= n -> a <= c.
Proof.
  intros S E a Ia La. pose proof (find_previous_spec cks n S) as P.
  destruct cks as [|v0 cks']; [destruct Ia|].
  destruct (n <? v0) eqn:C.
  - exfalso. apply Z.ltb_lt in C. destruct Ia as [<-|Ia]; [lia|].
    cbn [zsorted] in S. destruct S as (S1 & _). rewrite Forall_forall in S1. specialize (S1 a Ia). lia.
  - destruct P as (c' & E' & (_ & _ & M)). rewrite E in E'. inversion E'; subst c'. apply M; assumption.
Qed.

Lemma in_keys_dead x n (orph : list (nkey2 * Z)) :
  in_keys x (map fst (filter (fun o => snd o <=? n) orph)) = true ->
  exists a, In (x, a) orph /\ a <= n.
Proof.
  unfold in_keys. intros E. apply existsb_exists in E. destruct E as (y & Iy & E).
  apply key_eqb_eq in E. subst y. apply in_map_iff in Iy. destruct Iy as ([x' a] & E & Io). cbn [fst] in E. subst x'.
  apply filter_In in Io. destruct Io as (Io & L). cbn [snd] in L. exists a. split; [assumption|lia].
Qed.

(** the pruner run with the checkpoint range [cks] of the prune signal on the store as it is
    when the writer gets to it: safe as long as no checkpoint of the STORE lies in (c, n] *)
Lemma prune_with_inv lo s tr cks n c st' :
  Inv lo s tr -> prune_tree_with cks (os_store s) n = Some st' -> find_previous cks n = FPVal c ->
  (forall a, In a (ckpts (os_store s)) -> a <= n -> a <= c) ->
  Inv (Z.max lo c) (OState (os_root s) (os_version s) (os_lseq s) (os_bseq s) (os_pending s) st') tr.
Proof.
  intros I P FP NB. unfold prune_tree_with in P. rewrite FP in P. inversion P; subst st'; clear P.
  set (dead := map fst (filter (fun o => snd o <=? n) (borphans (os_store s)))).
  assert (forall key T, In key (okeys T) ->
            (T = os_root s \/ exists v, In (v, T) tr /\ c <= v) ->
            negb (in_keys key dead) = true) as ALIVE.
  { intros key T Ik W. destruct (in_keys key dead) eqn:D; [|reflexivity]. exfalso.
    apply in_keys_dead in D. destruct D as (a & Ia & La).
    destruct (i_orph _ _ _ I key a Ia) as (A & B & C & D).
    destruct W as [->|(v & Iv & Lv)]; [auto|]. apply (D v T Iv); [|assumption].
    specialize (NB a C La). lia. }
  constructor; cbn [os_version os_store os_root os_bseq os_pending]; unfold ck_of;
    cbn [os_store ckpts branches borphans roots]; fold (ck_of s); try (apply I; fail).
  - intros k h s0 m l r Iu Vm. fold dead.
    pose proof (lookup_br_filter (fun k => negb (in_keys k dead)) (key_of m) (branches (os_store s))) as X.
    cbn beta in X. rewrite X; [apply (i_stored _ _ _ I _ _ _ _ _ _ Iu Vm)|].
    apply (ALIVE _ (os_root s)); [|auto]. destruct (os_root s); [|destruct Iu]. apply (isub_key_in _ _ Iu).
  - intros key row J. apply filter_In in J. apply (i_rows _ _ _ I key row (proj1 J)).
  - intros x a J. apply filter_In in J. apply (i_orph _ _ _ I x a (proj1 J)).
  - intros v T J. destruct (i_trace _ _ _ I _ _ J) as (A & B & C). split; [assumption|]. split; [assumption|].
    intros L. destruct (C ltac:(lia)) as (C1 & C2). split.
    + pose proof (lookup_root_filter (fun w => negb (w <? c)) v (roots (os_store s))) as X.
      cbn beta in X. rewrite X; [assumption|]. destruct (v <? c) eqn:E; [lia|reflexivity].
    + fold dead. destruct T as [t|]; [|exact Logic.I]. cbn [orows_ok] in *. intros k h s0 m l r Iu.
      pose proof (lookup_br_filter (fun k => negb (in_keys k dead)) (key_of m) (branches (os_store s))) as X.
      cbn beta in X. rewrite X; [apply C2; assumption|].
      apply (ALIVE _ (Some t)); [apply (isub_key_in _ _ Iu)|]. right. exists v. split; [assumption|lia].
  - intros e J. apply filter_In in J. apply (i_roots _ _ _ I e (proj1 J)).
Qed.

Lemma prune_inv lo s tr n c st' :
  Inv lo s tr -> prune_tree (os_store s) n = Some st' -> find_previous (ckpts (os_store s)) n = FPVal c ->
  Inv (Z.max lo c) (OState (os_root s) (os_version s) (os_lseq s) (os_bseq s) (os_pending s) st') tr.
Proof.
  intros I P FP. eapply prune_with_inv; eauto. apply fp_bound; [apply I|assumption].
Qed.

(** * 8. Runs *)
Definition step_floor (s : ostate) (e : hstep) (lo : Z) : Z :=
  match e with
  | HPrune n => match find_previous (ckpts (os_store s)) n with FPVal c => Z.max lo c | _ => lo end
  | HVersion _ => lo
  end.

Section Runs.
  Variable H : bytes -> bytes.
  Hypothesis Hnn : forall x, H x <> [].
  Variable interval : Z.

  (** the greatest prune bound [c] met along the run (the checkpoints below it are gone) *)
  Fixpoint run_floor (s : ostate) (hist : list hstep) (lo : Z) : Z :=
    match hist with
    | [] => lo
    | e :: rest =>
        match os_step H false false interval s e with
        | Some s' => run_floor s' rest (step_floor s e lo)
        | None => lo
        end
    end.

  Definition step_trace (s' : ostate) (e : hstep) : list (Z * option node) :=
    match e with
    | HVersion _ =>
        if existsb (Z.eqb (os_version s')) (ckpts (os_store s')) then [(os_version s', os_root s')] else []
    | HPrune _ => []
    end.

  Lemma os_step_inv lo s tr e s' :
    Inv lo s tr -> os_step H false false interval s e = Some s' ->
    Inv (step_floor s e lo) s' (tr ++ step_trace s' e).
  Proof.
    intros I. destruct e as [ops|n]; cbn [os_step step_floor step_trace].
    - destruct (os_apply_all false s ops) as [s1|] eqn:EA; [|discriminate].
      intros E; inversion E; subst s'; clear E.
      pose proof (os_apply_all_inv _ _ _ _ _ I EA) as I1.
      pose proof (os_save_inv H Hnn lo s1 tr interval I1) as I2.
      replace (if existsb _ _ then _ else _) with (save_trace H interval s1); [exact I2|].
      unfold save_trace, os_save. fold (hash_root H (os_root s1)).
      destruct (v2_should_checkpoint interval false (ckpts (os_store s1)) (os_version s1 + 1)) eqn:SC;
        cbn [os_version os_store os_root checkpoint_write_at save_root ckpts].
      + rewrite existsb_app. cbn [existsb]. rewrite Z.eqb_refl, orb_true_r. reflexivity.
      + replace (existsb _ _) with false; [reflexivity|]. symmetry.
        apply not_true_is_false. intros X. apply existsb_exists in X. destruct X as (c & Ic & Ec).
        apply Z.eqb_eq in Ec. pose proof (i_ckle _ _ _ I1) as F. rewrite Forall_forall in F. specialize (F c Ic). lia.
    - destruct (prune_tree (os_store s) n) as [st'|] eqn:EP; [|discriminate].
      intros E; inversion E; subst s'; clear E. rewrite app_nil_r.
      assert (exists c, find_previous (ckpts (os_store s)) n = FPVal c) as (c & FP).
      { unfold prune_tree, prune_tree_with in EP. destruct (find_previous (ckpts (os_store s)) n); try discriminate. eauto. }
      rewrite FP. eapply prune_inv; eauto.
  Qed.

  Lemma os_trace_step s e rest tr :
    os_trace H false false interval s (e :: rest) = Some tr ->
    exists s' tr', os_step H false false interval s e = Some s' /\
                   os_trace H false false interval s' rest = Some tr' /\ tr = step_trace s' e ++ tr'.
  Proof.
    cbn [os_trace]. destruct (os_step H false false interval s e) as [s'|] eqn:E1; [|discriminate].
    destruct (os_trace H false false interval s' rest) as [tr'|] eqn:E2; [|discriminate].
    intros E. exists s', tr'. split; [reflexivity|]. split; [exact E2|].
    destruct e; cbn [step_trace].
    - destruct (existsb _ _); inversion E; reflexivity.
    - inversion E; reflexivity.
  Qed.

  Theorem run_inv hist : forall s lo past s' tr,
    Inv lo s past ->
    os_run H false false interval s hist = Some s' ->
    os_trace H false false interval s hist = Some tr ->
    Inv (run_floor s hist lo) s' (past ++ tr).
  Proof.
    induction hist as [|e rest IH]; intros s lo past s' tr I R T.
    - cbn in R, T. inversion R; inversion T; subst. rewrite app_nil_r. exact I.
    - apply os_trace_step in T. destruct T as (s1 & tr1 & E1 & T1 & ->).
      cbn [os_run run_floor] in *. rewrite E1 in *. rewrite app_assoc.
      apply (IH s1); [|assumption|assumption]. apply os_step_inv; assumption.
  Qed.

  Lemma inv_empty lo : Inv lo ostate_empty [].
  Proof.
    constructor; cbn; try (intros; contradiction); try constructor; try lia.
  Qed.

  Lemma inv_loads lo s tr v T :
    Inv lo s tr -> In (v, T) tr -> lo <= v -> load_checkpoint (os_store s) v = Some T.
  Proof.
    intros I J L. destruct (i_trace _ _ _ I _ _ J) as (_ & ND & C). destruct (C L) as (C1 & C2).
    apply load_checkpoint_ok; assumption.
  Qed.

  (** THEOREM 3a: after any history (versions and prunes), every checkpoint not below the
      greatest prune bound met so far loads back node for node *)
  Theorem checkpoints_load hist s tr v T :
    os_run H false false interval ostate_empty hist = Some s ->
    os_trace H false false interval ostate_empty hist = Some tr ->
    In (v, T) tr -> run_floor ostate_empty hist (-1) <= v ->
    load_checkpoint (os_store s) v = Some T.
  Proof.
    intros R Tr J L. pose proof (run_inv hist _ _ _ _ _ (inv_empty (-1)) R Tr) as I. cbn [app] in I.
    eapply inv_loads; eauto.
  Qed.

  (** THEOREM 3 (main): ... and after one more [prune_tree st n], with [c = FindPrevious(n)],
      every checkpoint [v >= c] (not already pruned away) still loads node for node: the rule
      [at <= n] deletes nothing a retained checkpoint needs, although [n] may lie beyond [c]. *)
  Theorem prune_keeps_checkpoints hist s tr n c st' v T :
    os_run H false false interval ostate_empty hist = Some s ->
    os_trace H false false interval ostate_empty hist = Some tr ->
    prune_tree (os_store s) n = Some st' ->
    find_previous (ckpts (os_store s)) n = FPVal c ->
    In (v, T) tr -> run_floor ostate_empty hist (-1) <= v -> c <= v ->
    load_checkpoint st' v = Some T.
  Proof.
    intros R Tr P FP J L Lc. pose proof (run_inv hist _ _ _ _ _ (inv_empty (-1)) R Tr) as I. cbn [app] in I.
    pose proof (prune_inv _ _ _ _ _ _ I P FP) as I'.
    apply (inv_loads _ _ _ _ _ I' J). lia.
  Qed.

  (** THEOREM 3 (race form): the prune signal carries the checkpoint range [cks] of the moment
      DeleteVersionsTo(n) was called; the writer applies [at <= n] to the rows present when it
      runs.  Safe iff no checkpoint of the store lies in (c, n]: with [n] beyond the latest
      version and a checkpoint written in between, the hypothesis fails (see
      [prune_race_refuted]). *)
  Theorem prune_keeps_checkpoints_race hist s tr cks n c st' v T :
    os_run H false false interval ostate_empty hist = Some s ->
    os_trace H false false interval ostate_empty hist = Some tr ->
    prune_tree_with cks (os_store s) n = Some st' ->
    find_previous cks n = FPVal c ->
    (forall a, In a (ckpts (os_store s)) -> a <= n -> a <= c) ->
    In (v, T) tr -> run_floor ostate_empty hist (-1) <= v -> c <= v ->
    load_checkpoint st' v = Some T.
  Proof.
    intros R Tr P FP NB J L Lc. pose proof (run_inv hist _ _ _ _ _ (inv_empty (-1)) R Tr) as I. cbn [app] in I.
    pose proof (prune_with_inv _ _ _ _ _ _ _ I P FP NB) as I'.
    apply (inv_loads _ _ _ _ _ I' J). lia.
  Qed.

  (** THEOREM 2 (the half the pruner relies on): an orphan row [((ver,seq), at)] names no node
      of a checkpoint tree of version >= [at]; [at] is a checkpoint and [ver] is below it.
      NOT PROVED: the other half (the branch IS a node of the checkpoint trees from its
      creation up to the checkpoint before [at]). *)
  Theorem checkpoint_orphans_sound_partial hist s tr x a :
    os_run H false false interval ostate_empty hist = Some s ->
    os_trace H false false interval ostate_empty hist = Some tr ->
    In (x, a) (borphans (os_store s)) ->
    In a (ckpts (os_store s)) /\ fst x <= ck_of s /\ ~ In x (okeys (os_root s)) /\
    forall v T, In (v, T) tr -> a <= v -> ~ In x (okeys T).
  Proof.
    intros R Tr J. pose proof (run_inv hist _ _ _ _ _ (inv_empty (-1)) R Tr) as I. cbn [app] in I.
    destruct (i_orph _ _ _ I x a J) as (A & B & C & D). auto.
  Qed.
End Runs.

(** * 9. sha256 never returns the empty string (the hypothesis of section Runs) *)
Definition len8 (st : list N) : Prop := exists a b c d e f g h, st = [a; b; c; d; e; f; g; h].

Lemma round_len8 st kw : len8 st -> len8 (Sha256.round st kw).
Proof.
  intros (a & b & c & d & e & f & g & h & ->). cbn [Sha256.round]. unfold len8. eauto 10.
Qed.

Lemma fold_round_len8 kws : forall st, len8 st -> len8 (fold_left Sha256.round kws st).
Proof.
  induction kws as [|kw kws IH]; intros st L; [exact L|]. cbn [fold_left]. apply IH, round_len8, L.
Qed.

Lemma compress_len8 st blk : len8 st -> len8 (Sha256.compress st blk).
Proof.
  intros L. unfold Sha256.compress.
  pose proof (fold_round_len8 (combine Sha256.K256 (Sha256.expand blk)) st L) as L'.
  destruct L as (a & b & c & d & e & f & g & h & ->).
  destruct L' as (a' & b' & c' & d' & e' & f' & g' & h' & ->).
  cbn [combine map]. unfold len8. eauto 10.
Qed.

Lemma fold_compress_len8 blocks : forall st, len8 st -> len8 (fold_left Sha256.compress blocks st).
Proof.
  induction blocks as [|b bs IH]; intros st L; [exact L|]. cbn [fold_left]. apply IH, compress_len8, L.
Qed.

Lemma sha256_nonnil x : Sha256.sha256 x <> [].
Proof.
  unfold Sha256.sha256.
  assert (len8 Sha256.H0) as L0 by (unfold len8, Sha256.H0; eauto 10).
  destruct (fold_compress_len8 (Sha256.chunks16 (S (length (Sha256.words_of (Sha256.pad x)) / 16))
                                  (Sha256.words_of (Sha256.pad x))) _ L0)
    as (a & b & c & d & e & f & g & h & ->).
  cbn [flat_map Sha256.bytes_of_word app]. discriminate.
Qed.

(** * 10. Refutations of the seeded variants, and examples (vm_compute, sha256) *)
Definition xK (n : N) : bytes := [n].
Definition xleaf (n : N) (sq : Z) : node := Leaf (xK n) (xK (n + 10)) (Meta 1 sq [7%N]).

(** the tree of four keys written in version 1 and checkpointed there (hashes abbreviated) *)
Definition x_tree : node :=
  Inner (xK 3) 2 4 (Meta 1 2 [7%N])
        (Inner (xK 2) 1 2 (Meta 1 1 [7%N]) (xleaf 1 1) (xleaf 2 2))
        (Inner (xK 4) 1 2 (Meta 1 3 [7%N]) (xleaf 3 3) (xleaf 4 4)).

(** REFUTED (seeded defect: addOrphan before the [!removed] check): removing the absent key 9
    in working version 2 leaves the tree as it is and records two live branches as orphans;
    the code as it is records nothing. *)
Theorem v2_remove_o_early_refuted :
  exists wv ckpt bs t k res os bs',
    v2_remove_o_early wv ckpt bs t k = Some (res, os, bs') /\
    rm_val res = None /\ rm_self res = Some t /\ os = [(1, 3); (1, 2)] /\
    (forall x, In x os -> In x (ikeys t)) /\
    v2_remove_o wv ckpt bs t k = Some (res, [], bs').
Proof.
  exists 2, 1, 0, x_tree, (xK 9), (RmRes (Some x_tree) None None), [(1, 3); (1, 2)], 0.
  split; [vm_compute; reflexivity|]. split; [reflexivity|]. split; [reflexivity|]. split; [reflexivity|].
  split; [|vm_compute; reflexivity].
  intros x [<-|[<-|[]]]; vm_compute; tauto.
Qed.

(** what a history leaves: the prune result on the final store, loads before / after *)
Definition x_outcome (early prev : bool) (hist : list hstep) (n : Z)
  : option (list Z * fpres * bool * bool * bool) :=
  match os_run sha256 early prev 2 ostate_empty hist, os_trace sha256 early prev 2 ostate_empty hist with
  | Some s, Some tr =>
      match find_previous (ckpts (os_store s)) n, prune_tree (os_store s) n with
      | FPVal c, Some st' =>
          Some (ckpts (os_store s), FPVal c,
                retained_load_ok (os_store s) c tr,      (* retained checkpoints load before the prune *)
                retained_load_ok st' c tr,               (* ... and after it *)
                orphans_sound_check (os_store s) tr)     (* no orphan row names a node of a tree >= its [at] *)
      | _, _ => None
      end
  | _, _ => None
  end.

(** history for the recursiveRemove defect: version 1 writes four keys (checkpoint 1), version 2
    removes an absent key, version 3 is empty (checkpoint 3); then DeleteVersionsTo(3). *)
Definition x_hist_early : list hstep :=
  [ HVersion [LSet (xK 1) (xK 11); LSet (xK 2) (xK 12); LSet (xK 3) (xK 13); LSet (xK 4) (xK 14)];
    HVersion [LDel (xK 9)];
    HVersion [] ].

(** REFUTED at history level: with the defect checkpoint 3 (= c, retained) no longer loads
    after DeleteVersionsTo(3); the code as it is keeps it. *)
Theorem remove_early_history_refuted :
  x_outcome true false x_hist_early 3 = Some ([1; 3], FPVal 3, true, false, false) /\
  x_outcome false false x_hist_early 3 = Some ([1; 3], FPVal 3, true, true, true).
Proof. split; vm_compute; reflexivity. Qed.

(** history for the execBranchOrphan defect (seeded C20): three checkpoints 1, 3, 5, writes in
    versions 4 and 5 replace branches of checkpoint 3; DeleteVersionsTo(4) prunes inside the
    older interval (c = 3). *)
Definition x_hist_prev : list hstep :=
  [ HVersion [LSet (xK 1) (xK 11); LSet (xK 2) (xK 12); LSet (xK 3) (xK 13); LSet (xK 4) (xK 14)];
    HVersion [LSet (xK 5) (xK 15)];
    HVersion [LSet (xK 6) (xK 16)];
    HVersion [LSet (xK 4) (xK 24)];
    HVersion [LSet (xK 7) (xK 17)] ].

(** REFUTED: orphans tagged with the previous checkpoint: checkpoint 3 no longer loads *)
Theorem checkpoint_write_prev_refuted :
  x_outcome false true x_hist_prev 4 = Some ([1; 3; 5], FPVal 3, true, false, false) /\
  x_outcome false false x_hist_prev 4 = Some ([1; 3; 5], FPVal 3, true, true, true).
Proof. split; vm_compute; reflexivity. Qed.

(** REFUTED for the code as it is (the race): DeleteVersionsTo(100) is called at version 4
    (checkpoints [1;3], so c = 3), checkpoint 5 is written, then the writer runs the prune with
    [at <= 100] on the rows it now sees: checkpoint 3 keeps its root row (3 >= c) but the
    branches orphaned at 5 are gone - it does not load; only checkpoint 5 does.  The hypothesis
    of [prune_keeps_checkpoints_race] (no checkpoint of the store in (c, n]) fails: 3 < 5 <= 100. *)
Theorem prune_race_refuted :
  match os_run sha256 false false 2 ostate_empty (firstn 4 x_hist_prev),
        os_run sha256 false false 2 ostate_empty x_hist_prev,
        os_trace sha256 false false 2 ostate_empty x_hist_prev with
  | Some s4, Some s5, Some tr =>
      match prune_tree_with (ckpts (os_store s4)) (os_store s5) 100 with
      | Some st' =>
          Some (ckpts (os_store s4), find_previous (ckpts (os_store s4)) 100, ckpts st',
                map (fun r => fst (fst r)) (roots st'),
                retained_load_ok (os_store s5) 3 tr, retained_load_ok st' 3 tr, retained_load_ok st' 5 tr)
      | None => None
      end
  | _, _, _ => None
  end = Some ([1; 3], FPVal 3, [1; 3; 5], [3; 4; 5], true, false, true).
Proof. vm_compute. reflexivity. Qed.

(** EXAMPLE: 9 versions over 10 keys, interval 2 (checkpoints 1,3,5,7,9), removals of present
    and absent keys, two prunes inside the history *)
Definition x_hist : list hstep :=
  [ HVersion [LSet (xK 1) (xK 11); LSet (xK 2) (xK 12); LSet (xK 3) (xK 13); LSet (xK 4) (xK 14); LSet (xK 5) (xK 15)];
    HVersion [LSet (xK 6) (xK 16); LDel (xK 2); LDel (xK 20)];
    HVersion [LSet (xK 7) (xK 17); LSet (xK 1) (xK 21); LDel (xK 0)];
    HVersion [LSet (xK 8) (xK 18); LDel (xK 3)];
    HPrune 2;
    HVersion [LSet (xK 9) (xK 19); LSet (xK 10) (xK 20); LDel (xK 30)];
    HVersion [LDel (xK 5); LSet (xK 2) (xK 22)];
    HVersion [LDel (xK 6); LDel (xK 99)];
    HPrune 6;
    HVersion [LSet (xK 3) (xK 23); LDel (xK 7)];
    HVersion [LSet (xK 6) (xK 26)] ].

Example x_hist_example :
  match os_run sha256 false false 2 ostate_empty x_hist, os_trace sha256 false false 2 ostate_empty x_hist with
  | Some s, Some tr =>
      Some (ckpts (os_store s), map fst tr, run_floor sha256 2 ostate_empty x_hist (-1),
            map (fun r => fst (fst r)) (roots (os_store s)),
            map (fun p => match load_checkpoint (os_store s) (fst p) with
                          | Some r => onode_eqb r (snd p) | None => false end) tr,
            orphans_sound_check (os_store s) tr,
            rows_reached_check (os_store s) 5 tr,
            length (branches (os_store s)), length (borphans (os_store s)))
  | _, _ => None
  end = Some ([1; 3; 5; 7; 9], [1; 3; 5; 7; 9], 5, [5; 6; 7; 8; 9],
              [false; false; true; true; true], true, true, 16%nat, 9%nat).
Proof. vm_compute. reflexivity. Qed.

(** the main theorem instantiated on the example: a third prune, to 8 (c = 7) *)
Example x_hist_prune_example :
  forall s tr st' v T,
    os_run sha256 false false 2 ostate_empty x_hist = Some s ->
    os_trace sha256 false false 2 ostate_empty x_hist = Some tr ->
    prune_tree (os_store s) 8 = Some st' ->
    In (v, T) tr -> 7 <= v -> load_checkpoint st' v = Some T.
Proof.
  intros s tr st' v T R Tr P J L.
  assert (find_previous (ckpts (os_store s)) 8 = FPVal 7) as FP.
  { revert R. vm_compute. intros R. inversion R. reflexivity. }
  apply (prune_keeps_checkpoints sha256 sha256_nonnil 2 x_hist s tr 8 7 st' v T R Tr P FP J); [|assumption].
  assert (run_floor sha256 2 ostate_empty x_hist (-1) = 5) as -> by (vm_compute; reflexivity). lia.
Qed.

Print Assumptions v2_set_o_erase.
Print Assumptions remove_gen_erase.
Print Assumptions remove_absent_no_orphans.
Print Assumptions orphans_exact_set.
Print Assumptions orphans_exact_remove.
Print Assumptions orphans_exact.
Print Assumptions load_checkpoint_ok.
Print Assumptions checkpoints_load.
Print Assumptions prune_keeps_checkpoints.
Print Assumptions prune_keeps_checkpoints_race.
Print Assumptions checkpoint_orphans_sound_partial.
Print Assumptions sha256_nonnil.
Print Assumptions v2_remove_o_early_refuted.
Print Assumptions remove_early_history_refuted.
Print Assumptions checkpoint_write_prev_refuted.
Print Assumptions prune_race_refuted.
Print Assumptions x_hist_prune_example.
