(** Proofs about Diff.v: the net change of a version applied to the previous contents gives
    the new contents; the two-iterator merge of [extractStateChanges] computes exactly the
    net change; [SaveChangeSet] applies a change set as one new version; replaying the net
    changes of versions 1..n into an empty tree reproduces every version's contents. *)
From IAVL Require Import Bytes Varint Tree VMap TreeFacts MTree MTreeFacts Diff.
Local Open Scope Z_scope.

(** * 0. Lists of keys in strictly ascending order *)
Fixpoint ksorted (l : list bytes) : Prop :=
  match l with
  | [] => True
  | k :: r => Forall (fun x => k <b x) r /\ ksorted r
  end.

Lemma sorted_ksorted (l : kvs) : sorted l <-> ksorted (map fst l).
Proof.
  induction l as [|[k v] l IH]; cbn [sorted ksorted map fst]; [tauto|].
  rewrite IH, Forall_map. tauto.
Qed.

Lemma ksorted_app a b :
  ksorted (a ++ b) <-> ksorted a /\ ksorted b /\ (forall x y, In x a -> In y b -> x <b y).
Proof.
  induction a as [|k a IH]; cbn [app ksorted].
  - split; [intros Hb; repeat split; auto; intros x y []|tauto].
  - rewrite IH, Forall_app. split.
    + intros ((Fa & Fb) & Sa & Sb & L). repeat split; auto.
      intros x y [->|Ix] Iy; [rewrite Forall_forall in Fb; auto|auto].
    + intros ((Fa & Sa) & Sb & L). repeat split; auto.
      * apply Forall_forall. intros y Iy. apply L; [left; reflexivity|exact Iy].
      * intros x y Ix Iy. apply L; [right; exact Ix|exact Iy].
Qed.

Lemma ksorted_head k l x : ksorted (k :: l) -> In x l -> k <b x.
Proof. intros [F _] I. rewrite Forall_forall in F. auto. Qed.

Lemma ksorted_tail k l : ksorted (k :: l) -> ksorted l.
Proof. intros [_ S]. exact S. Qed.

Lemma ksorted_not_in k l : ksorted (k :: l) -> ~ In k l.
Proof. intros S I. pose proof (ksorted_head _ _ _ S I). border. Qed.

Lemma ksorted_NoDup l : ksorted l -> NoDup l.
Proof.
  induction l as [|k l IH]; intros S; constructor.
  - apply ksorted_not_in, S.
  - apply IH, (ksorted_tail _ _ S).
Qed.

(** two lists, strictly ascending for the same key function, with the same members are equal *)
Lemma ksorted_ext {A} (f : A -> bytes) (l1 : list A) : forall l2,
  ksorted (map f l1) -> ksorted (map f l2) -> (forall x, In x l1 <-> In x l2) -> l1 = l2.
Proof.
  induction l1 as [|a l1 IH]; intros [|b l2] S1 S2 E.
  - reflexivity.
  - exfalso. apply (E b). left; reflexivity.
  - exfalso. apply (E a). left; reflexivity.
  - cbn [map] in S1, S2.
    assert (L1 : forall x, In x l1 -> f a <b f x).
    { intros x I. apply (ksorted_head _ _ _ S1), in_map, I. }
    assert (L2 : forall x, In x l2 -> f b <b f x).
    { intros x I. apply (ksorted_head _ _ _ S2), in_map, I. }
    assert (a = b) as ->.
    { destruct (proj1 (E a) (or_introl eq_refl)) as [->|Ia]; [reflexivity|].
      destruct (proj2 (E b) (or_introl eq_refl)) as [->|Ib]; [reflexivity|].
      pose proof (L1 _ Ib). pose proof (L2 _ Ia). exfalso. border. }
    f_equal. apply IH; [exact (ksorted_tail _ _ S1)|exact (ksorted_tail _ _ S2)|].
    intros x. split; intros I.
    + destruct (proj1 (E x) (or_intror I)) as [->|I2]; [|exact I2].
      pose proof (L1 _ I). exfalso. border.
    + destruct (proj2 (E x) (or_intror I)) as [->|I1]; [|exact I1].
      pose proof (L2 _ I). exfalso. border.
Qed.

(** * 1. Association lists *)
Lemma assoc_ins k k' v (l : kvs) : assoc k (ins k' v l) = if beq k k' then Some v else assoc k l.
Proof.
  induction l as [|[k2 v2] l IH]; cbn [ins assoc]; [reflexivity|].
  bcases k' k2; cbn [assoc].
  - subst k2. destruct (beq k k'); reflexivity.
  - reflexivity.
  - rewrite IH. destruct (beq k k2) eqn:B2; [|reflexivity].
    destruct (beq k k') eqn:B1; [|reflexivity]. btests. subst. exfalso. border.
Qed.

Lemma assoc_del_ne k k' (l : kvs) : k <> k' -> assoc k (del k' l) = assoc k l.
Proof.
  intros NE. induction l as [|[k2 v2] l IH]; cbn [del assoc]; [reflexivity|].
  bcases k' k2; cbn [assoc].
  - subst k2. replace (beq k k') with false by (symmetry; apply beq_false; exact NE). reflexivity.
  - reflexivity.
  - rewrite IH. reflexivity.
Qed.

Lemma assoc_notin k (l : kvs) : ~ In k (map fst l) -> assoc k l = None.
Proof.
  induction l as [|[k2 v2] l IH]; cbn [map fst In assoc]; intros N; [reflexivity|].
  destruct (beq k k2) eqn:B; btests; [exfalso; apply N; left; congruence|].
  apply IH. tauto.
Qed.

Lemma assoc_some_in k v (l : kvs) : assoc k l = Some v -> In (k, v) l.
Proof.
  induction l as [|[k2 v2] l IH]; cbn [assoc In]; [discriminate|].
  destruct (beq k k2) eqn:B; btests; intros E.
  - left. congruence.
  - right. auto.
Qed.

Lemma assoc_in_sorted k v (l : kvs) : sorted l -> In (k, v) l -> assoc k l = Some v.
Proof.
  induction l as [|[k2 v2] l IH]; cbn [sorted assoc In]; [tauto|].
  intros [F S] [E|I].
  - inversion E; subst. replace (beq k k) with true by (symmetry; apply beq_true; reflexivity).
    reflexivity.
  - rewrite Forall_forall in F. pose proof (F _ I) as L. cbn [fst] in L.
    replace (beq k k2) with false by (symmetry; apply beq_false; intro; subst; border).
    auto.
Qed.

Lemma assoc_del_eq k (l : kvs) : sorted l -> assoc k (del k l) = None.
Proof.
  intros S. apply assoc_notin. intros I. apply in_map_iff in I. destruct I as ([k' v] & E & I).
  cbn [fst] in E. subst k'.
  induction l as [|[k2 v2] l IH]; cbn [del] in I; [exact I|].
  cbn [sorted] in S. destruct S as [F S]. rewrite Forall_forall in F.
  revert I. bcases k k2; intros I.
  - subst k2. pose proof (F _ I) as L. cbn [fst] in L. border.
  - destruct I as [I|I]; [inversion I; subst; border|].
    pose proof (F _ I) as L. cbn [fst] in L. border.
  - destruct I as [I|I]; [inversion I; subst; border|]. auto.
Qed.

Lemma sorted_ins k v (l : kvs) : sorted l -> sorted (ins k v l).
Proof.
  induction l as [|[k2 v2] l IH]; cbn [ins sorted]; [auto|].
  intros [F S]. bcases k k2; cbn [sorted].
  - subst. auto.
  - split; [|auto]. constructor; [exact E|].
    eapply Forall_impl; [|exact F]. intros; border.
  - split; [|auto]. apply Forall_ins; auto.
Qed.

Lemma sorted_del k (l : kvs) : sorted l -> sorted (del k l).
Proof.
  induction l as [|[k2 v2] l IH]; cbn [del sorted]; [auto|].
  intros [F S]. bcases k k2; cbn [sorted]; auto.
  split; [|auto]. apply Forall_del; auto.
Qed.

Lemma sorted_assoc_ext (l1 l2 : kvs) :
  sorted l1 -> sorted l2 -> (forall k, assoc k l1 = assoc k l2) -> l1 = l2.
Proof.
  intros S1 S2 E. apply (ksorted_ext fst); [apply sorted_ksorted, S1|apply sorted_ksorted, S2|].
  intros [k v]. split; intros I.
  - apply assoc_some_in. rewrite <- E. apply assoc_in_sorted; auto.
  - apply assoc_some_in. rewrite E. apply assoc_in_sorted; auto.
Qed.

Lemma mem_true_in k (l : kvs) : mem k l = true <-> In k (map fst l).
Proof.
  unfold mem. split.
  - destruct (assoc k l) as [v|] eqn:A; [|discriminate]. intros _.
    apply assoc_some_in in A. apply in_map_iff. exists (k, v). auto.
  - intros I. destruct (assoc k l) eqn:A; [reflexivity|]. exfalso.
    revert A. induction l as [|[k2 v2] l IH]; cbn [map fst In assoc] in *; [tauto|].
    destruct (beq k k2) eqn:B; btests; [discriminate|].
    destruct I as [I|I]; [congruence|auto].
Qed.

Lemma mem_false_notin k (l : kvs) : mem k l = false <-> ~ In k (map fst l).
Proof. rewrite <- mem_true_in. destruct (mem k l); split; congruence. Qed.

(** * 2. Applying changes *)
Lemma sorted_apply_change c l : sorted l -> sorted (apply_change c l).
Proof. destruct c; cbn [apply_change]; [apply sorted_ins|apply sorted_del]. Qed.

Lemma sorted_apply cs : forall l, sorted l -> sorted (apply_changes cs l).
Proof.
  induction cs as [|c cs IH]; intros l S; cbn [apply_changes]; [exact S|].
  apply IH, sorted_apply_change, S.
Qed.

Lemma assoc_apply_change_ne k c l : k <> ckey c -> assoc k (apply_change c l) = assoc k l.
Proof.
  destruct c as [k' v|k']; cbn [apply_change ckey]; intros NE.
  - rewrite assoc_ins. replace (beq k k') with false by (symmetry; apply beq_false; exact NE).
    reflexivity.
  - apply assoc_del_ne, NE.
Qed.

Lemma assoc_apply_notin k cs : forall l,
  ~ In k (map ckey cs) -> assoc k (apply_changes cs l) = assoc k l.
Proof.
  induction cs as [|c cs IH]; intros l N; cbn [apply_changes]; [reflexivity|].
  cbn [map In] in N. rewrite IH by tauto. apply assoc_apply_change_ne. intros E. apply N. left. congruence.
Qed.

Lemma assoc_apply_set k v cs : forall l,
  ksorted (map ckey cs) -> In (CSet k v) cs -> assoc k (apply_changes cs l) = Some v.
Proof.
  induction cs as [|c cs IH]; intros l S I; [destruct I|].
  cbn [map] in S. cbn [apply_changes]. destruct I as [->|I].
  - cbn [ckey] in S. rewrite assoc_apply_notin by (apply ksorted_not_in, S).
    cbn [apply_change]. rewrite assoc_ins.
    replace (beq k k) with true by (symmetry; apply beq_true; reflexivity). reflexivity.
  - apply IH; [exact (ksorted_tail _ _ S)|exact I].
Qed.

Lemma assoc_apply_del k cs : forall l,
  ksorted (map ckey cs) -> In (CDel k) cs -> sorted l -> assoc k (apply_changes cs l) = None.
Proof.
  induction cs as [|c cs IH]; intros l S I Sl; [destruct I|].
  cbn [map] in S. cbn [apply_changes]. destruct I as [->|I].
  - cbn [ckey] in S. rewrite assoc_apply_notin by (apply ksorted_not_in, S).
    cbn [apply_change]. apply assoc_del_eq, Sl.
  - apply IH; [exact (ksorted_tail _ _ S)|exact I|apply sorted_apply_change, Sl].
Qed.

(** * 3. The merge of sets and deletions *)
Lemma merge_nil_l d : merge [] d = map CDel d.
Proof. destruct d; reflexivity. Qed.
Lemma merge_nil_r s : merge s [] = map cset s.
Proof. destruct s as [|[k v] s]; reflexivity. Qed.
Lemma merge_cons k v s kd d :
  merge ((k, v) :: s) (kd :: d) =
    if blt kd k then CDel kd :: merge ((k, v) :: s) d else CSet k v :: merge s (kd :: d).
Proof. reflexivity. Qed.

Lemma merge_In c s : forall d, In c (merge s d) <-> In c (map cset s) \/ In c (map CDel d).
Proof.
  induction s as [|[k v] s IHs]; intros d.
  - rewrite merge_nil_l. cbn [map In]. tauto.
  - induction d as [|kd d IHd].
    + rewrite merge_nil_r. cbn [map In]. tauto.
    + rewrite merge_cons. destruct (blt kd k).
      * cbn [In]. rewrite IHd. cbn [map In]. tauto.
      * cbn [In]. rewrite IHs. cbn [map In cset fst snd]. tauto.
Qed.

Lemma merge_keys x s d :
  In x (map ckey (merge s d)) <-> In x (map fst s) \/ In x d.
Proof.
  rewrite in_map_iff. split.
  - intros (c & E & I). apply merge_In in I. destruct I as [I|I]; apply in_map_iff in I.
    + destruct I as ([k v] & <- & I). left. apply in_map_iff. exists (k, v). auto.
    + destruct I as (k & <- & I). right. subst. exact I.
  - intros [I|I].
    + apply in_map_iff in I. destruct I as ([k v] & <- & I). exists (CSet k v). split; [reflexivity|].
      apply merge_In. left. apply in_map_iff. exists (k, v). auto.
    + exists (CDel x). split; [reflexivity|]. apply merge_In. right. apply in_map, I.
Qed.

Lemma ksorted_map_cset s : ksorted (map fst s) -> ksorted (map ckey (map cset s)).
Proof. rewrite map_map. cbn [cset ckey]. auto. Qed.
Lemma ksorted_map_cdel d : ksorted d -> ksorted (map ckey (map CDel d)).
Proof. rewrite map_map. cbn [ckey]. rewrite map_id. auto. Qed.

Lemma merge_sorted s : forall d,
  ksorted (map fst s) -> ksorted d -> (forall k, In k d -> ~ In k (map fst s)) ->
  ksorted (map ckey (merge s d)).
Proof.
  induction s as [|[k v] s IHs]; intros d Ss Sd Dj.
  - rewrite merge_nil_l. apply ksorted_map_cdel, Sd.
  - induction d as [|kd d IHd].
    + rewrite merge_nil_r. apply ksorted_map_cset, Ss.
    + rewrite merge_cons. cbn [map fst] in Ss.
      destruct (blt kd k) eqn:C; btests; cbn [map ckey ksorted].
      * split.
        -- apply Forall_forall. intros x I. apply merge_keys in I. destruct I as [I|I].
           ++ cbn [map fst In] in I. destruct I as [<-|I]; [exact C|].
              pose proof (ksorted_head _ _ _ Ss I). border.
           ++ exact (ksorted_head _ _ _ Sd I).
        -- apply IHd; [exact (ksorted_tail _ _ Sd)|]. intros x I. apply Dj. right; exact I.
      * assert (k <b kd) as L.
        { assert (k <> kd) by (intros ->; apply (Dj kd); left; reflexivity). border. }
        split.
        -- apply Forall_forall. intros x I. apply merge_keys in I. destruct I as [I|I].
           ++ exact (ksorted_head _ _ _ Ss I).
           ++ destruct I as [<-|I]; [exact L|]. pose proof (ksorted_head _ _ _ Sd I). border.
        -- apply IHs; [exact (ksorted_tail _ _ Ss)|exact Sd|].
           intros x I N. apply (Dj x I). right; exact N.
Qed.

(** * 4. New and old leaves *)
Definition owf (t : option node) : Prop := match t with None => True | Some n => wf n end.
Definition oold (pv : Z) (t : option node) : kvs :=
  match t with None => [] | Some n => old_leaves pv n end.

Lemma elems_new_old pv t p : In p (elems t) <-> In p (new_leaves pv t) \/ In p (old_leaves pv t).
Proof.
  induction t as [k v m|k h s m l IHl r IHr]; cbn [elems new_leaves old_leaves].
  - destruct (ver m <=? pv); cbn [In]; tauto.
  - rewrite !in_app_iff, IHl, IHr. tauto.
Qed.

Lemma new_leaves_incl pv t p : In p (new_leaves pv t) -> In p (elems t).
Proof. intros I. apply (elems_new_old pv). left; exact I. Qed.

Lemma new_leaves_sorted pv t : wf t -> sorted (new_leaves pv t).
Proof.
  induction t as [k v m|k h s m l IHl r IHr]; intros W; cbn [new_leaves].
  - destruct (ver m <=? pv); cbn [sorted]; auto.
  - pose proof (wf_keys_lt _ _ _ _ _ _ W) as KL. pose proof (wf_keys_ge _ _ _ _ _ _ W) as KG.
    cbn [wf] in W. destruct W as (Wl & Wr & _).
    apply (sorted_app _ _ k); auto.
    + unfold keys_lt in *. rewrite Forall_forall in *. intros p I. apply KL, (new_leaves_incl pv), I.
    + unfold keys_ge in *. rewrite Forall_forall in *. intros p I. apply KG, (new_leaves_incl pv), I.
Qed.

Lemma osorted t : owf t -> sorted (oelems t).
Proof. destruct t; cbn [owf oelems sorted]; [apply wf_sorted|auto]. Qed.

Lemma sets_sorted pv t : owf t -> sorted (sets_of pv t).
Proof. destruct t; cbn [owf sets_of sorted]; [apply new_leaves_sorted|auto]. Qed.

Lemma sets_incl pv t p : In p (sets_of pv t) -> In p (oelems t).
Proof. destruct t; cbn [sets_of oelems]; [apply new_leaves_incl|auto]. Qed.

Lemma oelems_new_old pv t p : In p (oelems t) <-> In p (sets_of pv t) \/ In p (oold pv t).
Proof. destruct t; cbn [oelems sets_of oold]; [apply elems_new_old|cbn [In]; tauto]. Qed.

Lemma dels_In prev cur k :
  In k (dels_of prev cur) <-> In k (map fst (oelems prev)) /\ ~ In k (map fst (oelems cur)).
Proof.
  unfold dels_of. rewrite filter_In, negb_true_iff, mem_false_notin. reflexivity.
Qed.

Lemma ksorted_filter (f : bytes -> bool) l : ksorted l -> ksorted (filter f l).
Proof.
  induction l as [|k l IH]; cbn [filter ksorted]; [auto|]. intros [F S].
  destruct (f k); cbn [ksorted]; auto. split; auto.
  apply Forall_forall. intros x I. apply filter_In in I. rewrite Forall_forall in F. apply F, I.
Qed.

Lemma dels_sorted prev cur : owf prev -> ksorted (dels_of prev cur).
Proof. intros W. apply ksorted_filter, sorted_ksorted, osorted, W. Qed.

Lemma dels_sets_disjoint pv prev cur k :
  In k (dels_of prev cur) -> ~ In k (map fst (sets_of pv cur)).
Proof.
  intros I N. apply dels_In in I. destruct I as [_ I]. apply I.
  apply in_map_iff in N. destruct N as (p & E & N). apply in_map_iff. exists p.
  split; [exact E|]. apply (sets_incl pv), N.
Qed.

(** the net change lists every key once, in ascending order *)
Theorem net_sorted pv prev cur :
  owf prev -> owf cur -> ksorted (map ckey (net prev cur pv)).
Proof.
  intros Wp Wc. unfold net. apply merge_sorted.
  - apply sorted_ksorted, sets_sorted, Wc.
  - apply dels_sorted, Wp.
  - intros k. apply dels_sets_disjoint.
Qed.

Corollary net_NoDup pv prev cur :
  owf prev -> owf cur -> NoDup (map ckey (net prev cur pv)).
Proof. intros Wp Wc. apply ksorted_NoDup, net_sorted; assumption. Qed.

Lemma net_set_In pv prev cur k v :
  In (CSet k v) (net prev cur pv) <-> In (k, v) (sets_of pv cur).
Proof.
  unfold net. rewrite merge_In. split.
  - intros [I|I]; apply in_map_iff in I.
    + destruct I as ([k' v'] & E & I). unfold cset in E. cbn [fst snd] in E.
      inversion E; subst. exact I.
    + destruct I as (k' & E & _). discriminate E.
  - intros I. left. apply in_map_iff. exists (k, v). auto.
Qed.

Lemma net_del_In pv prev cur k :
  In (CDel k) (net prev cur pv) <-> In k (dels_of prev cur).
Proof.
  unfold net. rewrite merge_In. split.
  - intros [I|I]; apply in_map_iff in I.
    + destruct I as ([k' v'] & E & _). discriminate E.
    + destruct I as (k' & E & I). inversion E; subst. exact I.
  - intros I. right. apply in_map, I.
Qed.

(** ** Theorem 1: the net change applied to the previous contents gives the new contents.
    Version consistency: a leaf of [cur] not created after [pv] is a leaf of [prev]. *)
Theorem apply_net pv prev cur :
  owf prev -> owf cur ->
  (forall p, In p (oold pv cur) -> In p (oelems prev)) ->
  apply_changes (net prev cur pv) (oelems prev) = oelems cur.
Proof.
  intros Wp Wc Old.
  pose proof (osorted _ Wp) as Sp. pose proof (osorted _ Wc) as Sc.
  pose proof (net_sorted pv _ _ Wp Wc) as Sn.
  apply sorted_assoc_ext; [apply sorted_apply, Sp|exact Sc|].
  intros k.
  destruct (assoc k (sets_of pv cur)) as [v|] eqn:AS.
  - apply assoc_some_in in AS.
    rewrite (assoc_apply_set k v) by (auto; apply net_set_In, AS).
    symmetry. apply assoc_in_sorted; [exact Sc|]. apply (sets_incl pv), AS.
  - assert (NS : ~ In k (map fst (sets_of pv cur))).
    { intros I. apply in_map_iff in I. destruct I as ([k' v] & E & I). cbn [fst] in E. subst k'.
      apply (assoc_in_sorted _ _ _ (sets_sorted pv _ Wc)) in I. congruence. }
    destruct (assoc k (oelems cur)) as [v|] eqn:AC.
    + apply assoc_some_in in AC.
      assert (Ip : In (k, v) (oelems prev)).
      { apply Old. apply (oelems_new_old pv) in AC. destruct AC as [I|I]; [|exact I].
        exfalso. apply NS. apply in_map_iff. exists (k, v). auto. }
      rewrite assoc_apply_notin.
      * apply assoc_in_sorted; auto.
      * intros I. unfold net in I. apply merge_keys in I. destruct I as [I|I]; [auto|].
        apply dels_In in I. destruct I as [_ I]. apply I. apply in_map_iff. exists (k, v). auto.
    + assert (NC : ~ In k (map fst (oelems cur))).
      { apply mem_false_notin. unfold mem. rewrite AC. reflexivity. }
      destruct (assoc k (oelems prev)) as [v'|] eqn:AP.
      * apply assoc_some_in in AP.
        apply assoc_apply_del; auto. apply net_del_In, dels_In. split; [|exact NC].
        apply in_map_iff. exists (k, v'). auto.
      * rewrite assoc_apply_notin; [exact AP|].
        intros I. unfold net in I. apply merge_keys in I. destruct I as [I|I]; [auto|].
        apply dels_In in I. destruct I as [I _].
        apply mem_true_in in I. unfold mem in I. rewrite AP in I. discriminate.
Qed.

(** * 5. The two pre-order walks as item sequences *)

(** What the walk of the current tree meets: new leaves, and the topmost shared subtrees
    (skipped).  What the walk of the previous tree meets, given the set [sh] of node keys it
    recognises as shared: orphaned leaves and topmost recognised subtrees. *)
Inductive citem := CNew (k v : bytes) | CShared (n : node).
Inductive pitem := POrph (k : bytes) | PShared (n : node).

Fixpoint citems (pv : Z) (t : node) : list citem :=
  if ver (nmeta t) <=? pv then [CShared t] else
  match t with
  | Leaf k v _ => [CNew k v]
  | Inner _ _ _ _ l r => citems pv l ++ citems pv r
  end.

Fixpoint pitems (sh : Z * Z -> bool) (t : node) : list pitem :=
  if sh (nk t) then [PShared t] else
  match t with
  | Leaf k _ _ => [POrph k]
  | Inner _ _ _ _ l r => pitems sh l ++ pitems sh r
  end.

Definition cstack pv (st : nstack) : list citem := flat_map (citems pv) st.
Definition pstack sh (st : nstack) : list pitem := flat_map (pitems sh) st.

Definition cnew (p : bytes * bytes) : citem := CNew (fst p) (snd p).

Fixpoint cshared (cs : list citem) : list node :=
  match cs with
  | [] => []
  | CNew _ _ :: r => cshared r
  | CShared s :: r => s :: cshared r
  end.
Fixpoint pshared (ps : list pitem) : list node :=
  match ps with
  | [] => []
  | POrph _ :: r => pshared r
  | PShared s :: r => s :: pshared r
  end.
Fixpoint cnews (cs : list citem) : kvs :=
  match cs with
  | [] => []
  | CNew k v :: r => (k, v) :: cnews r
  | CShared _ :: r => cnews r
  end.
Fixpoint porphs (ps : list pitem) : list bytes :=
  match ps with
  | [] => []
  | POrph k :: r => k :: porphs r
  | PShared _ :: r => porphs r
  end.

Lemma citems_shared pv t : ver (nmeta t) <=? pv = true -> citems pv t = [CShared t].
Proof. intros E. destruct t; cbn [citems]; rewrite E; reflexivity. Qed.
Lemma citems_leaf pv k v m : ver m <=? pv = false -> citems pv (Leaf k v m) = [CNew k v].
Proof. intros E. cbn [citems nmeta]. rewrite E. reflexivity. Qed.
Lemma citems_inner pv k h s m l r :
  ver m <=? pv = false -> citems pv (Inner k h s m l r) = citems pv l ++ citems pv r.
Proof. intros E. cbn [citems nmeta]. rewrite E. reflexivity. Qed.

Lemma pitems_shared sh t : sh (nk t) = true -> pitems sh t = [PShared t].
Proof. intros E. destruct t; cbn [pitems]; rewrite E; reflexivity. Qed.
Lemma pitems_leaf sh k v m : sh (nk (Leaf k v m)) = false -> pitems sh (Leaf k v m) = [POrph k].
Proof. intros E. cbn [pitems]. rewrite E. reflexivity. Qed.
Lemma pitems_inner sh k h s m l r :
  sh (nk (Inner k h s m l r)) = false ->
  pitems sh (Inner k h s m l r) = pitems sh l ++ pitems sh r.
Proof. intros E. cbn [pitems]. rewrite E. reflexivity. Qed.

Lemma cshared_app a b : cshared (a ++ b) = cshared a ++ cshared b.
Proof. induction a as [|[k v|s] a IH]; cbn [app cshared]; [reflexivity|exact IH|rewrite IH; reflexivity]. Qed.
Lemma pshared_app a b : pshared (a ++ b) = pshared a ++ pshared b.
Proof. induction a as [|[k|s] a IH]; cbn [app pshared]; [reflexivity|exact IH|rewrite IH; reflexivity]. Qed.
Lemma cnews_app a b : cnews (a ++ b) = cnews a ++ cnews b.
Proof. induction a as [|[k v|s] a IH]; cbn [app cnews]; [reflexivity|rewrite IH; reflexivity|exact IH]. Qed.
Lemma porphs_app a b : porphs (a ++ b) = porphs a ++ porphs b.
Proof. induction a as [|[k|s] a IH]; cbn [app porphs]; [reflexivity|rewrite IH; reflexivity|exact IH]. Qed.

Lemma cshared_news nl : cshared (map cnew nl) = [].
Proof. induction nl as [|[k v] nl IH]; cbn [map cnew cshared]; auto. Qed.
Lemma cnews_news nl : cnews (map cnew nl) = nl.
Proof. induction nl as [|[k v] nl IH]; cbn [map cnew cnews fst snd]; [reflexivity|rewrite IH; reflexivity]. Qed.

Lemma cshared_In s cs : In s (cshared cs) <-> In (CShared s) cs.
Proof.
  induction cs as [|[k v|s'] cs IH]; cbn [cshared In]; [tauto| |].
  - rewrite IH. split; [auto|]. intros [E|I]; [discriminate|exact I].
  - rewrite IH. split; intros [E|I]; auto; left; congruence.
Qed.
Lemma pshared_In s ps : In s (pshared ps) <-> In (PShared s) ps.
Proof.
  induction ps as [|[k|s'] ps IH]; cbn [pshared In]; [tauto| |].
  - rewrite IH. split; [auto|]. intros [E|I]; [discriminate|exact I].
  - rewrite IH. split; intros [E|I]; auto; left; congruence.
Qed.
Lemma cnews_In k v cs : In (k, v) (cnews cs) <-> In (CNew k v) cs.
Proof.
  induction cs as [|[k' v'|s'] cs IH]; cbn [cnews In]; [tauto| |].
  - rewrite IH. split; intros [E|I]; auto; left; congruence.
  - rewrite IH. split; [auto|]. intros [E|I]; [discriminate|exact I].
Qed.
Lemma porphs_In k ps : In k (porphs ps) <-> In (POrph k) ps.
Proof.
  induction ps as [|[k'|s'] ps IH]; cbn [porphs In]; [tauto| |].
  - rewrite IH. split; intros [E|I]; auto; left; congruence.
  - rewrite IH. split; [auto|]. intros [E|I]; [discriminate|exact I].
Qed.

(** ** The merge on item sequences *)
Fixpoint b_orphan (ok : bytes) (cs : list citem) : list change * list citem :=
  match cs with
  | CNew k v :: cs' =>
      match bcmp ok k with
      | Gt => let (e, r) := b_orphan ok cs' in (CSet k v :: e, r)
      | Lt => ([CDel ok], cs)
      | Eq => ([CSet k v], cs')
      end
  | _ => ([CDel ok], cs)
  end.

(** emit the leading new leaves and drop the shared subtree that follows them *)
Fixpoint b_flush (cs : list citem) : list change * list citem :=
  match cs with
  | CNew k v :: cs' => let (e, r) := b_flush cs' in (CSet k v :: e, r)
  | CShared _ :: cs' => ([], cs')
  | [] => ([], [])
  end.

Fixpoint b_loop (ps : list pitem) (cs : list citem) : list change :=
  match ps with
  | [] => fst (b_flush cs)
  | POrph k :: ps' => let (e, cs') := b_orphan k cs in e ++ b_loop ps' cs'
  | PShared _ :: ps' => let (e, cs') := b_flush cs in e ++ b_loop ps' cs'
  end.

Definition tail_ok (tl : list citem) : Prop := tl = [] \/ exists s r, tl = CShared s :: r.

Lemma b_flush_news nl tl :
  tail_ok tl ->
  b_flush (map cnew nl ++ tl) = (map cset nl, match tl with [] => [] | _ :: r => r end).
Proof.
  intros T. induction nl as [|[k v] nl IH]; cbn [map app cnew fst snd].
  - destruct T as [->|(s & r & ->)]; reflexivity.
  - cbn [b_flush]. rewrite IH. reflexivity.
Qed.

Lemma b_orphan_news ok nl tl :
  tail_ok tl ->
  b_orphan ok (map cnew nl ++ tl) =
    (fst (add_orphan ok nl), map cnew (snd (add_orphan ok nl)) ++ tl).
Proof.
  intros T. induction nl as [|[k v] nl IH]; cbn [map app].
  - destruct T as [->|(s & r & ->)]; reflexivity.
  - change (cnew (k, v)) with (CNew k v). cbn [b_orphan add_orphan].
    destruct (bcmp ok k); cbn [fst snd map]; try reflexivity.
    rewrite IH. destruct (add_orphan ok nl) as [e r]. reflexivity.
Qed.

(** ** The machine computes the item-level merge *)
Definition nodes_stack (st : nstack) : nat := fold_right (fun t n => (nodes t + n)%nat) O st.
Definition oshared (shn : option node) : list citem :=
  match shn with Some s => [CShared s] | None => [] end.

Lemma nodes_pos t : (1 <= nodes t)%nat.
Proof. destruct t; cbn [nodes]; lia. Qed.

Lemma adv_loop_spec pv fuel : forall cst nl,
  (nodes_stack cst < fuel)%nat ->
  exists cst' shn nl',
    adv_loop fuel pv cst nl = Some (cst', shn, nl') /\
    map cnew nl ++ cstack pv cst = map cnew nl' ++ oshared shn ++ cstack pv cst' /\
    (shn = None -> cst' = []) /\
    (nodes_stack cst' <= nodes_stack cst)%nat.
Proof.
  induction fuel as [|f IH]; intros cst nl Hf; [lia|].
  destruct cst as [|t st].
  - exists [], None, nl. cbn [adv_loop oshared cstack flat_map app]. auto.
  - cbn [adv_loop]. cbn [nodes_stack fold_right] in Hf. fold (nodes_stack st) in Hf.
    destruct (ver (nmeta t) <=? pv) eqn:Sh.
    + exists st, (Some t), nl. cbn [ni_next oshared cstack flat_map].
      rewrite (citems_shared _ _ Sh). cbn [nodes_stack fold_right]. fold (nodes_stack st).
      repeat split; auto; try discriminate; try lia.
    + destruct t as [k v m|k h s m l r]; cbn [ni_next].
      * cbn [nodes] in Hf. destruct (IH st (nl ++ [(k, v)])) as (cst' & shn & nl' & E & Q & N & L); [lia|].
        exists cst', shn, nl'. split; [exact E|]. split; [|split; [exact N|]].
        -- rewrite <- Q. cbn [cstack flat_map]. cbn [nmeta] in Sh. rewrite (citems_leaf _ _ _ _ Sh).
           rewrite map_app, <- app_assoc. reflexivity.
        -- cbn [nodes_stack fold_right]. fold (nodes_stack st). lia.
      * cbn [nodes] in Hf.
        destruct (IH (l :: r :: st) nl) as (cst' & shn & nl' & E & Q & N & L).
        { cbn [nodes_stack fold_right]. fold (nodes_stack st). lia. }
        exists cst', shn, nl'. split; [exact E|]. split; [|split; [exact N|]].
        -- rewrite <- Q. cbn [cstack flat_map]. cbn [nmeta] in Sh. rewrite (citems_inner _ _ _ _ _ _ _ Sh).
           rewrite <- app_assoc. reflexivity.
        -- cbn [nodes_stack fold_right nodes] in L |- *. fold (nodes_stack st) in L |- *. lia.
Qed.

Lemma same_node_nk a b : same_node a b = true <-> nk a = nk b.
Proof.
  unfold same_node, nk. rewrite andb_true_iff, !Z.eqb_eq. split.
  - intros [-> ->]. reflexivity.
  - intros E. inversion E. auto.
Qed.

Lemma cons_eq_inv {A} (a b : A) l m : a :: l = b :: m -> a = b /\ l = m.
Proof. intros E. inversion E. auto. Qed.

Section MachineMerge.
  Variable pv : Z.
  Variable sh : Z * Z -> bool.
  Variable cfuel : nat.

  Lemma tail_ok_state shn cst : (shn = None -> cst = []) -> tail_ok (oshared shn ++ cstack pv cst).
  Proof.
    intros N. destruct shn as [s|]; cbn [oshared app].
    - right. eauto.
    - left. rewrite (N eq_refl). reflexivity.
  Qed.

  Lemma main_loop_spec fuel : forall pst cst shn nl,
    (nodes_stack pst < fuel)%nat -> (nodes_stack cst < cfuel)%nat ->
    (shn = None -> cst = []) ->
    map nk (pshared (pstack sh pst)) =
      map nk (cshared (map cnew nl ++ oshared shn ++ cstack pv cst)) ->
    (forall s, In (CShared s) (map cnew nl ++ oshared shn ++ cstack pv cst) -> sh (nk s) = true) ->
    main_loop fuel cfuel pv pst cst shn nl =
      Some (b_loop (pstack sh pst) (map cnew nl ++ oshared shn ++ cstack pv cst)).
  Proof.
    induction fuel as [|f IH]; intros pst cst shn nl Hf Hc N; [lia|].
    set (cs := map cnew nl ++ oshared shn ++ cstack pv cst).
    set (ps := pstack sh pst). intros AL SH.
    pose proof (tail_ok_state shn cst N) as TO.
    destruct pst as [|t st].
    - cbn [main_loop]. subst ps cs. cbn [pstack flat_map b_loop].
      rewrite (b_flush_news _ _ TO). reflexivity.
    - cbn [main_loop]. cbn [nodes_stack fold_right] in Hf. fold (nodes_stack st) in Hf.
      pose proof (nodes_pos t) as Pt.
      destruct (sh (nk t)) eqn:St.
      + (* the walk of the previous tree meets a recognised subtree: it is the current one *)
        assert (Eps : ps = PShared t :: pstack sh st).
        { subst ps. cbn [pstack flat_map]. rewrite (pitems_shared _ _ St). reflexivity. }
        rewrite Eps in AL |- *. cbn [pshared map] in AL.
        subst cs. rewrite cshared_app, cshared_news in AL. cbn [app] in AL.
        destruct shn as [s|].
        2:{ rewrite (N eq_refl) in AL. cbn in AL. discriminate AL. }
        cbn [oshared app cshared map] in AL. apply cons_eq_inv in AL. destruct AL as [E1 AL'].
        assert (Sm : same_node t s = true) by (apply same_node_nk, E1).
        rewrite Sm. cbn [ni_next].
        destruct (adv_loop_spec pv cfuel cst [] Hc) as (cst' & shn' & nl' & EA & Q & N' & L).
        rewrite EA. cbn [map app] in Q.
        rewrite (IH st cst' shn' nl'); try lia; auto.
        * cbn [option_map b_loop]. cbn [oshared app].
          rewrite (b_flush_news nl (CShared s :: cstack pv cst)) by (right; eauto).
          rewrite Q. reflexivity.
        * rewrite <- Q. exact AL'.
        * intros x I. apply SH. rewrite <- Q in I. apply in_or_app. right.
          cbn [oshared app]. right. exact I.
      + assert (Sm : match shn with Some s => same_node t s | None => false end = false).
        { destruct shn as [s|]; [|reflexivity].
          destruct (same_node t s) eqn:Sm; [|reflexivity]. apply same_node_nk in Sm.
          assert (sh (nk s) = true) as X.
          { apply SH. subst cs. apply in_or_app. right. left. reflexivity. }
          congruence. }
        rewrite Sm. destruct t as [k v m|k h s0 m l r]; cbn [ni_next].
        * assert (Eps : ps = POrph k :: pstack sh st).
          { subst ps. cbn [pstack flat_map]. rewrite (pitems_leaf _ _ _ _ St). reflexivity. }
          rewrite Eps in AL |- *. cbn [pshared] in AL. cbn [b_loop].
          subst cs. rewrite (b_orphan_news k nl _ TO).
          destruct (add_orphan k nl) as [e nl'] eqn:EO. cbn [fst snd].
          cbn [nodes] in Hf.
          rewrite (IH st cst shn nl'); try lia; auto.
          -- rewrite AL. rewrite !cshared_app, !cshared_news. reflexivity.
          -- intros x I. apply SH. apply in_app_or in I. apply in_or_app.
             destruct I as [I|I]; [|right; exact I].
             exfalso. apply in_map_iff in I. destruct I as (p & E & _). discriminate E.
        * assert (Eps : ps = pstack sh (l :: r :: st)).
          { subst ps. cbn [pstack flat_map]. rewrite (pitems_inner _ _ _ _ _ _ _ St).
            rewrite <- app_assoc. reflexivity. }
          rewrite Eps in AL |- *. cbn [nodes] in Hf.
          apply IH; auto. cbn [nodes_stack fold_right]. fold (nodes_stack st). lia.
  Qed.
End MachineMerge.

Definition ocitems pv (t : option node) : list citem :=
  match t with None => [] | Some n => citems pv n end.
Definition opitems sh (t : option node) : list pitem :=
  match t with None => [] | Some n => pitems sh n end.

Lemma extract_b_loop pv sh prev cur :
  map nk (pshared (opitems sh prev)) = map nk (cshared (ocitems pv cur)) ->
  (forall s, In (CShared s) (ocitems pv cur) -> sh (nk s) = true) ->
  extract pv prev cur = Some (b_loop (opitems sh prev) (ocitems pv cur)).
Proof.
  intros AL SH. unfold extract.
  assert (Ec : cstack pv (ni_new cur) = ocitems pv cur).
  { destruct cur; cbn [ni_new cstack flat_map ocitems]; [apply app_nil_r|reflexivity]. }
  assert (Ep : pstack sh (ni_new prev) = opitems sh prev).
  { destruct prev; cbn [ni_new pstack flat_map opitems]; [apply app_nil_r|reflexivity]. }
  assert (Nc : (nodes_stack (ni_new cur) < S (onodes cur))%nat).
  { destruct cur; cbn [ni_new nodes_stack fold_right onodes]; lia. }
  assert (Np : (nodes_stack (ni_new prev) < S (onodes prev))%nat).
  { destruct prev; cbn [ni_new nodes_stack fold_right onodes]; lia. }
  destruct (adv_loop_spec pv _ _ [] Nc) as (cst' & shn' & nl' & EA & Q & N' & L).
  rewrite EA. cbn [map app] in Q. rewrite Ec in Q.
  rewrite (main_loop_spec pv sh); auto; try lia; rewrite ?Ep, <- ?Q; auto.
Qed.
