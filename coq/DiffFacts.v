(** Proofs about Diff.v: the net change of a version applied to the previous contents gives
    the new contents; the two-iterator merge of [extractStateChanges] computes exactly the
    net change; [SaveChangeSet] applies a change set as one new version; replaying the net
    changes of versions 1..n into an empty tree reproduces every version's contents. *)
From IAVL Require Import Bytes Varint Tree VMap TreeFacts MTree MTreeFacts Diff.
Local Open Scope Z_scope.

(** * 0. Lists of keys in strictly ascending order *)
Fixpoint ksorted (l : list bytes) : Prop :=
  match l with
  | [] => True
  | k :: r => Forall (fun x => k <b x) r /\ ksorted r
  end.

Lemma sorted_ksorted (l : kvs) : sorted l <-> ksorted (map fst l).
Proof.
  induction l as [|[k v] l IH]; cbn [sorted ksorted map fst]; [tauto|].
  rewrite IH, Forall_map. tauto.
Qed.

Lemma ksorted_app a b :
  ksorted (a ++ b) <-> ksorted a /\ ksorted b /\ (forall x y, In x a -> In y b -> x <b y).
Proof.
  induction a as [|k a IH]; cbn [app ksorted].
  - split; [intros Hb; repeat split; auto; intros x y []|tauto].
  - rewrite IH, Forall_app. split.
    + intros ((Fa & Fb) & Sa & Sb & L). repeat split; auto.
      intros x y [->|Ix] Iy; [rewrite Forall_forall in Fb; auto|auto].
    + intros ((Fa & Sa) & Sb & L). repeat split; auto.
      * apply Forall_forall. intros y Iy. apply L; [left; reflexivity|exact Iy].
      * intros x y Ix Iy. apply L; [right; exact Ix|exact Iy].
Qed.

Lemma ksorted_head k l x : ksorted (k :: l) -> In x l -> k <b x.
Proof. intros [F _] I. rewrite Forall_forall in F. auto. Qed.

Lemma ksorted_tail k l : ksorted (k :: l) -> ksorted l.
Proof. intros [_ S]. exact S. Qed.

Lemma ksorted_not_in k l : ksorted (k :: l) -> ~ In k l.
Proof. intros S I. pose proof (ksorted_head _ _ _ S I). border. Qed.

Lemma ksorted_NoDup l : ksorted l -> NoDup l.
Proof.
  induction l as [|k l IH]; intros S; constructor.
  - apply ksorted_not_in, S.
  - apply IH, (ksorted_tail _ _ S).
Qed.

(** two lists, strictly ascending for the same key function, with the same members are equal *)
Lemma ksorted_ext {A} (f : A -> bytes) (l1 : list A) : forall l2,
  ksorted (map f l1) -> ksorted (map f l2) -> (forall x, In x l1 <-> In x l2) -> l1 = l2.
Proof.
  induction l1 as [|a l1 IH]; intros [|b l2] S1 S2 E.
  - reflexivity.
  - exfalso. apply (E b). left; reflexivity.
  - exfalso. apply (E a). left; reflexivity.
  - cbn [map] in S1, S2.
    assert (L1 : forall x, In x l1 -> f a <b f x).
    { intros x I. apply (ksorted_head _ _ _ S1), in_map, I. }
    assert (L2 : forall x, In x l2 -> f b <b f x).
    { intros x I. apply (ksorted_head _ _ _ S2), in_map, I. }
    assert (a = b) as ->.
    { destruct (proj1 (E a) (or_introl eq_refl)) as [->|Ia]; [reflexivity|].
      destruct (proj2 (E b) (or_introl eq_refl)) as [->|Ib]; [reflexivity|].
      pose proof (L1 _ Ib). pose proof (L2 _ Ia). exfalso. border. }
    f_equal. apply IH; [exact (ksorted_tail _ _ S1)|exact (ksorted_tail _ _ S2)|].
    intros x. split; intros I.
    + destruct (proj1 (E x) (or_intror I)) as [->|I2]; [|exact I2].
      pose proof (L1 _ I). exfalso. border.
    + destruct (proj2 (E x) (or_intror I)) as [->|I1]; [|exact I1].
      pose proof (L2 _ I). exfalso. border.
Qed.

(** * 1. Association lists *)
Lemma assoc_ins k k' v (l : kvs) : assoc k (ins k' v l) = if beq k k' then Some v else assoc k l.
Proof.
  induction l as [|[k2 v2] l IH]; cbn [ins assoc]; [reflexivity|].
  bcases k' k2; cbn [assoc].
  - subst k2. destruct (beq k k'); reflexivity.
  - reflexivity.
  - rewrite IH. destruct (beq k k2) eqn:B2; [|reflexivity].
    destruct (beq k k') eqn:B1; [|reflexivity]. btests. subst. exfalso. border.
Qed.

Lemma assoc_del_ne k k' (l : kvs) : k <> k' -> assoc k (del k' l) = assoc k l.
Proof.
  intros NE. induction l as [|[k2 v2] l IH]; cbn [del assoc]; [reflexivity|].
  bcases k' k2; cbn [assoc].
  - subst k2. replace (beq k k') with false by (symmetry; apply beq_false; exact NE). reflexivity.
  - reflexivity.
  - rewrite IH. reflexivity.
Qed.

Lemma assoc_notin k (l : kvs) : ~ In k (map fst l) -> assoc k l = None.
Proof.
  induction l as [|[k2 v2] l IH]; cbn [map fst In assoc]; intros N; [reflexivity|].
  destruct (beq k k2) eqn:B; btests; [exfalso; apply N; left; congruence|].
  apply IH. tauto.
Qed.

Lemma assoc_some_in k v (l : kvs) : assoc k l = Some v -> In (k, v) l.
Proof.
  induction l as [|[k2 v2] l IH]; cbn [assoc In]; [discriminate|].
  destruct (beq k k2) eqn:B; btests; intros E.
  - left. congruence.
  - right. auto.
Qed.

Lemma assoc_in_sorted k v (l : kvs) : sorted l -> In (k, v) l -> assoc k l = Some v.
Proof.
  induction l as [|[k2 v2] l IH]; cbn [sorted assoc In]; [tauto|].
  intros [F S] [E|I].
  - inversion E; subst. replace (beq k k) with true by (symmetry; apply beq_true; reflexivity).
    reflexivity.
  - rewrite Forall_forall in F. pose proof (F _ I) as L. cbn [fst] in L.
    replace (beq k k2) with false by (symmetry; apply beq_false; intro; subst; border).
    auto.
Qed.

Lemma assoc_del_eq k (l : kvs) : sorted l -> assoc k (del k l) = None.
Proof.
  intros S. apply assoc_notin. intros I. apply in_map_iff in I. destruct I as ([k' v] & E & I).
  cbn [fst] in E. subst k'.
  induction l as [|[k2 v2] l IH]; cbn [del] in I; [exact I|].
  cbn [sorted] in S. destruct S as [F S]. rewrite Forall_forall in F.
  revert I. bcases k k2; intros I.
  - subst k2. pose proof (F _ I) as L. cbn [fst] in L. border.
  - destruct I as [I|I]; [inversion I; subst; border|].
    pose proof (F _ I) as L. cbn [fst] in L. border.
  - destruct I as [I|I]; [inversion I; subst; border|]. auto.
Qed.

Lemma sorted_ins k v (l : kvs) : sorted l -> sorted (ins k v l).
Proof.
  induction l as [|[k2 v2] l IH]; cbn [ins sorted]; [auto|].
  intros [F S]. bcases k k2; cbn [sorted].
  - subst. auto.
  - split; [|auto]. constructor; [exact E|].
    eapply Forall_impl; [|exact F]. intros; border.
  - split; [|auto]. apply Forall_ins; auto.
Qed.

Lemma sorted_del k (l : kvs) : sorted l -> sorted (del k l).
Proof.
  induction l as [|[k2 v2] l IH]; cbn [del sorted]; [auto|].
  intros [F S]. bcases k k2; cbn [sorted]; auto.
  split; [|auto]. apply Forall_del; auto.
Qed.

Lemma sorted_assoc_ext (l1 l2 : kvs) :
  sorted l1 -> sorted l2 -> (forall k, assoc k l1 = assoc k l2) -> l1 = l2.
Proof.
  intros S1 S2 E. apply (ksorted_ext fst); [apply sorted_ksorted, S1|apply sorted_ksorted, S2|].
  intros [k v]. split; intros I.
  - apply assoc_some_in. rewrite <- E. apply assoc_in_sorted; auto.
  - apply assoc_some_in. rewrite E. apply assoc_in_sorted; auto.
Qed.

Lemma mem_true_in k (l : kvs) : mem k l = true <-> In k (map fst l).
Proof.
  unfold mem. split.
  - destruct (assoc k l) as [v|] eqn:A; [|discriminate]. intros _.
    apply assoc_some_in in A. apply in_map_iff. exists (k, v). auto.
  - intros I. destruct (assoc k l) eqn:A; [reflexivity|]. exfalso.
    revert A. induction l as [|[k2 v2] l IH]; cbn [map fst In assoc] in *; [tauto|].
    destruct (beq k k2) eqn:B; btests; [discriminate|].
    destruct I as [I|I]; [congruence|auto].
Qed.

Lemma mem_false_notin k (l : kvs) : mem k l = false <-> ~ In k (map fst l).
Proof. rewrite <- mem_true_in. destruct (mem k l); split; congruence. Qed.

(** * 2. Applying changes *)
Lemma sorted_apply_change c l : sorted l -> sorted (apply_change c l).
Proof. destruct c; cbn [apply_change]; [apply sorted_ins|apply sorted_del]. Qed.

Lemma sorted_apply cs : forall l, sorted l -> sorted (apply_changes cs l).
Proof.
  induction cs as [|c cs IH]; intros l S; cbn [apply_changes]; [exact S|].
  apply IH, sorted_apply_change, S.
Qed.

Lemma assoc_apply_change_ne k c l : k <> ckey c -> assoc k (apply_change c l) = assoc k l.
Proof.
  destruct c as [k' v|k']; cbn [apply_change ckey]; intros NE.
  - rewrite assoc_ins. replace (beq k k') with false by (symmetry; apply beq_false; exact NE).
    reflexivity.
  - apply assoc_del_ne, NE.
Qed.

Lemma assoc_apply_notin k cs : forall l,
  ~ In k (map ckey cs) -> assoc k (apply_changes cs l) = assoc k l.
Proof.
  induction cs as [|c cs IH]; intros l N; cbn [apply_changes]; [reflexivity|].
  cbn [map In] in N. rewrite IH by tauto. apply assoc_apply_change_ne. intros E. apply N. left. congruence.
Qed.

Lemma assoc_apply_set k v cs : forall l,
  ksorted (map ckey cs) -> In (CSet k v) cs -> assoc k (apply_changes cs l) = Some v.
Proof.
  induction cs as [|c cs IH]; intros l S I; [destruct I|].
  cbn [map] in S. cbn [apply_changes]. destruct I as [->|I].
  - cbn [ckey] in S. rewrite assoc_apply_notin by (apply ksorted_not_in, S).
    cbn [apply_change]. rewrite assoc_ins.
    replace (beq k k) with true by (symmetry; apply beq_true; reflexivity). reflexivity.
  - apply IH; [exact (ksorted_tail _ _ S)|exact I].
Qed.

Lemma assoc_apply_del k cs : forall l,
  ksorted (map ckey cs) -> In (CDel k) cs -> sorted l -> assoc k (apply_changes cs l) = None.
Proof.
  induction cs as [|c cs IH]; intros l S I Sl; [destruct I|].
  cbn [map] in S. cbn [apply_changes]. destruct I as [->|I].
  - cbn [ckey] in S. rewrite assoc_apply_notin by (apply ksorted_not_in, S).
    cbn [apply_change]. apply assoc_del_eq, Sl.
  - apply IH; [exact (ksorted_tail _ _ S)|exact I|apply sorted_apply_change, Sl].
Qed.

(** * 3. The merge of sets and deletions *)
Lemma merge_nil_l d : merge [] d = map CDel d.
Proof. destruct d; reflexivity. Qed.
Lemma merge_nil_r s : merge s [] = map cset s.
Proof. destruct s as [|[k v] s]; reflexivity. Qed.
Lemma merge_cons k v s kd d :
  merge ((k, v) :: s) (kd :: d) =
    if blt kd k then CDel kd :: merge ((k, v) :: s) d else CSet k v :: merge s (kd :: d).
Proof. reflexivity. Qed.

Lemma merge_In c s : forall d, In c (merge s d) <-> In c (map cset s) \/ In c (map CDel d).
Proof.
  induction s as [|[k v] s IHs]; intros d.
  - rewrite merge_nil_l. cbn [map In]. tauto.
  - induction d as [|kd d IHd].
    + rewrite merge_nil_r. cbn [map In]. tauto.
    + rewrite merge_cons. destruct (blt kd k).
      * cbn [In]. rewrite IHd. cbn [map In]. tauto.
      * cbn [In]. rewrite IHs. cbn [map In cset fst snd]. tauto.
Qed.

Lemma merge_keys x s d :
  In x (map ckey (merge s d)) <-> In x (map fst s) \/ In x d.
Proof.
  rewrite in_map_iff. split.
  - intros (c & E & I). apply merge_In in I. destruct I as [I|I]; apply in_map_iff in I.
    + destruct I as ([k v] & <- & I). left. apply in_map_iff. exists (k, v). auto.
    + destruct I as (k & <- & I). right. subst. exact I.
  - intros [I|I].
    + apply in_map_iff in I. destruct I as ([k v] & <- & I). exists (CSet k v). split; [reflexivity|].
      apply merge_In. left. apply in_map_iff. exists (k, v). auto.
    + exists (CDel x). split; [reflexivity|]. apply merge_In. right. apply in_map, I.
Qed.

Lemma ksorted_map_cset s : ksorted (map fst s) -> ksorted (map ckey (map cset s)).
Proof. rewrite map_map. cbn [cset ckey]. auto. Qed.
Lemma ksorted_map_cdel d : ksorted d -> ksorted (map ckey (map CDel d)).
Proof. rewrite map_map. cbn [ckey]. rewrite map_id. auto. Qed.

Lemma merge_sorted s : forall d,
  ksorted (map fst s) -> ksorted d -> (forall k, In k d -> ~ In k (map fst s)) ->
  ksorted (map ckey (merge s d)).
Proof.
  induction s as [|[k v] s IHs]; intros d Ss Sd Dj.
  - rewrite merge_nil_l. apply ksorted_map_cdel, Sd.
  - induction d as [|kd d IHd].
    + rewrite merge_nil_r. apply ksorted_map_cset, Ss.
    + rewrite merge_cons. cbn [map fst] in Ss.
      destruct (blt kd k) eqn:C; btests; cbn [map ckey ksorted].
      * split.
        -- apply Forall_forall. intros x I. apply merge_keys in I. destruct I as [I|I].
           ++ cbn [map fst In] in I. destruct I as [<-|I]; [exact C|].
              pose proof (ksorted_head _ _ _ Ss I). border.
           ++ exact (ksorted_head _ _ _ Sd I).
        -- apply IHd; [exact (ksorted_tail _ _ Sd)|]. intros x I. apply Dj. right; exact I.
      * assert (k <b kd) as L.
        { assert (k <> kd) by (intros ->; apply (Dj kd); left; reflexivity). border. }
        split.
        -- apply Forall_forall. intros x I. apply merge_keys in I. destruct I as [I|I].
           ++ exact (ksorted_head _ _ _ Ss I).
           ++ destruct I as [<-|I]; [exact L|]. pose proof (ksorted_head _ _ _ Sd I). border.
        -- apply IHs; [exact (ksorted_tail _ _ Ss)|exact Sd|].
           intros x I N. apply (Dj x I). right; exact N.
Qed.

(** * 4. New and old leaves *)
Definition owf (t : option node) : Prop := match t with None => True | Some n => wf n end.
Definition oold (pv : Z) (t : option node) : kvs :=
  match t with None => [] | Some n => old_leaves pv n end.

Lemma elems_new_old pv t p : In p (elems t) <-> In p (new_leaves pv t) \/ In p (old_leaves pv t).
Proof.
  induction t as [k v m|k h s m l IHl r IHr]; cbn [elems new_leaves old_leaves].
  - destruct (ver m <=? pv); cbn [In]; tauto.
  - rewrite !in_app_iff, IHl, IHr. tauto.
Qed.

Lemma new_leaves_incl pv t p : In p (new_leaves pv t) -> In p (elems t).
Proof. intros I. apply (elems_new_old pv). left; exact I. Qed.

Lemma new_leaves_sorted pv t : wf t -> sorted (new_leaves pv t).
Proof.
  induction t as [k v m|k h s m l IHl r IHr]; intros W; cbn [new_leaves].
  - destruct (ver m <=? pv); cbn [sorted]; auto.
  - pose proof (wf_keys_lt _ _ _ _ _ _ W) as KL. pose proof (wf_keys_ge _ _ _ _ _ _ W) as KG.
    cbn [wf] in W. destruct W as (Wl & Wr & _).
    apply (sorted_app _ _ k); auto.
    + unfold keys_lt in *. rewrite Forall_forall in *. intros p I. apply KL, (new_leaves_incl pv), I.
    + unfold keys_ge in *. rewrite Forall_forall in *. intros p I. apply KG, (new_leaves_incl pv), I.
Qed.

Lemma osorted t : owf t -> sorted (oelems t).
Proof. destruct t; cbn [owf oelems sorted]; [apply wf_sorted|auto]. Qed.

Lemma sets_sorted pv t : owf t -> sorted (sets_of pv t).
Proof. destruct t; cbn [owf sets_of sorted]; [apply new_leaves_sorted|auto]. Qed.

Lemma sets_incl pv t p : In p (sets_of pv t) -> In p (oelems t).
Proof. destruct t; cbn [sets_of oelems]; [apply new_leaves_incl|auto]. Qed.

Lemma oelems_new_old pv t p : In p (oelems t) <-> In p (sets_of pv t) \/ In p (oold pv t).
Proof. destruct t; cbn [oelems sets_of oold]; [apply elems_new_old|cbn [In]; tauto]. Qed.

Lemma dels_In prev cur k :
  In k (dels_of prev cur) <-> In k (map fst (oelems prev)) /\ ~ In k (map fst (oelems cur)).
Proof.
  unfold dels_of. rewrite filter_In, negb_true_iff, mem_false_notin. reflexivity.
Qed.

Lemma ksorted_filter (f : bytes -> bool) l : ksorted l -> ksorted (filter f l).
Proof.
  induction l as [|k l IH]; cbn [filter ksorted]; [auto|]. intros [F S].
  destruct (f k); cbn [ksorted]; auto. split; auto.
  apply Forall_forall. intros x I. apply filter_In in I. rewrite Forall_forall in F. apply F, I.
Qed.

Lemma dels_sorted prev cur : owf prev -> ksorted (dels_of prev cur).
Proof. intros W. apply ksorted_filter, sorted_ksorted, osorted, W. Qed.

Lemma dels_sets_disjoint pv prev cur k :
  In k (dels_of prev cur) -> ~ In k (map fst (sets_of pv cur)).
Proof.
  intros I N. apply dels_In in I. destruct I as [_ I]. apply I.
  apply in_map_iff in N. destruct N as (p & E & N). apply in_map_iff. exists p.
  split; [exact E|]. apply (sets_incl pv), N.
Qed.

(** the net change lists every key once, in ascending order *)
Theorem net_sorted pv prev cur :
  owf prev -> owf cur -> ksorted (map ckey (net prev cur pv)).
Proof.
  intros Wp Wc. unfold net. apply merge_sorted.
  - apply sorted_ksorted, sets_sorted, Wc.
  - apply dels_sorted, Wp.
  - intros k. apply dels_sets_disjoint.
Qed.

Corollary net_NoDup pv prev cur :
  owf prev -> owf cur -> NoDup (map ckey (net prev cur pv)).
Proof. intros Wp Wc. apply ksorted_NoDup, net_sorted; assumption. Qed.

Lemma net_set_In pv prev cur k v :
  In (CSet k v) (net prev cur pv) <-> In (k, v) (sets_of pv cur).
Proof.
  unfold net. rewrite merge_In. split.
  - intros [I|I]; apply in_map_iff in I.
    + destruct I as ([k' v'] & E & I). unfold cset in E. cbn [fst snd] in E.
      inversion E; subst. exact I.
    + destruct I as (k' & E & _). discriminate E.
  - intros I. left. apply in_map_iff. exists (k, v). auto.
Qed.

Lemma net_del_In pv prev cur k :
  In (CDel k) (net prev cur pv) <-> In k (dels_of prev cur).
Proof.
  unfold net. rewrite merge_In. split.
  - intros [I|I]; apply in_map_iff in I.
    + destruct I as ([k' v'] & E & _). discriminate E.
    + destruct I as (k' & E & I). inversion E; subst. exact I.
  - intros I. right. apply in_map, I.
Qed.

Theorem net_ascending pv prev cur :
  owf prev -> owf cur ->
  ksorted (map ckey (net prev cur pv)) /\ NoDup (map ckey (net prev cur pv)).
Proof. intros Wp Wc. split; [apply net_sorted|apply net_NoDup]; assumption. Qed.

(** what the net change lists *)
Theorem net_members pv prev cur k v :
  (In (CSet k v) (net prev cur pv) <-> In (k, v) (sets_of pv cur)) /\
  (In (CDel k) (net prev cur pv) <->
     In k (map fst (oelems prev)) /\ ~ In k (map fst (oelems cur))).
Proof. split; [apply net_set_In|]. rewrite net_del_In. apply dels_In. Qed.

(** ** Theorem 1: the net change applied to the previous contents gives the new contents.
    Version consistency: a leaf of [cur] not created after [pv] is a leaf of [prev]. *)
Theorem apply_net pv prev cur :
  owf prev -> owf cur ->
  (forall p, In p (oold pv cur) -> In p (oelems prev)) ->
  apply_changes (net prev cur pv) (oelems prev) = oelems cur.
Proof.
  intros Wp Wc Old.
  pose proof (osorted _ Wp) as Sp. pose proof (osorted _ Wc) as Sc.
  pose proof (net_sorted pv _ _ Wp Wc) as Sn.
  apply sorted_assoc_ext; [apply sorted_apply, Sp|exact Sc|].
  intros k.
  destruct (assoc k (sets_of pv cur)) as [v|] eqn:AS.
  - apply assoc_some_in in AS.
    rewrite (assoc_apply_set k v) by (auto; apply net_set_In, AS).
    symmetry. apply assoc_in_sorted; [exact Sc|]. apply (sets_incl pv), AS.
  - assert (NS : ~ In k (map fst (sets_of pv cur))).
    { intros I. apply in_map_iff in I. destruct I as ([k' v] & E & I). cbn [fst] in E. subst k'.
      apply (assoc_in_sorted _ _ _ (sets_sorted pv _ Wc)) in I. congruence. }
    destruct (assoc k (oelems cur)) as [v|] eqn:AC.
    + apply assoc_some_in in AC.
      assert (Ip : In (k, v) (oelems prev)).
      { apply Old. apply (oelems_new_old pv) in AC. destruct AC as [I|I]; [|exact I].
        exfalso. apply NS. apply in_map_iff. exists (k, v). auto. }
      rewrite assoc_apply_notin.
      * apply assoc_in_sorted; auto.
      * intros I. unfold net in I. apply merge_keys in I. destruct I as [I|I]; [auto|].
        apply dels_In in I. destruct I as [_ I]. apply I. apply in_map_iff. exists (k, v). auto.
    + assert (NC : ~ In k (map fst (oelems cur))).
      { apply mem_false_notin. unfold mem. rewrite AC. reflexivity. }
      destruct (assoc k (oelems prev)) as [v'|] eqn:AP.
      * apply assoc_some_in in AP.
        apply assoc_apply_del; auto. apply net_del_In, dels_In. split; [|exact NC].
        apply in_map_iff. exists (k, v'). auto.
      * rewrite assoc_apply_notin; [exact AP|].
        intros I. unfold net in I. apply merge_keys in I. destruct I as [I|I]; [auto|].
        apply dels_In in I. destruct I as [I _].
        apply mem_true_in in I. unfold mem in I. rewrite AP in I. discriminate.
Qed.

(** * 5. The two pre-order walks as item sequences *)

(** What the walk of the current tree meets: new leaves, and the topmost shared subtrees
    (skipped).  What the walk of the previous tree meets, given the set [sh] of node keys it
    recognises as shared: orphaned leaves and topmost recognised subtrees. *)
Inductive citem := CNew (k v : bytes) | CShared (n : node).
Inductive pitem := POrph (k : bytes) | PShared (n : node).

Fixpoint citems (pv : Z) (t : node) : list citem :=
  if ver (nmeta t) <=? pv then [CShared t] else
  match t with
  | Leaf k v _ => [CNew k v]
  | Inner _ _ _ _ l r => citems pv l ++ citems pv r
  end.

Fixpoint pitems (sh : Z * Z -> bool) (t : node) : list pitem :=
  if sh (nk t) then [PShared t] else
  match t with
  | Leaf k _ _ => [POrph k]
  | Inner _ _ _ _ l r => pitems sh l ++ pitems sh r
  end.

Definition cstack pv (st : nstack) : list citem := flat_map (citems pv) st.
Definition pstack sh (st : nstack) : list pitem := flat_map (pitems sh) st.

Definition cnew (p : bytes * bytes) : citem := CNew (fst p) (snd p).

Fixpoint cshared (cs : list citem) : list node :=
  match cs with
  | [] => []
  | CNew _ _ :: r => cshared r
  | CShared s :: r => s :: cshared r
  end.
Fixpoint pshared (ps : list pitem) : list node :=
  match ps with
  | [] => []
  | POrph _ :: r => pshared r
  | PShared s :: r => s :: pshared r
  end.
Fixpoint cnews (cs : list citem) : kvs :=
  match cs with
  | [] => []
  | CNew k v :: r => (k, v) :: cnews r
  | CShared _ :: r => cnews r
  end.
Fixpoint porphs (ps : list pitem) : list bytes :=
  match ps with
  | [] => []
  | POrph k :: r => k :: porphs r
  | PShared _ :: r => porphs r
  end.

Lemma citems_shared pv t : ver (nmeta t) <=? pv = true -> citems pv t = [CShared t].
Proof. intros E. destruct t; cbn [citems]; rewrite E; reflexivity. Qed.
Lemma citems_leaf pv k v m : ver m <=? pv = false -> citems pv (Leaf k v m) = [CNew k v].
Proof. intros E. cbn [citems nmeta]. rewrite E. reflexivity. Qed.
Lemma citems_inner pv k h s m l r :
  ver m <=? pv = false -> citems pv (Inner k h s m l r) = citems pv l ++ citems pv r.
Proof. intros E. cbn [citems nmeta]. rewrite E. reflexivity. Qed.

Lemma pitems_shared sh t : sh (nk t) = true -> pitems sh t = [PShared t].
Proof. intros E. destruct t; cbn [pitems]; rewrite E; reflexivity. Qed.
Lemma pitems_leaf sh k v m : sh (nk (Leaf k v m)) = false -> pitems sh (Leaf k v m) = [POrph k].
Proof. intros E. cbn [pitems]. rewrite E. reflexivity. Qed.
Lemma pitems_inner sh k h s m l r :
  sh (nk (Inner k h s m l r)) = false ->
  pitems sh (Inner k h s m l r) = pitems sh l ++ pitems sh r.
Proof. intros E. cbn [pitems]. rewrite E. reflexivity. Qed.

Lemma cshared_app a b : cshared (a ++ b) = cshared a ++ cshared b.
Proof. induction a as [|[k v|s] a IH]; cbn [app cshared]; [reflexivity|exact IH|rewrite IH; reflexivity]. Qed.
Lemma pshared_app a b : pshared (a ++ b) = pshared a ++ pshared b.
Proof. induction a as [|[k|s] a IH]; cbn [app pshared]; [reflexivity|exact IH|rewrite IH; reflexivity]. Qed.
Lemma cnews_app a b : cnews (a ++ b) = cnews a ++ cnews b.
Proof. induction a as [|[k v|s] a IH]; cbn [app cnews]; [reflexivity|rewrite IH; reflexivity|exact IH]. Qed.
Lemma porphs_app a b : porphs (a ++ b) = porphs a ++ porphs b.
Proof. induction a as [|[k|s] a IH]; cbn [app porphs]; [reflexivity|rewrite IH; reflexivity|exact IH]. Qed.

Lemma cshared_news nl : cshared (map cnew nl) = [].
Proof. induction nl as [|[k v] nl IH]; cbn [map cnew cshared]; auto. Qed.
Lemma cnews_news nl : cnews (map cnew nl) = nl.
Proof. induction nl as [|[k v] nl IH]; cbn [map cnew cnews fst snd]; [reflexivity|rewrite IH; reflexivity]. Qed.

Lemma cshared_In s cs : In s (cshared cs) <-> In (CShared s) cs.
Proof.
  induction cs as [|[k v|s'] cs IH]; cbn [cshared In]; [tauto| |].
  - rewrite IH. split; [auto|]. intros [E|I]; [discriminate|exact I].
  - rewrite IH. split; intros [E|I]; auto; left; congruence.
Qed.
Lemma pshared_In s ps : In s (pshared ps) <-> In (PShared s) ps.
Proof.
  induction ps as [|[k|s'] ps IH]; cbn [pshared In]; [tauto| |].
  - rewrite IH. split; [auto|]. intros [E|I]; [discriminate|exact I].
  - rewrite IH. split; intros [E|I]; auto; left; congruence.
Qed.
Lemma cnews_In k v cs : In (k, v) (cnews cs) <-> In (CNew k v) cs.
Proof.
  induction cs as [|[k' v'|s'] cs IH]; cbn [cnews In]; [tauto| |].
  - rewrite IH. split; intros [E|I]; auto; left; congruence.
  - rewrite IH. split; [auto|]. intros [E|I]; [discriminate|exact I].
Qed.
Lemma porphs_In k ps : In k (porphs ps) <-> In (POrph k) ps.
Proof.
  induction ps as [|[k'|s'] ps IH]; cbn [porphs In]; [tauto| |].
  - rewrite IH. split; intros [E|I]; auto; left; congruence.
  - rewrite IH. split; [auto|]. intros [E|I]; [discriminate|exact I].
Qed.

(** ** The merge on item sequences *)
Fixpoint b_orphan (ok : bytes) (cs : list citem) : list change * list citem :=
  match cs with
  | CNew k v :: cs' =>
      match bcmp ok k with
      | Gt => let (e, r) := b_orphan ok cs' in (CSet k v :: e, r)
      | Lt => ([CDel ok], cs)
      | Eq => ([CSet k v], cs')
      end
  | _ => ([CDel ok], cs)
  end.

(** emit the leading new leaves and drop the shared subtree that follows them *)
Fixpoint b_flush (cs : list citem) : list change * list citem :=
  match cs with
  | CNew k v :: cs' => let (e, r) := b_flush cs' in (CSet k v :: e, r)
  | CShared _ :: cs' => ([], cs')
  | [] => ([], [])
  end.

Fixpoint b_loop (ps : list pitem) (cs : list citem) : list change :=
  match ps with
  | [] => fst (b_flush cs)
  | POrph k :: ps' => let (e, cs') := b_orphan k cs in e ++ b_loop ps' cs'
  | PShared _ :: ps' => let (e, cs') := b_flush cs in e ++ b_loop ps' cs'
  end.

Definition tail_ok (tl : list citem) : Prop := tl = [] \/ exists s r, tl = CShared s :: r.

Lemma b_flush_news nl tl :
  tail_ok tl ->
  b_flush (map cnew nl ++ tl) = (map cset nl, match tl with [] => [] | _ :: r => r end).
Proof.
  intros T. induction nl as [|[k v] nl IH]; cbn [map app cnew fst snd].
  - destruct T as [->|(s & r & ->)]; reflexivity.
  - cbn [b_flush]. rewrite IH. reflexivity.
Qed.

Lemma b_orphan_news ok nl tl :
  tail_ok tl ->
  b_orphan ok (map cnew nl ++ tl) =
    (fst (add_orphan ok nl), map cnew (snd (add_orphan ok nl)) ++ tl).
Proof.
  intros T. induction nl as [|[k v] nl IH]; cbn [map app].
  - destruct T as [->|(s & r & ->)]; reflexivity.
  - change (cnew (k, v)) with (CNew k v). cbn [b_orphan add_orphan].
    destruct (bcmp ok k); cbn [fst snd map]; try reflexivity.
    rewrite IH. destruct (add_orphan ok nl) as [e r]. reflexivity.
Qed.

(** ** The machine computes the item-level merge *)
Definition nodes_stack (st : nstack) : nat := fold_right (fun t n => (nodes t + n)%nat) O st.
Definition oshared (shn : option node) : list citem :=
  match shn with Some s => [CShared s] | None => [] end.

Lemma nodes_pos t : (1 <= nodes t)%nat.
Proof. destruct t; cbn [nodes]; lia. Qed.

Lemma adv_loop_spec pv fuel : forall cst nl,
  (nodes_stack cst < fuel)%nat ->
  exists cst' shn nl',
    adv_loop fuel pv cst nl = Some (cst', shn, nl') /\
    map cnew nl ++ cstack pv cst = map cnew nl' ++ oshared shn ++ cstack pv cst' /\
    (shn = None -> cst' = []) /\
    (nodes_stack cst' <= nodes_stack cst)%nat.
Proof.
  induction fuel as [|f IH]; intros cst nl Hf; [lia|].
  destruct cst as [|t st].
  - exists [], None, nl. cbn [adv_loop oshared cstack flat_map app]. auto.
  - cbn [adv_loop]. cbn [nodes_stack fold_right] in Hf. fold (nodes_stack st) in Hf.
    destruct (ver (nmeta t) <=? pv) eqn:Sh.
    + exists st, (Some t), nl. cbn [ni_next oshared cstack flat_map].
      rewrite (citems_shared _ _ Sh). cbn [nodes_stack fold_right]. fold (nodes_stack st).
      repeat split; auto; try discriminate; try lia.
    + destruct t as [k v m|k h s m l r]; cbn [ni_next].
      * cbn [nodes] in Hf. destruct (IH st (nl ++ [(k, v)])) as (cst' & shn & nl' & E & Q & N & L); [lia|].
        exists cst', shn, nl'. split; [exact E|]. split; [|split; [exact N|]].
        -- rewrite <- Q. cbn [cstack flat_map]. cbn [nmeta] in Sh. rewrite (citems_leaf _ _ _ _ Sh).
           rewrite map_app, <- app_assoc. reflexivity.
        -- cbn [nodes_stack fold_right]. fold (nodes_stack st). lia.
      * cbn [nodes] in Hf.
        destruct (IH (l :: r :: st) nl) as (cst' & shn & nl' & E & Q & N & L).
        { cbn [nodes_stack fold_right]. fold (nodes_stack st). lia. }
        exists cst', shn, nl'. split; [exact E|]. split; [|split; [exact N|]].
        -- rewrite <- Q. cbn [cstack flat_map]. cbn [nmeta] in Sh. rewrite (citems_inner _ _ _ _ _ _ _ Sh).
           rewrite <- app_assoc. reflexivity.
        -- cbn [nodes_stack fold_right nodes] in L |- *. fold (nodes_stack st) in L |- *. lia.
Qed.

Lemma same_node_nk a b : same_node a b = true <-> nk a = nk b.
Proof.
  unfold same_node, nk. rewrite andb_true_iff, !Z.eqb_eq. split.
  - intros [-> ->]. reflexivity.
  - intros E. inversion E. auto.
Qed.

Lemma cons_eq_inv {A} (a b : A) l m : a :: l = b :: m -> a = b /\ l = m.
Proof. intros E. inversion E. auto. Qed.

Section MachineMerge.
  Variable pv : Z.
  Variable sh : Z * Z -> bool.
  Variable cfuel : nat.

  Lemma tail_ok_state shn cst : (shn = None -> cst = []) -> tail_ok (oshared shn ++ cstack pv cst).
  Proof.
    intros N. destruct shn as [s|]; cbn [oshared app].
    - right. eauto.
    - left. rewrite (N eq_refl). reflexivity.
  Qed.

  Lemma main_loop_spec fuel : forall pst cst shn nl,
    (nodes_stack pst < fuel)%nat -> (nodes_stack cst < cfuel)%nat ->
    (shn = None -> cst = []) ->
    map nk (pshared (pstack sh pst)) =
      map nk (cshared (map cnew nl ++ oshared shn ++ cstack pv cst)) ->
    (forall s, In (CShared s) (map cnew nl ++ oshared shn ++ cstack pv cst) -> sh (nk s) = true) ->
    main_loop fuel cfuel pv pst cst shn nl =
      Some (b_loop (pstack sh pst) (map cnew nl ++ oshared shn ++ cstack pv cst)).
  Proof.
    induction fuel as [|f IH]; intros pst cst shn nl Hf Hc N; [lia|].
    set (cs := map cnew nl ++ oshared shn ++ cstack pv cst).
    set (ps := pstack sh pst). intros AL SH.
    pose proof (tail_ok_state shn cst N) as TO.
    destruct pst as [|t st].
    - cbn [main_loop]. subst ps cs. cbn [pstack flat_map b_loop].
      rewrite (b_flush_news _ _ TO). reflexivity.
    - cbn [main_loop]. cbn [nodes_stack fold_right] in Hf. fold (nodes_stack st) in Hf.
      pose proof (nodes_pos t) as Pt.
      destruct (sh (nk t)) eqn:St.
      + (* the walk of the previous tree meets a recognised subtree: it is the current one *)
        assert (Eps : ps = PShared t :: pstack sh st).
        { subst ps. cbn [pstack flat_map]. rewrite (pitems_shared _ _ St). reflexivity. }
        rewrite Eps in AL |- *. cbn [pshared map] in AL.
        subst cs. rewrite cshared_app, cshared_news in AL. cbn [app] in AL.
        destruct shn as [s|].
        2:{ rewrite (N eq_refl) in AL. cbn in AL. discriminate AL. }
        cbn [oshared app cshared map] in AL. apply cons_eq_inv in AL. destruct AL as [E1 AL'].
        assert (Sm : same_node t s = true) by (apply same_node_nk, E1).
        rewrite Sm. cbn [ni_next].
        destruct (adv_loop_spec pv cfuel cst [] Hc) as (cst' & shn' & nl' & EA & Q & N' & L).
        rewrite EA. cbn [map app] in Q.
        rewrite (IH st cst' shn' nl'); try lia; auto.
        * cbn [option_map b_loop]. cbn [oshared app].
          rewrite (b_flush_news nl (CShared s :: cstack pv cst)) by (right; eauto).
          rewrite Q. reflexivity.
        * rewrite <- Q. exact AL'.
        * intros x I. apply SH. rewrite <- Q in I. apply in_or_app. right.
          cbn [oshared app]. right. exact I.
      + assert (Sm : match shn with Some s => same_node t s | None => false end = false).
        { destruct shn as [s|]; [|reflexivity].
          destruct (same_node t s) eqn:Sm; [|reflexivity]. apply same_node_nk in Sm.
          assert (sh (nk s) = true) as X.
          { apply SH. subst cs. apply in_or_app. right. left. reflexivity. }
          congruence. }
        rewrite Sm. destruct t as [k v m|k h s0 m l r]; cbn [ni_next].
        * assert (Eps : ps = POrph k :: pstack sh st).
          { subst ps. cbn [pstack flat_map]. rewrite (pitems_leaf _ _ _ _ St). reflexivity. }
          rewrite Eps in AL |- *. cbn [pshared] in AL. cbn [b_loop].
          subst cs. rewrite (b_orphan_news k nl _ TO).
          destruct (add_orphan k nl) as [e nl'] eqn:EO. cbn [fst snd].
          cbn [nodes] in Hf.
          rewrite (IH st cst shn nl'); try lia; auto.
          -- rewrite AL. rewrite !cshared_app, !cshared_news. reflexivity.
          -- intros x I. apply SH. apply in_app_or in I. apply in_or_app.
             destruct I as [I|I]; [|right; exact I].
             exfalso. apply in_map_iff in I. destruct I as (p & E & _). discriminate E.
        * assert (Eps : ps = pstack sh (l :: r :: st)).
          { subst ps. cbn [pstack flat_map]. rewrite (pitems_inner _ _ _ _ _ _ _ St).
            rewrite <- app_assoc. reflexivity. }
          rewrite Eps in AL |- *. cbn [nodes] in Hf.
          apply IH; auto. cbn [nodes_stack fold_right]. fold (nodes_stack st). lia.
  Qed.
End MachineMerge.

Definition ocitems pv (t : option node) : list citem :=
  match t with None => [] | Some n => citems pv n end.
Definition opitems sh (t : option node) : list pitem :=
  match t with None => [] | Some n => pitems sh n end.

Lemma extract_b_loop pv sh prev cur :
  map nk (pshared (opitems sh prev)) = map nk (cshared (ocitems pv cur)) ->
  (forall s, In (CShared s) (ocitems pv cur) -> sh (nk s) = true) ->
  extract pv prev cur = Some (b_loop (opitems sh prev) (ocitems pv cur)).
Proof.
  intros AL SH. unfold extract.
  assert (Ec : cstack pv (ni_new cur) = ocitems pv cur).
  { destruct cur; cbn [ni_new cstack flat_map ocitems]; [apply app_nil_r|reflexivity]. }
  assert (Ep : pstack sh (ni_new prev) = opitems sh prev).
  { destruct prev; cbn [ni_new pstack flat_map opitems]; [apply app_nil_r|reflexivity]. }
  assert (Nc : (nodes_stack (ni_new cur) < S (onodes cur))%nat).
  { destruct cur; cbn [ni_new nodes_stack fold_right onodes]; lia. }
  assert (Np : (nodes_stack (ni_new prev) < S (onodes prev))%nat).
  { destruct prev; cbn [ni_new nodes_stack fold_right onodes]; lia. }
  destruct (adv_loop_spec pv _ _ [] Nc) as (cst' & shn' & nl' & EA & Q & N' & L).
  rewrite EA. cbn [map app] in Q. rewrite Ec in Q.
  rewrite (main_loop_spec pv sh); auto; try lia; rewrite ?Ep, <- ?Q; auto.
Qed.

(** * 6. The item-level merge on ordered, aligned item sequences *)
Lemma b_loop_nil_new k v cs : b_loop [] (CNew k v :: cs) = CSet k v :: b_loop [] cs.
Proof. cbn [b_loop b_flush]. destruct (b_flush cs). reflexivity. Qed.
Lemma b_loop_orph_new k ps k' v cs :
  b_loop (POrph k :: ps) (CNew k' v :: cs) =
    match bcmp k k' with
    | Gt => CSet k' v :: b_loop (POrph k :: ps) cs
    | Lt => CDel k :: b_loop ps (CNew k' v :: cs)
    | Eq => CSet k' v :: b_loop ps cs
    end.
Proof.
  cbn [b_loop b_orphan]. destruct (bcmp k k'); try reflexivity.
  destruct (b_orphan k cs). reflexivity.
Qed.
Lemma b_loop_orph_shared k ps s cs :
  b_loop (POrph k :: ps) (CShared s :: cs) = CDel k :: b_loop ps (CShared s :: cs).
Proof. reflexivity. Qed.
Lemma b_loop_orph_nil k ps : b_loop (POrph k :: ps) [] = CDel k :: b_loop ps [].
Proof. reflexivity. Qed.
Lemma b_loop_sh_new x ps k' v cs :
  b_loop (PShared x :: ps) (CNew k' v :: cs) = CSet k' v :: b_loop (PShared x :: ps) cs.
Proof. cbn [b_loop b_flush]. destruct (b_flush cs). reflexivity. Qed.
Lemma b_loop_sh_shared x ps s cs : b_loop (PShared x :: ps) (CShared s :: cs) = b_loop ps cs.
Proof. reflexivity. Qed.

(** one representative key per item: a shared subtree stands for its least key *)
Definition ck (c : citem) : bytes := match c with CNew k _ => k | CShared s => min_key s end.
Definition pk (p : pitem) : bytes := match p with POrph k => k | PShared s => min_key s end.

Definition out_spec (ps : list pitem) (cs : list citem) (out : list change) : Prop :=
  ksorted (map ckey out) /\
  (forall k v, In (CSet k v) out <-> In (CNew k v) cs) /\
  (forall k, In (CDel k) out <-> In (POrph k) ps /\ ~ In k (map fst (cnews cs))).

Lemma out_keys ps cs out x :
  out_spec ps cs out -> In x (map ckey out) -> In x (map ck cs) \/ In x (map pk ps).
Proof.
  intros (_ & HS & HD) I. apply in_map_iff in I. destruct I as ([k v|k] & <- & I); cbn [ckey].
  - left. apply HS in I. apply in_map_iff. exists (CNew k v). auto.
  - right. apply HD in I. destruct I as [I _]. apply in_map_iff. exists (POrph k). auto.
Qed.

Lemma out_cons_sorted c ps cs out :
  out_spec ps cs out ->
  (forall x, In x (map ck cs) -> ckey c <b x) -> (forall x, In x (map pk ps) -> ckey c <b x) ->
  ksorted (map ckey (c :: out)).
Proof.
  intros O Bc Bp. cbn [map ksorted]. split; [|apply O].
  apply Forall_forall. intros x I. destruct (out_keys _ _ _ _ O I); auto.
Qed.

Lemma news_keys_ck a cs : In a (map fst (cnews cs)) -> In a (map ck cs).
Proof.
  intros I. apply in_map_iff in I. destruct I as ([k v] & <- & I). apply cnews_In in I.
  apply in_map_iff. exists (CNew k v). auto.
Qed.
Lemma orph_keys_pk a ps : In (POrph a) ps -> In a (map pk ps).
Proof. intros I. apply in_map_iff. exists (POrph a). auto. Qed.
Lemma cshared_ck s cs : In s (cshared cs) -> In (min_key s) (map ck cs).
Proof. intros I. apply cshared_In in I. apply in_map_iff. exists (CShared s). auto. Qed.
Lemma pshared_pk s ps : In s (pshared ps) -> In (min_key s) (map pk ps).
Proof. intros I. apply pshared_In in I. apply in_map_iff. exists (PShared s). auto. Qed.

Lemma b_loop_props ps : forall cs,
  ksorted (map ck cs) -> ksorted (map pk ps) -> pshared ps = cshared cs ->
  out_spec ps cs (b_loop ps cs).
Proof.
  induction ps as [|p ps IHp].
  - (* the previous tree is exhausted: only new leaves can remain *)
    induction cs as [|[k v|s] cs IHc]; intros Sc Sp AL.
    + cbn. repeat split; tauto.
    + rewrite b_loop_nil_new. cbn [map ck] in Sc.
      pose proof (IHc (ksorted_tail _ _ Sc) Sp AL) as O.
      split; [|split].
      * apply (out_cons_sorted _ _ _ _ O); [|intros x []].
        intros x I. exact (ksorted_head _ _ _ Sc I).
      * intros a b. destruct O as (_ & HS & _). cbn [In]. rewrite HS.
        split; intros [E|I]; auto; left; congruence.
      * intros a. destruct O as (_ & _ & HD). cbn [In]. rewrite HD.
        split; [intros [E|[[] _]]; discriminate E|intros [[] _]].
    + discriminate AL.
  - destruct p as [k|x].
    + (* an orphaned leaf of the previous tree *)
      induction cs as [|[k' v|s] cs IHc]; intros Sc Sp AL; cbn [map pk] in Sp;
        pose proof (ksorted_tail _ _ Sp) as Sp'.
      * rewrite b_loop_orph_nil. pose proof (IHp [] Sc Sp' AL) as O.
        split; [|split].
        -- apply (out_cons_sorted _ _ _ _ O); [intros x []|].
           intros x I. exact (ksorted_head _ _ _ Sp I).
        -- intros a b. destruct O as (_ & HS & _). cbn [In]. rewrite HS.
           split; [intros [E|I]; [discriminate E|exact I]|auto].
        -- intros a. destruct O as (_ & _ & HD). cbn [In]. rewrite HD. cbn [cnews map In].
           split.
           ++ intros [E|[I _]]; [inversion E; subst a|]; (split; [|tauto]); [left; reflexivity|right; exact I].
           ++ intros [[E|I] _]; [left; congruence|right; tauto].
      * cbn [map ck] in Sc. pose proof (ksorted_tail _ _ Sc) as Sc'.
        rewrite b_loop_orph_new. cbn [pshared cshared] in AL. bcases k k'.
        -- (* same key: an update *)
           subst k'. pose proof (IHp cs Sc' Sp' AL) as O.
           split; [|split].
           ++ apply (out_cons_sorted _ _ _ _ O); cbn [ckey]; intros x I.
              ** exact (ksorted_head _ _ _ Sc I).
              ** exact (ksorted_head _ _ _ Sp I).
           ++ intros a b. destruct O as (_ & HS & _). cbn [In]. rewrite HS.
              split; intros [E|I]; auto; left; congruence.
           ++ intros a. destruct O as (_ & _ & HD). cbn [In cnews map fst]. rewrite HD.
              split.
              ** intros [E|[I N]]; [discriminate E|]. split; [right; exact I|].
                 intros [<-|I2]; [|auto].
                 pose proof (ksorted_head _ _ _ Sp (orph_keys_pk _ _ I)). border.
              ** intros [[E|I] N]; [exfalso; apply N; left; congruence|].
                 right. split; [exact I|]. tauto.
        -- (* the orphan is smaller: a removal *)
           pose proof (IHp (CNew k' v :: cs) Sc Sp' AL) as O.
           assert (Bk : forall x, In x (map ck (CNew k' v :: cs)) -> k <b x).
           { cbn [map ck In]. intros x [<-|I]; [exact E|].
             pose proof (ksorted_head _ _ _ Sc I). border. }
           split; [|split].
           ++ apply (out_cons_sorted _ _ _ _ O); cbn [ckey]; [exact Bk|].
              intros x I. exact (ksorted_head _ _ _ Sp I).
           ++ intros a b. destruct O as (_ & HS & _). cbn [In]. rewrite HS.
              split; [intros [E0|I]; [discriminate E0|exact I]|auto].
           ++ intros a. destruct O as (_ & _ & HD). cbn [In]. rewrite HD.
              split.
              ** intros [E0|[I N]]; [|tauto]. inversion E0; subst a. split; [left; reflexivity|].
                 intros I. apply news_keys_ck in I. pose proof (Bk _ I). border.
              ** intros [[E0|I] N]; [left; congruence|tauto].
        -- (* the new leaf is smaller: an insertion, the orphan stays *)
           pose proof (IHc Sc' Sp AL) as O.
           split; [|split].
           ++ apply (out_cons_sorted _ _ _ _ O); cbn [ckey].
              ** intros x I. exact (ksorted_head _ _ _ Sc I).
              ** cbn [map pk In]. intros x [<-|I]; [exact E|].
                 pose proof (ksorted_head _ _ _ Sp I). border.
           ++ intros a b. destruct O as (_ & HS & _). cbn [In]. rewrite HS.
              split; intros [E0|I]; auto; left; congruence.
           ++ intros a. destruct O as (_ & _ & HD). cbn [In cnews map fst]. rewrite HD.
              split.
              ** intros [E0|[I N]]; [discriminate E0|]. split; [exact I|].
                 intros [<-|I2]; [|auto]. destruct I as [I|I].
                 --- inversion I; subst. border.
                 --- pose proof (ksorted_head _ _ _ Sp (orph_keys_pk _ _ I)). border.
              ** intros [I N]. right. split; [exact I|]. tauto.
      * (* the current walk waits at a shared subtree: a removal *)
        cbn [map ck] in Sc. rewrite b_loop_orph_shared.
        cbn [pshared cshared] in AL.
        pose proof (IHp (CShared s :: cs) Sc Sp' AL) as O.
        assert (Ks : k <b min_key s).
        { apply (ksorted_head _ _ _ Sp). apply pshared_pk. rewrite AL. left; reflexivity. }
        assert (Bk : forall x, In x (map ck (CShared s :: cs)) -> k <b x).
        { cbn [map ck In]. intros x [<-|I]; [exact Ks|].
          pose proof (ksorted_head _ _ _ Sc I). border. }
        split; [|split].
        -- apply (out_cons_sorted _ _ _ _ O); cbn [ckey]; [exact Bk|].
           intros x I. exact (ksorted_head _ _ _ Sp I).
        -- intros a b. destruct O as (_ & HS & _). cbn [In]. rewrite HS.
           split; [intros [E0|I]; [discriminate E0|exact I]|auto].
        -- intros a. destruct O as (_ & _ & HD). cbn [In]. rewrite HD.
           split.
           ++ intros [E0|[I N]]; [|tauto]. inversion E0; subst a. split; [left; reflexivity|].
              intros I. apply news_keys_ck in I. pose proof (Bk _ I). border.
           ++ intros [[E0|I] N]; [left; congruence|tauto].
    + (* the previous walk is at the current shared subtree *)
      induction cs as [|[k' v|s] cs IHc]; intros Sc Sp AL; cbn [map pk] in Sp;
        pose proof (ksorted_tail _ _ Sp) as Sp'.
      * discriminate AL.
      * cbn [map ck] in Sc. pose proof (ksorted_tail _ _ Sc) as Sc'.
        rewrite b_loop_sh_new. cbn [cshared] in AL.
        pose proof (IHc Sc' Sp AL) as O.
        assert (Kx : k' <b min_key x).
        { apply (ksorted_head _ _ _ Sc). apply cshared_ck. rewrite <- AL. left; reflexivity. }
        assert (Bk : forall y, In y (map pk (PShared x :: ps)) -> k' <b y).
        { cbn [map pk In]. intros y [<-|I]; [exact Kx|].
          pose proof (ksorted_head _ _ _ Sp I). border. }
        split; [|split].
        -- apply (out_cons_sorted _ _ _ _ O); cbn [ckey]; [|exact Bk].
           intros y I. exact (ksorted_head _ _ _ Sc I).
        -- intros a b. destruct O as (_ & HS & _). cbn [In]. rewrite HS.
           split; intros [E0|I]; auto; left; congruence.
        -- intros a. destruct O as (_ & _ & HD). cbn [In cnews map fst]. rewrite HD.
           split.
           ++ intros [E0|[I N]]; [discriminate E0|]. split; [exact I|].
              intros [<-|I2]; [|auto].
              pose proof (Bk _ (orph_keys_pk _ _ I)). border.
           ++ intros [I N]. right. split; [exact I|]. tauto.
      * cbn [map ck] in Sc. pose proof (ksorted_tail _ _ Sc) as Sc'.
        rewrite b_loop_sh_shared. cbn [pshared cshared] in AL.
        apply cons_eq_inv in AL. destruct AL as [_ AL].
        pose proof (IHp cs Sc' Sp' AL) as O. destruct O as (OS & HS & HD).
        split; [exact OS|split].
        -- intros a b. rewrite HS. cbn [In]. split; [auto|intros [E0|I]; [discriminate E0|exact I]].
        -- intros a. rewrite HD. cbn [In cnews].
           split; [intros [I N]; auto|intros [[E0|I] N]; [discriminate E0|auto]].
Qed.

(** * 7. Subtrees, and how the two walks line up *)
Fixpoint subtree (s t : node) : Prop :=
  s = t \/
  match t with
  | Leaf _ _ _ => False
  | Inner _ _ _ _ l r => subtree s l \/ subtree s r
  end.
Definition osubtree (s : node) (o : option node) : Prop :=
  match o with None => False | Some t => subtree s t end.

(** versions never increase from a node to its children *)
Fixpoint ver_mono (t : node) : Prop :=
  match t with
  | Leaf _ _ _ => True
  | Inner _ _ _ m l r =>
      ver (nmeta l) <= ver m /\ ver (nmeta r) <= ver m /\ ver_mono l /\ ver_mono r
  end.
Definition over_mono (t : option node) : Prop := match t with None => True | Some n => ver_mono n end.

Lemma subtree_refl t : subtree t t.
Proof. destruct t; left; reflexivity. Qed.

Lemma subtree_elems s t p : subtree s t -> In p (elems s) -> In p (elems t).
Proof.
  induction t as [k v m|k h z m l IHl r IHr]; cbn [subtree]; intros [->|S] I; auto.
  - destruct S.
  - cbn [elems]. apply in_or_app. destruct S as [S|S]; [left|right]; auto.
Qed.

Lemma subtree_keys s t x : subtree s t -> In x (map fst (elems s)) -> In x (map fst (elems t)).
Proof.
  intros S I. apply in_map_iff in I. destruct I as (p & E & I). apply in_map_iff. exists p.
  split; [exact E|]. eapply subtree_elems; eauto.
Qed.

Lemma subtree_nodes s t : subtree s t -> (nodes s <= nodes t)%nat.
Proof.
  induction t as [k v m|k h z m l IHl r IHr]; cbn [subtree]; intros [->|S]; auto.
  - destruct S.
  - cbn [nodes]. destruct S as [S|S]; [specialize (IHl S)|specialize (IHr S)]; lia.
Qed.

Lemma min_key_in t : In (min_key t) (map fst (elems t)).
Proof. destruct (elems_min t) as (v & rest & E). rewrite E. left. reflexivity. Qed.

Lemma wf_left_lt k h z m l r x :
  wf (Inner k h z m l r) -> In x (map fst (elems l)) -> x <b k.
Proof.
  intros W I. apply wf_keys_lt in W. unfold keys_lt in W. rewrite Forall_forall in W.
  apply in_map_iff in I. destruct I as (p & <- & I). apply W, I.
Qed.
Lemma wf_right_ge k h z m l r x :
  wf (Inner k h z m l r) -> In x (map fst (elems r)) -> k <=b x.
Proof.
  intros W I. apply wf_keys_ge in W. unfold keys_ge in W. rewrite Forall_forall in W.
  apply in_map_iff in I. destruct I as (p & <- & I). apply W, I.
Qed.

Lemma wf_children k h z m l r : wf (Inner k h z m l r) -> wf l /\ wf r.
Proof. cbn [wf]. tauto. Qed.

(** ** The walk of the current tree *)
Lemma citems_ck pv t :
  wf t ->
  ksorted (map ck (citems pv t)) /\
  (forall x, In x (map ck (citems pv t)) -> In x (map fst (elems t))).
Proof.
  induction t as [k v m|k h z m l IHl r IHr]; intros W.
  - destruct (ver m <=? pv) eqn:Sh.
    + rewrite citems_shared by exact Sh. cbn. repeat split; auto.
    + rewrite citems_leaf by exact Sh. cbn. repeat split; auto.
  - destruct (ver m <=? pv) eqn:Sh.
    + rewrite citems_shared by exact Sh. cbn [map ck ksorted In]. repeat split; auto.
      intros x [<-|[]]. apply min_key_in.
    + rewrite citems_inner by exact Sh. destruct (wf_children _ _ _ _ _ _ W) as [Wl Wr].
      destruct (IHl Wl) as [Sl Il]. destruct (IHr Wr) as [Sr Ir]. rewrite map_app. split.
      * apply ksorted_app. repeat split; auto. intros x y Ix Iy.
        pose proof (wf_left_lt _ _ _ _ _ _ _ W (Il _ Ix)).
        pose proof (wf_right_ge _ _ _ _ _ _ _ W (Ir _ Iy)). border.
      * intros x I. cbn [elems]. rewrite map_app. apply in_app_or in I. apply in_or_app.
        destruct I as [I|I]; [left|right]; auto.
Qed.

Lemma pitems_pk sh t :
  wf t ->
  ksorted (map pk (pitems sh t)) /\
  (forall x, In x (map pk (pitems sh t)) -> In x (map fst (elems t))).
Proof.
  induction t as [k v m|k h z m l IHl r IHr]; intros W.
  - destruct (sh (nk (Leaf k v m))) eqn:Sh.
    + rewrite pitems_shared by exact Sh. cbn. repeat split; auto.
    + rewrite pitems_leaf by exact Sh. cbn. repeat split; auto.
  - destruct (sh (nk (Inner k h z m l r))) eqn:Sh.
    + rewrite pitems_shared by exact Sh. cbn [map pk ksorted In]. repeat split; auto.
      intros x [<-|[]]. apply min_key_in.
    + rewrite pitems_inner by exact Sh. destruct (wf_children _ _ _ _ _ _ W) as [Wl Wr].
      destruct (IHl Wl) as [Sl Il]. destruct (IHr Wr) as [Sr Ir]. rewrite map_app. split.
      * apply ksorted_app. repeat split; auto. intros x y Ix Iy.
        pose proof (wf_left_lt _ _ _ _ _ _ _ W (Il _ Ix)).
        pose proof (wf_right_ge _ _ _ _ _ _ _ W (Ir _ Iy)). border.
      * intros x I. cbn [elems]. rewrite map_app. apply in_app_or in I. apply in_or_app.
        destruct I as [I|I]; [left|right]; auto.
Qed.

Lemma cshared_sub pv t s :
  In s (cshared (citems pv t)) -> subtree s t /\ ver (nmeta s) <= pv.
Proof.
  induction t as [k v m|k h z m l IHl r IHr].
  - destruct (ver m <=? pv) eqn:Sh.
    + rewrite citems_shared by exact Sh. cbn [cshared In]. intros [<-|[]].
      split; [apply subtree_refl|cbn [nmeta]; lia].
    + rewrite citems_leaf by exact Sh. cbn [cshared In]. tauto.
  - destruct (ver m <=? pv) eqn:Sh.
    + rewrite citems_shared by exact Sh. cbn [cshared In]. intros [<-|[]].
      split; [apply subtree_refl|cbn [nmeta]; lia].
    + rewrite citems_inner by exact Sh. rewrite cshared_app, in_app_iff. cbn [subtree].
      intros [I|I]; [destruct (IHl I)|destruct (IHr I)]; auto.
Qed.

Lemma pshared_sub sh t s :
  In s (pshared (pitems sh t)) -> subtree s t /\ sh (nk s) = true.
Proof.
  induction t as [k v m|k h z m l IHl r IHr].
  - destruct (sh (nk (Leaf k v m))) eqn:Sh.
    + rewrite pitems_shared by exact Sh. cbn [pshared In]. intros [<-|[]].
      split; [apply subtree_refl|exact Sh].
    + rewrite pitems_leaf by exact Sh. cbn [pshared In]. tauto.
  - destruct (sh (nk (Inner k h z m l r))) eqn:Sh.
    + rewrite pitems_shared by exact Sh. cbn [pshared In]. intros [<-|[]].
      split; [apply subtree_refl|exact Sh].
    + rewrite pitems_inner by exact Sh. rewrite pshared_app, in_app_iff. cbn [subtree].
      intros [I|I]; [destruct (IHl I)|destruct (IHr I)]; auto.
Qed.

Lemma ver_mono_old pv t : ver_mono t -> ver (nmeta t) <= pv -> new_leaves pv t = [].
Proof.
  induction t as [k v m|k h z m l IHl r IHr]; cbn [ver_mono nmeta new_leaves]; intros M V.
  - replace (ver m <=? pv) with true by (symmetry; apply Z.leb_le; exact V). reflexivity.
  - destruct M as (Vl & Vr & Ml & Mr). rewrite IHl, IHr; auto; lia.
Qed.

Lemma cnews_new_leaves pv t : ver_mono t -> cnews (citems pv t) = new_leaves pv t.
Proof.
  induction t as [k v m|k h z m l IHl r IHr]; intros M.
  - cbn [citems nmeta new_leaves]. destruct (ver m <=? pv); reflexivity.
  - destruct (ver m <=? pv) eqn:Sh.
    + rewrite citems_shared by exact Sh. cbn [cnews]. symmetry. apply ver_mono_old; auto.
      cbn [nmeta]. lia.
    + rewrite citems_inner by exact Sh. cbn [ver_mono] in M. destruct M as (_ & _ & Ml & Mr).
      rewrite cnews_app, IHl, IHr; auto.
Qed.

Lemma elems_citems pv t k v :
  In (k, v) (elems t) ->
  In (CNew k v) (citems pv t) \/ exists s, In s (cshared (citems pv t)) /\ In (k, v) (elems s).
Proof.
  induction t as [k0 v0 m|k0 h z m l IHl r IHr]; intros I.
  - destruct (ver m <=? pv) eqn:Sh.
    + rewrite citems_shared by exact Sh. right. eexists. split; [left; reflexivity|exact I].
    + rewrite citems_leaf by exact Sh. left. cbn [elems In] in I. destruct I as [E|[]].
      inversion E; subst. left; reflexivity.
  - destruct (ver m <=? pv) eqn:Sh.
    + rewrite citems_shared by exact Sh. right. eexists. split; [left; reflexivity|exact I].
    + rewrite citems_inner by exact Sh. cbn [elems] in I. apply in_app_or in I.
      rewrite cshared_app. destruct I as [I|I]; [destruct (IHl I) as [J|(s & J & K)]|destruct (IHr I) as [J|(s & J & K)]].
      * left. apply in_or_app. auto.
      * right. exists s. split; [apply in_or_app; auto|exact K].
      * left. apply in_or_app. auto.
      * right. exists s. split; [apply in_or_app; auto|exact K].
Qed.

(** ** The walk of the previous tree *)
Lemma elems_pitems sh t k :
  In k (map fst (elems t)) ->
  In (POrph k) (pitems sh t) \/
  exists s, In s (pshared (pitems sh t)) /\ In k (map fst (elems s)).
Proof.
  induction t as [k0 v0 m|k0 h z m l IHl r IHr]; intros I.
  - destruct (sh (nk (Leaf k0 v0 m))) eqn:Sh.
    + rewrite pitems_shared by exact Sh. right. eexists. split; [left; reflexivity|exact I].
    + rewrite pitems_leaf by exact Sh. left. cbn [elems map fst In] in I. destruct I as [<-|[]].
      left; reflexivity.
  - destruct (sh (nk (Inner k0 h z m l r))) eqn:Sh.
    + rewrite pitems_shared by exact Sh. right. eexists. split; [left; reflexivity|exact I].
    + rewrite pitems_inner by exact Sh. cbn [elems] in I. rewrite map_app in I. apply in_app_or in I.
      rewrite pshared_app. destruct I as [I|I]; [destruct (IHl I) as [J|(s & J & K)]|destruct (IHr I) as [J|(s & J & K)]].
      * left. apply in_or_app. auto.
      * right. exists s. split; [apply in_or_app; auto|exact K].
      * left. apply in_or_app. auto.
      * right. exists s. split; [apply in_or_app; auto|exact K].
Qed.

Lemma porph_keys sh t k : In (POrph k) (pitems sh t) -> In k (map fst (elems t)).
Proof.
  induction t as [k0 v0 m|k0 h z m l IHl r IHr].
  - destruct (sh (nk (Leaf k0 v0 m))) eqn:Sh.
    + rewrite pitems_shared by exact Sh. intros [E|[]]. discriminate E.
    + rewrite pitems_leaf by exact Sh. intros [E|[]]. inversion E; subst. left; reflexivity.
  - destruct (sh (nk (Inner k0 h z m l r))) eqn:Sh.
    + rewrite pitems_shared by exact Sh. intros [E|[]]. discriminate E.
    + rewrite pitems_inner by exact Sh. cbn [elems]. rewrite map_app, !in_app_iff.
      intros [I|I]; auto.
Qed.

(** an orphaned key does not occur below a recognised subtree of the same tree *)
Lemma orph_not_shared sh t k s :
  wf t -> In (POrph k) (pitems sh t) -> In s (pshared (pitems sh t)) ->
  ~ In k (map fst (elems s)).
Proof.
  induction t as [k0 v0 m|k0 h z m l IHl r IHr]; intros W.
  - destruct (sh (nk (Leaf k0 v0 m))) eqn:Sh.
    + rewrite pitems_shared by exact Sh. intros [E|[]]. discriminate E.
    + rewrite pitems_leaf by exact Sh. cbn [pshared In]. tauto.
  - destruct (sh (nk (Inner k0 h z m l r))) eqn:Sh.
    + rewrite pitems_shared by exact Sh. intros [E|[]]. discriminate E.
    + rewrite pitems_inner by exact Sh. rewrite pshared_app, !in_app_iff.
      destruct (wf_children _ _ _ _ _ _ W) as [Wl Wr].
      intros [Io|Io] [Is|Is]; auto; intros Ik.
      * pose proof (wf_left_lt _ _ _ _ _ _ _ W (porph_keys _ _ _ Io)).
        destruct (pshared_sub _ _ _ Is) as [Sb _].
        pose proof (wf_right_ge _ _ _ _ _ _ _ W (subtree_keys _ _ _ Sb Ik)). border.
      * pose proof (wf_right_ge _ _ _ _ _ _ _ W (porph_keys _ _ _ Io)).
        destruct (pshared_sub _ _ _ Is) as [Sb _].
        pose proof (wf_left_lt _ _ _ _ _ _ _ W (subtree_keys _ _ _ Sb Ik)). border.
Qed.

(** the topmost shared subtrees of the current tree are pairwise unrelated *)
Lemma ctops_antichain pv t a s :
  wf t -> In a (cshared (citems pv t)) -> In s (cshared (citems pv t)) -> subtree s a -> s = a.
Proof.
  induction t as [k0 v0 m|k0 h z m l IHl r IHr]; intros W.
  - destruct (ver m <=? pv) eqn:Sh.
    + rewrite citems_shared by exact Sh. cbn [cshared In]. intros [<-|[]] [<-|[]] _. reflexivity.
    + rewrite citems_leaf by exact Sh. cbn [cshared In]. tauto.
  - destruct (ver m <=? pv) eqn:Sh.
    + rewrite citems_shared by exact Sh. cbn [cshared In]. intros [<-|[]] [<-|[]] _. reflexivity.
    + rewrite citems_inner by exact Sh. rewrite cshared_app, !in_app_iff.
      destruct (wf_children _ _ _ _ _ _ W) as [Wl Wr].
      intros [Ia|Ia] [Is|Is] Sb; auto; exfalso.
      * destruct (cshared_sub _ _ _ Ia) as [Sa _]. destruct (cshared_sub _ _ _ Is) as [Ss _].
        pose proof (wf_left_lt _ _ _ _ _ _ _ W
                      (subtree_keys _ _ _ Sa (subtree_keys _ _ _ Sb (min_key_in s)))).
        pose proof (wf_right_ge _ _ _ _ _ _ _ W (subtree_keys _ _ _ Ss (min_key_in s))). border.
      * destruct (cshared_sub _ _ _ Ia) as [Sa _]. destruct (cshared_sub _ _ _ Is) as [Ss _].
        pose proof (wf_right_ge _ _ _ _ _ _ _ W
                      (subtree_keys _ _ _ Sa (subtree_keys _ _ _ Sb (min_key_in s)))).
        pose proof (wf_left_lt _ _ _ _ _ _ _ W (subtree_keys _ _ _ Ss (min_key_in s))). border.
Qed.

(** a recognised subtree of [p] is met by the walk, or lies strictly below one that is *)
Lemma top_or_below sh p s :
  subtree s p -> sh (nk s) = true ->
  In s (pshared (pitems sh p)) \/
  exists a, In a (pshared (pitems sh p)) /\ subtree s a /\ (nodes s < nodes a)%nat.
Proof.
  induction p as [k0 v0 m|k0 h z m l IHl r IHr]; intros Sb Sh.
  - cbn [subtree] in Sb. destruct Sb as [->|[]]. rewrite pitems_shared by exact Sh. left. left. reflexivity.
  - destruct (sh (nk (Inner k0 h z m l r))) eqn:Sp.
    + rewrite pitems_shared by exact Sp. cbn [pshared In]. cbn [subtree] in Sb.
      destruct Sb as [->|Sb]; [left; left; reflexivity|].
      right. eexists. split; [left; reflexivity|]. split; [right; exact Sb|].
      cbn [nodes]. destruct Sb as [Sb|Sb]; apply subtree_nodes in Sb; lia.
    + rewrite pitems_inner by exact Sp. rewrite pshared_app. cbn [subtree] in Sb.
      destruct Sb as [->|[Sb|Sb]]; [congruence| |].
      * destruct (IHl Sb Sh) as [I|(a & I & Q)].
        -- left. apply in_or_app. auto.
        -- right. exists a. split; [apply in_or_app; auto|exact Q].
      * destruct (IHr Sb Sh) as [I|(a & I & Q)].
        -- left. apply in_or_app. auto.
        -- right. exists a. split; [apply in_or_app; auto|exact Q].
Qed.

Lemma ksorted_cshared cs : ksorted (map ck cs) -> ksorted (map min_key (cshared cs)).
Proof.
  induction cs as [|[k v|s] cs IH]; cbn [map ck cshared]; intros S; [exact I| |].
  - apply IH, (ksorted_tail _ _ S).
  - cbn [map ksorted]. split; [|apply IH, (ksorted_tail _ _ S)].
    apply Forall_forall. intros x I. apply in_map_iff in I. destruct I as (s' & <- & I).
    apply (ksorted_head _ _ _ S), cshared_ck, I.
Qed.
Lemma ksorted_pshared ps : ksorted (map pk ps) -> ksorted (map min_key (pshared ps)).
Proof.
  induction ps as [|[k|s] ps IH]; cbn [map pk pshared]; intros S; [exact I| |].
  - apply IH, (ksorted_tail _ _ S).
  - cbn [map ksorted]. split; [|apply IH, (ksorted_tail _ _ S)].
    apply Forall_forall. intros x I. apply in_map_iff in I. destruct I as (s' & <- & I).
    apply (ksorted_head _ _ _ S), pshared_pk, I.
Qed.

(** ** The node keys recognised in the previous tree: those of the topmost shared subtrees *)
Definition nk_eqb (a b : Z * Z) : bool := (fst a =? fst b) && (snd a =? snd b).
Lemma nk_eqb_eq a b : nk_eqb a b = true <-> a = b.
Proof.
  destruct a as [a1 a2], b as [b1 b2]. unfold nk_eqb. cbn [fst snd].
  rewrite andb_true_iff, !Z.eqb_eq. split; [intros [-> ->]; reflexivity|intros E; inversion E; auto].
Qed.

Definition shared_keys (pv : Z) (cur : option node) : Z * Z -> bool :=
  fun key => existsb (fun s => nk_eqb (nk s) key) (cshared (ocitems pv cur)).

Lemma shared_keys_spec pv cur key :
  shared_keys pv cur key = true <-> exists s, In s (cshared (ocitems pv cur)) /\ nk s = key.
Proof.
  unfold shared_keys. rewrite existsb_exists. split; intros (s & I & E); exists s; split; auto;
    apply nk_eqb_eq; exact E.
Qed.

(** ** The hypotheses relating the two trees *)
Definition shared_in_prev (pv : Z) (prev cur : option node) : Prop :=
  forall s, osubtree s cur -> ver (nmeta s) <= pv -> osubtree s prev.
Definition keys_identify (prev cur : option node) : Prop :=
  forall x y, osubtree x prev -> osubtree y cur -> nk x = nk y -> x = y.

Lemma ocshared_sub pv cur s :
  In s (cshared (ocitems pv cur)) -> osubtree s cur /\ ver (nmeta s) <= pv.
Proof. destruct cur; cbn [ocitems osubtree cshared In]; [apply cshared_sub|tauto]. Qed.
Lemma opshared_sub sh prev s :
  In s (pshared (opitems sh prev)) -> osubtree s prev /\ sh (nk s) = true.
Proof. destruct prev; cbn [opitems osubtree pshared In]; [apply pshared_sub|tauto]. Qed.

Lemma ocitems_ck pv cur : owf cur -> ksorted (map ck (ocitems pv cur)).
Proof. destruct cur; cbn [owf ocitems map ksorted]; [intros W; apply citems_ck, W|auto]. Qed.
Lemma opitems_pk sh prev : owf prev -> ksorted (map pk (opitems sh prev)).
Proof. destruct prev; cbn [owf opitems map ksorted]; [intros W; apply pitems_pk, W|auto]. Qed.

(** the walk of the previous tree meets exactly the topmost shared subtrees of the current
    tree, in the same order *)
Theorem walks_aligned pv prev cur :
  owf prev -> owf cur -> shared_in_prev pv prev cur -> keys_identify prev cur ->
  pshared (opitems (shared_keys pv cur) prev) = cshared (ocitems pv cur).
Proof.
  intros Wp Wc SP KI. set (sh := shared_keys pv cur).
  assert (Fwd : forall x, In x (pshared (opitems sh prev)) -> In x (cshared (ocitems pv cur))).
  { intros x I. destruct (opshared_sub _ _ _ I) as [Sx Shx].
    apply shared_keys_spec in Shx. destruct Shx as (s & Is & E).
    destruct (ocshared_sub _ _ _ Is) as [Ss _].
    rewrite (KI x s Sx Ss (eq_sym E)). exact Is. }
  apply (ksorted_ext min_key).
  - apply ksorted_pshared, opitems_pk, Wp.
  - apply ksorted_cshared, ocitems_ck, Wc.
  - intros x. split; [apply Fwd|]. intros I.
    destruct (ocshared_sub _ _ _ I) as [Sx Vx].
    assert (Shx : sh (nk x) = true) by (apply shared_keys_spec; eauto).
    pose proof (SP x Sx Vx) as Sp.
    destruct prev as [p|]; [|destruct Sp]. cbn [osubtree opitems] in *.
    destruct (top_or_below sh p x Sp Shx) as [J|(a & J & Sb & Lt)]; [exact J|].
    exfalso. pose proof (Fwd a J) as Ia.
    destruct cur as [c|]; [|destruct I]. cbn [ocitems owf] in *.
    pose proof (ctops_antichain pv c a x Wc Ia I Sb). subst a. lia.
Qed.

(** ** Theorem 2: the two-iterator merge computes the net change *)
Theorem extract_is_net pv prev cur :
  owf prev -> owf cur -> over_mono cur ->
  shared_in_prev pv prev cur -> keys_identify prev cur ->
  extract pv prev cur = Some (net prev cur pv).
Proof.
  intros Wp Wc VM SP KI. set (sh := shared_keys pv cur).
  pose proof (walks_aligned pv prev cur Wp Wc SP KI) as AL. fold sh in AL.
  rewrite (extract_b_loop pv sh).
  2:{ rewrite AL. reflexivity. }
  2:{ intros s I. apply shared_keys_spec. exists s. split; [apply cshared_In, I|reflexivity]. }
  f_equal.
  destruct (b_loop_props (opitems sh prev) (ocitems pv cur)
              (ocitems_ck pv cur Wc) (opitems_pk sh prev Wp) AL) as (OS & HS & HD).
  assert (News : cnews (ocitems pv cur) = sets_of pv cur).
  { destruct cur; cbn [ocitems sets_of cnews]; [apply cnews_new_leaves, VM|reflexivity]. }
  apply (ksorted_ext ckey); [exact OS|apply net_sorted; assumption|].
  intros [k v|k].
  - rewrite HS, net_set_In, <- News, cnews_In. reflexivity.
  - rewrite HD, net_del_In, dels_In, News. split.
    + intros [Io Nn]. split.
      * destruct prev as [p|]; [|destruct Io]. apply (porph_keys sh), Io.
      * intros Ic. apply in_map_iff in Ic. destruct Ic as ([k' v] & E & Ic). cbn [fst] in E. subst k'.
        destruct cur as [c|]; [|destruct Ic]. cbn [oelems ocitems sets_of] in *.
        destruct (elems_citems pv c k v Ic) as [J|(s & J & K)].
        -- apply Nn. apply in_map_iff. exists (k, v). split; [reflexivity|].
           rewrite <- News. apply cnews_In, J.
        -- rewrite <- AL in J. destruct prev as [p|]; [|destruct J]. cbn [opitems owf] in *.
           apply (orph_not_shared sh p k s Wp Io J). apply in_map_iff. exists (k, v). auto.
    + intros [Ip Nc]. split.
      * destruct prev as [p|]; [|destruct Ip]. cbn [oelems opitems] in *.
        destruct (elems_pitems sh p k Ip) as [J|(s & J & K)]; [exact J|].
        exfalso. apply Nc. rewrite AL in J. destruct (ocshared_sub _ _ _ J) as [Ss _].
        destruct cur as [c|]; [|destruct Ss]. cbn [osubtree oelems] in *.
        apply (subtree_keys _ _ _ Ss K).
      * intros Is. apply Nc. apply in_map_iff in Is. destruct Is as (p0 & E & Is).
        apply in_map_iff. exists p0. split; [exact E|]. apply (sets_incl pv), Is.
Qed.

(** ** Decidable versions of the hypotheses (to instantiate the theorems on concrete trees) *)
Fixpoint subtrees (t : node) : list node :=
  t :: match t with
       | Leaf _ _ _ => []
       | Inner _ _ _ _ l r => subtrees l ++ subtrees r
       end.
Definition osubtrees (o : option node) : list node :=
  match o with None => [] | Some t => subtrees t end.

Lemma subtrees_spec s t : In s (subtrees t) <-> subtree s t.
Proof.
  induction t as [k v m|k h z m l IHl r IHr]; cbn [subtrees subtree In].
  - split; intros [E|[]]; left; congruence.
  - rewrite in_app_iff, IHl, IHr. split; intros [E|S]; auto; left; congruence.
Qed.
Lemma osubtrees_spec s o : In s (osubtrees o) <-> osubtree s o.
Proof. destruct o; cbn [osubtrees osubtree In]; [apply subtrees_spec|tauto]. Qed.

Definition bytes_eq_dec : forall a b : bytes, {a = b} + {a <> b} := list_eq_dec N.eq_dec.
Definition meta_eq_dec (a b : meta) : {a = b} + {a <> b}.
Proof. decide equality; [apply bytes_eq_dec|apply Z.eq_dec|apply Z.eq_dec]. Defined.
Definition node_eq_dec (a b : node) : {a = b} + {a <> b}.
Proof. decide equality; try apply bytes_eq_dec; try apply meta_eq_dec; apply Z.eq_dec. Defined.
Definition node_eqb (a b : node) : bool := if node_eq_dec a b then true else false.
Lemma node_eqb_eq a b : node_eqb a b = true <-> a = b.
Proof. unfold node_eqb. destruct (node_eq_dec a b); split; congruence. Qed.

Definition shared_in_prev_b (pv : Z) (prev cur : option node) : bool :=
  forallb (fun s => (pv <? ver (nmeta s)) || existsb (node_eqb s) (osubtrees prev)) (osubtrees cur).
Definition keys_identify_b (prev cur : option node) : bool :=
  forallb (fun x => forallb (fun y => negb (nk_eqb (nk x) (nk y)) || node_eqb x y) (osubtrees cur))
          (osubtrees prev).
Fixpoint ver_mono_b (t : node) : bool :=
  match t with
  | Leaf _ _ _ => true
  | Inner _ _ _ m l r =>
      (ver (nmeta l) <=? ver m) && (ver (nmeta r) <=? ver m) && ver_mono_b l && ver_mono_b r
  end.
Definition over_mono_b (t : option node) : bool :=
  match t with None => true | Some n => ver_mono_b n end.

Lemma shared_in_prev_b_sound pv prev cur :
  shared_in_prev_b pv prev cur = true -> shared_in_prev pv prev cur.
Proof.
  unfold shared_in_prev_b, shared_in_prev. rewrite forallb_forall. intros F s S V.
  apply osubtrees_spec in S. specialize (F s S). apply orb_true_iff in F. destruct F as [F|F].
  - apply Z.ltb_lt in F. lia.
  - apply existsb_exists in F. destruct F as (x & I & E). apply node_eqb_eq in E. subst x.
    apply osubtrees_spec, I.
Qed.

Lemma keys_identify_b_sound prev cur :
  keys_identify_b prev cur = true -> keys_identify prev cur.
Proof.
  unfold keys_identify_b, keys_identify. rewrite forallb_forall. intros F x y Sx Sy E.
  apply osubtrees_spec in Sx, Sy. specialize (F x Sx). rewrite forallb_forall in F.
  specialize (F y Sy). apply orb_true_iff in F. destruct F as [F|F].
  - apply negb_true_iff in F. assert (nk_eqb (nk x) (nk y) = true) by (apply nk_eqb_eq, E). congruence.
  - apply node_eqb_eq, F.
Qed.

Lemma ver_mono_b_sound t : ver_mono_b t = true -> ver_mono t.
Proof.
  induction t as [k v m|k h z m l IHl r IHr]; cbn [ver_mono_b ver_mono]; [auto|].
  rewrite !andb_true_iff, !Z.leb_le. intros [[[A B] C] D]. auto.
Qed.
Lemma over_mono_b_sound t : over_mono_b t = true -> over_mono t.
Proof. destruct t; cbn [over_mono_b over_mono]; [apply ver_mono_b_sound|auto]. Qed.

(** the weaker hypothesis of Theorem 1 follows from persistent sharing *)
Lemma old_leaves_sub pv t p : In p (old_leaves pv t) ->
  exists m, subtree (Leaf (fst p) (snd p) m) t /\ ver m <= pv.
Proof.
  induction t as [k v m|k h z m l IHl r IHr]; cbn [old_leaves].
  - destruct (ver m <=? pv) eqn:E; [|intros []]. intros [<-|[]]. apply Z.leb_le in E.
    exists m. split; [left; reflexivity|exact E].
  - rewrite in_app_iff. cbn [subtree]. intros [I|I]; [destruct (IHl I) as (m0 & S & V)|destruct (IHr I) as (m0 & S & V)];
      exists m0; auto.
Qed.

Lemma shared_old_leaves pv prev cur :
  shared_in_prev pv prev cur -> forall p, In p (oold pv cur) -> In p (oelems prev).
Proof.
  intros SP p I. destruct cur as [c|]; [|destruct I]. cbn [oold] in I.
  destruct (old_leaves_sub pv c p I) as (m & S & V).
  pose proof (SP _ S V) as Sp. destruct prev as [q|]; [|destruct Sp]. cbn [osubtree oelems] in *.
  apply (subtree_elems _ _ _ Sp). destruct p. left. reflexivity.
Qed.

(** * 8. SaveChangeSet on the MutableTree machine *)

(** every removal finds its key when the pairs are applied left to right *)
Fixpoint cs_ok (cs : list change) (l : kvs) : Prop :=
  match cs with
  | [] => True
  | CSet k v :: r => cs_ok r (ins k v l)
  | CDel k :: r => mem k l = true /\ cs_ok r (del k l)
  end.

Lemma mem_apply_change_ne k c l : k <> ckey c -> mem k (apply_change c l) = mem k l.
Proof. intros NE. unfold mem. rewrite assoc_apply_change_ne by exact NE. reflexivity. Qed.

Lemma sorted_cs_ok cs : forall l,
  ksorted (map ckey cs) -> (forall k, In (CDel k) cs -> mem k l = true) -> cs_ok cs l.
Proof.
  induction cs as [|c cs IH]; intros l S D; cbn [cs_ok]; [exact I|].
  cbn [map] in S.
  assert (Rest : forall k, In (CDel k) cs -> mem k (apply_change c l) = true).
  { intros k I. rewrite mem_apply_change_ne; [apply D; right; exact I|].
    intros E. apply (ksorted_not_in _ _ S). rewrite <- E. apply (in_map ckey _ _ I). }
  destruct c as [k v|k]; cbn [apply_change] in Rest.
  - apply IH; [exact (ksorted_tail _ _ S)|exact Rest].
  - split; [apply D; left; reflexivity|]. apply IH; [exact (ksorted_tail _ _ S)|exact Rest].
Qed.

Lemma net_cs_ok pv prev cur : owf prev -> owf cur -> cs_ok (net prev cur pv) (oelems prev).
Proof.
  intros Wp Wc. apply sorted_cs_ok; [apply net_sorted; assumption|].
  intros k I. apply net_del_In, dels_In in I. apply mem_true_in, I.
Qed.

Lemma same_but_root_wv s s' : same_but_root s s' -> working_version s' = working_version s.
Proof. intros (V & _ & _ & IV & IS & _). unfold working_version. rewrite V, IV, IS. reflexivity. Qed.

Section SaveChangeSet.
  Variable H : bytes -> bytes.

  Lemma stamp_not_new wv n t : wv <> 0 -> is_new (fst (stamp H wv n t)) = false.
  Proof.
    intros NZ. destruct t as [k v m|k h z m l r].
    - rewrite stamp_leaf. destruct (is_new (Leaf k v m)) eqn:E; cbn [negb fst]; [|exact E].
      unfold is_new. cbn [nmeta ver]. apply Z.eqb_neq, NZ.
    - rewrite stamp_inner. destruct (is_new (Inner k h z m l r)) eqn:E; cbn [negb fst]; [|exact E].
      destruct (stamp H wv (n + 1) l) as [l' n1]. destruct (stamp H wv n1 r) as [r' n2].
      cbn [fst]. unfold is_new. cbn [nmeta ver]. apply Z.eqb_neq, NZ.
  Qed.

  Definition saved_state (s : mstate) (r' : option node) : mstate * out :=
    (MState r' (working_version s) r' (forest s ++ [(working_version s, r')])
            (init_ver s) false (init_opt s),
     XPair (XBytes (Some (root_hash H (working_version s) r'))) (XInt (working_version s))).

  Definition onot_new (r : option node) : Prop :=
    match r with Some n => is_new n = false | None => True end.

  Lemma do_save_new_root s :
    lookup (working_version s) (forest s) = None ->
    exists r', oelems r' = oelems (root s) /\ (working_version s <> 0 -> onot_new r') /\
               do_save H s = saved_state s r'.
  Proof.
    intros L.
    exists (match root s with
            | None => None
            | Some n => Some (fst (stamp H (working_version s) 0 n))
            end).
    split; [|split].
    - destruct (root s); cbn [oelems]; [apply stamp_elems|reflexivity].
    - intros NZ. destruct (root s); cbn [onot_new]; [apply stamp_not_new, NZ|exact I].
    - unfold do_save, version_exists, saved_state. cbv zeta. rewrite L. reflexivity.
  Qed.

  (** a change set whose removals all find their key is applied as one new version *)
  Lemma apply_pairs_ok cs : forall s,
    state_inv s -> cs_ok cs (oelems (root s)) ->
    lookup (working_version s) (forest s) = None ->
    exists r',
      oelems r' = apply_changes cs (oelems (root s)) /\
      (working_version s <> 0 -> onot_new r') /\
      apply_pairs H s cs = saved_state s r'.
  Proof.
    induction cs as [|c cs IH]; intros s I OK L.
    - cbn [apply_pairs apply_changes step]. apply do_save_new_root, L.
    - destruct c as [k v|k]; cbn [cs_ok] in OK; cbn [apply_pairs apply_changes apply_change step].
      + destruct (do_set_refines s k v I) as (E & _ & SB).
        pose proof (do_set_inv s k v I) as I1.
        set (s1 := fst (do_set s k v)) in *.
        pose proof (same_but_root_wv _ _ SB) as WV. destruct SB as (_ & _ & F & IV & _ & IO).
        destruct (IH s1 I1) as (r' & E' & NN & AP).
        { rewrite E. exact OK. }
        { rewrite WV, F. exact L. }
        exists r'. rewrite <- E. split; [exact E'|]. split; [rewrite <- WV; exact NN|].
        rewrite AP. unfold saved_state. rewrite WV, F, IV, IO. reflexivity.
      + destruct OK as [M OK].
        destruct (do_remove_refines s k I) as (E & O & SB).
        pose proof (do_remove_inv s k I) as I1.
        destruct (do_remove s k) as [s1 o]. cbn [fst snd] in *. subst o. rewrite M.
        pose proof (same_but_root_wv _ _ SB) as WV. destruct SB as (_ & _ & F & IV & _ & IO).
        destruct (IH s1 I1) as (r' & E' & NN & AP).
        { rewrite E. exact OK. }
        { rewrite WV, F. exact L. }
        exists r'. rewrite <- E. split; [exact E'|]. split; [rewrite <- WV; exact NN|].
        rewrite AP. unfold saved_state. rewrite WV, F, IV, IO. reflexivity.
  Qed.

  (** the first removal of a missing key aborts: [XErr], no version is created, the pairs
      before it stay applied to the working tree *)
  Lemma apply_pairs_missing pre k post : forall s,
    state_inv s -> cs_ok pre (oelems (root s)) ->
    mem k (apply_changes pre (oelems (root s))) = false ->
    exists s',
      apply_pairs H s (pre ++ CDel k :: post) = (s', XErr) /\
      forest s' = forest s /\ version s' = version s /\
      oelems (root s') = apply_changes pre (oelems (root s)).
  Proof.
    induction pre as [|c pre IH]; intros s I OK M; cbn [app apply_pairs apply_changes] in *.
    - cbn [step]. destruct (do_remove_refines s k I) as (E & O & SB).
      destruct (do_remove s k) as [s1 o]. cbn [fst snd] in *. subst o. rewrite M.
      exists s1. destruct SB as (V & _ & F & _). repeat split; auto.
      rewrite E. apply del_absent. unfold mem in M. destruct (assoc k (oelems (root s))); [discriminate|reflexivity].
    - destruct c as [k' v|k']; cbn [cs_ok apply_change] in *; cbn [step].
      + destruct (do_set_refines s k' v I) as (E & _ & SB).
        pose proof (do_set_inv s k' v I) as I1. set (s1 := fst (do_set s k' v)) in *.
        destruct (IH s1 I1) as (s' & AP & F' & V' & E').
        { rewrite E. exact OK. }
        { rewrite E. exact M. }
        destruct SB as (V & _ & F & _).
        exists s'. rewrite AP, F', V', E', E, F, V. auto.
      + destruct OK as [M' OK].
        destruct (do_remove_refines s k' I) as (E & O & SB).
        pose proof (do_remove_inv s k' I) as I1.
        destruct (do_remove s k') as [s1 o]. cbn [fst snd] in *. subst o. rewrite M'.
        destruct (IH s1 I1) as (s' & AP & F' & V' & E').
        { rewrite E. exact OK. }
        { rewrite E. exact M. }
        destruct SB as (V & _ & F & _).
        exists s'. rewrite AP, F', V', E', E, F, V. auto.
  Qed.

  Lemma apply_pairs_inv cs : forall s, state_inv s -> state_inv (fst (apply_pairs H s cs)).
  Proof.
    induction cs as [|c cs IH]; intros s I; cbn [apply_pairs].
    - apply step_inv, I.
    - destruct c as [k v|k].
      + apply IH, step_inv, I.
      + pose proof (step_inv H s (ORemove k) I) as I1.
        destruct (step H s (ORemove k)) as [s1 o]. cbn [fst] in I1.
        destruct o as [| |b|z|b|l|l|a b]; try exact I1.
        destruct b as [| |b|z|b|l|l|a' b']; try exact I1.
        destruct b; [apply IH, I1|exact I1].
  Qed.

  (** ** Theorem 3: saving the net change of a version on top of its predecessor's contents
      creates one new version with that version's contents. *)
  Theorem save_change_set_net pv prev cur s :
    state_inv s -> root_is_new s = false ->
    oelems (root s) = oelems prev ->
    lookup (working_version s) (forest s) = None ->
    owf prev -> owf cur -> (forall p, In p (oold pv cur) -> In p (oelems prev)) ->
    exists r',
      apply_cs H s (net prev cur pv) = saved_state s r' /\
      oelems r' = oelems cur /\ (working_version s <> 0 -> onot_new r').
  Proof.
    intros I NN E L Wp Wc Old. unfold apply_cs. rewrite NN.
    destruct (apply_pairs_ok (net prev cur pv) s I) as (r' & E' & N' & AP).
    - rewrite E. apply net_cs_ok; assumption.
    - exact L.
    - exists r'. split; [exact AP|]. split; [|exact N'].
      rewrite E', E. apply apply_net; assumption.
  Qed.

  (** a change set that removes a key which is missing at that point is rejected *)
  Theorem save_change_set_missing pre k post s :
    state_inv s -> root_is_new s = false ->
    cs_ok pre (oelems (root s)) ->
    mem k (apply_changes pre (oelems (root s))) = false ->
    exists s',
      apply_cs H s (pre ++ CDel k :: post) = (s', XErr) /\
      forest s' = forest s /\ version s' = version s /\
      oelems (root s') = apply_changes pre (oelems (root s)).
  Proof.
    intros I NN OK M. unfold apply_cs. rewrite NN. apply apply_pairs_missing; assumption.
  Qed.

  (** uncommitted changes: refused, nothing happens *)
  Theorem save_change_set_dirty s cs : root_is_new s = true -> apply_cs H s cs = (s, XErr).
  Proof. intros E. unfold apply_cs. rewrite E. reflexivity. Qed.
End SaveChangeSet.

(** * 9. Replaying the net changes of versions 1..n into an empty tree *)

(** the net changes of the consecutive trees [t; ts], the first one being version [j + 1] *)
Fixpoint nets (j : Z) (t : option node) (ts : list (option node)) : list (list change) :=
  match ts with
  | [] => []
  | t' :: r => net t t' j :: nets (j + 1) t' r
  end.

(** consecutive versions: well-formed, and a leaf not created in version [j + 1] is a leaf
    of version [j] *)
Fixpoint chain (j : Z) (t : option node) (ts : list (option node)) : Prop :=
  match ts with
  | [] => True
  | t' :: r =>
      owf t' /\ (forall p, In p (oold j t') -> In p (oelems t)) /\ chain (j + 1) t' r
  end.

Section Replay.
  Variable H : bytes -> bytes.

  Definition saved_out (o : out) (v : Z) : Prop := exists h, o = XPair (XBytes (Some h)) (XInt v).

  Lemma replay_general ts : forall j t s,
    0 <= j -> owf t -> chain j t ts ->
    state_inv s -> init_set s = false -> version s = j -> root_is_new s = false ->
    oelems (root s) = oelems t -> (forall w, j < w -> lookup w (forest s) = None) ->
    let res := replay H s (nets j t ts) in
    (forall i t', nth_error ts i = Some t' ->
       exists r, lookup (j + 1 + Z.of_nat i) (forest (fst res)) = Some r /\ oelems r = oelems t') /\
    (forall i t', nth_error ts i = Some t' ->
       exists o, nth_error (snd res) i = Some o /\ saved_out o (j + 1 + Z.of_nat i)) /\
    (forall w a, lookup w (forest s) = Some a -> lookup w (forest (fst res)) = Some a).
  Proof.
    induction ts as [|t' ts IH]; intros j t s Hj Wt Ch I IS V NN E Fr; cbn [nets replay].
    - cbn [fst snd]. repeat split; auto; intros [|i] x Q; discriminate Q.
    - cbn [chain] in Ch. destruct Ch as (Wt' & Old & Ch).
      assert (WV : working_version s = j + 1).
      { unfold working_version. rewrite IS, V, andb_false_r. reflexivity. }
      assert (L : lookup (working_version s) (forest s) = None) by (rewrite WV; apply Fr; lia).
      destruct (save_change_set_net H j t t' s I NN E L Wt Wt' Old) as (r' & AP & E' & N').
      rewrite AP. unfold saved_state. rewrite WV.
      set (s1 := MState r' (j + 1) r' (forest s ++ [(j + 1, r')]) (init_ver s) false (init_opt s)).
      assert (I1 : state_inv s1).
      { pose proof (apply_pairs_inv H (net t t' j) s I) as X.
        unfold apply_cs in AP. rewrite NN in AP. rewrite AP in X. unfold saved_state in X.
        rewrite WV in X. exact X. }
      assert (Fr1 : forall w, j + 1 < w -> lookup w (forest s1) = None).
      { intros w Hw. cbn [s1 forest]. rewrite lookup_app, Fr by lia. cbn [lookup].
        replace (j + 1 =? w) with false by (symmetry; apply Z.eqb_neq; lia). reflexivity. }
      assert (NN1 : root_is_new s1 = false).
      { unfold root_is_new. cbn [s1 root]. specialize (N' ltac:(lia)).
        destruct r'; cbn [onot_new] in N'; auto. }
      specialize (IH (j + 1) t' s1 ltac:(lia) Wt' Ch I1 eq_refl eq_refl NN1 E' Fr1).
      destruct (replay H s1 (nets (j + 1) t' ts)) as [s2 xs]. cbn [fst snd] in *.
      destruct IH as (C & O & K).
      assert (L1 : lookup (j + 1) (forest s1) = Some r').
      { cbn [s1 forest]. rewrite lookup_snoc by (apply Fr; lia). rewrite Z.eqb_refl. reflexivity. }
      split; [|split].
      + intros [|i] x Q; cbn [nth_error] in Q.
        * inversion Q; subst x. exists r'. split; [|exact E'].
          replace (j + 1 + Z.of_nat 0) with (j + 1) by lia. apply K, L1.
        * destruct (C i x Q) as (r & Lr & Er). exists r. split; [|exact Er].
          replace (j + 1 + Z.of_nat (S i)) with (j + 1 + 1 + Z.of_nat i) by lia. exact Lr.
      + intros [|i] x Q; cbn [nth_error] in Q |- *.
        * eexists. split; [reflexivity|]. replace (j + 1 + Z.of_nat 0) with (j + 1) by lia.
          eexists. reflexivity.
        * destruct (O i x Q) as (o & No & So). exists o. split; [exact No|].
          replace (j + 1 + Z.of_nat (S i)) with (j + 1 + 1 + Z.of_nat i) by lia. exact So.
      + intros w a Lw. apply K. cbn [s1 forest]. rewrite lookup_app, Lw. reflexivity.
  Qed.

  (** ** Theorem 4 *)
  Theorem replay_contents ts :
    chain 0 None ts ->
    let res := replay H (init_state 0 false) (nets 0 None ts) in
    forall i t, nth_error ts i = Some t ->
      (exists r, lookup (Z.of_nat i + 1) (forest (fst res)) = Some r /\ oelems r = oelems t) /\
      (exists o, nth_error (snd res) i = Some o /\ saved_out o (Z.of_nat i + 1)).
  Proof.
    intros Ch res i t Q.
    assert (I0 : state_inv (init_state 0 false)) by (apply state_inv_init; lia).
    destruct (replay_general ts 0 None (init_state 0 false) ltac:(lia) Logic.I Ch I0
                eq_refl eq_refl eq_refl eq_refl (fun w _ => eq_refl)) as (C & O & _).
    replace (Z.of_nat i + 1) with (0 + 1 + Z.of_nat i) by lia.
    split; [exact (C i t Q)|exact (O i t Q)].
  Qed.
End Replay.

(** * 10. The fuel of [extract] always suffices *)
Lemma main_loop_total pv cfuel fuel : forall pst cst shn nl,
  (nodes_stack pst < fuel)%nat -> (nodes_stack cst < cfuel)%nat ->
  exists cs, main_loop fuel cfuel pv pst cst shn nl = Some cs.
Proof.
  induction fuel as [|f IH]; intros pst cst shn nl Hf Hc; [lia|].
  destruct pst as [|t st]; cbn [main_loop]; [eauto|].
  cbn [nodes_stack fold_right] in Hf. fold (nodes_stack st) in Hf. pose proof (nodes_pos t) as Pt.
  destruct (match shn with Some s => same_node t s | None => false end).
  - cbn [ni_next].
    destruct (adv_loop_spec pv cfuel cst [] Hc) as (cst' & shn' & nl' & EA & _ & _ & L).
    rewrite EA. destruct (IH st cst' shn' nl') as (cs & E); try lia. rewrite E. cbn [option_map]. eauto.
  - destruct t as [k v m|k h z m l r]; cbn [ni_next].
    + destruct (add_orphan k nl) as [e nl'].
      destruct (IH st cst shn nl') as (cs & E); try lia. rewrite E. cbn [option_map]. eauto.
    + apply IH; [|exact Hc]. cbn [nodes_stack fold_right nodes] in *. fold (nodes_stack st). lia.
Qed.

Theorem extract_total pv prev cur : exists cs, extract pv prev cur = Some cs.
Proof.
  unfold extract.
  assert (Nc : (nodes_stack (ni_new cur) < S (onodes cur))%nat).
  { destruct cur; cbn [ni_new nodes_stack fold_right onodes]; lia. }
  assert (Np : (nodes_stack (ni_new prev) < S (onodes prev))%nat).
  { destruct prev; cbn [ni_new nodes_stack fold_right onodes]; lia. }
  destruct (adv_loop_spec pv _ _ [] Nc) as (cst' & shn' & nl' & EA & _ & _ & L).
  rewrite EA. apply main_loop_total; [exact Np|lia].
Qed.

(** * 11. Fragments of Theorem 2 with their hypotheses discharged *)

(** all three tree-relating hypotheses, decidably *)
Definition diff_hyps_b (pv : Z) (prev cur : option node) : bool :=
  shared_in_prev_b pv prev cur && keys_identify_b prev cur && over_mono_b cur.

Corollary extract_is_net_b pv prev cur :
  owf prev -> owf cur -> diff_hyps_b pv prev cur = true ->
  extract pv prev cur = Some (net prev cur pv).
Proof.
  intros Wp Wc Hb. unfold diff_hyps_b in Hb. apply andb_true_iff in Hb. destruct Hb as [Hb C].
  apply andb_true_iff in Hb. destruct Hb as [A B].
  apply extract_is_net; auto.
  - apply over_mono_b_sound, C.
  - apply shared_in_prev_b_sound, A.
  - apply keys_identify_b_sound, B.
Qed.

(** the first version of a store (no predecessor, nothing can be shared): every leaf is listed *)
Corollary extract_first_version pv cur :
  owf cur -> (forall s, osubtree s cur -> pv < ver (nmeta s)) -> over_mono cur ->
  extract pv None cur = Some (map cset (oelems cur)).
Proof.
  intros Wc New VM. rewrite extract_is_net; auto.
  - f_equal. unfold net, dels_of. cbn [oelems map filter]. rewrite merge_nil_r. f_equal.
    destruct cur as [c|]; [|reflexivity]. cbn [sets_of oelems].
    assert (G : forall t, (forall s, subtree s t -> pv < ver (nmeta s)) -> new_leaves pv t = elems t).
    { induction t as [k v m|k h z m l IHl r IHr]; intros N; cbn [new_leaves elems].
      - specialize (N _ (subtree_refl _)). cbn [nmeta] in N.
        replace (ver m <=? pv) with false by (symmetry; apply Z.leb_gt; exact N). reflexivity.
      - rewrite IHl, IHr; auto; intros s S; apply N; cbn [subtree]; auto. }
    apply G. exact New.
  - exact Logic.I.
  - intros s S V. specialize (New s S). lia.
  - intros x y [].
Qed.

(** a version without writes (the same root): the empty change set *)
Corollary extract_noop pv t :
  owf t -> (forall s, osubtree s t -> ver (nmeta s) <= pv) -> over_mono t ->
  (forall x y, osubtree x t -> osubtree y t -> nk x = nk y -> x = y) ->
  extract pv t t = Some [].
Proof.
  intros W Old VM KI. rewrite extract_is_net; auto.
  - f_equal. apply (ksorted_ext ckey); [apply net_sorted; auto|exact Logic.I|].
    intros c. split; [|intros []]. intros I. destruct c as [k v|k].
    + apply net_set_In in I. destruct t as [n|]; [|destruct I]. cbn [sets_of] in I.
      rewrite ver_mono_old in I; [destruct I|exact VM|]. apply Old. apply subtree_refl.
    + apply net_del_In, dels_In in I. tauto.
  - intros s S _. exact S.
Qed.

(** * 12. Validation of the full statement on concrete histories, and a finding *)
Module DiffExamples.
  Definition Hid (b : bytes) : bytes := b.
  Definition k (n : N) : bytes := [n].
  Definition forest_of (ops : list op) := forest (fst (run Hid (init_state 0 false) ops)).
  Definition tree_at (ops : list op) (v : Z) : option node :=
    match lookup v (forest_of ops) with Some r => r | None => None end.

  (** version 1: five keys.  Version 2: a key written several times, set-then-remove,
      remove-then-set, an identical rewrite, a removal.  Version 3: nothing.  Version 4:
      removals emptying the left subtree.  Version 5: inserts on both sides and a removal. *)
  Definition ops1 : list op :=
    [OSet (k 1) (k 10); OSet (k 2) (k 20); OSet (k 3) (k 30); OSet (k 4) (k 40); OSet (k 5) (k 50);
     OSet (k 3) (k 31); OSave;
     OSet (k 2) (k 20); ORemove (k 4); OSet (k 6) (k 60); OSet (k 6) (k 61); OSet (k 7) (k 70);
     ORemove (k 7); ORemove (k 1); OSet (k 1) (k 11); OSave;
     OSave;
     ORemove (k 1); ORemove (k 2); ORemove (k 3); OSave;
     OSet (k 0) (k 1); OSet (k 9) (k 1); OSet (k 8) (k 1); OSet (k 7) (k 1); ORemove (k 5); OSave].

  Definition agree (ops : list op) (v : Z) : bool :=
    let prev := tree_at ops (v - 1) in
    let cur := tree_at ops v in
    diff_hyps_b (v - 1) prev cur &&
    match extract (v - 1) prev cur with
    | Some cs => if list_eq_dec (fun a b : change => ltac:(decide equality; apply bytes_eq_dec)) cs (net prev cur (v - 1))
                 then true else false
    | None => false
    end.

  Example all_versions_agree : map (agree ops1) [1; 2; 3; 4; 5] = [true; true; true; true; true].
  Proof. vm_compute. reflexivity. Qed.

  Example version2_net :
    net (tree_at ops1 1) (tree_at ops1 2) 1 =
      [CSet (k 1) (k 11); CSet (k 2) (k 20); CDel (k 4); CSet (k 6) (k 61)].
  Proof. vm_compute. reflexivity. Qed.
  Example version3_net : net (tree_at ops1 2) (tree_at ops1 3) 2 = [].
  Proof. vm_compute. reflexivity. Qed.
  Example version4_net :
    net (tree_at ops1 3) (tree_at ops1 4) 3 = [CDel (k 1); CDel (k 2); CDel (k 3)].
  Proof. vm_compute. reflexivity. Qed.
  Example version5_net :
    net (tree_at ops1 4) (tree_at ops1 5) 4 =
      [CSet (k 0) (k 1); CDel (k 5); CSet (k 7) (k 1); CSet (k 8) (k 1); CSet (k 9) (k 1)].
  Proof. vm_compute. reflexivity. Qed.

  (** a larger history: 24 keys, then scattered rewrites, removals and inserts *)
  Definition ops2 : list op :=
    map (fun n => OSet (k n) (k n)) [12;3;20;7;1;16;9;23;5;14;18;2;21;10;6;24;11;4;19;8;15;22;13;17]%N
    ++ [OSave]
    ++ [OSet (k 7) (k 70); ORemove (k 12); ORemove (k 13); OSet (k 30) (k 1); OSet (k 0) (k 1);
        OSet (k 16) (k 16); ORemove (k 1); OSet (k 1) (k 2); OSet (k 25) (k 1); ORemove (k 25); OSave]
    ++ [ORemove (k 20); ORemove (k 21); ORemove (k 22); ORemove (k 23); ORemove (k 24); ORemove (k 30);
        OSet (k 2) (k 3); OSave].

  Example all_versions_agree2 : map (agree ops2) [1; 2; 3] = [true; true; true].
  Proof. vm_compute. reflexivity. Qed.

  (** ** Finding: the first retained version after pruning.
      [traverseStateChanges] replaces a missing predecessor root by the empty tree but keeps
      [prevVersion = start - 1]; nodes of the first retained version that were created
      earlier still count as shared, the walk of the current tree stops at the first of them
      and the (empty) walk of the previous tree never resumes it.  The change set is then
      neither the contents of the version nor the keys written in it: here version 2 writes
      keys 1 and 5, and only key 1 is reported.  (Reproduced on the Go code: after
      [DeleteVersionsTo(1)], [TraverseStateChanges] yields for version 2 only key 1.) *)
  Definition ops3 : list op :=
    [OSet (k 1) (k 10); OSet (k 2) (k 20); OSet (k 3) (k 30); OSet (k 4) (k 40); OSet (k 5) (k 50); OSave;
     OSet (k 1) (k 11); OSet (k 5) (k 51); OSave;
     OSet (k 3) (k 31); OSave].

  Example unpruned_traverse :
    traverse_state_changes (fst (run Hid (init_state 0 false) ops3)) 0 100 =
      TOk [(1, [CSet (k 1) (k 10); CSet (k 2) (k 20); CSet (k 3) (k 30); CSet (k 4) (k 40); CSet (k 5) (k 50)]);
           (2, [CSet (k 1) (k 11); CSet (k 5) (k 51)]);
           (3, [CSet (k 3) (k 31)])].
  Proof. vm_compute. reflexivity. Qed.

  Theorem missing_predecessor_refuted :
    exists (s : mstate) (cur : option node),
      s = fst (run Hid (init_state 0 false) (ops3 ++ [OPrune 1])) /\
      lookup 1 (forest s) = None /\ lookup 2 (forest s) = Some cur /\
      traverse_state_changes s 0 100 =
        TOk [(2, [CSet (k 1) (k 11)]); (3, [CSet (k 3) (k 31)])] /\
      (* neither the contents of version 2 (a diff against the empty tree) ... *)
      oelems cur = [(k 1, k 11); (k 2, k 20); (k 3, k 30); (k 4, k 40); (k 5, k 51)] /\
      (* ... nor the keys written in version 2 *)
      sets_of 1 cur = [(k 1, k 11); (k 5, k 51)].
  Proof. eexists. eexists. vm_compute. repeat split; reflexivity. Qed.

  (** the inclusive upper bound *)
  Example end_version_inclusive :
    traverse_state_changes (fst (run Hid (init_state 0 false) ops3)) 2 2 =
      TOk [(2, [CSet (k 1) (k 11); CSet (k 5) (k 51)])].
  Proof. vm_compute. reflexivity. Qed.
End DiffExamples.

(** * 13. One version of writes produces trees that satisfy the hypotheses of Theorem 2.
    A working tree consists of new nodes on top of subtrees of the base version; stamping
    gives the new nodes the new version and distinct nonces. *)
Lemma subtree_trans a b c : subtree a b -> subtree b c -> subtree a c.
Proof.
  intros Sab. induction c as [k v m|k h z m l IHl r IHr]; intros S; cbn [subtree] in S;
    destruct S as [->|S]; try exact Sab.
  - destruct S.
  - cbn [subtree]. right. destruct S as [S|S]; auto.
Qed.

Lemma ver_mono_sub s t : ver_mono t -> subtree s t -> ver_mono s.
Proof.
  induction t as [k v m|k h z m l IHl r IHr]; cbn [ver_mono subtree]; intros M [->|S]; auto.
  - destruct S.
  - destruct M as (_ & _ & Ml & Mr). destruct S as [S|S]; auto.
Qed.

Section WorkingTrees.
  Variable base : node -> Prop.
  Variable wv : Z.
  Hypothesis B1 : forall s, base s -> 0 < ver (nmeta s) < wv.
  Hypothesis B2 : forall s s2, base s -> subtree s2 s -> base s2.
  Hypothesis B4 : forall s, base s -> ver_mono s.

  (** new nodes on top of base subtrees *)
  Fixpoint clean (t : node) : Prop :=
    if is_new t then
      match t with
      | Leaf _ _ _ => True
      | Inner _ _ _ _ l r => clean l /\ clean r
      end
    else base t.

  Lemma base_not_new s : base s -> is_new s = false.
  Proof. intros B. apply B1 in B. unfold is_new. apply Z.eqb_neq. lia. Qed.

  Lemma clean_base s : base s -> clean s.
  Proof. intros B. destruct s; cbn [clean]; rewrite (base_not_new _ B); exact B. Qed.

  Lemma clean_children k h z m l r : clean (Inner k h z m l r) -> clean l /\ clean r.
  Proof.
    cbn [clean]. destruct (is_new (Inner k h z m l r)); [auto|]. intros B.
    split; apply clean_base; apply (B2 _ _ B); cbn [subtree]; right;
      [left|right]; apply subtree_refl.
  Qed.

  Lemma clean_new_inner k h z l r : clean l -> clean r -> clean (Inner k h z new_meta l r).
  Proof.
    intros Cl Cr. cbn [clean]. change (is_new (Inner k h z new_meta l r)) with true. cbv iota.
    split; assumption.
  Qed.

  Lemma clean_mk k l r : clean l -> clean r -> clean (mk k l r).
  Proof. apply clean_new_inner. Qed.

  Lemma clean_new_leaf k v : clean (Leaf k v new_meta).
  Proof. exact Logic.I. Qed.

  Lemma clean_rotR t : clean t -> clean (rotR t).
  Proof.
    destruct t as [|k h z m l r]; [auto|]. destruct l as [|lk lh lz lm ll lr]; [auto|].
    intros C. rewrite rotR_eq. destruct (clean_children _ _ _ _ _ _ C) as [Cl Cr].
    destruct (clean_children _ _ _ _ _ _ Cl) as [Cll Clr].
    apply clean_mk; [exact Cll|apply clean_mk; assumption].
  Qed.
  Lemma clean_rotL t : clean t -> clean (rotL t).
  Proof.
    destruct t as [|k h z m l r]; [auto|]. destruct r as [|rk rh rz rm rl rr]; [auto|].
    intros C. rewrite rotL_eq. destruct (clean_children _ _ _ _ _ _ C) as [Cl Cr].
    destruct (clean_children _ _ _ _ _ _ Cr) as [Crl Crr].
    apply clean_mk; [apply clean_mk; assumption|exact Crr].
  Qed.

  Lemma clean_balance_mk k l r : clean l -> clean r -> clean (balance (mk k l r)).
  Proof.
    intros Cl Cr. rewrite balance_mk.
    destruct (1 <? height l - height r).
    - destruct (0 <=? bal_of l).
      + apply clean_rotR, clean_mk; assumption.
      + apply clean_rotR, clean_new_inner; [apply clean_rotL|]; assumption.
    - destruct (height l - height r <? -1); [|apply clean_mk; assumption].
      destruct (bal_of r <=? 0).
      + apply clean_rotL, clean_mk; assumption.
      + apply clean_rotL, clean_new_inner; [|apply clean_rotR]; assumption.
  Qed.

  Lemma clean_set t k v : clean t -> clean (fst (set t k v)).
  Proof.
    induction t as [lk lv m|nk h z m l IHl r IHr]; intros C.
    - cbn [set]. destruct (bcmp k lk); cbn [fst].
      + apply clean_new_leaf.
      + apply clean_new_inner; [apply clean_new_leaf|exact C].
      + apply clean_new_inner; [exact C|apply clean_new_leaf].
    - destruct (clean_children _ _ _ _ _ _ C) as [Cl Cr]. cbn [set]. destruct (blt k nk).
      + specialize (IHl Cl). destruct (set l k v) as [l' upd]. cbn [fst] in *.
        destruct upd; cbn [fst]; [apply clean_new_inner|apply clean_balance_mk]; assumption.
      + specialize (IHr Cr). destruct (set r k v) as [r' upd]. cbn [fst] in *.
        destruct upd; cbn [fst]; [apply clean_new_inner|apply clean_balance_mk]; assumption.
  Qed.

  Lemma clean_remove t k :
    clean t -> match rm_self (remove t k) with Some t' => clean t' | None => True end.
  Proof.
    induction t as [lk lv m|nk h z m l IHl r IHr]; intros C.
    - cbn [remove]. destruct (beq k lk); cbn [rm_self]; auto.
    - destruct (clean_children _ _ _ _ _ _ C) as [Cl Cr]. cbn [remove]. destruct (blt k nk).
      + specialize (IHl Cl). destruct (rm_val (remove l k)); cbn [rm_self]; [|exact C].
        destruct (rm_self (remove l k)) as [l'|]; cbn [rm_self]; [|exact Cr].
        apply clean_balance_mk; assumption.
      + specialize (IHr Cr). destruct (rm_val (remove r k)); cbn [rm_self]; [|exact C].
        destruct (rm_self (remove r k)) as [r'|]; cbn [rm_self]; [|exact Cl].
        apply clean_balance_mk; assumption.
  Qed.

  (** ** Stamping a clean tree *)
  Variable H : bytes -> bytes.

  Definition fresh (lo hi : Z) (s : node) : Prop :=
    ver (nmeta s) = wv /\ lo < nonce (nmeta s) <= hi.

  Lemma stamp_clean t : forall n,
    clean t ->
    let t' := fst (stamp H wv n t) in
    let n' := snd (stamp H wv n t) in
    n <= n' /\
    (forall s, subtree s t' -> base s \/ fresh n n' s) /\
    (forall x y, subtree x t' -> subtree y t' ->
       ver (nmeta x) = wv -> ver (nmeta y) = wv -> nonce (nmeta x) = nonce (nmeta y) -> x = y) /\
    ver_mono t' /\ ver (nmeta t') <= wv.
  Proof.
    induction t as [k v m|k h z m l IHl r IHr]; intros n C.
    - rewrite stamp_leaf. cbn [clean] in C. destruct (is_new (Leaf k v m)) eqn:E; cbn [negb fst snd].
      + split; [lia|]. split; [|split; [|split]].
        * intros s [->|[]]. right. unfold fresh. cbn [nmeta ver nonce]. lia.
        * intros x y [->|[]] [->|[]] _ _ _. reflexivity.
        * exact Logic.I.
        * cbn [nmeta ver]. lia.
      + split; [lia|]. split; [|split; [|split]].
        * intros s S. left. exact (B2 _ _ C S).
        * intros x y [->|[]] [->|[]] _ _ _. reflexivity.
        * exact Logic.I.
        * apply B1 in C. lia.
    - rewrite stamp_inner. destruct (is_new (Inner k h z m l r)) eqn:E; cbn [negb].
      + cbn [clean] in C. rewrite E in C. destruct C as [Cl Cr].
        specialize (IHl (n + 1) Cl). destruct (stamp H wv (n + 1) l) as [l' n1].
        specialize (IHr n1 Cr). destruct (stamp H wv n1 r) as [r' n2].
        cbn [fst snd] in *.
        destruct IHl as (Nl & Sl & Ul & Ml & Vl). destruct IHr as (Nr & Sr & Ur & Mr & Vr).
        assert (Frl : forall s, subtree s l' -> ver (nmeta s) = wv -> n + 1 < nonce (nmeta s) <= n1).
        { intros s S V. destruct (Sl s S) as [B|F]; [apply B1 in B; lia|apply F]. }
        assert (Frr : forall s, subtree s r' -> ver (nmeta s) = wv -> n1 < nonce (nmeta s) <= n2).
        { intros s S V. destruct (Sr s S) as [B|F]; [apply B1 in B; lia|apply F]. }
        split; [lia|]. split; [|split; [|split]].
        * intros s [->|[S|S]].
          -- right. unfold fresh. cbn [nmeta ver nonce]. lia.
          -- destruct (Sl s S) as [B|[F1 F2]]; [left; exact B|right; unfold fresh; lia].
          -- destruct (Sr s S) as [B|[F1 F2]]; [left; exact B|right; unfold fresh; lia].
        * intros x y Sx Sy Vx Vy Nxy. cbn [subtree] in Sx, Sy.
          destruct Sx as [->|[Sx|Sx]]; destruct Sy as [->|[Sy|Sy]]; auto;
            cbn [nmeta nonce] in Nxy;
            try (pose proof (Frl _ Sx Vx)); try (pose proof (Frr _ Sx Vx));
            try (pose proof (Frl _ Sy Vy)); try (pose proof (Frr _ Sy Vy)); lia.
        * cbn [ver_mono ver]. auto.
        * cbn [nmeta ver]. lia.
      + cbn [clean] in C. rewrite E in C. cbn [fst snd]. split; [lia|]. split; [|split; [|split]].
        * intros s S. left. exact (B2 _ _ C S).
        * intros x y Sx Sy Vx _ _. pose proof (B1 _ (B2 _ _ C Sx)). lia.
        * apply B4, C.
        * apply B1 in C. lia.
  Qed.
End WorkingTrees.

(** ** One version step *)

(** what holds of a persisted tree of version [j] *)
Definition persisted (j : Z) (t : option node) : Prop :=
  (forall s, osubtree s t -> 0 < ver (nmeta s) <= j) /\ over_mono t /\
  (forall x y, osubtree x t -> osubtree y t -> nk x = nk y -> x = y).

(** a working tree on top of the persisted tree [prev] *)
Definition oclean (prev w : option node) : Prop :=
  match w with None => True | Some n => clean (fun s => osubtree s prev) n end.

Definition stamp_root (H : bytes -> bytes) (wv : Z) (w : option node) : option node :=
  match w with None => None | Some n => Some (fst (stamp H wv 0 n)) end.

Lemma osubtree_trans a b o : subtree a b -> osubtree b o -> osubtree a o.
Proof. destruct o; cbn [osubtree]; [apply subtree_trans|auto]. Qed.

Lemma persisted_base j prev :
  persisted j prev ->
  (forall s, osubtree s prev -> 0 < ver (nmeta s) < j + 1) /\
  (forall s s2, osubtree s prev -> subtree s2 s -> osubtree s2 prev) /\
  (forall s, osubtree s prev -> ver_mono s).
Proof.
  intros (V & M & _). split; [|split].
  - intros s S. specialize (V s S). lia.
  - intros s s2 S S2. exact (osubtree_trans _ _ _ S2 S).
  - intros s S. destruct prev as [p|]; [|destruct S]. exact (ver_mono_sub _ _ M S).
Qed.

Theorem version_step H j prev w :
  0 <= j -> persisted j prev -> oclean prev w ->
  let cur := stamp_root H (j + 1) w in
  persisted (j + 1) cur /\ shared_in_prev j prev cur /\ keys_identify prev cur.
Proof.
  intros Hj P C cur. destruct (persisted_base j prev P) as (B1 & B2 & B4).
  destruct P as (PV & PM & PU).
  destruct w as [n|]; cbn [stamp_root] in cur; subst cur.
  2:{ unfold persisted, shared_in_prev, keys_identify; cbn [osubtree over_mono]; intuition. }
  cbn [oclean] in C.
  destruct (stamp_clean (fun s => osubtree s prev) (j + 1) B1 B2 B4 H n 0 C) as (_ & S & U & M & _).
  set (t' := fst (stamp H (j + 1) 0 n)) in *. cbn [osubtree over_mono].
  assert (Cases : forall s, subtree s t' ->
            (osubtree s prev /\ 0 < ver (nmeta s) <= j) \/ ver (nmeta s) = j + 1).
  { intros s Ss. destruct (S s Ss) as [B|[F _]]; [left; split; [exact B|apply PV, B]|right; exact F]. }
  assert (NK : forall x y, nk x = nk y ->
            ver (nmeta x) = ver (nmeta y) /\ nonce (nmeta x) = nonce (nmeta y)).
  { intros x y E. unfold nk in E. inversion E. auto. }
  split; [split; [|split]|split].
  - intros s Ss. destruct (Cases s Ss) as [[_ V]|V]; lia.
  - exact M.
  - intros x y Sx Sy E. destruct (NK _ _ E) as [Ev En].
    destruct (Cases x Sx) as [[Bx Vx]|Vx]; destruct (Cases y Sy) as [[By Vy]|Vy]; try lia.
    + apply PU; assumption.
    + apply U; auto.
  - intros s Ss V. destruct (Cases s Ss) as [[B _]|V']; [exact B|lia].
  - intros x y Sx Sy E. destruct (NK _ _ E) as [Ev En].
    destruct (Cases y Sy) as [[By _]|Vy].
    + apply PU; assumption.
    + pose proof (PV x Sx). lia.
Qed.

(** * 14. Histories of writes and saves on the MutableTree machine *)
Definition vtree (s : mstate) (v : Z) : option node :=
  match lookup v (forest s) with Some r => r | None => None end.

Definition good_pair (pv : Z) (prev cur : option node) : Prop :=
  owf prev /\ owf cur /\ over_mono cur /\ shared_in_prev pv prev cur /\ keys_identify prev cur.

Record hist_inv (s : mstate) : Prop := HistInv {
  hi_inv : state_inv s;
  hi_set : init_set s = false;
  hi_top : forall w, version s < w -> lookup w (forest s) = None;
  hi_low : forall w, w < 1 -> lookup w (forest s) = None;
  hi_saved : last_saved s = vtree s (version s);
  hi_base : persisted (version s) (vtree s (version s));
  hi_root : oclean (vtree s (version s)) (root s);
  hi_pairs : forall v, 1 <= v <= version s ->
     exists cur, lookup v (forest s) = Some cur /\ good_pair (v - 1) (vtree s (v - 1)) cur
}.

(** the operations of such a history: writes, saves, rollbacks and everything read-only *)
Definition hist_op (o : op) : bool :=
  match o with
  | OReopen | OLoad _ | OPrune _ | OLvfo _ => false
  | _ => true
  end.

Lemma hist_inv_init : hist_inv (init_state 0 false).
Proof.
  constructor; cbn [init_state init_set version forest last_saved root lookup vtree oclean]; auto.
  - apply state_inv_init. lia.
  - unfold persisted. cbn [osubtree over_mono]. intuition.
  - intros v Hv. lia.
Qed.

Lemma hist_inv_root s r' :
  hist_inv s -> state_inv (MState r' (version s) (last_saved s) (forest s) (init_ver s) (init_set s) (init_opt s)) ->
  oclean (vtree s (version s)) r' ->
  hist_inv (MState r' (version s) (last_saved s) (forest s) (init_ver s) (init_set s) (init_opt s)).
Proof.
  intros HI I C. destruct HI. constructor; cbn [init_set version forest last_saved root]; auto.
Qed.

Section History.
  Variable H : bytes -> bytes.

  Lemma hist_set s k v : hist_inv s -> hist_inv (fst (do_set s k v)).
  Proof.
    intros HI. pose proof (do_set_inv s k v (hi_inv s HI)) as I1.
    destruct (persisted_base _ _ (hi_base s HI)) as (B1 & B2 & B4).
    pose proof (hi_root s HI) as C. unfold do_set in *.
    destruct (root s) as [n|] eqn:R.
    - pose proof (clean_set _ _ B1 B2 n k v C) as C'.
      destruct (set n k v) as [n' upd]. cbn [fst] in *. apply hist_inv_root; auto.
    - cbn [fst] in *. apply hist_inv_root; auto; exact Logic.I.
  Qed.

  Lemma hist_remove s k : hist_inv s -> hist_inv (fst (do_remove s k)).
  Proof.
    intros HI. pose proof (do_remove_inv s k (hi_inv s HI)) as I1.
    destruct (persisted_base _ _ (hi_base s HI)) as (B1 & B2 & B4).
    pose proof (hi_root s HI) as C. unfold do_remove in *. cbv zeta in *.
    destruct (root s) as [n|] eqn:R; [|exact HI].
    pose proof (clean_remove _ _ B1 B2 n k C) as C'.
    destruct (rm_val (remove n k)); [|exact HI]. cbn [fst] in *.
    apply hist_inv_root; auto.
  Qed.

  Lemma hist_rollback s :
    hist_inv s ->
    hist_inv (MState (if 0 <? version s then last_saved s else None) (version s) (last_saved s)
                     (forest s) (init_ver s) (init_set s) (init_opt s)).
  Proof.
    intros HI. apply hist_inv_root; auto.
    - apply rollback_inv, HI.
    - destruct (0 <? version s); [|exact Logic.I]. rewrite (hi_saved s HI).
      destruct (persisted_base _ _ (hi_base s HI)) as (B1 & B2 & B4).
      destruct (vtree s (version s)) as [t|] eqn:E; [|exact Logic.I]. cbn [oclean].
      apply (clean_base _ _ B1). cbn [osubtree]. apply subtree_refl.
  Qed.

  Lemma vtree_snoc s wv r' w :
    lookup wv (forest s) = None ->
    vtree (MState r' wv r' (forest s ++ [(wv, r')]) (init_ver s) false (init_opt s)) w =
      if w =? wv then r' else vtree s w.
  Proof.
    intros L. unfold vtree. cbn [forest]. rewrite (lookup_snoc w wv r' _ L).
    destruct (w =? wv); reflexivity.
  Qed.

  Lemma hist_save s : hist_inv s -> hist_inv (fst (do_save H s)).
  Proof.
    intros HI. pose proof (hi_inv s HI) as I. pose proof (do_save_inv H s I) as I1.
    pose proof (inv_version s I) as V0.
    assert (WV : working_version s = version s + 1).
    { unfold working_version. rewrite (hi_set s HI), andb_false_r. reflexivity. }
    assert (L : lookup (version s + 1) (forest s) = None) by (apply (hi_top s HI); lia).
    assert (E : do_save H s = saved_state H s (stamp_root H (version s + 1) (root s))).
    { unfold do_save, version_exists, saved_state. cbv zeta. rewrite WV, L. reflexivity. }
    rewrite E in *. unfold saved_state in *. rewrite WV in *. cbn [fst] in *.
    set (wv := version s + 1) in *. set (r' := stamp_root H wv (root s)) in *.
    destruct (version_step H (version s) _ (root s) V0 (hi_base s HI) (hi_root s HI)) as (P' & SP & KI).
    fold wv in P'. fold r' in P', SP, KI.
    assert (VT : forall w, vtree (MState r' wv r' (forest s ++ [(wv, r')]) (init_ver s) false (init_opt s)) w =
                            if w =? wv then r' else vtree s w).
    { intros w. apply vtree_snoc, L. }
    constructor; cbn [init_set version forest last_saved root].
    - exact I1.
    - reflexivity.
    - intros w Hw. rewrite lookup_app, (hi_top s HI) by lia. cbn [lookup].
      replace (wv =? w) with false by (symmetry; apply Z.eqb_neq; lia). reflexivity.
    - intros w Hw. rewrite lookup_app, (hi_low s HI) by lia. cbn [lookup].
      replace (wv =? w) with false by (symmetry; apply Z.eqb_neq; lia). reflexivity.
    - rewrite VT, Z.eqb_refl. reflexivity.
    - rewrite VT, Z.eqb_refl. exact P'.
    - rewrite VT, Z.eqb_refl. destruct (persisted_base _ _ P') as (B1 & B2 & B4).
      destruct r' as [t'|] eqn:Er; [|exact Logic.I]. cbn [oclean].
      apply (clean_base _ _ B1). cbn [osubtree]. apply subtree_refl.
    - intros v Hv. rewrite VT.
      replace (v - 1 =? wv) with false by (symmetry; apply Z.eqb_neq; lia).
      destruct (Z.eq_dec v wv) as [->|NE].
      + exists r'. split.
        * rewrite (lookup_snoc wv wv r' _ L), Z.eqb_refl. reflexivity.
        * replace (wv - 1) with (version s) by lia.
          assert (Wp : owf (vtree s (version s))).
          { unfold vtree. destruct (lookup (version s) (forest s)) as [t|] eqn:Lt; [|exact Logic.I].
            destruct (state_inv_lookup s _ _ I Lt) as [O _]. destruct t; [apply O|exact Logic.I]. }
          assert (Wc : owf r').
          { pose proof (inv_root _ I1) as O. cbn [root] in O. destruct r'; [apply O|exact Logic.I]. }
          destruct P' as (_ & M' & _). repeat split; assumption.
      + destruct (hi_pairs s HI v ltac:(lia)) as (cur & Lc & G). exists cur. split; [|exact G].
        rewrite lookup_app, Lc. reflexivity.
  Qed.

  Lemma hist_step s o : hist_op o = true -> hist_inv s -> hist_inv (fst (step H s o)).
  Proof.
    intros Ho HI. destruct o as [k v|k|k| | | |v|n|v|t r|k v|v| | | | | ]; cbn [hist_op] in Ho;
      try discriminate Ho; cbn [step]; try exact HI.
    - apply hist_set, HI.
    - apply hist_remove, HI.
    - apply hist_save, HI.
    - cbn [fst]. apply hist_rollback, HI.
    - destruct t as [|v]; [exact HI|]. destruct (lookup v (forest s)); exact HI.
    - destruct (lookup v (forest s)) as [[n|]|]; exact HI.
  Qed.

  Lemma hist_run ops : forall s,
    forallb hist_op ops = true -> hist_inv s -> hist_inv (fst (run H s ops)).
  Proof.
    induction ops as [|o ops IH]; intros s Ho HI; cbn [run]; [exact HI|].
    cbn [forallb] in Ho. apply andb_true_iff in Ho. destruct Ho as [Ho Hr].
    pose proof (hist_step s o Ho HI) as H1.
    destruct (step H s o) as [s1 x]. cbn [fst] in H1.
    specialize (IH s1 Hr H1). destruct (run H s1 ops) as [s2 xs]. exact IH.
  Qed.

  (** ** C15 on histories: every saved version of a history of writes, saves and rollbacks
      from the empty store.  The change set extracted for version [v] is the net change,
      it lists each key once in ascending order, and applied to the contents of [v - 1] it
      gives the contents of [v]. *)
  Theorem history_change_sets ops v cur :
    forallb hist_op ops = true ->
    let s := fst (run H (init_state 0 false) ops) in
    lookup v (forest s) = Some cur ->
    let prev := vtree s (v - 1) in
    extract (v - 1) prev cur = Some (net prev cur (v - 1)) /\
    ksorted (map ckey (net prev cur (v - 1))) /\
    apply_changes (net prev cur (v - 1)) (oelems prev) = oelems cur.
  Proof.
    intros Ho s L prev. pose proof (hist_run ops _ Ho hist_inv_init) as HI. fold s in HI.
    assert (Hv : 1 <= v <= version s).
    { split.
      - destruct (Z_lt_le_dec v 1) as [Lt|Le]; [|exact Le]. rewrite (hi_low s HI v Lt) in L. discriminate L.
      - destruct (Z_lt_le_dec (version s) v) as [Lt|Le]; [|exact Le]. rewrite (hi_top s HI v Lt) in L. discriminate L. }
    destruct (hi_pairs s HI v Hv) as (cur' & L' & (Wp & Wc & VM & SP & KI)).
    rewrite L in L'. inversion L'; subst cur'. fold prev in Wp, SP, KI.
    split; [apply extract_is_net; assumption|]. split; [apply net_sorted; assumption|].
    apply apply_net; auto. apply shared_old_leaves, SP.
  Qed.

  (** the saved trees of a history, versions [j + 1 .. j + n] *)
  Fixpoint trees_from (s : mstate) (j : Z) (n : nat) : list (option node) :=
    match n with
    | O => []
    | S n' => vtree s (j + 1) :: trees_from s (j + 1) n'
    end.

  Lemma hist_chain s n : forall j,
    hist_inv s -> 0 <= j -> j + Z.of_nat n <= version s -> chain j (vtree s j) (trees_from s j n).
  Proof.
    induction n as [|n IH]; intros j HI Hj Hn; cbn [trees_from chain]; [exact Logic.I|].
    destruct (hi_pairs s HI (j + 1) ltac:(lia)) as (cur & L & (Wp & Wc & VM & SP & KI)).
    replace (j + 1 - 1) with j in * by lia.
    assert (E : vtree s (j + 1) = cur) by (unfold vtree; rewrite L; reflexivity).
    rewrite E. split; [exact Wc|]. split; [apply shared_old_leaves, SP|].
    rewrite <- E. apply IH; auto; lia.
  Qed.

  Lemma nth_trees_from s n : forall j i,
    (i < n)%nat -> nth_error (trees_from s j n) i = Some (vtree s (j + 1 + Z.of_nat i)).
  Proof.
    induction n as [|n IH]; intros j i Hi; [lia|]. cbn [trees_from]. destruct i as [|i]; cbn [nth_error].
    - f_equal. f_equal. lia.
    - rewrite IH by lia. f_equal. f_equal. lia.
  Qed.

  Lemma vtree_eq s a b : a = b -> vtree s a = vtree s b.
  Proof. intros ->. reflexivity. Qed.
  Lemma net_eq a a' b b' c c' : a = a' -> b = b' -> c = c' -> net a b c = net a' b' c'.
  Proof. intros -> -> ->. reflexivity. Qed.

  (** replaying the extracted change sets of a history into an empty tree (with any hash
      function [H']) reproduces every version's contents *)
  Theorem history_replay (H' : bytes -> bytes) ops :
    forallb hist_op ops = true ->
    let s := fst (run H (init_state 0 false) ops) in
    let n := Z.to_nat (version s) in
    let css := nets 0 None (trees_from s 0 n) in
    let res := replay H' (init_state 0 false) css in
    forall v, 1 <= v <= version s ->
      (exists r, lookup v (forest (fst res)) = Some r /\ oelems r = oelems (vtree s v)) /\
      (exists o, nth_error (snd res) (Z.to_nat (v - 1)) = Some o /\ saved_out o v) /\
      nth_error css (Z.to_nat (v - 1)) = Some (net (vtree s (v - 1)) (vtree s v) (v - 1)).
  Proof.
    intros Ho s n css res v Hv. pose proof (hist_run ops _ Ho hist_inv_init) as HI. fold s in HI.
    assert (V0 : vtree s 0 = None) by (unfold vtree; rewrite (hi_low s HI) by lia; reflexivity).
    assert (Ch : chain 0 None (trees_from s 0 n)).
    { rewrite <- V0. apply hist_chain; auto; unfold n; lia. }
    assert (Ni : nth_error (trees_from s 0 n) (Z.to_nat (v - 1)) = Some (vtree s v)).
    { rewrite nth_trees_from by (unfold n; lia). f_equal. f_equal. lia. }
    destruct (replay_contents H' _ Ch _ _ Ni) as [C O].
    replace (Z.of_nat (Z.to_nat (v - 1)) + 1) with v in C, O by lia.
    split; [exact C|]. split; [exact O|].
    (* the i-th change set of [nets] *)
    assert (G : forall m j t i, (i < m)%nat ->
              nth_error (nets j t (trees_from s j m)) i =
                Some (net (if (i =? 0)%nat then t else vtree s (j + Z.of_nat i))
                          (vtree s (j + 1 + Z.of_nat i)) (j + Z.of_nat i))).
    { induction m as [|m IHm]; intros j t i Hi; [lia|]. cbn [trees_from nets].
      destruct i as [|i]; cbn [nth_error].
      - cbn [Nat.eqb]. f_equal. apply net_eq; [reflexivity|apply vtree_eq; lia|lia].
      - rewrite IHm by lia. f_equal. destruct i as [|i]; cbn [Nat.eqb];
          (apply net_eq; [apply vtree_eq; lia|apply vtree_eq; lia|lia]). }
    unfold css. rewrite G by (unfold n; lia). f_equal.
    destruct (Z.to_nat (v - 1)) as [|i] eqn:Ei; cbn [Nat.eqb].
    - assert (v = 1) by lia. subst v. rewrite <- V0.
      apply net_eq; [apply vtree_eq; lia|apply vtree_eq; lia|lia].
    - apply net_eq; [apply vtree_eq; lia|apply vtree_eq; lia|lia].
  Qed.
End History.

(** ** Why the histories above exclude load / prune: in the MTree model, loading an old version,
    pruning past it and saving creates a version 2 next to a version 3 that was not derived
    from it.  [extract] and [net] still agree, but the version-consistency hypothesis of
    Theorem 1 fails and the change set does not lead from the contents of 2 to those of 3.
    (On the Go code this sequence does not produce such a version: the write after the prune
    fails on a missing node.) *)
Module ConsistencyNeeded.
  Import DiffExamples.
  Definition ops : list op :=
    [OSet (k 1) (k 10); OSet (k 2) (k 20); OSet (k 3) (k 30); OSet (k 4) (k 40); OSave;
     OSet (k 1) (k 11); OSave;
     OSet (k 4) (k 41); OSave;
     OLoad 1; OPrune 2; OSet (k 2) (k 22); OSave].
  Example version_consistency_needed :
    let s := fst (run Hid (init_state 0 false) ops) in
    let prev := vtree s 2 in
    let cur := vtree s 3 in
    map fst (forest s) = [3; 2] /\
    extract 2 prev cur = Some (net prev cur 2) /\
    net prev cur 2 = [CSet (k 4) (k 41)] /\
    apply_changes (net prev cur 2) (oelems prev) <> oelems cur.
  Proof. vm_compute. repeat split; try reflexivity. discriminate. Qed.
End ConsistencyNeeded.
