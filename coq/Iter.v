(** Executable models of the iterators of cosmos/iavl:

    (a) [traversal]            iterator.go: newTraversal / delayedNodes / next()
    (b) [Iterator]             iterator.go: NewIterator / Valid / Key / Value / Next / Close
    (c) [FastIterator]         fast_iterator.go, over the persisted fast index
    (d) [UnsavedFastIterator]  unsaved_fast_iterator.go, fast index merged with the
                               unsaved additions / removals of a MutableTree
    (e) the callback loops     node.go traverseInRange, immutable_tree.go Iterate /
                               IterateRange / IterateRangeInclusive, mutable_tree.go Iterate

    Conventions.
    - Byte-slice bounds are [option bytes]: [None] is Go's nil (open bound), [Some []] is the
      empty non-nil slice.  The Go code tests [start == nil] / [end == nil] (never [len == 0]),
      so [Some []] is an ordinary bound compared with bytes.Compare / bytes.Equal.
    - Go loops / recursion that are not structurally recursive carry explicit fuel; running out
      of fuel is reported ([NFuel], [None], [UFuel]), never defaulted.
    - Go panics are reported by explicit markers ([FPanic], [UPanic]).
    - Stacks: Go's delayedNodes is a slice whose LAST element is the top; here the HEAD of the
      list is the top of the stack. *)
From IAVL Require Import Bytes Tree VMap.
Local Open Scope Z_scope.

(** nil-able byte slice rendered as a byte string (nil and empty coincide as strings:
    Go's UnsafeBytesToStr(nil) = "") *)
Definition ob (x : option bytes) : bytes := match x with Some b => b | None => [] end.

(** * (a) traversal *)

(** node.isLeaf(): subtreeHeight == 0 (the cached height, not the shape) *)
Definition isleaf (n : node) : bool := height n =? 0.
(** node.value: nil for inner nodes *)
Definition nval (n : node) : bytes := match n with Leaf _ v _ => v | Inner _ _ _ _ _ _ => [] end.

Definition nodes_kv (n : node) : bytes * bytes := (nkey n, nval n).

Record trav := Trav {
  tv_start : option bytes;
  tv_stop : option bytes;
  tv_asc : bool;
  tv_incl : bool;
  tv_post : bool;
  tv_stack : list (node * bool)        (* delayedNodes: (node, delayed), head = top *)
}.

Definition with_stack (tv : trav) (st : list (node * bool)) : trav :=
  Trav (tv_start tv) (tv_stop tv) (tv_asc tv) (tv_incl tv) (tv_post tv) st.

(** node.newTraversal.  Go seeds the stack with {node, true} even when node is nil (root of an
    empty tree); next() then pops it and returns nil at [node == nil], leaving the stack empty.
    That is observationally the empty stack (next() returns nil, stack empty afterwards), which
    is how a nil root is modelled. *)
Definition tv_new (root : option node) (start stop : option bytes) (asc incl post : bool) : trav :=
  Trav start stop asc incl post (match root with None => [] | Some n => [(n, true)] end).

(** afterStart := t.start == nil || bytes.Compare(t.start, node.key) < 0 *)
Definition after_start (start : option bytes) (k : bytes) : bool :=
  match start with None => true | Some s => blt s k end.
(** startOrAfter := afterStart || bytes.Equal(t.start, node.key) *)
Definition start_or_after (start : option bytes) (k : bytes) : bool :=
  after_start start k || beq (ob start) k.
(** beforeEnd := t.end == nil || bytes.Compare(node.key, t.end) < 0;
    if t.inclusive { beforeEnd = beforeEnd || bytes.Equal(node.key, t.end) } *)
Definition before_end (stop : option bytes) (incl : bool) (k : bytes) : bool :=
  let be := match stop with None => true | Some e => blt k e end in
  if incl then be || beq k (ob stop) else be.

Inductive step_res :=
| SEmpty                         (* delayedNodes.length() == 0: return nil *)
| SEmit (n : node) (tv : trav)   (* return node *)
| SCont (tv : trav).             (* return t.next() *)

(** One activation of traversal.next() (everything up to the tail call). *)
Definition step (tv : trav) : step_res :=
  match tv_stack tv with
  | [] => SEmpty
  | (n, delayed) :: rest =>
      if negb delayed then SEmit n (with_stack tv rest) else
      let k := nkey n in
      let aS := after_start (tv_start tv) k in
      let sOA := start_or_after (tv_start tv) k in
      let bE := before_end (tv_stop tv) (tv_incl tv) k in
      let vis := negb (isleaf n) || (sOA && bE) in
      (* postorder: push the node itself, not delayed *)
      let st1 := if tv_post tv && vis then (n, false) :: rest else rest in
      (* branch node: push the children that can intersect the domain *)
      let st2 :=
        if isleaf n then st1 else
        match n with
        | Leaf _ _ _ => st1          (* unreachable: height (Leaf _) = 0 *)
        | Inner _ _ _ _ l r =>
            if tv_asc tv then
              (* push right, then left: left ends on top *)
              (if aS then [(l, true)] else []) ++ (if bE then [(r, true)] else []) ++ st1
            else
              (if bE then [(r, true)] else []) ++ (if aS then [(l, true)] else []) ++ st1
        end in
      if negb (tv_post tv) && vis then SEmit n (with_stack tv st2)
      else SCont (with_stack tv st2)
  end.

Inductive nres := NNode (n : node) | NEnd | NFuel.

(** traversal.next(): fuel bounds the number of activations (stack pops). *)
Fixpoint next (fuel : nat) (tv : trav) : nres * trav :=
  match fuel with
  | O => (NFuel, tv)
  | S f =>
      match step tv with
      | SEmpty => (NEnd, tv)
      | SEmit n tv' => (NNode n, tv')
      | SCont tv' => next f tv'
      end
  end.

(** traverseInRange's loop [for node2 := t.next(); node2 != nil; node2 = t.next()] with the
    callback [cb]; returns the nodes handed to the callback and the [stop] result.
    [n] bounds the number of next() calls, [fuel] is handed to each of them. *)
Fixpoint trav_loop (n fuel : nat) (cb : node -> bool) (tv : trav) : option (list node * bool) :=
  match n with
  | O => None
  | S n' =>
      match next fuel tv with
      | (NFuel, _) => None
      | (NEnd, _) => Some ([], false)
      | (NNode x, tv') =>
          if cb x then Some ([x], true)
          else match trav_loop n' fuel cb tv' with
               | None => None
               | Some (l, s) => Some (x :: l, s)
               end
      end
  end.

(** all nodes produced by a traversal until exhaustion; [None] = out of fuel *)
Definition traverse_all (fuel : nat) (tv : trav) : option (list node) :=
  option_map fst (trav_loop fuel fuel (fun _ => false) tv).

Fixpoint nodes (t : node) : nat :=
  match t with Leaf _ _ _ => 1%nat | Inner _ _ _ _ l r => S (nodes l + nodes r) end.

Definition tree_fuel (t : node) : nat := (2 * nodes t + 2)%nat.

(** node.traverseInRange(tree, start, end, ascending, inclusive, post, cb) *)
Definition traverse_in_range (t : node) (start stop : option bytes) (asc incl post : bool)
    (cb : node -> bool) : option (list node * bool) :=
  trav_loop (tree_fuel t) (tree_fuel t) cb (tv_new (Some t) start stop asc incl post).

Definition leaves_of (l : list node) : list (bytes * bytes) :=
  map nodes_kv (filter isleaf l).

(** The (key, value) of the leaves visited by a pre-order traversal of [t]. *)
Definition iter_tree (t : node) (start stop : option bytes) (incl asc : bool)
  : option (list (bytes * bytes)) :=
  option_map leaves_of
    (traverse_all (tree_fuel t) (tv_new (Some t) start stop asc incl false)).

(** ImmutableTree.IterateRange / IterateRangeInclusive ([incl]): the callback sees the leaves
    only; returns the pairs delivered to [fn] and [stopped].  A nil root returns false at once. *)
Definition iterate_range (root : option node) (start stop : option bytes) (asc incl : bool)
    (fn : bytes * bytes -> bool) : option (list (bytes * bytes) * bool) :=
  match root with
  | None => Some ([], false)
  | Some t =>
      match traverse_in_range t start stop asc incl false
              (fun n => if isleaf n then fn (nodes_kv n) else false) with
      | None => None
      | Some (l, s) => Some (leaves_of l, s)
      end
  end.

(** * (b) Iterator *)
Record iter := Iter {
  it_start : option bytes;
  it_stop : option bytes;
  it_key : option bytes;      (* nil before the first positioning *)
  it_value : option bytes;
  it_valid : bool;
  it_err : bool;              (* err != nil *)
  it_t : option trav          (* nil after exhaustion / Close *)
}.

(** Iterator.Next(): no-op when [t == nil]; skips inner nodes by recursion.  Note that key and
    value keep their last values when the traversal is exhausted.  [None] = out of fuel. *)
Fixpoint it_next (fuel : nat) (it : iter) : option iter :=
  match fuel with
  | O => None
  | S f =>
      match it_t it with
      | None => Some it
      | Some tv =>
          match next (S f) tv with
          | (NFuel, _) => None
          | (NEnd, _) =>
              Some (Iter (it_start it) (it_stop it) (it_key it) (it_value it) false (it_err it) None)
          | (NNode n, tv') =>
              if height n =? 0 then
                Some (Iter (it_start it) (it_stop it) (Some (nkey n)) (Some (nval n))
                           (it_valid it) (it_err it) (Some tv'))
              else
                it_next f (Iter (it_start it) (it_stop it) (it_key it) (it_value it)
                                (it_valid it) (it_err it) (Some tv'))
          end
      end
  end.

(** NewIterator(start, end, ascending, tree).  [tree = None]: nil *ImmutableTree (error,
    invalid); [Some None]: a tree whose root is nil; [Some (Some n)]: root [n]. *)
Definition it_new (fuel : nat) (start stop : option bytes) (asc : bool)
    (tree : option (option node)) : option iter :=
  match tree with
  | None => Some (Iter start stop None None false true None)
  | Some root =>
      it_next fuel (Iter start stop None None true false
                         (Some (tv_new root start stop asc false false)))
  end.

Definition it_close (it : iter) : iter :=
  Iter (it_start it) (it_stop it) (it_key it) (it_value it) false (it_err it) None.

Definition it_is_fast (it : iter) : bool := false.

(** [for ; itr.Valid(); itr.Next() { if fn(itr.Key(), itr.Value()) { return true } }]:
    the pairs delivered to [fn] and whether it stopped the loop. *)
Fixpoint it_loop (n fuel : nat) (fn : bytes * bytes -> bool) (it : iter)
  : option (list (bytes * bytes) * bool) :=
  match n with
  | O => None
  | S n' =>
      if it_valid it then
        let kv := (ob (it_key it), ob (it_value it)) in
        if fn kv then Some ([kv], true) else
        match it_next fuel it with
        | None => None
        | Some it' =>
            match it_loop n' fuel fn it' with
            | None => None
            | Some (l, s) => Some (kv :: l, s)
            end
        end
      else Some ([], false)
  end.

Definition it_collect (fuel : nat) (it : iter) : option (list (bytes * bytes)) :=
  option_map fst (it_loop fuel fuel (fun _ => false) it).

Definition it_collect_tree (t : node) (start stop : option bytes) (asc : bool)
  : option (list (bytes * bytes)) :=
  match it_new (tree_fuel t) start stop asc (Some (Some t)) with
  | None => None
  | Some it => it_collect (tree_fuel t) it
  end.

(** ImmutableTree.Iterate over the node iterator (fast index not enabled):
    root == nil returns (false, nil) without creating an iterator. *)
Definition imm_iterate (root : option node) (fn : bytes * bytes -> bool)
  : option (list (bytes * bytes) * bool) :=
  match root with
  | None => Some ([], false)
  | Some t =>
      match it_new (tree_fuel t) None None true (Some (Some t)) with
      | None => None
      | Some it => it_loop (tree_fuel t) (tree_fuel t) fn it
      end
  end.

(** * (c) FastIterator *)

(** The backing store iterator (corestore.Iterator over the ['f' ++ key] key space) is modelled
    by the list of the entries still to be visited, current entry first.  The mapping of logical
    keys to prefixed store keys done by nodedb.getFastIterator / fastKeyFormat (start nil ->
    "f", end nil -> "g", Key()[1:] on the way back) is order preserving and is abstracted; so is
    fastnode.DeserializeNode, which cannot fail on entries written by the library. *)
Definition kvit := list (bytes * bytes).

Definition kv_valid (it : kvit) : bool := match it with [] => false | _ :: _ => true end.
(** Next() on an exhausted store iterator panics (memdb assertIsValid, goleveldb likewise) *)
Definition kv_next (it : kvit) : option kvit := match it with [] => None | _ :: r => Some r end.

Fixpoint drop_below (start : option bytes) (l : kvs) : kvs :=
  match l with
  | [] => []
  | (k, v) :: r =>
      if (match start with None => false | Some s => blt k s end) then drop_below start r else l
  end.
Fixpoint take_below (stop : option bytes) (l : kvs) : kvs :=
  match l with
  | [] => []
  | (k, v) :: r =>
      if (match stop with None => true | Some e => blt k e end) then (k, v) :: take_below stop r
      else []
  end.

(** db.Iterator(start, end) / db.ReverseIterator(start, end) on the sorted index: seek to the
    first key >= start, run while key < end; the reverse iterator visits the same entries
    backwards. *)
Definition kv_scan (idx : kvs) (start stop : option bytes) (asc : bool) : kvit :=
  let sel := take_below stop (drop_below start idx) in
  if asc then sel else rev sel.

Record fiter := FIter {
  fi_start : option bytes;
  fi_stop : option bytes;
  fi_asc : bool;
  fi_ndb : option kvs;                  (* None: ndb == nil *)
  fi_valid : bool;
  fi_err : bool;
  fi_node : option (bytes * bytes);     (* nextFastNode *)
  fi_it : option kvit                   (* fastIterator; None = nil *)
}.

Inductive fres := FOk (it : fiter) | FPanic.

(** FastIterator.Next() *)
Definition fi_next (it : fiter) : fres :=
  match fi_ndb it with
  | None => FOk (FIter (fi_start it) (fi_stop it) (fi_asc it) None false true (fi_node it) (fi_it it))
  | Some idx =>
      let r := match fi_it it with
               | None => Some (kv_scan idx (fi_start it) (fi_stop it) (fi_asc it), true)
               | Some kv => match kv_next kv with
                            | None => None
                            | Some kv' => Some (kv', fi_valid it)
                            end
               end in
      match r with
      | None => FPanic
      | Some (kv', v0) =>
          let v := v0 && kv_valid kv' in
          FOk (FIter (fi_start it) (fi_stop it) (fi_asc it) (fi_ndb it) v (fi_err it)
                     (if v then hd_error kv' else fi_node it) (Some kv'))
      end
  end.

(** NewFastIterator: Next() once.  (The first Next() cannot panic: fastIterator is nil.) *)
Definition fi_new (start stop : option bytes) (asc : bool) (ndb : option kvs) : fiter :=
  match fi_next (FIter start stop asc ndb false false None None) with
  | FOk it => it
  | FPanic => FIter start stop asc ndb false true None None
  end.

(** FastIterator.Valid() *)
Definition fi_is_valid (it : fiter) : bool :=
  match fi_it it with None => false | Some kv => kv_valid kv && fi_valid it end.
(** FastIterator.Key() / Value(): nil when !valid *)
Definition fi_key (it : fiter) : option bytes :=
  if fi_valid it then option_map fst (fi_node it) else None.
Definition fi_value (it : fiter) : option bytes :=
  if fi_valid it then option_map snd (fi_node it) else None.

Definition fi_close (it : fiter) : fiter :=
  FIter (fi_start it) (fi_stop it) (fi_asc it) (fi_ndb it) false (fi_err it) (fi_node it) None.

Fixpoint fi_loop (n : nat) (fn : bytes * bytes -> bool) (it : fiter)
  : option (list (bytes * bytes) * bool) :=
  match n with
  | O => None
  | S n' =>
      if fi_is_valid it then
        let kv := (ob (fi_key it), ob (fi_value it)) in
        if fn kv then Some ([kv], true) else
        match fi_next it with
        | FPanic => None
        | FOk it' =>
            match fi_loop n' fn it' with
            | None => None
            | Some (l, s) => Some (kv :: l, s)
            end
        end
      else Some ([], false)
  end.

(** [for ; it.Valid(); it.Next()] over NewFastIterator(start, end, asc, ndb) where the index
    holds [idx].  [None] = out of fuel or panic. *)
Definition fast_collect (idx : kvs) (start stop : option bytes) (asc : bool)
  : option (list (bytes * bytes)) :=
  option_map fst (fi_loop (S (S (length idx))) (fun _ => false) (fi_new start stop asc (Some idx))).

(** * (d) UnsavedFastIterator *)

(** sort.Slice(unsavedFastNodesToSort, less) with less = [<] (ascending) or [>] (descending)
    on Go strings, i.e. bytes.Compare; insertion sort here (keys of a map are distinct, so the
    result does not depend on the algorithm). *)
Definition key_before (asc : bool) (a b : bytes) : bool := if asc then blt a b else blt b a.

Fixpoint sort_ins (asc : bool) (k : bytes) (l : list bytes) : list bytes :=
  match l with
  | [] => [k]
  | x :: r => if key_before asc k x then k :: l else x :: sort_ins asc k r
  end.
Definition sort_keys (asc : bool) (l : list bytes) : list bytes :=
  fold_right (sort_ins asc) [] l.

(** the Range callback of the constructor: keep keys with (start == nil || key >= start) and
    (end == nil || key < end) *)
Definition uf_keep (start stop : option bytes) (k : bytes) : bool :=
  negb (match start with None => false | Some s => blt k s end) &&
  negb (match stop with None => false | Some e => negb (blt k e) end).

Record ufiter := UFIter {
  uf_start : option bytes;
  uf_stop : option bytes;
  uf_asc : bool;
  uf_ndb_nil : bool;                 (* ndb == nil *)
  uf_err : bool;
  uf_next_key : option bytes;        (* nextKey (None = nil) *)
  uf_next_val : option bytes;        (* nextVal *)
  uf_fast : fiter;                   (* fastIterator *)
  uf_adds : kvs;                     (* unsavedFastNodeAdditions: key -> fast node value *)
  uf_rms : list bytes;               (* unsavedFastNodeRemovals *)
  uf_todo : list bytes;              (* unsavedFastNodesToSort[nextUnsavedNodeIdx:] *)
  uf_nilk : bool                     (* the addition stored under "" carries a nil key slice
                                        (Set(nil, v)) rather than an empty one (Set([]byte{}, v)) *)
}.

Definition uf_set (it : ufiter) (k v : option bytes) (fast : fiter) (todo : list bytes) : ufiter :=
  UFIter (uf_start it) (uf_stop it) (uf_asc it) (uf_ndb_nil it) (uf_err it) k v fast
         (uf_adds it) (uf_rms it) todo (uf_nilk it).

Definition in_rms (k : bytes) (rms : list bytes) : bool := existsb (beq k) rms.

(** fastnode.GetKey() of an unsaved addition stored under map key [k] *)
Definition unsaved_key (nilk : bool) (k : bytes) : option bytes :=
  match k with [] => if nilk then None else Some [] | _ => Some k end.

Inductive ures := UOk (it : ufiter) | UPanic | UFuel.

(** UnsavedFastIterator.Next().  The recursion [iter.Next()] after skipping a removed disk
    entry consumes fuel.  [assoc] failing corresponds to the nil type assertion
    of nextUnsavedNodeVal to a fastnode.Node pointer panicking. *)
Fixpoint uf_next (fuel : nat) (it : ufiter) : ures :=
  match fuel with
  | O => UFuel
  | S f =>
      if uf_ndb_nil it then
        UOk (UFIter (uf_start it) (uf_stop it) (uf_asc it) true true (uf_next_key it)
                    (uf_next_val it) (uf_fast it) (uf_adds it) (uf_rms it) (uf_todo it) (uf_nilk it))
      else
      let fast := uf_fast it in
      let dk := ob (fi_key fast) in       (* diskKeyStr *)
      match fi_is_valid fast, uf_todo it with
      | true, uk :: todo' =>
          if in_rms dk (uf_rms it) then
            match fi_next fast with
            | FPanic => UPanic
            | FOk fast' => uf_next f (uf_set it (uf_next_key it) (uf_next_val it) fast' (uf_todo it))
            end
          else
            match assoc uk (uf_adds it) with
            | None => UPanic
            | Some uv =>
                let unsaved_next := if uf_asc it then ble uk dk else ble dk uk in
                if unsaved_next then
                  if beq dk uk then
                    match fi_next fast with
                    | FPanic => UPanic
                    | FOk fast' =>
                        UOk (uf_set it (unsaved_key (uf_nilk it) uk) (Some uv) fast' todo')
                    end
                  else UOk (uf_set it (unsaved_key (uf_nilk it) uk) (Some uv) fast todo')
                else
                  match fi_next fast with
                  | FPanic => UPanic
                  | FOk fast' => UOk (uf_set it (fi_key fast) (fi_value fast) fast' (uf_todo it))
                  end
            end
      | true, [] =>
          if in_rms dk (uf_rms it) then
            match fi_next fast with
            | FPanic => UPanic
            | FOk fast' => uf_next f (uf_set it (uf_next_key it) (uf_next_val it) fast' (uf_todo it))
            end
          else
            match fi_next fast with
            | FPanic => UPanic
            | FOk fast' => UOk (uf_set it (fi_key fast) (fi_value fast) fast' (uf_todo it))
            end
      | false, uk :: todo' =>
          match assoc uk (uf_adds it) with
          | None => UPanic
          | Some uv => UOk (uf_set it (unsaved_key (uf_nilk it) uk) (Some uv) fast todo')
          end
      | false, [] => UOk (uf_set it None None fast [])
      end
  end.

(** NewUnsavedFastIterator(start, end, ascending, ndb, additions, removals); [None] for a nil
    ndb / nil maps (error paths: returned without positioning). *)
Definition uf_new (fuel : nat) (start stop : option bytes) (asc nilk : bool)
    (ndb : option kvs) (adds : option kvs) (rms : option (list bytes)) : ures :=
  let fast := fi_new start stop asc ndb in
  let it0 := UFIter start stop asc (match ndb with None => true | Some _ => false end) false
                    None None fast (match adds with Some a => a | None => [] end)
                    (match rms with Some r => r | None => [] end) [] nilk in
  match ndb, adds, rms with
  | Some _, Some a, Some _ =>
      uf_next fuel (uf_set it0 None None fast
                      (sort_keys asc (filter (uf_keep start stop) (map fst a))))
  | _, _, _ =>
      UOk (UFIter start stop asc (uf_ndb_nil it0) true None None fast (uf_adds it0) (uf_rms it0) [] nilk)
  end.

(** UnsavedFastIterator.Valid() *)
Definition uf_valid (it : ufiter) : bool :=
  match uf_start it, uf_stop it with
  | Some s, Some e =>
      match bcmp e s with
      | Gt => true
      | _ => false
      end
  | _, _ => true
  end &&
  (fi_is_valid (uf_fast it) ||
   (match uf_todo it with [] => false | _ :: _ => true end) ||
   (match uf_next_key it, uf_next_val it with Some _, Some _ => true | _, _ => false end)).

Fixpoint uf_loop (n fuel : nat) (fn : bytes * bytes -> bool) (it : ufiter)
  : option (list (bytes * bytes) * bool) :=
  match n with
  | O => None
  | S n' =>
      if uf_valid it then
        let kv := (ob (uf_next_key it), ob (uf_next_val it)) in
        if fn kv then Some ([kv], true) else
        match uf_next fuel it with
        | UOk it' =>
            match uf_loop n' fuel fn it' with
            | None => None
            | Some (l, s) => Some (kv :: l, s)
            end
        | _ => None
        end
      else Some ([], false)
  end.

Definition uf_fuel (idx adds : kvs) : nat := (length idx + length adds + 2)%nat.

(** the loop [for ; itr.Valid(); itr.Next()] over MutableTree.Iterator(start, end, asc) when the
    fast index is enabled: persisted index [idx], unsaved [adds] / [rms] *)
Definition uf_iterate (idx adds : kvs) (rms : list bytes) (start stop : option bytes)
    (asc nilk : bool) (fn : bytes * bytes -> bool) : option (list (bytes * bytes) * bool) :=
  match uf_new (uf_fuel idx adds) start stop asc nilk (Some idx) (Some adds) (Some rms) with
  | UOk it => uf_loop (uf_fuel idx adds) (uf_fuel idx adds) fn it
  | _ => None
  end.

Definition uf_collect (idx adds : kvs) (rms : list bytes) (start stop : option bytes)
    (asc nilk : bool) : option (list (bytes * bytes)) :=
  option_map fst (uf_iterate idx adds rms start stop asc nilk (fun _ => false)).

(** MutableTree.Iterate with the fast index enabled: [tree.root == nil] returns at once,
    otherwise NewUnsavedFastIterator(nil, nil, true, ...) *)
Definition mut_iterate (root : option node) (idx adds : kvs) (rms : list bytes) (nilk : bool)
    (fn : bytes * bytes -> bool) : option (list (bytes * bytes) * bool) :=
  match root with
  | None => Some ([], false)
  | Some _ => uf_iterate idx adds rms None None true nilk fn
  end.

(** * NodeIterator (iterator.go): pre-order walk with subtree skipping.  Nodes are values here,
    so ndb.GetNode cannot fail; the stack is the Go slice with the head as its last element. *)
Definition ni_new (root : option node) : list node :=
  match root with None => [] | Some n => [n] end.
Definition ni_valid (st : list node) : bool := match st with [] => false | _ => true end.
Definition ni_get (st : list node) : option node := hd_error st.   (* Go panics on empty *)
Definition ni_next (st : list node) (skip : bool) : list node :=
  match st with
  | [] => []
  | n :: rest =>
      if skip then rest else
      if isleaf n then rest else
      match n with
      | Leaf _ _ _ => rest
      | Inner _ _ _ _ l r => l :: r :: rest
      end
  end.
