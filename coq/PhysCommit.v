(** The physical writes of SaveVersion, byte for byte (mutable_tree.go SaveVersion /
    saveFastNodeVersion / saveNewNodes, nodedb.go SaveNode / SaveRoot / SaveFastNode /
    DeleteFastNode / setFastStorageVersionToBatch), as the stream of [Flusher.bop] that reaches
    BatchWithFlusher: the unsaved fast-index additions (sorted by key; the entry carries the
    version FastLife recorded for it: tree.version+1 at the time of the Set, which is 1 - not the
    initial version - before the first commit), the unsaved removals (sorted by key), the storage-version label,
    then the new nodes in post-order with the root last (or the root record of a version
    committed without changes / of an empty tree).  Keys and values are the stored bytes
    ([DbImage]'s encoders).  [Flusher.fl_batches th (commit_bops H st)] are the physical batches
    of the commit; the harness compares their sizes, cut points and an MD5 of their bytes with
    what the library hands to a MemDB ([wsave]). *)
From IAVL Require Import Bytes Varint Tree MTree Codec Store FastLife DbImage Flusher.
Local Open Scope Z_scope.

Definition bop_of_wop (wv : Z) (o : Store.wop) : list Flusher.bop :=
  match o with
  | Store.WSet (KNode k) (VEntry e) => [Flusher.BSet (node_db_key k) (encode_entry k e)]
  | Store.WDel (KNode k) => [Flusher.BDel (node_db_key k)]
  | Store.WSet (KFast k) (VFast v) => [Flusher.BSet (db_fast_key k) (encode_fast_node wv v)]
  | Store.WDel (KFast k) => [Flusher.BDel (db_fast_key k)]
  | Store.WSet KLabel (VLabel (Some l)) => [Flusher.BSet db_meta_key (fast_storage_label l)]
  | _ => []
  end.

Section PhysCommit.
  Variable H : bytes -> bytes.

  (** the index part of a commit, from the unsaved additions / removals FastLife tracks *)
  Definition commit_fast_bops (st : fstate) : list Flusher.bop :=
    let wv := working_version (ms st) in
    if skipf st then []
    else
      map (fun a => Flusher.BSet (db_fast_key (fst a)) (encode_fast_node (fst (snd a)) (snd (snd a)))) (adds st) ++
      map (fun r => Flusher.BDel (db_fast_key (fst r))) (rems st) ++
      [Flusher.BSet db_meta_key (fast_storage_label wv)].

  Definition commit_node_bops (st : fstate) : list Flusher.bop :=
    flat_map (bop_of_wop (working_version (ms st))) (Store.commit_node_ops H (ms st)).

  (** nothing is written when the version exists already (idempotent re-commit or error) *)
  Definition commit_bops (st : fstate) : list Flusher.bop :=
    if version_exists (ms st) (working_version (ms st)) then []
    else commit_fast_bops st ++ commit_node_bops st.

  (** the physical batches of the commit for flush threshold [th] *)
  Definition commit_batches (th : Z) (st : fstate) : list (list Flusher.bop) :=
    Flusher.fl_batches th (commit_bops st).
End PhysCommit.
