(** Proofs about the re-keying hand-off (ConcRekey.v), property C06.

    Plan.  Everything a reader of a version whose root record refers to [(v,1)] needs from the
    sequence of disks [D 0, D 1, ...] it is interleaved with is the invariant [handoff]:
      - the root record is the same reference on every disk;
      - on every disk, EITHER [(v,1)] holds the node, OR [(v,1)] is absent and [(v,0)] holds the
        node on this and every LATER disk.
    [handoff_safe_gen]: under [handoff], for every non-decreasing schedule, GetRoot followed by
    GetNode returns the node (case analysis on what each probe sees, no enumeration).
    The invariant is established at the granularity of single operations ([ops_at]) for the
    code's operation sequences, and transported to ANY batching of them ([disk_at_ops_at],
    [pos_mono]): a batching only hides some of the intermediate disks. *)
From Coq Require Import Lia Bool.
From IAVL Require Import Bytes Varint Tree MTree Store StoreFacts ConcRekey.
Local Open Scope Z_scope.

Notation disk := (list ((Z * Z) * entry)) (only parsing).
Notation dfind k d := (mfind kcmp k d) (only parsing).

(** ** Lookups after one write *)
Lemma find_set k k' e (d : disk) :
  dfind k (mset kcmp k' e d) = if keqb k k' then Some e else dfind k d.
Proof.
  rewrite (mfind_mset kcmp kcmp_ok).
  destruct (keqb k k') eqn:E.
  - apply keqb_true in E. subst. rewrite (c_refl kcmp kcmp_ok). reflexivity.
  - apply keqb_false in E. destruct (kcmp k k') eqn:C; try reflexivity.
    apply kcmp_Eq in C. contradiction.
Qed.

Lemma find_del k k' (d : disk) :
  msorted kcmp d ->
  dfind k (mdel kcmp k' d) = if keqb k k' then None else dfind k d.
Proof.
  intros S. rewrite (mfind_mdel kcmp kcmp_ok _ _ _ S).
  destruct (keqb k k') eqn:E.
  - apply keqb_true in E. subst. rewrite (c_refl kcmp kcmp_ok). reflexivity.
  - apply keqb_false in E. destruct (kcmp k k') eqn:C; try reflexivity.
    apply kcmp_Eq in C. contradiction.
Qed.

Lemma apply_nop_set k e (d : disk) : apply_nop d (set_node (k, e)) = mset kcmp k e d.
Proof. reflexivity. Qed.
Lemma apply_nop_del k (d : disk) : apply_nop d (del_node k) = mdel kcmp k d.
Proof. reflexivity. Qed.

Lemma keqb_refl k : keqb k k = true.
Proof. apply keqb_true. reflexivity. Qed.
Lemma keqb_nonce v a b w : a <> b -> keqb (v, a) (w, b) = false.
Proof. intros N. apply keqb_false. intros E. inversion E. contradiction. Qed.
Lemma keqb_ver v a b w : v <> w -> keqb (v, a) (w, b) = false.
Proof. intros N. apply keqb_false. intros E. inversion E. contradiction. Qed.

(** ** Batches hide intermediate disks *)

(** the disk after the first [j] single operations *)
Fixpoint ops_at (d : disk) (ops : list wop) (j : nat) : disk :=
  match ops, j with
  | o :: r, S j' => ops_at (apply_nop d o) r j'
  | _, _ => d
  end.

(** the number of operations in the first [t] batches *)
Fixpoint pos (batches : list (list wop)) (t : nat) : nat :=
  match batches, t with
  | b :: bs, S t' => (length b + pos bs t')%nat
  | _, _ => O
  end.

Lemma ops_at_app a : forall d c j,
  ops_at d (a ++ c) (length a + j) = ops_at (apply_batch d a) c j.
Proof.
  induction a as [|o a IH]; intros d c j; cbn [app length Nat.add ops_at apply_batch fold_left].
  - reflexivity.
  - apply IH.
Qed.

Lemma ops_at_0 d ops : ops_at d ops 0 = d.
Proof. destruct ops; reflexivity. Qed.

Lemma disk_at_ops_at batches : forall d t,
  disk_at d batches t = ops_at d (concat batches) (pos batches t).
Proof.
  induction batches as [|b bs IH]; intros d t; cbn [disk_at concat pos].
  - destruct t; reflexivity.
  - destruct t as [|t]; [symmetry; apply ops_at_0|].
    rewrite IH, ops_at_app. reflexivity.
Qed.

Lemma pos_mono batches : forall t t', (t <= t')%nat -> (pos batches t <= pos batches t')%nat.
Proof.
  induction batches as [|b bs IH]; intros t t' L; cbn [pos]; [destruct t, t'; lia|].
  destruct t as [|t]; [lia|]. destruct t' as [|t']; [lia|].
  specialize (IH t t'). lia.
Qed.

(** ** The hand-off invariant of a sequence of disks *)
Definition handoff (D : nat -> disk) (r v : Z) (n : snode) : Prop :=
  (forall t, dfind (r, 1) (D t) = Some (ERef (v, 1))) /\
  (forall t, dfind (v, 1) (D t) = Some (ENode n) \/
             (dfind (v, 1) (D t) = None /\
              forall t', (t <= t')%nat -> dfind (v, 0) (D t') = Some (ENode n))).

Lemma handoff_batching d ops batches r v n :
  concat batches = ops ->
  handoff (ops_at d ops) r v n -> handoff (disk_at d batches) r v n.
Proof.
  intros <- [H1 H2]. split.
  - intros t. rewrite disk_at_ops_at. apply H1.
  - intros t. rewrite disk_at_ops_at.
    destruct (H2 (pos batches t)) as [P|[P Q]]; [left; exact P|right].
    split; [exact P|]. intros t' L. rewrite disk_at_ops_at. apply Q, pos_mono, L.
Qed.

Definition good (v : Z) (n : snode) (o : outcome rres) : Prop :=
  o = Done (RNode (v, 1) n) \/ o = Done (RNode (v, 0) n).

Lemma nondecb_cons a b s : nondecb (a :: b :: s) = true -> (a <= b)%nat /\ nondecb (b :: s) = true.
Proof.
  cbn [nondecb]. intros E. apply andb_true_iff in E. destruct E as [E1 E2].
  apply Nat.leb_le in E1. split; assumption.
Qed.

(** the core: case analysis on what each probe sees *)
Theorem handoff_safe_gen (D : nat -> disk) r v n sched :
  handoff D r v n ->
  nondecb sched = true -> (5 <= length sched)%nat ->
  good v n (run_prog D (read_version r) sched).
Proof.
  intros [H1 H2] ND LEN.
  destruct sched as [|t0 [|t1 [|t2 [|t3 [|t4 rest]]]]]; cbn [length] in LEN; try lia.
  apply nondecb_cons in ND. destruct ND as [L01 ND].
  apply nondecb_cons in ND. destruct ND as [L12 ND].
  apply nondecb_cons in ND. destruct ND as [L23 ND].
  apply nondecb_cons in ND. destruct ND as [L34 _].
  unfold read_version, root_then_node, get_root_reader.
  cbn [bind run_prog]. rewrite H1. cbn [bind run_prog fst snd].
  destruct (H2 t1) as [P1|[P1 Q1]]; rewrite P1; cbn [bind run_prog].
  - (* GetRoot found (v,1) *)
    unfold get_node_reader. cbn [run_prog fst snd].
    destruct (H2 t2) as [P2|[P2 Q2]]; rewrite P2.
    + left. reflexivity.
    + change (1 =? 1) with true. cbn [run_prog]. rewrite (Q2 t3 L23). left. reflexivity.
  - (* GetRoot missed (v,1): it is gone for good, (v,0) is there *)
    rewrite (Q1 t2 L12). cbn [bind run_prog].
    unfold get_node_reader. cbn [run_prog fst snd].
    rewrite (Q1 t3 (Nat.le_trans _ _ _ L12 L23)). right. reflexivity.
Qed.

(** ** The code's operation sequences satisfy the invariant *)

Ltac srt :=
  repeat (apply (msorted_mset kcmp kcmp_ok) || apply (msorted_mdel kcmp)); assumption.

Ltac fnd :=
  repeat (rewrite find_set || (rewrite find_del by srt));
  repeat (rewrite keqb_refl
          || (rewrite keqb_nonce by lia)
          || (rewrite keqb_ver by lia)).

Lemma rekey_ops_handoff (d : disk) r v n :
  msorted kcmp d ->
  dfind (v, 1) d = Some (ENode n) ->
  dfind (r, 1) d = Some (ERef (v, 1)) ->
  handoff (ops_at d (rekey_ops v n)) r v n.
Proof.
  intros S Hn Hr.
  assert (NE : r <> v) by (intros ->; rewrite Hn in Hr; discriminate).
  unfold rekey_ops. split.
  - intros [|[|t]]; cbn [ops_at]; rewrite ?apply_nop_set, ?apply_nop_del; fnd; exact Hr.
  - intros [|[|t]]; cbn [ops_at]; rewrite ?apply_nop_set, ?apply_nop_del.
    + left. exact Hn.
    + left. fnd. exact Hn.
    + right. split; [fnd; reflexivity|].
      intros [|[|t']] L; try lia. cbn [ops_at]. rewrite ?apply_nop_set, ?apply_nop_del.
      fnd. reflexivity.
Qed.

Lemma chain_ops_handoff (d : disk) v n :
  msorted kcmp d ->
  dfind (v, 1) d = Some (ENode n) ->
  dfind (v + 2, 1) d = Some (ERef (v, 1)) ->
  handoff (ops_at d (chain_ops v n)) (v + 2) v n.
Proof.
  intros S Hn Hr.
  unfold chain_ops, rekey_ops. cbn [app]. split.
  - intros [|[|[|t]]]; cbn [ops_at]; rewrite ?apply_nop_set, ?apply_nop_del; fnd; exact Hr.
  - intros [|[|[|t]]]; cbn [ops_at]; rewrite ?apply_nop_set, ?apply_nop_del.
    + left. exact Hn.
    + left. fnd. exact Hn.
    + right. split; [fnd; reflexivity|].
      intros [|[|[|t']]] L; try lia; cbn [ops_at]; rewrite ?apply_nop_set, ?apply_nop_del;
        fnd; reflexivity.
    + right. split; [fnd; reflexivity|].
      intros [|[|[|t']]] L; try lia; cbn [ops_at]; rewrite ?apply_nop_set, ?apply_nop_del;
        fnd; reflexivity.
Qed.

(** ** Theorem 1: the hand-off is safe *)

(** any batching of the code's two operations (the flusher may cut anywhere) *)
Theorem rekey_handoff_safe_batching (d : disk) v n batches sched :
  msorted kcmp d ->
  dfind (v, 1) d = Some (ENode n) ->
  dfind (v + 1, 1) d = Some (ERef (v, 1)) ->
  concat batches = rekey_ops v n ->
  nondecb sched = true -> (5 <= length sched)%nat ->
  good v n (run_reader d batches (read_version (v + 1)) sched).
Proof.
  intros S Hn Hr C ND LEN. unfold run_reader. rewrite ND.
  apply handoff_safe_gen; [|exact ND|exact LEN].
  apply (handoff_batching d (rekey_ops v n)); [exact C|].
  apply rekey_ops_handoff; assumption.
Qed.

(** the statement of the task: the code's write order in both batchings, every schedule:
    GetRoot(v+1) followed by GetNode returns the node, under the key (v,1) or (v,0) *)
Theorem rekey_handoff_safe (d : disk) v n batches sched :
  msorted kcmp d ->
  dfind (v, 1) d = Some (ENode n) ->
  dfind (v + 1, 1) d = Some (ERef (v, 1)) ->
  batches = code_one_batch v n \/ batches = code_flushed v n ->
  nondecb sched = true -> (5 <= length sched)%nat ->
  run_reader d batches (read_version (v + 1)) sched = Done (RNode (v, 1) n) \/
  run_reader d batches (read_version (v + 1)) sched = Done (RNode (v, 0) n).
Proof.
  intros S Hn Hr B ND LEN.
  apply rekey_handoff_safe_batching; try assumption.
  destruct B as [-> | ->]; reflexivity.
Qed.

(** whatever the schedule (short, decreasing): never an error of the store, never another node *)
Theorem rekey_handoff_no_wrong_answer (d : disk) v n batches sched :
  msorted kcmp d ->
  dfind (v, 1) d = Some (ENode n) ->
  dfind (v + 1, 1) d = Some (ERef (v, 1)) ->
  concat batches = rekey_ops v n ->
  match run_reader d batches (read_version (v + 1)) sched with
  | Done r => r = RNode (v, 1) n \/ r = RNode (v, 0) n
  | SchedShort => (length sched < 5)%nat
  | SchedBad => nondecb sched = false
  end.
Proof.
  intros S Hn Hr C.
  destruct (nondecb sched) eqn:ND; [|unfold run_reader; rewrite ND; reflexivity].
  destruct (Nat.le_gt_cases 5 (length sched)) as [LEN|LEN].
  - destruct (rekey_handoff_safe_batching d v n batches sched S Hn Hr C ND LEN) as [E|E];
      rewrite E; [left|right]; reflexivity.
  - (* a short schedule: pad it; the padded run is good, the short one is a prefix of it *)
    assert (G : forall D s, handoff D (v + 1) v n -> nondecb s = true ->
              match run_prog D (read_version (v + 1)) s with
              | Done r => r = RNode (v, 1) n \/ r = RNode (v, 0) n
              | SchedShort => True
              | SchedBad => False
              end).
    { clear. intros D s [H1 H2] ND.
      unfold read_version, root_then_node, get_root_reader.
      destruct s as [|t0 s]; cbn [bind run_prog]; [exact I|].
      rewrite H1. cbn [bind run_prog fst snd].
      destruct s as [|t1 s]; cbn [bind run_prog]; [exact I|].
      apply nondecb_cons in ND. destruct ND as [L01 ND].
      destruct (H2 t1) as [P1|[P1 Q1]]; rewrite P1; cbn [bind run_prog].
      - unfold get_node_reader. cbn [run_prog fst snd].
        destruct s as [|t2 s]; [exact I|].
        apply nondecb_cons in ND. destruct ND as [L12 ND].
        destruct (H2 t2) as [P2|[P2 Q2]]; rewrite P2.
        + left. reflexivity.
        + change (1 =? 1) with true. cbn [run_prog].
          destruct s as [|t3 s]; [exact I|].
          apply nondecb_cons in ND. destruct ND as [L23 ND].
          rewrite (Q2 t3 L23). left. reflexivity.
      - destruct s as [|t2 s]; [exact I|].
        apply nondecb_cons in ND. destruct ND as [L12 ND].
        rewrite (Q1 t2 L12). cbn [bind run_prog].
        unfold get_node_reader. cbn [run_prog fst snd].
        destruct s as [|t3 s]; [exact I|].
        apply nondecb_cons in ND. destruct ND as [L23 ND].
        rewrite (Q1 t3 (Nat.le_trans _ _ _ L12 L23)). right. reflexivity. }
    unfold run_reader. rewrite ND.
    assert (HO : handoff (disk_at d batches) (v + 1) v n).
    { apply (handoff_batching d (rekey_ops v n)); [exact C|].
      apply rekey_ops_handoff; assumption. }
    specialize (G (disk_at d batches) sched HO ND).
    destruct (run_prog (disk_at d batches) (read_version (v + 1)) sched); auto; contradiction.
Qed.

(** ** Theorem 3: a chain v, v+1, v+2 rooted at (v,1); v then v+1 are deleted *)
Theorem rekey_chain_safe (d : disk) v n batches sched :
  msorted kcmp d ->
  dfind (v, 1) d = Some (ENode n) ->
  dfind (v + 2, 1) d = Some (ERef (v, 1)) ->
  concat batches = chain_ops v n ->
  nondecb sched = true -> (5 <= length sched)%nat ->
  run_reader d batches (read_version (v + 2)) sched = Done (RNode (v, 1) n) \/
  run_reader d batches (read_version (v + 2)) sched = Done (RNode (v, 0) n).
Proof.
  intros S Hn Hr C ND LEN. unfold run_reader. rewrite ND.
  apply handoff_safe_gen; [|exact ND|exact LEN].
  apply (handoff_batching d (chain_ops v n)); [exact C|].
  apply chain_ops_handoff; assumption.
Qed.

(** every cut of the three operations into non-empty batches is covered *)
Lemma batchings_concat {A} (ops : list A) : forall bs, In bs (batchings ops) -> concat bs = ops.
Proof.
  induction ops as [|o r IH]; intros bs HI.
  - cbn in HI. destruct HI as [<-|[]]. reflexivity.
  - cbn [batchings] in HI. destruct r as [|o' r'].
    + cbn in HI. destruct HI as [<-|[]]. reflexivity.
    + apply in_flat_map in HI. destruct HI as (bs0 & I0 & HI).
      specialize (IH bs0 I0). destruct bs0 as [|b bs']; [contradiction|].
      cbn [concat] in IH. destruct HI as [<-|[<-|[]]]; cbn [concat app]; rewrite <- IH; reflexivity.
Qed.

Corollary rekey_chain_safe_batchings (d : disk) v n batches sched :
  msorted kcmp d ->
  dfind (v, 1) d = Some (ENode n) ->
  dfind (v + 2, 1) d = Some (ERef (v, 1)) ->
  In batches (batchings (chain_ops v n)) ->
  nondecb sched = true -> (5 <= length sched)%nat ->
  run_reader d batches (read_version (v + 2)) sched = Done (RNode (v, 1) n) \/
  run_reader d batches (read_version (v + 2)) sched = Done (RNode (v, 0) n).
Proof.
  intros S Hn Hr HI. apply rekey_chain_safe; try assumption. apply batchings_concat, HI.
Qed.

(** ** The writer's operation sequences are what deleteVersion computes *)
Lemma delete_root_ops_rekey (d : disk) v n :
  dfind (v, 1) d = Some (ENode n) ->
  dfind (v + 1, 1) d = Some (ERef (v, 1)) ->
  delete_root_ops d v = Some (rekey_ops v n).
Proof.
  intros Hn Hr. unfold delete_root_ops, get_root_reader, get_node_reader.
  cbn [run_seq]. rewrite Hn. cbn [run_seq]. rewrite keqb_refl.
  rewrite Hr. cbn [run_seq fst snd]. rewrite Hn. cbn [run_seq]. rewrite keqb_refl.
  cbn [run_seq]. rewrite Hn. cbn [run_seq make_node app]. reflexivity.
Qed.

(** the second deletion of the chain, before or after the first one reached the disk *)
Lemma delete_root_ops_chain_second (d : disk) v n j :
  msorted kcmp d ->
  dfind (v, 1) d = Some (ENode n) ->
  dfind (v + 1, 1) d = Some (ERef (v, 1)) ->
  dfind (v + 2, 1) d = Some (ERef (v, 1)) ->
  delete_root_ops (ops_at d (rekey_ops v n) j) (v + 1) = Some [del_node (v + 1, 1)].
Proof.
  intros S Hn Hr1 Hr2.
  assert (HO1 : handoff (ops_at d (rekey_ops v n)) (v + 1) v n)
    by (apply rekey_ops_handoff; assumption).
  assert (HO2 : handoff (ops_at d (rekey_ops v n)) (v + 2) v n)
    by (apply rekey_ops_handoff; assumption).
  destruct HO1 as [A1 B]. destruct HO2 as [A2 _].
  unfold delete_root_ops, get_root_reader.
  replace (v + 1 + 1) with (v + 2) by lia.
  cbn [run_seq]. rewrite A1, A2. cbn [run_seq fst snd].
  destruct (B j) as [P|[P Q]]; rewrite P; cbn [run_seq].
  - rewrite !keqb_ver by lia. reflexivity.
  - rewrite (Q j (Nat.le_refl j)). cbn [run_seq]. rewrite !keqb_ver by lia. reflexivity.
Qed.

(** ** Theorem 2: the two seeded defects *)

(** the reader probes (v,0) before the batch is written and (v,1) after: neither is found,
    "version does not exist" for the retained version 2 *)
Theorem swapped_probes_refuted :
  exists sched,
    nondecb sched = true /\
    run_reader ex_disk (code_one_batch 1 ex_node) (read_version_swapped 2) sched
      = Done RErrNoVersion /\
    run_reader ex_disk (code_flushed 1 ex_node) (read_version_swapped 2) sched
      = Done RErrNoVersion.
Proof. exists [0; 0; 2; 2; 2]%nat. vm_compute. repeat split. Qed.

(** the writer deletes (v,1), the batch is flushed, then it writes (v,0): a reader of the code
    in between finds neither *)
Theorem swapped_writes_refuted :
  exists sched,
    nondecb sched = true /\
    run_reader ex_disk (swapped_flushed 1 ex_node) (read_version 2) sched = Done RErrNoVersion.
Proof. exists [0; 1; 1; 1; 1]%nat. vm_compute. repeat split. Qed.

(** GetNode alone against the swapped writes (its two probes in one critical section) *)
Theorem swapped_writes_getnode_refuted :
  run_reader ex_disk (swapped_flushed 1 ex_node) (get_node_reader (1, 1)) [1; 1]%nat
    = Done (RErrMissing (1, 1)).
Proof. vm_compute. reflexivity. Qed.

(** monotonicity of the schedule is what the proof uses: a time-travelling reader fails *)
Theorem decreasing_schedule_fails :
  run_prog (disk_at ex_disk (code_one_batch 1 ex_node)) (read_version 2) [0; 1; 0; 0; 0]%nat
    = Done RErrNoVersion.
Proof. vm_compute. reflexivity. Qed.

(** the two defects on ANY disk of the hand-off shape whose key (v,0) is free *)
Theorem swapped_probes_fail_gen (d : disk) v n :
  msorted kcmp d ->
  dfind (v, 1) d = Some (ENode n) ->
  dfind (v, 0) d = None ->
  dfind (v + 1, 1) d = Some (ERef (v, 1)) ->
  run_reader d (code_one_batch v n) (read_version_swapped (v + 1)) [0; 0; 1; 1; 1]%nat
    = Done RErrNoVersion.
Proof.
  intros S Hn H0 Hr. unfold run_reader. cbn [nondecb Nat.leb andb].
  unfold read_version_swapped, root_then_node, get_root_reader_swapped, code_one_batch, rekey_ops.
  cbn [bind run_prog disk_at apply_batch fold_left]. rewrite Hr.
  cbn [bind run_prog fst snd]. rewrite H0. cbn [bind run_prog].
  rewrite ?apply_nop_set, ?apply_nop_del. fnd. reflexivity.
Qed.

Theorem swapped_writes_fail_gen (d : disk) v n :
  msorted kcmp d ->
  dfind (v, 1) d = Some (ENode n) ->
  dfind (v, 0) d = None ->
  dfind (v + 1, 1) d = Some (ERef (v, 1)) ->
  run_reader d (swapped_flushed v n) (read_version (v + 1)) [0; 1; 1; 1; 1]%nat
    = Done RErrNoVersion.
Proof.
  intros S Hn H0 Hr. unfold run_reader. cbn [nondecb Nat.leb andb].
  unfold read_version, root_then_node, get_root_reader, swapped_flushed.
  cbn [bind run_prog disk_at apply_batch fold_left]. rewrite Hr.
  cbn [bind run_prog fst snd]. rewrite ?apply_nop_set, ?apply_nop_del. fnd.
  cbn [bind run_prog]. fnd. rewrite H0. reflexivity.
Qed.

(** ** Exhaustive checks on the small instance (versions 1, 2, 3; all schedules of 5 probes) *)

Lemma is_ex_node_good o : is_ex_node o = true -> good 1 ex_node o.
Proof.
  unfold is_ex_node, good. destruct o as [[[a b] [k w|]| | | |]| |]; try discriminate.
  intros E. repeat (apply andb_true_iff in E; destruct E as [E ?]).
  apply beq_true in E. subst.
  match goal with H : beq w _ = true |- _ => apply beq_true in H; subst end.
  match goal with H : (fst _ =? 1) = true |- _ => cbn [fst] in H; apply Z.eqb_eq in H; subst end.
  match goal with H : _ || _ = true |- _ => cbn [snd] in H; apply orb_true_iff in H;
    destruct H as [H|H]; apply Z.eqb_eq in H; subst end; [left|right]; reflexivity.
Qed.

Lemma all_scheds_complete nb : forall len lo s,
  length s = len -> nondecb s = true ->
  (forall a, In a s -> (lo <= a <= nb)%nat) ->
  In s (scheds_from lo nb len).
Proof.
  induction len as [|len IH]; intros lo s L ND B.
  - destruct s; [left; reflexivity|discriminate].
  - destruct s as [|a s]; [discriminate|]. cbn [scheds_from].
    apply in_flat_map. exists a. split.
    + apply in_seq. specialize (B a (or_introl eq_refl)). lia.
    + apply in_map. apply IH.
      * cbn [length] in L. lia.
      * destruct s as [|b s]; [reflexivity|]. apply nondecb_cons in ND. apply ND.
      * intros x Hx. split; [|apply B; right; exact Hx].
        clear IH L. revert a ND B Hx. induction s as [|b s IHs]; intros a ND B Hx; [contradiction|].
        apply nondecb_cons in ND. destruct ND as [Lab ND].
        destruct Hx as [<-|Hx]; [exact Lab|].
        apply Nat.le_trans with b; [exact Lab|].
        apply IHs; [exact ND| |exact Hx]. intros y Hy. apply B. right. exact Hy.
Qed.

(** the code's order, both batchings, readers of version 2: all 21 + 6 schedules are safe *)
Example handoff_exhaustive_check :
  forallb (fun s => is_ex_node (run_reader ex_disk (code_flushed 1 ex_node) (read_version 2) s))
    (all_scheds 2 5) &&
  forallb (fun s => is_ex_node (run_reader ex_disk (code_one_batch 1 ex_node) (read_version 2) s))
    (all_scheds 1 5) = true.
Proof. vm_compute. reflexivity. Qed.

Theorem handoff_exhaustive s :
  length s = 5%nat -> nondecb s = true -> (forall a, In a s -> (a <= 2)%nat) ->
  good 1 ex_node (run_reader ex_disk (code_flushed 1 ex_node) (read_version 2) s).
Proof.
  intros L ND B. apply is_ex_node_good.
  pose proof handoff_exhaustive_check as E. apply andb_true_iff in E. destruct E as [E _].
  rewrite forallb_forall in E. apply E. apply all_scheds_complete; try assumption.
  intros a Ha. specialize (B a Ha). lia.
Qed.

(** the chain: deletions of 1 then 2, every cut of the three operations into batches, readers
    of version 3, every schedule *)
Example chain_exhaustive_check :
  forallb (fun bs =>
    forallb (fun s => is_ex_node (run_reader ex_disk bs (read_version 3) s))
      (all_scheds (length bs) 5))
    (batchings (chain_ops 1 ex_node)) = true.
Proof. vm_compute. reflexivity. Qed.

Example chain_batchings_count : length (batchings (chain_ops 1 ex_node)) = 4%nat.
Proof. vm_compute. reflexivity. Qed.

Example rekey_batchings :
  batchings (rekey_ops 1 ex_node) = [code_flushed 1 ex_node; code_one_batch 1 ex_node].
Proof. vm_compute. reflexivity. Qed.

(** the seeded reader: exactly the schedules whose probe of (v,0) precedes the write of (v,0)
    and whose probe of (v,1) follows the deletion of (v,1) fail (1 of 21, 1 of 6); all others
    deliver the node *)
Example swapped_probes_failures :
  filter (fun s => negb (is_ex_node
            (run_reader ex_disk (code_flushed 1 ex_node) (read_version_swapped 2) s)))
    (all_scheds 2 5)
  = [[0; 0; 2; 2; 2]]%nat /\
  filter (fun s => negb (is_ex_node
            (run_reader ex_disk (code_one_batch 1 ex_node) (read_version_swapped 2) s)))
    (all_scheds 1 5)
  = [[0; 0; 1; 1; 1]]%nat.
Proof. vm_compute. split; reflexivity. Qed.

(** the swapped writes: the failing schedules of the code's reader (8 of 21): every reader with
    a fall-back pair, or GetNode as a whole, inside the window between the two batches *)
Example swapped_writes_failures :
  filter (fun s => negb (is_ex_node
            (run_reader ex_disk (swapped_flushed 1 ex_node) (read_version 2) s)))
    (all_scheds 2 5)
  = [[0; 0; 1; 1; 1]; [0; 0; 1; 1; 2]; [0; 1; 1; 1; 1]; [0; 1; 1; 1; 2]; [0; 1; 1; 2; 2];
     [1; 1; 1; 1; 1]; [1; 1; 1; 1; 2]; [1; 1; 1; 2; 2]]%nat.
Proof. vm_compute. reflexivity. Qed.

(** the swapped writes in ONE batch are harmless (the defect needs the flush in between) *)
Example swapped_writes_one_batch_safe :
  forallb (fun s => is_ex_node
            (run_reader ex_disk [rekey_ops_swapped 1 ex_node] (read_version 2) s))
    (all_scheds 1 5) = true.
Proof. vm_compute. reflexivity. Qed.

(** the writer model reproduces the operation sequences on the instance *)
Example delete_root_ops_ex :
  delete_root_ops ex_disk 1 = Some (rekey_ops 1 ex_node) /\
  delete_root_ops (apply_batch ex_disk (rekey_ops 1 ex_node)) 2 = Some [del_node (2, 1)] /\
  delete_root_ops ex_disk 2 = Some [del_node (2, 1)].
Proof. vm_compute. repeat split. Qed.

(** the hypotheses of the general theorems hold on the instance *)
Lemma ex_disk_sorted : msorted kcmp ex_disk.
Proof. cbn. repeat split; repeat constructor. Qed.

Example rekey_handoff_safe_ex :
  good 1 ex_node
    (run_reader ex_disk (code_flushed 1 ex_node) (read_version (1 + 1)) [0; 1; 1; 2; 2]%nat).
Proof.
  apply rekey_handoff_safe; try reflexivity; try exact ex_disk_sorted; try (right; reflexivity); cbn; lia.
Qed.

Example rekey_chain_safe_ex :
  good 1 ex_node
    (run_reader ex_disk [[set_node ((1, 0), ENode ex_node)]; [del_node (1, 1); del_node (1 + 1, 1)]]
       (read_version (1 + 2)) [0; 1; 1; 2; 2]%nat).
Proof.
  apply rekey_chain_safe; try reflexivity; try exact ex_disk_sorted; cbn; lia.
Qed.

Print Assumptions handoff_safe_gen.
Print Assumptions rekey_handoff_safe.
Print Assumptions rekey_handoff_safe_batching.
Print Assumptions rekey_handoff_no_wrong_answer.
Print Assumptions rekey_chain_safe.
Print Assumptions rekey_chain_safe_batchings.
Print Assumptions swapped_probes_refuted.
Print Assumptions swapped_writes_refuted.
Print Assumptions swapped_probes_fail_gen.
Print Assumptions swapped_writes_fail_gen.
Print Assumptions handoff_exhaustive.
Print Assumptions delete_root_ops_chain_second.
