(** Proofs about the node cache model (NodeCache.v): the cache is transparent.

    Invariant chosen.  [coherent d b c]: every cached [(k, v)] (membership in the list) whose key
    reads a NODE record, with the [(w,1) -> (w,0)] fall-back, in [dapply_all d b] - the disk ONCE THE
    PENDING BATCH IS WRITTEN - reads the value [v] there.  Cached entries whose key holds a root
    record (SaveRoot / SaveEmptyRoot) or nothing are stale and unconstrained.  [cinv st] adds that the disk is sorted
    ([mdel] stops at the first greater key) and that the cached keys are pairwise distinct (the
    [dict] of cache.go).  A committed or uncommitted write changes the virtual disk at the moment it
    enters the batch, so [Commit] / a flush preserves [coherent] trivially and every write has to
    re-establish it on its own: [SaveNode] does so by REPLACING the cached value.

    Results: [lru_add_get], [lru_get_spec], [lru_length_le_cap], [lru_nodup_keys] (the LRU list is
    a partial map of at most [cap] distinct keys); [coherent_step] (every step preserves [cinv], for
    every capacity, under [step_ok]); [cache_transparent] and its corollaries
    [cache_transparent_read], [cache_transparent_exact], [cache_size_irrelevant(_exact)] (under the
    executable condition [drun_ok] on the CACHE-FREE run); [get_node_absent] and
    [stale_read_possible] (a key the disk does not hold is answered from the cache alone);
    [recommit_reads_new] / [rollback_recommit] (reused keys read the new node, from any state);
    [coherentb_spec]; the refutations of the two seeded variants of SaveNode and of each side
    condition dropped; examples for capacities 0, 1, 2, 100.

    Side conditions found necessary (each has a refutation at the end of the file):
    - [CGet k]: the pending batch does not change the node [k] reads ([GetNode] does not see the
      batch); [drun_ok] also demands that the record read is not a root record (the proofs do not
      use it: it makes the model's answer for that read - an error - irrelevant);
    - [CSave k v]: [snd k <> 0] (a save under [(w,0)] changes what a stale cached [(w,1)] falls
      back to);
    - [CRekey w]: as [CGet (w,1)], and no cached copy under [(w,0)] other than the node read
      ([saveNodeFromPruning] does not touch the cache);
    - [CSaveRoot k r]: [r] is not a node record;
    - [CDel (w,1)]: not both [(w,1)] and a node [(w,0)] stored with different values. *)
From Coq Require Import Lia.
From IAVL Require Import Bytes Varint Tree VMap TreeFacts MTree MTreeFacts HashFacts VersionFacts Store StoreFacts NodeCache.
Local Open Scope Z_scope.

(** ** Keys *)
Lemma keqb_refl k : keqb k k = true.
Proof. apply keqb_true. reflexivity. Qed.

Lemma kcmp_keqb {A : Type} (k k' : Z * Z) (x y : A) :
  match kcmp k k' with Eq => x | _ => y end = if keqb k k' then x else y.
Proof.
  destruct (keqb k k') eqn:F.
  - apply keqb_true in F. subst k'. rewrite (proj2 (kcmp_Eq k k) eq_refl). reflexivity.
  - apply keqb_false in F. destruct (kcmp k k') eqn:E; try reflexivity.
    apply kcmp_Eq in E. contradiction.
Qed.

Lemma removelast_cons2 {A : Type} (a b : A) l : removelast (a :: b :: l) = a :: removelast (b :: l).
Proof. reflexivity. Qed.

Lemma In_removelast {A : Type} (x : A) l : In x (removelast l) -> In x l.
Proof.
  induction l as [|a [|b r] IH]; intros HI.
  - exact HI.
  - destruct HI.
  - rewrite removelast_cons2 in HI. destruct HI as [E|HI]; [left; exact E|right; exact (IH HI)].
Qed.

Lemma removelast_length {A : Type} (l : list A) : length (removelast l) = pred (length l).
Proof.
  induction l as [|a [|b r] IH]; try reflexivity.
  rewrite removelast_cons2. cbn [length] in *. rewrite IH. reflexivity.
Qed.

Lemma NoDup_removelast {A : Type} (l : list A) : NoDup l -> NoDup (removelast l).
Proof.
  induction l as [|a [|b r] IH]; intros ND.
  - exact ND.
  - constructor.
  - rewrite removelast_cons2. inversion ND as [|x xs N1 N2]; subst. constructor.
    + intros HI. apply N1. apply In_removelast. exact HI.
    + apply IH, N2.
Qed.

Lemma map_removelast {A B : Type} (f : A -> B) l : map f (removelast l) = removelast (map f l).
Proof.
  induction l as [|a [|b r] IH]; try reflexivity.
  rewrite removelast_cons2. cbn [map] in *. rewrite IH. reflexivity.
Qed.

Section Facts.
  Variable V : Type.
  Variable is_node : V -> bool.
  Notation lru := (lru V).
  Notation cstate := (cstate V).
  Notation kv := ((Z * Z) * V)%type.
  Notation nget := (NodeCache.nget is_node).
  Notation get_node := (NodeCache.get_node is_node).
  Notation rekey := (NodeCache.rekey is_node).
  Notation cstep := (NodeCache.cstep is_node).
  Notation crun := (NodeCache.crun is_node).
  Notation dstep := (NodeCache.dstep is_node).
  Notation drun := (NodeCache.drun is_node).

  (** ** 1. The LRU list is a partial map of at most [cap] distinct keys *)
  Definition lru_wf (c : lru) : Prop := NoDup (map fst c).

  Lemma lru_find_In k v (c : lru) : lru_find k c = Some v -> In (k, v) c.
  Proof.
    induction c as [|[k1 v1] r IH]; cbn [lru_find]; [discriminate|].
    destruct (keqb k k1) eqn:E.
    - apply keqb_true in E. subst k1. intros Q. inversion Q; subst. left. reflexivity.
    - intros Q. right. exact (IH Q).
  Qed.

  Lemma lru_find_None k (c : lru) : lru_find k c = None <-> ~ In k (map fst c).
  Proof.
    induction c as [|[k1 v1] r IH]; cbn [lru_find map fst In]; [tauto|].
    destruct (keqb k k1) eqn:E.
    - apply keqb_true in E. subst k1. split; [discriminate|]. intros N. exfalso. apply N. left. reflexivity.
    - apply keqb_false in E. rewrite IH. split.
      + intros N [Q|Q]; [apply E; symmetry; exact Q|exact (N Q)].
      + intros N Q. apply N. right. exact Q.
  Qed.

  Lemma In_keys k v (c : lru) : In (k, v) c -> In k (map fst c).
  Proof. intros HI. apply in_map_iff. exists (k, v). split; [reflexivity|exact HI]. Qed.

  Lemma In_lru_find k v (c : lru) : lru_wf c -> In (k, v) c -> lru_find k c = Some v.
  Proof.
    unfold lru_wf. induction c as [|[k1 v1] r IH]; cbn [lru_find map fst In]; intros ND HI; [contradiction|].
    inversion ND as [|x xs N1 N2]; subst. destruct HI as [Q|HI].
    - inversion Q; subst. rewrite keqb_refl. reflexivity.
    - destruct (keqb k k1) eqn:E.
      + apply keqb_true in E. subst k1. exfalso. apply N1. exact (In_keys _ _ _ HI).
      + exact (IH N2 HI).
  Qed.

  Lemma In_lru_remove p k (c : lru) : In p (lru_remove k c) -> In p c.
  Proof.
    induction c as [|[k1 v1] r IH]; cbn [lru_remove]; [tauto|].
    destruct (keqb k k1); cbn [In]; [tauto|]. intros [Q|Q]; [left; exact Q|right; exact (IH Q)].
  Qed.

  Lemma In_lru_remove_other p k (c : lru) : fst p <> k -> In p c -> In p (lru_remove k c).
  Proof.
    intros N. induction c as [|[k1 v1] r IH]; cbn [lru_remove In]; [tauto|].
    destruct (keqb k k1) eqn:E.
    - apply keqb_true in E. subst k1. intros [Q|Q]; [subst p; exfalso; apply N; reflexivity|exact Q].
    - cbn [In]. intros [Q|Q]; [left; exact Q|right; exact (IH Q)].
  Qed.

  Lemma lru_remove_keys_sub x k (c : lru) : In x (map fst (lru_remove k c)) -> In x (map fst c).
  Proof.
    intros HI. apply in_map_iff in HI. destruct HI as [p [E HI]]. apply in_map_iff. exists p.
    split; [exact E|exact (In_lru_remove _ _ _ HI)].
  Qed.

  Lemma lru_remove_wf k (c : lru) : lru_wf c -> lru_wf (lru_remove k c).
  Proof.
    unfold lru_wf. induction c as [|[k1 v1] r IH]; cbn [lru_remove map fst]; intros ND; [exact ND|].
    inversion ND as [|x xs N1 N2]; subst. destruct (keqb k k1); [exact N2|].
    cbn [map fst]. constructor; [|exact (IH N2)]. intros HI. apply N1. exact (lru_remove_keys_sub _ _ _ HI).
  Qed.

  Lemma lru_remove_key_gone k (c : lru) : lru_wf c -> ~ In k (map fst (lru_remove k c)).
  Proof.
    unfold lru_wf. induction c as [|[k1 v1] r IH]; cbn [lru_remove map fst]; intros ND; [tauto|].
    inversion ND as [|x xs N1 N2]; subst. destruct (keqb k k1) eqn:E.
    - apply keqb_true in E. subst k1. exact N1.
    - apply keqb_false in E. cbn [map fst In]. intros [Q|Q]; [apply E; symmetry; exact Q|exact (IH N2 Q)].
  Qed.

  Lemma lru_remove_length k v (c : lru) :
    lru_find k c = Some v -> S (length (lru_remove k c)) = length c.
  Proof.
    induction c as [|[k1 v1] r IH]; cbn [lru_find lru_remove]; [discriminate|].
    destruct (keqb k k1); intros Q; cbn [length]; [reflexivity|]. rewrite (IH Q). reflexivity.
  Qed.

  Lemma lru_remove_absent k (c : lru) : lru_find k c = None -> lru_remove k c = c.
  Proof.
    induction c as [|[k1 v1] r IH]; cbn [lru_find lru_remove]; [reflexivity|].
    destruct (keqb k k1); [discriminate|]. intros Q. rewrite (IH Q). reflexivity.
  Qed.

  (** [get] *)
  Lemma lru_get_fst k (c : lru) : fst (lru_get k c) = lru_find k c.
  Proof. unfold lru_get. destruct (lru_find k c); reflexivity. Qed.

  (** [get] never invents a value, and only reorders the list *)
  Theorem lru_get_spec k (c : lru) :
    (forall v, fst (lru_get k c) = Some v -> In (k, v) c) /\
    (fst (lru_get k c) = None <-> ~ In k (map fst c)) /\
    (forall p, In p (snd (lru_get k c)) -> In p c) /\
    (lru_wf c -> forall p, In p c -> In p (snd (lru_get k c))) /\
    length (snd (lru_get k c)) = length c.
  Proof.
    rewrite lru_get_fst. split; [|split; [|split; [|split]]].
    - intros v. apply lru_find_In.
    - apply lru_find_None.
    - unfold lru_get. destruct (lru_find k c) as [v|] eqn:F; cbn [snd]; [|tauto].
      intros p [Q|Q]; [subst p; exact (lru_find_In _ _ _ F)|exact (In_lru_remove _ _ _ Q)].
    - intros W. unfold lru_get. destruct (lru_find k c) as [v|] eqn:F; cbn [snd]; [|tauto].
      intros [k2 v2] HI. destruct (keqb k2 k) eqn:E.
      + apply keqb_true in E. subst k2. rewrite (In_lru_find _ _ _ W HI) in F. inversion F; subst.
        left. reflexivity.
      + apply keqb_false in E. right. apply In_lru_remove_other; [exact E|exact HI].
    - unfold lru_get. destruct (lru_find k c) as [v|] eqn:F; cbn [snd length]; [|reflexivity].
      exact (lru_remove_length _ _ _ F).
  Qed.

  Lemma lru_get_In k (c : lru) p : In p (snd (lru_get k c)) -> In p c.
  Proof. apply (lru_get_spec k c). Qed.

  Lemma lru_get_wf k (c : lru) : lru_wf c -> lru_wf (snd (lru_get k c)).
  Proof.
    intros W. unfold lru_get. destruct (lru_find k c) as [v|] eqn:F; cbn [snd]; [|exact W].
    unfold lru_wf. cbn [map fst]. constructor; [exact (lru_remove_key_gone _ _ W)|exact (lru_remove_wf _ _ W)].
  Qed.

  (** [add] *)
  Lemma lru_add_In cap k v (c : lru) k2 v2 :
    lru_wf c -> In (k2, v2) (lru_add cap k v c) ->
    (k2 = k /\ v2 = v) \/ (k2 <> k /\ In (k2, v2) c).
  Proof.
    intros W. unfold lru_add, lru_has. destruct (lru_find k c) as [v0|] eqn:F.
    - intros [Q|Q]; [inversion Q; subst; left; split; reflexivity|]. right. split.
      + intros ->. exact (lru_remove_key_gone _ _ W (In_keys _ _ _ Q)).
      + exact (In_lru_remove _ _ _ Q).
    - intros HI.
      assert (HI' : In (k2, v2) ((k, v) :: c)).
      { destruct (Nat.ltb cap (length ((k, v) :: c))); [exact (In_removelast _ _ HI)|exact HI]. }
      destruct HI' as [Q|Q]; [inversion Q; subst; left; split; reflexivity|]. right. split; [|exact Q].
      intros ->. apply lru_find_None in F. exact (F (In_keys _ _ _ Q)).
  Qed.

  Theorem lru_nodup_keys cap k v (c : lru) :
    lru_wf c -> lru_wf (lru_add cap k v c) /\ lru_wf (snd (lru_get k c)) /\ lru_wf (lru_remove k c).
  Proof.
    intros W. split; [|split; [exact (lru_get_wf _ _ W)|exact (lru_remove_wf _ _ W)]].
    unfold lru_add, lru_has. destruct (lru_find k c) as [v0|] eqn:F.
    - unfold lru_wf. cbn [map fst]. constructor; [exact (lru_remove_key_gone _ _ W)|exact (lru_remove_wf _ _ W)].
    - assert (W' : lru_wf ((k, v) :: c)).
      { unfold lru_wf. cbn [map fst]. constructor; [apply lru_find_None, F|exact W]. }
      destruct (Nat.ltb cap (length ((k, v) :: c))); [|exact W'].
      unfold lru_wf. rewrite map_removelast. apply NoDup_removelast. exact W'.
  Qed.

  Lemma lru_add_wf cap k v (c : lru) : lru_wf c -> lru_wf (lru_add cap k v c).
  Proof. intros W. apply (lru_nodup_keys cap k v c W). Qed.

  Theorem lru_length_le_cap cap k v (c : lru) :
    (length c <= cap)%nat ->
    (length (lru_add cap k v c) <= cap)%nat /\ (length (snd (lru_get k c)) <= cap)%nat /\
    (length (lru_remove k c) <= cap)%nat.
  Proof.
    intros L. split; [|split].
    - unfold lru_add, lru_has. destruct (lru_find k c) as [v0|] eqn:F.
      + cbn [length]. rewrite (lru_remove_length _ _ _ F). exact L.
      + destruct (Nat.ltb cap (length ((k, v) :: c))) eqn:E.
        * rewrite removelast_length. cbn [length pred]. exact L.
        * apply Nat.ltb_ge in E. exact E.
    - destruct (lru_get_spec k c) as [_ [_ [_ [_ E]]]]. rewrite E. exact L.
    - destruct (lru_find k c) as [v0|] eqn:F.
      + pose proof (lru_remove_length _ _ _ F). lia.
      + rewrite (lru_remove_absent _ _ F). exact L.
  Qed.

  (** [add] then [get] returns the added value (a cache of capacity 0 keeps nothing) *)
  Theorem lru_add_get cap k v (c : lru) :
    (0 < cap)%nat -> fst (lru_get k (lru_add cap k v c)) = Some v.
  Proof.
    intros P. rewrite lru_get_fst. unfold lru_add, lru_has. destruct (lru_find k c) as [v0|] eqn:F.
    - cbn [lru_find]. rewrite keqb_refl. reflexivity.
    - destruct (Nat.ltb cap (length ((k, v) :: c))) eqn:E.
      + apply Nat.ltb_lt in E. cbn [length] in E. destruct c as [|p r]; [cbn [length] in E; lia|].
        rewrite removelast_cons2. cbn [lru_find]. rewrite keqb_refl. reflexivity.
      + cbn [lru_find]. rewrite keqb_refl. reflexivity.
  Qed.

  Lemma lru_add_get_cap0 k v : lru_add 0 k v ([] : lru) = [].
  Proof. reflexivity. Qed.

  (** a key other than the one added keeps its value or is evicted *)
  Lemma lru_add_find_other cap k v (c : lru) k2 :
    lru_wf c -> k2 <> k ->
    lru_find k2 (lru_add cap k v c) = lru_find k2 c \/ lru_find k2 (lru_add cap k v c) = None.
  Proof.
    intros W N. destruct (lru_find k2 (lru_add cap k v c)) as [x|] eqn:F; [|right; reflexivity].
    left. apply lru_find_In in F. apply (lru_add_In _ _ _ _ _ _ W) in F. destruct F as [[Q _]|[_ HI]].
    - contradiction.
    - symmetry. exact (In_lru_find _ _ _ W HI).
  Qed.

  (** the key added has the added value or is absent (capacity 0) *)
  Lemma lru_add_find_same cap k v (c : lru) :
    lru_wf c -> lru_find k (lru_add cap k v c) = Some v \/ lru_find k (lru_add cap k v c) = None.
  Proof.
    intros W. destruct (lru_find k (lru_add cap k v c)) as [x|] eqn:F; [|right; reflexivity].
    left. apply lru_find_In in F. apply (lru_add_In _ _ _ _ _ _ W) in F. destruct F as [[_ Q]|[Q _]].
    - subst x. reflexivity.
    - exfalso. apply Q. reflexivity.
  Qed.

  (** ** The store *)
  Lemma dapply_all_snoc (d : list kv) b o : dapply_all d (b ++ [o]) = dapply (dapply_all d b) o.
  Proof. unfold dapply_all. rewrite fold_left_app. reflexivity. Qed.

  Lemma msorted_dapply (d : list kv) o : msorted kcmp d -> msorted kcmp (dapply d o).
  Proof.
    intros S. destruct o as [k v|k]; cbn [dapply].
    - exact (msorted_mset kcmp kcmp_ok _ _ _ S).
    - exact (msorted_mdel kcmp _ _ S).
  Qed.

  Lemma msorted_dapply_all b : forall (d : list kv), msorted kcmp d -> msorted kcmp (dapply_all d b).
  Proof.
    induction b as [|o r IH]; intros d S; [exact S|]. unfold dapply_all. cbn [fold_left].
    apply IH. exact (msorted_dapply _ _ S).
  Qed.

  Lemma mfind_mset_k k k' v (d : list kv) :
    mfind kcmp k (mset kcmp k' v d) = if keqb k k' then Some v else mfind kcmp k d.
  Proof. rewrite (mfind_mset kcmp kcmp_ok). apply kcmp_keqb. Qed.

  Lemma mfind_mdel_k k k' (d : list kv) :
    msorted kcmp d -> mfind kcmp k (mdel kcmp k' d) = if keqb k k' then None else mfind kcmp k d.
  Proof. intros S. rewrite (mfind_mdel kcmp kcmp_ok _ _ _ S). apply kcmp_keqb. Qed.

  Lemma keqb_neq a b : a <> b -> keqb a b = false.
  Proof. apply keqb_false. Qed.

  Lemma dget_mset_same k v (d : list kv) : dget (mset kcmp k v d) k = Some v.
  Proof. unfold dget. rewrite mfind_mset_k, keqb_refl. reflexivity. Qed.

  Lemma dget_mset_other k v (d : list kv) k2 :
    k2 <> k -> (snd k2 = 1 -> (fst k2, 0) <> k) -> dget (mset kcmp k v d) k2 = dget d k2.
  Proof.
    intros N1 N2. unfold dget. rewrite mfind_mset_k, (keqb_neq _ _ N1).
    destruct (mfind kcmp k2 d); [reflexivity|]. destruct (snd k2 =? 1) eqn:E; [|reflexivity].
    apply Z.eqb_eq in E. rewrite mfind_mset_k, (keqb_neq _ _ (N2 E)). reflexivity.
  Qed.

  Lemma dget_mdel_other k (d : list kv) k2 :
    msorted kcmp d -> k2 <> k -> (snd k2 = 1 -> (fst k2, 0) <> k) ->
    dget (mdel kcmp k d) k2 = dget d k2.
  Proof.
    intros S N1 N2. unfold dget. rewrite (mfind_mdel_k _ _ _ S), (keqb_neq _ _ N1).
    destruct (mfind kcmp k2 d); [reflexivity|]. destruct (snd k2 =? 1) eqn:E; [|reflexivity].
    apply Z.eqb_eq in E. rewrite (mfind_mdel_k _ _ _ S), (keqb_neq _ _ (N2 E)). reflexivity.
  Qed.

  (** deleting another key never makes a key readable with a new value *)
  Lemma dget_mdel_sub k (d : list kv) k2 v' :
    msorted kcmp d -> k2 <> k -> dget (mdel kcmp k d) k2 = Some v' -> dget d k2 = Some v'.
  Proof.
    intros S N1. unfold dget. rewrite !(mfind_mdel_k _ _ _ S), (keqb_neq _ _ N1).
    destruct (mfind kcmp k2 d) as [a|]; [tauto|]. destruct (snd k2 =? 1); [|tauto].
    destruct (keqb (fst k2, 0) k); [discriminate|tauto].
  Qed.

  Lemma nget_Some (d : list kv) k v : nget d k = Some v <-> dget d k = Some v /\ is_node v = true.
  Proof.
    unfold NodeCache.nget. destruct (dget d k) as [x|]; [|split; [discriminate|intros [Q _]; discriminate]].
    destruct (is_node x) eqn:E; split.
    - intros Q. inversion Q; subst. split; [reflexivity|exact E].
    - intros [Q _]. exact Q.
    - discriminate.
    - intros [Q N]. inversion Q; subst. congruence.
  Qed.

  Lemma nget_ext (d1 d2 : list kv) k : dget d1 k = dget d2 k -> nget d1 k = nget d2 k.
  Proof. intros E. unfold NodeCache.nget. rewrite E. reflexivity. Qed.

  (** ** 2. Coherence and its preservation *)
  Definition coherent (d : list kv) (b : list (cwop V)) (c : lru) : Prop :=
    forall k v, In (k, v) c -> forall v', nget (dapply_all d b) k = Some v' -> v' = v.

  Definition cinv (st : cstate) : Prop :=
    msorted kcmp (disk st) /\ lru_wf (cache st) /\ coherent (disk st) (batch st) (cache st).

  Lemma cinv_empty_cache (d : list kv) b : msorted kcmp d -> cinv (CState d b []).
  Proof.
    intros S. split; [exact S|]. split; [constructor|]. intros k v HI. destruct HI.
  Qed.

  (** GetNode *)
  Lemma get_node_forget cap k (st : cstate) : forget (snd (get_node cap k st)) = forget st.
  Proof.
    unfold NodeCache.get_node. destruct (lru_get k (cache st)) as [[v|] c']; [reflexivity|].
    destruct (nget (disk st) k); reflexivity.
  Qed.

  Lemma get_node_disk cap k (st : cstate) : disk (snd (get_node cap k st)) = disk st.
  Proof. exact (f_equal (@ddisk V) (get_node_forget cap k st)). Qed.

  Lemma get_node_batch cap k (st : cstate) : batch (snd (get_node cap k st)) = batch st.
  Proof. exact (f_equal (@dbatch V) (get_node_forget cap k st)). Qed.

  (** the answer of GetNode: the cached value if there is one, else what the disk reads *)
  Lemma get_node_fst cap k (st : cstate) :
    fst (get_node cap k st) =
      match lru_find k (cache st) with Some v => Some v | None => nget (disk st) k end.
  Proof.
    unfold NodeCache.get_node, lru_get. destruct (lru_find k (cache st)) as [v|]; [reflexivity|].
    destruct (nget (disk st) k); reflexivity.
  Qed.

  (** the cache after GetNode: the old entries, plus the answer under the requested key *)
  Lemma get_node_cache_In cap k (st : cstate) k2 v2 :
    lru_wf (cache st) -> In (k2, v2) (cache (snd (get_node cap k st))) ->
    In (k2, v2) (cache st) \/ (k2 = k /\ fst (get_node cap k st) = Some v2).
  Proof.
    intros W. rewrite get_node_fst. unfold NodeCache.get_node, lru_get.
    destruct (lru_find k (cache st)) as [v|] eqn:F; cbn [snd cache].
    - intros [Q|Q]; [inversion Q; subst; right; split; reflexivity|left; exact (In_lru_remove _ _ _ Q)].
    - destruct (nget (disk st) k) as [v|] eqn:G; cbn [snd cache]; [|tauto].
      intros HI. apply (lru_add_In _ _ _ _ _ _ W) in HI. destruct HI as [[-> ->]|[_ HI]].
      + right. split; reflexivity.
      + left. exact HI.
  Qed.

  Lemma get_node_cache_wf cap k (st : cstate) :
    lru_wf (cache st) -> lru_wf (cache (snd (get_node cap k st))).
  Proof.
    intros W. unfold NodeCache.get_node. pose proof (lru_get_wf k _ W) as W1.
    destruct (lru_get k (cache st)) as [[v|] c']; cbn [snd cache] in *; [exact W1|].
    destruct (nget (disk st) k) as [v|]; cbn [snd cache]; [exact (lru_add_wf _ _ _ _ W)|exact W].
  Qed.

  (** after GetNode answered [n], the cache holds nothing else under the requested key *)
  Lemma get_node_cached_after cap k (st : cstate) n v2 :
    lru_wf (cache st) -> fst (get_node cap k st) = Some n ->
    In (k, v2) (cache (snd (get_node cap k st))) -> v2 = n.
  Proof.
    intros W A HI. destruct (get_node_cache_In _ _ _ _ _ W HI) as [Q|[_ Q]].
    - rewrite get_node_fst, (In_lru_find _ _ _ W Q) in A. inversion A. reflexivity.
    - rewrite Q in A. inversion A. reflexivity.
  Qed.

  Lemma get_node_cinv cap k (st : cstate) :
    cinv st -> nget (disk st) k = nget (vdisk st) k -> cinv (snd (get_node cap k st)).
  Proof.
    intros [S [W C]] B. split; [rewrite get_node_disk; exact S|].
    split; [exact (get_node_cache_wf _ _ _ W)|].
    rewrite get_node_disk, get_node_batch. intros k2 v2 HI v' G.
    destruct (get_node_cache_In _ _ _ _ _ W HI) as [Q|[-> Q]].
    - exact (C _ _ Q _ G).
    - rewrite get_node_fst in Q. destruct (lru_find k (cache st)) as [x|] eqn:F.
      + inversion Q; subst. apply lru_find_In in F. exact (C _ _ F _ G).
      + unfold vdisk in B. rewrite B, G in Q. inversion Q. reflexivity.
  Qed.

  (** from a coherent state GetNode answers what the disk reads, when the disk reads something
      that the batch does not change *)
  Lemma get_node_transparent cap k (st : cstate) v :
    cinv st -> nget (disk st) k = nget (vdisk st) k -> nget (disk st) k = Some v ->
    fst (get_node cap k st) = Some v.
  Proof.
    intros [S [W C]] B G. rewrite get_node_fst. destruct (lru_find k (cache st)) as [x|] eqn:F; [|exact G].
    apply lru_find_In in F. rewrite B in G. rewrite (C _ _ F _ G). reflexivity.
  Qed.

  (** a key that the disk does not read is answered from the cache alone: possibly a stale value *)
  Lemma get_node_absent cap k (st : cstate) :
    nget (disk st) k = None -> fst (get_node cap k st) = lru_find k (cache st).
  Proof. intros G. rewrite get_node_fst, G. destruct (lru_find k (cache st)); reflexivity. Qed.

  (** the side conditions, per step *)
  Definition step_ok (cap : nat) (st : cstate) (o : cop V) : Prop :=
    match o with
    | CGet k => nget (disk st) k = nget (vdisk st) k
    | CSave k _ => snd k <> 0
    | CSaveRoot _ r => is_node r = false
    | CRekey w =>
        nget (disk st) (w, 1) = nget (vdisk st) (w, 1) /\
        forall x, In ((w, 0), x) (cache st) -> fst (get_node cap (w, 1) st) = Some x
    | CDel k =>
        snd k = 1 -> forall a b,
          mfind kcmp k (vdisk st) = Some a -> mfind kcmp (fst k, 0) (vdisk st) = Some b ->
          is_node b = true -> a = b
    | CCommit => True
    end.

  Lemma save_node_cinv cap k v (st : cstate) : cinv st -> snd k <> 0 -> cinv (save_node cap k v st).
  Proof.
    intros [S [W C]] N. split; [exact S|]. split; [exact (lru_add_wf _ _ _ _ W)|].
    unfold save_node. cbn [disk batch cache]. intros k2 v2 HI v' G.
    rewrite dapply_all_snoc in G. cbn [dapply] in G.
    apply (lru_add_In _ _ _ _ _ _ W) in HI. destruct HI as [[-> ->]|[N2 HI]].
    - apply nget_Some in G. destruct G as [G _]. rewrite dget_mset_same in G. inversion G. reflexivity.
    - apply (C _ _ HI v'). rewrite <- G. symmetry. apply nget_ext, dget_mset_other; [exact N2|].
      intros _ Q. apply N. rewrite <- Q. reflexivity.
  Qed.

  (** SaveRoot / SaveEmptyRoot: a root record makes cached entries stale, never wrong *)
  Lemma save_root_cinv k r (st : cstate) :
    cinv st -> is_node r = false -> cinv (save_from_pruning k r st).
  Proof.
    intros [S [W C]] NR. split; [exact S|]. split; [exact W|].
    unfold save_from_pruning. cbn [disk batch cache]. intros k2 v2 HI v' G.
    rewrite dapply_all_snoc in G. cbn [dapply] in G. apply nget_Some in G. destruct G as [G N'].
    apply (C _ _ HI v'). apply nget_Some. split; [|exact N']. revert G. unfold dget.
    rewrite !mfind_mset_k. destruct (keqb k2 k).
    { intros Q. inversion Q; subst. congruence. }
    destruct (mfind kcmp k2 (dapply_all (disk st) (batch st))) as [a|]; [tauto|].
    destruct (snd k2 =? 1); [|tauto]. destruct (keqb (fst k2, 0) k); [|tauto].
    intros Q. inversion Q; subst. congruence.
  Qed.

  Lemma delete_cinv k (st : cstate) :
    cinv st -> step_ok 0 st (CDel k) -> cinv (delete_from_pruning k st).
  Proof.
    intros [S [W C]] OK. split; [exact S|]. split; [exact W|].
    unfold delete_from_pruning. cbn [disk batch cache]. intros k2 v2 HI v' G.
    rewrite dapply_all_snoc in G. cbn [dapply] in G.
    pose proof (msorted_dapply_all (batch st) _ S) as SD. fold (vdisk st) in G, SD.
    specialize (C _ _ HI). fold (vdisk st) in C.
    apply nget_Some in G. destruct G as [G N']. apply C. apply nget_Some. split; [|exact N'].
    destruct (keqb k2 k) eqn:E.
    - apply keqb_true in E. subst k2. cbn [step_ok] in OK. unfold dget in G |- *.
      rewrite (mfind_mdel_k _ _ _ SD), keqb_refl in G.
      destruct (snd k =? 1) eqn:E1; [|discriminate]. apply Z.eqb_eq in E1.
      rewrite (mfind_mdel_k _ _ _ SD) in G.
      destruct (keqb (fst k, 0) k) eqn:E2; [discriminate|].
      destruct (mfind kcmp k (vdisk st)) as [a|] eqn:F.
      + rewrite (OK E1 a v' eq_refl G N'). reflexivity.
      + exact G.
    - apply keqb_false in E. exact (dget_mdel_sub _ _ _ _ SD E G).
  Qed.

  Lemma commit_cinv (st : cstate) : cinv st -> cinv (commit st).
  Proof.
    intros [S [W C]]. split; [exact (msorted_dapply_all _ _ S)|]. split; [exact W|]. exact C.
  Qed.

  Lemma rekey_cinv cap w (st : cstate) :
    cinv st -> step_ok cap st (CRekey w) -> cinv (snd (rekey cap w st)).
  Proof.
    intros I [B Z0]. pose proof (get_node_cinv cap (w, 1) st I B) as I1.
    destruct I as [S [W C]]. unfold NodeCache.rekey.
    pose proof (get_node_cached_after cap (w, 1) st) as After.
    pose proof (get_node_cache_In cap (w, 1) st) as CIn.
    destruct (get_node cap (w, 1) st) as [[n|] st1] eqn:GN; cbn [fst snd] in *; [|exact I1].
    destruct I1 as [S1 [W1 C1]]. split; [exact S1|]. split; [exact W1|].
    unfold delete_from_pruning, save_from_pruning. cbn [disk batch cache].
    intros k2 v2 HI v' G. rewrite !dapply_all_snoc in G. cbn [dapply] in G.
    apply nget_Some in G. destruct G as [G N'].
    pose proof (msorted_dapply_all (batch st1) _ S1) as SD.
    pose proof (msorted_mset kcmp kcmp_ok (w, 0) n _ SD) as SD2.
    destruct (keqb k2 (w, 1)) eqn:E1.
    { apply keqb_true in E1. subst k2. unfold dget in G. cbn [fst snd] in G.
      rewrite !(mfind_mdel_k _ _ _ SD2), keqb_refl in G. cbn [Z.eqb Pos.eqb] in G.
      rewrite (keqb_neq (w, 0) (w, 1)) in G by congruence.
      rewrite mfind_mset_k, keqb_refl in G. injection G as Gn. rewrite <- Gn.
      symmetry. exact (After n v2 W eq_refl HI). }
    apply keqb_false in E1.
    destruct (keqb k2 (w, 0)) eqn:E0.
    { apply keqb_true in E0. subst k2. unfold dget in G. cbn [fst snd] in G.
      rewrite !(mfind_mdel_k _ _ _ SD2), (keqb_neq (w, 0) (w, 1)) in G by congruence.
      rewrite mfind_mset_k, keqb_refl in G. injection G as Gn. rewrite <- Gn.
      destruct (CIn _ _ W HI) as [Q|[Q _]]; [|congruence].
      specialize (Z0 _ Q). injection Z0 as Z0. exact Z0. }
    apply keqb_false in E0.
    apply (C1 _ _ HI v'). apply nget_Some. split; [|exact N']. rewrite <- G. symmetry.
    rewrite dget_mdel_other; [|exact SD2|exact E1|intros _; congruence].
    apply dget_mset_other; [exact E0|].
    intros Q1 Q. apply E1. destruct k2 as [a b]. cbn [fst snd] in *. inversion Q. subst. reflexivity.
  Qed.

  (** every primitive step preserves the invariant, for every capacity *)
  Theorem coherent_step cap (st : cstate) o :
    cinv st -> step_ok cap st o -> cinv (snd (cstep cap st o)).
  Proof.
    intros I OK. destruct o as [k|k v|k r|w|k|]; unfold NodeCache.cstep; cbn [cstep_with].
    - pose proof (get_node_cinv cap k st I OK) as I1. destruct (get_node cap k st); exact I1.
    - exact (save_node_cinv cap k v st I OK).
    - exact (save_root_cinv k r st I OK).
    - exact (rekey_cinv cap w st I OK).
    - exact (delete_cinv k st I OK).
    - exact (commit_cinv st I).
  Qed.

  (** the distinctness of the cached keys needs no side condition *)
  Lemma cstep_wf cap (st : cstate) o : lru_wf (cache st) -> lru_wf (cache (snd (cstep cap st o))).
  Proof.
    intros W. destruct o as [k|k v|k r|w|k|]; unfold NodeCache.cstep; cbn [cstep_with].
    - pose proof (get_node_cache_wf cap k st W) as W1. destruct (get_node cap k st); exact W1.
    - exact (lru_add_wf _ _ _ _ W).
    - exact W.
    - unfold NodeCache.rekey. pose proof (get_node_cache_wf cap (w, 1) st W) as W1.
      destruct (get_node cap (w, 1) st) as [[n|] st1]; exact W1.
    - exact W.
    - exact W.
  Qed.

  Lemma cstep_length cap (st : cstate) o :
    (length (cache st) <= cap)%nat -> (length (cache (snd (cstep cap st o))) <= cap)%nat.
  Proof.
    intros L.
    assert (G : forall k, (length (cache (snd (get_node cap k st))) <= cap)%nat).
    { intros k. unfold NodeCache.get_node. pose proof (lru_length_le_cap cap k) as LL.
      destruct (lru_get k (cache st)) as [[v|] c'] eqn:E.
      - cbn [snd cache]. destruct (LL v _ L) as [_ [L2 _]]. rewrite E in L2. exact L2.
      - destruct (nget (disk st) k) as [v|]; cbn [snd cache]; [|exact L].
        exact (proj1 (LL v _ L)). }
    destruct o as [k|k v|k r|w|k|]; unfold NodeCache.cstep; cbn [cstep_with].
    - specialize (G k). destruct (get_node cap k st); exact G.
    - exact (proj1 (lru_length_le_cap cap k v _ L)).
    - exact L.
    - unfold NodeCache.rekey. specialize (G (w, 1)). destruct (get_node cap (w, 1) st) as [[n|] st1]; exact G.
    - exact L.
    - exact L.
  Qed.

  (** ** The runners *)
  Lemma crun_cons cap (st : cstate) o rest :
    crun cap st (o :: rest) =
      (fst (cstep cap st o) :: fst (crun cap (snd (cstep cap st o)) rest),
       snd (crun cap (snd (cstep cap st o)) rest)).
  Proof.
    unfold NodeCache.crun, NodeCache.cstep. cbn [crun_with].
    destruct (cstep_with is_node (save_node (V:=V)) cap st o) as [a st1].
    cbn [fst snd]. destruct (crun_with is_node (save_node (V:=V)) cap st1 rest) as [l st2]. reflexivity.
  Qed.

  Lemma drun_cons (d : dstate V) o rest :
    drun d (o :: rest) =
      (fst (dstep d o) :: fst (drun (snd (dstep d o)) rest), snd (drun (snd (dstep d o)) rest)).
  Proof.
    cbn [NodeCache.drun]. destruct (dstep d o) as [a d1]. cbn [fst snd].
    destruct (drun d1 rest) as [l d2]. reflexivity.
  Qed.

  Lemma crun_app cap a : forall (st : cstate) b,
    crun cap st (a ++ b) =
      (fst (crun cap st a) ++ fst (crun cap (snd (crun cap st a)) b),
       snd (crun cap (snd (crun cap st a)) b)).
  Proof.
    induction a as [|o r IH]; intros st b.
    - assert (E : crun cap st [] = ([], st)) by reflexivity. rewrite E. cbn [fst snd app].
      destruct (crun cap st b); reflexivity.
    - rewrite <- app_comm_cons, !crun_cons, IH. cbn [fst snd]. reflexivity.
  Qed.

  Lemma crun_wf cap ops : forall (st : cstate),
    lru_wf (cache st) -> lru_wf (cache (snd (crun cap st ops))).
  Proof.
    induction ops as [|o r IH]; intros st W; [exact W|]. rewrite crun_cons. cbn [snd].
    apply IH. exact (cstep_wf _ _ _ W).
  Qed.

  Lemma crun_length cap ops : forall (st : cstate),
    (length (cache st) <= cap)%nat -> (length (cache (snd (crun cap st ops))) <= cap)%nat.
  Proof.
    induction ops as [|o r IH]; intros st L; [exact L|]. rewrite crun_cons. cbn [snd].
    apply IH. exact (cstep_length _ _ _ L).
  Qed.

  (** ** 3. Transparency *)
  Variable eqV : V -> V -> bool.
  Hypothesis eqV_spec : forall a b, eqV a b = true <-> a = b.

  Lemma oeqb_true a b : oeqb eqV a b = true <-> a = b.
  Proof.
    destruct a as [x|], b as [y|]; cbn [oeqb]; try (split; [discriminate|congruence]).
    - rewrite eqV_spec. split; congruence.
    - tauto.
  Qed.

  (** every cached key [(w,0)] has been asked for *)
  Definition seen_inv (seen0 : list Z) (c : lru) : Prop :=
    forall k v, In (k, v) c -> snd k = 0 -> In (fst k) seen0.

  Lemma seen_inv_cached0 (c : lru) : seen_inv (cached0 c) c.
  Proof.
    intros k v HI E. unfold cached0. apply in_map_iff. exists (k, v). split; [reflexivity|].
    apply filter_In. split; [exact HI|]. cbn [fst snd]. apply Z.eqb_eq, E.
  Qed.

  (** what the cached run may answer where the cache-free run answers [d]: the same, except that
      a read that FAILS without the cache may succeed with it (a stale node) *)
  Definition out_refines (d c : cout V) : Prop :=
    match d with
    | OUnit => c = OUnit
    | OGot (Some v) => c = OGot (Some v)
    | OGot None => exists r, c = OGot r
    end.

  Lemma step_sim cap (st : cstate) seen0 o :
    cinv st -> seen_inv seen0 (cache st) -> dstep_ok eqV is_node seen0 (forget st) o = true ->
    step_ok cap st o /\
    forget (snd (cstep cap st o)) = snd (dstep (forget st) o) /\
    out_refines (fst (dstep (forget st) o)) (fst (cstep cap st o)) /\
    seen_inv (seen0_step seen0 o) (cache (snd (cstep cap st o))).
  Proof.
    intros I SI OK. pose proof I as [S [W C]].
    destruct o as [k|k v|k r|w|k|]; unfold NodeCache.cstep;
      cbn [cstep_with NodeCache.dstep dstep_ok seen0_step step_ok] in *.
    - (* CGet *)
      apply andb_true_iff in OK. destruct OK as [OK _].
      unfold batch_free in OK. apply oeqb_true in OK. cbn [forget ddisk] in *.
      change (dvdisk (forget st)) with (vdisk st) in OK.
      split; [exact OK|].
      pose proof (get_node_forget cap k st) as F. pose proof (get_node_transparent cap k st) as T.
      pose proof (get_node_cache_In cap k st) as CIn.
      destruct (get_node cap k st) as [r st1]. cbn [fst snd] in *.
      split; [exact F|]. split.
      + destruct (nget (disk st) k) as [v|] eqn:G; cbn [out_refines].
        * rewrite (T v I OK eq_refl). reflexivity.
        * exists r. reflexivity.
      + intros k2 v2 HI E. destruct (CIn _ _ W HI) as [Q|[-> _]].
        * specialize (SI _ _ Q E). destruct (snd k =? 0); [right; exact SI|exact SI].
        * rewrite E. cbn [Z.eqb]. left. reflexivity.
    - (* CSave *)
      apply negb_true_iff, Z.eqb_neq in OK. split; [exact OK|]. split; [reflexivity|].
      split; [reflexivity|]. cbn [snd save_node cache]. intros k2 v2 HI E.
      apply (lru_add_In _ _ _ _ _ _ W) in HI. destruct HI as [[-> _]|[_ HI]]; [contradiction|].
      exact (SI _ _ HI E).
    - (* CSaveRoot *)
      apply negb_true_iff in OK. split; [exact OK|]. split; [reflexivity|].
      split; [reflexivity|exact SI].
    - (* CRekey *)
      apply andb_true_iff in OK. destruct OK as [OK NS]. apply andb_true_iff in OK.
      destruct OK as [B R]. unfold batch_free in B. apply oeqb_true in B. cbn [forget ddisk] in *.
      change (dvdisk (forget st)) with (vdisk st) in B.
      destruct (nget (disk st) (w, 1)) as [n|] eqn:G; [clear R|discriminate].
      assert (NI : forall x, ~ In ((w, 0), x) (cache st)).
      { intros x HI. specialize (SI _ _ HI eq_refl). cbn [fst] in SI.
        apply negb_true_iff in NS. assert (X : existsb (Z.eqb w) seen0 = true).
        { apply existsb_exists. exists w. split; [exact SI|apply Z.eqb_refl]. }
        congruence. }
      split; [split; [congruence|intros x HI; exfalso; exact (NI x HI)]|].
      pose proof (get_node_forget cap (w, 1) st) as F.
      assert (T : fst (get_node cap (w, 1) st) = Some n).
      { apply get_node_transparent; [exact I|congruence|exact G]. }
      pose proof (get_node_cache_In cap (w, 1) st) as CIn.
      unfold NodeCache.rekey. destruct (get_node cap (w, 1) st) as [r st1]. cbn [fst snd] in *. subst r.
      cbn [fst snd]. split; [|split; [reflexivity|]].
      + unfold forget, delete_from_pruning, save_from_pruning. cbn [disk batch].
        unfold forget in F. injection F as F1 F2. rewrite F1, F2. reflexivity.
      + unfold delete_from_pruning, save_from_pruning. cbn [cache]. intros k2 v2 HI E.
        destruct (CIn _ _ W HI) as [Q|[-> _]]; [exact (SI _ _ Q E)|discriminate].
    - (* CDel *)
      split; [|split; [reflexivity|split; [reflexivity|exact SI]]].
      intros E1 a b Fa Fb Nb. cbn [forget] in OK.
      change (dvdisk (forget st)) with (vdisk st) in OK.
      rewrite (proj2 (Z.eqb_eq _ _) E1), Fa, Fb, Nb in OK. cbn [negb] in OK.
      rewrite orb_false_r in OK. apply eqV_spec, OK.
    - (* CCommit *)
      split; [exact Logic.I|]. split; [reflexivity|]. split; [reflexivity|exact SI].
  Qed.

  (** Main theorem.  For every capacity, every operation list whose CACHE-FREE run meets the
      executable side condition [drun_ok], from every coherent state (in particular from an empty
      cache): store and batch evolve exactly as without a cache, every read that succeeds without
      the cache gives the same node with it, and the final state is coherent again. *)
  Theorem cache_transparent cap ops : forall (st : cstate) seen0,
    cinv st -> seen_inv seen0 (cache st) -> drun_ok eqV is_node seen0 (forget st) ops = true ->
    forget (snd (crun cap st ops)) = snd (drun (forget st) ops) /\
    Forall2 out_refines (fst (drun (forget st) ops)) (fst (crun cap st ops)) /\
    cinv (snd (crun cap st ops)).
  Proof.
    induction ops as [|o r IH]; intros st seen0 I SI OK.
    - split; [reflexivity|]. split; [constructor|exact I].
    - cbn [drun_ok] in OK. apply andb_true_iff in OK. destruct OK as [OK1 OK2].
      destruct (step_sim cap st seen0 o I SI OK1) as [SO [F [R SI']]].
      pose proof (coherent_step cap st o I SO) as I'.
      rewrite <- F in OK2. destruct (IH _ _ I' SI' OK2) as [F2 [R2 I2]].
      rewrite crun_cons, drun_cons. cbn [fst snd]. rewrite <- F.
      split; [exact F2|]. split; [|exact I2]. constructor; [exact R|exact R2].
  Qed.

  Lemma Forall2_nth {A B : Type} (P : A -> B -> Prop) l1 : forall l2 i a,
    Forall2 P l1 l2 -> nth_error l1 i = Some a -> exists b, nth_error l2 i = Some b /\ P a b.
  Proof.
    induction l1 as [|x r IH]; intros l2 i a F E.
    - destruct i; discriminate.
    - inversion F as [|x' y r' r2 Pxy F']; subst. destruct i as [|i]; cbn [nth_error] in *.
      + inversion E; subst. exists y. split; [reflexivity|exact Pxy].
      + exact (IH _ _ _ F' E).
  Qed.

  (** the final disks are equal *)
  Corollary cache_transparent_disk cap ops (st : cstate) seen0 :
    cinv st -> seen_inv seen0 (cache st) -> drun_ok eqV is_node seen0 (forget st) ops = true ->
    disk (snd (crun cap st ops)) = ddisk (snd (drun (forget st) ops)) /\
    batch (snd (crun cap st ops)) = dbatch (snd (drun (forget st) ops)).
  Proof.
    intros I SI OK. destruct (cache_transparent cap ops st seen0 I SI OK) as [F _].
    rewrite <- F. split; reflexivity.
  Qed.

  (** the [i]-th operation is a read answered [Some v] without the cache: same answer with it *)
  Corollary cache_transparent_read cap ops (st : cstate) seen0 i v :
    cinv st -> seen_inv seen0 (cache st) -> drun_ok eqV is_node seen0 (forget st) ops = true ->
    nth_error (fst (drun (forget st) ops)) i = Some (OGot (Some v)) ->
    nth_error (fst (crun cap st ops)) i = Some (OGot (Some v)).
  Proof.
    intros I SI OK E. destruct (cache_transparent cap ops st seen0 I SI OK) as [_ [R _]].
    destruct (Forall2_nth _ _ _ _ _ R E) as [b [Eb Pb]]. cbn [out_refines] in Pb. subst b. exact Eb.
  Qed.

  (** when every read of the cache-free run succeeds, the answers are identical *)
  Definition all_found (l : list (cout V)) : Prop := Forall (fun a => a <> OGot None) l.

  Corollary cache_transparent_exact cap ops (st : cstate) seen0 :
    cinv st -> seen_inv seen0 (cache st) -> drun_ok eqV is_node seen0 (forget st) ops = true ->
    all_found (fst (drun (forget st) ops)) ->
    fst (crun cap st ops) = fst (drun (forget st) ops).
  Proof.
    intros I SI OK AF. destruct (cache_transparent cap ops st seen0 I SI OK) as [_ [R _]].
    revert AF. induction R as [|a b l1 l2 P R IH]; intros AF; [reflexivity|].
    inversion AF as [|x xs A1 A2]; subst. rewrite (IH A2). f_equal.
    destruct a as [|[v|]]; cbn [out_refines] in P; [exact P|exact P|]. exfalso. apply A1. reflexivity.
  Qed.

  (** from an empty cache, whatever is on the (sorted) disk and in the batch *)
  Corollary cache_transparent_empty cap ops (d : list kv) b :
    msorted kcmp d -> drun_ok eqV is_node [] (DState d b) ops = true ->
    forget (snd (crun cap (CState d b []) ops)) = snd (drun (DState d b) ops) /\
    Forall2 out_refines (fst (drun (DState d b) ops)) (fst (crun cap (CState d b []) ops)).
  Proof.
    intros S OK.
    destruct (cache_transparent cap ops (CState d b []) [] (cinv_empty_cache d b S)) as [F [R _]].
    - intros k v HI. destruct HI.
    - exact OK.
    - split; [exact F|exact R].
  Qed.

  (** the capacity is irrelevant: two runs with capacities [cap1] and [cap2] (from coherent
      states over the same store) end with the same disk and batch and give the same answer to
      every read that succeeds without a cache *)
  Corollary cache_size_irrelevant cap1 cap2 ops (st1 st2 : cstate) seen0 :
    cinv st1 -> cinv st2 -> forget st1 = forget st2 ->
    seen_inv seen0 (cache st1) -> seen_inv seen0 (cache st2) ->
    drun_ok eqV is_node seen0 (forget st1) ops = true ->
    forget (snd (crun cap1 st1 ops)) = forget (snd (crun cap2 st2 ops)) /\
    forall i v, nth_error (fst (drun (forget st1) ops)) i = Some (OGot (Some v)) ->
      nth_error (fst (crun cap1 st1 ops)) i = Some (OGot (Some v)) /\
      nth_error (fst (crun cap2 st2 ops)) i = Some (OGot (Some v)).
  Proof.
    intros I1 I2 E SI1 SI2 OK. pose proof OK as OK2. rewrite E in OK2.
    destruct (cache_transparent cap1 ops st1 seen0 I1 SI1 OK) as [F1 _].
    destruct (cache_transparent cap2 ops st2 seen0 I2 SI2 OK2) as [F2 _].
    split; [rewrite F1, F2, E; reflexivity|]. intros i v N. split.
    - exact (cache_transparent_read cap1 ops st1 seen0 i v I1 SI1 OK N).
    - rewrite E in N. exact (cache_transparent_read cap2 ops st2 seen0 i v I2 SI2 OK2 N).
  Qed.

  Corollary cache_size_irrelevant_exact cap1 cap2 ops (d : list kv) b :
    msorted kcmp d -> drun_ok eqV is_node [] (DState d b) ops = true ->
    all_found (fst (drun (DState d b) ops)) ->
    fst (crun cap1 (CState d b []) ops) = fst (crun cap2 (CState d b []) ops).
  Proof.
    intros S OK AF.
    assert (SI : seen_inv [] (cache (CState d b []))) by (intros k v HI; destruct HI).
    rewrite (cache_transparent_exact cap1 ops (CState d b []) [] (cinv_empty_cache d b S) SI OK AF).
    rewrite (cache_transparent_exact cap2 ops (CState d b []) [] (cinv_empty_cache d b S) SI OK AF).
    reflexivity.
  Qed.

  (** ** 6. The checker *)
  Theorem coherentb_spec (d : list kv) (c : lru) : coherentb eqV is_node d c = true <-> coherent d [] c.
  Proof.
    unfold coherentb, coherent. rewrite forallb_forall. cbn [dapply_all fold_left]. split.
    - intros A k v HI v' G. specialize (A (k, v) HI). cbn [fst snd] in A. rewrite G in A.
      apply eqV_spec, A.
    - intros C [k v] HI. cbn [fst snd]. destruct (nget d k) as [v'|] eqn:G; [|reflexivity].
      apply eqV_spec. exact (C _ _ HI _ G).
  Qed.

  Lemma incoherent_entries_spec (d : list kv) (c : lru) :
    incoherent_entries eqV is_node d c = [] <-> coherentb eqV is_node d c = true.
  Proof.
    unfold incoherent_entries, coherentb. induction c as [|p r IH]; cbn [filter forallb]; [tauto|].
    destruct (nget d (fst p)) as [v'|].
    - destruct (eqV v' (snd p)); cbn [negb andb]; [exact IH|]. split; discriminate.
    - cbn [andb]. exact IH.
  Qed.

  Lemma stale_keys_spec (d : list kv) (c : lru) k :
    In k (stale_keys is_node d c) <-> exists v, In (k, v) c /\ nget d k = None.
  Proof.
    unfold stale_keys. rewrite in_map_iff. split.
    - intros [[k' v] [E HI]]. cbn [fst] in E. subst k'. apply filter_In in HI. destruct HI as [HI G].
      cbn [fst] in G. exists v. split; [exact HI|]. destruct (nget d k); [discriminate|reflexivity].
    - intros [v [HI G]]. exists (k, v). split; [reflexivity|]. apply filter_In. split; [exact HI|].
      cbn [fst]. rewrite G. reflexivity.
  Qed.

  (** after a commit the checker holds on the real disk *)
  Corollary coherentb_after_commit cap ops (st : cstate) seen0 :
    cinv st -> seen_inv seen0 (cache st) -> drun_ok eqV is_node seen0 (forget st) (ops ++ [CCommit]) = true ->
    let st' := snd (crun cap st (ops ++ [CCommit])) in coherentb eqV is_node (disk st') (cache st') = true.
  Proof.
    intros I SI OK st'. destruct (cache_transparent cap _ st seen0 I SI OK) as [_ [_ [_ [_ C]]]].
    fold st' in C. apply coherentb_spec. unfold st' in *. rewrite crun_app in *. cbn [snd] in *.
    rewrite crun_cons in *. cbn [snd] in *. unfold crun in C at 1 2 3. unfold crun at 1 2.
    cbn [crun_with snd] in *. unfold cstep in *. cbn [cstep_with snd commit disk batch cache] in *.
    exact C.
  Qed.

  (** ** 4. Rollback and re-commit under reused keys.
      No coherence is needed for this one: from ANY state (any stale cache, any pending batch),
      after any operations [pre] (e.g. the deletions of a rollback and their commit), once the new
      nodes are saved under their - possibly reused - keys and committed, GetNode returns the NEW
      node, for every capacity.  This is exactly where [lru_add] replacing the value matters. *)
  Definition save_ops (news : list kv) : list (cop V) := map (fun p => CSave (fst p) (snd p)) news.

  Definition fresh (st : cstate) (k : Z * Z) (v : V) : Prop :=
    (lru_find k (cache st) = Some v \/ lru_find k (cache st) = None) /\
    mfind kcmp k (vdisk st) = Some v.

  Lemma save_fresh cap k v (st : cstate) : lru_wf (cache st) -> fresh (save_node cap k v st) k v.
  Proof.
    intros W. split.
    - exact (lru_add_find_same cap k v _ W).
    - unfold vdisk, save_node. cbn [disk batch]. rewrite dapply_all_snoc. cbn [dapply].
      rewrite mfind_mset_k, keqb_refl. reflexivity.
  Qed.

  Lemma save_fresh_other cap k v (st : cstate) k2 v2 :
    lru_wf (cache st) -> k2 <> k -> fresh st k2 v2 -> fresh (save_node cap k v st) k2 v2.
  Proof.
    intros W N [A B]. split.
    - cbn [save_node cache].
      destruct (lru_add_find_other cap k v (cache st) k2 W N) as [E|E]; rewrite E; [exact A|right; reflexivity].
    - unfold vdisk, save_node. cbn [disk batch]. rewrite dapply_all_snoc. cbn [dapply].
      rewrite mfind_mset_k, (keqb_neq _ _ N). exact B.
  Qed.

  Lemma run_saves cap news : forall (st : cstate),
    lru_wf (cache st) -> NoDup (map fst news) ->
    lru_wf (cache (snd (crun cap st (save_ops news)))) /\
    (forall k v, In (k, v) news -> fresh (snd (crun cap st (save_ops news))) k v) /\
    (forall k v, ~ In k (map fst news) -> fresh st k v -> fresh (snd (crun cap st (save_ops news))) k v).
  Proof.
    induction news as [|[k1 v1] r IH]; intros st W ND.
    - split; [exact W|]. split; [intros k v []|intros k v _ F; exact F].
    - unfold save_ops. cbn [map fst snd]. fold (save_ops r). rewrite crun_cons. cbn [snd].
      change (snd (cstep cap st (CSave k1 v1))) with (save_node cap k1 v1 st).
      cbn [map fst] in ND. inversion ND as [|x xs N1 N2]; subst.
      destruct (IH (save_node cap k1 v1 st) (lru_add_wf _ _ _ _ W) N2) as [W' [A B]].
      split; [exact W'|]. split.
      + intros k v [Q|HI].
        * inversion Q; subst. apply B; [exact N1|apply save_fresh, W].
        * exact (A _ _ HI).
      + intros k v NI F. apply B.
        * intros HI. apply NI. right. exact HI.
        * apply save_fresh_other; [exact W| |exact F]. intros ->. apply NI. left. reflexivity.
  Qed.

  Lemma last_two {A : Type} (l : list A) a b d : last (l ++ [a; b]) d = b.
  Proof. change [a; b] with ([a] ++ [b]). rewrite app_assoc. apply last_last. Qed.

  Theorem recommit_reads_new cap (st : cstate) pre news k v :
    lru_wf (cache st) -> NoDup (map fst news) -> In (k, v) news -> is_node v = true ->
    last (fst (crun cap st (pre ++ save_ops news ++ [CCommit; CGet k]))) OUnit = OGot (Some v).
  Proof.
    intros W ND HI NV. rewrite !crun_app. cbn [fst snd].
    pose proof (crun_wf cap pre st W) as W1. set (st1 := snd (crun cap st pre)) in *.
    destruct (run_saves cap news st1 W1 ND) as [W2 [A _]]. specialize (A _ _ HI).
    set (st2 := snd (crun cap st1 (save_ops news))) in *.
    rewrite !crun_cons. cbn [fst snd].
    change (snd (cstep cap st2 CCommit)) with (commit st2).
    assert (E : fst (cstep cap (commit st2) (CGet k)) = OGot (fst (get_node cap k (commit st2)))).
    { unfold NodeCache.cstep. cbn [cstep_with]. destruct (get_node cap k (commit st2)); reflexivity. }
    rewrite E, get_node_fst. cbn [commit cache disk].
    assert (R : match lru_find k (cache st2) with
                | Some x => Some x
                | None => nget (dapply_all (disk st2) (batch st2)) k
                end = Some v).
    { destruct A as [[A|A] B]; rewrite A; [reflexivity|]. apply nget_Some. split; [|exact NV].
      unfold dget. fold (vdisk st2). rewrite B. reflexivity. }
    rewrite R. assert (E0 : crun cap (snd (cstep cap (commit st2) (CGet k))) [] =
                            ([], snd (cstep cap (commit st2) (CGet k)))) by reflexivity.
    rewrite E0. cbn [fst]. rewrite app_assoc. apply last_two.
  Qed.

  (** the scenario as an operation list: delete every key of the versions above [v] (whatever
      [dels] is), commit, save the new nodes under reused keys, commit, read *)
  Corollary rollback_recommit cap (st : cstate) dels news k v :
    lru_wf (cache st) -> NoDup (map fst news) -> In (k, v) news -> is_node v = true ->
    last (fst (crun cap st (map (@CDel V) dels ++ [CCommit] ++ save_ops news ++ [CCommit; CGet k])))
         OUnit = OGot (Some v).
  Proof. intros W ND HI NV. rewrite app_assoc. apply recommit_reads_new; assumption. Qed.
End Facts.

Arguments lru_wf {V} c.
Arguments coherent {V} is_node d b c.
Arguments cinv {V} is_node st.
Arguments step_ok {V} is_node cap st o.
Arguments seen_inv {V} seen0 c.
Arguments out_refines {V} d c.
Arguments all_found {V} l.
Arguments save_ops {V} news.
Arguments fresh {V} st k v.

(** ** Instances: [V := Store.entry] *)
Lemma snode_eqb_spec a b : snode_eqb a b = true <-> a = b.
Proof.
  destruct a as [k v|k h s hh l r], b as [k' v'|k' h' s' hh' l' r']; cbn [snode_eqb];
    try (split; [discriminate|congruence]).
  - rewrite andb_true_iff, !beq_true. split; [intros [-> ->]; reflexivity|].
    intros Q. inversion Q. split; reflexivity.
  - rewrite !andb_true_iff, !beq_true, !Z.eqb_eq, !keqb_true. split.
    + intros [[[[[-> ->] ->] ->] ->] ->]. reflexivity.
    + intros Q. inversion Q. repeat split.
Qed.

Lemma entry_eqb_spec a b : entry_eqb a b = true <-> a = b.
Proof.
  destruct a as [n|k|], b as [n'|k'|]; cbn [entry_eqb]; try (split; [discriminate|congruence]).
  - rewrite snode_eqb_spec. split; congruence.
  - rewrite keqb_true. split; congruence.
  - tauto.
Qed.

Definition nd (n : N) : entry := ENode (SLeaf [n] [n]).
Notation E0 := (@empty_cstate entry).
Notation D0 := (@DState entry [] []).
Notation okb := (drun_ok entry_eqb entry_is_node []).
Notation crunE := (crun entry_is_node).
Notation drunE := (drun entry_is_node).

Ltac ex_tac :=
  repeat match goal with |- _ /\ _ => split end; try (vm_compute; reflexivity); try discriminate.

(** ** 3'. What a read of a key that the disk does not hold may return: the value the cache still
    has for it ([get_node_absent]), i.e. the node of a deleted version.  Commit v2 and v3, roll back
    to v2: [(3,1)] is deleted on the disk and still served from a cache of capacity 2; a cache of
    capacity 0 fails like the cache-free run.  The side conditions hold: this is why
    [out_refines] allows anything where the cache-free read fails. *)
Definition stale_ops : list (cop entry) :=
  [CSave (2, 1) (nd 2); CCommit; CSave (3, 1) (nd 3); CCommit; CDel (3, 1); CCommit; CGet (3, 1)].

Example stale_read_possible :
  okb D0 stale_ops = true /\
  last (fst (drunE D0 stale_ops)) OUnit = OGot None /\
  last (fst (crunE 2 E0 stale_ops)) OUnit = OGot (Some (nd 3)) /\
  last (fst (crunE 0 E0 stale_ops)) OUnit = OGot None /\
  (let st := snd (crunE 2 E0 stale_ops) in
   stale_keys entry_is_node (disk st) (cache st) = [(3, 1)] /\
   coherentb entry_eqb entry_is_node (disk st) (cache st) = true).
Proof. cbv zeta. ex_tac. Qed.

(** the addendum: after the rollback, version 3 is committed WITHOUT changes: SaveRoot writes a
    reference record under [(3,1)], the cache still holds the old node of [(3,1)].  Coherent
    (the entry is stale, not wrong); a [CGet (3,1)] is outside the side condition. *)
Definition rootrec_ops : list (cop entry) :=
  [CSave (2, 1) (nd 2); CCommit; CSave (3, 1) (nd 3); CCommit; CDel (3, 1); CCommit;
   CSaveRoot (3, 1) (ERef (2, 1)); CCommit].

Example root_record_stale :
  okb D0 rootrec_ops = true /\
  okb D0 (rootrec_ops ++ [CGet (3, 1)]) = false /\
  (let st := snd (crunE 2 E0 rootrec_ops) in
   mfind kcmp (3, 1) (disk st) = Some (ERef (2, 1)) /\
   lru_find (3, 1) (cache st) = Some (nd 3) /\
   stale_keys entry_is_node (disk st) (cache st) = [(3, 1)] /\
   coherentb entry_eqb entry_is_node (disk st) (cache st) = true).
Proof. cbv zeta. ex_tac. Qed.

(** ** 5. The two seeded defects of SaveNode are refuted: the side conditions hold, the faithful
    model answers like the cache-free run, the variant answers the node of the erased timeline *)
Definition reuse_ops : list (cop entry) :=
  [CSave (3, 1) (nd 7); CCommit; CDel (3, 1); CCommit; CSave (3, 1) (nd 8); CCommit; CGet (3, 1)].

Theorem save_keep_cached_refuted :
  exists cap ops v v',
    okb D0 ops = true /\
    last (fst (drunE D0 ops)) OUnit = OGot (Some v) /\
    last (fst (crunE cap E0 ops)) OUnit = OGot (Some v) /\
    last (fst (crun_keep_cached entry_is_node cap E0 ops)) OUnit = OGot (Some v') /\
    v <> v'.
Proof. exists 2%nat, reuse_ops, (nd 8), (nd 7). ex_tac. Qed.

Definition reuse_ops2 : list (cop entry) :=
  [CSave (3, 1) (nd 7); CCommit; CGet (3, 1); CDel (3, 1); CCommit; CSave (3, 1) (nd 8); CCommit;
   CGet (3, 1)].

Theorem save_without_caching_refuted :
  exists cap ops v v',
    okb D0 ops = true /\
    last (fst (drunE D0 ops)) OUnit = OGot (Some v) /\
    last (fst (crunE cap E0 ops)) OUnit = OGot (Some v) /\
    last (fst (crun_no_cache entry_is_node cap E0 ops)) OUnit = OGot (Some v') /\
    v <> v'.
Proof. exists 2%nat, reuse_ops2, (nd 8), (nd 7). ex_tac. Qed.

(** ** The side conditions are necessary: for each, a run of the FAITHFUL model that violates only
    that condition and answers a read differently from the cache-free run. *)

(** [CGet] of a key with an uncommitted write: GetNode answers from the cache what the disk does
    not have yet *)
Theorem get_unflushed_refuted :
  exists cap ops v v',
    last (fst (drunE D0 ops)) OUnit = OGot (Some v) /\
    last (fst (crunE cap E0 ops)) OUnit = OGot (Some v') /\ v <> v'.
Proof.
  exists 2%nat, [CSave (3, 1) (nd 7); CCommit; CSave (3, 1) (nd 8); CGet (3, 1)], (nd 7), (nd 8).
  ex_tac.
Qed.

(** [CSave] under a nonce 0: a stale cached [(3,1)] now falls back, on the disk, to the new
    [(3,0)] (SaveNode is never called with nonce 0) *)
Theorem save_nonce0_refuted :
  exists cap ops v v',
    last (fst (drunE D0 ops)) OUnit = OGot (Some v) /\
    last (fst (crunE cap E0 ops)) OUnit = OGot (Some v') /\ v <> v'.
Proof.
  exists 2%nat,
    [CSave (3, 1) (nd 7); CCommit; CDel (3, 1); CCommit; CSave (3, 0) (nd 8); CCommit; CGet (3, 1)],
    (nd 8), (nd 7).
  ex_tac.
Qed.

(** [CRekey w] while a stale [(w,0)] is cached: saveNodeFromPruning does not touch the cache
    (unreachable in the code: a version is re-keyed once, and [(w,0)] outlives every rollback) *)
Theorem rekey_cached0_refuted :
  exists cap ops v v',
    last (fst (drunE D0 ops)) OUnit = OGot (Some v) /\
    last (fst (crunE cap E0 ops)) OUnit = OGot (Some v') /\ v <> v'.
Proof.
  exists 4%nat,
    [CSave (2, 1) (nd 7); CCommit; CRekey 2; CCommit; CGet (2, 0); CDel (2, 0); CCommit;
     CSave (2, 1) (nd 8); CCommit; CRekey 2; CCommit; CGet (2, 0)],
    (nd 8), (nd 7).
  ex_tac.
Qed.

(** [CDel (w,1)] while [(w,0)] holds a different node: the cached [(w,1)] is now shadowed on the
    disk by [(w,0)] *)
Theorem del_both_refuted :
  exists cap d ops v v',
    msorted kcmp d /\
    last (fst (drunE (DState d []) ops)) OUnit = OGot (Some v) /\
    last (fst (crunE cap (CState d [] []) ops)) OUnit = OGot (Some v') /\ v <> v'.
Proof.
  exists 2%nat, [((2, 0), nd 8); ((2, 1), nd 7)], [CGet (2, 1); CDel (2, 1); CCommit; CGet (2, 1)],
    (nd 8), (nd 7).
  split; [|ex_tac]. cbn [msorted]. repeat constructor.
Qed.

(** ** 7. A longer run: two commits, reads, a version without changes (root record), pruning with
    a re-keying, a rollback and a re-commit under reused keys, for capacities 0, 1, 2 and 100 *)
Definition ex_ops : list (cop entry) :=
  [ (* version 1 *)
    CSave (1, 2) (nd 12); CSave (1, 3) (nd 13); CSave (1, 1) (nd 11); CCommit;
    CGet (1, 1); CGet (1, 2);
    (* version 2 *)
    CSave (2, 2) (nd 22); CSave (2, 1) (nd 21); CCommit; CGet (2, 1); CGet (1, 3);
    (* version 3: no change, a reference to the root of version 2 *)
    CSaveRoot (3, 1) (ERef (2, 1)); CCommit;
    (* DeleteVersionsTo 2: orphans of version 1, the root of version 2 is re-keyed *)
    CDel (1, 1); CDel (1, 2); CRekey 2; CCommit;
    CGet (2, 1); CGet (2, 0); CGet (2, 2);
    (* version 4 *)
    CSave (4, 2) (nd 42); CSave (4, 1) (nd 41); CCommit; CGet (4, 1); CGet (4, 2);
    (* LoadVersionForOverwriting 3 *)
    CDel (4, 1); CDel (4, 2); CCommit;
    (* version 4 again: the keys are reused *)
    CSave (4, 2) (nd 142); CSave (4, 1) (nd 141); CCommit;
    CGet (4, 1); CGet (4, 2); CGet (2, 1) ].

Example ex_side_conditions : okb D0 ex_ops = true.
Proof. vm_compute. reflexivity. Qed.

Example ex_reference_answers :
  fst (drunE D0 ex_ops) =
    [OUnit; OUnit; OUnit; OUnit; OGot (Some (nd 11)); OGot (Some (nd 12));
     OUnit; OUnit; OUnit; OGot (Some (nd 21)); OGot (Some (nd 13));
     OUnit; OUnit;
     OUnit; OUnit; OGot (Some (nd 21)); OUnit;
     OGot (Some (nd 21)); OGot (Some (nd 21)); OGot (Some (nd 22));
     OUnit; OUnit; OUnit; OGot (Some (nd 41)); OGot (Some (nd 42));
     OUnit; OUnit; OUnit;
     OUnit; OUnit; OUnit;
     OGot (Some (nd 141)); OGot (Some (nd 142)); OGot (Some (nd 21))].
Proof. vm_compute. reflexivity. Qed.

Example ex_all_found : all_found (fst (drunE D0 ex_ops)).
Proof. rewrite ex_reference_answers. unfold all_found. repeat constructor; discriminate. Qed.

Example ex_caps :
  forall cap, In cap [0; 1; 2; 100]%nat ->
    fst (crunE cap E0 ex_ops) = fst (drunE D0 ex_ops) /\
    forget (snd (crunE cap E0 ex_ops)) = snd (drunE D0 ex_ops) /\
    (let st := snd (crunE cap E0 ex_ops) in
     coherentb entry_eqb entry_is_node (disk st) (cache st) = true /\
     Nat.leb (length (cache st)) cap = true).
Proof.
  intros cap HI. cbv zeta.
  destruct HI as [<-|[<-|[<-|[<-|[]]]]]; ex_tac.
Qed.

(** the same by the theorem, for EVERY capacity *)
Example ex_every_cap cap1 cap2 : fst (crunE cap1 E0 ex_ops) = fst (crunE cap2 E0 ex_ops).
Proof.
  apply (cache_size_irrelevant_exact entry entry_is_node entry_eqb entry_eqb_spec cap1 cap2 ex_ops [] []).
  - exact I.
  - exact ex_side_conditions.
  - exact ex_all_found.
Qed.

Print Assumptions lru_add_get.
Print Assumptions lru_get_spec.
Print Assumptions lru_length_le_cap.
Print Assumptions lru_nodup_keys.
Print Assumptions coherent_step.
Print Assumptions cache_transparent.
Print Assumptions cache_transparent_read.
Print Assumptions cache_transparent_exact.
Print Assumptions cache_size_irrelevant.
Print Assumptions cache_size_irrelevant_exact.
Print Assumptions coherentb_spec.
Print Assumptions coherentb_after_commit.
Print Assumptions recommit_reads_new.
Print Assumptions rollback_recommit.
Print Assumptions stale_read_possible.
Print Assumptions root_record_stale.
Print Assumptions save_keep_cached_refuted.
Print Assumptions save_without_caching_refuted.
Print Assumptions get_unflushed_refuted.
Print Assumptions save_nonce0_refuted.
Print Assumptions rekey_cached0_refuted.
Print Assumptions del_both_refuted.
Print Assumptions ex_caps.
Print Assumptions ex_every_cap.
