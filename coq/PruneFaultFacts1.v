(** PruneFaultFacts1: the storage calls of PruneFault.v one by one, and [fault_free_same]: with no
    failing call the run is the run of PruneAlgo.v. *)
From Coq Require Import Lia.
From IAVL Require Import Bytes Varint Tree MTree Store PruneAlgo PruneAlgoFacts5 PruneFault.
Local Open Scope Z_scope.

(** the failing call has not been made yet *)
Definition live (s : fdb) : Prop :=
  match ffail s with Some k => (fcalls s <= k)%nat | None => True end.

(** a step that does not touch the [pdb] *)
Definition adv (s s' : fdb) : Prop :=
  fp s' = fp s /\ ffail s' = ffail s /\ (fcalls s <= fcalls s')%nat.

Lemma adv_refl s : adv s s.
Proof. unfold adv. auto. Qed.

Lemma adv_trans a b c : adv a b -> adv b c -> adv a c.
Proof. unfold adv. intros (A1 & A2 & A3) (B1 & B2 & B3). repeat split; try congruence; lia. Qed.

Lemma dead_adv s s' : ~ live s -> ffail s' = ffail s -> (fcalls s <= fcalls s')%nat -> ~ live s'.
Proof. unfold live. intros D E L. rewrite E. destruct (ffail s); [lia|tauto]. Qed.

Lemma live_nofail s : ffail s = None -> live s.
Proof. unfold live. intros ->. exact I. Qed.

Lemma tick_spec s bad s1 :
  tick s = (bad, s1) ->
  adv s s1 /\ (live s -> (bad = false /\ live s1) \/ (bad = true /\ ~ live s1)).
Proof.
  unfold tick. intros Q. inversion Q; subst. clear Q. split; [unfold adv; cbn; auto|].
  unfold live. cbn [ffail fcalls]. destruct (ffail s) as [k|]; [|auto].
  intros L. destruct (Nat.eqb (fcalls s) k) eqn:E.
  - apply Nat.eqb_eq in E. right. split; [reflexivity|lia].
  - apply Nat.eqb_neq in E. left. split; [reflexivity|lia].
Qed.

Lemma fget_spec s k x s1 :
  fget s k = (x, s1) ->
  adv s s1 /\ (live s -> (live s1 /\ x = Some (mfind kcmp k (disk (fp s)))) \/ (~ live s1 /\ x = None)).
Proof.
  unfold fget. destruct (tick s) as [bad s'] eqn:T. intros Q. inversion Q; subst. clear Q.
  destruct (tick_spec s bad s1 T) as (A & B). split; [exact A|]. intros L.
  destruct (B L) as [[-> L1]|[-> D1]]; auto.
Qed.

(** ** Reads *)
Lemma get_node_f_spec s k x s' :
  get_node_f s k = (x, s') -> live s ->
  adv s s' /\ ((live s' /\ x = get_node (disk (fp s)) k) \/ (~ live s' /\ x = None)).
Proof.
  unfold get_node_f, get_node. intros Q L.
  destruct (fget s k) as [y s1] eqn:F1. destruct (fget_spec s k y s1 F1) as (A1 & B1).
  destruct (B1 L) as [[L1 ->]|[D1 ->]].
  2:{ inversion Q; subst. auto. }
  destruct (mfind kcmp k (disk (fp s))) as [[n|k0|]|] eqn:M.
  - inversion Q; subst. auto.
  - inversion Q; subst. auto.
  - inversion Q; subst. auto.
  - destruct (snd k =? 1); [|inversion Q; subst; auto].
    destruct (fget s1 (fst k, 0)) as [z s2] eqn:F2. destruct (fget_spec s1 _ z s2 F2) as (A2 & B2).
    pose proof (adv_trans _ _ _ A1 A2) as A. destruct A1 as (E1 & _).
    destruct (B2 L1) as [[L2 ->]|[D2 ->]]; rewrite E1 in *.
    + destruct (mfind kcmp (fst k, 0) (disk (fp s))) as [[n|k0|]|]; inversion Q; subst; auto.
    + inversion Q; subst. auto.
Qed.

Lemma get_root_f_spec s v x s' :
  get_root_f s v = (x, s') -> live s ->
  adv s s' /\ ((live s' /\ x = get_root (disk (fp s)) v) \/ (~ live s' /\ x = PErr)).
Proof.
  unfold get_root_f, get_root. intros Q L.
  destruct (fget s (v, 1)) as [y s1] eqn:F1. destruct (fget_spec s _ y s1 F1) as (A1 & B1).
  destruct (B1 L) as [[L1 ->]|[D1 ->]].
  2:{ inversion Q; subst. auto. }
  pose proof A1 as (E1 & _).
  destruct (mfind kcmp (v, 1) (disk (fp s))) as [[n|k|]|] eqn:M.
  - inversion Q; subst. auto.
  - destruct (fget s1 k) as [z s2] eqn:F2. destruct (fget_spec s1 _ z s2 F2) as (A2 & B2).
    pose proof (adv_trans _ _ _ A1 A2) as A12. pose proof A2 as (E2 & _).
    destruct (B2 L1) as [[L2 ->]|[D2 ->]]; rewrite E1 in *.
    2:{ inversion Q; subst. auto. }
    destruct (mfind kcmp k (disk (fp s))) as [e|] eqn:M2.
    + inversion Q; subst. auto.
    + destruct (fget s2 (fst k, 0)) as [w s3] eqn:F3. destruct (fget_spec s2 _ w s3 F3) as (A3 & B3).
      pose proof (adv_trans _ _ _ A12 A3) as A. rewrite E2 in B3. try rewrite E1 in B3.
      destruct (B3 L2) as [[L3 ->]|[D3 ->]].
      * destruct (mfind kcmp (fst k, 0) (disk (fp s))); inversion Q; subst; auto.
      * inversion Q; subst. auto.
  - inversion Q; subst. auto.
  - destruct (tick s1) as [bad s2] eqn:T. destruct (tick_spec s1 bad s2 T) as (A2 & B2).
    pose proof (adv_trans _ _ _ A1 A2) as A. inversion Q; subst.
    destruct (B2 L1) as [[-> L2]|[-> D2]]; auto.
Qed.

Lemma rkc_get_f_spec c s v x c' s' :
  rkc_get_f c s v = (x, c', s') -> live s ->
  adv s s' /\ ((live s' /\ (x, c') = rkc_get c (disk (fp s)) v) \/ (~ live s' /\ x = PErr)).
Proof.
  unfold rkc_get_f, rkc_get. intros Q L.
  destruct (rv0 c =? v). { inversion Q; subst. split; [apply adv_refl|auto]. }
  destruct (rv1 c =? v). { inversion Q; subst. split; [apply adv_refl|auto]. }
  destruct (get_root_f s v) as [y s1] eqn:G. destruct (get_root_f_spec s v y s1 G L) as (A & B).
  destruct B as [[L1 ->]|[D1 ->]].
  - destruct (get_root (disk (fp s)) v); inversion Q; subst; auto.
  - inversion Q; subst. auto.
Qed.

Lemma nit_new_f_spec s rk x s' :
  nit_new_f s rk = (x, s') -> live s ->
  adv s s' /\ ((live s' /\ x = nit_new (disk (fp s)) rk) \/ (~ live s' /\ x = None)).
Proof.
  unfold nit_new_f, nit_new. intros Q L. destruct rk as [k|].
  2:{ inversion Q; subst. split; [apply adv_refl|auto]. }
  destruct (get_node_f s k) as [y s1] eqn:G. destruct (get_node_f_spec s k y s1 G L) as (A & B).
  destruct B as [[L1 ->]|[D1 ->]].
  - destruct (get_node (disk (fp s)) k); inversion Q; subst; auto.
  - inversion Q; subst. auto.
Qed.

Lemma nit_next_f_skip s it : nit_next_f s it true = (nit_next (disk (fp s)) it true, s).
Proof.
  unfold nit_next_f, nit_next. destruct (negb (nit_valid it)); [reflexivity|].
  destruct (nstack it) as [|[k n] rest]; reflexivity.
Qed.

Lemma nit_next_f_spec s it skip it' s' :
  nit_next_f s it skip = (it', s') -> live s ->
  adv s s' /\ ((live s' /\ it' = nit_next (disk (fp s)) it skip) \/ (~ live s' /\ nerr it' = true)).
Proof.
  unfold nit_next_f, nit_next. intros Q L.
  destruct (negb (nit_valid it)). { inversion Q; subst. split; [apply adv_refl|auto]. }
  destruct (nstack it) as [|[k n] rest]. { inversion Q; subst. split; [apply adv_refl|auto]. }
  destruct skip. { inversion Q; subst. split; [apply adv_refl|auto]. }
  destruct n as [key val|key h sz hash lk rk]. { inversion Q; subst. split; [apply adv_refl|auto]. }
  destruct (get_node_f s rk) as [y s1] eqn:G1. destruct (get_node_f_spec s rk y s1 G1 L) as (A1 & B1).
  destruct B1 as [[L1 ->]|[D1 ->]].
  2:{ inversion Q; subst. auto. }
  destruct (get_node (disk (fp s)) rk) as [rn|]. 2:{ inversion Q; subst. auto. }
  destruct (get_node_f s1 lk) as [z s2] eqn:G2. destruct (get_node_f_spec s1 lk z s2 G2 L1) as (A2 & B2).
  pose proof (adv_trans _ _ _ A1 A2) as A. destruct A1 as (E1 & _). rewrite E1 in B2.
  destruct B2 as [[L2 ->]|[D2 ->]].
  - destruct (get_node (disk (fp s)) lk); inversion Q; subst; auto.
  - inversion Q; subst. auto.
Qed.

(** ** Writes *)
Definition wadv (s s' : fdb) : Prop := ffail s' = ffail s /\ (fcalls s <= fcalls s')%nat.

Lemma wadv_refl s : wadv s s.
Proof. unfold wadv. auto. Qed.

Lemma wadv_trans a b c : wadv a b -> wadv b c -> wadv a c.
Proof. unfold wadv. intros (A1 & A2) (B1 & B2). split; [congruence|lia]. Qed.

Lemma adv_wadv s s' : adv s s' -> wadv s s'.
Proof. intros (_ & A & B). split; assumption. Qed.

Lemma dead_wadv s s' : ~ live s -> wadv s s' -> ~ live s'.
Proof. intros D (A & B). exact (dead_adv s s' D A B). Qed.

Lemma pwrite_f_spec s o ok s' :
  pwrite_f s o = (ok, s') -> live s ->
  wadv s s' /\
  ((ok = true /\ live s' /\ fp s' = pwrite (fp s) o) \/
   (ok = false /\ ~ live s' /\ (fp s' = fp s \/ fp s' = pflushed (fp s)))).
Proof.
  unfold pwrite_f. cbv zeta. intros Q L.
  destruct (flushes_now (fp s) o).
  - destruct (tick s) as [bad s1] eqn:T1. destruct (tick_spec s bad s1 T1) as (A1 & B1).
    destruct (B1 L) as [[-> L1]|[-> D1]].
    2:{ inversion Q; subst. split; [apply adv_wadv, A1|]. right. destruct A1 as (E & _). auto. }
    destruct (tick s1) as [bad2 s2] eqn:T2. destruct (tick_spec s1 bad2 s2 T2) as (A2 & B2).
    pose proof (adv_trans _ _ _ A1 A2) as (_ & Ef & Ec).
    destruct (B2 L1) as [[-> L2]|[-> D2]]; inversion Q; subst; (split; [split; cbn; assumption|]).
    + left. split; [reflexivity|]. split; [exact L2|reflexivity].
    + right. split; [reflexivity|]. split; [exact D2|]. right. reflexivity.
  - destruct (tick s) as [bad s1] eqn:T1. destruct (tick_spec s bad s1 T1) as (A1 & B1).
    pose proof A1 as (E1 & Ef & Ec).
    destruct (B1 L) as [[-> L1]|[-> D1]]; inversion Q; subst; (split; [split; cbn; assumption|]).
    + left. split; [reflexivity|]. split; [exact L1|reflexivity].
    + right. split; [reflexivity|]. split; [exact D1|]. left. exact E1.
Qed.

(** ** With no failing call the run is PruneAlgo's *)
Definition nofail (s : fdb) : Prop := ffail s = None.

Lemma nofail_live s : nofail s -> live s.
Proof. apply live_nofail. Qed.

Lemma nofail_adv s s' : nofail s -> adv s s' -> nofail s'.
Proof. unfold nofail. intros N (_ & E & _). congruence. Qed.

Lemma nofail_wadv s s' : nofail s -> wadv s s' -> nofail s'.
Proof. unfold nofail. intros N (E & _). congruence. Qed.

Ltac nf_live :=
  match goal with
  | N : nofail ?s, D : ~ live ?s |- _ => exfalso; exact (D (nofail_live s N))
  end.

Lemma get_node_f_free s k x s' :
  get_node_f s k = (x, s') -> nofail s -> nofail s' /\ fp s' = fp s /\ x = get_node (disk (fp s)) k.
Proof.
  intros Q N. destruct (get_node_f_spec s k x s' Q (nofail_live s N)) as (A & B).
  pose proof (nofail_adv _ _ N A) as N'. destruct A as (E & _).
  destruct B as [[_ ->]|[D _]]; [auto|nf_live].
Qed.

Lemma rkc_get_f_free c s v x c' s' :
  rkc_get_f c s v = (x, c', s') -> nofail s ->
  nofail s' /\ fp s' = fp s /\ (x, c') = rkc_get c (disk (fp s)) v.
Proof.
  intros Q N. destruct (rkc_get_f_spec c s v x c' s' Q (nofail_live s N)) as (A & B).
  pose proof (nofail_adv _ _ N A) as N'. destruct A as (E & _).
  destruct B as [[_ R]|[D _]]; [auto|nf_live].
Qed.

Lemma nit_new_f_free s rk x s' :
  nit_new_f s rk = (x, s') -> nofail s -> nofail s' /\ fp s' = fp s /\ x = nit_new (disk (fp s)) rk.
Proof.
  intros Q N. destruct (nit_new_f_spec s rk x s' Q (nofail_live s N)) as (A & B).
  pose proof (nofail_adv _ _ N A) as N'. destruct A as (E & _).
  destruct B as [[_ ->]|[D _]]; [auto|nf_live].
Qed.

Lemma nit_next_f_free s it skip it' s' :
  nit_next_f s it skip = (it', s') -> nofail s ->
  nofail s' /\ fp s' = fp s /\ it' = nit_next (disk (fp s)) it skip.
Proof.
  intros Q N. destruct (nit_next_f_spec s it skip it' s' Q (nofail_live s N)) as (A & B).
  pose proof (nofail_adv _ _ N A) as N'. destruct A as (E & _).
  destruct B as [[_ ->]|[D _]]; [auto|nf_live].
Qed.

Lemma pwrite_f_free s o ok s' :
  pwrite_f s o = (ok, s') -> nofail s -> nofail s' /\ ok = true /\ fp s' = pwrite (fp s) o.
Proof.
  intros Q N. destruct (pwrite_f_spec s o ok s' Q (nofail_live s N)) as (A & B).
  pose proof (nofail_wadv _ _ N A) as N'.
  destruct B as [(-> & _ & E)|(_ & D & _)]; [auto|nf_live].
Qed.

Lemma on_orphan_f_free v s k ok s' :
  on_orphan_f v s k = (ok, s') -> nofail s -> nofail s' /\ ok = true /\ fp s' = on_orphan v (fp s) k.
Proof.
  unfold on_orphan_f, on_orphan. intros Q N. destruct ((snd k =? 1) && (fst k <? v)).
  - destruct (pwrite_f s (del_node k)) as [ok1 s1] eqn:W1.
    destruct (pwrite_f_free s _ ok1 s1 W1 N) as (N1 & -> & E1).
    destruct (pwrite_f_free s1 _ ok s' Q N1) as (N2 & -> & E2). rewrite E2, E1. auto.
  - exact (pwrite_f_free s _ ok s' Q N).
Qed.

(** the correspondence of results *)
Definition rel (r : pres pdb) (st : pres unit) (s' : fdb) : Prop :=
  match r, st with
  | POk p', POk _ => fp s' = p'
  | PNoVersion, PNoVersion | PErr, PErr | PFuel, PFuel => True
  | _, _ => False
  end.

Section Free.
  Variable H : bytes -> bytes.

  Lemma loop_free : forall fuel v s cur prev org st s',
    orphans_loop_g H true fuel v s cur prev org = (st, s') -> nofail s ->
    nofail s' /\ rel (orphans_loop H fuel v (fp s) cur prev org) st s'.
  Proof.
    induction fuel as [|fuel IH]; intros v s cur prev org st s' Q N; cbn [orphans_loop_g orphans_loop] in *.
    { inversion Q; subst. split; [exact N|exact I]. }
    destruct (negb (nit_valid prev)).
    { inversion Q; subst. split; [exact N|].
      destruct (nerr cur); [exact I|]. destruct (nerr prev); [exact I|reflexivity]. }
    cbn [andb] in Q. destruct (nerr cur). { inversion Q; subst. split; [exact N|exact I]. }
    assert (B : forall st s',
      match nstack prev with
      | (pk, pn) :: _ =>
          if match org with
             | Some (ok, on) => beq (fetched_hash H pk pn) (fetched_hash H ok on)
             | None => false
             end
          then let (prev', s1) := nit_next_f s prev true in orphans_loop_g H true fuel v s1 cur prev' None
          else match on_orphan_f v s pk with
               | (true, s1) => let (prev', s2) := nit_next_f s1 prev false in
                               orphans_loop_g H true fuel v s2 cur prev' org
               | (false, s1) => (PErr, s1)
               end
      | [] => (PErr, s)
      end = (st, s') ->
      nofail s' /\
      rel (match nstack prev with
           | (pk, pn) :: _ =>
               if match org with
                  | Some (ok, on) => beq (fetched_hash H pk pn) (fetched_hash H ok on)
                  | None => false
                  end
               then orphans_loop H fuel v (fp s) cur (nit_next (disk (fp s)) prev true) None
               else orphans_loop H fuel v (on_orphan v (fp s) pk) cur
                      (nit_next (disk (on_orphan v (fp s) pk)) prev false) org
           | [] => PErr
           end) st s').
    { clear Q st s'. intros st s' Q. destruct (nstack prev) as [|[pk pn] rest].
      { inversion Q; subst. split; [exact N|exact I]. }
      destruct (match org with Some (ok, on) => _ | None => false end).
      - rewrite nit_next_f_skip in Q. exact (IH _ _ _ _ _ _ _ Q N).
      - destruct (on_orphan_f v s pk) as [ok s1] eqn:O.
        destruct (on_orphan_f_free v s pk ok s1 O N) as (N1 & -> & E1).
        destruct (nit_next_f s1 prev false) as [prev' s2] eqn:X.
        destruct (nit_next_f_free s1 prev false prev' s2 X N1) as (N2 & E2 & ->).
        destruct (IH _ _ _ _ _ _ _ Q N2) as (N3 & R). split; [exact N3|].
        rewrite E2, E1 in R. exact R. }
    destruct org as [[ok on]|]; [exact (B st s' Q)|].
    destruct (nit_valid cur); [|exact (B st s' Q)].
    destruct (nstack cur) as [|[k n] rest]. { inversion Q; subst. split; [exact N|exact I]. }
    destruct (fst k <=? v).
    - rewrite nit_next_f_skip in Q. exact (IH _ _ _ _ _ _ _ Q N).
    - destruct (nit_next_f s cur false) as [cur' s1] eqn:X.
      destruct (nit_next_f_free s cur false cur' s1 X N) as (N1 & E1 & ->).
      destruct (IH _ _ _ _ _ _ _ Q N1) as (N2 & R). split; [exact N2|]. rewrite E1 in R. exact R.
  Qed.

  Lemma loop_g_not_nov fixed : forall fuel v s cur prev org s',
    orphans_loop_g H fixed fuel v s cur prev org <> (PNoVersion, s').
  Proof.
    induction fuel as [|fuel IH]; intros v s cur prev org s'; cbn [orphans_loop_g]; [discriminate|].
    destruct (negb (nit_valid prev)).
    { destruct (nerr cur); [discriminate|]. destruct (nerr prev); discriminate. }
    destruct (fixed && nerr cur); [discriminate|].
    assert (B : match nstack prev with
                | (pk, pn) :: _ =>
                    if match org with
                       | Some (ok, on) => beq (fetched_hash H pk pn) (fetched_hash H ok on)
                       | None => false
                       end
                    then let (prev', s1) := nit_next_f s prev true in
                         orphans_loop_g H fixed fuel v s1 cur prev' None
                    else match on_orphan_f v s pk with
                         | (true, s1) => let (prev', s2) := nit_next_f s1 prev false in
                                         orphans_loop_g H fixed fuel v s2 cur prev' org
                         | (false, s1) => (PErr, s1)
                         end
                | [] => (PErr, s)
                end <> (PNoVersion, s')).
    { destruct (nstack prev) as [|[pk pn] rest]; [discriminate|].
      destruct (match org with Some (ok, on) => _ | None => false end).
      - destruct (nit_next_f s prev true). apply IH.
      - destruct (on_orphan_f v s pk) as [[|] s1]; [|discriminate].
        destruct (nit_next_f s1 prev false). apply IH. }
    destruct org as [[ok on]|]; [exact B|]. destruct (nit_valid cur); [|exact B].
    destruct (nstack cur) as [|[k n] rest]; [discriminate|].
    destruct (fst k <=? v); [destruct (nit_next_f s cur true)|destruct (nit_next_f s cur false)]; apply IH.
  Qed.

  Lemma traverse_free fuel v s c st c' s' :
    traverse_f H true fuel v s c = (st, c', s') -> nofail s ->
    nofail s' /\ rel (fst (traverse_orphans H fuel v (fp s) c)) st s' /\
    snd (traverse_orphans H fuel v (fp s) c) = c' /\ (st = PNoVersion -> fp s' = fp s).
  Proof.
    unfold traverse_f, traverse_orphans. intros Q N.
    destruct (rkc_get_f c s (v + 1)) as [[x c1] s1] eqn:R1.
    destruct (rkc_get_f_free c s (v + 1) x c1 s1 R1 N) as (N1 & E1 & <-).
    destruct x as [curk| | |]; try (inversion Q; subst; cbn; auto; fail).
    destruct (nit_new_f s1 curk) as [y s2] eqn:X1.
    destruct (nit_new_f_free s1 curk y s2 X1 N1) as (N2 & E2 & ->). rewrite E1 in Q.
    destruct (nit_new (disk (fp s)) curk) as [cur|].
    2:{ inversion Q; subst. cbn. repeat split; auto. discriminate. }
    destruct (rkc_get_f c1 s2 v) as [[x2 c2] s3] eqn:R2.
    destruct (rkc_get_f_free c1 s2 v x2 c2 s3 R2 N2) as (N3 & E3 & R2').
    rewrite E2, E1 in R2'. rewrite <- R2'.
    assert (E3' : fp s3 = fp s) by congruence.
    destruct x2 as [prevk| | |]; try (inversion Q; subst; cbn; auto; fail).
    destruct (nit_new_f s3 prevk) as [z s4] eqn:X2.
    destruct (nit_new_f_free s3 prevk z s4 X2 N3) as (N4 & E4 & ->). rewrite E3' in Q.
    destruct (nit_new (disk (fp s)) prevk) as [prev|].
    2:{ inversion Q; subst. cbn. repeat split; auto. discriminate. }
    destruct (orphans_loop_g H true fuel v s4 cur prev None) as [r s5] eqn:L.
    inversion Q; subst. destruct (loop_free fuel v s4 cur prev None st s' L N4) as (N5 & R).
    assert (E4' : fp s4 = fp s) by congruence. rewrite E4' in R. cbn [fst snd].
    repeat split; auto. intros ->. exfalso. exact (loop_g_not_nov true _ _ _ _ _ _ _ L).
  Qed.

  (** a pair result *)
  Definition rel2 (r : pres pdb * rkc) (st : pres unit) (c' : rkc) (s' : fdb) : Prop :=
    rel (fst r) st s' /\ (match st with POk _ => snd r = c' | _ => True end).

  Lemma tail_free v s c2 st c' s' :
    tail_f v s c2 = (st, c', s') -> nofail s -> nofail s' /\ rel2 (dv_tail v (fp s) c2) st c' s'.
  Proof.
    unfold tail_f, dv_tail, rel2. intros Q N.
    destruct (rkc_get_f c2 s (v + 1)) as [[x c3] s1] eqn:R1.
    destruct (rkc_get_f_free c2 s (v + 1) x c3 s1 R1 N) as (N1 & E1 & <-).
    assert (Plain : forall st c' s', (POk tt, c3, s1) = (st, c', s') ->
              nofail s' /\ rel (fst (POk (fp s), c3)) st s' /\
              match st with POk _ => snd (POk (fp s), c3) = c' | _ => True end).
    { intros ? ? ? Q'. inversion Q'; subst. cbn. auto. }
    destruct x as [k| | |]; cbv beta iota zeta in Q |- *;
      try (inversion Q; subst; cbn; auto; fail); try exact (Plain _ _ _ Q).
    destruct k as [nk|]; [|exact (Plain _ _ _ Q)].
    destruct (keqb nk (v, 1)); [|exact (Plain _ _ _ Q)].
    destruct (get_node_f s1 nk) as [y s2] eqn:G.
    destruct (get_node_f_free s1 nk y s2 G N1) as (N2 & E2 & ->). rewrite E1 in Q.
    destruct (get_node (disk (fp s)) nk) as [root|]. 2:{ inversion Q; subst. cbn. auto. }
    destruct (pwrite_f s2 (set_node ((v, 0), ENode root))) as [ok1 s3] eqn:W1.
    destruct (pwrite_f_free s2 _ ok1 s3 W1 N2) as (N3 & -> & E3).
    destruct (pwrite_f s3 (del_node (v, 1))) as [ok2 s4] eqn:W2.
    destruct (pwrite_f_free s3 _ ok2 s4 W2 N3) as (N4 & -> & E4).
    inversion Q; subst. cbn. split; [exact N4|]. split; [|reflexivity]. congruence.
  Qed.

  Lemma p2_free v rootk s ok s' :
    p2_f v rootk s = (ok, s') -> nofail s -> nofail s' /\ ok = true /\ fp s' = dv_p2 v rootk (fp s).
  Proof.
    unfold p2_f, dv_p2. intros Q N. destruct rootk as [k|].
    - destruct (keqb k (v, 1)); [inversion Q; subst; auto|exact (pwrite_f_free s _ ok s' Q N)].
    - exact (pwrite_f_free s _ ok s' Q N).
  Qed.

  Lemma step1_free fuel v s c1 rootk st c' s' :
    step1_f H true fuel v s c1 rootk = (st, c', s') -> nofail s ->
    nofail s' /\ rel2 (dv_step1 H fuel v (fp s) c1 rootk) st c' s'.
  Proof.
    unfold step1_f, dv_step1, rel2. intros Q N. destruct rootk as [k|].
    2:{ inversion Q; subst. cbn. auto. }
    destruct (traverse_f H true fuel v s c1) as [[x c2] s2] eqn:T.
    destruct (traverse_free fuel v s c1 x c2 s2 T N) as (N2 & R & Ec & Nov).
    destruct (traverse_orphans H fuel v (fp s) c1) as [r cc]. cbn [fst snd] in *. subst cc.
    destruct r as [p'| | |], x as [[]| | |]; cbn [rel] in R; try contradiction;
      inversion Q; subst; cbn; auto.
  Qed.

  Lemma delete_version_free fuel v s c st c' s' :
    delete_version_f H true fuel v s c = (st, c', s') -> nofail s ->
    nofail s' /\ rel2 (delete_version H fuel v (fp s) c) st c' s'.
  Proof.
    rewrite dv_eq. unfold delete_version_f. intros Q N.
    destruct (rkc_get_f c s v) as [[x c1] s1] eqn:R1.
    destruct (rkc_get_f_free c s v x c1 s1 R1 N) as (N1 & E1 & <-).
    assert (Body : forall rootk st c' s',
      match step1_f H true fuel v s1 c1 rootk with
      | (POk _, c2, s2) =>
          match p2_f v rootk s2 with
          | (true, s3) => tail_f v s3 c2
          | (false, s3) => (PErr, c2, s3)
          end
      | (e, c2, s2) => (e, c2, s2)
      end = (st, c', s') ->
      nofail s' /\
      rel2 (match dv_step1 H fuel v (fp s) c1 rootk with
            | (POk p1, c2) => dv_tail v (dv_p2 v rootk p1) c2
            | (e, c2) => (e, c2)
            end) st c' s').
    { clear Q st c' s'. intros rootk st c' s' Q.
      destruct (step1_f H true fuel v s1 c1 rootk) as [[y c2] s2] eqn:S1.
      destruct (step1_free fuel v s1 c1 rootk y c2 s2 S1 N1) as (N2 & R & Ec). rewrite E1 in R, Ec.
      destruct (dv_step1 H fuel v (fp s) c1 rootk) as [r cc]. cbn [fst snd] in *.
      destruct r as [p1| | |], y as [[]| | |]; cbn [rel] in R; try contradiction;
        try (inversion Q; subst; unfold rel2; cbn; auto; fail).
      subst cc. destruct (p2_f v rootk s2) as [ok s3] eqn:P2.
      destruct (p2_free v rootk s2 ok s3 P2 N2) as (N3 & -> & E3).
      destruct (tail_free v s3 c2 st c' s' Q N3) as (N4 & R4). split; [exact N4|].
      rewrite E3, R in R4. exact R4. }
    destruct x as [rootk| | |]; cbv beta iota zeta in Q |- *.
    - exact (Body rootk _ _ _ Q).
    - exact (Body None _ _ _ Q).
    - inversion Q; subst. unfold rel2. cbn. auto.
    - inversion Q; subst. unfold rel2. cbn. auto.
  Qed.

  Lemma delete_range_free fuel vs : forall s c st s',
    delete_range_f H true fuel vs s c = (st, s') -> nofail s ->
    nofail s' /\ rel (delete_range H fuel vs (fp s) c) st s'.
  Proof.
    induction vs as [|v rest IH]; intros s c st s' Q N; cbn [delete_range_f delete_range] in *.
    { inversion Q; subst. split; [exact N|reflexivity]. }
    destruct (delete_version_f H true fuel v s c) as [[x c1] s1] eqn:D.
    destruct (delete_version_free fuel v s c x c1 s1 D N) as (N1 & R & Ec).
    destruct (delete_version H fuel v (fp s) c) as [r cc]. cbn [fst snd] in *.
    destruct r as [p1| | |], x as [[]| | |]; cbn [rel] in R; try contradiction;
      try (inversion Q; subst; cbn; auto; fail).
  Qed.

  (** ** [fault_free_same] *)
  Definition pf_disks (r : pfres) : pres (list store) :=
    match r with
    | FOk p => POk (dhist p)
    | FNoVersion _ => PNoVersion
    | FErr _ => PErr
    | FFuel _ => PFuel
    end.

  Definition pf_result (eff : bool) (r : pfres) : pres (store * list wop * list nat) :=
    match r with
    | FOk p => POk (disk p, (if eff then elog p else wlog p), flushes p)
    | FNoVersion _ => PNoVersion
    | FErr _ => PErr
    | FFuel _ => PFuel
    end.

  Lemma prune_fault_free eff st schedule first latest to :
    latest <=? to = false ->
    match delete_range H (prune_fuel st) (versions_from_to first to)
            (Pdb st [] schedule [] [] eff [] [st]) rkc_new with
    | POk p => prune_fault H true eff st schedule first latest to None = FOk (pflush p)
    | PNoVersion => exists p, prune_fault H true eff st schedule first latest to None = FNoVersion p
    | PErr => exists p, prune_fault H true eff st schedule first latest to None = FErr p
    | PFuel => exists p, prune_fault H true eff st schedule first latest to None = FFuel p
    end.
  Proof.
    intros Lt. unfold prune_fault. rewrite Lt. cbv zeta.
    destruct (delete_range_f H true (prune_fuel st) (versions_from_to first to)
                (Fdb (Pdb st [] schedule [] [] eff [] [st]) 0 None) rkc_new) as [x s'] eqn:D.
    destruct (delete_range_free _ _ _ _ _ _ D eq_refl) as (N & R). cbn [fp] in R.
    destruct (delete_range H (prune_fuel st) (versions_from_to first to)
                (Pdb st [] schedule [] [] eff [] [st]) rkc_new) as [p| | |], x as [[]| | |];
      cbn [rel] in R; try contradiction; eauto.
    unfold tick. unfold nofail in N. rewrite N. cbn [fp]. rewrite R. reflexivity.
  Qed.

  Theorem fault_free_same_disks eff st schedule first latest to :
    pf_disks (prune_fault H true eff st schedule first latest to None) =
    prune_phys_disks H eff st schedule first latest to.
  Proof.
    unfold prune_phys_disks. destruct (latest <=? to) eqn:Lt.
    - unfold prune_fault. rewrite Lt. reflexivity.
    - pose proof (prune_fault_free eff st schedule first latest to Lt) as P. cbv zeta.
      destruct (delete_range H (prune_fuel st) (versions_from_to first to)
                  (Pdb st [] schedule [] [] eff [] [st]) rkc_new) as [p| | |].
      + rewrite P. reflexivity.
      + destruct P as (p & ->). reflexivity.
      + destruct P as (p & ->). reflexivity.
      + destruct P as (p & ->). reflexivity.
  Qed.

  Theorem fault_free_same eff st schedule first latest to :
    pf_result eff (prune_fault H true eff st schedule first latest to None) =
    prune_phys H eff st schedule first latest to.
  Proof.
    unfold prune_phys. destruct (latest <=? to) eqn:Lt.
    - unfold prune_fault. rewrite Lt. reflexivity.
    - pose proof (prune_fault_free eff st schedule first latest to Lt) as P. cbv zeta.
      destruct (delete_range H (prune_fuel st) (versions_from_to first to)
                  (Pdb st [] schedule [] [] eff [] [st]) rkc_new) as [p| | |].
      + rewrite P. reflexivity.
      + destruct P as (p & ->). reflexivity.
      + destruct P as (p & ->). reflexivity.
      + destruct P as (p & ->). reflexivity.
  Qed.
End Free.
