(** Node-read cost model (second half of C11): the EXACT number of [ndb.GetNode] calls made by the
    read paths of an [ImmutableTree] obtained from [GetImmutable(v)], with node cache size 0 and
    the fast index off.

    Setting (node.go, nodedb.go):
    - [GetImmutable] loads the root node: it is in memory ([t.root]); NO other node is.  Every
      node of the tree is persisted, so in every node read from the database [leftNode] and
      [rightNode] are nil and only [leftNodeKey] / [rightNodeKey] are set ([MakeNode]).
    - [getLeftNode] / [getRightNode]: [if node.leftNode != nil { return it }], otherwise ONE
      [t.ndb.GetNode(node.leftNodeKey)], whose result is returned and NOT stored back into
      [node.leftNode].  With a node cache of size 0 every such call is a database read.  Hence
      every call of [getLeftNode]/[getRightNode] on a persisted node costs exactly one read,
      also when the same child is fetched again later.
    - every node read from the database carries its hash ([MakeNode]: inner nodes store it,
      leaves compute it), so [t.Hash()] (called by [createExistenceProof]) returns [root.hash]
      without a read, and [rightNode.hash] / [leftNode.hash] in [pathToLeaf] need only the read
      of that sibling.

    Read counts per call (derived from the Go code, one line per function):
      Node.get            1 per inner node visited ([getLeftNode] XOR [getRightNode])
      Node.has            1 per inner node visited, stops (0 further reads) at a node whose key
                          equals the argument - also at an inner (routing) key
      Node.getByIndex     [getLeftNode] always (to read [leftNode.size]): 1 for a left step,
                          then [getRightNode] as well for a right step: 2
      Node.pathToLeaf     2 per inner node visited (the sibling, for its hash, and the child)
      ImmutableTree.Get (fast index off) / GetWithIndex = root.get;  Has = root.has;
      GetByIndex = root.getByIndex;  all 0 on a nil root
      createExistenceProof = t.Hash() (0) + root.PathToLeaf
      GetMembershipProof   = createExistenceProof
      GetNonMembershipProof = GetWithIndex, then [idx >= 1]: GetByIndex(idx-1) +
                          createExistenceProof(leftkey), then GetByIndex(idx), then
                          [rightkey != nil]: createExistenceProof(rightkey); every error return
                          stops the count there
      GetProof            = Has, then GetMembershipProof or GetNonMembershipProof (which runs
                          GetWithIndex although Has has just made the same descent)

    The functions below are executable and contain no proofs; [CostFacts.v] proves the bounds. *)
From IAVL Require Import Bytes Varint Tree Ics23.
Local Open Scope Z_scope.

(** Node.get / ImmutableTree.Get (fast index off) / ImmutableTree.GetWithIndex *)
Fixpoint cost_get (t : node) (k : bytes) : Z :=
  match t with
  | Leaf _ _ _ => 0
  | Inner nk _ _ _ l r =>
      if blt k nk then 1 + cost_get l k   (* getLeftNode *)
      else 1 + cost_get r k               (* getRightNode *)
  end.

Definition cost_get_with_index (t : node) (k : bytes) : Z := cost_get t k.

(** Node.has / ImmutableTree.Has: same early exit as [Tree.has] *)
Fixpoint cost_has (t : node) (k : bytes) : Z :=
  if beq (nkey t) k then 0 else
  match t with
  | Leaf _ _ _ => 0
  | Inner nk _ _ _ l r =>
      if blt k nk then 1 + cost_has l k else 1 + cost_has r k
  end.

(** Node.getByIndex / ImmutableTree.GetByIndex: the left child is always fetched (for its
    size); a right step fetches the right child as well *)
Fixpoint cost_get_by_index (t : node) (i : Z) : Z :=
  match t with
  | Leaf _ _ _ => 0
  | Inner _ _ _ _ l r =>
      if i <? size l then 1 + cost_get_by_index l i
      else 2 + cost_get_by_index r (i - size l)
  end.

(** Node.PathToLeaf / pathToLeaf: sibling (for its hash) + child at every inner node; the
    "key does not exist" error is raised at the leaf, after all the reads *)
Fixpoint cost_path_to_leaf (t : node) (k : bytes) : Z :=
  match t with
  | Leaf _ _ _ => 0
  | Inner nk _ _ _ l r =>
      if blt k nk then 2 + cost_path_to_leaf l k   (* getRightNode, getLeftNode *)
      else 2 + cost_path_to_leaf r k               (* getLeftNode, getRightNode *)
  end.

(** createExistenceProof on a non-nil root: t.Hash() reads nothing (stored root hash) *)
Definition cost_create_existence_proof (t : node) (k : bytes) : Z := cost_path_to_leaf t k.

(** whether createExistenceProof succeeds: the [ok] flag of [Ics23.path_to_leaf] (it does not
    depend on the hash function / version arguments, CostFacts.path_ok_indep) *)
Definition path_ok (t : node) (k : bytes) : bool :=
  snd (path_to_leaf (fun _ => []) 0 t k).

(** GetMembershipProof: the cost is the same whether the key is there or not (the error is
    found at the leaf) *)
Definition cost_membership_proof (t : node) (k : bytes) : Z := cost_create_existence_proof t k.

(** GetNonMembershipProof: control flow of [Ics23.get_nonmembership_proof_gen] *)
Definition cost_nonmembership_proof (t : node) (key : bytes) : Z :=
  let '(idx, val) := get t key in
  let c0 := cost_get_with_index t key in
  match val with
  | Some _ => c0                     (* "cannot create NonExistanceProof when Key in State" *)
  | None =>
      let '(c1, left_ok) :=
        if 1 <=? idx then
          let leftkey := match get_by_index t (idx - 1) with Some (k, _) => k | None => [] end in
          (c0 + cost_get_by_index t (idx - 1) + cost_create_existence_proof t leftkey,
           path_ok t leftkey)
        else (c0, true) in
      if negb left_ok then c1        (* error of createExistenceProof(leftkey) *)
      else
        let c2 := c1 + cost_get_by_index t idx in
        match get_by_index t idx with
        | None => c2                 (* rightkey == nil: no right proof *)
        | Some (rightkey, _) => c2 + cost_create_existence_proof t rightkey
        end
  end.

(** GetProof on a non-nil root: Has, then the proof it selects *)
Definition cost_get_proof (t : node) (key : bytes) : Z :=
  cost_has t key +
  (if has t key then cost_membership_proof t key else cost_nonmembership_proof t key).

(** The same on [option node] (ImmutableTree with a possibly nil root: no read at all) *)
Definition cost_get_o (t : option node) (k : bytes) : Z :=
  match t with None => 0 | Some n => cost_get n k end.
Definition cost_has_o (t : option node) (k : bytes) : Z :=
  match t with None => 0 | Some n => cost_has n k end.
Definition cost_get_with_index_o (t : option node) (k : bytes) : Z :=
  match t with None => 0 | Some n => cost_get_with_index n k end.
Definition cost_get_by_index_o (t : option node) (i : Z) : Z :=
  match t with None => 0 | Some n => cost_get_by_index n i end.
Definition cost_membership_proof_o (t : option node) (k : bytes) : Z :=
  match t with None => 0 | Some n => cost_membership_proof n k end.
Definition cost_nonmembership_proof_o (t : option node) (k : bytes) : Z :=
  match t with None => 0 | Some n => cost_nonmembership_proof n k end.
Definition cost_get_proof_o (t : option node) (k : bytes) : Z :=
  match t with None => 0 | Some n => cost_get_proof n k end.
