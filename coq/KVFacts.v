(** KVFacts.v -- proofs about the backend models of KV.v (property C18). *)
From IAVL Require Import Bytes VMap KV.
Local Open Scope N_scope.

(** * 0. Invariants and generic list facts *)

Definition nonempty_keys (m : kvs) : Prop := Forall (fun e => fst e <> []) m.
Definition wf_keys (m : kvs) : Prop := Forall (fun e => well_formed (fst e)) m.

(** descending strict order (the sequences reverse traversals produce) *)
Fixpoint dsorted (l : kvs) : Prop :=
  match l with
  | [] => True
  | (k, _) :: rest => Forall (fun e => fst e <b k) rest /\ dsorted rest
  end.

Lemma kv_Forall_ins (P : bytes * bytes -> Prop) k v l :
  P (k, v) -> Forall P l -> Forall P (ins k v l).
Proof.
  intros Hp H. induction H as [|[k' v'] l Hx Hl IH]; simpl; [auto|].
  destruct (bcmp k k'); auto.
Qed.

Lemma kv_Forall_del (P : bytes * bytes -> Prop) k l : Forall P l -> Forall P (del k l).
Proof.
  intros H. induction H as [|[k' v'] l Hx Hl IH]; simpl; [auto|].
  destruct (bcmp k k'); auto.
Qed.

Lemma Forall_filter {A} (P : A -> Prop) f (l : list A) : Forall P l -> Forall P (filter f l).
Proof.
  intros H. induction H as [|x l Hx Hl IH]; simpl; [auto|]. destruct (f x); auto.
Qed.

Lemma sorted_ins k v l : sorted l -> sorted (ins k v l).
Proof.
  induction l as [|[k' v'] l IH]; simpl; intros H.
  - split; auto.
  - destruct H as [H1 H2]. bcases k k'.
    + subst. simpl. split; auto.
    + simpl. split; [|split; auto].
      constructor; [exact E|]. eapply Forall_impl; [|exact H1]. intros a Ha. simpl in *. border.
    + simpl. split; [|auto]. apply kv_Forall_ins; auto.
Qed.

Lemma sorted_del k l : sorted l -> sorted (del k l).
Proof.
  induction l as [|[k' v'] l IH]; simpl; intros H; [auto|].
  destruct H as [H1 H2]. bcases k k'.
  - auto.
  - simpl. auto.
  - simpl. split; [|auto]. apply kv_Forall_del; auto.
Qed.

Lemma sorted_filter f l : sorted l -> sorted (filter f l).
Proof.
  induction l as [|[k v] l IH]; simpl; intros H; [auto|].
  destruct H as [H1 H2]. destruct (f (k, v)); simpl; auto using Forall_filter.
Qed.

Lemma dsorted_filter f l : dsorted l -> dsorted (filter f l).
Proof.
  induction l as [|[k v] l IH]; simpl; intros H; [auto|].
  destruct H as [H1 H2]. destruct (f (k, v)); simpl; auto using Forall_filter.
Qed.

Lemma dsorted_snoc l k v :
  dsorted l -> Forall (fun e => k <b fst e) l -> dsorted (l ++ [(k, v)]).
Proof.
  induction l as [|[k' v'] l IH]; simpl; intros H1 H2.
  - split; auto.
  - destruct H1 as [H1 H1']. inversion H2 as [|? ? H3 H4]; subst. split; [|auto].
    apply Forall_app. split; [auto|]. constructor; [exact H3|constructor].
Qed.

Lemma sorted_rev l : sorted l -> dsorted (rev l).
Proof.
  induction l as [|[k v] l IH]; simpl; intros H; [auto|].
  destruct H as [H1 H2]. apply dsorted_snoc; [auto|]. apply Forall_rev. exact H1.
Qed.

Lemma sorted_NoDup l : sorted l -> NoDup (map fst l).
Proof.
  induction l as [|[k v] l IH]; simpl; intros H; [constructor|].
  destruct H as [H1 H2]. constructor; [|auto].
  intros Hin. apply in_map_iff in Hin. destruct Hin as [[k' v'] [Hk Hin]]. simpl in Hk. subst k'.
  rewrite Forall_forall in H1. specialize (H1 _ Hin). simpl in H1. border.
Qed.

Lemma filter_rev {A} f (l : list A) : filter f (rev l) = rev (filter f l).
Proof.
  induction l as [|x l IH]; simpl; [reflexivity|].
  rewrite filter_app, IH. simpl. destruct (f x); simpl; [reflexivity|]. apply app_nil_r.
Qed.

Lemma filter_and {A} f g (l : list A) :
  filter f (filter g l) = filter (fun x => g x && f x) l.
Proof.
  induction l as [|x l IH]; simpl; [reflexivity|].
  destruct (g x); simpl; [destruct (f x)|]; rewrite IH; reflexivity.
Qed.

Lemma filter_all {A} f (l : list A) : Forall (fun x => f x = true) l -> filter f l = l.
Proof.
  intros H. induction H as [|x l Hx Hl IH]; simpl; [reflexivity|]. rewrite Hx, IH. reflexivity.
Qed.

Lemma filter_none {A} f (l : list A) : Forall (fun x => f x = false) l -> filter f l = [].
Proof.
  intros H. induction H as [|x l Hx Hl IH]; simpl; [reflexivity|]. rewrite Hx. exact IH.
Qed.

Lemma filter_map_comm {A B} (g : A -> B) f (l : list A) :
  filter f (map g l) = map g (filter (fun x => f (g x)) l).
Proof.
  induction l as [|x l IH]; simpl; [reflexivity|]. destruct (f (g x)); simpl; rewrite IH; reflexivity.
Qed.

(** * 6. Point reads see the last write *)

Lemma get_set_same m k v : kv_get (kv_set m k v) k = Some v.
Proof.
  unfold kv_get, kv_set. induction m as [|[k' v'] m IH]; simpl.
  - unfold beq. rewrite bcmp_refl. reflexivity.
  - destruct (bcmp k k') eqn:E; simpl.
    + unfold beq. rewrite bcmp_refl. reflexivity.
    + unfold beq. rewrite bcmp_refl. reflexivity.
    + unfold beq at 1. rewrite E. exact IH.
Qed.

Lemma get_set_other m k v k' : k' <> k -> kv_get (kv_set m k v) k' = kv_get m k'.
Proof.
  intros Hne. unfold kv_get, kv_set. induction m as [|[k0 v0] m IH]; simpl.
  - apply beq_false in Hne. rewrite Hne. reflexivity.
  - bcases k k0; simpl.
    + subst k0. apply beq_false in Hne. rewrite Hne. reflexivity.
    + apply beq_false in Hne. rewrite Hne. reflexivity.
    + rewrite IH. reflexivity.
Qed.

Lemma assoc_none_lt k l : Forall (fun e => k <b fst e) l -> assoc k l = None.
Proof.
  intros H. induction H as [|[k' v'] l Hx Hl IH]; simpl; [reflexivity|].
  simpl in Hx. destruct (beq k k') eqn:E; [|exact IH]. btests. subst. exfalso. border.
Qed.

Lemma get_delete_same m k : sorted m -> kv_get (kv_delete m k) k = None.
Proof.
  unfold kv_get, kv_delete. induction m as [|[k' v'] m IH]; simpl; intros H; [reflexivity|].
  destruct H as [H1 H2]. bcases k k'; simpl.
  - subst. apply assoc_none_lt. exact H1.
  - destruct (beq k k') eqn:E1; [btests; subst; exfalso; border|].
    apply assoc_none_lt. eapply Forall_impl; [|exact H1]. intros a Ha. simpl in *. border.
  - destruct (beq k k') eqn:E1; [btests; subst; exfalso; border|]. auto.
Qed.

Lemma get_delete_other m k k' : k' <> k -> kv_get (kv_delete m k) k' = kv_get m k'.
Proof.
  intros Hne. unfold kv_get, kv_delete. induction m as [|[k0 v0] m IH]; simpl; [reflexivity|].
  bcases k k0; simpl.
  - subst k0. apply beq_false in Hne. rewrite Hne. reflexivity.
  - reflexivity.
  - rewrite IH. reflexivity.
Qed.

Lemma has_get m k : kv_has m k = match kv_get m k with Some _ => true | None => false end.
Proof. reflexivity. Qed.

Theorem last_write_wins :
  (forall m k v, kv_get (kv_set m k v) k = Some v) /\
  (forall m k v k', k' <> k -> kv_get (kv_set m k v) k' = kv_get m k') /\
  (forall m k, sorted m -> kv_get (kv_delete m k) k = None) /\
  (forall m k k', k' <> k -> kv_get (kv_delete m k) k' = kv_get m k') /\
  (forall m k v, sorted m -> sorted (kv_set m k v)) /\
  (forall m k, sorted m -> sorted (kv_delete m k)).
Proof.
  repeat split; intros.
  - apply get_set_same.
  - apply get_set_other; auto.
  - apply get_delete_same; auto.
  - apply get_delete_other; auto.
  - apply sorted_ins; auto.
  - apply sorted_del; auto.
Qed.

(** * 1. cpIncr *)

Lemma ble_cons x a y b :
  ble (x :: a) (y :: b) = if x <? y then true else if x =? y then ble a b else false.
Proof.
  unfold ble. simpl. destruct (N.compare_spec x y); destruct (N.ltb_spec x y);
    destruct (N.eqb_spec x y); try lia; reflexivity.
Qed.

Lemma blt_cons x a y b :
  blt (x :: a) (y :: b) = if x <? y then true else if x =? y then blt a b else false.
Proof.
  unfold blt. simpl. destruct (N.compare_spec x y); destruct (N.ltb_spec x y);
    destruct (N.eqb_spec x y); try lia; reflexivity.
Qed.

Lemma ble_nil k : ble [] k = true.
Proof. destruct k; reflexivity. Qed.
Lemma blt_nil_r k : blt k [] = false.
Proof. destruct k; reflexivity. Qed.
Lemma ble_cons_nil x a : ble (x :: a) [] = false.
Proof. reflexivity. Qed.

Lemma bcmp_app_prefix p a b : bcmp (p ++ a) (p ++ b) = bcmp a b.
Proof. induction p as [|x p IH]; simpl; [reflexivity|]. rewrite N.compare_refl. exact IH. Qed.

Lemma prefix_ble p k : is_prefix p k = true -> ble p k = true.
Proof.
  revert k. induction p as [|x p IH]; intros [|y k]; simpl; intros H; try reflexivity; try discriminate.
  apply andb_true_iff in H. destruct H as [H1 H2]. apply N.eqb_eq in H1. subst y.
  rewrite ble_cons, N.ltb_irrefl, N.eqb_refl. auto.
Qed.

Lemma is_prefix_app p k : is_prefix p (p ++ k) = true.
Proof. induction p as [|x p IH]; simpl; [reflexivity|]. rewrite N.eqb_refl. exact IH. Qed.

Lemma is_prefix_split p k : is_prefix p k = true -> k = p ++ strip p k.
Proof.
  unfold strip. revert k. induction p as [|x p IH]; intros [|y k]; simpl; intros H;
    try reflexivity; try discriminate.
  apply andb_true_iff in H. destruct H as [H1 H2]. apply N.eqb_eq in H1. subst y.
  f_equal. auto.
Qed.

Lemma strip_app p k : strip p (p ++ k) = k.
Proof. unfold strip. induction p as [|x p IH]; simpl; auto. Qed.

(** case analysis on every [<?] / [=?] test in goal and hypotheses *)
Ltac ncases :=
  repeat match goal with
  | H : context [N.ltb _ _] |- _ => revert H
  | H : context [N.eqb _ _] |- _ => revert H
  end;
  repeat match goal with
  | |- context [N.ltb ?a ?b] => destruct (N.ltb_spec a b)
  | |- context [N.eqb ?a ?b] => destruct (N.eqb_spec a b)
  end;
  intros; try lia; try discriminate.

(** a key between two keys that carry the prefix carries the prefix (any byte values) *)
Lemma between_prefix p k e :
  ble p k = true -> blt k (p ++ e) = true -> is_prefix p k = true.
Proof.
  revert k. induction p as [|x p IH]; intros [|y k]; simpl; intros H1 H2; try reflexivity.
  - discriminate.
  - rewrite ble_cons in H1. rewrite blt_cons in H2. ncases. subst. simpl. eauto.
Qed.

(** big-endian increment of the prefix stripped of its trailing 0xFF bytes, head recursive: the
    functional reading of [cpIncr] *)
Fixpoint incr_tight (p : bytes) : option bytes :=
  match p with
  | [] => None
  | x :: r =>
      match incr_tight r with
      | Some r' => Some (x :: r')
      | None => if x <? 255 then Some [x + 1] else None
      end
  end.

Lemma incr_le_snoc l x :
  incr_le (l ++ [x]) =
  match incr_le l with
  | Some l' => Some (l' ++ [x])
  | None => if x <? 255 then Some [x + 1] else None
  end.
Proof.
  induction l as [|y l IH]; simpl.
  - destruct (x <? 255); reflexivity.
  - destruct (y <? 255); [reflexivity|]. exact IH.
Qed.

Lemma cpIncr_tight p : cpIncr p = incr_tight p.
Proof.
  unfold cpIncr. induction p as [|x p IH]; simpl; [reflexivity|].
  rewrite incr_le_snoc. destruct (incr_le (rev p)) as [l'|]; simpl in *.
  - rewrite <- IH. rewrite rev_app_distr. reflexivity.
  - rewrite <- IH. destruct (x <? 255); reflexivity.
Qed.

Definition all_ff (p : bytes) : Prop := Forall (fun x => 255 <= x) p.

Lemma incr_tight_none p : incr_tight p = None -> all_ff p.
Proof.
  induction p as [|x p IH]; simpl; intros H; [constructor|].
  destruct (incr_tight p); [discriminate|]. ncases. constructor; [assumption|]. apply IH. reflexivity.
Qed.

Lemma ff_prefix p k : all_ff p -> well_formed k -> ble p k = true -> is_prefix p k = true.
Proof.
  intros Hp. revert k. induction Hp as [|x p Hx Hp IH]; intros [|y k] Hk H; simpl;
    try reflexivity; try discriminate.
  inversion Hk as [|? ? Hy Hk']; subst. rewrite ble_cons in H. ncases. simpl. auto.
Qed.

Lemma incr_tight_sound p q k : incr_tight p = Some q -> is_prefix p k = true -> blt k q = true.
Proof.
  revert q k. induction p as [|x p IH]; intros q [|y k]; simpl; intros Hq H; try discriminate.
  apply andb_true_iff in H. destruct H as [H1 H2]. apply N.eqb_eq in H1. subst y.
  destruct (incr_tight p) as [r'|].
  - inversion Hq; subst. rewrite blt_cons, N.ltb_irrefl, N.eqb_refl. eauto.
  - destruct (x <? 255) eqn:Ex; [|discriminate]. inversion Hq; subst. rewrite blt_cons.
    clear Ex. ncases.
Qed.

Lemma incr_tight_exact p q k :
  incr_tight p = Some q -> well_formed k ->
  ble p k = true -> blt k q = true -> is_prefix p k = true.
Proof.
  revert q k. induction p as [|x p IH]; intros q [|y k]; simpl; intros Hq Hk H1 H2; try discriminate.
  inversion Hk as [|? ? Hy Hk']; subst. rewrite ble_cons in H1.
  destruct (incr_tight p) as [r'|] eqn:Er.
  - inversion Hq; subst. rewrite blt_cons in H2. ncases. subst. simpl. eauto.
  - destruct (x <? 255) eqn:Ex; [|discriminate]. inversion Hq; subst.
    rewrite blt_cons, blt_nil_r in H2. clear Ex. ncases. subst. simpl.
    apply ff_prefix; auto using incr_tight_none.
Qed.

(** ** Theorem 1: [p, cpIncr p) is exactly the set of keys with prefix [p], for every non-empty
    prefix and all byte values < 256, including 0xFF runs. *)
Theorem cpIncr_spec_none p k :
  p <> [] -> cpIncr p = None -> well_formed k ->
  (ble p k = true <-> is_prefix p k = true).
Proof.
  intros _ H Hk. rewrite cpIncr_tight in H.
  split; [apply ff_prefix; auto using incr_tight_none | apply prefix_ble].
Qed.

(** the range always covers the whole prefix (any byte values) *)
Theorem cpIncr_spec_sound p q k :
  cpIncr p = Some q -> is_prefix p k = true -> ble p k = true /\ blt k q = true.
Proof.
  intros H Hp. split; [apply prefix_ble; exact Hp|].
  rewrite cpIncr_tight in H. eapply incr_tight_sound; eauto.
Qed.

Theorem cpIncr_spec p q k :
  cpIncr p = Some q -> well_formed k ->
  ((ble p k = true /\ blt k q = true) <-> is_prefix p k = true).
Proof.
  intros H Hk. split; [|apply cpIncr_spec_sound; exact H].
  intros [H1 H2]. rewrite cpIncr_tight in H. eapply incr_tight_exact; eauto.
Qed.

(** [cpIncr p = None] exactly for the all-0xFF prefixes *)
Theorem cpIncr_none_iff p : cpIncr p = None <-> all_ff p.
Proof.
  rewrite cpIncr_tight. split; [apply incr_tight_none|].
  intros H. induction H as [|x p Hx Hp IH]; simpl; [reflexivity|]. rewrite IH.
  destruct (N.ltb_spec x 255); [lia|reflexivity].
Qed.

(** * 3. MemDB iterators *)

Lemma ble_negb_blt a k : ble a k = negb (blt k a).
Proof. unfold ble, blt. rewrite (bcmp_antisym k a). destruct (bcmp k a); reflexivity. Qed.

Lemma ble_blt_and k e : ble k e && blt k e = blt k e.
Proof. unfold ble, blt. destruct (bcmp k e); reflexivity. Qed.

Lemma Forall_filter_true {A} f (l : list A) : Forall (fun x => f x = true) (filter f l).
Proof.
  induction l as [|x l IH]; simpl; [constructor|]. destruct (f x) eqn:E; [constructor|]; auto.
Qed.

Lemma visit_none seq : visit seq None None = seq.
Proof. induction seq as [|[k v] seq IH]; simpl; [reflexivity|]. rewrite IH. reflexivity. Qed.

(** on a descending sequence, aborting below [a] = keeping the keys [>= a] *)
Lemma visit_abort d a :
  dsorted d -> visit d None (Some a) = filter (fun e => ble a (fst e)) d.
Proof.
  induction d as [|[k v] d IH]; simpl; intros H; [reflexivity|]. destruct H as [H1 H2].
  rewrite ble_negb_blt. destruct (blt k a) eqn:E; simpl.
  - symmetry. apply filter_none. eapply Forall_impl; [|exact H1]. intros x Hx. simpl in Hx.
    apply ble_false. btests. border.
  - rewrite IH by exact H2. reflexivity.
Qed.

Lemma visit_noskip d e ab :
  Forall (fun x => fst x <> e) d -> visit d (Some e) ab = visit d None ab.
Proof.
  intros H. induction H as [|[k v] d Hx Hd IH]; simpl; [reflexivity|].
  simpl in Hx. apply beq_false in Hx. rewrite Hx, IH. reflexivity.
Qed.

(** DescendLessOrEqual(e) offers [e] first if present: [skipEqual] removes exactly it *)
Lemma visit_skip d e ab :
  dsorted d -> Forall (fun x => fst x <=b e) d ->
  visit d (Some e) ab = visit (filter (fun x => blt (fst x) e) d) None ab.
Proof.
  induction d as [|[k v] d IH]; simpl; intros H1 H2; [reflexivity|].
  destruct H1 as [H1 H1']. inversion H2 as [|? ? H3 H4]; subst. simpl in H3.
  destruct (beq k e) eqn:E.
  - btests. subst k. assert (blt e e = false) as -> by (apply blt_false; border).
    f_equal. symmetry. apply filter_all. eapply Forall_impl; [|exact H1]. intros x Hx. simpl in Hx.
    apply blt_true. exact Hx.
  - btests. assert (blt k e = true) as -> by (apply blt_true; border). simpl.
    rewrite IH by assumption. reflexivity.
Qed.

Theorem memdb_iter_spec l start stop :
  sorted l ->
  memdb_iter l start stop false = kv_iter l start stop /\
  memdb_iter l start stop true = kv_riter l start stop.
Proof.
  intros Hs. unfold memdb_iter, kv_riter, kv_iter, bt_ascend, bt_descend, bt_ascend_ge,
    bt_ascend_range, bt_descend_le.
  assert (forall e, Forall (fun x => fst x <=b e) (rev (filter (fun x => ble (fst x) e) l))) as Hle.
  { intros e. apply Forall_rev. eapply Forall_impl; [|apply Forall_filter_true].
    intros x Hx. simpl in Hx. apply ble_true. exact Hx. }
  destruct start as [a|], stop as [e|]; simpl; split; rewrite ?visit_none.
  - reflexivity.
  - rewrite visit_skip by (auto using sorted_rev, sorted_filter).
    rewrite visit_abort by (auto using dsorted_filter, sorted_rev, sorted_filter).
    rewrite !filter_rev, !filter_and. f_equal. apply filter_ext. intros [k v]. simpl.
    unfold in_range. rewrite andb_assoc, ble_blt_and. apply andb_comm.
  - apply filter_ext. intros [k v]. unfold in_range. simpl. symmetry. apply andb_true_r.
  - rewrite visit_abort by (auto using sorted_rev). rewrite filter_rev. f_equal.
    apply filter_ext. intros [k v]. unfold in_range. simpl. symmetry. apply andb_true_r.
  - apply filter_ext. intros [k v]. unfold in_range. simpl. rewrite ble_nil. reflexivity.
  - rewrite visit_skip by (auto using sorted_rev, sorted_filter). rewrite visit_none.
    rewrite filter_rev, filter_and. f_equal. apply filter_ext. intros [k v]. simpl.
    unfold in_range. simpl. apply ble_blt_and.
  - symmetry. apply filter_all. apply Forall_forall. intros x _. reflexivity.
  - f_equal. symmetry. apply filter_all. apply Forall_forall. intros x _. reflexivity.
Qed.

(** * 4. GoLevelDB iterator adapter *)

Fixpoint tw {A} (f : A -> bool) (l : list A) : list A :=
  match l with [] => [] | x :: r => if f x then x :: tw f r else [] end.
Fixpoint dw {A} (f : A -> bool) (l : list A) : list A :=
  match l with [] => [] | x :: r => if f x then dw f r else l end.

Lemma tw_dw {A} (f : A -> bool) l : tw f l ++ dw f l = l.
Proof. induction l as [|x l IH]; simpl; [reflexivity|]. destruct (f x); simpl; [rewrite IH|]; reflexivity. Qed.

Lemma tw_length {A} (f : A -> bool) l : (length (tw f l) <= length l)%nat.
Proof. induction l as [|x l IH]; simpl; [lia|]. destruct (f x); simpl; lia. Qed.
Lemma dw_length {A} (f : A -> bool) l : (length (dw f l) <= length l)%nat.
Proof. induction l as [|x l IH]; simpl; [lia|]. destruct (f x); simpl; lia. Qed.

Lemma dw_head {A} (f : A -> bool) l x r : dw f l = x :: r -> f x = false.
Proof.
  induction l as [|y l IH]; simpl; [discriminate|]. destruct (f y) eqn:E; [exact IH|].
  intros H. inversion H; subst. exact E.
Qed.

Lemma tw_all {A} (f : A -> bool) l : (forall x, f x = true) -> tw f l = l.
Proof. intros H. induction l as [|x l IH]; simpl; [reflexivity|]. rewrite H, IH. reflexivity. Qed.

Definition start_ok (start : option bytes) : bytes * bytes -> bool :=
  fun e => match start with Some a => ble a (fst e) | None => true end.
Definition stop_ok (stop : option bytes) : bytes * bytes -> bool :=
  fun e => match stop with Some b => blt (fst e) b | None => true end.

Lemma kv_iter_ok m start stop :
  kv_iter m start stop = filter (fun e => start_ok start e && stop_ok stop e) m.
Proof. reflexivity. Qed.

Lemma sorted_tw_lt s k :
  sorted s -> tw (fun e => blt (fst e) k) s = filter (fun e => blt (fst e) k) s.
Proof.
  induction s as [|[k' v'] s IH]; simpl; intros H; [reflexivity|]. destruct H as [H1 H2].
  destruct (blt k' k) eqn:E; [rewrite IH by exact H2; reflexivity|].
  symmetry. apply filter_none. eapply Forall_impl; [|exact H1]. intros x Hx. simpl in Hx.
  apply blt_false. btests. border.
Qed.

Lemma sorted_dw_lt s k :
  sorted s -> dw (fun e => blt (fst e) k) s = filter (fun e => ble k (fst e)) s.
Proof.
  induction s as [|[k' v'] s IH]; simpl; intros H; [reflexivity|]. destruct H as [H1 H2].
  rewrite ble_negb_blt. destruct (blt k' k) eqn:E; simpl; [auto|].
  f_equal. symmetry. apply filter_all. eapply Forall_impl; [|exact H1]. intros x Hx. simpl in Hx.
  apply ble_true. btests. border.
Qed.

Lemma dsorted_tw_ge d a :
  dsorted d -> tw (fun e => ble a (fst e)) d = filter (fun e => ble a (fst e)) d.
Proof.
  induction d as [|[k v] d IH]; simpl; intros H; [reflexivity|]. destruct H as [H1 H2].
  destruct (ble a k) eqn:E; [rewrite IH by exact H2; reflexivity|].
  symmetry. apply filter_none. eapply Forall_impl; [|exact H1]. intros x Hx. simpl in Hx.
  apply ble_false. btests. border.
Qed.

Lemma tw_stop_ok s stop : sorted s -> tw (stop_ok stop) s = filter (stop_ok stop) s.
Proof.
  intros H. destruct stop as [b|]; unfold stop_ok.
  - apply sorted_tw_lt. exact H.
  - rewrite tw_all by reflexivity. symmetry. apply filter_all. apply Forall_forall. reflexivity.
Qed.

Lemma tw_start_ok d start : dsorted d -> tw (start_ok start) d = filter (start_ok start) d.
Proof.
  intros H. destruct start as [a|]; unfold start_ok.
  - apply dsorted_tw_ge. exact H.
  - rewrite tw_all by reflexivity. symmetry. apply filter_all. apply Forall_forall. reflexivity.
Qed.

Lemma ldb_loop_off fuel s start stop reverse c inv :
  l_valid c = false -> ldb_loop (S fuel) s start stop reverse c inv = Some [].
Proof.
  intros H. simpl. unfold ldb_valid. destruct inv; [reflexivity|].
  destruct c; try discriminate; reflexivity.
Qed.

Lemma ldb_loop_fwd s start stop aft : forall bef x fuel,
  (length aft + 2 <= fuel)%nat ->
  ldb_loop fuel s start stop false (LAt bef x aft) false = Some (tw (stop_ok stop) (x :: aft)).
Proof.
  induction aft as [|y aft IH]; intros bef [k v] fuel Hf; (destruct fuel as [|f]; [simpl in Hf; lia|]);
    destruct stop as [b|]; cbn [ldb_loop ldb_valid tw l_key l_next stop_ok fst].
  - rewrite ble_negb_blt. destruct (blt k b); simpl; [|reflexivity].
    destruct f as [|f]; [simpl in Hf; lia|]. rewrite ldb_loop_off by reflexivity. reflexivity.
  - destruct f as [|f]; [simpl in Hf; lia|]. rewrite ldb_loop_off by reflexivity. reflexivity.
  - rewrite ble_negb_blt. destruct (blt k b) eqn:E; simpl; [|reflexivity].
    rewrite IH by (simpl in Hf; lia). reflexivity.
  - rewrite IH by (simpl in Hf; lia). reflexivity.
Qed.

Lemma ldb_loop_rev s start stop bef : forall aft x fuel,
  (length bef + 2 <= fuel)%nat ->
  ldb_loop fuel s start stop true (LAt bef x aft) false = Some (tw (start_ok start) (x :: bef)).
Proof.
  induction bef as [|y bef IH]; intros aft [k v] fuel Hf; (destruct fuel as [|f]; [simpl in Hf; lia|]);
    destruct start as [a|]; cbn [ldb_loop ldb_valid tw l_key l_prev start_ok fst].
  - rewrite ble_negb_blt. destruct (blt k a); simpl; [reflexivity|].
    destruct f as [|f]; [simpl in Hf; lia|]. rewrite ldb_loop_off by reflexivity. reflexivity.
  - destruct f as [|f]; [simpl in Hf; lia|]. rewrite ldb_loop_off by reflexivity. reflexivity.
  - rewrite ble_negb_blt. destruct (blt k a) eqn:E; simpl; [reflexivity|].
    rewrite IH by (simpl in Hf; lia). reflexivity.
  - rewrite IH by (simpl in Hf; lia). reflexivity.
Qed.

Lemma l_seek_from_spec s k : forall bef,
  l_seek_from bef s k =
  match dw (fun e => blt (fst e) k) s with
  | [] => LEOI
  | x :: aft => LAt (rev (tw (fun e => blt (fst e) k) s) ++ bef) x aft
  end.
Proof.
  induction s as [|x s IH]; intros bef; simpl; [reflexivity|].
  rewrite ble_negb_blt. destruct (blt (fst x) k); simpl; [|reflexivity].
  rewrite IH. destruct (dw (fun e => blt (fst e) k) s); [reflexivity|].
  rewrite <- app_assoc. reflexivity.
Qed.

Lemma dw_start_ok a s :
  dw (fun e => negb (start_ok (Some a) e)) s = dw (fun e => blt (fst e) a) s.
Proof.
  induction s as [|x s IH]; simpl; [reflexivity|]. rewrite ble_negb_blt, negb_involutive.
  destruct (blt (fst x) a); [exact IH|reflexivity].
Qed.

(** the adapter on any sorted source sequence, restricted or not *)
Theorem ldb_run_spec s start stop :
  sorted s ->
  ldb_run s start stop false = Some (kv_iter s start stop) /\
  ldb_run s start stop true = Some (kv_riter s start stop).
Proof.
  intros Hs. unfold ldb_run, kv_riter. rewrite kv_iter_ok. split.
  - (* forward *)
    assert (ldb_loop (S (S (length s))) s start stop false (ldb_new s start stop false) false
            = Some (tw (stop_ok stop) (dw (fun e => negb (start_ok start e)) s))) as ->.
    { unfold ldb_new. destruct start as [a|].
      - unfold l_seek. rewrite l_seek_from_spec.
        rewrite dw_start_ok.
        pose proof (dw_length (fun e => blt (fst e) a) s) as Hl.
        destruct (dw (fun e => blt (fst e) a) s) as [|x aft].
        + apply ldb_loop_off. reflexivity.
        + apply ldb_loop_fwd. simpl in Hl. lia.
      - unfold l_first. destruct s as [|x r].
        + rewrite ldb_loop_off by reflexivity. reflexivity.
        + rewrite ldb_loop_fwd by (simpl; lia). reflexivity. }
    f_equal. destruct start as [a|].
    + assert (dw (fun e => negb (start_ok (Some a) e)) s = filter (start_ok (Some a)) s) as ->.
      { rewrite dw_start_ok. apply sorted_dw_lt. exact Hs. }
      rewrite tw_stop_ok by (apply sorted_filter; exact Hs). apply filter_and.
    + assert (dw (fun e => negb (start_ok None e)) s = s) as ->
        by (destruct s; reflexivity).
      rewrite tw_stop_ok by exact Hs. reflexivity.
  - (* reverse *)
    assert (ldb_loop (S (S (length s))) s start stop true (ldb_new s start stop true) false
            = Some (tw (start_ok start) (rev (tw (stop_ok stop) s)))) as ->.
    { pose proof (tw_length (stop_ok stop) s) as Hl. rewrite <- rev_length in Hl.
      assert (match rev (tw (stop_ok stop) s) with
              | [] => ldb_new s start stop true = LSOI
              | x :: bef => exists aft, ldb_new s start stop true = LAt bef x aft
              end) as Hn.
      { unfold ldb_new. destruct stop as [b|].
        - unfold l_seek. rewrite l_seek_from_spec. unfold stop_ok.
          pose proof (tw_dw (fun e => blt (fst e) b) s) as Htd.
          destruct (dw (fun e => blt (fst e) b) s) as [|[k v] aft] eqn:Ed.
          + simpl. rewrite app_nil_r in Htd. rewrite Htd. unfold l_last.
            destruct (rev s); eauto.
          + apply dw_head in Ed. simpl in Ed. cbn [l_valid l_key]. rewrite ble_negb_blt, Ed.
            simpl. rewrite app_nil_r. destruct (rev (tw (fun e => blt (fst e) b) s)); eauto.
        - unfold stop_ok. rewrite tw_all by reflexivity. unfold l_last. destruct (rev s); eauto. }
      destruct (rev (tw (stop_ok stop) s)) as [|x bef].
      - rewrite Hn. apply ldb_loop_off. reflexivity.
      - destruct Hn as [aft ->]. apply ldb_loop_rev. simpl in Hl. lia. }
    f_equal. rewrite tw_stop_ok by exact Hs.
    rewrite tw_start_ok by (apply sorted_rev, sorted_filter; exact Hs).
    rewrite filter_rev, filter_and. f_equal. apply filter_ext. intros x. apply andb_comm.
Qed.

Lemma kv_iter_idem l start stop : kv_iter (kv_iter l start stop) start stop = kv_iter l start stop.
Proof.
  unfold kv_iter. rewrite filter_and. apply filter_ext. intros x. apply andb_diag.
Qed.

Theorem ldb_collect_spec l start stop :
  sorted l ->
  ldb_collect l start stop false = Some (kv_iter l start stop) /\
  ldb_collect l start stop true = Some (kv_riter l start stop).
Proof.
  intros Hs. unfold ldb_collect.
  destruct (ldb_run_spec (kv_iter l start stop) start stop) as [H1 H2].
  { apply sorted_filter. exact Hs. }
  unfold kv_riter in *. rewrite kv_iter_idem in H1, H2. auto.
Qed.

(** * 5. Batches *)

Definition op_key (o : batch_op) : bytes := match o with BSet k _ => k | BDel k => k end.
Definition pfx_op (p : bytes) (o : batch_op) : batch_op :=
  match o with BSet k v => BSet (p ++ k) v | BDel k => BDel (p ++ k) end.

(** result of a batch call / the operation it records, as a function of the call alone *)
Definition bop_result (closed : bool) (o : bop) : option kverr :=
  let '(s, k, v) := o in
  if is_empty k then Some ErrKeyEmpty
  else if (s : bool) then
    match v with
    | None => Some ErrValueNil
    | Some _ => if (closed : bool) then Some ErrBatchClosed else None
    end
  else if closed then Some ErrBatchClosed else None.

Definition bop_accept (o : bop) : list batch_op :=
  let '(s, k, v) := o in
  if is_empty k then []
  else if (s : bool) then match v with None => [] | Some v' => [BSet k v'] end
  else [BDel k].

Lemma is_empty_app p k : is_empty k = false -> is_empty (p ++ k) = false.
Proof. destruct p; simpl; auto. Qed.

Lemma bop_accept_nonempty o : Forall (fun x => op_key x <> []) (bop_accept o).
Proof.
  destruct o as [[s k] v]. unfold bop_accept. destruct k as [|x k]; simpl; [constructor|].
  destruct s; [destruct v|]; repeat constructor; simpl; discriminate.
Qed.

Lemma accepted_nonempty ops : Forall (fun x => op_key x <> []) (flat_map bop_accept ops).
Proof.
  induction ops as [|o ops IH]; simpl; [constructor|]. apply Forall_app. split; [|exact IH].
  apply bop_accept_nonempty.
Qed.

(** every call on a closed batch fails and leaves it unchanged *)
Lemma b_set_closed b k v : b_closed b = true -> exists e, b_set b k v = (b, Some e).
Proof.
  intros H. unfold b_set. destruct (is_empty k); [eauto|]. destruct v; [|eauto]. rewrite H. eauto.
Qed.
Lemma b_delete_closed b k : b_closed b = true -> exists e, b_delete b k = (b, Some e).
Proof. intros H. unfold b_delete. destruct (is_empty k); [eauto|]. rewrite H. eauto. Qed.
Lemma b_write_closed b m : b_closed b = true -> b_write b m = (b, m, Some ErrBatchClosed).
Proof. intros H. unfold b_write. rewrite H. reflexivity. Qed.
Lemma b_write_open b m :
  b_closed b = false -> b_write b m = (mkBatch [] true, fold_left apply_op (b_ops b) m, None).
Proof. intros H. unfold b_write. rewrite H. reflexivity. Qed.
Lemma b_write_closes b m : b_closed (fst (fst (b_write b m))) = true.
Proof. unfold b_write. destruct (b_closed b) eqn:E; simpl; auto. Qed.
Lemma b_close_closes b : b_closed (fst (b_close b)) = true.
Proof. reflexivity. Qed.
Lemma bop_result_closed o : bop_result true o <> None.
Proof.
  destruct o as [[s k] v]. unfold bop_result. destruct (is_empty k); [discriminate|].
  destruct s; [destruct v|]; discriminate.
Qed.

(** an empty key or a nil value never enters a batch *)
Lemma b_set_rejects b v : b_set b [] v = (b, Some ErrKeyEmpty).
Proof. reflexivity. Qed.
Lemma b_set_rejects_nil b k : k <> [] -> b_set b k None = (b, Some ErrValueNil).
Proof. destruct k; [congruence|reflexivity]. Qed.
Lemma b_delete_rejects b : b_delete b [] = (b, Some ErrKeyEmpty).
Proof. reflexivity. Qed.

Lemma run_bops_open p ops : forall b,
  b_closed b = false ->
  run_bops (pb_set p) (pb_delete p) b ops =
  (mkBatch (b_ops b ++ map (pfx_op p) (flat_map bop_accept ops)) false, map (bop_result false) ops).
Proof.
  induction ops as [|[[s k] v] ops IH]; intros [o c] Hc; simpl in Hc; subst c; simpl.
  - rewrite app_nil_r. reflexivity.
  - unfold pb_set, pb_delete, b_set, b_delete.
    destruct (is_empty k) eqn:Ek.
    + destruct s; rewrite IH by reflexivity; reflexivity.
    + rewrite (is_empty_app p k Ek). destruct s.
      * destruct v as [v'|]; simpl; rewrite IH by reflexivity; simpl; [|reflexivity].
        rewrite <- app_assoc. reflexivity.
      * simpl. rewrite IH by reflexivity. simpl. rewrite <- app_assoc. reflexivity.
Qed.

Lemma run_bops_closed p ops : forall b,
  b_closed b = true ->
  run_bops (pb_set p) (pb_delete p) b ops = (b, map (bop_result true) ops).
Proof.
  induction ops as [|[[s k] v] ops IH]; intros [o c] Hc; simpl in Hc; subst c; simpl; [reflexivity|].
  unfold pb_set, pb_delete, b_set, b_delete.
  destruct (is_empty k) eqn:Ek.
  - destruct s; rewrite IH by reflexivity; reflexivity.
  - rewrite (is_empty_app p k Ek). destruct s.
    + destruct v as [v'|]; simpl; rewrite IH by reflexivity; reflexivity.
    + simpl. rewrite IH by reflexivity. reflexivity.
Qed.

Lemma run_bops_ext f1 d1 f2 d2 ops : forall b,
  (forall b k v, f1 b k v = f2 b k v) -> (forall b k, d1 b k = d2 b k) ->
  run_bops f1 d1 b ops = run_bops f2 d2 b ops.
Proof.
  induction ops as [|[[s k] v] ops IH]; intros b Hf Hd; simpl; [reflexivity|].
  rewrite Hf, Hd. destruct (if s then f2 b k v else d2 b k) as [b' r]. rewrite IH by assumption.
  reflexivity.
Qed.

Lemma pb_set_nil b k v : pb_set [] b k v = b_set b k v.
Proof. unfold pb_set, b_set. simpl. destruct (is_empty k); [reflexivity|]. destruct v; reflexivity. Qed.
Lemma pb_delete_nil b k : pb_delete [] b k = b_delete b k.
Proof. unfold pb_delete, b_delete. simpl. destruct (is_empty k); reflexivity. Qed.

Lemma map_pfx_op_nil ops : map (pfx_op []) ops = ops.
Proof. induction ops as [|[k v|k] ops IH]; simpl; rewrite ?IH; reflexivity. Qed.

(** the whole batch program: accepted operations applied in order at [Write]; every call after
    [Write]/[Close] is an error and changes neither the batch nor the store *)
Theorem batch_prog_prefix p m ops1 w ops2 :
  batch_prog (pb_set p) (pb_delete p) m ops1 w ops2 =
  ((if w then fold_left apply_op (map (pfx_op p) (flat_map bop_accept ops1)) m else m),
   OBatch (map (bop_result false) ops1 ++ [None] ++ map (bop_result true) ops2
           ++ [Some ErrBatchClosed])).
Proof.
  unfold batch_prog. rewrite run_bops_open by reflexivity. simpl b_ops. cbn [app].
  destruct w.
  - rewrite b_write_open by reflexivity. rewrite run_bops_closed by reflexivity.
    rewrite b_write_closed by reflexivity. reflexivity.
  - cbn [b_close fst snd]. rewrite run_bops_closed by reflexivity.
    rewrite b_write_closed by reflexivity. reflexivity.
Qed.

Lemma batch_prog_ext f1 d1 f2 d2 m ops1 w ops2 :
  (forall b k v, f1 b k v = f2 b k v) -> (forall b k, d1 b k = d2 b k) ->
  batch_prog f1 d1 m ops1 w ops2 = batch_prog f2 d2 m ops1 w ops2.
Proof.
  intros Hf Hd. unfold batch_prog. rewrite (run_bops_ext f1 d1 f2 d2) by assumption.
  destruct (run_bops f2 d2 b_new ops1) as [b1 r1].
  destruct (if w then b_write b1 m else (fst (b_close b1), m, snd (b_close b1))) as [[b2 m2] rw].
  rewrite (run_bops_ext f1 d1 f2 d2) by assumption. reflexivity.
Qed.

Theorem batch_spec m ops1 w ops2 :
  kv_step m (KBatch ops1 w ops2) =
  ((if w then fold_left apply_op (flat_map bop_accept ops1) m else m),
   OBatch (map (bop_result false) ops1 ++ [None] ++ map (bop_result true) ops2
           ++ [Some ErrBatchClosed])).
Proof.
  cbn [kv_step].
  rewrite (batch_prog_ext b_set b_delete (pb_set []) (pb_delete []))
    by (intros; symmetry; auto using pb_set_nil, pb_delete_nil).
  rewrite batch_prog_prefix, map_pfx_op_nil. reflexivity.
Qed.

(** * Store invariants *)

Definition store_inv (m : kvs) : Prop := sorted m /\ nonempty_keys m.

Lemma apply_op_inv m o : op_key o <> [] -> store_inv m -> store_inv (apply_op m o).
Proof.
  intros Hk [Hs Hn]. destruct o as [k v|k]; simpl in *; split;
    auto using sorted_ins, sorted_del.
  - apply kv_Forall_ins; auto.
  - apply kv_Forall_del; auto.
Qed.

Lemma fold_apply_inv ops : forall m,
  Forall (fun o => op_key o <> []) ops -> store_inv m -> store_inv (fold_left apply_op ops m).
Proof.
  induction ops as [|o ops IH]; intros m Ho Hm; simpl; [exact Hm|].
  inversion Ho; subst. apply IH; [assumption|]. apply apply_op_inv; assumption.
Qed.

Lemma is_empty_false k : is_empty k = false -> k <> [].
Proof. destruct k; [discriminate|discriminate]. Qed.

Theorem kv_step_inv m op : store_inv m -> store_inv (fst (kv_step m op)).
Proof.
  intros Hm. destruct op as [k|k|k v|k|a b|a b|ops1 w ops2].
  - simpl. destruct (is_empty k); exact Hm.
  - simpl. destruct (is_empty k); exact Hm.
  - simpl. destruct (is_empty k) eqn:Ek; [exact Hm|]. destruct v as [v'|]; [|exact Hm].
    apply (apply_op_inv m (BSet k v')); [apply is_empty_false; exact Ek|exact Hm].
  - simpl. destruct (is_empty k) eqn:Ek; [exact Hm|].
    apply (apply_op_inv m (BDel k)); [apply is_empty_false; exact Ek|exact Hm].
  - simpl. destruct (bad_bound a || bad_bound b); exact Hm.
  - simpl. destruct (bad_bound a || bad_bound b); exact Hm.
  - rewrite batch_spec. simpl. destruct w; [|exact Hm].
    apply fold_apply_inv; [apply accepted_nonempty|exact Hm].
Qed.

(** MemDB and GoLevelDB models agree with the spec step on every store satisfying the invariant
    (GoLevelDB: except [Has] of an empty key, which it answers [false] instead of an error) *)
Theorem mem_step_spec m op : sorted m -> mem_step m op = kv_step m op.
Proof.
  intros Hs.
  destruct op as [k|k|k v|k|a b|a b|ops1 w ops2]; try reflexivity; simpl;
    destruct (memdb_iter_spec m a b Hs) as [H1 H2]; rewrite ?H1, ?H2; reflexivity.
Qed.

Theorem ldb_step_spec m op :
  sorted m -> op <> KHas [] -> ldb_step m op = kv_step m op.
Proof.
  intros Hs Hop.
  destruct op as [k|k|k v|k|a b|a b|ops1 w ops2]; try reflexivity; simpl.
  - destruct k; [congruence|reflexivity].
  - destruct (ldb_collect_spec m a b Hs) as [H1 H2]. rewrite H1. reflexivity.
  - destruct (ldb_collect_spec m a b Hs) as [H1 H2]. rewrite H2. reflexivity.
Qed.

Lemma ldb_step_has_empty m : ldb_step m (KHas []) = (m, OBool (kv_has m [])).
Proof. reflexivity. Qed.

Theorem mem_step_inv m op : store_inv m -> store_inv (fst (mem_step m op)).
Proof. intros Hm. rewrite mem_step_spec by apply Hm. apply kv_step_inv. exact Hm. Qed.

Theorem ldb_step_inv m op : store_inv m -> store_inv (fst (ldb_step m op)).
Proof.
  intros Hm. destruct op as [k|k|k v|k|a b|a b|ops1 w ops2];
    try (rewrite ldb_step_spec by (try apply Hm; discriminate); apply kv_step_inv; exact Hm).
  exact Hm.
Qed.

(** * 2. PrefixDB is the spec on the sub-map of its namespace *)

(** entries of the namespace: keys [p ++ k] with [k <> []] *)
Definition inview (p : bytes) (e : bytes * bytes) : bool :=
  is_prefix p (fst e) && negb (beq (fst e) p).
Definition stripe (p : bytes) (e : bytes * bytes) : bytes * bytes := (strip p (fst e), snd e).
Definition view (p : bytes) (m : kvs) : kvs := map (stripe p) (filter (inview p) m).
Definition outside (p : bytes) (m : kvs) : kvs := filter (fun e => negb (inview p e)) m.
Definition pre (p : bytes) (l : kvs) : kvs := map (fun e => (p ++ fst e, snd e)) l.

Lemma beq_app_nil p k : beq (p ++ k) p = is_empty k.
Proof.
  unfold beq. rewrite <- (app_nil_r p) at 2. rewrite bcmp_app_prefix. destruct k; reflexivity.
Qed.

Lemma inview_app p k v : inview p (p ++ k, v) = negb (is_empty k).
Proof. unfold inview. simpl. rewrite is_prefix_app, beq_app_nil. reflexivity. Qed.

Lemma filter_inview_pre p m : filter (inview p) m = pre p (view p m).
Proof.
  unfold pre, view. rewrite map_map. rewrite <- (map_id (filter (inview p) m)) at 1.
  apply map_ext_in. intros [k v] Hin. apply filter_In in Hin. destruct Hin as [_ Hv].
  unfold inview in Hv. simpl in *. apply andb_true_iff in Hv. destruct Hv as [Hp _].
  rewrite <- (is_prefix_split p k Hp). reflexivity.
Qed.

Lemma stripe_pre p l : map (stripe p) (pre p l) = l.
Proof.
  unfold pre. rewrite map_map. rewrite <- (map_id l) at 2. apply map_ext. intros [k v].
  unfold stripe. simpl. rewrite strip_app. reflexivity.
Qed.

Lemma lt_app_prefix p a b : p ++ a <b p ++ b <-> a <b b.
Proof. unfold BytesO.lt. rewrite bcmp_app_prefix. reflexivity. Qed.

Lemma sorted_pre_inv p l : sorted (pre p l) -> sorted l.
Proof.
  induction l as [|[k v] l IH]; simpl; intros H; [auto|]. destruct H as [H1 H2]. split; [|auto].
  unfold pre in H1. rewrite Forall_map in H1. eapply Forall_impl; [|exact H1].
  intros [k' v'] H. simpl in *. apply lt_app_prefix in H. exact H.
Qed.

Lemma sorted_view p m : sorted m -> sorted (view p m).
Proof.
  intros H. apply (sorted_pre_inv p). rewrite <- filter_inview_pre. apply sorted_filter. exact H.
Qed.

Lemma view_nonempty p m : nonempty_keys (view p m).
Proof.
  unfold nonempty_keys, view. rewrite Forall_map. apply Forall_forall. intros [k v] Hin.
  apply filter_In in Hin. destruct Hin as [_ Hv]. unfold inview in Hv. simpl in *.
  apply andb_true_iff in Hv. destruct Hv as [Hp Hne]. intros He.
  apply is_prefix_split in Hp. rewrite He, app_nil_r in Hp. subst k.
  unfold beq in Hne. rewrite bcmp_refl in Hne. discriminate.
Qed.

Lemma ins_lt_all k v l : Forall (fun e => k <b fst e) l -> ins k v l = (k, v) :: l.
Proof.
  intros H. destruct H as [|[k' v'] l Hx Hl]; simpl; [reflexivity|]. simpl in Hx.
  apply bcmp_Lt in Hx. rewrite Hx. reflexivity.
Qed.

Lemma del_lt_all k l : Forall (fun e => k <b fst e) l -> del k l = l.
Proof.
  intros H. destruct H as [|[k' v'] l Hx Hl]; simpl; [reflexivity|]. simpl in Hx.
  apply bcmp_Lt in Hx. rewrite Hx. reflexivity.
Qed.

Lemma del_absent k l : Forall (fun e => fst e <> k) l -> del k l = l.
Proof.
  intros H. induction H as [|[k' v'] l Hx Hl IH]; simpl; [reflexivity|]. simpl in Hx.
  bcases k k'; [congruence|reflexivity|]. rewrite IH. reflexivity.
Qed.

Lemma filter_ins (f : bytes * bytes -> bool) k v l :
  (forall k v v', f (k, v) = f (k, v')) -> sorted l ->
  filter f (ins k v l) = if f (k, v) then ins k v (filter f l) else filter f l.
Proof.
  intros Hf. induction l as [|[k' v'] l IH]; intros Hs.
  - simpl. destruct (f (k, v)); reflexivity.
  - destruct Hs as [H1 H2]. cbn [ins]. bcases k k'.
    + subst k'. cbn [filter]. rewrite (Hf k v' v). destruct (f (k, v)); [|reflexivity].
      simpl. rewrite bcmp_refl. reflexivity.
    + cbn [filter]. destruct (f (k, v)) eqn:Ef; [|reflexivity].
      symmetry. apply (ins_lt_all k v (filter f ((k', v') :: l))). apply Forall_filter.
      constructor; [exact E|]. eapply Forall_impl; [|exact H1]. intros a Ha. simpl in *. border.
    + cbn [filter]. rewrite IH by exact H2. destruct (f (k, v)) eqn:Ef; [|reflexivity].
      destruct (f (k', v')); [|reflexivity]. simpl. apply bcmp_Gt in E. rewrite E. reflexivity.
Qed.

Lemma filter_del (f : bytes * bytes -> bool) k l :
  sorted l -> filter f (del k l) = del k (filter f l).
Proof.
  induction l as [|[k' v'] l IH]; intros Hs; [reflexivity|].
  destruct Hs as [H1 H2]. cbn [del]. bcases k k'.
  - subst k'. cbn [filter]. destruct (f (k, v')).
    + simpl. rewrite bcmp_refl. reflexivity.
    + symmetry. apply del_lt_all. apply Forall_filter. exact H1.
  - symmetry. apply del_lt_all. apply Forall_filter.
    constructor; [exact E|]. eapply Forall_impl; [|exact H1]. intros a Ha. simpl in *. border.
  - cbn [filter]. destruct (f (k', v')).
    + simpl. apply bcmp_Gt in E. rewrite E. rewrite IH by exact H2. reflexivity.
    + apply IH. exact H2.
Qed.

Lemma pre_ins p k v l : ins (p ++ k) v (pre p l) = pre p (ins k v l).
Proof.
  induction l as [|[k' v'] l IH]; simpl; [reflexivity|]. rewrite bcmp_app_prefix.
  destruct (bcmp k k'); simpl; [reflexivity|reflexivity|]. fold (pre p l). rewrite IH. reflexivity.
Qed.

Lemma pre_del p k l : del (p ++ k) (pre p l) = pre p (del k l).
Proof.
  induction l as [|[k' v'] l IH]; simpl; [reflexivity|]. rewrite bcmp_app_prefix.
  destruct (bcmp k k'); simpl; [reflexivity|reflexivity|]. fold (pre p l). rewrite IH. reflexivity.
Qed.

Lemma inview_key p k v v' : inview p (k, v) = inview p (k, v').
Proof. reflexivity. Qed.

Lemma view_ins p k v m :
  sorted m -> k <> [] -> view p (ins (p ++ k) v m) = ins k v (view p m).
Proof.
  intros Hs Hk. unfold view at 1. rewrite filter_ins by (auto using inview_key).
  rewrite inview_app. destruct k; [congruence|]. simpl negb. cbv iota.
  rewrite filter_inview_pre, pre_ins. apply stripe_pre.
Qed.

Lemma outside_ins p k v m :
  sorted m -> k <> [] -> outside p (ins (p ++ k) v m) = outside p m.
Proof.
  intros Hs Hk. unfold outside. rewrite filter_ins by (try exact Hs; intros; reflexivity).
  rewrite inview_app. destruct k; [congruence|]. reflexivity.
Qed.

Lemma view_del p k m : sorted m -> view p (del (p ++ k) m) = del k (view p m).
Proof.
  intros Hs. unfold view at 1. rewrite filter_del by exact Hs.
  rewrite filter_inview_pre, pre_del. apply stripe_pre.
Qed.

Lemma outside_del p k m : sorted m -> k <> [] -> outside p (del (p ++ k) m) = outside p m.
Proof.
  intros Hs Hk. unfold outside. rewrite filter_del by exact Hs. apply del_absent.
  apply Forall_forall. intros [k' v'] Hin. apply filter_In in Hin. destruct Hin as [_ Hv].
  simpl. intros He. subst k'. rewrite inview_app in Hv. destruct k; [congruence|discriminate].
Qed.

Lemma assoc_filter (f : bytes * bytes -> bool) k l :
  (forall v, f (k, v) = true) -> assoc k (filter f l) = assoc k l.
Proof.
  intros Hf. induction l as [|[k' v'] l IH]; simpl; [reflexivity|].
  destruct (beq k k') eqn:E.
  - btests. subst k'. rewrite Hf. simpl. unfold beq. rewrite bcmp_refl. reflexivity.
  - destruct (f (k', v')); simpl; rewrite ?E; exact IH.
Qed.

Lemma assoc_pre p k l : assoc (p ++ k) (pre p l) = assoc k l.
Proof.
  induction l as [|[k' v'] l IH]; simpl; [reflexivity|]. unfold beq. rewrite bcmp_app_prefix.
  fold (pre p l). rewrite IH. reflexivity.
Qed.

Lemma assoc_view p k m : k <> [] -> assoc (p ++ k) m = assoc k (view p m).
Proof.
  intros Hk. rewrite <- (assoc_filter (inview p) (p ++ k) m).
  - rewrite filter_inview_pre. apply assoc_pre.
  - intros v. rewrite inview_app. destruct k; [congruence|reflexivity].
Qed.

Lemma view_fold p ops : forall m,
  sorted m -> Forall (fun o => op_key o <> []) ops ->
  view p (fold_left apply_op (map (pfx_op p) ops) m) = fold_left apply_op ops (view p m) /\
  outside p (fold_left apply_op (map (pfx_op p) ops) m) = outside p m /\
  sorted (fold_left apply_op (map (pfx_op p) ops) m).
Proof.
  induction ops as [|o ops IH]; intros m Hs Ho; simpl; [auto|].
  inversion Ho as [|? ? Hk Ho']; subst. destruct o as [k v|k]; simpl in *.
  - destruct (IH (ins (p ++ k) v m)) as [H1 [H2 H3]]; [apply sorted_ins; exact Hs|exact Ho'|].
    rewrite H1, H2, view_ins, outside_ins by assumption. auto.
  - destruct (IH (del (p ++ k) m)) as [H1 [H2 H3]]; [apply sorted_del; exact Hs|exact Ho'|].
    rewrite H1, H2, view_del, outside_del by assumption. auto.
Qed.

(** ** The prefix iterator in closed form *)

Definition pf (p : bytes) (e : bytes * bytes) : bool := is_prefix p (fst e).

(** what the loop emits once positioned after the first emitted entry *)
Fixpoint pit_G (p : bytes) (r : kvs) : kvs :=
  match r with
  | [] => []
  | (k, v) :: r' =>
      if negb (is_prefix p k) then []
      else if beq k p then pit_G p r'
      else (strip p k, v) :: pit_G p r'
  end.

Definition pit_closed (p : bytes) (src : kvs) : kvs :=
  let src1 := match src with
              | (k, _) :: r => if beq k p then r else src
              | [] => src
              end in
  match src1 with
  | [] => []
  | (k, v) :: r => if is_prefix p k then (strip p k, v) :: pit_G p r else []
  end.

Lemma pit_loop_after p r : forall fuel,
  (length r < fuel)%nat -> pit_loop fuel p (pit_after_next p r) = Some (pit_G p r).
Proof.
  induction r as [|[k v] r IH]; intros fuel Hf; (destruct fuel as [|f]; [simpl in Hf; lia|]).
  - reflexivity.
  - cbn [pit_after_next pit_G]. destruct (is_prefix p k) eqn:Ep; cbn [negb].
    + destruct (beq k p) eqn:Eb.
      * apply IH. simpl in Hf. lia.
      * cbn [pit_loop pit_valid fst snd negb]. rewrite Ep.
        rewrite IH by (simpl in Hf; lia). reflexivity.
    + reflexivity.
Qed.

Lemma pit_collect_closed p src : pit_collect p src = Some (pit_closed p src).
Proof.
  unfold pit_collect, pit_closed, pit_new.
  assert (forall src1, (length src1 <= length src)%nat ->
    pit_loop (S (length src)) p
      (match src1 with
       | [] => (src1, false)
       | (k, _) :: _ => if is_prefix p k then (src1, true) else (src1, false)
       end) =
    Some (match src1 with
          | [] => []
          | (k, v) :: r => if is_prefix p k then (strip p k, v) :: pit_G p r else []
          end)) as H.
  { intros [|[k v] r] Hl; [reflexivity|]. destruct (is_prefix p k) eqn:Ep.
    - cbn [pit_loop pit_valid fst snd negb]. rewrite Ep.
      rewrite pit_loop_after by (simpl in Hl; lia). reflexivity.
    - reflexivity. }
  apply H. destruct src as [|[k v] r]; [simpl; lia|]. destruct (beq k p); simpl; lia.
Qed.

Lemma pit_G_app p A B :
  Forall (fun e => pf p e = true) A ->
  (B = [] \/ exists e B', B = e :: B' /\ pf p e = false) ->
  pit_G p (A ++ B) = map (stripe p) (filter (inview p) A).
Proof.
  intros HA HB. induction HA as [|[k v] A Hx HA' IH]; simpl.
  - destruct HB as [->|[[k v] [B' [-> Hf]]]]; [reflexivity|]. unfold pf in Hf. simpl in *.
    rewrite Hf. reflexivity.
  - unfold pf in Hx. simpl in Hx. rewrite Hx. unfold inview. simpl. rewrite Hx. simpl.
    destruct (beq k p); simpl; rewrite IH; reflexivity.
Qed.

Lemma pit_closed_app p A B :
  NoDup (map fst (A ++ B)) ->
  Forall (fun e => pf p e = true) A ->
  (B = [] \/ exists e B', B = e :: B' /\ pf p e = false) ->
  pit_closed p (A ++ B) = map (stripe p) (filter (inview p) A).
Proof.
  intros Hnd HA HB. unfold pit_closed. destruct A as [|[k v] A].
  - simpl. destruct HB as [->|[[k v] [B' [-> Hf]]]]; [reflexivity|]. unfold pf in Hf. simpl in Hf.
    destruct (beq k p) eqn:Eb.
    + btests. subst k. pose proof (is_prefix_app p []) as H. rewrite app_nil_r in H. congruence.
    + rewrite Hf. reflexivity.
  - inversion HA as [|? ? Hx HA']; subst. unfold pf in Hx. simpl in Hx.
    cbn [app]. destruct (beq k p) eqn:Eb.
    + btests. subst k. simpl in Hnd. inversion Hnd as [|? ? Hnin Hnd']; subst.
      cbn [filter]. unfold inview at 1. cbn [fst]. unfold beq at 1. rewrite bcmp_refl, andb_false_r.
      destruct A as [|[k' v'] A].
      * simpl. destruct HB as [->|[[k v0] [B' [-> Hf]]]]; [reflexivity|]. unfold pf in Hf.
        simpl in Hf. rewrite Hf. reflexivity.
      * inversion HA' as [|? ? Hx' HA'']; subst. unfold pf in Hx'. simpl in Hx'.
        cbn [app]. rewrite Hx'. rewrite pit_G_app by assumption.
        cbn [filter]. unfold inview at 2. cbn [fst]. rewrite Hx'.
        assert (beq k' p = false) as ->.
        { apply beq_false. intros He. subst k'. apply Hnin. simpl. auto. }
        reflexivity.
    + rewrite Hx. rewrite pit_G_app by assumption. cbn [filter]. unfold inview at 2. cbn [fst].
      rewrite Hx, Eb. reflexivity.
Qed.

Lemma tw_Forall {A} (f : A -> bool) l : Forall (fun x => f x = true) l -> tw f l = l.
Proof. intros H. induction H as [|x l Hx Hl IH]; simpl; [reflexivity|]. rewrite Hx, IH. reflexivity. Qed.

Lemma dw_cases {A} (f : A -> bool) l :
  dw f l = [] \/ exists e B', dw f l = e :: B' /\ f e = false.
Proof.
  destruct (dw f l) as [|e B'] eqn:E; [auto|]. right. exists e, B'. split; [reflexivity|].
  eapply dw_head. exact E.
Qed.

Lemma tw_pf_Forall {A} (f : A -> bool) l : Forall (fun x => f x = true) (tw f l).
Proof.
  induction l as [|x l IH]; simpl; [constructor|]. destruct (f x) eqn:E; [constructor|]; auto.
Qed.

(** any duplicate-free source sequence: entries are emitted, stripped, up to the first key
    without the prefix; an entry whose key is the bare prefix is skipped *)
Lemma pit_collect_spec p src :
  NoDup (map fst src) ->
  pit_collect p src = Some (map (stripe p) (filter (inview p) (tw (pf p) src))).
Proof.
  intros Hnd. rewrite pit_collect_closed. f_equal.
  rewrite <- (tw_dw (pf p) src) at 1. apply pit_closed_app.
  - rewrite tw_dw. exact Hnd.
  - apply tw_pf_Forall.
  - apply dw_cases.
Qed.

(** on an ascending sequence of keys [>= p] the prefixed keys come first *)
Lemma sorted_tw_pf p s :
  sorted s -> Forall (fun e => ble p (fst e) = true) s -> tw (pf p) s = filter (pf p) s.
Proof.
  induction s as [|[k v] s IH]; simpl; intros Hs Hge; [reflexivity|].
  destruct Hs as [H1 H2]. inversion Hge as [|? ? Hk Hge']; subst. simpl in Hk.
  unfold pf at 1 3. simpl. destruct (is_prefix p k) eqn:Ep; [rewrite IH by assumption; reflexivity|].
  symmetry. apply filter_none. rewrite Forall_forall in H1. apply Forall_forall.
  intros [k' v'] Hin. specialize (H1 _ Hin). simpl in H1. unfold pf. simpl.
  destruct (is_prefix p k') eqn:Ep'; [|reflexivity]. exfalso.
  apply is_prefix_split in Ep'. rewrite Ep' in H1.
  assert (is_prefix p k = true) as Hc; [|congruence].
  apply (between_prefix p k (strip p k')); [exact Hk|]. apply blt_true. exact H1.
Qed.

(** ** Bound translation *)

Lemma ble_app_prefix p a b : ble (p ++ a) (p ++ b) = ble a b.
Proof. unfold ble. rewrite bcmp_app_prefix. reflexivity. Qed.
Lemma blt_app_prefix p a b : blt (p ++ a) (p ++ b) = blt a b.
Proof. unfold blt. rewrite bcmp_app_prefix. reflexivity. Qed.

(** translated end bound of PrefixDB.Iterator / ReverseIterator *)
Definition pend_of (p : bytes) (stop : option bytes) : option bytes :=
  match stop with None => cpIncr p | Some e => Some (p ++ e) end.

Lemma in_range_translate p start stop k :
  in_range (Some (p ++ key_of start)) (pend_of p stop) (p ++ k) = in_range start stop k.
Proof.
  unfold in_range. f_equal.
  - rewrite ble_app_prefix. destruct start; [reflexivity|apply ble_nil].
  - destruct stop as [e|]; simpl; [apply blt_app_prefix|].
    destruct (cpIncr p) as [q|] eqn:E; [|reflexivity].
    apply (cpIncr_spec_sound p q (p ++ k) E). apply is_prefix_app.
Qed.

Lemma in_range_ge_p p a pend k : in_range (Some (p ++ a)) pend k = true -> ble p k = true.
Proof.
  unfold in_range. intros H. apply andb_true_iff in H. destruct H as [H _].
  pose proof (prefix_ble p (p ++ a) (is_prefix_app p a)) as H1. btests. apply ble_true. border.
Qed.

Lemma cpIncr_nonempty p q : cpIncr p = Some q -> q <> [].
Proof.
  intros H Hq. subst q. pose proof (is_prefix_app p []) as Hp. rewrite app_nil_r in Hp.
  destruct (cpIncr_spec_sound p [] p H Hp) as [_ H2]. rewrite blt_nil_r in H2. discriminate.
Qed.

(** the pointwise core: on the namespace, the translated range is the requested range *)
Lemma view_iter_filter p m start stop :
  map (stripe p)
    (filter (inview p) (filter (pf p) (kv_iter m (Some (p ++ key_of start)) (pend_of p stop)))) =
  kv_iter (view p m) start stop.
Proof.
  unfold kv_iter, view. rewrite filter_map_comm. f_equal. rewrite !filter_and.
  apply filter_ext. intros [k v]. simpl. unfold pf. simpl.
  destruct (inview p (k, v)) eqn:Ev; [|rewrite !andb_false_r; reflexivity].
  unfold inview in Ev. simpl in Ev. apply andb_true_iff in Ev. destruct Ev as [Hp _].
  rewrite Hp, !andb_true_r. cbn [andb]. rewrite (is_prefix_split p k Hp) at 1.
  apply in_range_translate.
Qed.

(** ** Theorem 2: prefix_view *)

Lemma bad_bound_app p a : p <> [] -> bad_bound (Some (p ++ a)) = false.
Proof. destruct p; [congruence|reflexivity]. Qed.

Lemma bad_bound_pend p stop : p <> [] -> bad_bound (pend_of p stop) = false.
Proof.
  intros Hp. destruct stop as [e|]; simpl; [apply bad_bound_app; exact Hp|].
  destruct (cpIncr p) as [q|] eqn:E; [|reflexivity].
  apply cpIncr_nonempty in E. destruct q; [congruence|reflexivity].
Qed.

Lemma pend_match p stop :
  p <> [] ->
  match stop with
  | None => if cpIncr_panics p then None else Some (cpIncr p)
  | Some e => Some (Some (prefixed p e))
  end = Some (pend_of p stop).
Proof. intros Hp. destruct stop; [reflexivity|]. destruct p; [congruence|reflexivity]. Qed.

Lemma range_ge_p p a pend m :
  Forall (fun e => ble p (fst e) = true) (kv_iter m (Some (p ++ a)) pend).
Proof.
  unfold kv_iter. eapply Forall_impl; [|apply Forall_filter_true].
  intros [k v] H. simpl in *. eapply in_range_ge_p. exact H.
Qed.

Theorem piter_spec p m start stop :
  p <> [] -> sorted m -> bad_bound start || bad_bound stop = false ->
  piter kv_step p m start stop = (m, OPairs (kv_iter (view p m) start stop)).
Proof.
  intros Hp Hs Hb. unfold piter, piter_gen. rewrite Hb, (pend_match p stop Hp).
  cbn [kv_step]. unfold prefixed. rewrite bad_bound_app, bad_bound_pend by exact Hp. cbn [orb].
  rewrite pit_collect_spec by (apply sorted_NoDup, sorted_filter; exact Hs).
  rewrite sorted_tw_pf by (apply sorted_filter, Hs || apply range_ge_p).
  cbn [out_pairs]. rewrite view_iter_filter. reflexivity.
Qed.

Lemma range_all_prefixed p m start stop :
  p <> [] -> (stop = None -> wf_keys m) ->
  Forall (fun e => pf p e = true) (kv_iter m (Some (p ++ key_of start)) (pend_of p stop)).
Proof.
  intros Hp Hg. unfold kv_iter. apply Forall_forall. intros [k v] Hin.
  apply filter_In in Hin. destruct Hin as [Hin HR]. simpl in HR. unfold pf. simpl.
  pose proof (in_range_ge_p _ _ _ _ HR) as Hge.
  unfold in_range in HR. apply andb_true_iff in HR. destruct HR as [_ HR].
  destruct stop as [e|]; simpl in HR.
  - eapply between_prefix; eauto.
  - specialize (Hg eq_refl). unfold wf_keys in Hg. rewrite Forall_forall in Hg.
    specialize (Hg _ Hin). simpl in Hg. destruct (cpIncr p) as [q|] eqn:E.
    + apply (cpIncr_spec p q k E Hg). auto.
    + apply (cpIncr_spec_none p k Hp E Hg). exact Hge.
Qed.

(** the reverse iterator; well-formedness of the stored keys (bytes < 256) is only used for a nil
    end bound, where the upper bound [cpIncr p] comes from stripping 0xFF bytes *)
Theorem priter_spec p m start stop :
  p <> [] -> sorted m -> bad_bound start || bad_bound stop = false ->
  (stop = None -> wf_keys m) ->
  priter kv_step p m start stop = (m, OPairs (kv_riter (view p m) start stop)).
Proof.
  intros Hp Hs Hb Hg. unfold priter, piter_gen. rewrite Hb, (pend_match p stop Hp).
  cbn [kv_step]. unfold prefixed. rewrite bad_bound_app, bad_bound_pend by exact Hp. cbn [orb].
  pose proof (range_all_prefixed p m start stop Hp Hg) as Hall.
  unfold kv_riter.
  rewrite pit_collect_spec
    by (rewrite map_rev; apply NoDup_rev, sorted_NoDup, sorted_filter; exact Hs).
  rewrite tw_Forall by (apply Forall_rev; exact Hall).
  cbn [out_pairs]. rewrite filter_rev, map_rev. rewrite <- view_iter_filter.
  rewrite (filter_all (pf p)) by exact Hall. reflexivity.
Qed.

Theorem prefix_view p m op :
  p <> [] -> sorted m -> wf_keys m ->
  kv_step (view p m) op =
    (view p (fst (prefix_step kv_step p m op)), snd (prefix_step kv_step p m op)) /\
  outside p (fst (prefix_step kv_step p m op)) = outside p m /\
  sorted (fst (prefix_step kv_step p m op)).
Proof.
  intros Hp Hs Hg. destruct op as [k|k|k v|k|a b|a b|ops1 w ops2]; cbn [prefix_step].
  - unfold pget. cbn [kv_step]. destruct (is_empty k) eqn:Ek; [auto|].
    unfold prefixed. rewrite (is_empty_app p k Ek). cbn [fst snd]. unfold kv_get.
    rewrite (assoc_view p k m) by (apply is_empty_false; exact Ek). auto.
  - unfold phas. cbn [kv_step]. destruct (is_empty k) eqn:Ek; [auto|].
    unfold prefixed. rewrite (is_empty_app p k Ek). cbn [fst snd]. unfold kv_has, mem.
    rewrite (assoc_view p k m) by (apply is_empty_false; exact Ek). auto.
  - unfold pset. cbn [kv_step]. destruct (is_empty k) eqn:Ek; [auto|].
    unfold prefixed. rewrite (is_empty_app p k Ek). destruct v as [v'|]; cbn [fst snd]; [|auto].
    apply is_empty_false in Ek. unfold kv_set.
    rewrite view_ins, outside_ins by assumption. auto using sorted_ins.
  - unfold pdelete. cbn [kv_step]. destruct (is_empty k) eqn:Ek; [auto|].
    unfold prefixed. rewrite (is_empty_app p k Ek). cbn [fst snd].
    apply is_empty_false in Ek. unfold kv_delete.
    rewrite view_del, outside_del by assumption. auto using sorted_del.
  - cbn [kv_step]. destruct (bad_bound a || bad_bound b) eqn:Eb.
    + unfold piter, piter_gen. rewrite Eb. auto.
    + rewrite piter_spec by assumption. auto.
  - cbn [kv_step]. destruct (bad_bound a || bad_bound b) eqn:Eb.
    + unfold priter, piter_gen. rewrite Eb. auto.
    + rewrite priter_spec; auto.
  - rewrite batch_spec, batch_prog_prefix. cbn [fst snd]. destruct w; [|auto].
    destruct (view_fold p (flat_map bop_accept ops1) m Hs (accepted_nonempty ops1)) as [H1 [H2 H3]].
    rewrite H1. auto.
Qed.

(** PrefixDB over the MemDB / GoLevelDB models = PrefixDB over the spec *)
Lemma prefix_step_ext u1 u2 p m op :
  p <> [] -> (forall o, o <> KHas [] -> u1 m o = u2 m o) ->
  prefix_step u1 p m op = prefix_step u2 p m op.
Proof.
  intros Hp H. assert (forall k, KHas (prefixed p k) <> KHas []) as Hh.
  { intros k E. inversion E as [E']. destruct p; [congruence|discriminate]. }
  destruct op as [k|k|k v|k|a b|a b|ops1 w ops2]; cbn [prefix_step];
    unfold pget, phas, pset, pdelete, piter, priter, piter_gen;
    try (destruct (is_empty k); [reflexivity|]; apply H; (discriminate || apply Hh)).
  - destruct (bad_bound a || bad_bound b); [reflexivity|].
    destruct (match b with None => if cpIncr_panics p then None else Some (cpIncr p)
                         | Some e => Some (Some (prefixed p e)) end); [|reflexivity].
    rewrite H by discriminate. reflexivity.
  - destruct (bad_bound a || bad_bound b); [reflexivity|].
    destruct (match b with None => if cpIncr_panics p then None else Some (cpIncr p)
                         | Some e => Some (Some (prefixed p e)) end); [|reflexivity].
    rewrite H by discriminate. reflexivity.
  - reflexivity.
Qed.

Theorem prefix_step_mem p m op :
  p <> [] -> sorted m -> prefix_step mem_step p m op = prefix_step kv_step p m op.
Proof. intros Hp Hs. apply prefix_step_ext; [exact Hp|]. intros o _. apply mem_step_spec. exact Hs. Qed.

Theorem prefix_step_ldb p m op :
  p <> [] -> sorted m -> prefix_step ldb_step p m op = prefix_step kv_step p m op.
Proof. intros Hp Hs. apply prefix_step_ext; [exact Hp|]. intros o Ho. apply ldb_step_spec; assumption. Qed.

(** the store invariant is preserved by PrefixDB for ANY prefix (also the empty one) *)
Lemma pfx_ops_nonempty p ops :
  Forall (fun o => op_key o <> []) ops -> Forall (fun o => op_key o <> []) (map (pfx_op p) ops).
Proof.
  intros H. rewrite Forall_map. eapply Forall_impl; [|exact H]. intros [k v|k] Hk; simpl in *;
    intros E; apply app_eq_nil in E; destruct E; contradiction.
Qed.

Lemma kv_step_iter_fst m a b (r : bool) :
  fst (kv_step m (if r then KRIter a b else KIter a b)) = m.
Proof. destruct r; simpl; destruct (bad_bound a || bad_bound b); reflexivity. Qed.

Theorem prefix_step_inv p m op :
  store_inv m -> store_inv (fst (prefix_step kv_step p m op)).
Proof.
  intros Hm.
  assert (forall (r : bool) a b, store_inv (fst (piter_gen kv_step p r m a b))) as Hit.
  { intros r a b. unfold piter_gen. destruct (bad_bound a || bad_bound b); [exact Hm|].
    destruct (match b with None => if cpIncr_panics p then None else Some (cpIncr p)
                         | Some e => Some (Some (prefixed p e)) end) as [pend|]; [|exact Hm].
    pose proof (kv_step_iter_fst m (Some (prefixed p (key_of a))) pend r) as Hf.
    destruct (kv_step m (if r then KRIter (Some (prefixed p (key_of a))) pend
                         else KIter (Some (prefixed p (key_of a))) pend)) as [m' o].
    simpl in Hf. subst m'. destruct o; exact Hm. }
  destruct op as [k|k|k v|k|a b|a b|ops1 w ops2]; cbn [prefix_step];
    unfold pget, phas, pset, pdelete;
    try (destruct (is_empty k); [exact Hm|]; apply kv_step_inv; exact Hm).
  - apply Hit.
  - apply Hit.
  - rewrite batch_prog_prefix. cbn [fst]. destruct w; [|exact Hm].
    apply fold_apply_inv; [|exact Hm]. apply pfx_ops_nonempty, accepted_nonempty.
Qed.

(** ** Well-formedness of the stored keys (every byte < 256) is preserved by well-formed operations *)

Definition bop_wf (o : bop) : Prop := well_formed (snd (fst o)).
Definition op_wf (op : kvop) : Prop :=
  match op with
  | KSet k _ => well_formed k
  | KBatch ops1 _ _ => Forall bop_wf ops1
  | _ => True
  end.

Lemma accepted_wf ops :
  Forall bop_wf ops -> Forall (fun o => well_formed (op_key o)) (flat_map bop_accept ops).
Proof.
  intros H. induction H as [|[[s k] v] ops Hx Hl IH]; simpl; [constructor|].
  apply Forall_app. split; [|exact IH]. unfold bop_wf in Hx. simpl in Hx.
  destruct (is_empty k); [constructor|]. destruct s; [destruct v|]; repeat constructor; exact Hx.
Qed.

Lemma fold_apply_wf ops : forall m,
  Forall (fun o => well_formed (op_key o)) ops -> wf_keys m ->
  wf_keys (fold_left apply_op ops m).
Proof.
  induction ops as [|o ops IH]; intros m Ho Hm; simpl; [exact Hm|].
  inversion Ho as [|? ? Hk Ho']; subst. apply IH; [exact Ho'|].
  destruct o as [k v|k]; simpl in *; [apply kv_Forall_ins|apply kv_Forall_del]; assumption.
Qed.

Theorem kv_step_wf m op : op_wf op -> wf_keys m -> wf_keys (fst (kv_step m op)).
Proof.
  intros Ho Hm. destruct op as [k|k|k v|k|a b|a b|ops1 w ops2].
  - simpl. destruct (is_empty k); exact Hm.
  - simpl. destruct (is_empty k); exact Hm.
  - simpl. destruct (is_empty k); [exact Hm|]. destruct v as [v'|]; [|exact Hm].
    apply kv_Forall_ins; assumption.
  - simpl. destruct (is_empty k); [exact Hm|]. apply kv_Forall_del; assumption.
  - simpl. destruct (bad_bound a || bad_bound b); exact Hm.
  - simpl. destruct (bad_bound a || bad_bound b); exact Hm.
  - rewrite batch_spec. simpl. destruct w; [|exact Hm].
    apply fold_apply_wf; [apply accepted_wf; exact Ho|exact Hm].
Qed.

Theorem prefix_step_wf p m op :
  well_formed p -> op_wf op -> wf_keys m -> wf_keys (fst (prefix_step kv_step p m op)).
Proof.
  intros Hp Ho Hm.
  assert (forall (r : bool) a b, wf_keys (fst (piter_gen kv_step p r m a b))) as Hit.
  { intros r a b. unfold piter_gen. destruct (bad_bound a || bad_bound b); [exact Hm|].
    destruct (match b with None => if cpIncr_panics p then None else Some (cpIncr p)
                         | Some e => Some (Some (prefixed p e)) end) as [pend|]; [|exact Hm].
    pose proof (kv_step_iter_fst m (Some (prefixed p (key_of a))) pend r) as Hf.
    destruct (kv_step m (if r then KRIter (Some (prefixed p (key_of a))) pend
                         else KIter (Some (prefixed p (key_of a))) pend)) as [m' o].
    simpl in Hf. subst m'. destruct o; exact Hm. }
  destruct op as [k|k|k v|k|a b|a b|ops1 w ops2]; cbn [prefix_step];
    unfold pget, phas, pset, pdelete;
    try (destruct (is_empty k); [exact Hm|]; apply kv_step_wf; [|exact Hm]; simpl; auto).
  - apply Forall_app. split; assumption.
  - apply Hit.
  - apply Hit.
  - rewrite batch_prog_prefix. cbn [fst]. destruct w; [|exact Hm].
    apply fold_apply_wf; [|exact Hm]. rewrite Forall_map.
    eapply Forall_impl; [|apply accepted_wf; exact Ho].
    intros [k v|k] Hk; simpl in *; apply Forall_app; split; assumption.
Qed.
