(** FlusherFacts.v -- theorems about the BatchWithFlusher model ([Flusher.v]).

    - [fl_batches_segs]: the state machine computes the greedy segmentation [segs];
    - [fl_concat]: nothing lost, duplicated or reordered, for every threshold;
    - [fl_batch_bound], [fl_batch_maximal], [fl_batches_nonempty]: size bound of every physical
      batch, maximality of every automatic flush, only the first batch can be empty;
    - [fl_cut_positions], [fl_prefix_states]: the batch boundaries are [cut_positions];
    - [fl_apply_same], [fl_threshold_independent], [fl_prefix_db]: database level;
    - [fl_threshold_monotone_refuted];
    - [ffl_commit_cases], [fl_fault_reported], [fl_fault_prefix], [ffl_run_ideal]: failing write. *)
From IAVL Require Import Bytes VMap Flusher.
Local Open Scope Z_scope.

(** * Sizes *)

Lemma blen_nonneg b : 0 <= blen b.
Proof. unfold blen. lia. Qed.

Lemma op_size_nonneg o : 0 <= op_size o.
Proof.
  destruct o as [k v|k]; cbn [op_size].
  - pose proof (blen_nonneg k). pose proof (blen_nonneg v). lia.
  - apply blen_nonneg.
Qed.

Lemma batch_size_app a b : batch_size (a ++ b) = batch_size a + batch_size b.
Proof. unfold batch_size. induction a as [|o a IH]; cbn [app fold_right]; lia. Qed.

Lemma batch_size_cons o b : batch_size (o :: b) = op_size o + batch_size b.
Proof. reflexivity. Qed.

Lemma batch_size_single o : batch_size [o] = op_size o.
Proof. unfold batch_size. cbn [fold_right]. lia. Qed.

Lemma batch_size_nonneg b : 0 <= batch_size b.
Proof.
  induction b as [|o b IH]; [unfold batch_size; cbn [fold_right]; lia|].
  rewrite batch_size_cons. pose proof (op_size_nonneg o). lia.
Qed.

Lemma op_estimate_eq cur o : op_estimate cur o = cur + op_size o + 100.
Proof.
  destruct o as [k v|k]; unfold op_estimate, estimate, op_size, blen; cbn [length]; lia.
Qed.

(** * The state machine computes the greedy segmentation *)

(** the wrapper's view of [GetByteSize] agrees with the contents of the installed batch *)
Definition sized (st : fl) : Prop := psize st = batch_size (pending st).

Lemma fl_step_unfold th st o :
  fl_step th st o = fl_add o (if op_estimate (psize st) o >? th then fl_write st else st).
Proof. destruct o as [k v|k]; reflexivity. Qed.

Lemma fl_run_from_cons th o r st :
  fl_run_from th (o :: r) st = fl_run_from th r (fl_step th st o).
Proof. reflexivity. Qed.

Lemma fl_run_from_app th a b st :
  fl_run_from th (a ++ b) st = fl_run_from th b (fl_run_from th a st).
Proof. unfold fl_run_from. apply fold_left_app. Qed.

Lemma fl_run_segs th ops : forall st, sized st ->
  written (fl_write (fl_run_from th ops st)) = written st ++ segs th ops (pending st)
  /\ sized (fl_run_from th ops st).
Proof.
  induction ops as [|o r IH]; intros st Hs.
  - split; [reflexivity|exact Hs].
  - rewrite fl_run_from_cons, fl_step_unfold. cbn [segs].
    unfold sized in Hs. rewrite <- Hs.
    destruct (op_estimate (psize st) o >? th) eqn:E.
    + destruct (IH (fl_add o (fl_write st))) as [H1 H2].
      { unfold sized, fl_add, fl_write. cbn [psize pending app]. rewrite batch_size_single. lia. }
      split; [|exact H2].
      rewrite H1. unfold fl_add, fl_write. cbn [written pending app].
      rewrite <- app_assoc. reflexivity.
    + destruct (IH (fl_add o st)) as [H1 H2].
      { unfold sized, fl_add. cbn [psize pending]. rewrite batch_size_app, batch_size_single. lia. }
      split; [|exact H2].
      rewrite H1. reflexivity.
Qed.

Lemma sized_init : sized fl_init.
Proof. reflexivity. Qed.

Theorem fl_batches_segs th ops : fl_batches th ops = segs th ops [].
Proof.
  unfold fl_batches, fl_run.
  destruct (fl_run_segs th ops fl_init sized_init) as [H _]. exact H.
Qed.

Theorem fl_run_sized th ops : sized (fl_run th ops).
Proof. apply (fl_run_segs th ops fl_init sized_init). Qed.

(** * Properties of the segmentation *)

Lemma segs_concat th ops : forall p, concat (segs th ops p) = p ++ ops.
Proof.
  induction ops as [|o r IH]; intros p; cbn [segs].
  - cbn [concat]. rewrite !app_nil_r. reflexivity.
  - destruct (op_estimate (batch_size p) o >? th).
    + cbn [concat]. rewrite IH. reflexivity.
    + rewrite IH, <- app_assoc. reflexivity.
Qed.

(** the first batch extends the installed one *)
Lemma segs_head th ops : forall p, exists q rest, segs th ops p = (p ++ q) :: rest.
Proof.
  induction ops as [|o r IH]; intros p; cbn [segs].
  - exists [], []. rewrite app_nil_r. reflexivity.
  - destruct (op_estimate (batch_size p) o >? th).
    + exists [], (segs th r [o]). rewrite app_nil_r. reflexivity.
    + destruct (IH (p ++ [o])) as [q [rest H]]. exists (o :: q), rest.
      rewrite H, <- app_assoc. reflexivity.
Qed.

(** 1. nothing lost, duplicated, reordered *)
Theorem fl_concat th ops : concat (fl_batches th ops) = ops.
Proof. rewrite fl_batches_segs, segs_concat. reflexivity. Qed.

(** every physical batch is a contiguous segment of [ops] *)
Theorem fl_batches_contiguous th ops i :
  ops = concat (firstn i (fl_batches th ops)) ++ nth i (fl_batches th ops) []
        ++ concat (skipn (S i) (fl_batches th ops)).
Proof.
  rewrite <- (fl_concat th ops) at 1.
  generalize (fl_batches th ops) as bs. intros bs. revert i.
  induction bs as [|b bs IH]; intros i.
  - destruct i; reflexivity.
  - destruct i as [|i].
    + reflexivity.
    + cbn [firstn nth skipn concat]. rewrite (IH i) at 1. rewrite <- app_assoc. reflexivity.
Qed.

(** 2. size bound.  A batch is empty, a single operation, or its size plus the 100 bytes of
    over-accounting is within the threshold. *)
Definition ok_batch (th : Z) (b : list bop) : Prop :=
  b = [] \/ (exists o, b = [o]) \/ batch_size b + 100 <= th.

Lemma segs_bound th ops : forall p, ok_batch th p -> Forall (ok_batch th) (segs th ops p).
Proof.
  induction ops as [|o r IH]; intros p Hp; cbn [segs].
  - constructor; [exact Hp|constructor].
  - destruct (op_estimate (batch_size p) o >? th) eqn:E.
    + constructor; [exact Hp|]. apply IH. right; left. exists o. reflexivity.
    + apply IH. right; right. rewrite op_estimate_eq in E.
      rewrite batch_size_app, batch_size_single. lia.
Qed.

Theorem fl_batch_bound_strong th ops : Forall (ok_batch th) (fl_batches th ops).
Proof. rewrite fl_batches_segs. apply segs_bound. left. reflexivity. Qed.

Theorem fl_batch_bound th ops b :
  0 <= th -> In b (fl_batches th ops) -> length b <> 1%nat -> batch_size b <= th.
Proof.
  intros Hth Hin Hlen.
  pose proof (fl_batch_bound_strong th ops) as HF. rewrite Forall_forall in HF.
  destruct (HF b Hin) as [E|[[o E]|E]].
  - subst b. unfold batch_size. cbn [fold_right]. exact Hth.
  - subst b. exfalso. apply Hlen. reflexivity.
  - lia.
Qed.

(** only the first physical batch can be empty *)
Lemma segs_nonempty th ops : forall p, p <> [] -> Forall (fun b => b <> []) (segs th ops p).
Proof.
  induction ops as [|o r IH]; intros p Hp; cbn [segs].
  - constructor; [exact Hp|constructor].
  - destruct (op_estimate (batch_size p) o >? th).
    + constructor; [exact Hp|]. apply IH. discriminate.
    + apply IH. destruct p; discriminate.
Qed.

Lemma segs_tail_nonempty th ops : forall p, Forall (fun b => b <> []) (tl (segs th ops p)).
Proof.
  induction ops as [|o r IH]; intros p; cbn [segs].
  - constructor.
  - destruct (op_estimate (batch_size p) o >? th).
    + cbn [tl]. apply segs_nonempty. discriminate.
    + apply IH.
Qed.

Theorem fl_batches_nonempty th ops : Forall (fun b => b <> []) (tl (fl_batches th ops)).
Proof. rewrite fl_batches_segs. apply segs_tail_nonempty. Qed.

(** the first batch is empty exactly when there is nothing to write or the first operation
    alone is estimated above the threshold *)
Theorem fl_first_batch_empty th ops :
  hd [] (fl_batches th ops) = [] <->
  match ops with [] => True | o :: _ => op_size o + 100 > th end.
Proof.
  rewrite fl_batches_segs. destruct ops as [|o r]; cbn [segs].
  - split; auto.
  - rewrite op_estimate_eq. unfold batch_size at 1. cbn [fold_right].
    destruct (0 + op_size o + 100 >? th) eqn:E.
    + cbn [hd]. split; [lia|reflexivity].
    + destruct (segs_head th r ([] ++ [o])) as [q [rest H]]. rewrite H. cbn [hd app].
      split; [discriminate|lia].
Qed.

(** maximality: every batch that is followed by another one was cut because adding the first
    operation of the next batch was estimated above the threshold *)
Fixpoint maximal (th : Z) (bs : list (list bop)) : Prop :=
  match bs with
  | [] => True
  | b :: r =>
      match r with
      | [] => True
      | b' :: _ =>
          match b' with
          | [] => False
          | o :: _ => batch_size b + op_size o + 100 > th
          end /\ maximal th r
      end
  end.

Lemma segs_maximal th ops : forall p, maximal th (segs th ops p).
Proof.
  induction ops as [|o r IH]; intros p; cbn [segs].
  - exact I.
  - destruct (op_estimate (batch_size p) o >? th) eqn:E.
    + pose proof (IH [o]) as Hm.
      destruct (segs_head th r [o]) as [q [rest H]]. rewrite H in *.
      cbn [app] in *. cbn [maximal]. split; [|exact Hm].
      rewrite op_estimate_eq in E. lia.
    + apply IH.
Qed.

Theorem fl_batch_maximal th ops : maximal th (fl_batches th ops).
Proof. rewrite fl_batches_segs. apply segs_maximal. Qed.

(** the same, by index *)
Lemma maximal_nth th bs : maximal th bs -> forall i, (S i < length bs)%nat ->
  exists o q, nth (S i) bs [] = o :: q /\ batch_size (nth i bs []) + op_size o + 100 > th.
Proof.
  induction bs as [|b r IH]; intros Hm i Hi.
  - cbn [length] in Hi. lia.
  - destruct r as [|b' r']; [cbn [length] in Hi; lia|].
    cbn [maximal] in Hm. destruct Hm as [H1 H2].
    destruct i as [|i].
    + cbn [nth]. destruct b' as [|o q]; [contradiction|]. exists o, q. split; [reflexivity|exact H1].
    + cbn [length] in Hi. apply (IH H2 i). cbn [length]. lia.
Qed.

Theorem fl_batch_maximal_nth th ops i : (S i < length (fl_batches th ops))%nat ->
  exists o q, nth (S i) (fl_batches th ops) [] = o :: q /\
              batch_size (nth i (fl_batches th ops) []) + op_size o + 100 > th.
Proof. apply maximal_nth, fl_batch_maximal. Qed.

(** degenerate thresholds *)
Lemma segs_small th ops : th < 100 -> forall p, segs th ops p = p :: map (fun o => [o]) ops.
Proof.
  intros Hth.
  induction ops as [|o r IH]; intros p; cbn [segs map].
  - reflexivity.
  - rewrite op_estimate_eq.
    pose proof (batch_size_nonneg p). pose proof (op_size_nonneg o).
    destruct (batch_size p + op_size o + 100 >? th) eqn:E; [|lia].
    rewrite IH. reflexivity.
Qed.

Theorem fl_small_threshold th ops : th < 100 ->
  fl_batches th ops = [] :: map (fun o => [o]) ops.
Proof. intros Hth. rewrite fl_batches_segs. apply segs_small. exact Hth. Qed.

Lemma segs_large th ops : forall p, batch_size (p ++ ops) + 100 <= th -> segs th ops p = [p ++ ops].
Proof.
  induction ops as [|o r IH]; intros p H; cbn [segs].
  - rewrite app_nil_r. reflexivity.
  - rewrite op_estimate_eq.
    rewrite batch_size_app, batch_size_cons in H. pose proof (batch_size_nonneg r).
    destruct (batch_size p + op_size o + 100 >? th) eqn:E; [lia|].
    rewrite IH.
    + rewrite <- app_assoc. reflexivity.
    + rewrite <- app_assoc. cbn [app]. rewrite batch_size_app, batch_size_cons. lia.
Qed.

Theorem fl_large_threshold th ops : batch_size ops + 100 <= th -> fl_batches th ops = [ops].
Proof. intros H. rewrite fl_batches_segs. apply (segs_large th ops []). exact H. Qed.

(** * Cut positions *)

Definition cnt (c : bop -> bool) (l : list bop) : nat := length (filter c l).

Lemma cnt_app c a b : cnt c (a ++ b) = (cnt c a + cnt c b)%nat.
Proof. unfold cnt. rewrite filter_app, app_length. reflexivity. Qed.

Lemma cnt_cons c o l : cnt c (o :: l) = ((if c o then 1 else 0) + cnt c l)%nat.
Proof. unfold cnt. cbn [filter]. destruct (c o); reflexivity. Qed.

Lemma cnt_nil c : cnt c [] = 0%nat.
Proof. reflexivity. Qed.

Lemma cnt_all l : cnt (fun _ => true) l = length l.
Proof. unfold cnt. induction l as [|o l IH]; cbn [filter length]; [reflexivity|]. rewrite IH. reflexivity. Qed.

(** running totals of the [c]-operations at the END of each batch *)
Fixpoint boundaries (c : bop -> bool) (bs : list (list bop)) (n : nat) : list nat :=
  match bs with
  | [] => []
  | b :: r => let n' := (n + cnt c b)%nat in n' :: boundaries c r n'
  end.

Lemma boundaries_length c bs : forall n, length (boundaries c bs n) = length bs.
Proof. induction bs as [|b r IH]; intros n; cbn [boundaries length]; [reflexivity|]. rewrite IH. reflexivity. Qed.

Lemma cuts_segs c th ops : forall p m n cur,
  cur = batch_size p -> n = (m + cnt c p)%nat ->
  boundaries c (segs th ops p) m = cuts_from c th ops cur n ++ [(n + cnt c ops)%nat].
Proof.
  induction ops as [|o r IH]; intros p m n cur Hc Hn; cbn [segs cuts_from].
  - cbn [boundaries app]. rewrite cnt_nil. f_equal. lia.
  - subst cur.
    destruct (op_estimate (batch_size p) o >? th) eqn:E.
    + cbn [boundaries]. rewrite <- Hn. cbn [app]. f_equal.
      rewrite (IH [o] n (if c o then S n else n) (op_size o)).
      * f_equal. f_equal. rewrite cnt_cons. destruct (c o); lia.
      * rewrite batch_size_single. reflexivity.
      * rewrite cnt_cons, cnt_nil. destruct (c o); lia.
    + rewrite (IH (p ++ [o]) m (if c o then S n else n) (batch_size p + op_size o)).
      * f_equal. f_equal. rewrite cnt_cons. destruct (c o); lia.
      * rewrite batch_size_app, batch_size_single. reflexivity.
      * rewrite cnt_app, cnt_cons, cnt_nil. destruct (c o); lia.
Qed.

(** the automatic flushes happen exactly at [cut_positions]: the running totals at the end of
    the physical batches are the cut positions followed by the total *)
Theorem fl_cut_positions_counted c th ops :
  boundaries c (fl_batches th ops) 0 = cut_positions_counted c th ops ++ [cnt c ops].
Proof.
  rewrite fl_batches_segs. unfold cut_positions_counted.
  rewrite (cuts_segs c th ops [] 0%nat 0%nat 0); reflexivity.
Qed.

Theorem fl_cut_positions th ops :
  boundaries (fun _ => true) (fl_batches th ops) 0 = cut_positions th ops ++ [length ops].
Proof. unfold cut_positions. rewrite fl_cut_positions_counted, cnt_all. reflexivity. Qed.

Theorem fl_batches_length th ops :
  length (fl_batches th ops) = S (length (cut_positions th ops)).
Proof.
  rewrite <- (boundaries_length (fun _ => true) (fl_batches th ops) 0%nat).
  rewrite fl_cut_positions, app_length. cbn [length]. lia.
Qed.

Lemma boundaries_nth c bs : forall i n,
  nth i (n :: boundaries c bs n) (n + cnt c (concat bs))%nat
  = (n + cnt c (concat (firstn i bs)))%nat.
Proof.
  induction bs as [|b r IH]; intros i n.
  - rewrite firstn_nil. cbn [concat boundaries]. rewrite cnt_nil, Nat.add_0_r.
    destruct i as [|[|i]]; reflexivity.
  - destruct i as [|i].
    + cbn [nth firstn concat]. rewrite cnt_nil. lia.
    + cbn [firstn concat boundaries]. rewrite !cnt_app.
      change (nth (S i) (n :: ?l) ?d) with (nth i l d).
      rewrite !Nat.add_assoc. rewrite (IH i (n + cnt c b)%nat). reflexivity.
Qed.

Lemma concat_firstn_prefix (bs : list (list bop)) i :
  concat (firstn i bs) = firstn (length (concat (firstn i bs))) (concat bs).
Proof.
  rewrite <- (firstn_skipn i bs) at 3. rewrite concat_app.
  rewrite firstn_app, Nat.sub_diag, firstn_all. cbn [firstn]. rewrite app_nil_r. reflexivity.
Qed.

(** the number of (counted) operations contained in the first [i] physical batches *)
Theorem fl_prefix_count c th ops i :
  cnt c (concat (firstn i (fl_batches th ops)))
  = nth i (0%nat :: cut_positions_counted c th ops ++ [cnt c ops]) (cnt c ops).
Proof.
  pose proof (boundaries_nth c (fl_batches th ops) i 0%nat) as H.
  rewrite fl_concat, fl_cut_positions_counted in H. cbn [Nat.add] in H. symmetry. exact H.
Qed.

(** 4. the first [i] physical batches are a prefix of [ops], of length [0], a cut position, or
    [length ops] *)
Theorem fl_prefix_states th ops i :
  concat (firstn i (fl_batches th ops))
  = firstn (nth i (0%nat :: cut_positions th ops ++ [length ops]) (length ops)) ops.
Proof.
  pose proof (fl_prefix_count (fun _ => true) th ops i) as H.
  rewrite !cnt_all in H. fold (cut_positions th ops) in H. rewrite <- H.
  rewrite (concat_firstn_prefix (fl_batches th ops) i) at 1. rewrite fl_concat. reflexivity.
Qed.

(** * Database level *)

Section Apply.
  Context {A : Type}.
  Variable f : A -> bop -> A.

  Definition apply_ops (d : A) (ops : list bop) : A := fold_left f ops d.
  Definition apply_batches (d : A) (bs : list (list bop)) : A := fold_left apply_ops bs d.

  Lemma apply_batches_concat bs : forall d, apply_batches d bs = apply_ops d (concat bs).
  Proof.
    induction bs as [|b r IH]; intros d; [reflexivity|].
    unfold apply_batches, apply_ops in *. cbn [fold_left concat]. rewrite fold_left_app. apply IH.
  Qed.

  (** 3. the batches one after the other = the operations in order, for every threshold *)
  Theorem fl_apply_same_gen th ops d : apply_batches d (fl_batches th ops) = apply_ops d ops.
  Proof. rewrite apply_batches_concat, fl_concat. reflexivity. Qed.

  Theorem fl_threshold_independent_gen th1 th2 ops d :
    apply_batches d (fl_batches th1 ops) = apply_batches d (fl_batches th2 ops).
  Proof. rewrite !fl_apply_same_gen. reflexivity. Qed.

  (** 4. database after the first [i] physical batches = database after a prefix of [ops] *)
  Theorem fl_prefix_db_gen th ops d i :
    apply_batches d (firstn i (fl_batches th ops))
    = apply_ops d (firstn (nth i (0%nat :: cut_positions th ops ++ [length ops]) (length ops)) ops).
  Proof. rewrite apply_batches_concat, fl_prefix_states. reflexivity. Qed.
End Apply.

Theorem fl_apply_same th ops m :
  kv_apply_batches m (fl_batches th ops) = kv_apply_ops m ops.
Proof. exact (fl_apply_same_gen kv_apply th ops m). Qed.

Theorem fl_threshold_independent th1 th2 ops m :
  kv_apply_batches m (fl_batches th1 ops) = kv_apply_batches m (fl_batches th2 ops).
Proof. exact (fl_threshold_independent_gen kv_apply th1 th2 ops m). Qed.

Theorem fl_prefix_db th ops m i :
  kv_apply_batches m (firstn i (fl_batches th ops))
  = kv_apply_ops m (firstn (nth i (0%nat :: cut_positions th ops ++ [length ops]) (length ops)) ops).
Proof. exact (fl_prefix_db_gen kv_apply th ops m i). Qed.

(** every crash image is one of [length (cut_positions th ops) + 2] prefixes *)
Theorem fl_prefix_db_exists th ops m i :
  exists n, In n (0%nat :: cut_positions th ops ++ [length ops]) /\
            kv_apply_batches m (firstn i (fl_batches th ops)) = kv_apply_ops m (firstn n ops).
Proof.
  rewrite fl_prefix_db.
  set (l := (0%nat :: cut_positions th ops ++ [length ops])).
  destruct (Nat.lt_ge_cases i (length l)) as [Hi|Hi].
  - exists (nth i l (length ops)). split; [apply nth_In; exact Hi|reflexivity].
  - exists (length ops). split.
    + unfold l. right. apply in_or_app. right. left. reflexivity.
    + rewrite (nth_overflow l (length ops) Hi). reflexivity.
Qed.

(** 5. cut positions are NOT monotone in the threshold: seven deletions of a 10-byte key;
    threshold 125 cuts after every 2 operations, threshold 135 after every 3 *)
Definition key10 : bytes := [1;2;3;4;5;6;7;8;9;10]%N.

Theorem fl_threshold_monotone_refuted :
  exists th1 th2 ops, th1 <= th2 /\
    ~ incl (cut_positions th2 ops) (cut_positions th1 ops).
Proof.
  exists 125, 135, (repeat (BDel key10) 7). split; [lia|].
  assert (H1 : cut_positions 125 (repeat (BDel key10) 7) = [2;4;6]%nat) by (vm_compute; reflexivity).
  assert (H2 : cut_positions 135 (repeat (BDel key10) 7) = [3;6]%nat) by (vm_compute; reflexivity).
  rewrite H1, H2. intros H. specialize (H 3%nat (or_introl eq_refl)).
  cbn [In] in H. repeat (destruct H as [H|H]; [discriminate|]). exact H.
Qed.

(** * The run invariant on the state (needed for the fault model) *)

Lemma fl_run_concat th ops st : sized st ->
  concat (written (fl_run_from th ops st)) ++ pending (fl_run_from th ops st)
  = concat (written st) ++ pending st ++ ops.
Proof.
  intros Hs. destruct (fl_run_segs th ops st Hs) as [H _].
  assert (E : concat (written (fl_write (fl_run_from th ops st)))
              = concat (written st ++ segs th ops (pending st))) by (rewrite H; reflexivity).
  unfold fl_write in E. cbn [written] in E.
  rewrite !concat_app, segs_concat in E. cbn [concat] in E. rewrite app_nil_r in E. exact E.
Qed.

(** physical batches are never taken back *)
Lemma fl_run_written_mono th ops : forall st,
  exists l, written (fl_run_from th ops st) = written st ++ l.
Proof.
  induction ops as [|o r IH]; intros st.
  - exists []. rewrite app_nil_r. reflexivity.
  - rewrite fl_run_from_cons. destruct (IH (fl_step th st o)) as [l Hl]. rewrite Hl.
    rewrite fl_step_unfold. destruct (op_estimate (psize st) o >? th).
    + exists ([pending st] ++ l). unfold fl_add, fl_write. cbn [written]. rewrite <- app_assoc. reflexivity.
    + exists l. reflexivity.
Qed.

(** * 6. A failing physical write *)

Definition keys_ok (ops : list bop) : Prop := Forall (fun o => op_key o <> []) ops.

(** the backend [Write] calls so far all succeeded *)
Definition healthy (n : nat) (s : ffl) : Prop :=
  nwrites s = length (written (fcore s)) /\ (n = 0 \/ nwrites s < n)%nat.

Lemma is_empty_true k : is_empty k = true -> k = [].
Proof. destruct k; [reflexivity|discriminate]. Qed.
Lemma is_empty_false k : is_empty k = false -> k <> [].
Proof. destruct k; [discriminate|discriminate]. Qed.

Definition flush_if (th : Z) (o : bop) (st : fl) : fl :=
  if op_estimate (psize st) o >? th then fl_write st else st.

Lemma ffl_op_spec th n o s : healthy n s ->
  match ffl_op th n o s with
  | FOk s' => fcore s' = fl_step th (fcore s) o /\ healthy n s' /\ op_key o <> []
  | FErr EWriteFailed s' =>
      fcore s' = fcore s /\ op_estimate (psize (fcore s)) o > th /\ nwrites s' = n /\
      n = S (length (written (fcore s)))
  | FErr EKeyEmpty s' =>
      op_key o = [] /\ fcore s' = flush_if th o (fcore s) /\ healthy n s'
  end.
Proof.
  intros [Hn Hf]. unfold ffl_op, flush_if. rewrite fl_step_unfold.
  destruct (op_estimate (psize (fcore s)) o >? th) eqn:E.
  - unfold ffl_write. destruct (Nat.eqb (S (nwrites s)) n) eqn:En.
    + apply Nat.eqb_eq in En. cbn [fcore nwrites]. repeat split; lia.
    + apply Nat.eqb_neq in En.
      assert (Hh : healthy n (mkFfl (fl_write (fcore s)) (S (nwrites s)))).
      { unfold healthy, fl_write. cbn [fcore nwrites written]. rewrite app_length. cbn [length]. lia. }
      destruct (is_empty (op_key o)) eqn:Ek.
      * apply is_empty_true in Ek. split; [exact Ek|]. split; [reflexivity|exact Hh].
      * apply is_empty_false in Ek. split; [reflexivity|]. split; [|exact Ek].
        destruct Hh as [Hh1 Hh2]. split; [exact Hh1|exact Hh2].
  - destruct (is_empty (op_key o)) eqn:Ek.
    + apply is_empty_true in Ek. split; [exact Ek|]. split; [reflexivity|]. split; assumption.
    + apply is_empty_false in Ek. split; [reflexivity|]. split; [|exact Ek]. split; assumption.
Qed.

Lemma ffl_run_spec th n ops : forall s, healthy n s ->
  match ffl_run_from th n ops s with
  | FOk s' => fcore s' = fl_run_from th ops (fcore s) /\ healthy n s' /\ keys_ok ops
  | FErr EWriteFailed s' =>
      exists ops1 o ops2, ops = ops1 ++ o :: ops2 /\ keys_ok ops1 /\
        fcore s' = fl_run_from th ops1 (fcore s) /\
        op_estimate (psize (fcore s')) o > th /\ nwrites s' = n /\
        n = S (length (written (fcore s')))
  | FErr EKeyEmpty s' =>
      exists ops1 o ops2, ops = ops1 ++ o :: ops2 /\ keys_ok ops1 /\ op_key o = [] /\
        fcore s' = flush_if th o (fl_run_from th ops1 (fcore s)) /\ healthy n s'
  end.
Proof.
  induction ops as [|o r IH]; intros s Hh; cbn [ffl_run_from].
  - repeat split; try apply Hh. constructor.
  - pose proof (ffl_op_spec th n o s Hh) as Ho.
    destruct (ffl_op th n o s) as [s1|[|] s1].
    + destruct Ho as [Hc [Hh1 Hk]].
      pose proof (IH s1 Hh1) as Hr.
      destruct (ffl_run_from th n r s1) as [s2|[|] s2].
      * destruct Hr as [Hc2 [Hh2 Hk2]]. rewrite fl_run_from_cons, <- Hc.
        repeat split; try assumption; try apply Hh2. constructor; assumption.
      * destruct Hr as [ops1 [o' [ops2 [He [Hk1 [Hc2 [Hest [Hn1 Hn2]]]]]]]].
        exists (o :: ops1), o', ops2. rewrite fl_run_from_cons, <- Hc.
        repeat split; try assumption.
        -- rewrite He. reflexivity.
        -- constructor; assumption.
      * destruct Hr as [ops1 [o' [ops2 [He [Hk1 [Hk' [Hc2 Hh2]]]]]]].
        exists (o :: ops1), o', ops2. rewrite fl_run_from_cons, <- Hc.
        repeat split; try assumption; try apply Hh2.
        -- rewrite He. reflexivity.
        -- constructor; assumption.
    + destruct Ho as [Hc [Hest [Hn1 Hn2]]].
      exists [], o, r. rewrite Hc.
      repeat split; try assumption. constructor.
    + destruct Ho as [Hk [Hc Hh1]].
      exists [], o, r. repeat split; try assumption; try apply Hh1. constructor.
Qed.

Lemma healthy_init n : healthy n ffl_init.
Proof. unfold healthy. cbn. lia. Qed.

(** batches of a run that is cut at [o] after [ops1] *)
Lemma fl_batches_cut th ops1 o ops2 :
  op_estimate (psize (fl_run th ops1)) o > th ->
  exists l, fl_batches th (ops1 ++ o :: ops2)
            = written (fl_run th ops1) ++ pending (fl_run th ops1) :: l.
Proof.
  intros Hest. unfold fl_batches, fl_run in *. rewrite fl_run_from_app, fl_run_from_cons.
  set (st1 := fl_run_from th ops1 fl_init) in *.
  destruct (fl_run_written_mono th ops2 (fl_step th st1 o)) as [l Hl].
  unfold fl_write at 1. cbn [written]. rewrite Hl.
  rewrite fl_step_unfold.
  destruct (op_estimate (psize st1) o >? th) eqn:E; [|lia].
  unfold fl_add, fl_write. cbn [written].
  eexists. rewrite <- !app_assoc. cbn [app]. reflexivity.
Qed.

Lemma firstn_length_app {X} (a b : list X) : firstn (length a) (a ++ b) = a.
Proof. rewrite firstn_app, Nat.sub_diag, firstn_all. cbn [firstn]. apply app_nil_r. Qed.

(** All outcomes of one logical operation ([ops], then the caller's [Write]) over a backend
    whose [n]-th [Write] fails. *)
Theorem ffl_commit_cases th n ops :
  match ffl_commit th n ops with
  | FOk s =>
      (* nothing failed: exactly the ideal run *)
      written (fcore s) = fl_batches th ops /\ pending (fcore s) = [] /\
      nwrites s = length (fl_batches th ops) /\
      (n = 0 \/ length (fl_batches th ops) < n)%nat /\ keys_ok ops
  | FErr EWriteFailed s =>
      (* the database holds exactly the first [n-1] physical batches, the wrapper still holds
         the [n]-th, the operations issued so far are a prefix of [ops], and the error came out
         of the [Set]/[Delete] of the next operation (whose estimate exceeded the threshold) or
         out of the final [Write] *)
      (1 <= n <= length (fl_batches th ops))%nat /\ nwrites s = n /\
      written (fcore s) = firstn (n - 1) (fl_batches th ops) /\
      pending (fcore s) = nth (n - 1) (fl_batches th ops) [] /\
      exists ops1 ops2, ops = ops1 ++ ops2 /\ keys_ok ops1 /\
        concat (written (fcore s)) ++ pending (fcore s) = ops1 /\
        match ops2 with
        | [] => True
        | o :: _ => op_estimate (psize (fcore s)) o > th
        end
  | FErr EKeyEmpty s =>
      (* the backend batch rejected an empty key; an automatic flush may just have happened *)
      exists ops1 o ops2, ops = ops1 ++ o :: ops2 /\ keys_ok ops1 /\ op_key o = [] /\
        fcore s = flush_if th o (fl_run th ops1) /\
        concat (written (fcore s)) ++ pending (fcore s) = ops1
  end.
Proof.
  unfold ffl_commit.
  pose proof (ffl_run_spec th n ops ffl_init (healthy_init n)) as Hr.
  cbn [fcore ffl_init] in Hr. fold (fl_run th ops) in Hr.
  destruct (ffl_run_from th n ops ffl_init) as [s1|[|] s1].
  - destruct Hr as [Hc [[Hn Hf] Hk]].
    assert (Hb : fl_batches th ops = written (fcore s1) ++ [pending (fcore s1)]).
    { unfold fl_batches. rewrite <- Hc. reflexivity. }
    unfold ffl_write. destruct (Nat.eqb (S (nwrites s1)) n) eqn:En.
    + apply Nat.eqb_eq in En. cbn [fcore nwrites].
      rewrite Hb, app_length. cbn [length].
      replace (n - 1)%nat with (length (written (fcore s1))) by lia.
      rewrite firstn_length_app, nth_middle.
      repeat split; try lia.
      exists ops, []. rewrite app_nil_r. repeat split; try assumption.
      rewrite Hc. unfold fl_run. rewrite (fl_run_concat th ops fl_init sized_init). reflexivity.
    + apply Nat.eqb_neq in En. cbn [fcore nwrites].
      unfold fl_write at 1 2. cbn [written pending].
      rewrite Hb, app_length. cbn [length]. repeat split; try assumption; lia.
  - destruct Hr as [ops1 [o [ops2 [He [Hk1 [Hc [Hest [Hn1 Hn2]]]]]]]].
    fold (fl_run th ops1) in Hc.
    rewrite Hc in Hest. destruct (fl_batches_cut th ops1 o ops2 Hest) as [l Hl].
    rewrite <- He in Hl. rewrite <- Hc in Hl.
    rewrite Hl, app_length. cbn [length].
    replace (n - 1)%nat with (length (written (fcore s1))) by lia.
    rewrite firstn_length_app, nth_middle.
    repeat split; try lia.
    exists ops1, (o :: ops2). repeat split; try assumption.
    + rewrite Hc. unfold fl_run. rewrite (fl_run_concat th ops1 fl_init sized_init). reflexivity.
    + rewrite Hc. exact Hest.
  - destruct Hr as [ops1 [o [ops2 [He [Hk1 [Hk [Hc Hh]]]]]]].
    fold (fl_run th ops1) in Hc.
    exists ops1, o, ops2. repeat split; try assumption.
    rewrite Hc. unfold flush_if.
    pose proof (fl_run_concat th ops1 fl_init sized_init) as Hcc. fold (fl_run th ops1) in Hcc.
    cbn [fl_init written pending concat app] in Hcc.
    destruct (op_estimate (psize (fl_run th ops1)) o >? th).
    + unfold fl_write. cbn [written pending]. rewrite concat_app. cbn [concat].
      rewrite !app_nil_r. exact Hcc.
    + exact Hcc.
Qed.

(** 6a. with non-empty keys, a failure number within the number of physical batches IS reported *)
Theorem fl_fault_reported th n ops :
  keys_ok ops -> (1 <= n <= length (fl_batches th ops))%nat ->
  exists s, ffl_commit th n ops = FErr EWriteFailed s /\ nwrites s = n.
Proof.
  intros Hk Hn. pose proof (ffl_commit_cases th n ops) as H.
  destruct (ffl_commit th n ops) as [s|[|] s].
  - destruct H as [_ [_ [_ [Hf _]]]]. lia.
  - exists s. split; [reflexivity|apply H].
  - destruct H as [ops1 [o [ops2 [He [_ [Hko _]]]]]]. exfalso.
    unfold keys_ok in Hk. rewrite He in Hk. apply Forall_app in Hk. destruct Hk as [_ Hk].
    inversion Hk as [|? ? Hko' _]. contradiction.
Qed.

(** 6b. then the database holds exactly the first [n-1] batches = a prefix of [ops] at a cut
    position, and no later operation was applied *)
Theorem fl_fault_prefix th n ops s :
  ffl_commit th n ops = FErr EWriteFailed s ->
  ffl_db_batches (FErr EWriteFailed s) = firstn (n - 1) (fl_batches th ops) /\
  concat (ffl_db_batches (FErr EWriteFailed s))
  = firstn (nth (n - 1) (0%nat :: cut_positions th ops ++ [length ops]) (length ops)) ops /\
  forall m, kv_apply_batches m (ffl_db_batches (FErr EWriteFailed s))
            = kv_apply_ops m
                (firstn (nth (n - 1) (0%nat :: cut_positions th ops ++ [length ops]) (length ops)) ops).
Proof.
  intros E. pose proof (ffl_commit_cases th n ops) as H. rewrite E in H.
  destruct H as [_ [_ [Hw _]]].
  unfold ffl_db_batches, fres_state. rewrite Hw.
  split; [reflexivity|]. split.
  - apply fl_prefix_states.
  - intros m. apply fl_prefix_db.
Qed.

(** without failure and with non-empty keys the fault layer is the ideal layer *)
Theorem ffl_run_ideal th n ops :
  keys_ok ops -> (n = 0 \/ length (fl_batches th ops) < n)%nat ->
  ffl_commit th n ops
  = FOk (mkFfl (fl_write (fl_run th ops)) (length (fl_batches th ops))).
Proof.
  intros Hk Hn. pose proof (ffl_commit_cases th n ops) as H.
  destruct (ffl_commit th n ops) as [s|[|] s] eqn:Ec.
  - destruct H as [Hw [Hp [Hnw _]]]. f_equal.
    destruct s as [c nw]. cbn [fcore nwrites] in *. subst nw. f_equal.
    (* the size field: from the definition of the final write *)
    unfold ffl_commit in Ec.
    destruct (ffl_run_from th n ops ffl_init) as [s1|e s1]; [|discriminate].
    unfold ffl_write in Ec. destruct (Nat.eqb (S (nwrites s1)) n); [discriminate|].
    injection Ec as Ec _. subst c. unfold fl_write in *. cbn [written pending] in *.
    f_equal. exact Hw.
  - destruct H as [Hr _]. lia.
  - destruct H as [ops1 [o [ops2 [He [_ [Hko _]]]]]]. exfalso.
    unfold keys_ok in Hk. rewrite He in Hk. apply Forall_app in Hk. destruct Hk as [_ Hk].
    inversion Hk as [|? ? Hko' _]. contradiction.
Qed.

(** * 7. Examples (keys of 13 bytes, values of 20 to 120 bytes, thresholds 0, 1, 150, 200, 100000) *)

Definition key13 (i : N) : bytes := repeat i 13.
Definition val (n : nat) : bytes := repeat 7%N n.
Definition is_set (o : bop) : bool := match o with BSet _ _ => true | BDel _ => false end.

(** sizes 33, 73, 13, 133, 53, 13, 113 *)
Definition ops_ex : list bop :=
  [BSet (key13 1) (val 20); BSet (key13 2) (val 60); BDel (key13 1); BSet (key13 3) (val 120);
   BSet (key13 4) (val 40); BDel (key13 2); BSet (key13 5) (val 100)].

Example ex_sizes : map op_size ops_ex = [33; 73; 13; 133; 53; 13; 113].
Proof. vm_compute. reflexivity. Qed.

(** thresholds below 100: an EMPTY first physical batch, then one batch per operation *)
Example ex_th0 : map (map op_size) (fl_batches 0 ops_ex) = [[]; [33]; [73]; [13]; [133]; [53]; [13]; [113]]
  /\ cut_positions 0 ops_ex = [0; 1; 2; 3; 4; 5; 6]%nat
  /\ cut_positions_counted is_set 0 ops_ex = [0; 1; 2; 2; 3; 4; 4]%nat.
Proof. vm_compute. repeat split. Qed.

Example ex_th1 : fl_batches 1 ops_ex = fl_batches 0 ops_ex.
Proof. vm_compute. reflexivity. Qed.

(** 150: 33 + 100 fits, so the first batch is not empty; nothing else fits with its neighbour *)
Example ex_th150 : map (map op_size) (fl_batches 150 ops_ex) = [[33]; [73]; [13]; [133]; [53]; [13]; [113]]
  /\ cut_positions 150 ops_ex = [1; 2; 3; 4; 5; 6]%nat
  /\ cut_positions_counted is_set 150 ops_ex = [1; 2; 2; 3; 4; 4]%nat.
Proof. vm_compute. repeat split. Qed.

Example ex_th200 : map (map op_size) (fl_batches 200 ops_ex) = [[33]; [73; 13]; [133]; [53; 13]; [113]]
  /\ cut_positions 200 ops_ex = [1; 3; 4; 6]%nat
  /\ cut_positions_counted is_set 200 ops_ex = [1; 2; 3; 4]%nat.
Proof. vm_compute. repeat split. Qed.

Example ex_th100000 : fl_batches 100000 ops_ex = [ops_ex] /\ cut_positions 100000 ops_ex = [].
Proof. vm_compute. repeat split. Qed.

(** one oversized value (300 bytes, operation size 313 > 200): passed through alone *)
Definition ops_big : list bop :=
  [BSet (key13 1) (val 20); BSet (key13 2) (val 300); BSet (key13 3) (val 30); BDel (key13 1)].

Example ex_big200 : map (map op_size) (fl_batches 200 ops_big) = [[33]; [313]; [43; 13]]
  /\ cut_positions 200 ops_big = [1; 2]%nat.
Proof. vm_compute. repeat split. Qed.

Example ex_big150 : map (map op_size) (fl_batches 150 ops_big) = [[33]; [313]; [43]; [13]].
Proof. vm_compute. reflexivity. Qed.

Example ex_big0 : map (map op_size) (fl_batches 0 ops_big) = [[]; [33]; [313]; [43]; [13]].
Proof. vm_compute. reflexivity. Qed.

(** the final database does not depend on the threshold *)
Example ex_db : kv_apply_batches [] (fl_batches 0 ops_ex) = kv_apply_batches [] (fl_batches 200 ops_ex)
  /\ map fst (kv_apply_batches [] (fl_batches 200 ops_ex)) = [key13 3; key13 4; key13 5].
Proof. vm_compute. repeat split. Qed.

(** the database after 2 physical batches (threshold 200) is the database after 3 operations *)
Example ex_prefix : kv_apply_batches [] (firstn 2 (fl_batches 200 ops_ex)) = kv_apply_ops [] (firstn 3 ops_ex).
Proof. vm_compute. reflexivity. Qed.

(** the 2nd physical write fails (threshold 200): the error comes out of the 4th [Set]/[Delete]
    (3 operations accepted), the database holds the first batch only, the wrapper still holds
    the second batch *)
Example ex_fault2 :
  exists s, ffl_commit 200 2 ops_ex = FErr EWriteFailed s /\ nwrites s = 2%nat /\
            written (fcore s) = [firstn 1 ops_ex] /\ pending (fcore s) = firstn 2 (skipn 1 ops_ex) /\
            psize (fcore s) = 86.
Proof. eexists. vm_compute. repeat split. Qed.

(** the 5th = last write (the caller's [Write]) fails; a 6th never happens *)
Example ex_fault5 :
  exists s, ffl_commit 200 5 ops_ex = FErr EWriteFailed s /\
            map (map op_size) (written (fcore s)) = [[33]; [73; 13]; [133]; [53; 13]] /\
            map op_size (pending (fcore s)) = [113].
Proof. eexists. vm_compute. repeat split. Qed.

Example ex_fault6 :
  exists s, ffl_commit 200 6 ops_ex = FOk s /\ written (fcore s) = fl_batches 200 ops_ex.
Proof. eexists. vm_compute. repeat split. Qed.

(** an empty key is rejected by the backend batch AFTER the automatic flush it triggered *)
Example ex_empty_key :
  exists s, ffl_commit 200 0 [BSet (key13 1) (val 20); BSet [] (val 90); BSet (key13 2) (val 5)]
            = FErr EKeyEmpty s /\
            written (fcore s) = [[BSet (key13 1) (val 20)]] /\ pending (fcore s) = [] /\ nwrites s = 1%nat.
Proof. eexists. vm_compute. repeat split. Qed.

(** hypotheses of the fault theorems are satisfiable *)
Example ex_keys_ok : keys_ok ops_ex /\ (1 <= 2 <= length (fl_batches 200 ops_ex))%nat.
Proof. split; [repeat constructor; discriminate|vm_compute; split; repeat constructor]. Qed.

Print Assumptions fl_batches_segs.
Print Assumptions fl_concat.
Print Assumptions fl_batches_contiguous.
Print Assumptions fl_batch_bound_strong.
Print Assumptions fl_batch_bound.
Print Assumptions fl_batches_nonempty.
Print Assumptions fl_first_batch_empty.
Print Assumptions fl_batch_maximal.
Print Assumptions fl_batch_maximal_nth.
Print Assumptions fl_small_threshold.
Print Assumptions fl_large_threshold.
Print Assumptions fl_cut_positions_counted.
Print Assumptions fl_cut_positions.
Print Assumptions fl_batches_length.
Print Assumptions fl_prefix_count.
Print Assumptions fl_prefix_states.
Print Assumptions fl_apply_same_gen.
Print Assumptions fl_apply_same.
Print Assumptions fl_threshold_independent.
Print Assumptions fl_prefix_db.
Print Assumptions fl_prefix_db_exists.
Print Assumptions fl_threshold_monotone_refuted.
Print Assumptions ffl_commit_cases.
Print Assumptions fl_fault_reported.
Print Assumptions fl_fault_prefix.
Print Assumptions ffl_run_ideal.
