(** FastLifeFacts4: the hypothesis [save_honest] of the fast-index theorems (FastLifeFacts3)
    holds unless the hash function collides.

    SaveVersion on an existing version number compares root hashes.  With a hash function of
    fixed output length, and heights / sizes / versions / key lengths in the range the encoders
    are injective on (int64, Go slice lengths), equal root hashes of two well-formed
    hash-consistent trees mean equal contents, or else two different inputs of [H] with the same
    image can be exhibited ([recommit_honest_or_collision], constructive). *)
From Coq Require Import Lia.
From IAVL Require Import Bytes Varint VarintFacts Tree VMap TreeFacts MTree MTreeFacts HashFacts
  VersionFacts Store StoreFacts FastLife FastLifeFacts1 FastLifeFacts2 FastLifeFacts3 FastLifeFacts.
Local Open Scope Z_scope.

Definition i64 (x : Z) : Prop := - 2 ^ 63 <= x < 2 ^ 63.
Definition klen_ok (k : bytes) : Prop := (N.of_nat (length k) < 2 ^ 63 - 1)%N.

(** every number and key of the tree is in the range where the encoders are injective *)
Fixpoint enc_ok (wv : Z) (t : node) : Prop :=
  match t with
  | Leaf k _ m => i64 (eff_ver wv m) /\ klen_ok k
  | Inner _ h s m l r => i64 h /\ i64 s /\ i64 (eff_ver wv m) /\ enc_ok wv l /\ enc_ok wv r
  end.

Definition oenc_ok (wv : Z) (t : option node) : Prop :=
  match t with None => True | Some n => enc_ok wv n end.

Lemma varint_app_inj x y r1 r2 :
  i64 x -> i64 y -> varint_enc x ++ r1 = varint_enc y ++ r2 -> x = y /\ r1 = r2.
Proof.
  intros Hx Hy E. pose proof (varint_roundtrip x r1 Hx) as A.
  pose proof (varint_roundtrip y r2 Hy) as B. rewrite E in A. rewrite A in B.
  inversion B; subst y. split; [reflexivity|]. exact (app_inv_head _ _ _ E).
Qed.

Lemma bytes_app_inj k1 k2 r1 r2 :
  klen_ok k1 -> klen_ok k2 -> bytes_enc k1 ++ r1 = bytes_enc k2 ++ r2 -> k1 = k2 /\ r1 = r2.
Proof.
  intros H1 H2 E. pose proof (bytes_roundtrip k1 r1 H1) as A.
  pose proof (bytes_roundtrip k2 r2 H2) as B. rewrite E in A. rewrite A in B.
  inversion B; subst k2. split; [reflexivity|]. exact (app_inv_head _ _ _ E).
Qed.

Lemma app_len_inj {A} (a a' b b' : list A) :
  length a = length a' -> a ++ b = a' ++ b' -> a = a' /\ b = b'.
Proof.
  revert a'. induction a as [|x a IH]; intros [|x' a'] L E; cbn in L; try discriminate.
  - auto.
  - cbn [app] in E. inversion E; subst. destruct (IH a' ltac:(lia) H1) as [-> ->]. auto.
Qed.

Section Honest.
  Variable H : bytes -> bytes.
  Hypothesis Hlen : forall x, length (H x) = 32%nat.

  Definition collides : Prop := exists x y : bytes, x <> y /\ H x = H y.

  Lemma H_eq_cases x y : H x = H y -> x = y \/ collides.
  Proof.
    intros E. destruct (list_eq_dec N.eq_dec x y) as [Q|Q]; [left; exact Q|].
    right. exists x, y. auto.
  Qed.

  Lemma varint_enc_nonempty x : varint_enc x <> [].
  Proof. pose proof (varint_enc_length x) as L. destruct (varint_enc x); cbn in L; [lia|discriminate]. Qed.

  Theorem pure_hash_inj wv1 t1 : forall wv2 t2,
    wf t1 -> wf t2 -> enc_ok wv1 t1 -> enc_ok wv2 t2 ->
    pure_hash H wv1 t1 = pure_hash H wv2 t2 -> elems t1 = elems t2 \/ collides.
  Proof.
    induction t1 as [k1 v1 m1|nk1 h1 s1 m1 l1 IHl r1 IHr];
      intros wv2 [k2 v2 m2|nk2 h2 s2 m2 l2 r2] W1 W2 B1 B2 E; cbn [pure_hash] in E;
      apply H_eq_cases in E; (destruct E as [E|E]; [|right; exact E]).
    - (* leaf / leaf *)
      unfold leaf_preimage in E. apply app_inv_head in E. apply app_inv_head in E.
      destruct B1 as [V1 K1], B2 as [V2 K2].
      destruct (varint_app_inj _ _ _ _ V1 V2 E) as [_ E1].
      destruct (bytes_app_inj _ _ _ _ K1 K2 E1) as [-> E2].
      inversion E2 as [E3]. apply H_eq_cases in E3. destruct E3 as [->|C]; [|right; exact C].
      left. reflexivity.
    - (* leaf / inner: the height differs *)
      exfalso. unfold leaf_preimage, inner_preimage in E.
      destruct B2 as (Hh & _). cbn [wf] in W2. destruct W2 as (Wl & Wr & _ & _ & _ & Hh2 & _).
      pose proof (height_nonneg l2 Wl). pose proof (height_nonneg r2 Wr).
      assert (Z0 : i64 0) by (unfold i64; lia).
      destruct (varint_app_inj _ _ _ _ Z0 Hh E) as [E0 _]. lia.
    - exfalso. unfold leaf_preimage, inner_preimage in E.
      destruct B1 as (Hh & _). cbn [wf] in W1. destruct W1 as (Wl & Wr & _ & _ & _ & Hh1 & _).
      pose proof (height_nonneg l1 Wl). pose proof (height_nonneg r1 Wr).
      assert (Z0 : i64 0) by (unfold i64; lia).
      symmetry in E. destruct (varint_app_inj _ _ _ _ Z0 Hh E) as [E0 _]. lia.
    - (* inner / inner *)
      unfold inner_preimage in E.
      destruct B1 as (Bh1 & Bs1 & Bv1 & Bl1 & Br1), B2 as (Bh2 & Bs2 & Bv2 & Bl2 & Br2).
      destruct (varint_app_inj _ _ _ _ Bh1 Bh2 E) as [_ E1].
      destruct (varint_app_inj _ _ _ _ Bs1 Bs2 E1) as [_ E2].
      destruct (varint_app_inj _ _ _ _ Bv1 Bv2 E2) as [_ E3].
      assert (PL : forall wv t, length (pure_hash H wv t) = 32%nat)
        by (intros wv t; destruct t; apply Hlen).
      assert (LL : length (32%N :: pure_hash H wv1 l1) = length (32%N :: pure_hash H wv2 l2))
        by (cbn [length]; rewrite !PL; reflexivity).
      destruct (app_len_inj _ _ _ _ LL E3) as [E4 E5].
      inversion E4 as [E6]. inversion E5 as [E7].
      cbn [wf] in W1, W2. destruct W1 as (Wl1 & Wr1 & _), W2 as (Wl2 & Wr2 & _).
      destruct (IHl _ _ Wl1 Wl2 Bl1 Bl2 E6) as [A|C]; [|right; exact C].
      destruct (IHr _ _ Wr1 Wr2 Br1 Br2 E7) as [B|C]; [|right; exact C].
      left. cbn [elems]. rewrite A, B. reflexivity.
  Qed.

  (** the hash test of SaveVersion on an existing version *)
  Theorem recommit_honest_or_collision s e :
    state_inv s -> hash_inv H s ->
    lookup (working_version s) (forest s) = Some e ->
    oenc_ok (working_version s) (root s) -> oenc_ok 0 e ->
    snd (do_save H s) <> XErr ->
    oelems e = oelems (root s) \/ collides.
  Proof.
    intros I HI L Br Be NE.
    destruct (save_existing_sharp H s e L) as [[Same _]|[_ E]]; [|rewrite E in NE; cbn [snd] in NE; congruence].
    pose proof (hash_inv_lookup H s _ e HI L) as Se.
    destruct (state_inv_lookup s _ e I L) as [Oe _].
    pose proof (inv_root s I) as Or. pose proof (hi_root H s HI) as Hr.
    unfold same_root_hash in Same. destruct e as [en|].
    - cbn [osaved] in Se. destruct Se as [He Pe].
      destruct (hash_ok_root H en He (all_persisted_root en Pe)) as [Ehs _].
      rewrite Ehs, (root_hash_pure H _ _ Hr) in Same. cbn [oinv oenc_ok] in Oe, Be.
      destruct (root s) as [n|]; cbn [opure_hash oinv oenc_ok onode_ok] in *.
      + destruct (pure_hash_inj 0 en _ n (proj1 Oe) (proj1 Or) Be Br Same) as [A|C];
          [left; exact A|right; exact C].
      + right. destruct en as [k v m|k h s0 m l r]; cbn [pure_hash] in Same;
          apply H_eq_cases in Same; (destruct Same as [Q|C]; [|exact C]); exfalso;
          unfold leaf_preimage, inner_preimage in Q;
          match type of Q with varint_enc ?x ++ _ = [] =>
            pose proof (varint_enc_nonempty x) as N; destruct (varint_enc x); [congruence|discriminate Q]
          end.
    - destruct (root s) as [n|]; [contradiction|]. left. reflexivity.
  Qed.

  (** with a collision-free hash function the re-commit test is honest *)
  Corollary save_honest_collision_free s :
    (forall x y, H x = H y -> x = y) ->
    state_inv s -> hash_inv H s ->
    oenc_ok (working_version s) (root s) ->
    (forall e, lookup (working_version s) (forest s) = Some e -> oenc_ok 0 e) ->
    save_honest H s.
  Proof.
    intros Inj I HI Br Be e L NE.
    destruct (recommit_honest_or_collision s e I HI L Br (Be e L) NE) as [A|(x & y & N & E)];
      [exact A|]. exfalso. apply N, Inj, E.
  Qed.

  (** ** The lift without [save_honest]: collision-free hash, encodable numbers *)

  (** the contract without the honesty clause; instead, at each SaveVersion, the working tree and
      the stored tree of the same number (if any) have encodable numbers and keys *)
  Fixpoint frun_ok_cf (st : fstate) (ops : list fop) : Prop :=
    match ops with
    | [] => True
    | o :: rest =>
        in_contract (ms st) (logical o) /\
        match o with
        | FSave =>
            oenc_ok (working_version (ms st)) (root (ms st)) /\
            forall e, lookup (working_version (ms st)) (forest (ms st)) = Some e -> oenc_ok 0 e
        | FOpenAt _ v => snd (do_load (fresh_ms (ms st)) v) <> XErr   (* the load succeeds *)
        | _ => True
        end /\
        frun_ok_cf (fst (fstep H st o)) rest
    end.

  Lemma frun_ok_of_cf :
    (forall x y, H x = H y -> x = y) ->
    forall ops st, FastLifeFacts.fgood st -> hash_inv H (ms st) ->
    frun_ok_cf st ops -> FastLifeFacts.frun_ok H st ops.
  Proof.
    intros Inj. induction ops as [|o ops IH]; intros st G HI R; cbn [FastLifeFacts.frun_ok];
      [exact Logic.I|].
    destruct R as (IC & B & R).
    assert (FC : fin_contract H st o).
    { split; [exact IC|]. destruct o; try exact Logic.I; [|exact B].
      destruct B as [Br Be]. apply save_honest_collision_free; try assumption. apply G. }
    split; [exact FC|].
    apply IH; [apply FastLifeFacts.fgood_step; assumption| |exact R].
    destruct (FastLifeFacts.fstep_logical H st o (FastLifeFacts.fg_inv _ G)
                (FastLifeFacts.fg_contig _ G) FC (FastLifeFacts.fg_coh _ G)) as [M _].
    rewrite M. apply run_hash_inv; [apply G|exact HI].
  Qed.

  Theorem frun_logical_collision_free iv b skip0 ops :
    (forall x y, H x = H y -> x = y) ->
    init_ok iv b ->
    let st0 := fst (fstep H (finit iv b) (FOpen skip0)) in
    frun_ok_cf st0 ops ->
    snd (frun H st0 ops) =
      FastLifeFacts.visible ops (snd (run H (ms st0) (concat (map logical_ops ops)))) /\
    ms (fst (frun H st0 ops)) = fst (run H (ms st0) (concat (map logical_ops ops))) /\
    fcoh (fst (frun H st0 ops)).
  Proof.
    intros Inj IO st0 R.
    assert (Hiv : 0 <= iv) by (unfold init_ok in IO; destruct b; lia).
    assert (Hn : iv <> 0 \/ b = false) by (unfold init_ok in IO; destruct b; [left; lia|right; reflexivity]).
    assert (HI0 : hash_inv H (ms st0)).
    { unfold st0. rewrite (FastLifeFacts.fstep_ms H (finit iv b) (FOpen skip0) eq_refl).
      cbn [finit ms logical].
      apply step_hash_inv; [apply state_inv_init, Hiv|apply hash_inv_init, Hn]. }
    destruct (FastLifeFacts.frun_logical H iv b skip0 ops IO
                (frun_ok_of_cf Inj ops st0 (FastLifeFacts.fgood_opened H iv b skip0 IO) HI0 R))
      as (_ & E1 & E2 & Co).
    auto.
  Qed.
End Honest.

Print Assumptions recommit_honest_or_collision.
Print Assumptions save_honest_collision_free.
Print Assumptions frun_logical_collision_free.
