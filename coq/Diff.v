(** State-change extraction between two versions (diff.go [extractStateChanges], the
    pre-order [NodeIterator] of iterator.go, nodedb.go [traverseStateChanges]) and
    [MutableTree.SaveChangeSet] (mutable_tree.go), on the M1 trees of Tree.v.

    Modelling assumption (node identity).  The Go code recognises the current shared node
    in the previous tree by [node == sharedNode || bytes.Equal(node.hash, sharedNode.hash)].
    Persisted nodes carry a unique node key [(version, nonce)]; here "same node / same hash"
    is equality of that pair ([same_node]).  This is hash injectivity on the nodes that occur
    in the two trees (a node hash commits to the version and to the whole subtree). *)
From IAVL Require Import Bytes Varint Tree VMap MTree.
Local Open Scope Z_scope.

Inductive change := CSet (k v : bytes) | CDel (k : bytes).

Definition ckey (c : change) : bytes := match c with CSet k _ => k | CDel k => k end.
Definition cset (p : bytes * bytes) : change := CSet (fst p) (snd p).

(** ** NodeIterator: pre-order, explicit stack, head of the list = top of the stack
    (Go: last element of [nodesToVisit]). *)
Definition nstack := list node.

Definition ni_new (root : option node) : nstack :=
  match root with None => [] | Some n => [n] end.
Definition ni_valid (st : nstack) : bool := match st with [] => false | _ :: _ => true end.
Definition ni_node (st : nstack) : option node := match st with [] => None | t :: _ => Some t end.

(** [Next(isSkipped)]: pop; unless skipped or a leaf, push the right child and then the left
    child, so the left child is visited first. *)
Definition ni_next (skip : bool) (st : nstack) : nstack :=
  match st with
  | [] => []
  | t :: st' =>
      if skip then st' else
      match t with
      | Leaf _ _ _ => st'
      | Inner _ _ _ _ l r => l :: r :: st'
      end
  end.

(** node key [(version, nonce)] and the identity test on persisted nodes *)
Definition nk (t : node) : Z * Z := (ver (nmeta t), nonce (nmeta t)).
Definition same_node (a b : node) : bool :=
  (ver (nmeta a) =? ver (nmeta b)) && (nonce (nmeta a) =? nonce (nmeta b)).

(** ** extractStateChanges *)

(** The loop of [advanceSharedNode] (after [consumeNewLeaves] and [sharedNode = nil]):
    returns the iterator, the next shared node (if any) and the new leaves met on the way. *)
Fixpoint adv_loop (fuel : nat) (pv : Z) (cst : nstack) (nl : kvs)
  : option (nstack * option node * kvs) :=
  match fuel with
  | O => None
  | S f =>
      match cst with
      | [] => Some ([], None, nl)
      | t :: _ =>
          let shared := ver (nmeta t) <=? pv in
          let cst' := ni_next shared cst in
          if shared then Some (cst', Some t, nl)
          else
            match t with
            | Leaf k v _ => adv_loop f pv cst' (nl ++ [(k, v)])
            | Inner _ _ _ _ _ _ => adv_loop f pv cst' nl
            end
      end
  end.

(** [addOrphanedLeave]: the pairs emitted and the remaining [newLeaves]. *)
Fixpoint add_orphan (ok : bytes) (nl : kvs) : list change * kvs :=
  match nl with
  | [] => ([CDel ok], [])
  | (k, v) :: nl' =>
      match bcmp ok k with
      | Gt => let (e, r) := add_orphan ok nl' in (CSet k v :: e, r)
      | Lt => ([CDel ok], nl)
      | Eq => ([CSet k v], nl')
      end
  end.

(** The main loop over the previous tree.  The result is the list of pairs handed to the
    receiver from this point on ([None]: out of fuel). *)
Fixpoint main_loop (fuel cfuel : nat) (pv : Z) (pst cst : nstack) (shn : option node) (nl : kvs)
  : option (list change) :=
  match fuel with
  | O => None
  | S f =>
      match pst with
      | [] => Some (map cset nl)                       (* final consumeNewLeaves *)
      | t :: _ =>
          let shared := match shn with Some s => same_node t s | None => false end in
          let pst' := ni_next shared pst in
          if shared then
            (* advanceSharedNode: consumeNewLeaves, then scan the current tree *)
            match adv_loop cfuel pv cst [] with
            | None => None
            | Some (cst', shn', nl') =>
                option_map (app (map cset nl)) (main_loop f cfuel pv pst' cst' shn' nl')
            end
          else
            match t with
            | Leaf k _ _ =>
                let (e, nl') := add_orphan k nl in
                option_map (app e) (main_loop f cfuel pv pst' cst shn nl')
            | Inner _ _ _ _ _ _ => main_loop f cfuel pv pst' cst shn nl
            end
      end
  end.

Fixpoint nodes (t : node) : nat :=
  match t with Leaf _ _ _ => 1%nat | Inner _ _ _ _ l r => S (nodes l + nodes r) end.
Definition onodes (t : option node) : nat := match t with None => O | Some n => nodes n end.

Definition extract (prev_version : Z) (prev cur : option node) : option (list change) :=
  let cfuel := S (onodes cur) in
  let pfuel := S (onodes prev) in
  match adv_loop cfuel prev_version (ni_new cur) [] with
  | None => None
  | Some (cst, shn, nl) => main_loop pfuel cfuel prev_version (ni_new prev) cst shn nl
  end.

(** ** The specification: the net change of a version *)

(** leaves of [t] created after [pv]: the keys written in the version, with their values *)
Fixpoint new_leaves (pv : Z) (t : node) : kvs :=
  match t with
  | Leaf k v m => if ver m <=? pv then [] else [(k, v)]
  | Inner _ _ _ _ l r => new_leaves pv l ++ new_leaves pv r
  end.

(** leaves of [t] that already existed at [pv] *)
Fixpoint old_leaves (pv : Z) (t : node) : kvs :=
  match t with
  | Leaf k v m => if ver m <=? pv then [(k, v)] else []
  | Inner _ _ _ _ l r => old_leaves pv l ++ old_leaves pv r
  end.

Definition sets_of (pv : Z) (cur : option node) : kvs :=
  match cur with None => [] | Some n => new_leaves pv n end.

Definition dels_of (prev cur : option node) : list bytes :=
  filter (fun k => negb (mem k (oelems cur))) (map fst (oelems prev)).

(** two-way merge by key (a key never occurs on both sides, see DiffFacts.dels_sets_disjoint) *)
Fixpoint merge (s : kvs) : list bytes -> list change :=
  fix aux (d : list bytes) : list change :=
    match s with
    | [] => map CDel d
    | (k, v) :: s' =>
        match d with
        | [] => map cset s
        | kd :: d' => if blt kd k then CDel kd :: aux d' else CSet k v :: merge s' d
        end
    end.

Definition net (prev cur : option node) (v : Z) : list change :=
  merge (sets_of v cur) (dels_of prev cur).

Definition apply_change (c : change) (l : kvs) : kvs :=
  match c with CSet k v => ins k v l | CDel k => del k l end.

Fixpoint apply_changes (cs : list change) (l : kvs) : kvs :=
  match cs with
  | [] => l
  | c :: cs' => apply_changes cs' (apply_change c l)
  end.

(** ** traverseStateChanges: range clamping and the per-version loop.
    [start] below the first version is raised to it, [stop] above the latest version is
    lowered to it, the loop runs while [version <= stop] (so [stop] is INCLUSIVE in the code,
    although the public comment says exclusive).  A missing predecessor root
    ([ErrVersionDoesNotExist]) is replaced by the empty root, but [prevVersion] stays
    [start - 1].  A missing root inside the range aborts with an error after the callbacks
    already made. *)
Inductive tres := TOk (l : list (Z * list change)) | TErr (l : list (Z * list change)).

Definition tcons (x : Z * list change) (r : tres) : tres :=
  match r with TOk l => TOk (x :: l) | TErr l => TErr (x :: l) end.

Fixpoint traverse_loop (n : nat) (forest : list (Z * option node)) (version pv : Z)
    (prev : option node) : tres :=
  match n with
  | O => TOk []
  | S n' =>
      match lookup version forest with
      | None => TErr []
      | Some root =>
          match extract pv prev root with
          | None => TErr []                         (* out of fuel: unreachable, DiffFacts *)
          | Some cs => tcons (version, cs) (traverse_loop n' forest (version + 1) version root)
          end
      end
  end.

Definition traverse_state_changes (s : mstate) (start stop : Z) : tres :=
  let first := first_version s in
  let start := if start <? first then first else start in
  let latest := latest_version s in
  let stop := if latest <? stop then latest else stop in
  let pv := start - 1 in
  let prev := match lookup pv (forest s) with Some r => r | None => None end in
  traverse_loop (Z.to_nat (stop - start + 1)) (forest s) start pv prev.

(** ** SaveChangeSet *)
Section Save.
  Variable H : bytes -> bytes.

  (** pairs left to right; the first removal of a missing key aborts with the earlier pairs
      still applied to the working tree (as the Go code leaves it); then SaveVersion *)
  Fixpoint apply_pairs (s : mstate) (cs : list change) : mstate * out :=
    match cs with
    | [] => step H s OSave
    | CSet k v :: cs' => apply_pairs (fst (step H s (OSet k v))) cs'
    | CDel k :: cs' =>
        match step H s (ORemove k) with
        | (s', XPair _ (XBool true)) => apply_pairs s' cs'
        | (s', _) => (s', XErr)
        end
    end.

  Definition root_is_new (s : mstate) : bool :=
    match root s with Some n => is_new n | None => false end.

  (** "cannot save changeset with uncommitted changes": [root != nil && root.nodeKey == nil] *)
  Definition apply_cs (s : mstate) (cs : list change) : mstate * out :=
    if root_is_new s then (s, XErr) else apply_pairs s cs.

  (** replaying a list of change sets, collecting the answers *)
  Fixpoint replay (s : mstate) (css : list (list change)) : mstate * list out :=
    match css with
    | [] => (s, [])
    | cs :: rest =>
        let (s1, x) := apply_cs s cs in
        let (s2, xs) := replay s1 rest in
        (s2, x :: xs)
    end.
End Save.
