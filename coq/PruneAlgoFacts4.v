(** PruneAlgoFacts4: the node iterator and the root key cache on a safe disk, and the double
    traversal [orphans_loop]: it deletes exactly the nodes of the previous tree that the current
    tree does not contain ([loop_ok]), whatever the flush schedule. *)
From Coq Require Import Lia Sorted.
From IAVL Require Import Bytes Varint Tree VMap TreeFacts MTree MTreeFacts HashFacts VersionFacts
  Store StoreFacts PruneAlgo PruneAlgoFacts1 PruneAlgoFacts2 PruneAlgoFacts3.
Local Open Scope Z_scope.

Lemma NoDup_app_r {A} (l1 l2 : list A) : NoDup (l1 ++ l2) -> NoDup l2.
Proof. induction l1 as [|a l1 IH]; cbn [app]; [auto|]. intros N. inversion N; auto. Qed.

(** ** Children, pre-order, measure *)
Definition kids (u : node) : list node :=
  match u with Leaf _ _ _ => [] | Inner _ _ _ _ l r => [l; r] end.

Lemma pre_kids u : pre u = u :: flat_map pre (kids u).
Proof. destruct u; cbn [pre kids flat_map]; [reflexivity|]. rewrite app_nil_r. reflexivity. Qed.

Lemma mx_kids P u : P u = false -> mx P u = flat_map (mx P) (kids u).
Proof.
  intros E. destruct u as [k v m|k h s m l r]; cbn [kids flat_map].
  - apply mx_miss_leaf, E.
  - rewrite (mx_miss_inner _ _ _ _ _ _ _ E), app_nil_r. reflexivity.
Qed.

Lemma kids_sub u c : In c (kids u) -> subtree c u.
Proof.
  destruct u as [k v m|k h s m l r]; cbn [kids In]; [tauto|].
  intros [<-|[<-|[]]]; [apply sub_left|apply sub_right]; apply sub_refl.
Qed.

Definition msum (us : list node) : nat := fold_right (fun u a => (ncount u + a)%nat) 0%nat us.

Lemma msum_app a b : msum (a ++ b) = (msum a + msum b)%nat.
Proof. induction a as [|x a IH]; cbn [msum fold_right app]; [reflexivity|]. fold (msum (a ++ b)). fold (msum a). lia. Qed.

Lemma msum_kids u : ncount u = S (msum (kids u)).
Proof. destruct u; cbn [ncount kids msum fold_right]; lia. Qed.

Lemma msum_cons u us : msum (u :: us) = (ncount u + msum us)%nat.
Proof. reflexivity. Qed.

(** ** The iterator on a safe disk *)
Definition sk (d : store) (ks : nodekey * snode) (u : node) : Prop :=
  snd ks = snode_of u /\ keyok d (fst ks) u.

Definition stk (d : store) (it : nit) (us : list node) : Prop :=
  nerr it = false /\ Forall2 (sk d) (nstack it) us.

Lemma stk_valid d it us :
  stk d it us -> nit_valid it = match us with [] => false | _ => true end.
Proof.
  intros [E F]. unfold nit_valid. rewrite E. cbn [negb andb].
  inversion F; reflexivity.
Qed.

Lemma stk_cons_inv d it u us :
  stk d it (u :: us) ->
  exists k rest, nstack it = (k, snode_of u) :: rest /\ keyok d k u /\ Forall2 (sk d) rest us /\
                 nerr it = false.
Proof.
  intros [E F]. inversion F as [|[k sn] x rest y [A B] F']; subst. cbn [fst snd] in *. subst sn.
  exists k, rest. auto.
Qed.

Lemma stk_nil_inv d it : stk d it [] -> nstack it = [].
Proof. intros [_ F]. inversion F. reflexivity. Qed.

Lemma Forall2_sk_transport d d' l us :
  Forall2 (sk d) l us -> (forall x k, In x us -> keyok d k x -> keyok d' k x) ->
  Forall2 (sk d') l us.
Proof.
  induction 1 as [|[k sn] u l us [A B] F IH]; intros T; constructor.
  - split; [exact A|]. apply T; [left; reflexivity|exact B].
  - apply IH. intros x k' I. apply T. right. exact I.
Qed.

Lemma stk_transport d d' it us :
  stk d it us -> (forall x k, In x us -> keyok d k x -> keyok d' k x) -> stk d' it us.
Proof. intros [E F] T. split; [exact E|]. exact (Forall2_sk_transport _ _ _ _ F T). Qed.

Lemma nit_next_skip d it k sn rest :
  nstack it = (k, sn) :: rest -> nerr it = false -> nit_next d it true = Nit rest false.
Proof. intros E N. unfold nit_next, nit_valid. rewrite E, N. reflexivity. Qed.

Lemma stk_next_skip d it u us : stk d it (u :: us) -> stk d (nit_next d it true) us.
Proof.
  intros S. destruct (stk_cons_inv _ _ _ _ S) as (k & rest & E & _ & F & N).
  rewrite (nit_next_skip d it k _ rest E N). split; [reflexivity|exact F].
Qed.

Lemma nit_next_noskip (L : node -> Prop) sro b d it k u rest us :
  nstack it = (k, snode_of u) :: rest -> nerr it = false ->
  safe L sro b d -> (forall c, In c (kids u) -> L c) -> Forall2 (sk d) rest us ->
  stk d (nit_next d it false) (kids u ++ us).
Proof.
  intros E N (_ & A & _) HL F. unfold nit_next, nit_valid. rewrite E, N. cbn [negb andb].
  destruct u as [key val m|key h s m l r]; cbn [snode_of kids app].
  - split; [reflexivity|exact F].
  - rewrite (A r (HL r (or_intror (or_introl eq_refl)))).
    rewrite (A l (HL l (or_introl eq_refl))).
    split; [reflexivity|]. cbn [nstack].
    constructor; [split; [reflexivity|left; reflexivity]|].
    constructor; [split; [reflexivity|left; reflexivity]|exact F].
Qed.

Lemma nit_new_none d : nit_new d None = Some (Nit [] false) /\ stk d (Nit [] false) [].
Proof. split; [reflexivity|]. split; [reflexivity|constructor]. Qed.

Lemma nit_new_some (L : node -> Prop) sro b d k t :
  safe L sro b d -> L t -> keyok d k t ->
  exists it, nit_new d (Some k) = Some it /\ stk d it [t].
Proof.
  intros S Lt K. unfold nit_new. rewrite (get_node_keyok L sro b d k t S Lt K).
  eexists. split; [reflexivity|]. split; [reflexivity|].
  constructor; [split; [reflexivity|exact K]|constructor].
Qed.

(** ** The root key cache *)
Definition rval (d : store) (rt : option node) (ko : option nodekey) : Prop :=
  match rt, ko with
  | None, None => True
  | Some t, Some k => keyok d k t
  | _, _ => False
  end.

Definition cval (d : store) (fm : forest_t) (w : Z) (ko : option nodekey) : Prop :=
  exists rt, In (w, rt) fm /\ rval d rt ko.

(** every slot is stale (a version below [lo]) or good *)
Definition cache_ok (c : rkc) (d : store) (fm : forest_t) (lo : Z) : Prop :=
  (rv0 c < lo \/ cval d fm (rv0 c) (rk0 c)) /\ (rv1 c < lo \/ cval d fm (rv1 c) (rk1 c)).

Lemma cache_ok_new d fm lo : 0 <= lo -> cache_ok rkc_new d fm lo.
Proof. intros P. split; left; cbn; lia. Qed.

Lemma rkc_get_ok (L : node -> Prop) sro b d c lo w rt :
  safe L sro b d -> (forall w t, In (w, Some t) sro -> L t) -> NoDup (map fst sro) ->
  cache_ok c d sro lo -> lo <= w -> In (w, rt) sro ->
  exists ko c', rkc_get c d w = (POk ko, c') /\ rval d rt ko /\ cache_ok c' d sro lo.
Proof.
  intros S HR NDs [C0 C1] Lw I. unfold rkc_get.
  destruct (rv0 c =? w) eqn:E0.
  { apply Z.eqb_eq in E0. exists (rk0 c), c. split; [reflexivity|]. split; [|split; assumption].
    destruct C0 as [C0|(rt' & I' & R)]; [lia|]. rewrite E0 in I'.
    rewrite (NoDup_fst_functional sro w rt rt' NDs I I'). exact R. }
  destruct (rv1 c =? w) eqn:E1.
  { apply Z.eqb_eq in E1. exists (rk1 c), c. split; [reflexivity|]. split; [|split; assumption].
    destruct C1 as [C1|(rt' & I' & R)]; [lia|]. rewrite E1 in I'.
    rewrite (NoDup_fst_functional sro w rt rt' NDs I I'). exact R. }
  pose proof (get_root_safe L sro b d w rt S I) as G.
  assert (HL : forall t, rt = Some t -> L t) by (intros t ->; exact (HR _ _ I)).
  specialize (G HL).
  assert (New : forall ko, rval d rt ko ->
            cache_ok (if rnext c then Rkc (rv0 c) (rk0 c) w ko false else Rkc w ko (rv1 c) (rk1 c) true)
                     d sro lo).
  { intros ko R. assert (CV : cval d sro w ko) by (exists rt; auto).
    destruct (rnext c); split; cbn [rv0 rk0 rv1 rk1]; auto. }
  destruct rt as [t|].
  - destruct G as (k & G & K). rewrite G. exists (Some k). eexists. split; [reflexivity|].
    split; [exact K|]. apply New. exact K.
  - rewrite G. exists None. eexists. split; [reflexivity|].
    split; [exact Logic.I|]. apply New. exact Logic.I.
Qed.

Lemma cache_ok_transport c d d' fm lo :
  cache_ok c d fm lo ->
  (forall w t k, In (w, Some t) fm -> keyok d k t -> keyok d' k t) ->
  cache_ok c d' fm lo.
Proof.
  intros [C0 C1] T.
  assert (G : forall w ko, cval d fm w ko -> cval d' fm w ko).
  { intros w ko (rt & I & R). exists rt. split; [exact I|].
    destruct rt as [t|], ko as [k|]; cbn [rval] in *; auto. exact (T w t k I R). }
  split; [destruct C0 as [C0|C0]|destruct C1 as [C1|C1]]; auto.
Qed.

Lemma cache_ok_shift c d v rv f' lo lo' :
  cache_ok c d ((v, rv) :: f') lo -> lo <= lo' -> v < lo' -> cache_ok c d f' lo'.
Proof.
  intros [C0 C1] Ll Lv.
  assert (G : forall w ko, cval d ((v, rv) :: f') w ko -> w < lo' \/ cval d f' w ko).
  { intros w ko (rt & [Q|I] & R); [inversion Q; subst; left; exact Lv|].
    right. exists rt. auto. }
  split; [destruct C0 as [C0|C0]|destruct C1 as [C1|C1]]; auto; left; lia.
Qed.

(** ** The double traversal *)
Section Loop.
  Variable H : bytes -> bytes.
  Variable f0 : forest_t.
  Hypothesis FI : forest_inv f0.
  Hypothesis ND : NoDup (map fst f0).

  (** the hash the iterator computes for a fetched node *)
  Definition fhash (u : node) : bytes :=
    match u with
    | Leaf k v m => H (leaf_preimage H (ver m) k v)
    | Inner _ _ _ m _ _ => hs m
    end.

  Lemma fetched_fhash k u : fst k = ver (nmeta u) -> fetched_hash H k (snode_of u) = fhash u.
  Proof. intros E. destruct u; cbn [fetched_hash snode_of fhash nmeta] in *; [rewrite E|]; reflexivity. Qed.

  Variables (v : Z) (f' : forest_t) (tv : node) (otn : option node) (ro : forest_t) (r : list Z).
  Hypothesis Wtv : wf tv.

  Definition inn (c : node) : Prop := exists tn, otn = Some tn /\ subtree c tn.

  Hypothesis HA : forall c, inn c -> (ver (nmeta c) <= v <-> subtree c tv).
  Hypothesis HN : forall u, subtree u tv -> ~ inn u -> ~ sub_of f' u.
  Hypothesis HS : forall u, inn u -> sub_of f' u.
  Hypothesis NC : forall u c, subtree u tv -> subtree c tv -> fhash u = fhash c -> u = c.

  Definition PA (c : node) : bool := ver (nmeta c) <=? v.
  Definition PB (u : node) : bool := insub otn u.
  Definition Lof (ps : list node) (x : node) : Prop := sub_of f' x \/ In x (flat_map pre ps).

  Lemma PB_true u : PB u = true <-> inn u.
  Proof. apply insub_true. Qed.

  Lemma inn_sub c x : inn c -> subtree x c -> inn x.
  Proof. intros (tn & E & S) Sx. exists tn. split; [exact E|exact (sub_trans _ _ _ Sx S)]. Qed.

  Definition olist {A} (o : option A) : list A := match o with Some a => [a] | None => [] end.

  Record LI (p : pdb) (cur prev : nit) (org : option (nodekey * snode))
            (cs ps : list node) (oc : option node) : Prop := MkLI {
    li_cur : stk (disk p) cur cs;
    li_prev : stk (disk p) prev ps;
    li_org : match org, oc with
             | Some ks, Some c => sk (disk p) ks c
             | None, None => True
             | _, _ => False
             end;
    li_cs : forall c, In c cs -> inn c;
    li_oc : forall c, oc = Some c -> inn c /\ ver (nmeta c) <= v;
    li_nd : NoDup (flat_map pre ps);
    li_ps : forall x, In x ps -> subtree x tv;
    li_eq : flat_map (mx PB) ps = olist oc ++ flat_map (mx PA) cs;
    li_pi : PIx f0 p (Lof ps) ro f' r v
  }.

  Lemma Lof_sub ps x u : In u ps -> subtree x u -> Lof ps x.
  Proof.
    intros I S. right. apply in_flat_map. exists u. split; [exact I|]. apply pre_In, S.
  Qed.

  Lemma flat_pre_sub ps x : (forall u, In u ps -> subtree u tv) -> In x (flat_map pre ps) -> subtree x tv.
  Proof.
    intros Hp I. apply in_flat_map in I. destruct I as (u & Iu & Ix). apply pre_In in Ix.
    exact (sub_trans _ _ _ Ix (Hp u Iu)).
  Qed.

  Theorem loop_ok : forall fuel p cur prev org cs ps oc,
    LI p cur prev org cs ps oc -> (msum cs + msum ps + 1 <= fuel)%nat ->
    exists p', orphans_loop H fuel v p cur prev org = POk p' /\
               PIx f0 p' (sub_of f') ro f' r v /\
               (forall x k, sub_of f' x -> keyok (disk p) k x -> keyok (disk p') k x).
  Proof.
    induction fuel as [|fuel IH]; intros p cur prev org cs ps oc I Fu; [lia|].
    destruct I as [Scur Sprev Sorg Ccs Coc Nd Cps Ieq PX].
    cbn [orphans_loop]. rewrite (stk_valid _ _ _ Sprev).
    destruct ps as [|u us].
    { (* the previous tree is exhausted *)
      cbn [negb]. rewrite (proj1 Scur), (proj1 Sprev). exists p. split; [reflexivity|]. split; [|auto].
      apply (PIx_ext f0 p (Lof [])); [|exact PX]. intros x. unfold Lof. cbn [flat_map In]. tauto. }
    cbn [negb]. rewrite (proj1 Scur).
    rewrite (stk_valid _ _ _ Scur).
    destruct (stk_cons_inv _ _ _ _ Sprev) as (pk & prest & Ep & Kp & Fp & Np).
    assert (Su : subtree u tv) by (apply Cps; left; reflexivity).
    assert (Lu : Lof (u :: us) u) by (apply (Lof_sub _ _ u); [left; reflexivity|apply sub_refl]).
    (* the branch on the previous tree, shared by two cases of the match *)
    assert (PrevStep :
      forall (Horg : match org with Some ks => exists c, oc = Some c /\ sk (disk p) ks c | None => oc = None /\ cs = [] end),
      exists p', match nstack prev with
                 | (pk, pn) :: _ =>
                     if match org with
                        | Some (ok, on) => beq (fetched_hash H pk pn) (fetched_hash H ok on)
                        | None => false
                        end
                     then orphans_loop H fuel v p cur (nit_next (disk p) prev true) None
                     else orphans_loop H fuel v (on_orphan v p pk) cur
                            (nit_next (disk (on_orphan v p pk)) prev false) org
                 | [] => PErr
                 end = POk p' /\
                 PIx f0 p' (sub_of f') ro f' r v /\
                 (forall x k, sub_of f' x -> keyok (disk p) k x -> keyok (disk p') k x)).
    { intros Horg. rewrite Ep.
      set (same := match org with
                   | Some (ok, on) => beq (fetched_hash H pk (snode_of u)) (fetched_hash H ok on)
                   | None => false
                   end).
      assert (Fu' : fetched_hash H pk (snode_of u) = fhash u)
        by (apply fetched_fhash, (keyok_ver _ _ _ Kp)).
      destruct same eqn:Same.
      - (* equal hashes: the candidate itself; skip it *)
        destruct org as [[ok on]|]; [|discriminate]. destruct Horg as (c & Eoc & [Ec Kc]).
        cbn [fst snd] in Ec, Kc. subst on. unfold same in Same. apply beq_true in Same.
        rewrite Fu', (fetched_fhash ok c (keyok_ver _ _ _ Kc)) in Same.
        destruct (Coc c Eoc) as [Ic Vc].
        assert (Sc : subtree c tv) by (apply HA; assumption).
        pose proof (NC u c Su Sc Same) as ->.
        assert (Pc : PB c = true) by (apply PB_true, Ic).
        apply (IH p cur (nit_next (disk p) prev true) None cs us None).
        + constructor; auto.
          * apply (stk_next_skip _ _ c us Sprev).
          * intros c0 Q. discriminate.
          * cbn [flat_map] in Nd. exact (NoDup_app_r _ _ Nd).
          * intros x Ix. apply Cps. right. exact Ix.
          * subst oc. cbn [flat_map olist app] in Ieq. rewrite (mx_hit _ _ Pc) in Ieq.
            cbn [app] in Ieq. inversion Ieq. reflexivity.
          * apply (PIx_ext f0 p (Lof (c :: us))); [|exact PX]. intros x. unfold Lof.
            cbn [flat_map]. rewrite in_app_iff. split; [|tauto].
            intros [A|[A|A]]; auto. left. apply HS. apply pre_In in A. exact (inn_sub c x Ic A).
        + rewrite msum_cons in Fu. pose proof (ncount_pos c). lia.
      - (* an orphan *)
        assert (NPB : PB u = false).
        { destruct (PB u) eqn:Pu; [|reflexivity]. exfalso.
          cbn [flat_map] in Ieq. rewrite (mx_hit _ _ Pu) in Ieq. cbn [app] in Ieq.
          destruct org as [[ok on]|].
          - destruct Horg as (c & Eoc & [Ec Kc]). cbn [fst snd] in Ec, Kc. subst on oc.
            cbn [olist app] in Ieq. injection Ieq as Q _. subst c.
            unfold same in Same. rewrite Fu', (fetched_fhash ok u (keyok_ver _ _ _ Kc)) in Same.
            apply beq_false in Same. congruence.
          - destruct Horg as [-> ->]. cbn [olist flat_map app] in Ieq. discriminate. }
        assert (Nu : ~ inn u) by (intros C; apply PB_true in C; congruence).
        assert (Nf : ~ sub_of f' u) by (apply HN; assumption).
        assert (NR : forall w t, In (w, Some t) f' -> t <> u).
        { intros w t It ->. apply Nf. exists w, u. split; [exact It|apply sub_refl]. }
        destruct (PIx_orphan f0 FI v p (Lof (u :: us)) ro f' r pk u PX Lu Kp NR) as [PX' Tr].
        set (p1 := on_orphan v p pk) in *.
        assert (Eq1 : forall x, minus (Lof (u :: us)) u x <-> Lof (kids u ++ us) x).
        { intros x. unfold minus, Lof. cbn [flat_map]. rewrite flat_map_app.
          rewrite pre_kids. cbn [app In]. rewrite !in_app_iff.
          cbn [flat_map] in Nd. rewrite pre_kids in Nd. cbn [app] in Nd.
          inversion Nd as [|? ? Nin Nd']; subst. rewrite in_app_iff in Nin. split.
          - intros [[A|[A|[A|A]]] Ne]; auto. congruence.
          - intros [A|[A|A]].
            + split; [auto|]. intros ->. contradiction.
            + split; [auto|]. intros ->. tauto.
            + split; [auto|]. intros ->. tauto. }
        pose proof (PIx_ext f0 p1 _ _ ro f' r v Eq1 PX') as PX1.
        assert (Tr' : forall x k, Lof (kids u ++ us) x -> keyok (disk p) k x -> keyok (disk p1) k x).
        { intros x k Lx. apply Tr, Eq1, Lx. }
        destruct (IH p1 cur (nit_next (disk p1) prev false) org cs (kids u ++ us) oc) as (p' & E' & PX2 & Tr2).
        + constructor; auto.
          * apply (stk_transport _ _ _ _ Scur). intros x k Ix. apply Tr'. left. apply HS, Ccs, Ix.
          * destruct PX1 as [_ P1].
            apply (nit_next_noskip (Lof (kids u ++ us)) f' v (disk p1) prev pk u prest us Ep Np
                     (pi_disk _ _ _ _ _ _ P1)).
            -- intros c Ic. apply (Lof_sub _ _ c); [apply in_or_app; left; exact Ic|apply sub_refl].
            -- apply (Forall2_sk_transport _ _ _ _ Fp). intros x k Ix. apply Tr'.
               apply (Lof_sub _ _ x); [apply in_or_app; right; exact Ix|apply sub_refl].
          * destruct org as [ks|], oc as [c|]; try exact Sorg. destruct Sorg as [A B].
            split; [exact A|]. apply Tr'; [|exact B]. left. apply HS. apply (Coc c eq_refl).
          * cbn [flat_map] in Nd. rewrite pre_kids in Nd. cbn [app] in Nd.
            inversion Nd; subst. rewrite flat_map_app. assumption.
          * intros x Ix. apply in_app_or in Ix. destruct Ix as [Ix|Ix].
            -- exact (sub_trans _ _ _ (kids_sub u x Ix) Su).
            -- apply Cps. right. exact Ix.
          * rewrite flat_map_app, <- (mx_kids _ _ NPB). exact Ieq.
        + rewrite msum_app. rewrite msum_cons, (msum_kids u) in Fu. lia.
        + exists p'. split; [exact E'|]. split; [exact PX2|].
          intros x k Sx Kx. apply Tr2; [exact Sx|]. apply Tr'; [left; exact Sx|exact Kx]. }
    destruct org as [[ok on]|].
    - (* a candidate is pending *)
      destruct oc as [c|]; [|contradiction].
      apply PrevStep. exists c. auto.
    - destruct oc as [c|]; [contradiction|].
      destruct cs as [|c cs'].
      + (* the current tree is exhausted: everything left is an orphan *)
        apply PrevStep. auto.
      + (* advance the iterator of the current tree *)
        destruct (stk_cons_inv _ _ _ _ Scur) as (ck & crest & Ec & Kc & Fc & Nc).
        rewrite Ec. rewrite (keyok_ver _ _ _ Kc).
        assert (Ic : inn c) by (apply Ccs; left; reflexivity).
        destruct (ver (nmeta c) <=? v) eqn:Tc.
        * apply (IH p (nit_next (disk p) cur true) prev (Some (ck, snode_of c)) cs' (u :: us) (Some c)).
          -- constructor; auto.
             ++ apply (stk_next_skip _ _ c cs' Scur).
             ++ split; [reflexivity|exact Kc].
             ++ intros x Ix. apply Ccs. right. exact Ix.
             ++ intros c0 Q. inversion Q; subst c0. split; [exact Ic|]. apply Z.leb_le, Tc.
             ++ rewrite Ieq. cbn [olist flat_map app]. unfold PA at 1. rewrite (mx_hit _ _ Tc). reflexivity.
          -- rewrite msum_cons in Fu. pose proof (ncount_pos c). lia.
        * apply (IH p (nit_next (disk p) cur false) prev None (kids c ++ cs') (u :: us) None).
          -- constructor; auto.
             ++ destruct PX as [_ P0].
                apply (nit_next_noskip (Lof (u :: us)) f' v (disk p) cur ck c crest cs' Ec Nc
                         (pi_disk _ _ _ _ _ _ P0)); [|exact Fc].
                intros x Ix. left. apply HS. exact (inn_sub c x Ic (kids_sub c x Ix)).
             ++ intros x Ix. apply in_app_or in Ix. destruct Ix as [Ix|Ix].
                ** exact (inn_sub c x Ic (kids_sub c x Ix)).
                ** apply Ccs. right. exact Ix.
             ++ rewrite Ieq. cbn [olist flat_map app]. rewrite flat_map_app.
                rewrite <- (mx_kids PA c Tc). reflexivity.
          -- rewrite msum_app. rewrite msum_cons, (msum_kids c) in Fu. lia.
  Qed.
End Loop.
