(** FastLifeFacts2: the coherence invariant [fcoh] of the fast-index life cycle (FastLife.v) and
    its building blocks: the persisted part ([lab_ok]: label and index), the in-memory part
    ([uns_ok]: unsaved additions / removals), how they move along changes of the logical state,
    and the upgrade step [enable_if_needed]. *)
From Coq Require Import Lia.
From IAVL Require Import Bytes Varint Tree VMap TreeFacts MTree MTreeFacts VersionFacts
  Store StoreFacts FastLife FastLifeFacts1.
Local Open Scope Z_scope.

(** ** The invariant *)

(** the persisted label never runs ahead of the store, and whenever it names the latest version
    the persisted index is valid for that version (in every mode) *)
Record lab_ok (s : mstate) (ix : list (bytes * (Z * bytes))) (dl ml : option Z) : Prop := LabOk {
  lo_eq : dl = ml;
  lo_le : forall u, dl = Some u -> u <= latest_version s;
  lo_valid : forall u, dl = Some u -> u = latest_version s -> idx_valid s ix
}.

(** the unsaved additions / removals are the difference between the working tree and the last
    saved tree *)
Definition unsaved_ok (s : mstate) (ad : list (bytes * (Z * bytes))) (rm : list (bytes * unit))
  : Prop :=
  forall k, walk_get (root s) k =
    match mfind bcmp k ad with
    | Some (_, v) => Some v
    | None =>
        match mfind bcmp k rm with
        | Some _ => None
        | None => walk_get (last_saved s) k
        end
    end.

(** an unsaved addition carries a version stamp that is true of every retained version from the
    stamp up to the version the working tree is based on (stamps older than [version + 1] arise
    from idempotent re-commits, which keep the unsaved changes) *)
Definition adds_stamped (s : mstate) (ad : list (bytes * (Z * bytes))) : Prop :=
  forall k e v, mfind bcmp k ad = Some (e, v) ->
    e <= version s + 1 /\
    forall t tr, lookup t (forest s) = Some tr -> e <= t <= version s -> walk_get tr k = Some v.

Record uns_ok (s : mstate) (skip : bool) (ad : list (bytes * (Z * bytes)))
    (rm : list (bytes * unit)) : Prop := UnsOk {
  uo_off : skip = true -> ad = [] /\ rm = [];
  uo_asorted : msorted bcmp ad;
  uo_rsorted : msorted bcmp rm;
  uo_disj : forall k, mfind bcmp k ad <> None -> mfind bcmp k rm = None;
  uo_unsaved : skip = false -> unsaved_ok s ad rm;
  uo_stamped : adds_stamped s ad
}.

Record fcoh (st : fstate) : Prop := FCoh {
  fc_lab : lab_ok (ms st) (fidx st) (dlabel st) (mlabel st);
  fc_uns : uns_ok (ms st) (skipf st) (adds st) (rems st);
  fc_on : skipf st = false -> mlabel st = Some (latest_version (ms st))
}.

(** ** The persisted part along changes of the logical state *)
Definition shrinks (s s' : mstate) : Prop :=
  forall t tr, lookup t (forest s') = Some tr -> lookup t (forest s) = Some tr.

Lemma shrinks_refl s : shrinks s s.
Proof. intros t tr L. exact L. Qed.

Lemma lab_ok_none s ix : lab_ok s ix None None.
Proof. constructor; [reflexivity| |]; intros u E; discriminate E. Qed.

Lemma lab_ok_shrink s s' ix dl ml :
  latest_version s' = latest_version s -> ltree s' = ltree s -> shrinks s s' ->
  lab_ok s ix dl ml -> lab_ok s' ix dl ml.
Proof.
  intros EL ET Sub [A B C]. constructor.
  - exact A.
  - intros u E. rewrite EL. apply B, E.
  - intros u E Eu. rewrite EL in Eu. apply (idx_valid_shrink s s' ix EL ET Sub). exact (C u E Eu).
Qed.

(** when the store grows while the index is off, the label becomes stale *)
Lemma lab_ok_grow s s' ix dl ml :
  latest_version s < latest_version s' -> lab_ok s ix dl ml -> lab_ok s' ix dl ml.
Proof.
  intros G [A B C]. constructor.
  - exact A.
  - intros u E. specialize (B u E). lia.
  - intros u E Eu. specialize (B u E). lia.
Qed.

Lemma lab_ok_rebuild s :
  state_inv s -> contig s ->
  lab_ok s (fst (rebuild s)) (Some (latest_version s)) (Some (latest_version s)).
Proof.
  intros I C. constructor; [reflexivity| |].
  - intros u E. inversion E. lia.
  - intros _ _ _. apply rebuild_valid; assumption.
Qed.

(** ** The in-memory part along changes of the logical state *)
Lemma uns_ok_nil s skip :
  (skip = false -> forall k, walk_get (root s) k = walk_get (last_saved s) k) ->
  uns_ok s skip [] [].
Proof.
  intros E. constructor.
  - auto.
  - exact I.
  - exact I.
  - intros k _. reflexivity.
  - intros Sk k. cbn [mfind]. apply E, Sk.
  - intros k e v Q. discriminate Q.
Qed.

Lemma uns_ok_off s s' ad rm : uns_ok s true ad rm -> uns_ok s' true ad rm.
Proof.
  intros U. destruct (uo_off _ _ _ _ U eq_refl) as [-> ->]. apply uns_ok_nil. discriminate.
Qed.

Lemma uns_ok_transfer s s' skip ad rm :
  version s' = version s -> shrinks s s' ->
  (forall k, walk_get (root s') k = walk_get (root s) k) ->
  (forall k, walk_get (last_saved s') k = walk_get (last_saved s) k) ->
  uns_ok s skip ad rm -> uns_ok s' skip ad rm.
Proof.
  intros EV Sub ER ES [A B C D E F]. constructor; auto.
  - intros Sk k. rewrite ER, ES. apply E, Sk.
  - intros k e v Q. destruct (F k e v Q) as [F1 F2]. rewrite EV. split; [exact F1|].
    intros t tr L R. exact (F2 t tr (Sub _ _ L) R).
Qed.

(** ** The upgrade step *)
Lemma enable_ms st : ms (enable_if_needed st) = ms st.
Proof. unfold enable_if_needed. destruct (upgradeable st); reflexivity. Qed.

Lemma enable_skipf st : skipf (enable_if_needed st) = skipf st.
Proof. unfold enable_if_needed. destruct (upgradeable st); reflexivity. Qed.

Lemma enable_unsaved st :
  adds (enable_if_needed st) = adds st /\ rems (enable_if_needed st) = rems st.
Proof. unfold enable_if_needed. destruct (upgradeable st); split; reflexivity. Qed.

Theorem fcoh_enable st :
  state_inv (ms st) -> contig (ms st) ->
  lab_ok (ms st) (fidx st) (dlabel st) (mlabel st) ->
  uns_ok (ms st) (skipf st) (adds st) (rems st) ->
  fcoh (enable_if_needed st).
Proof.
  intros I C LO UO. unfold enable_if_needed. destruct (upgradeable st) eqn:U.
  - pose proof (lab_ok_rebuild (ms st) I C) as LR. rewrite rebuild_eq in *. cbn [fst] in LR.
    constructor; cbn [ms fidx dlabel mlabel skipf adds rems]; auto.
  - constructor; auto. intros Sk. unfold upgradeable in U. rewrite Sk in U. cbn [negb andb] in U.
    destruct (mlabel st) as [u|]; [|discriminate U].
    apply Bool.negb_false_iff, Z.eqb_eq in U. rewrite U. reflexivity.
Qed.

(** with the index on and a current label nothing happens *)
Lemma enable_noop st :
  (skipf st = false -> mlabel st = Some (latest_version (ms st))) -> enable_if_needed st = st.
Proof.
  intros On. unfold enable_if_needed, upgradeable. destruct (skipf st); [reflexivity|].
  rewrite (On eq_refl), Z.eqb_refl. reflexivity.
Qed.

Lemma with_ms_same st : with_ms st (ms st) = st.
Proof. destruct st; reflexivity. Qed.
