(** Proofs about the legacy node store, its writer and the deletions of the new library
    (LegacyStore.v): property C16, deletion side. *)
From IAVL Require Import Bytes Varint Sha256 Tree VMap TreeFacts MTree MTreeFacts HashFacts
  Codec CodecFacts Legacy LegacyFacts LegacyStore.
Local Open Scope Z_scope.

(** ** Key-value primitives *)
Lemma bytes_eqb_false a b : bytes_eqb a b = false -> a <> b.
Proof. unfold bytes_eqb. destruct (list_eq_dec N.eq_dec a b); congruence. Qed.

Lemma bytes_eqb_sym a b : bytes_eqb a b = bytes_eqb b a.
Proof.
  destruct (bytes_eqb a b) eqn:E.
  - apply bytes_eqb_true in E. subst. symmetry. apply bytes_eqb_refl.
  - apply bytes_eqb_false in E. destruct (bytes_eqb b a) eqn:E'; [|reflexivity].
    apply bytes_eqb_true in E'. congruence.
Qed.

Lemma hmem_true h l : hmem h l = true <-> In h l.
Proof.
  unfold hmem. rewrite existsb_exists. split.
  - intros (x & I & E). apply bytes_eqb_true in E. subst. exact I.
  - intros I. exists h. split; [exact I|apply bytes_eqb_refl].
Qed.

Lemma hmem_false h l : hmem h l = false <-> ~ In h l.
Proof.
  rewrite <- hmem_true. destruct (hmem h l); split; congruence.
Qed.

Lemma lfind_ldel_all {A} k ks (st : list (bytes * A)) :
  lfind k (ldel_all ks st) = if hmem k ks then None else lfind k st.
Proof.
  induction st as [|[k' a] st IH]; cbn [ldel_all filter lfind fst].
  - destruct (hmem k ks); reflexivity.
  - fold (ldel_all ks st). destruct (hmem k' ks) eqn:M; cbn [negb lfind].
    + destruct (bytes_eqb k k') eqn:E; [|exact IH].
      apply bytes_eqb_true in E. subst k'. rewrite M in *. exact IH.
    + destruct (bytes_eqb k k') eqn:E; [|exact IH].
      apply bytes_eqb_true in E. subst k'. rewrite M. reflexivity.
Qed.

Lemma lfind_ldel {A} k k' (st : list (bytes * A)) :
  lfind k (ldel k' st) = if bytes_eqb k k' then None else lfind k st.
Proof.
  induction st as [|[k2 a] st IH]; cbn [ldel filter lfind fst].
  - destruct (bytes_eqb k k'); reflexivity.
  - fold (ldel k' st). destruct (bytes_eqb k2 k') eqn:M; cbn [negb lfind].
    + destruct (bytes_eqb k k2) eqn:E; [|exact IH].
      apply bytes_eqb_true in E. subst k2. rewrite M in *. exact IH.
    + destruct (bytes_eqb k k2) eqn:E; [|exact IH].
      apply bytes_eqb_true in E. subst k2. rewrite M. reflexivity.
Qed.

Lemma lfind_lset {A} k k' (a : A) st :
  lfind k (lset k' a st) = if bytes_eqb k k' then Some a else lfind k st.
Proof.
  unfold lset. cbn [lfind]. destruct (bytes_eqb k k') eqn:E; [reflexivity|].
  rewrite lfind_ldel, E. reflexivity.
Qed.

Lemma lfind_lset_all {A} k (es st : list (bytes * A)) :
  lfind k (lset_all es st) = match lfind k es with Some a => Some a | None => lfind k st end.
Proof.
  induction es as [|[k' a] es IH]; cbn [lset_all fold_right lfind fst snd]; [reflexivity|].
  fold (lset_all es st). rewrite lfind_lset. destruct (bytes_eqb k k'); [reflexivity|exact IH].
Qed.

Lemma lfind_Some_In {A} k (a : A) st : lfind k st = Some a -> In (k, a) st.
Proof.
  induction st as [|[k' a'] st IH]; cbn [lfind]; [discriminate|].
  destruct (bytes_eqb k k') eqn:E.
  - intros Q. injection Q as ->. apply bytes_eqb_true in E. subst. left. reflexivity.
  - intros Q. right. auto.
Qed.

Lemma In_lfind {A} k (a : A) st : In (k, a) st -> exists a', lfind k st = Some a'.
Proof.
  induction st as [|[k' a'] st IH]; intros I; [destruct I|]. cbn [lfind].
  destruct (bytes_eqb k k') eqn:E; [eauto|].
  destruct I as [Q|I]; [|auto]. injection Q as -> ->. rewrite bytes_eqb_refl in E. discriminate.
Qed.

Lemma orph_add_In r x l : In x (orph_add r l) -> x = r \/ In x l.
Proof.
  unfold orph_add. destruct (existsb (orec_eqb r) l); [auto|]. intros [E|I]; auto.
Qed.

Lemma orph_adds_In x news l : In x (fold_right orph_add l news) -> In x news \/ In x l.
Proof.
  induction news as [|r news IH]; cbn [fold_right]; [auto|].
  intros I. apply orph_add_In in I. destruct I as [E|I]; [left; left; auto|].
  destruct (IH I); [left; right; assumption|right; assumption].
Qed.

Lemma filter_map_comm {A B} (g : B -> bool) (p : A -> B) l :
  filter g (map p l) = map p (filter (fun x => g (p x)) l).
Proof.
  induction l as [|x l IH]; cbn [map filter]; [reflexivity|].
  destruct (g (p x)); cbn [map]; rewrite IH; reflexivity.
Qed.

Lemma filter_all {A} (g : A -> bool) l : (forall x, In x l -> g x = true) -> filter g l = l.
Proof.
  induction l as [|x l IH]; intros F; cbn [filter]; [reflexivity|].
  rewrite (F x (or_introl eq_refl)), IH; [reflexivity|]. intros y I. apply F. right. exact I.
Qed.

(** ** Maxima of version lists *)
Definition mx (l : list Z) : Z := fold_right Z.max 0 l.

Lemma mx_ge l x : In x l -> x <= mx l.
Proof.
  induction l as [|y l IH]; intros I; [destruct I|]. cbn [mx fold_right]. fold (mx l).
  destruct I as [->|I]; [lia|]. specialize (IH I). lia.
Qed.

Lemma mx_nonneg l : 0 <= mx l.
Proof. induction l as [|y l IH]; cbn [mx fold_right]; [lia|]. fold (mx l). lia. Qed.

Lemma mx_in l : mx l = 0 \/ In (mx l) l.
Proof.
  induction l as [|y l IH]; cbn [mx fold_right]; [auto|]. fold (mx l).
  destruct (Z.max_spec y (mx l)) as [[_ ->]|[_ ->]].
  - destruct IH as [E|I]; [left; exact E|right; right; exact I].
  - right. left. reflexivity.
Qed.

Lemma mx_unique l m : (forall x, In x l -> x <= m) -> m = 0 \/ In m l -> 0 <= m -> mx l = m.
Proof.
  intros Ub Wit Pos. pose proof (mx_nonneg l) as P0.
  assert (mx l <= m). { destruct (mx_in l) as [E|I]; [lia|auto]. }
  assert (m <= mx l). { destruct Wit as [E|I]; [lia|apply mx_ge, I]. }
  lia.
Qed.

Lemma mx_snoc l w : mx (l ++ [w]) = Z.max (mx l) w.
Proof.
  induction l as [|y l IH]; cbn [mx fold_right app]; [lia|]. fold (mx (l ++ [w])) (mx l).
  rewrite IH. lia.
Qed.

Lemma mx_lt l b : (forall x, In x l -> x < b) -> 0 < b -> mx l < b.
Proof. intros F P. destruct (mx_in l) as [E|I]; [lia|auto]. Qed.

(** latest / previous version of a forest *)
Definition flatest (f : lforest) : Z := mx (filter (fun v => 1 <=? v) (map fst f)).
Definition fprev (f : lforest) (v : Z) : Z :=
  mx (filter (fun u => (1 <=? u) && (u <? v)) (map fst f)).

Lemma flatest_ge f v t : In (v, t) f -> 1 <= v -> v <= flatest f.
Proof.
  intros I P. apply mx_ge. apply filter_In. split.
  - apply in_map_iff. exists (v, t). auto.
  - apply Z.leb_le. exact P.
Qed.

Lemma flatest_in f : flatest f = 0 \/ (1 <= flatest f /\ In (flatest f) (map fst f)).
Proof.
  destruct (mx_in (filter (fun v => 1 <=? v) (map fst f))) as [E|I]; [left; exact E|right].
  apply filter_In in I. destruct I as [I P]. apply Z.leb_le in P. auto.
Qed.

Lemma flatest_snoc f w t : w = flatest f + 1 -> flatest (f ++ [(w, t)]) = w.
Proof.
  intros E. unfold flatest. rewrite map_app, filter_app. cbn [map filter fst].
  assert (P : 1 <=? w = true). { apply Z.leb_le. pose proof (mx_nonneg (filter (fun v => 1 <=? v) (map fst f))). unfold flatest in E. lia. }
  rewrite P, mx_snoc. unfold flatest in E. lia.
Qed.

Lemma flatest_remove f v :
  v <> flatest f -> flatest (filter (fun p => negb (fst p =? v)) f) = flatest f.
Proof.
  intros N. unfold flatest at 1. apply mx_unique.
  - intros x I. apply filter_In in I. destruct I as [I P]. apply Z.leb_le in P.
    apply in_map_iff in I. destruct I as ([x' t] & <- & I). apply filter_In in I.
    destruct I as [I _]. exact (flatest_ge f x' t I P).
  - destruct (flatest_in f) as [E|[P I]]; [left; exact E|right].
    apply filter_In. split; [|apply Z.leb_le; exact P].
    apply in_map_iff in I. destruct I as ([x t] & E & I). cbn [fst] in E.
    apply in_map_iff. exists (x, t). split; [exact E|]. apply filter_In. split; [exact I|].
    cbn [fst]. apply negb_true_iff, Z.eqb_neq. congruence.
  - apply mx_nonneg.
Qed.

Lemma fprev_lt f v : 0 < v -> fprev f v < v.
Proof.
  intros P. apply mx_lt; [|exact P]. intros x I. apply filter_In in I. destruct I as [_ B].
  apply andb_prop in B. destruct B as [_ B]. apply Z.ltb_lt in B. exact B.
Qed.

Lemma fprev_ge f v u t : In (u, t) f -> 1 <= u -> u < v -> u <= fprev f v.
Proof.
  intros I P L. apply mx_ge. apply filter_In. split.
  - apply in_map_iff. exists (u, t). auto.
  - apply andb_true_intro. split; [apply Z.leb_le|apply Z.ltb_lt]; assumption.
Qed.

Lemma fprev_succ_latest f : fprev f (flatest f + 1) = flatest f.
Proof.
  unfold fprev, flatest at 2. f_equal. apply filter_ext_in. intros x I.
  destruct (1 <=? x) eqn:P; [|reflexivity]. cbn [andb]. apply Z.ltb_lt.
  assert (x <= flatest f); [|lia].
  apply mx_ge. apply filter_In. auto.
Qed.

(** ** Trees and their hash lists *)
Section Facts.
  Variable H : bytes -> bytes.

  Lemma lview_eq t : lview H t = legacy_view H t.
  Proof. induction t as [|k h s m l IHl r IHr]; cbn [lview legacy_view]; [reflexivity|]. rewrite IHl, IHr. reflexivity. Qed.

  Lemma raw_version n : ln_version (legacy_raw H n) = ver (nmeta n).
  Proof. destruct n; reflexivity. Qed.

  Lemma legacy_nodes_In h r t :
    In (h, r) (legacy_nodes H t) -> exists n, subtree n t /\ h = nhash H n /\ r = legacy_raw H n.
  Proof.
    induction t as [k v m|k hh s m l IHl rr IHr]; cbn [legacy_nodes]; intros I.
    - destruct I as [E|[]]. injection E as <- <-. exists (Leaf k v m). split; [apply sub_refl|auto].
    - destruct I as [E|I].
      + injection E as <- <-. eexists. split; [apply sub_refl|auto].
      + apply in_app_or in I. destruct I as [I|I].
        * destruct (IHl I) as (n & S & E1 & E2). exists n. split; [apply sub_left, S|auto].
        * destruct (IHr I) as (n & S & E1 & E2). exists n. split; [apply sub_right, S|auto].
  Qed.

  Lemma sub_hash n t : subtree n t -> In (nhash H n) (tree_hashes H t).
  Proof.
    intros S. unfold tree_hashes. apply in_map_iff. exists (nhash H n, legacy_raw H n).
    split; [reflexivity|]. apply legacy_nodes_subtree, S.
  Qed.

  Lemma hash_sub h t : In h (tree_hashes H t) -> exists n, subtree n t /\ nhash H n = h.
  Proof.
    unfold tree_hashes. intros I. apply in_map_iff in I. destruct I as ([h' r] & E & I).
    cbn [fst] in E. subst h'. destruct (legacy_nodes_In _ _ _ I) as (n & S & E1 & _). eauto.
  Qed.

  Lemma ohash_sub h t :
    In h (otree_hashes H t) -> exists t' n, t = Some t' /\ subtree n t' /\ nhash H n = h.
  Proof.
    destruct t as [t'|]; cbn [otree_hashes]; [|intros []]. intros I.
    destruct (hash_sub _ _ I) as (n & S & E). eauto.
  Qed.

  Lemma save_branch_In w h r t :
    In (h, r) (save_branch H w t) -> exists n, subtree n t /\ h = nhash H n /\ r = legacy_raw H n.
  Proof.
    induction t as [k v m|k hh s m l IHl rr IHr]; cbn [save_branch nmeta].
    - destruct (ver m =? w); [|intros []]. cbn [app]. intros [E|[]]. injection E as <- <-.
      eexists. split; [apply sub_refl|auto].
    - destruct (ver m =? w); [|intros []]. intros I. apply in_app_or in I. destruct I as [I|I].
      + apply in_app_or in I. destruct I as [I|I].
        * destruct (IHl I) as (n & S & E1 & E2). exists n. split; [apply sub_left, S|auto].
        * destruct (IHr I) as (n & S & E1 & E2). exists n. split; [apply sub_right, S|auto].
      + destruct I as [E|[]]. injection E as <- <-. eexists. split; [apply sub_refl|auto].
  Qed.

  (** a node of the committed tree is written, or sits below a node that is not new *)
  Lemma save_branch_cover w t n :
    subtree n t ->
    In (nhash H n, legacy_raw H n) (save_branch H w t) \/
    exists a, subtree n a /\ subtree a t /\ ver (nmeta a) <> w.
  Proof.
    induction 1 as [t|u k h s m l r S IH|u k h s m l r S IH].
    - destruct (ver (nmeta t) =? w) eqn:E.
      + left. destruct t; cbn [save_branch nmeta]; cbn [nmeta] in E; rewrite E; apply in_or_app; right; left; reflexivity.
      + right. exists t. apply Z.eqb_neq in E. auto using sub_refl.
    - destruct (ver m =? w) eqn:E.
      + destruct IH as [I|(a & S1 & S2 & N)].
        * left. cbn [save_branch nmeta]. rewrite E. apply in_or_app. left. apply in_or_app. left. exact I.
        * right. exists a. auto using sub_left.
      + right. exists (Inner k h s m l r). apply Z.eqb_neq in E.
        split; [apply sub_left, S|]. split; [apply sub_refl|exact E].
    - destruct (ver m =? w) eqn:E.
      + destruct IH as [I|(a & S1 & S2 & N)].
        * left. cbn [save_branch nmeta]. rewrite E. apply in_or_app. left. apply in_or_app. right. exact I.
        * right. exists a. auto using sub_right.
      + right. exists (Inner k h s m l r). apply Z.eqb_neq in E.
        split; [apply sub_right, S|]. split; [apply sub_refl|exact E].
  Qed.
End Facts.

Lemma subtree_trans a b c : subtree a b -> subtree b c -> subtree a c.
Proof.
  intros S1 S2. induction S2 as [t|u k h s m l r _ IH|u k h s m l r _ IH]; [exact S1| |].
  - apply sub_left, IH, S1.
  - apply sub_right, IH, S1.
Qed.

(** ** The invariants *)
Section Inv.
  Variable H : bytes -> bytes.
  (** the nodes on which [H] is assumed free of collisions: closed under subtrees *)
  Variable Univ : node -> Prop.
  Hypothesis Univ_sub : forall a b, subtree a b -> Univ b -> Univ a.
  Hypothesis Univ_inj :
    forall a b, Univ a -> Univ b -> nhash H a = nhash H b -> legacy_raw H a = legacy_raw H b.

  Lemma Univ_ver a b : Univ a -> Univ b -> nhash H a = nhash H b -> ver (nmeta a) = ver (nmeta b).
  Proof. intros Ua Ub E. rewrite <- !(raw_version H). f_equal. apply Univ_inj; assumption. Qed.

  (** every node of every retained version is in the table, under its hash *)
  Definition closed (db : ldb) (f : lforest) : Prop :=
    forall v t n, In (v, Some t) f -> subtree n t ->
                  lfind (nhash H n) (lnodes db) = Some (legacy_raw H n).
  Definition roots_ok (db : ldb) (f : lforest) : Prop :=
    lroots db = map (fun p => (fst p, legacy_root_value H (snd p))) f.
  Definition vers_ok (f : lforest) : Prop :=
    forall v t n, In (v, Some t) f -> subtree n t -> 1 <= ver (nmeta n) <= v.
  Definition forest_univ (f : lforest) : Prop := forall v t, In (v, Some t) f -> Univ t.

  (** an orphan record names a node created at [from] that no retained version after [to] has *)
  Definition rec_ok (f : lforest) (r : orec) : Prop :=
    exists n, Univ n /\ nhash H n = orec_hash r /\ ver (nmeta n) = orec_from r /\
              forall v t, In (v, t) f -> orec_to r < v -> ~ In (orec_hash r) (otree_hashes H t).
  (** ... and every retained version of [from, to] has it *)
  Definition rec_life (f : lforest) (r : orec) : Prop :=
    forall v t, In (v, t) f -> orec_from r <= v <= orec_to r -> In (orec_hash r) (otree_hashes H t).
  (** a node of a retained version is a node of every retained version since its creation *)
  Definition lifetime (f : lforest) : Prop :=
    forall c tc n a ta, In (c, Some tc) f -> subtree n tc -> In (a, ta) f ->
                        ver (nmeta n) <= a <= c -> In (nhash H n) (otree_hashes H ta).

  (** what the deletions of the new library need (holds after a legacy history, and still after
      a rollback) *)
  Record winv (db : ldb) (f : lforest) : Prop := {
    wi_closed : closed db f;
    wi_roots : roots_ok db f;
    wi_vers : vers_ok f;
    wi_univ : forest_univ f;
    wi_recs : forall r, In r (lorph db) -> rec_ok f r
  }.

  (** the invariant of legacy histories *)
  Record hinv (db : ldb) (f : lforest) : Prop := {
    hi_w : winv db f;
    hi_nodup : NoDup (map fst f);
    hi_pos : forall v t, In (v, t) f -> 1 <= v;
    hi_recs : forall r, In r (lorph db) ->
                        (1 <= orec_from r /\ orec_from r <= orec_to r < flatest f) /\ rec_life f r;
    hi_life : lifetime f
  }.

  Lemma roots_versions db f : roots_ok db f -> map fst (lroots db) = map fst f.
  Proof. intros R. rewrite R, map_map. reflexivity. Qed.

  Lemma max_version_flatest db f : roots_ok db f -> max_version (lroots db) = flatest f.
  Proof. intros R. unfold max_version, flatest. rewrite (roots_versions _ _ R). reflexivity. Qed.

  Lemma prev_version_fprev db f v : roots_ok db f -> prev_version (lroots db) v = fprev f v.
  Proof. intros R. unfold prev_version, fprev. rewrite (roots_versions _ _ R). reflexivity. Qed.

  (** *** deleteLegacyNodes *)
  Lemma dln_dead st version : forall fuel nk dead,
    dln fuel st version nk = Some dead ->
    forall h, In h dead -> exists n, lfind h st = Some n /\ version <= ln_version n.
  Proof.
    induction fuel as [|f IH]; intros nk dead; cbn [dln]; [discriminate|].
    destruct (lfind nk st) as [n|] eqn:F; [|discriminate].
    destruct (ln_version n <? version) eqn:V.
    - intros Q. injection Q as <-. intros h [].
    - apply Z.ltb_ge in V. destruct (ln_height n =? 0).
      + intros Q. injection Q as <-. intros h [<-|[]]. eauto.
      + destruct (dln f st version (ln_left n)) as [dl|] eqn:L; [|discriminate].
        destruct (dln f st version (ln_right n)) as [dr|] eqn:R; [|discriminate].
        intros Q. injection Q as <-. intros h I.
        apply in_app_or in I. destruct I as [I|I]; [exact (IH _ _ L h I)|].
        apply in_app_or in I. destruct I as [I|I]; [exact (IH _ _ R h I)|].
        destruct I as [<-|[]]. eauto.
  Qed.

  Lemma dln_succeeds st version t : forall fuel,
    (ldepth t <= fuel)%nat ->
    (forall u, subtree u t -> lfind (nhash H u) st = Some (legacy_raw H u)) ->
    exists dead, dln fuel st version (nhash H t) = Some dead.
  Proof.
    induction t as [k v m|k h s m l IHl r IHr]; intros fuel F Fd;
      (destruct fuel as [|f]; [cbn [ldepth] in F; lia|]); cbn [dln]; rewrite (Fd _ (sub_refl _)).
    - cbn [legacy_raw ln_version ln_height]. destruct (ver m <? version); [eauto|].
      cbn [Z.eqb]. eauto.
    - cbn [legacy_raw ln_version ln_height ln_left ln_right]. destruct (ver m <? version); [eauto|].
      destruct (h =? 0); [eauto|]. cbn [ldepth] in F.
      fold (nhash H l) (nhash H r).
      destruct (IHl f ltac:(lia)) as [dl ->]; [intros u S; apply Fd, sub_left, S|].
      destruct (IHr f ltac:(lia)) as [dr ->]; [intros u S; apply Fd, sub_right, S|].
      eauto.
  Qed.

  Lemma dln_roots_dead fuel st : forall rs dead,
    dln_roots dln fuel st rs = Some dead ->
    forall h, In h dead -> exists v rh n, In (v, rh) rs /\ lfind h st = Some n /\ v <= ln_version n.
  Proof.
    induction rs as [|[v rh] rs IH]; intros dead; cbn [dln_roots].
    - intros Q. injection Q as <-. intros h [].
    - destruct (match rh with [] => Some [] | _ => dln fuel st v rh end) as [d|] eqn:D; [|discriminate].
      destruct (dln_roots dln fuel st rs) as [d'|] eqn:D'; [|discriminate].
      intros Q. injection Q as <-. intros h I. apply in_app_or in I. destruct I as [I|I].
      + destruct rh as [|b rh].
        * injection D as <-. destruct I.
        * destruct (dln_dead _ _ _ _ _ D h I) as (n & F & V). exists v, (b :: rh), n.
          split; [left; reflexivity|auto].
      + destruct (IH _ eq_refl h I) as (v' & rh' & n & I' & F & V). exists v', rh', n.
        split; [right; exact I'|auto].
  Qed.

  Lemma dln_roots_succeeds fuel st : forall rs,
    (forall v rh, In (v, rh) rs -> rh = [] \/ exists dead, dln fuel st v rh = Some dead) ->
    exists dead, dln_roots dln fuel st rs = Some dead.
  Proof.
    induction rs as [|[v rh] rs IH]; intros A; cbn [dln_roots]; [eauto|].
    destruct IH as [d' ->]; [intros v' rh' I; apply A; right; exact I|].
    destruct (A v rh (or_introl eq_refl)) as [->|[d E]]; [eauto|].
    destruct rh as [|b rh]; [eauto|]. rewrite E. eauto.
  Qed.

  (** *** The legacy part of DeleteVersionsFrom *)
  Lemma legacy_latest_bound db f v t :
    roots_ok db f -> In (v, t) f -> 1 <= v -> v <= legacy_latest db.
  Proof.
    intros R I P. unfold legacy_latest. rewrite (max_version_flatest _ _ R).
    pose proof (flatest_ge f v t I P). destruct (flatest f =? 0) eqn:E; [apply Z.eqb_eq in E|]; lia.
  Qed.

  Theorem rollback_legacy_inv db f fuel from :
    winv db f -> 1 <= from ->
    (forall v t, In (v, Some t) f -> (ldepth t <= fuel)%nat) ->
    exists db', rollback_legacy fuel db from = Some db' /\
      winv db' (filter (fun p => fst p <? from) f) /\
      (forall v, from <= v -> lookup v (lroots db') = None) /\
      (forall h n, lfind h (lnodes db) = Some n -> ln_version n < from ->
                   lfind h (lnodes db') = Some n) /\
      (forall h, lfind h (lnodes db) = None -> lfind h (lnodes db') = None) /\
      lorph db' = lorph db.
  Proof.
    intros [C R V U Rc] P Fu.
    set (f' := filter (fun p => fst p <? from) f).
    assert (Sub : forall x, In x f' -> In x f) by (intros x I; apply filter_In in I; tauto).
    assert (V' : vers_ok f') by (intros v t n I; apply V; auto).
    assert (U' : forest_univ f') by (intros v t I; eapply U; eauto).
    assert (Rc' : forall r, In r (lorph db) -> rec_ok f' r).
    { intros r I. destruct (Rc r I) as (n & A1 & A2 & A3 & A4). exists n. repeat split; auto.
      intros v t I'. apply A4. auto. }
    unfold rollback_legacy, rollback_legacy_with.
    set (L := legacy_latest db).
    set (sel := fun p : Z * bytes => (from <=? fst p) && (fst p <=? L)).
    assert (Sel : forall p, In p (lroots db) -> negb (sel p) = (fst p <? from)).
    { intros p I. unfold sel. destruct (from <=? fst p) eqn:E1; cbn [andb negb].
      - apply Z.leb_le in E1. rewrite R in I. apply in_map_iff in I.
        destruct I as ([v t] & <- & I). cbn [fst] in *.
        assert (v <= L) by (apply (legacy_latest_bound db f v t R I); lia).
        replace (v <=? L) with true by (symmetry; apply Z.leb_le; assumption).
        symmetry. apply Z.ltb_ge. exact E1.
      - apply Z.leb_gt in E1. symmetry. apply Z.ltb_lt. exact E1. }
    assert (R' : forall dead,
               roots_ok (Ldb dead (lorph db) (filter (fun p => negb (sel p)) (lroots db))) f').
    { intros dead. unfold roots_ok. cbn [lroots]. rewrite (filter_ext_in _ _ _ Sel), R.
      rewrite filter_map_comm. reflexivity. }
    assert (NoRoot : forall v, from <= v ->
               lookup v (filter (fun p => negb (sel p)) (lroots db)) = None).
    { intros v Hv. rewrite (filter_ext_in _ _ _ Sel).
      rewrite (lookup_filter (fun x => x <? from)).
      replace (v <? from) with false by (symmetry; apply Z.ltb_ge; exact Hv). reflexivity. }
    destruct (from <=? L) eqn:FL.
    - destruct (dln_roots_succeeds fuel (lnodes db) (filter sel (lroots db))) as [dead D].
      { intros v rh I. apply filter_In in I. destruct I as [I _]. rewrite R in I.
        apply in_map_iff in I. destruct I as ([v' t] & E & I). cbn [fst snd] in E.
        injection E as -> <-. destruct t as [t|]; [|left; reflexivity]. right.
        cbn [legacy_root_value]. apply (dln_succeeds (lnodes db) v t fuel (Fu _ _ I)).
        intros u S. exact (C _ _ _ I S). }
      rewrite D. eexists. split; [reflexivity|].
      assert (Keep : forall h n, lfind h (lnodes db) = Some n -> ln_version n < from ->
                                 lfind h (ldel_all dead (lnodes db)) = Some n).
      { intros h n F Vn. rewrite lfind_ldel_all. destruct (hmem h dead) eqn:M; [|exact F].
        apply hmem_true in M.
        destruct (dln_roots_dead _ _ _ _ D h M) as (v & rh & n' & I & F' & Vn').
        apply filter_In in I. destruct I as [_ S]. unfold sel in S. cbn [fst] in S.
        apply andb_prop in S. destruct S as [S _]. apply Z.leb_le in S.
        rewrite F in F'. injection F' as <-. lia. }
      split; [|split; [exact NoRoot|split; [exact Keep|split; [|reflexivity]]]].
      + constructor; cbn [lnodes lorph lroots]; auto.
        intros v t n I S. apply Keep; [exact (C _ _ _ (Sub _ I) S)|].
        rewrite raw_version. apply filter_In in I. destruct I as [I Lt]. cbn [fst] in Lt.
        apply Z.ltb_lt in Lt. pose proof (V _ _ _ I S). lia.
      + intros h F. cbn [lnodes]. rewrite lfind_ldel_all, F. destruct (hmem h dead); reflexivity.
    - eexists. split; [reflexivity|]. apply Z.leb_gt in FL.
      assert (All : forall p, In p (lroots db) -> negb (sel p) = true).
      { intros p I. unfold sel. destruct (from <=? fst p) eqn:E1; [|reflexivity].
        destruct (fst p <=? L) eqn:E2; [|reflexivity]. apply Z.leb_le in E1, E2. lia. }
      assert (Eq : filter (fun p => negb (sel p)) (lroots db) = lroots db) by (apply filter_all, All).
      split; [|split; [rewrite <- Eq; exact NoRoot|auto]].
      constructor; auto.
      + intros v t n I S. exact (C _ _ _ (Sub _ I) S).
      + specialize (R' (lnodes db)). unfold roots_ok in *. cbn [lroots] in R'. rewrite Eq in R'. exact R'.
  Qed.

  (** *** deleteLegacyVersions *)
  Theorem delete_legacy_versions_inv db f L tL tL1 :
    winv db f -> In (L, tL) f ->
    (forall t1, tL1 = Some t1 -> Univ t1) ->
    (forall t1 n, tL1 = Some t1 -> subtree n t1 -> ver (nmeta n) <= L ->
                  exists t, tL = Some t /\ subtree n t) ->
    let db' := delete_legacy_versions H db L tL tL1 in
    (forall t1 n, tL1 = Some t1 -> subtree n t1 -> ver (nmeta n) <= L ->
                  lfind (nhash H n) (lnodes db') = Some (legacy_raw H n)) /\
    (forall h, lfind h (lnodes db) = None -> lfind h (lnodes db') = None) /\
    lroots db' = [] /\ lorph db' = [].
  Proof.
    intros [C R V U Rc] IL U1 Chain db'. split; [|split; [|split; reflexivity]].
    - intros t1 n -> S Vn. destruct (Chain t1 n eq_refl S Vn) as (t & -> & St).
      unfold db', delete_legacy_versions, delete_legacy_versions_with. cbn [lnodes].
      rewrite lfind_ldel_all.
      destruct (hmem (nhash H n) _) eqn:M; [exfalso|exact (C _ _ _ IL St)].
      apply hmem_true in M. apply in_app_or in M. destruct M as [M|M].
      + unfold orphan_diff in M. apply filter_In in M. destruct M as [_ M].
        apply negb_true_iff, hmem_false in M. apply M. cbn [otree_hashes]. apply sub_hash, S.
      + apply in_map_iff in M. destruct M as (r & Eh & M). apply filter_In in M.
        destruct M as [Ir G]. destruct (Rc r Ir) as (n0 & U0 & Eh0 & Ev0 & Abs).
        unfold sweep_guard in G. apply orb_prop in G. destruct G as [G|G].
        * apply andb_prop in G. destruct G as [_ G]. apply Z.ltb_lt in G.
          apply (Abs L (Some t) IL G). rewrite Eh. cbn [otree_hashes]. apply sub_hash, St.
        * apply Z.ltb_lt in G.
          assert (ver (nmeta n) = ver (nmeta n0)).
          { apply Univ_ver; [exact (Univ_sub _ _ S (U1 _ eq_refl))|exact U0|congruence]. }
          lia.
    - intros h F. unfold db', delete_legacy_versions, delete_legacy_versions_with. cbn [lnodes].
      rewrite lfind_ldel_all, F. destruct (hmem h _); reflexivity.
  Qed.
  (** *** The writer keeps the invariant *)

  (** the tree committed as the next version: in the universe, and each of its nodes is new
      (stamped with the new version) or a node of the latest version *)
  Definition commit_ok (f : lforest) (t : option node) : Prop :=
    forall c, t = Some c ->
      Univ c /\
      forall n, subtree n c ->
        ver (nmeta n) = flatest f + 1 \/
        exists p, latest_tree f (flatest f) = Some p /\ subtree n p.

  Lemma hinv_empty : hinv empty_ldb [].
  Proof.
    constructor; [constructor|..]; cbn; try (intros; contradiction); try reflexivity.
    - intros v t n [].
    - intros v t n [].
    - intros v t [].
    - constructor.
    - intros c tc n a ta [].
  Qed.

  Lemma commit_inv db f t db' :
    hinv db f -> commit_ok f t ->
    legacy_commit H db (flatest f + 1) (latest_tree f (flatest f)) t = Some db' ->
    hinv db' (f ++ [(flatest f + 1, t)]).
  Proof.
    intros [[C R V U Rc] ND Pos Rh Lf] CO E. unfold legacy_commit in E.
    rewrite (prev_version_fprev _ _ _ R), fprev_succ_latest in E.
    set (w := flatest f + 1) in *. set (prev := latest_tree f (flatest f)) in *.
    destruct (forallb _ _); [|discriminate]. injection E as <-.
    assert (LeL : forall v t0, In (v, t0) f -> v <= flatest f).
    { intros v t0 I. apply (flatest_ge f v t0 I). eauto. }
    assert (PrevIn : forall p, prev = Some p -> In (flatest f, Some p) f).
    { intros p Ep. unfold prev, latest_tree in Ep.
      destruct (lookup (flatest f) f) as [o|] eqn:Lk; [|discriminate]. subst o.
      apply lookup_In, Lk. }
    assert (Snoc : forall x, In x (f ++ [(w, t)]) -> In x f \/ x = (w, t)).
    { intros x I. apply in_app_or in I. destruct I as [I|[I|[]]]; auto. }
    assert (W0 : 0 <= flatest f) by apply mx_nonneg.
    assert (FL' : flatest (f ++ [(w, t)]) = w) by (apply flatest_snoc; reflexivity).
    (* a node of the new tree that is not new is a node of the previous one *)
    assert (Old : forall c n, t = Some c -> subtree n c -> ver (nmeta n) <> w ->
                              exists p, In (flatest f, Some p) f /\ subtree n p).
    { intros c n Et S N. destruct (CO c Et) as [_ A]. destruct (A n S) as [Ev|(p & Ep & Sp)].
      - contradiction.
      - exists p. auto. }
    assert (V' : vers_ok (f ++ [(w, t)])).
    { intros v t0 n I S. destruct (Snoc _ I) as [I'|Q]; [exact (V _ _ _ I' S)|].
      injection Q as -> Et. destruct (Z.eq_dec (ver (nmeta n)) w) as [Ev|Nv]; [lia|].
      destruct (Old t0 n (eq_sym Et) S Nv) as (p & Ip & Sp). pose proof (V _ _ _ Ip Sp). lia. }
    assert (U' : forest_univ (f ++ [(w, t)])).
    { intros v t0 I. destruct (Snoc _ I) as [I'|Q]; [exact (U _ _ I')|].
      injection Q as -> Et. exact (proj1 (CO t0 (eq_sym Et))). }
    constructor; [constructor|..]; cbn [lnodes lorph lroots].
    - (* closed *)
      unfold closed. cbn [lnodes]. intros v t0 n I S.
      assert (Un : Univ n) by exact (Univ_sub _ _ S (U' _ _ I)).
      destruct t as [c|].
      + rewrite lfind_lset_all.
        destruct (lfind (nhash H n) (save_branch H w c)) as [a|] eqn:F.
        * apply lfind_Some_In, save_branch_In in F. destruct F as (n' & S' & E1 & ->).
          f_equal. apply Univ_inj; auto.
          exact (Univ_sub _ _ S' (proj1 (CO c eq_refl))).
        * destruct (Snoc _ I) as [I'|Q]; [exact (C _ _ _ I' S)|].
          injection Q as -> ->.
          destruct (save_branch_cover H w c n S) as [I2|(a & S1 & S2 & N)].
          -- apply In_lfind in I2. destruct I2 as [a' F']. rewrite F in F'. discriminate.
          -- destruct (Old c a eq_refl S2 N) as (p & Ip & Sp).
             apply (C _ _ _ Ip). exact (subtree_trans _ _ _ S1 Sp).
      + destruct (Snoc _ I) as [I'|Q]; [exact (C _ _ _ I' S)|discriminate].
    - (* roots *)
      unfold roots_ok. cbn [lroots]. rewrite R, map_app. reflexivity.
    - exact V'.
    - exact U'.
    - (* records sound *)
      intros r I. apply orph_adds_In in I. destruct I as [I|I].
      + apply in_map_iff in I. destruct I as ([h fr] & <- & I). cbn [fst snd].
        unfold orphans_of in I. destruct prev as [p|] eqn:Ep; [|destruct I].
        apply in_map_iff in I. destruct I as ([h' raw] & Q & I). cbn [fst snd] in Q.
        injection Q as -> <-. apply filter_In in I. destruct I as [I M]. cbn [fst] in M.
        apply negb_true_iff, hmem_false in M.
        destruct (legacy_nodes_In _ _ _ _ I) as (n & S & -> & ->).
        exists n. unfold orec_hash, orec_from, orec_to. cbn [fst snd].
        split; [exact (Univ_sub _ _ S (U _ _ (PrevIn p eq_refl)))|].
        split; [reflexivity|]. split; [symmetry; apply raw_version|].
        intros v t0 I0 Lt. destruct (Snoc _ I0) as [I'|Q].
        * pose proof (LeL _ _ I'). lia.
        * injection Q as -> ->. exact M.
      + destruct (Rc r I) as (n0 & U0 & Eh & Ev & Abs). destruct (Rh r I) as [(B0 & B1 & B2) _].
        exists n0. split; [exact U0|]. split; [exact Eh|]. split; [exact Ev|].
        intros v t0 I0 Lt. destruct (Snoc _ I0) as [I'|Q]; [exact (Abs _ _ I' Lt)|].
        injection Q as -> ->. intros M. destruct (ohash_sub _ _ _ M) as (c & n' & -> & S' & Eh').
        assert (Un' : Univ n') by exact (Univ_sub _ _ S' (proj1 (CO c eq_refl))).
        assert (Ev' : ver (nmeta n') = ver (nmeta n0)) by (apply Univ_ver; auto; congruence).
        destruct (Old c n' eq_refl S') as (p & Ip & Sp); [unfold w; lia|].
        apply (Abs _ _ Ip B2). rewrite <- Eh'. cbn [otree_hashes]. apply sub_hash, Sp.
    - (* NoDup *)
      rewrite map_app. cbn [map fst]. 
      assert (NI : ~ In w (map fst f)).
      { intros I. apply in_map_iff in I. destruct I as ([v t0] & Ew & I). cbn [fst] in Ew.
        pose proof (LeL _ _ I). unfold w in Ew. lia. }
      clear - ND NI. induction (map fst f) as [|x l IH]; cbn [app].
      + constructor; [intros []|constructor].
      + inversion ND as [|? ? N1 N2]; subst. constructor.
        * intros I. apply in_app_or in I. destruct I as [I|[I|[]]]; [auto|].
          apply NI. left. symmetry. exact I.
        * apply IH; [exact N2|]. intros I. apply NI. right. exact I.
    - (* positive versions *)
      intros v t0 I. destruct (Snoc _ I) as [I'|Q]; [eauto|]. injection Q as -> _. unfold w. lia.
    - (* records: bounds and lifetime *)
      intros r I. rewrite FL'. apply orph_adds_In in I. destruct I as [I|I].
      + apply in_map_iff in I. destruct I as ([h fr] & <- & I).
        unfold orec_hash, orec_from, orec_to, rec_life. cbn [fst snd].
        unfold orphans_of in I. destruct prev as [p|] eqn:Ep; [|destruct I].
        apply in_map_iff in I. destruct I as ([h' raw] & Q & I). cbn [fst snd] in Q.
        injection Q as -> <-. apply filter_In in I. destruct I as [I _].
        destruct (legacy_nodes_In _ _ _ _ I) as (n & S & -> & ->). rewrite raw_version.
        pose proof (V _ _ _ (PrevIn p eq_refl) S) as Vn.
        split; [unfold w; lia|].
        unfold orec_hash, orec_from, orec_to. cbn [fst snd].
        intros v t0 I0 B. destruct (Snoc _ I0) as [I'|Q].
        * apply (Lf _ _ n _ _ (PrevIn p eq_refl) S I'). lia.
        * injection Q as -> _. unfold w in B. lia.
      + destruct (Rh r I) as [(B0 & B1 & B2) Life]. split; [unfold w; lia|].
        intros v t0 I0 B. destruct (Snoc _ I0) as [I'|Q]; [exact (Life _ _ I' B)|].
        injection Q as -> _. unfold w in B. lia.
    - (* lifetime *)
      intros c tc n a ta Ic S Ia B.
      destruct (Snoc _ Ic) as [Ic'|Qc]; destruct (Snoc _ Ia) as [Ia'|Qa].
      + exact (Lf _ _ _ _ _ Ic' S Ia' B).
      + injection Qa as -> _. pose proof (LeL _ _ Ic'). unfold w in B. lia.
      + injection Qc as -> Et.
        destruct (Old tc n (eq_sym Et) S) as (p & Ip & Sp).
        { pose proof (LeL _ _ Ia'). unfold w. lia. }
        apply (Lf _ _ n _ _ Ip Sp Ia'). pose proof (LeL _ _ Ia'). lia.
      + injection Qc as -> Et. injection Qa as _ <-. rewrite <- Et. cbn [otree_hashes].
        apply sub_hash, S.
  Qed.
  Lemma delete_inv db f v db' :
    hinv db f -> legacy_delete_version db v = Some db' ->
    hinv db' (filter (fun p => negb (fst p =? v)) f).
  Proof.
    intros [[C R V U Rc] ND Pos Rh Lf] E. unfold legacy_delete_version in E.
    destruct (v <=? 0) eqn:E0; [discriminate|]. apply Z.leb_gt in E0.
    rewrite (max_version_flatest _ _ R) in E.
    destruct (v =? flatest f) eqn:E1; [discriminate|]. apply Z.eqb_neq in E1.
    destruct (lookup v (lroots db)) as [rh|] eqn:Lk; [|discriminate].
    rewrite (prev_version_fprev _ _ _ R) in E. injection E as <-.
    set (f' := filter (fun p => negb (fst p =? v)) f). set (pred := fprev f v).
    assert (Sub : forall x, In x f' -> In x f) by (intros x I; apply filter_In in I; tauto).
    assert (Vin : exists t, In (v, t) f).
    { apply lookup_In in Lk. rewrite R in Lk. apply in_map_iff in Lk.
      destruct Lk as ([v' t] & Q & I). cbn [fst snd] in Q. injection Q as -> _. eauto. }
    assert (VL : v < flatest f).
    { destruct Vin as [t I]. pose proof (flatest_ge f v t I). lia. }
    assert (FL' : flatest f' = flatest f) by (apply flatest_remove; exact E1).
    assert (PredLt : pred < v) by (apply fprev_lt; lia).
    assert (PredGe : forall u t, In (u, t) f -> u < v -> u <= pred).
    { intros u t I L. apply (fprev_ge f v u t I); eauto. }
    assert (Ne : forall u t, In (u, t) f' -> u <> v).
    { intros u t I. apply filter_In in I. destruct I as [_ B]. cbn [fst] in B.
      apply negb_true_iff, Z.eqb_neq in B. exact B. }
    constructor; [constructor|..]; cbn [lnodes lorph lroots].
    - (* closed *)
      unfold closed. cbn [lnodes]. intros u t n I S. rewrite lfind_ldel_all.
      destruct (hmem (nhash H n) _) eqn:M; [exfalso|exact (C _ _ _ (Sub _ I) S)].
      apply hmem_true in M. apply in_map_iff in M. destruct M as (r & Eh & Ir).
      apply filter_In in Ir. destruct Ir as [Ir G]. apply filter_In in Ir. destruct Ir as [Ir Eto].
      apply Z.eqb_eq in Eto. destruct (Rc r Ir) as (n0 & U0 & Eh0 & Ev0 & Abs).
      assert (Un : Univ n) by exact (Univ_sub _ _ S (U _ _ (Sub _ I))).
      assert (Ev : ver (nmeta n) = orec_from r).
      { rewrite <- Ev0. apply Univ_ver; auto. congruence. }
      pose proof (V _ _ _ (Sub _ I) S) as Vn. pose proof (Ne _ _ I) as Nu.
      destruct (Z.lt_ge_cases v u) as [Gt|Le].
      + apply (Abs u (Some t) (Sub _ I)); [lia|]. rewrite Eh. cbn [otree_hashes]. apply sub_hash, S.
      + assert (u <= pred) by (apply (PredGe u (Some t) (Sub _ I)); lia).
        apply orb_prop in G. destruct G as [G|G]; [apply Z.ltb_lt in G|apply Z.eqb_eq in G]; lia.
    - (* roots *)
      unfold roots_ok. cbn [lroots]. rewrite R, filter_map_comm. reflexivity.
    - intros u t n I. apply V. auto.
    - intros u t I. eapply U; eauto.
    - (* records sound *)
      intros r' I. apply orph_adds_In in I. destruct I as [I|I].
      + apply in_map_iff in I. destruct I as (r & <- & Ir).
        apply filter_In in Ir. destruct Ir as [Ir G]. apply filter_In in Ir. destruct Ir as [Ir Eto].
        apply Z.eqb_eq in Eto. destruct (Rc r Ir) as (n0 & U0 & Eh0 & Ev0 & Abs).
        exists n0. unfold orec_hash, orec_from, orec_to in *. cbn [fst snd].
        split; [exact U0|]. split; [exact Eh0|]. split; [exact Ev0|].
        intros u t I0 Lt. pose proof (Ne _ _ I0) as Nu.
        destruct (Z.lt_ge_cases v u) as [Gt|Le]; [apply (Abs _ _ (Sub _ I0)); lia|].
        assert (u <= pred) by (apply (PredGe u t (Sub _ I0)); lia). lia.
      + apply filter_In in I. destruct I as [Ir _].
        destruct (Rc r' Ir) as (n0 & U0 & Eh0 & Ev0 & Abs).
        exists n0. repeat split; auto. intros u t I0. apply Abs. auto.
    - (* NoDup *)
      unfold f'. rewrite <- (filter_map_comm (fun x => negb (x =? v)) fst f).
      apply NoDup_filter, ND.
    - intros u t I. eapply Pos; eauto.
    - (* records: bounds and lifetime *)
      intros r' I. rewrite FL'. apply orph_adds_In in I. destruct I as [I|I].
      + apply in_map_iff in I. destruct I as (r & <- & Ir).
        apply filter_In in Ir. destruct Ir as [Ir G]. apply filter_In in Ir. destruct Ir as [Ir Eto].
        apply Z.eqb_eq in Eto. destruct (Rh r Ir) as [(B0 & B1 & B2) Life].
        apply negb_true_iff, orb_false_elim in G. destruct G as [G _]. apply Z.ltb_ge in G.
        unfold rec_life, orec_hash, orec_from, orec_to in *. cbn [fst snd].
        split; [lia|]. intros u t I0 B. apply (Life _ _ (Sub _ I0)). lia.
      + apply filter_In in I. destruct I as [Ir _]. destruct (Rh r' Ir) as [B Life].
        split; [exact B|]. intros u t I0. apply Life. auto.
    - (* lifetime *)
      intros c tc n a ta Ic S Ia. apply (Lf _ _ _ _ _ (Sub _ Ic) S (Sub _ Ia)).
  Qed.

  (** *** Histories *)
  Definition step_ok (f : lforest) (o : lop) : Prop :=
    match o with LCommit t => commit_ok f t | LDelete _ => True end.

  Definition next_state (st : ldb * lforest) (o : lop) : ldb * lforest :=
    match legacy_step H st o with Some st' => st' | None => st end.

  Fixpoint hist_ok (st : ldb * lforest) (ops : list lop) : Prop :=
    match ops with
    | [] => True
    | o :: rest => step_ok (snd st) o /\ hist_ok (next_state st o) rest
    end.

  Lemma step_inv st o :
    hinv (fst st) (snd st) -> step_ok (snd st) o ->
    hinv (fst (next_state st o)) (snd (next_state st o)).
  Proof.
    destruct st as [db f]. cbn [fst snd]. intros I Ok. unfold next_state, legacy_step.
    destruct o as [t|v].
    - rewrite (max_version_flatest _ _ (wi_roots _ _ (hi_w _ _ I))).
      destruct (legacy_commit H db (flatest f + 1) (latest_tree f (flatest f)) t) as [db'|] eqn:E;
        [|exact I].
      cbn [fst snd]. exact (commit_inv _ _ _ _ I Ok E).
    - destruct (legacy_delete_version db v) as [db'|] eqn:E; [|exact I].
      cbn [fst snd]. exact (delete_inv _ _ _ _ I E).
  Qed.

  Lemma history_from_inv ops : forall st,
    hinv (fst st) (snd st) -> hist_ok st ops ->
    hinv (fst (legacy_history_from H st ops)) (snd (legacy_history_from H st ops)).
  Proof.
    induction ops as [|o ops IH]; intros st I Ok; [exact I|].
    destruct Ok as [Ok1 Ok2]. cbn [legacy_history_from fold_left].
    apply (IH (next_state st o)); [apply step_inv; assumption|exact Ok2].
  Qed.

  Theorem history_inv ops :
    hist_ok (empty_ldb, []) ops ->
    hinv (fst (legacy_history H ops)) (snd (legacy_history H ops)).
  Proof. intros Ok. apply history_from_inv; [exact hinv_empty|exact Ok]. Qed.
End Inv.

(** ** The theorems, for an explicit universe of trees on which [H] has no collision *)
Definition sub_of (U : list node) (n : node) : Prop := exists t, In t U /\ subtree n t.

Definition hash_inj_on (H : bytes -> bytes) (U : list node) : Prop :=
  forall a b, sub_of U a -> sub_of U b -> nhash H a = nhash H b -> legacy_raw H a = legacy_raw H b.

Lemma sub_of_sub U a b : subtree a b -> sub_of U b -> sub_of U a.
Proof. intros S (t & I & S'). exists t. split; [exact I|exact (subtree_trans _ _ _ S S')]. Qed.

Lemma sub_of_root U t : In t U -> sub_of U t.
Proof. intros I. exists t. split; [exact I|apply sub_refl]. Qed.

(** a legacy history over the trees of [U]: every committed tree is one of [U], and each of its
    nodes is either stamped with the version being committed or a node of the latest version
    (what an M1 commit produces); deletions are unconstrained (a refused one changes nothing) *)
Definition legacy_hist_ok (H : bytes -> bytes) (U : list node) (ops : list lop) : Prop :=
  hist_ok H (sub_of U) (empty_ldb, []) ops.

(** a tree that the legacy codec stores and reads back, hashes pairwise distinct, root hash
    not the marker of the empty tree *)
Definition tree_storable (H : bytes -> bytes) (t : node) : Prop :=
  legacy_ok H t /\ NoDup (tree_hashes H t) /\ nhash H t <> [].

Lemma In_lookup {A} v (a : A) l : NoDup (map fst l) -> In (v, a) l -> lookup v l = Some a.
Proof.
  induction l as [|[w b] l IH]; intros ND I; [destruct I|]. cbn [map fst] in ND.
  inversion ND as [|? ? NI ND']; subst. cbn [lookup]. destruct I as [E|I].
  - injection E as -> ->. rewrite Z.eqb_refl. reflexivity.
  - destruct (w =? v) eqn:E; [|auto]. apply Z.eqb_eq in E. subst w. exfalso. apply NI.
    apply in_map_iff. exists (v, a). auto.
Qed.

Lemma meta_eqb_refl m : meta_eqb m m = true.
Proof. unfold meta_eqb. rewrite !Z.eqb_refl, bytes_eqb_refl. reflexivity. Qed.

Lemma node_eqb_refl t : node_eqb t t = true.
Proof.
  induction t as [k v m|k h s m l IHl r IHr]; cbn [node_eqb].
  - rewrite !bytes_eqb_refl, meta_eqb_refl. reflexivity.
  - rewrite bytes_eqb_refl, !Z.eqb_refl, meta_eqb_refl, IHl, IHr. reflexivity.
Qed.

Section Final.
  Variable H : bytes -> bytes.

  (** the Prop-level invariants imply the executable audit *)
  Lemma closed_closedb db f :
    closed H db f -> roots_ok H db f -> NoDup (map fst f) ->
    (forall v t, In (v, Some t) f -> tree_storable H t) ->
    legacy_closedb H db f = true.
  Proof.
    intros C R ND St. unfold legacy_closedb. apply forallb_forall. intros [v t] I.
    unfold version_closedb. cbn [fst snd].
    assert (Lk : lookup v (lroots db) = Some (legacy_root_value H t)).
    { rewrite R. apply In_lookup.
      - rewrite map_map. exact ND.
      - apply in_map_iff. exists (v, t). auto. }
    rewrite Lk, bytes_eqb_refl. cbn [andb]. unfold legacy_open. rewrite Lk.
    destruct t as [t|]; cbn [legacy_root_value]; [|reflexivity].
    destruct (St v t I) as (Ok & NDt & Ne).
    fold (nhash H t). destruct (nhash H t) as [|b0 hh] eqn:Eh; [congruence|]. rewrite <- Eh.
    assert (Incl : incl (tree_hashes H t) (map fst (lnodes db))).
    { intros h Ih. destruct (hash_sub H _ _ Ih) as (n & S & <-).
      apply in_map_iff. exists (nhash H n, legacy_raw H n). split; [reflexivity|].
      apply lfind_Some_In. exact (C _ _ _ I S). }
    pose proof (NoDup_incl_length NDt Incl) as Len. unfold tree_hashes in Len.
    rewrite !map_length in Len. pose proof (ldepth_nodes H t) as Dp.
    rewrite (legacy_load_spec H t).
    - replace (lview H t) with (legacy_view H t) by (symmetry; apply lview_eq). apply node_eqb_refl.
    - unfold lstore_bytes. rewrite map_length. lia.
    - exact Ok.
    - intros u S. unfold lstore_bytes. rewrite lfind_map.
      fold (nhash H u). rewrite (C _ _ _ I S). reflexivity.
  Qed.

  Variable U : list node.
  Hypothesis Inj : hash_inj_on H U.

  Let Usub := sub_of_sub U.

  Lemma final_hinv ops :
    legacy_hist_ok H U ops ->
    hinv H (sub_of U) (fst (legacy_history H ops)) (snd (legacy_history H ops)).
  Proof. intros Ok. exact (history_inv H (sub_of U) Usub Inj ops Ok). Qed.

  (** 1. after any legacy history every retained version is in the database: its root record
      and all its nodes; and (for trees the codec can store) loads back as the M1 tree *)
  Theorem legacy_writer_closed ops :
    legacy_hist_ok H U ops ->
    let db := fst (legacy_history H ops) in
    let f := snd (legacy_history H ops) in
    (forall v t, In (v, t) f -> lookup v (lroots db) = Some (legacy_root_value H t)) /\
    (forall v t n, In (v, Some t) f -> subtree n t ->
                   lfind (nhash H n) (lnodes db) = Some (legacy_raw H n)) /\
    ((forall v t, In (v, Some t) f -> tree_storable H t) -> legacy_closedb H db f = true).
  Proof.
    intros Ok db f. destruct (final_hinv ops Ok) as [[C R V Uv Rc] ND Pos Rh Lf].
    fold db f in C, R, ND. split; [|split].
    - intros v t I. rewrite R. apply In_lookup; [rewrite map_map; exact ND|].
      apply in_map_iff. exists (v, t). auto.
    - exact C.
    - intros St. apply closed_closedb; assumption.
  Qed.

  (** 2. the orphan records: [((to, from), h)] names a node created at version [from], present
      in every retained version of [from, to] and in no retained version after [to] *)
  Theorem orphan_records_sound ops :
    legacy_hist_ok H U ops ->
    let db := fst (legacy_history H ops) in
    let f := snd (legacy_history H ops) in
    forall to from h, In ((to, from), h) (lorph db) ->
      from <= to /\
      (exists n, sub_of U n /\ nhash H n = h /\ ver (nmeta n) = from) /\
      (forall v t, In (v, t) f -> from <= v <= to -> In h (otree_hashes H t)) /\
      (forall v t, In (v, t) f -> to < v -> ~ In h (otree_hashes H t)) /\
      (exists v t, In (v, t) f /\ to < v).
  Proof.
    intros Ok db f to from h I. destruct (final_hinv ops Ok) as [[C R V Uv Rc] ND Pos Rh Lf].
    fold db f in Rc, Rh, Pos. destruct (Rc _ I) as (n & Un & Eh & Ev & Abs).
    destruct (Rh _ I) as [(B0 & B1 & B2) Life].
    unfold rec_life, orec_hash, orec_from, orec_to in *. cbn [fst snd] in *.
    split; [lia|]. split; [eauto|]. split; [exact Life|]. split; [exact Abs|].
    destruct (flatest_in f) as [E|[P Iv]]; [lia|]. apply in_map_iff in Iv.
    destruct Iv as ([v t] & E & Iv). cbn [fst] in E. exists v, t. split; [exact Iv|lia].
  Qed.

  (** 3. the legacy part of DeleteVersionsFrom(from) after a legacy history: it succeeds, the
      versions below [from] stay complete, the versions from [from] on lose their root
      records, no node of a version below [from] is deleted, nothing appears, the orphan
      records are untouched *)
  Theorem rollback_legacy_safe ops fuel from :
    legacy_hist_ok H U ops -> 1 <= from ->
    let db := fst (legacy_history H ops) in
    let f := snd (legacy_history H ops) in
    (forall v t, In (v, Some t) f -> (ldepth t <= fuel)%nat) ->
    let f' := filter (fun p => fst p <? from) f in
    exists db', rollback_legacy fuel db from = Some db' /\
      (forall v t, In (v, t) f' -> lookup v (lroots db') = Some (legacy_root_value H t)) /\
      (forall v t n, In (v, Some t) f' -> subtree n t ->
                     lfind (nhash H n) (lnodes db') = Some (legacy_raw H n)) /\
      ((forall v t, In (v, Some t) f' -> tree_storable H t) -> legacy_closedb H db' f' = true) /\
      (forall v, from <= v -> lookup v (lroots db') = None) /\
      (forall h n, lfind h (lnodes db) = Some n -> ln_version n < from ->
                   lfind h (lnodes db') = Some n) /\
      (forall h, lfind h (lnodes db) = None -> lfind h (lnodes db') = None) /\
      lorph db' = lorph db.
  Proof.
    intros Ok P db f Fu f'. destruct (final_hinv ops Ok) as [W ND Pos Rh Lf]. fold db f in W, ND.
    destruct (rollback_legacy_inv H (sub_of U) Usub Inj db f fuel from W P Fu)
      as (db' & E & [C R V Uv Rc] & A1 & A2 & A3 & A4).
    fold f' in C, R. exists db'. split; [exact E|].
    assert (ND' : NoDup (map fst f')).
    { unfold f'. rewrite <- (filter_map_comm (fun x => x <? from) fst f). apply NoDup_filter, ND. }
    split; [|split; [exact C|split; [|auto]]].
    - intros v t I. rewrite R. apply In_lookup; [rewrite map_map; exact ND'|].
      apply in_map_iff. exists (v, t). auto.
    - intros St. apply closed_closedb; assumption.
  Qed.

  (** 4. deleteLegacyVersions.  [tL1]: the tree of the first new-format version, committed on
      top of the retained legacy version [L]; its nodes of version <= L are nodes of the tree
      of [L] (stored in the legacy table), the others are new-format nodes.  All the legacy
      nodes of [tL1] survive, nothing appears, no root record and no orphan record is left.
      Holds right after a legacy history ... *)
  Definition on_top_of (L : Z) (tL tL1 : option node) : Prop :=
    forall t1, tL1 = Some t1 ->
      sub_of U t1 /\
      forall n, subtree n t1 -> ver (nmeta n) <= L -> exists t, tL = Some t /\ subtree n t.

  Definition legacy_part_kept (db' : ldb) (L : Z) (tL1 : option node) : Prop :=
    forall t1 n, tL1 = Some t1 -> subtree n t1 -> ver (nmeta n) <= L ->
                 lfind (nhash H n) (lnodes db') = Some (legacy_raw H n).

  Theorem delete_legacy_versions_safe ops L tL tL1 :
    legacy_hist_ok H U ops ->
    let db := fst (legacy_history H ops) in
    let f := snd (legacy_history H ops) in
    In (L, tL) f -> on_top_of L tL tL1 ->
    let db' := delete_legacy_versions H db L tL tL1 in
    legacy_part_kept db' L tL1 /\
    (forall h, lfind h (lnodes db) = None -> lfind h (lnodes db') = None) /\
    lroots db' = [] /\ lorph db' = [].
  Proof.
    intros Ok db f IL Top db'. destruct (final_hinv ops Ok) as [W ND Pos Rh Lf]. fold db f in W.
    apply (delete_legacy_versions_inv H (sub_of U) Usub Inj db f L tL tL1 W IL).
    - intros t1 E. exact (proj1 (Top t1 E)).
    - intros t1 n E. exact (proj2 (Top t1 E) n).
  Qed.

  (** ... and after a rollback into the legacy versions (orphan records of the rolled-back
      versions are still there: the case the guard [toVersion < L] is about) *)
  Theorem delete_legacy_versions_safe_after_rollback ops fuel from dbr L tL tL1 :
    legacy_hist_ok H U ops -> 1 <= from ->
    let db := fst (legacy_history H ops) in
    let f := snd (legacy_history H ops) in
    (forall v t, In (v, Some t) f -> (ldepth t <= fuel)%nat) ->
    rollback_legacy fuel db from = Some dbr ->
    In (L, tL) (filter (fun p => fst p <? from) f) -> on_top_of L tL tL1 ->
    let db' := delete_legacy_versions H dbr L tL tL1 in
    legacy_part_kept db' L tL1 /\
    (forall h, lfind h (lnodes dbr) = None -> lfind h (lnodes db') = None) /\
    lroots db' = [] /\ lorph db' = [].
  Proof.
    intros Ok P db f Fu E IL Top db'. destruct (final_hinv ops Ok) as [W ND Pos Rh Lf].
    fold db f in W.
    destruct (rollback_legacy_inv H (sub_of U) Usub Inj db f fuel from W P Fu)
      as (dbr' & E' & W' & _).
    rewrite E in E'. injection E' as <-.
    apply (delete_legacy_versions_inv H (sub_of U) Usub Inj dbr _ L tL tL1 W' IL).
    - intros t1 Q. exact (proj1 (Top t1 Q)).
    - intros t1 n Q. exact (proj2 (Top t1 Q) n).
  Qed.
End Final.

(** ** Boolean checkers for the hypotheses (used by the examples) *)
Lemma meta_eqb_true a b : meta_eqb a b = true -> a = b.
Proof.
  unfold meta_eqb. intros B. apply andb_prop in B. destruct B as [B B3].
  apply andb_prop in B. destruct B as [B1 B2]. apply Z.eqb_eq in B1, B2. apply bytes_eqb_true in B3.
  destruct a as [a1 a2 a3], b as [b1 b2 b3]. cbn [ver nonce hs] in *. congruence.
Qed.

Lemma node_eqb_true a : forall b, node_eqb a b = true -> a = b.
Proof.
  induction a as [k v m|k h s m l IHl r IHr]; intros [k' v' m'|k' h' s' m' l' r'];
    cbn [node_eqb]; try discriminate; intros B.
  - apply andb_prop in B. destruct B as [B B3]. apply andb_prop in B. destruct B as [B1 B2].
    apply bytes_eqb_true in B1, B2. apply meta_eqb_true in B3. congruence.
  - repeat (apply andb_prop in B; let X := fresh "B" in destruct B as [B X]).
    apply bytes_eqb_true in B. apply Z.eqb_eq in B4, B3. apply meta_eqb_true in B2.
    apply IHl in B1. apply IHr in B0. congruence.
Qed.

Fixpoint subtreeb (n t : node) : bool :=
  node_eqb n t ||
  match t with
  | Leaf _ _ _ => false
  | Inner _ _ _ _ l r => subtreeb n l || subtreeb n r
  end.

Lemma subtreeb_sound n t : subtreeb n t = true -> subtree n t.
Proof.
  induction t as [k v m|k h s m l IHl r IHr]; cbn [subtreeb]; intros B;
    apply orb_prop in B; destruct B as [B|B];
    try (apply node_eqb_true in B; subst; apply sub_refl); try discriminate.
  apply orb_prop in B. destruct B as [B|B]; [apply sub_left|apply sub_right]; auto.
Qed.

Fixpoint all_nodesb (P : node -> bool) (t : node) : bool :=
  P t && match t with
         | Leaf _ _ _ => true
         | Inner _ _ _ _ l r => all_nodesb P l && all_nodesb P r
         end.

Lemma all_nodesb_sound P t : all_nodesb P t = true -> forall n, subtree n t -> P n = true.
Proof.
  intros B n S. induction S as [t|u k h s m l r S IH|u k h s m l r S IH].
  - destruct t; cbn [all_nodesb] in B; apply andb_prop in B; tauto.
  - cbn [all_nodesb] in B. apply andb_prop in B. destruct B as [_ B]. apply andb_prop in B. tauto.
  - cbn [all_nodesb] in B. apply andb_prop in B. destruct B as [_ B]. apply andb_prop in B. tauto.
Qed.

Definition commit_okb (U : list node) (f : lforest) (t : option node) : bool :=
  match t with
  | None => true
  | Some c =>
      existsb (node_eqb c) U &&
      all_nodesb (fun n => (ver (nmeta n) =? flatest f + 1) ||
                           match latest_tree f (flatest f) with
                           | Some p => subtreeb n p
                           | None => false
                           end) c
  end.

Lemma commit_okb_sound U f t : commit_okb U f t = true -> commit_ok (sub_of U) f t.
Proof.
  intros B c ->. cbn [commit_okb] in B. apply andb_prop in B. destruct B as [B1 B2]. split.
  - apply existsb_exists in B1. destruct B1 as (c' & I & E). apply node_eqb_true in E. subst c'.
    apply sub_of_root, I.
  - intros n S. pose proof (all_nodesb_sound _ _ B2 n S) as B. cbv beta in B.
    apply orb_prop in B. destruct B as [B|B]; [left; apply Z.eqb_eq, B|right].
    destruct (latest_tree f (flatest f)) as [p|]; [|discriminate].
    exists p. split; [reflexivity|apply subtreeb_sound, B].
Qed.

Fixpoint hist_okb (H : bytes -> bytes) (U : list node) (st : ldb * lforest) (ops : list lop) : bool :=
  match ops with
  | [] => true
  | o :: rest =>
      match o with LCommit t => commit_okb U (snd st) t | LDelete _ => true end &&
      hist_okb H U (next_state H st o) rest
  end.

Lemma hist_okb_sound H U ops : forall st,
  hist_okb H U st ops = true -> hist_ok H (sub_of U) st ops.
Proof.
  induction ops as [|o ops IH]; intros st B; cbn [hist_ok]; [exact I|].
  cbn [hist_okb] in B. apply andb_prop in B. destruct B as [B1 B2]. split; [|apply IH, B2].
  destruct o as [t|v]; cbn [step_ok]; [apply commit_okb_sound, B1|exact I].
Qed.

Definition legacy_hist_okb (H : bytes -> bytes) (U : list node) (ops : list lop) : bool :=
  hist_okb H U (empty_ldb, []) ops.

Lemma legacy_hist_okb_sound H U ops : legacy_hist_okb H U ops = true -> legacy_hist_ok H U ops.
Proof. apply hist_okb_sound. Qed.

Lemma obytes_eqb_true a b : obytes_eqb a b = true -> a = b.
Proof.
  destruct a, b; cbn [obytes_eqb]; try discriminate; [|reflexivity].
  intros B. apply bytes_eqb_true in B. congruence.
Qed.

Lemma raw_eqb_true a b : raw_eqb a b = true -> a = b.
Proof.
  unfold raw_eqb. intros B.
  repeat (apply andb_prop in B; let X := fresh "B" in destruct B as [B X]).
  apply Z.eqb_eq in B, B5, B4. apply bytes_eqb_true in B3, B1, B0. apply obytes_eqb_true in B2.
  destruct a as [a1 a2 a3 a4 a5 a6 a7], b as [b1 b2 b3 b4 b5 b6 b7].
  cbn [ln_height ln_size ln_version ln_key ln_value ln_left ln_right] in *. congruence.
Qed.

Lemma functionalb_sound l :
  functionalb l = true -> forall h a b, In (h, a) l -> In (h, b) l -> a = b.
Proof.
  induction l as [|[h0 n0] l IH]; cbn [functionalb]; intros B h a b Ia Ib; [destruct Ia|].
  apply andb_prop in B. destruct B as [B1 B2].
  assert (Hd : forall x, In (h0, x) l -> n0 = x).
  { intros x Ix. pose proof (proj1 (forallb_forall _ _) B1 _ Ix) as Q. cbn [fst snd] in Q.
    rewrite bytes_eqb_refl in Q. cbn [negb orb] in Q. apply raw_eqb_true, Q. }
  destruct Ia as [Ea|Ia], Ib as [Eb|Ib].
  - congruence.
  - injection Ea as -> ->. apply Hd, Ib.
  - injection Eb as -> ->. symmetry. apply Hd, Ia.
  - exact (IH B2 h a b Ia Ib).
Qed.

Lemma hash_inj_listb_sound H U : hash_inj_listb H U = true -> hash_inj_on H U.
Proof.
  intros B a b (ta & Ia & Sa) (tb & Ib & Sb) E.
  apply (functionalb_sound _ B (nhash H a)).
  - apply in_flat_map. exists ta. split; [exact Ia|]. apply legacy_nodes_subtree, Sa.
  - rewrite E. apply in_flat_map. exists tb. split; [exact Ib|]. apply legacy_nodes_subtree, Sb.
Qed.

Definition tree_storableb (H : bytes -> bytes) (t : node) : bool :=
  legacy_okb H t && nodupb (tree_hashes H t) &&
  match nhash H t with [] => false | _ => true end.

Lemma tree_storableb_sound H t : tree_storableb H t = true -> tree_storable H t.
Proof.
  unfold tree_storableb. intros B. apply andb_prop in B. destruct B as [B B3].
  apply andb_prop in B. destruct B as [B1 B2]. split; [apply legacy_okb_sound, B1|].
  split; [apply nodupb_sound, B2|]. destruct (nhash H t); [discriminate|discriminate].
Qed.

Fixpoint ldepthb_le (fuel : nat) (t : node) : bool :=
  match fuel with
  | O => false
  | S f => match t with
           | Leaf _ _ _ => true
           | Inner _ _ _ _ l r => ldepthb_le f l && ldepthb_le f r
           end
  end.

Lemma ldepthb_le_sound t : forall fuel, ldepthb_le fuel t = true -> (ldepth t <= fuel)%nat.
Proof.
  induction t as [k v m|k h s m l IHl r IHr]; intros [|f]; cbn [ldepthb_le ldepth];
    try discriminate; [lia|].
  intros B. apply andb_prop in B. destruct B as [B1 B2]. apply IHl in B1. apply IHr in B2. lia.
Qed.

Definition forest_allb (P : node -> bool) (f : lforest) : bool :=
  forallb (fun p => match snd p with Some t => P t | None => true end) f.

Lemma forest_allb_sound P f :
  forest_allb P f = true -> forall v t, In (v, Some t) f -> P t = true.
Proof. intros B v t I. exact (proj1 (forallb_forall _ _) B _ I). Qed.

(** [on_top_of] for a concrete tree *)
Definition on_top_ofb (U : list node) (L : Z) (tL tL1 : option node) : bool :=
  match tL1 with
  | None => true
  | Some t1 =>
      existsb (node_eqb t1) U &&
      all_nodesb (fun n => (L <? ver (nmeta n)) ||
                           match tL with Some t => subtreeb n t | None => false end) t1
  end.

Lemma on_top_ofb_sound U L tL tL1 : on_top_ofb U L tL tL1 = true -> on_top_of U L tL tL1.
Proof.
  intros B t1 ->. cbn [on_top_ofb] in B. apply andb_prop in B. destruct B as [B1 B2]. split.
  - apply existsb_exists in B1. destruct B1 as (c' & I & E). apply node_eqb_true in E. subst c'.
    apply sub_of_root, I.
  - intros n S Vn. pose proof (all_nodesb_sound _ _ B2 n S) as B. cbv beta in B.
    apply orb_prop in B. destruct B as [B|B]; [apply Z.ltb_lt in B; lia|].
    destruct tL as [t|]; [|discriminate]. exists t. split; [reflexivity|apply subtreeb_sound, B].
Qed.

Lemma latest_tree_In (f : lforest) v from :
  v < from -> (exists t, lookup v f = Some t) ->
  In (v, latest_tree f v) (filter (fun p => fst p <? from) f).
Proof.
  intros Lt [t Lk]. unfold latest_tree. rewrite Lk. apply lookup_In.
  rewrite (lookup_filter (fun x => x <? from)).
  replace (v <? from) with true by (symmetry; apply Z.ltb_lt; exact Lt). exact Lk.
Qed.

Lemma forest_filter_sub (P : Z -> node -> Prop) (g : Z * option node -> bool) (f : lforest) :
  (forall v t, In (v, Some t) f -> P v t) ->
  forall v t, In (v, Some t) (filter g f) -> P v t.
Proof. intros A v t I. apply filter_In in I. apply A, I. Qed.

(** ** Refutations of the seeded variants, and of exactness, on concrete histories (SHA-256) *)
Definition m1_forest (ops : list op) : lforest :=
  forest (fst (MTree.run sha256 (init_state 0 false) ops)).
Definition with_tree (U : list node) (t : option node) : list node :=
  match t with Some n => U ++ [n] | None => U end.

(** A: v1 = {a, b}, v2 = v1 committed without changes, v3 adds c *)
Definition refA_ops : list lop :=
  commits_of (m1_forest [OSet [97%N] [1%N]; OSet [98%N] [2%N]; OSave; OSave;
                         OSet [99%N] [3%N]; OSave]).

(** seeded/C16e.  DeleteVersionsFrom(2) with the children-test variant of deleteLegacyNodes
    deletes the root node that [r<2>] points to, which is the root of version 1: version 1
    no longer loads.  The transcribed code keeps it. *)
Theorem rollback_children_test_refuted :
  exists (ops : list lop) (from : Z),
    let db := fst (legacy_history sha256 ops) in
    let f := snd (legacy_history sha256 ops) in
    let f' := filter (fun p => fst p <? from) f in
    legacy_hist_okb sha256 (trees_of_ops ops) ops = true /\
    hash_inj_listb sha256 (trees_of_ops ops) = true /\
    legacy_closedb sha256 db f = true /\
    match rollback_legacy_children_test (legacy_fuel db) db from,
          rollback_legacy (legacy_fuel db) db from with
    | Some bad, Some good =>
        legacy_closedb sha256 bad f' = false /\ legacy_closedb sha256 good f' = true /\
        existsb (fun p => (ln_version (snd p) <? from) &&
                          negb (hmem (fst p) (map fst (lnodes bad)))) (lnodes db) = true
    | _, _ => False
    end.
Proof. exists refA_ops, 2. vm_compute. repeat split; reflexivity. Qed.

(** C: three legacy versions; version 3 replaces the value of key 2.  Rollback to version 2
    (DeleteVersionsFrom(3)): the orphan records written by the commit of version 3 stay, with
    [to = 2 =] the new latest legacy version.  Version 3' (new format, adds key 5) still uses
    the nodes they name. *)
Definition refC_m1 : list op :=
  [OSet [1%N] [10%N]; OSet [2%N] [20%N]; OSet [3%N] [30%N]; OSave; OSet [4%N] [40%N]; OSave;
   OSet [2%N] [21%N]; OSave].
Definition refC_ops : list lop := commits_of (m1_forest refC_m1).
Definition refC_new : option node :=
  latest_tree (m1_forest (refC_m1 ++ [OLvfo 2; OSet [5%N] [50%N]; OSave])) 3.

(** seeded/C16: the sweep guard [toVersion <= L] deletes legacy nodes of the first new
    version; the guard [toVersion < L] does not *)
Theorem sweep_guard_le_refuted :
  exists (ops : list lop) (from L : Z) (tL1 : option node),
    let db := fst (legacy_history sha256 ops) in
    let f := snd (legacy_history sha256 ops) in
    let tL := latest_tree f L in
    let U := with_tree (trees_of_ops ops) tL1 in
    legacy_hist_okb sha256 U ops = true /\ hash_inj_listb sha256 U = true /\
    on_top_ofb U L tL tL1 = true /\
    match rollback_legacy (legacy_fuel db) db from with
    | Some dbr =>
        legacy_latest dbr = L /\
        legacy_lost sha256 (delete_legacy_versions_le sha256 dbr L tL tL1) tL tL1 <> [] /\
        legacy_lost sha256 (delete_legacy_versions sha256 dbr L tL tL1) tL tL1 = []
    | None => False
    end.
Proof.
  exists refC_ops, 3, 2, refC_new. vm_compute. repeat split; try reflexivity. discriminate.
Qed.

(** E: one legacy version, one new version on top, DeleteVersionsTo(1).
    seeded/C16b: with [legacyLatestVersion > first] the legacy clean-up is skipped and the root
    record [r<1>] stays *)
Definition refE_forest : lforest :=
  m1_forest [OSet [1%N] [10%N]; OSave; OSet [2%N] [20%N]; OSave].

Theorem prune_legacy_gt_refuted :
  let db := fst (legacy_history sha256 (commits_of (firstn 1 refE_forest))) in
  let tL := latest_tree refE_forest 1 in
  let tL1 := latest_tree refE_forest 2 in
  legacy_latest db = 1 /\
  match prune_legacy sha256 db 1 1 2 tL tL1, prune_legacy_gt sha256 db 1 1 2 tL tL1 with
  | Some good, Some bad => lroots good = [] /\ lroots bad <> [] /\ legacy_lost sha256 good tL tL1 = []
  | _, _ => False
  end.
Proof. vm_compute. repeat split; try reflexivity. discriminate. Qed.

(** D (item 5, exactness): REFUTED for the transcribed code.  Legacy versions 1, 2, 3; the leaf
    of key 3 is created by version 2 and still used by version 3; the legacy library deletes
    version 2.  DeleteVersionsFrom(2): the only root record left in [2, 3] is [r<3>], and
    deleteLegacyNodes(3, ..) skips every node of version 2: that leaf stays in the table, no
    retained version reaches it and no orphan record names it.  After the commit of 2' and
    deleteLegacyVersions(1) it is still there, unreachable from the tree of 2'.  Nothing that
    must remain is lost. *)
Definition refD_m1 : list op :=
  [OSet [1%N] [10%N]; OSet [2%N] [20%N]; OSave; OSet [3%N] [30%N]; OSave; OSet [4%N] [40%N]; OSave].
Definition refD_ops : list lop := commits_of (m1_forest refD_m1) ++ [LDelete 2].
Definition refD_new : option node :=
  latest_tree (m1_forest (refD_m1 ++ [OLvfo 1; OSet [5%N] [50%N]; OSave])) 2.

Theorem delete_legacy_versions_exact_refuted :
  exists (ops : list lop) (from L : Z) (tL1 : option node),
    let db := fst (legacy_history sha256 ops) in
    let f := snd (legacy_history sha256 ops) in
    let f' := filter (fun p => fst p <? from) f in
    let tL := latest_tree f L in
    let U := with_tree (trees_of_ops ops) tL1 in
    legacy_hist_okb sha256 U ops = true /\ hash_inj_listb sha256 U = true /\
    on_top_ofb U L tL tL1 = true /\
    legacy_garbage sha256 db f = [] /\
    match rollback_legacy (legacy_fuel db) db from with
    | Some dbr =>
        legacy_latest dbr = L /\ legacy_closedb sha256 dbr f' = true /\
        legacy_garbage sha256 dbr f' <> [] /\
        let db' := delete_legacy_versions sha256 dbr L tL tL1 in
        legacy_unreachable sha256 db' tL1 <> [] /\ legacy_lost sha256 db' tL tL1 = []
    | None => False
    end.
Proof.
  exists refD_ops, 2, 1, refD_new. vm_compute. repeat split; try reflexivity; discriminate.
Qed.
