(** C03 model: ICS-23 proofs of the IAVL tree.

    Part 1 (construction) transcribes iavl/proof.go ([PathToLeaf]/[pathToLeaf],
    [ProofInnerNode]) and iavl/proof_ics23.go ([createExistenceProof], [convertLeafOp],
    [convertInnerOps], [GetMembershipProof], [GetNonMembershipProof], [GetProof]) on M1 trees.

    Part 2 (verification) transcribes github.com/cosmos/ics23/go v0.11.0
    ([VerifyMembership], [VerifyNonMembership], [ExistenceProof.Verify/calculate/
    CheckAgainstSpec], [NonExistenceProof.Verify], [LeafOp.Apply/CheckAgainstSpec],
    [InnerOp.Apply/CheckAgainstSpec], [validateIavlOps], [IsLeftMost], [IsRightMost],
    [IsLeftNeighbor], [isLeftStep], [hasPadding], [getPadding], [orderFromPadding],
    [leftBranchesAreEmpty], [rightBranchesAreEmpty]) specialised to [ics23.IavlSpec]:

      LeafSpec  = { Prefix [0], PrehashKey NO_HASH, Hash SHA256, PrehashValue SHA256,
                    Length VAR_PROTO }
      InnerSpec = { ChildOrder [0,1], MinPrefixLength 4, MaxPrefixLength 12, ChildSize 33,
                    EmptyChild nil, Hash SHA256 };  MinDepth = MaxDepth = 0 (=> 128),
                    PrehashKeyBeforeComparison = false.

    The hash function is a parameter [H] (SHA-256 in Go).  Because the hash/length operators
    of a leaf op and the hash operator of an inner op are forced by the spec (any other value
    is rejected by [CheckAgainstSpec]), the records below keep only the free fields
    (prefix / suffix).  Batch and compressed proofs are not modelled ([iavl] never produces
    them): a [commitment_proof] is either an existence or a non-existence proof. *)
From IAVL Require Import Bytes Varint Tree.
Local Open Scope Z_scope.

(** * Proof objects *)
Record leaf_op := LeafOp { lo_prefix : bytes }.
Record inner_op := InnerOp { io_prefix : bytes; io_suffix : bytes }.
Record existence_proof := ExistenceProof {
  ep_key : bytes; ep_value : bytes; ep_leaf : leaf_op; ep_path : list inner_op }.
Record nonexistence_proof := NonExistenceProof {
  np_key : bytes; np_left : option existence_proof; np_right : option existence_proof }.
Inductive commitment_proof :=
| PExist (e : existence_proof)
| PNonexist (n : nonexistence_proof).

Definition blen (b : bytes) : Z := Z.of_nat (length b).

(** * Part 1: construction (iavl) *)

(** proof.go: ProofInnerNode.  [nil] byte slices are [[]]. *)
Record proof_inner_node := PIN {
  pin_height : Z; pin_size : Z; pin_version : Z; pin_left : bytes; pin_right : bytes }.

Section Build.
  (** [hf n] is Go's [n.hash] after [t.Hash()] has run ([createExistenceProof] calls it
      first); [wv] is [t.nextVersion()], the version unsaved nodes are hashed with. *)
  Variable hf : node -> bytes.
  Variable wv : Z.

  (** Node.pathToLeaf.  Result: the path (root first, as appended by the Go code), the leaf
      reached (key, value, meta) and whether its key is the requested one ([false] = Go's
      "key does not exist" error, returned together with the leaf). *)
  Fixpoint path_to_leaf (t : node) (key : bytes)
    : list proof_inner_node * (bytes * bytes * meta) * bool :=
    match t with
    | Leaf lk lv m => ([], (lk, lv, m), beq lk key)
    | Inner nk h s m l r =>
        if blt key nk then
          let '(p, lf, ok) := path_to_leaf l key in
          (PIN h s (eff_ver wv m) [] (hf r) :: p, lf, ok)
        else
          let '(p, lf, ok) := path_to_leaf r key in
          (PIN h s (eff_ver wv m) (hf l) [] :: p, lf, ok)
    end.

  (** convertLeafOp *)
  Definition convert_leaf_op (version : Z) : leaf_op :=
    LeafOp (varint_enc 0 ++ varint_enc 1 ++ varint_enc version).

  (** one iteration of the loop of convertInnerOps; the direction is decided by
      [len(path[i].Left) > 0], as in Go *)
  Definition convert_inner_op (p : proof_inner_node) : inner_op :=
    let pre := varint_enc (pin_height p) ++ varint_enc (pin_size p) ++ varint_enc (pin_version p) in
    match pin_left p with
    | _ :: _ => InnerOp (pre ++ [32%N] ++ pin_left p ++ [32%N]) []
    | [] => InnerOp (pre ++ [32%N]) (32%N :: pin_right p)
    end.

  (** convertInnerOps: the loop runs from the last path element to the first (leaf to root) *)
  Definition convert_inner_ops (path : list proof_inner_node) : list inner_op :=
    map convert_inner_op (rev path).

  (** createExistenceProof; [None] = Go returns a non-nil error (empty tree, or the leaf
      reached does not carry the key) *)
  Definition create_existence_proof (t : option node) (key : bytes) : option existence_proof :=
    match t with
    | None => None
    | Some n =>
        let '(path, (lk, lv, m), ok) := path_to_leaf n key in
        if ok
        then Some (ExistenceProof lk lv (convert_leaf_op (eff_ver wv m)) (convert_inner_ops path))
        else None
    end.

  (** GetMembershipProof *)
  Definition get_membership_proof_gen (t : option node) (key : bytes) : option commitment_proof :=
    match create_existence_proof t key with
    | Some ep => Some (PExist ep)
    | None => None
    end.

  (** ImmutableTree.GetWithIndex / GetByIndex (nil root handled as in Go) *)
  Definition get_with_index (t : option node) (key : bytes) : Z * option bytes :=
    match t with None => (0, None) | Some n => get n key end.
  Definition get_by_index_o (t : option node) (i : Z) : option (bytes * bytes) :=
    match t with None => None | Some n => get_by_index n i end.

  (** GetNonMembershipProof.  [None] = error.  Note the empty tree: Go returns, without an
      error, a proof with neither neighbour (which no verifier accepts). *)
  Definition get_nonmembership_proof_gen (t : option node) (key : bytes) : option commitment_proof :=
    let '(idx, val) := get_with_index t key in
    match val with
    | Some _ => None   (* "cannot create NonExistanceProof when Key in State" *)
    | None =>
        let left : option (option existence_proof) :=
          if 1 <=? idx then
            (* leftkey, _, _ := GetByIndex(idx-1): a nil key if the index is out of range *)
            let leftkey := match get_by_index_o t (idx - 1) with Some (k, _) => k | None => [] end in
            match create_existence_proof t leftkey with
            | Some ep => Some (Some ep)
            | None => None
            end
          else Some None in
        match left with
        | None => None
        | Some l =>
            match get_by_index_o t idx with
            | None => Some (PNonexist (NonExistenceProof key l None))
            | Some (rightkey, _) =>
                match create_existence_proof t rightkey with
                | Some ep => Some (PNonexist (NonExistenceProof key l (Some ep)))
                | None => None
                end
            end
        end
    end.

  (** GetProof (uses Node.has, with its early exit on routing keys) *)
  Definition get_proof_gen (t : option node) (key : bytes) : option commitment_proof :=
    match t with
    | None => None   (* "cannot generate the proof with nil root" *)
    | Some n =>
        if has n key then get_membership_proof_gen t key else get_nonmembership_proof_gen t key
    end.
End Build.

(** The entry points: sibling hashes are the code's hashes [node_hash] (stored hash of
    persisted nodes, computed hash with version [wv] for new ones). *)
Definition get_membership_proof (H : bytes -> bytes) (wv : Z) (t : option node) (key : bytes)
  : option commitment_proof := get_membership_proof_gen (node_hash H wv) wv t key.
Definition get_nonmembership_proof (H : bytes -> bytes) (wv : Z) (t : option node) (key : bytes)
  : option commitment_proof := get_nonmembership_proof_gen (node_hash H wv) wv t key.
Definition get_proof (H : bytes -> bytes) (wv : Z) (t : option node) (key : bytes)
  : option commitment_proof := get_proof_gen (node_hash H wv) wv t key.

(** * Part 2: the ICS-23 verifier specialised to IavlSpec *)

(** validateIavlOps(op, b): three varints (binary.ReadVarint) each >= 0, the first >= b,
    then exactly 0 remaining bytes (b = 0, leaf) or 1 or 34 remaining bytes (b > 0, inner:
    [r2^(0xff&0x01) == 0 || r2 == (0xde+int('v'))/10], i.e. r2 = 1 or r2 = 34).  The hash-op
    test [op.GetHash()^1 != 0] is part of the fixed fields.  ([int(varInt) < 0] is evaluated
    on a 64-bit [int].) *)
Definition validate_iavl_ops (prefix : bytes) (b : Z) : bool :=
  match varint_dec prefix with
  | None => false
  | Some (v0, n0) =>
    if v0 <? 0 then false else
    let r0 := skipn n0 prefix in
    match varint_dec r0 with
    | None => false
    | Some (v1, n1) =>
      if v1 <? 0 then false else
      let r1 := skipn n1 r0 in
      match varint_dec r1 with
      | None => false
      | Some (v2, n2) =>
        if v2 <? 0 then false else
        if v0 <? b then false else
        let r2 := blen (skipn n2 r1) in
        if b =? 0 then r2 =? 0 else (r2 =? 1) || (r2 =? 34)
      end
    end
  end.

(** LeafOp.CheckAgainstSpec: validateIavlOps(op, 0), fixed fields, HasPrefix(prefix, [0]) *)
Definition leaf_check_against_spec (lo : leaf_op) : bool :=
  validate_iavl_ops (lo_prefix lo) 0 && is_prefix [0%N] (lo_prefix lo).

(** InnerOp.CheckAgainstSpec(spec, b) *)
Definition inner_check_against_spec (io : inner_op) (b : Z) : bool :=
  validate_iavl_ops (io_prefix io) b &&
  negb (is_prefix [0%N] (io_prefix io)) &&
  (4 <=? blen (io_prefix io)) &&
  (blen (io_prefix io) <=? 12 + 33) &&
  (blen (io_suffix io) mod 33 =? 0).

Fixpoint inner_checks (path : list inner_op) (layer : Z) : bool :=
  match path with
  | [] => true
  | io :: rest => inner_check_against_spec io layer && inner_checks rest (layer + 1)
  end.

(** ExistenceProof.CheckAgainstSpec: MinDepth = 0 (no test), MaxDepth = 0 => 128,
    layerNum starts at 1 *)
Definition check_against_spec (ep : existence_proof) : bool :=
  leaf_check_against_spec (ep_leaf ep) &&
  (Z.of_nat (length (ep_path ep)) <=? 128) &&
  inner_checks (ep_path ep) 1.

Section Verify.
  Variable H : bytes -> bytes.

  (** doLengthOp(VAR_PROTO): [encodeVarintProto(len) ++ data]; [encodeVarintProto] is the
      unsigned LEB128 encoding, i.e. [uvarint_enc] (for lengths < 2^70). *)
  Definition var_proto (data : bytes) : bytes := bytes_enc data.

  (** LeafOp.Apply: [None] = error ("leaf op needs key" / "leaf op needs value") *)
  Definition leaf_apply (lo : leaf_op) (key value : bytes) : option bytes :=
    match key with
    | [] => None
    | _ :: _ =>
        match value with
        | [] => None
        | _ :: _ => Some (H (lo_prefix lo ++ var_proto key ++ var_proto (H value)))
        end
    end.

  (** InnerOp.Apply: [None] = error ("inner op needs child value") *)
  Definition inner_apply (io : inner_op) (child : bytes) : option bytes :=
    match child with
    | [] => None
    | _ :: _ => Some (H (io_prefix io ++ child ++ io_suffix io))
    end.

  (** the loop of ExistenceProof.calculate(spec) with spec = IavlSpec: an intermediate
      result longer than ChildSize = 33 bytes is an error *)
  Fixpoint apply_path (res : bytes) (path : list inner_op) : option bytes :=
    match path with
    | [] => Some res
    | step :: rest =>
        match inner_apply step res with
        | None => None
        | Some r => if 33 <? blen r then None else apply_path r rest
        end
    end.

  Definition calculate (ep : existence_proof) : option bytes :=
    match leaf_apply (ep_leaf ep) (ep_key ep) (ep_value ep) with
    | None => None
    | Some r => apply_path r (ep_path ep)
    end.

  (** ExistenceProof.Verify(IavlSpec, root, key, value) *)
  Definition verify_existence (root : bytes) (ep : existence_proof) (key value : bytes) : bool :=
    check_against_spec ep &&
    beq key (ep_key ep) &&
    beq value (ep_value ep) &&
    match calculate ep with
    | Some c => beq root c
    | None => false
    end.

  (** VerifyMembership(IavlSpec, root, proof, key, value): getExistProofForKey + Verify *)
  Definition verify_membership (root : bytes) (proof : commitment_proof) (key value : bytes) : bool :=
    match proof with
    | PExist ep => if beq (ep_key ep) key then verify_existence root ep key value else false
    | PNonexist _ => false
    end.
End Verify.

(** ** Paddings *)
Definition has_padding (io : inner_op) (minp maxp suffix : Z) : bool :=
  if blen (io_prefix io) <? minp then false
  else if maxp <? blen (io_prefix io) then false
  else blen (io_suffix io) =? suffix.

(** getPadding(spec, branch) for ChildOrder [0,1] (getPosition is the identity on 0, 1 and
    panics elsewhere; it is only ever called with 0 or 1) *)
Definition get_padding (branch : Z) : Z * Z * Z :=
  (branch * 33 + 4, branch * 33 + 12, (2 - 1 - branch) * 33).

Definition has_padding_for (io : inner_op) (branch : Z) : bool :=
  let '(minp, maxp, suf) := get_padding branch in has_padding io minp maxp suf.

(** orderFromPadding: [None] = error "cannot find any valid spacing for this node" *)
Definition order_from_padding (io : inner_op) : option Z :=
  if has_padding_for io 0 then Some 0
  else if has_padding_for io 1 then Some 1
  else None.

Definition slice (b : bytes) (from n : Z) : bytes := firstn (Z.to_nat n) (skipn (Z.to_nat from) b).
Definition zrange (n : Z) : list Z := map Z.of_nat (seq 0 (Z.to_nat n)).
Definition empty_child : bytes := [].

(** leftBranchesAreEmpty / rightBranchesAreEmpty (the slices are always in range) *)
Definition left_branches_are_empty (io : inner_op) : bool :=
  match order_from_padding io with
  | None => false
  | Some idx =>
      let left_branches := idx in
      if left_branches =? 0 then false else
      let actual_prefix := blen (io_prefix io) - left_branches * 33 in
      if actual_prefix <? 0 then false else
      forallb (fun i => beq empty_child (slice (io_prefix io) (actual_prefix + i * 33) 33))
              (zrange left_branches)
  end.

Definition right_branches_are_empty (io : inner_op) : bool :=
  match order_from_padding io with
  | None => false
  | Some idx =>
      let right_branches := 2 - 1 - idx in
      if right_branches =? 0 then false else
      if negb (blen (io_suffix io) =? right_branches * 33) then false else
      forallb (fun i => beq empty_child (slice (io_suffix io) (i * 33) 33))
              (zrange right_branches)
  end.

(** IsLeftMost / IsRightMost *)
Definition is_left_most (path : list inner_op) : bool :=
  forallb (fun step => has_padding_for step 0 || left_branches_are_empty step) path.
Definition is_right_most (path : list inner_op) : bool :=
  forallb (fun step => has_padding_for step 1 || right_branches_are_empty step) path.

Definition inner_op_eqb (a b : inner_op) : bool :=
  beq (io_prefix a) (io_prefix b) && beq (io_suffix a) (io_suffix b).

(** the common-tail loop of IsLeftNeighbor, on the REVERSED paths (root first).
    [None] = Go panics with an index out of range (a path is exhausted). *)
Fixpoint strip_common (left right : list inner_op)
  : option (inner_op * list inner_op * inner_op * list inner_op) :=
  match left, right with
  | tl :: l', tr :: r' =>
      if inner_op_eqb tl tr then strip_common l' r' else Some (tl, l', tr, r')
  | _, _ => None
  end.

(** IsLeftNeighbor; [None] = Go panics (exhausted path, or isLeftStep's
    [panic(err)] when a divergent node has no valid padding) *)
Definition is_left_neighbor (left right : list inner_op) : option bool :=
  match strip_common (rev left) (rev right) with
  | None => None
  | Some (topleft, l', topright, r') =>
      match order_from_padding topleft, order_from_padding topright with
      | Some li, Some ri =>
          if negb (ri =? li + 1) then Some false
          else if negb (is_right_most (rev l')) then Some false
          else if negb (is_left_most (rev r')) then Some false
          else Some true
      | _, _ => None
      end
  end.

Section VerifyNon.
  Variable H : bytes -> bytes.

  (** NonExistenceProof.Verify(IavlSpec, root, key).  [Some true] = nil error, [Some false] =
      error, [None] = panic.  ([leftKey == nil] is equivalent to [Left == nil] here: a
      sub-proof with an empty key has already failed [Verify] in [LeafOp.Apply].) *)
  Definition nonexist_verify (root : bytes) (np : nonexistence_proof) (key : bytes) : option bool :=
    let lok := match np_left np with
               | None => true
               | Some l => verify_existence H root l (ep_key l) (ep_value l) end in
    if negb lok then Some false else
    let rok := match np_right np with
               | None => true
               | Some r => verify_existence H root r (ep_key r) (ep_value r) end in
    if negb rok then Some false else
    match np_left np, np_right np with
    | None, None => Some false   (* both left and right proofs missing *)
    | ol, or =>
        if match or with Some r => negb (blt key (ep_key r)) | None => false end then Some false
        else if match ol with Some l => negb (blt (ep_key l) key) | None => false end then Some false
        else
          match ol, or with
          | None, Some r => Some (is_left_most (ep_path r))
          | Some l, None => Some (is_right_most (ep_path l))
          | Some l, Some r => is_left_neighbor (ep_path l) (ep_path r)
          | None, None => Some false
          end
    end.

  (** VerifyNonMembership(IavlSpec, root, proof, key): getNonExistProofForKey (isLeft /
      isRight on the sub-proofs' keys) + Verify.  [None] = the Go verifier panics. *)
  Definition verify_nonmembership_x (root : bytes) (proof : commitment_proof) (key : bytes)
    : option bool :=
    match proof with
    | PExist _ => Some false
    | PNonexist np =>
        let is_left := match np_left np with None => true | Some l => blt (ep_key l) key end in
        let is_right := match np_right np with None => true | Some r => blt key (ep_key r) end in
        if is_left && is_right then nonexist_verify root np key else Some false
    end.

  Definition verify_nonmembership (root : bytes) (proof : commitment_proof) (key : bytes) : bool :=
    match verify_nonmembership_x root proof key with
    | Some b => b
    | None => false
    end.
End VerifyNon.

(** * Canonical serialisation: the protobuf (proto3, gogoproto) encoding of a
    CommitmentProof, as produced by [proof.Marshal()].
    Field numbers (proofs.proto): ExistenceProof{key=1,value=2,leaf=3,path=4 repeated},
    NonExistenceProof{key=1,left=2,right=3}, CommitmentProof{exist=1,nonexist=2},
    LeafOp{hash=1,prehash_key=2,prehash_value=3,length=4,prefix=5},
    InnerOp{hash=1,prefix=2,suffix=3}; SHA256 = 1, NO_HASH = 0 (omitted), VAR_PROTO = 1;
    empty byte fields are omitted, sub-messages are always emitted when non-nil. *)
Definition pb_bytes_field (tag : N) (b : bytes) : bytes :=
  match b with [] => [] | _ :: _ => tag :: bytes_enc b end.
Definition pb_msg_field (tag : N) (b : bytes) : bytes := tag :: bytes_enc b.

Definition marshal_leaf_op (lo : leaf_op) : bytes :=
  [8; 1; 24; 1; 32; 1]%N ++ pb_bytes_field 42 (lo_prefix lo).
Definition marshal_inner_op (io : inner_op) : bytes :=
  [8; 1]%N ++ pb_bytes_field 18 (io_prefix io) ++ pb_bytes_field 26 (io_suffix io).
Definition marshal_existence_proof (ep : existence_proof) : bytes :=
  pb_bytes_field 10 (ep_key ep) ++ pb_bytes_field 18 (ep_value ep) ++
  pb_msg_field 26 (marshal_leaf_op (ep_leaf ep)) ++
  flat_map (fun io => pb_msg_field 34 (marshal_inner_op io)) (ep_path ep).
Definition marshal_nonexistence_proof (np : nonexistence_proof) : bytes :=
  pb_bytes_field 10 (np_key np) ++
  match np_left np with None => [] | Some l => pb_msg_field 18 (marshal_existence_proof l) end ++
  match np_right np with None => [] | Some r => pb_msg_field 26 (marshal_existence_proof r) end.
Definition marshal_commitment_proof (p : commitment_proof) : bytes :=
  match p with
  | PExist ep => pb_msg_field 10 (marshal_existence_proof ep)
  | PNonexist np => pb_msg_field 18 (marshal_nonexistence_proof np)
  end.
