(** Proofs about the iterator models of Iter.v. *)
From IAVL Require Import Bytes Tree VMap TreeFacts Iter.
Local Open Scope Z_scope.

(** * Generic list facts *)

(** direction-aware strict order on keys *)
Definition kbefore (asc : bool) (a b : bytes) : Prop := if asc then a <b b else b <b a.

Fixpoint dsorted (asc : bool) (l : kvs) : Prop :=
  match l with
  | [] => True
  | (k, _) :: rest => Forall (fun p => kbefore asc k (fst p)) rest /\ dsorted asc rest
  end.

Lemma dsorted_true l : dsorted true l <-> sorted l.
Proof. induction l as [|[k v] l IH]; cbn [dsorted sorted]; [tauto|]. rewrite IH. reflexivity. Qed.

Lemma kbefore_irrefl asc a : ~ kbefore asc a a.
Proof. destruct asc; cbn; intro; border. Qed.
Lemma kbefore_trans asc a b c : kbefore asc a b -> kbefore asc b c -> kbefore asc a c.
Proof. destruct asc; cbn; intros; border. Qed.
Lemma kbefore_total asc a b : kbefore asc a b \/ a = b \/ kbefore asc b a.
Proof.
  destruct asc; cbn; bcases a b; auto.
Qed.

Lemma dsorted_notin asc k v l : dsorted asc ((k, v) :: l) -> forall v', ~ In (k, v') l.
Proof.
  cbn [dsorted]. intros [F _] v' I. rewrite Forall_forall in F. apply F in I. cbn in I.
  eapply kbefore_irrefl; eauto.
Qed.

(** direction-sorted lists are determined by their sets of entries *)
Lemma dsorted_ext asc l1 : forall l2,
  dsorted asc l1 -> dsorted asc l2 -> (forall p, In p l1 <-> In p l2) -> l1 = l2.
Proof.
  induction l1 as [|[k1 v1] l1 IH]; intros l2 S1 S2 E.
  - destruct l2 as [|p l2]; [reflexivity|]. exfalso. apply (E p). left; reflexivity.
  - destruct l2 as [|[k2 v2] l2]; [exfalso; apply (E (k1, v1)); left; reflexivity|].
    pose proof S1 as S1'. pose proof S2 as S2'.
    cbn [dsorted] in S1, S2. destruct S1 as [F1 S1]. destruct S2 as [F2 S2].
    rewrite Forall_forall in F1, F2.
    assert (HD : (k1, v1) = (k2, v2)).
    { destruct (proj1 (E (k1, v1)) (or_introl eq_refl)) as [Eq|I1]; [congruence|].
      destruct (proj2 (E (k2, v2)) (or_introl eq_refl)) as [Eq|I2]; [congruence|].
      apply F2 in I1. apply F1 in I2. cbn [fst] in *.
      exfalso. eapply kbefore_irrefl. eapply kbefore_trans; eauto. }
    inversion HD; subst k2 v2. f_equal. apply IH; auto.
    intros p. split; intros I.
    + destruct (proj1 (E p) (or_intror I)) as [Eq|I']; auto. subst p.
      exfalso. exact (dsorted_notin _ _ _ _ S1' _ I).
    + destruct (proj2 (E p) (or_intror I)) as [Eq|I']; auto. subst p.
      exfalso. exact (dsorted_notin _ _ _ _ S2' _ I).
Qed.

Lemma dsorted_app asc l1 l2 :
  dsorted asc l1 -> dsorted asc l2 ->
  (forall p q, In p l1 -> In q l2 -> kbefore asc (fst p) (fst q)) -> dsorted asc (l1 ++ l2).
Proof.
  induction l1 as [|[k v] l1 IH]; intros S1 S2 B; [exact S2|].
  cbn [app dsorted] in *. destruct S1 as [F S1]. split.
  - apply Forall_app. split; auto. apply Forall_forall. intros q I.
    apply (B (k, v) q); [left; reflexivity|exact I].
  - apply IH; auto. intros p q Ip Iq. apply B; [right; exact Ip|exact Iq].
Qed.

Lemma dsorted_rev asc l : dsorted asc l -> dsorted (negb asc) (rev l).
Proof.
  induction l as [|[k v] l IH]; intros S; [exact I|].
  cbn [dsorted] in S. destruct S as [F S]. cbn [rev].
  apply dsorted_app; auto.
  - cbn. auto.
  - intros p q Ip Iq. destruct Iq as [<-|[]]. cbn [fst].
    apply in_rev in Ip. rewrite Forall_forall in F. apply F in Ip.
    destruct asc; exact Ip.
Qed.

Lemma dsorted_filter asc f l : dsorted asc l -> dsorted asc (filter f l).
Proof.
  induction l as [|[k v] l IH]; intros S; [exact I|].
  cbn [dsorted] in S. destruct S as [F S]. cbn [filter].
  destruct (f (k, v)); auto. cbn [dsorted]. split; auto.
  rewrite Forall_forall in *. intros p Ip. apply filter_In in Ip. apply F. tauto.
Qed.

Lemma dsorted_NoDup asc l : dsorted asc l -> NoDup (map fst l).
Proof.
  induction l as [|[k v] l IH]; intros S; cbn [map]; [constructor|].
  cbn [dsorted] in S. destruct S as [F S]. constructor; auto.
  intros I. apply in_map_iff in I. destruct I as ([k' v'] & E & I). cbn in E. subst k'.
  rewrite Forall_forall in F. apply F in I. eapply kbefore_irrefl; eauto.
Qed.

(** * Result 7: range selections of a sorted list are strictly monotone, duplicate free *)
Lemma range_spec_dsorted l start stop incl asc :
  sorted l -> dsorted asc (range_spec l start stop incl asc).
Proof.
  intros S. unfold range_spec. apply dsorted_true in S.
  destruct asc.
  - apply dsorted_filter, S.
  - change false with (negb true). apply dsorted_rev, dsorted_filter, S.
Qed.

Lemma range_spec_In l start stop incl asc p :
  In p (range_spec l start stop incl asc) <-> In p l /\ in_range start stop incl (fst p) = true.
Proof.
  unfold range_spec. destruct asc; [|rewrite <- in_rev]; apply filter_In.
Qed.

(** * (a) the traversal *)
Section Walk.
  Variables (start stop : option bytes) (asc incl post : bool).

  (** the sequence of nodes a delayed entry stands for *)
  Fixpoint walk (n : node) : list node :=
    let k := nkey n in
    let vis := start_or_after start k && before_end stop incl k in
    match n with
    | Leaf _ _ _ => if vis then [n] else []
    | Inner _ h _ _ l r =>
        if h =? 0 then (if vis then [n] else []) else
        let cl := if after_start start k then walk l else [] in
        let cr := if before_end stop incl k then walk r else [] in
        let ch := if asc then cl ++ cr else cr ++ cl in
        if post then ch ++ [n] else n :: ch
    end.

  Definition out (e : node * bool) : list node := if snd e then walk (fst e) else [fst e].
  Definition outs (st : list (node * bool)) : list node := flat_map out st.

  Definition mu_e (e : node * bool) : nat := if snd e then (2 * nodes (fst e))%nat else 1%nat.
  Definition mu (st : list (node * bool)) : nat := list_sum (map mu_e st).
  Lemma mu_cons e st : mu (e :: st) = (mu_e e + mu st)%nat.
  Proof. reflexivity. Qed.

  Definition mk_tv (st : list (node * bool)) : trav := Trav start stop asc incl post st.

  Lemma nodes_pos n : (1 <= nodes n)%nat.
  Proof. destruct n; cbn; lia. Qed.

  Lemma outs_app a b : outs (a ++ b) = outs a ++ outs b.
  Proof. unfold outs. apply flat_map_app. Qed.
  Lemma mu_app a b : mu (a ++ b) = (mu a + mu b)%nat.
  Proof. unfold mu. rewrite map_app, list_sum_app. reflexivity. Qed.

  Lemma walk_unfold n :
    walk n =
    (let k := nkey n in
     let vis := start_or_after start k && before_end stop incl k in
     if isleaf n then (if vis then [n] else []) else
     match n with
     | Leaf _ _ _ => []
     | Inner _ _ _ _ l r =>
        let cl := if after_start start k then walk l else [] in
        let cr := if before_end stop incl k then walk r else [] in
        let ch := if asc then cl ++ cr else cr ++ cl in
        if post then ch ++ [n] else n :: ch
     end).
  Proof. destruct n as [k v m|k h s m l r]; unfold isleaf; cbn [walk height nkey]; [reflexivity|]. destruct (h =? 0); reflexivity. Qed.

  (** one activation of next(): what it emits plus what the new stack stands for is what the old
      stack stood for, and the measure strictly decreases *)
  Lemma step_spec st :
    match step (mk_tv st) with
    | SEmpty => st = []
    | SEmit n tv' => exists st', tv' = mk_tv st' /\ outs st = n :: outs st' /\ (mu st' < mu st)%nat
    | SCont tv' => exists st', tv' = mk_tv st' /\ outs st = outs st' /\ (mu st' < mu st)%nat
    end.
  Proof.
    destruct st as [|[n d] rest]; [reflexivity|].
    unfold mk_tv. unfold step. cbn [tv_stack tv_start tv_stop tv_asc tv_incl tv_post].
    destruct d; cbn [negb].
    2:{ exists rest. split; [reflexivity|]. split; [reflexivity|]. rewrite mu_cons. cbn [mu_e snd]. lia. }
    unfold with_stack. cbn [tv_stack tv_start tv_stop tv_asc tv_incl tv_post].
    change (outs ((n, true) :: rest)) with (walk n ++ outs rest).
    change (mu ((n, true) :: rest)) with (2 * nodes n + mu rest)%nat.
    rewrite (walk_unfold n). cbv zeta.
    pose proof (nodes_pos n) as NP.
    destruct (isleaf n) eqn:L; cbn [negb orb].
    - (* leaf *)
      destruct (start_or_after start (nkey n) && before_end stop incl (nkey n)) eqn:V;
        destruct post; cbn [andb negb].
      + exists ((n, false) :: rest). split; [reflexivity|]. split; [reflexivity|]. rewrite mu_cons. cbn [mu_e snd]. lia.
      + exists rest. split; [reflexivity|]. split; [reflexivity|]. lia.
      + exists rest. split; [reflexivity|]. split; [reflexivity|]. lia.
      + exists rest. split; [reflexivity|]. split; [reflexivity|]. lia.
    - destruct n as [k v m|k h s m l r]; [unfold isleaf in L; cbn in L; discriminate|].
      cbn [nkey nodes] in *.
      generalize (after_start start k) as aS. generalize (before_end stop incl k) as bE. intros bE aS.
      assert (OL : outs (if aS then [(l, true)] else []) = (if aS then walk l else [])).
      { destruct aS; cbn; rewrite ?app_nil_r; reflexivity. }
      assert (OR : outs (if bE then [(r, true)] else []) = (if bE then walk r else [])).
      { destruct bE; cbn; rewrite ?app_nil_r; reflexivity. }
      assert (ML : (mu (if aS then [(l, true)] else []) <= 2 * nodes l)%nat).
      { destruct aS; unfold mu, mu_e; cbn [map list_sum fold_right snd fst]; lia. }
      assert (MR : (mu (if bE then [(r, true)] else []) <= 2 * nodes r)%nat).
      { destruct bE; unfold mu, mu_e; cbn [map list_sum fold_right snd fst]; lia. }
      destruct post; cbn [andb negb]; destruct asc;
        (eexists; split; [reflexivity|]; split;
         [ rewrite !outs_app, OL, OR; cbn [outs flat_map out snd fst app];
           rewrite <- ?app_assoc; reflexivity
         | rewrite !mu_app, ?mu_cons; cbn [mu_e snd]; lia ]).
  Qed.

  Lemma next_spec fuel : forall st,
    (mu st < fuel)%nat ->
    match next fuel (mk_tv st) with
    | (NFuel, _) => False
    | (NEnd, tv') => outs st = [] /\ tv' = mk_tv []
    | (NNode n, tv') => exists st', tv' = mk_tv st' /\ outs st = n :: outs st' /\ (mu st' < mu st)%nat
    end.
  Proof.
    induction fuel as [|f IH]; intros st Hf; [lia|].
    cbn [next]. pose proof (step_spec st) as SS.
    destruct (step (mk_tv st)) as [|n tv'|tv'].
    - subst st. split; reflexivity.
    - exact SS.
    - destruct SS as (st' & -> & EO & LT).
      specialize (IH st'). assert (Hf' : (mu st' < f)%nat) by lia. specialize (IH Hf').
      destruct (next f (mk_tv st')) as [[n| |] tv'']; auto.
      + destruct IH as (st'' & E1 & E2 & E3). exists st''. split; auto. split; [congruence|lia].
      + rewrite EO. exact IH.
  Qed.

  (** stop-aware prefix: deliver elements up to and including the first one accepted by [f] *)
  Fixpoint upto {A} (f : A -> bool) (l : list A) : list A * bool :=
    match l with
    | [] => ([], false)
    | x :: r => if f x then ([x], true) else let (p, s) := upto f r in (x :: p, s)
    end.

  Lemma trav_loop_spec cb fuel n : forall st,
    (mu st < fuel)%nat -> (mu st < n)%nat ->
    trav_loop n fuel cb (mk_tv st) = Some (upto cb (outs st)).
  Proof.
    induction n as [|n IH]; intros st Hf Hn; [lia|].
    cbn [trav_loop]. pose proof (next_spec fuel st Hf) as NS.
    destruct (next fuel (mk_tv st)) as [[x| |] tv']; [| |contradiction].
    - destruct NS as (st' & -> & EO & LT). rewrite EO. cbn [upto].
      destruct (cb x); [reflexivity|].
      rewrite IH by lia. destruct (upto cb (outs st')); reflexivity.
    - destruct NS as [EO _]. rewrite EO. reflexivity.
  Qed.
End Walk.

Arguments upto {A} f l.

Lemma upto_false {A} (l : list A) : upto (fun _ => false) l = (l, false).
Proof. induction l as [|x l IH]; cbn; [reflexivity|]. rewrite IH. reflexivity. Qed.

(** [upto] delivers a prefix; it reports [true] exactly when some element is accepted, and then
    the accepted element is the last one delivered and the only accepted one among them *)
Lemma upto_prefix {A} (f : A -> bool) l : exists rest, l = fst (upto f l) ++ rest.
Proof.
  induction l as [|x l [rest IH]]; cbn [upto]; [exists []; reflexivity|].
  destruct (f x); [exists l; reflexivity|].
  destruct (upto f l) as [p s]. cbn [fst] in *. exists rest. cbn. congruence.
Qed.

Lemma upto_stopped {A} (f : A -> bool) l :
  snd (upto f l) = existsb f l /\
  (snd (upto f l) = true ->
     exists p x, fst (upto f l) = p ++ [x] /\ f x = true /\ forallb (fun y => negb (f y)) p = true) /\
  (snd (upto f l) = false -> fst (upto f l) = l /\ forallb (fun y => negb (f y)) l = true).
Proof.
  induction l as [|x l (IH1 & IH2 & IH3)]; cbn [upto existsb].
  - cbn. repeat split; auto; discriminate.
  - destruct (f x) eqn:Fx; cbn [orb].
    + cbn [fst snd]. split; [reflexivity|]. split; [|discriminate].
      intros _. exists [], x. cbn. auto.
    + destruct (upto f l) as [p s]. cbn [fst snd] in *. split; [exact IH1|]. split.
      * intros Hs. destruct (IH2 Hs) as (p' & y & -> & Fy & Fa).
        exists (x :: p'), y. cbn [app forallb]. rewrite Fx. cbn. auto.
      * intros Hs. destruct (IH3 Hs) as [-> Fa]. cbn [forallb]. rewrite Fx. cbn. auto.
Qed.

Lemma upto_map {A B} (g : A -> B) (f : B -> bool) l :
  upto f (map g l) = (map g (fst (upto (fun x => f (g x)) l)), snd (upto (fun x => f (g x)) l)).
Proof.
  induction l as [|x l IH]; cbn [map upto]; [reflexivity|].
  destruct (f (g x)); [reflexivity|]. rewrite IH.
  destruct (upto (fun x => f (g x)) l); reflexivity.
Qed.

(** a callback that ignores the elements rejected by [keep] *)
Lemma upto_filter {A} (keep f : A -> bool) l :
  let (p, s) := upto (fun x => if keep x then f x else false) l in
  upto f (filter keep l) = (filter keep p, s).
Proof.
  induction l as [|x l IH]; cbn [upto filter]; [reflexivity|].
  destruct (keep x) eqn:K.
  - destruct (f x) eqn:Fx; cbn [upto]; rewrite Fx.
    + cbn [filter]. rewrite K. reflexivity.
    + destruct (upto (fun x => if keep x then f x else false) l) as [p s].
      rewrite IH. cbn [filter]. rewrite K. reflexivity.
  - destruct (upto (fun x => if keep x then f x else false) l) as [p s].
    cbn [filter]. rewrite K. exact IH.
Qed.

(** ** the leaves of a walk are the range selection *)
Definition sel (start stop : option bytes) (incl : bool) (l : kvs) : kvs :=
  filter (fun p => in_range start stop incl (fst p)) l.

Lemma vis_in_range start stop incl k :
  start_or_after start k && before_end stop incl k = in_range start stop incl k.
Proof.
  unfold start_or_after, after_start, before_end, in_range. f_equal.
  - destruct start as [s|]; [|reflexivity]. cbn [ob]. unfold blt, beq, ble. destruct (bcmp s k); reflexivity.
  - destruct stop as [e|]; [|destruct incl; reflexivity]. cbn [ob]. unfold blt, beq, ble.
    destruct incl; destruct (bcmp k e); reflexivity.
Qed.

Lemma sel_none_lt start stop incl l k :
  keys_lt l k -> after_start start k = false -> sel start stop incl l = [].
Proof.
  intros KL A. unfold sel. induction l as [|[k' v'] l IH]; [reflexivity|].
  inversion KL; subst. cbn [filter fst] in *. rewrite IH by auto.
  unfold in_range. unfold after_start in A. destruct start as [s|]; [|discriminate].
  btests. replace (ble s k') with false; [reflexivity|]. symmetry. apply ble_false. border.
Qed.

Lemma sel_none_ge start stop incl l k :
  keys_ge l k -> before_end stop incl k = false -> sel start stop incl l = [].
Proof.
  intros KG B. unfold sel. induction l as [|[k' v'] l IH]; [reflexivity|].
  inversion KG; subst. cbn [filter fst] in *. rewrite IH by auto.
  unfold in_range. unfold before_end in B. destruct stop as [e|]; [|destruct incl; discriminate].
  cbn [ob] in B.
  replace (if incl then ble k' e else blt k' e) with false; [rewrite andb_false_r; reflexivity|].
  destruct incl.
  - apply orb_false_iff in B. destruct B as [B1 B2]. btests. symmetry. apply ble_false.
    border.
  - btests. symmetry. apply blt_false. border.
Qed.

Lemma leaves_of_app a b : leaves_of (a ++ b) = leaves_of a ++ leaves_of b.
Proof. unfold leaves_of. rewrite filter_app, map_app. reflexivity. Qed.

Lemma walk_leaves start stop asc incl post t :
  wf t ->
  leaves_of (walk start stop asc incl post t) = range_spec (elems t) start stop incl asc.
Proof.
  intros W. change (range_spec (elems t) start stop incl asc)
    with (if asc then sel start stop incl (elems t) else rev (sel start stop incl (elems t))).
  induction t as [k v m|k h s m l IHl r IHr].
  - cbn [walk nkey elems sel]. unfold sel. cbn [filter fst]. rewrite vis_in_range.
    destruct (in_range start stop incl k); destruct asc; reflexivity.
  - pose proof (wf_keys_lt _ _ _ _ _ _ W) as KL. pose proof (wf_keys_ge _ _ _ _ _ _ W) as KG.
    cbn [wf] in W. destruct W as (Wl & Wr & _ & _ & _ & Hh & _).
    pose proof (height_nonneg _ Wl). pose proof (height_nonneg _ Wr).
    specialize (IHl Wl). specialize (IHr Wr).
    cbn [walk nkey elems]. replace (h =? 0) with false by (symmetry; apply Z.eqb_neq; lia).
    assert (NL : isleaf (Inner k h s m l r) = false) by (unfold isleaf; cbn [height]; apply Z.eqb_neq; lia).
    set (cl := if after_start start k then walk start stop asc incl post l else []).
    set (cr := if before_end stop incl k then walk start stop asc incl post r else []).
    assert (CL : leaves_of cl = if asc then sel start stop incl (elems l) else rev (sel start stop incl (elems l))).
    { unfold cl. destruct (after_start start k) eqn:A; [exact IHl|].
      rewrite (sel_none_lt start stop incl _ k KL A). destruct asc; reflexivity. }
    assert (CR : leaves_of cr = if asc then sel start stop incl (elems r) else rev (sel start stop incl (elems r))).
    { unfold cr. destruct (before_end stop incl k) eqn:B; [exact IHr|].
      rewrite (sel_none_ge start stop incl _ k KG B). destruct asc; reflexivity. }
    assert (E : leaves_of (if asc then cl ++ cr else cr ++ cl) =
                if asc then sel start stop incl (elems l ++ elems r)
                else rev (sel start stop incl (elems l ++ elems r))).
    { unfold sel in *. rewrite filter_app. destruct asc; rewrite leaves_of_app, CL, CR; [reflexivity|].
      rewrite rev_app_distr. reflexivity. }
    destruct post.
    + rewrite leaves_of_app, E. unfold leaves_of. cbn [filter]. rewrite NL. cbn [map]. apply app_nil_r.
    + unfold leaves_of. cbn [filter]. rewrite NL. exact E.
Qed.

(** ** Result 1 *)
Lemma tv_new_mk t start stop asc incl post :
  tv_new (Some t) start stop asc incl post = mk_tv start stop asc incl post [(t, true)].
Proof. reflexivity. Qed.

Lemma mu_root t : (mu [(t, true)] < tree_fuel t)%nat.
Proof. unfold tree_fuel. cbn. lia. Qed.

Theorem traverse_in_range_spec t start stop asc incl post cb :
  traverse_in_range t start stop asc incl post cb =
  Some (upto cb (walk start stop asc incl post t)).
Proof.
  unfold traverse_in_range. rewrite tv_new_mk.
  rewrite trav_loop_spec by apply mu_root. cbn [outs flat_map out snd fst]. rewrite app_nil_r. reflexivity.
Qed.

Theorem iter_tree_spec t start stop incl asc :
  wf t -> iter_tree t start stop incl asc = Some (range_spec (elems t) start stop incl asc).
Proof.
  intros W. unfold iter_tree, traverse_all. rewrite tv_new_mk.
  rewrite trav_loop_spec by apply mu_root. rewrite upto_false. cbn [option_map fst].
  cbn [outs flat_map out snd fst]. rewrite app_nil_r. rewrite walk_leaves by exact W. reflexivity.
Qed.

(** the post-order traversal visits the same leaves in the same order *)
Theorem traverse_post_leaves t start stop incl asc :
  wf t ->
  option_map leaves_of (traverse_all (tree_fuel t) (tv_new (Some t) start stop asc incl true))
  = Some (range_spec (elems t) start stop incl asc).
Proof.
  intros W. unfold traverse_all. rewrite tv_new_mk.
  rewrite trav_loop_spec by apply mu_root. rewrite upto_false. cbn [option_map fst].
  cbn [outs flat_map out snd fst]. rewrite app_nil_r. rewrite walk_leaves by exact W. reflexivity.
Qed.

(** ** Result 6 for IterateRange / IterateRangeInclusive *)
Theorem iterate_range_spec t start stop asc incl fn :
  wf t ->
  iterate_range (Some t) start stop asc incl fn =
  Some (upto fn (range_spec (elems t) start stop incl asc)).
Proof.
  intros W. unfold iterate_range. rewrite traverse_in_range_spec.
  rewrite <- (walk_leaves start stop asc incl false t W).
  unfold leaves_of. rewrite upto_map.
  pose proof (upto_filter isleaf (fun n => fn (nodes_kv n)) (walk start stop asc incl false t)) as UF.
  destruct (upto (fun x => if isleaf x then fn (nodes_kv x) else false) (walk start stop asc incl false t)) as [p s].
  rewrite UF. reflexivity.
Qed.

(** * (b) the Iterator wrapper *)
Section Wrapper.
  Variables (start stop : option bytes) (asc incl post : bool).
  Notation mk := (mk_tv start stop asc incl post).
  Notation outs' := (outs start stop asc incl post).

  Lemma leaves_of_cons n l :
    leaves_of (n :: l) = if height n =? 0 then (nkey n, nval n) :: leaves_of l else leaves_of l.
  Proof. unfold leaves_of. cbn [filter]. unfold isleaf. destruct (height n =? 0); reflexivity. Qed.

  (** Iterator.Next() moves to the next leaf of the walk, or invalidates the iterator *)
  Lemma it_next_spec fuel : forall st it,
    (mu st < fuel)%nat -> it_t it = Some (mk st) ->
    exists it', it_next fuel it = Some it' /\
      it_start it' = it_start it /\ it_stop it' = it_stop it /\ it_err it' = it_err it /\
      match leaves_of (outs' st) with
      | [] => it_valid it' = false /\ it_t it' = None /\
              it_key it' = it_key it /\ it_value it' = it_value it
      | (k, v) :: rest =>
          it_valid it' = it_valid it /\ it_key it' = Some k /\ it_value it' = Some v /\
          exists st', it_t it' = Some (mk st') /\ leaves_of (outs' st') = rest /\ (mu st' < mu st)%nat
      end.
  Proof.
    induction fuel as [|f IH]; intros st it Hf Ht; [lia|].
    cbn [it_next]. rewrite Ht.
    pose proof (next_spec start stop asc incl post (S f) st Hf) as NS.
    destruct (next (S f) (mk st)) as [[n| |] tv']; [| |contradiction].
    - destruct NS as (st' & -> & EO & LT). rewrite EO, leaves_of_cons.
      destruct (height n =? 0).
      + eexists. split; [reflexivity|]. cbn [it_start it_stop it_err it_valid it_key it_value it_t].
        repeat split; auto. exists st'. auto.
      + set (it1 := Iter (it_start it) (it_stop it) (it_key it) (it_value it) (it_valid it) (it_err it) (Some (mk st'))).
        assert (Hf' : (mu st' < f)%nat) by lia.
        destruct (IH st' it1 Hf' eq_refl) as (it' & E & A1 & A2 & A3 & M).
        exists it'. split; [exact E|]. repeat split; auto.
        destruct (leaves_of (outs' st')) as [|[k v] rest].
        * exact M.
        * destruct M as (B1 & B2 & B3 & st'' & C1 & C2 & C3). repeat split; auto.
          exists st''. repeat split; auto. lia.
    - destruct NS as [EO _]. rewrite EO. eexists. split; [reflexivity|].
      cbn [leaves_of filter map it_start it_stop it_err it_valid it_key it_value it_t]. auto 10.
  Qed.

  Lemma it_loop_spec fuel fn n : forall st it k v,
    (mu st < fuel)%nat -> (mu st + 1 < n)%nat ->
    it_valid it = true -> it_key it = Some k -> it_value it = Some v -> it_t it = Some (mk st) ->
    it_loop n fuel fn it = Some (upto fn ((k, v) :: leaves_of (outs' st))).
  Proof.
    induction n as [|n IH]; intros st it k v Hf Hn V K Vl T; [lia|].
    cbn [it_loop]. rewrite V, K, Vl. cbn [ob upto].
    destruct (fn (k, v)); [reflexivity|].
    destruct (it_next_spec fuel st it Hf T) as (it' & E & _ & _ & _ & M). rewrite E.
    destruct (leaves_of (outs' st)) as [|[k' v'] rest].
    - destruct M as (V' & _). destruct n as [|n]; [lia|]. cbn [it_loop]. rewrite V'. reflexivity.
    - destruct M as (V' & K' & Vl' & st' & T' & L' & LT).
      rewrite (IH st' it' k' v'); try lia; try congruence.
      rewrite L'. destruct (upto fn ((k', v') :: rest)); reflexivity.
  Qed.

  Lemma it_loop_invalid fuel fn n it :
    (0 < n)%nat -> it_valid it = false -> it_loop n fuel fn it = Some ([], false).
  Proof. intros Hn V. destruct n as [|n]; [lia|]. cbn [it_loop]. rewrite V. reflexivity. Qed.
End Wrapper.

(** the iterator is usable: valid implies a live traversal *)
Definition it_ok (it : iter) : Prop := it_valid it = false -> it_t it = None.

Lemma it_next_dead fuel it : (0 < fuel)%nat -> it_t it = None -> it_next fuel it = Some it.
Proof. intros Hf T. destruct fuel as [|f]; [lia|]. cbn [it_next]. rewrite T. reflexivity. Qed.

Lemma tree_fuel_pos t : (0 < tree_fuel t)%nat.
Proof. unfold tree_fuel. lia. Qed.

(** once invalid, an iterator stays invalid (and frozen) under further Next() calls *)
Fixpoint it_steps (m fuel : nat) (it : iter) : option iter :=
  match m with
  | O => Some it
  | S m' => match it_next fuel it with None => None | Some it' => it_steps m' fuel it' end
  end.

Lemma it_invalid_stable m fuel it :
  (0 < fuel)%nat -> it_ok it -> it_valid it = false -> it_steps m fuel it = Some it.
Proof.
  intros Hf OK V. induction m as [|m IH]; [reflexivity|].
  cbn [it_steps]. rewrite it_next_dead; [exact IH|exact Hf|apply OK, V].
Qed.

Lemma it_new_shape t start stop asc :
  wf t ->
  exists it, it_new (tree_fuel t) start stop asc (Some (Some t)) = Some it /\ it_ok it /\
    match range_spec (elems t) start stop false asc with
    | [] => it_valid it = false
    | (k, v) :: rest =>
        it_valid it = true /\ it_key it = Some k /\ it_value it = Some v /\
        exists st, it_t it = Some (mk_tv start stop asc false false st) /\
          leaves_of (outs start stop asc false false st) = rest /\ (mu st + 1 < tree_fuel t)%nat
    end.
Proof.
  intros W. unfold it_new. rewrite tv_new_mk.
  set (it0 := Iter start stop None None true false (Some (mk_tv start stop asc false false [(t, true)]))).
  destruct (it_next_spec start stop asc false false (tree_fuel t) [(t, true)] it0 (mu_root t) eq_refl)
    as (it & E & _ & _ & _ & M).
  exists it. split; [exact E|].
  assert (L : leaves_of (outs start stop asc false false [(t, true)]) = range_spec (elems t) start stop false asc).
  { cbn [outs flat_map out snd fst]. rewrite app_nil_r. apply walk_leaves, W. }
  rewrite L in M. destruct (range_spec (elems t) start stop false asc) as [|[k v] rest].
  - destruct M as (V & T & _). split; [intros _; exact T|exact V].
  - destruct M as (V & K & Vl & st & T & L' & LT). cbn [it_valid it0] in V.
    split; [intros V'; congruence|]. repeat split; auto. exists st. repeat split; auto.
    pose proof (mu_root t). unfold tree_fuel in *. cbn in LT |- *. cbn in H. lia.
Qed.

(** ** Result 2 *)
Theorem it_collect_spec t start stop asc :
  wf t ->
  it_collect_tree t start stop asc = Some (range_spec (elems t) start stop false asc).
Proof.
  intros W. unfold it_collect_tree.
  destruct (it_new_shape t start stop asc W) as (it & E & OK & M). rewrite E. unfold it_collect.
  destruct (range_spec (elems t) start stop false asc) as [|[k v] rest].
  - rewrite it_loop_invalid; [reflexivity|unfold tree_fuel; lia|exact M].
  - destruct M as (V & K & Vl & st & T & L & LT).
    rewrite (it_loop_spec start stop asc false false (tree_fuel t) (fun _ => false) (tree_fuel t) st it k v);
      auto; try lia.
    rewrite L, upto_false. reflexivity.
Qed.

(** stepping the iterator once per element exhausts it; afterwards it is invalid for good *)
Lemma it_steps_exhaust start stop asc fuel m : forall st it,
  (mu st < fuel)%nat -> it_t it = Some (mk_tv start stop asc false false st) ->
  length (leaves_of (outs start stop asc false false st)) = m ->
  exists it', it_steps (S m) fuel it = Some it' /\ it_valid it' = false /\ it_t it' = None.
Proof.
  induction m as [|m IH]; intros st it Hf T Len.
  - destruct (it_next_spec start stop asc false false fuel st it Hf T) as (it' & E & _ & _ & _ & M).
    destruct (leaves_of (outs start stop asc false false st)); [|discriminate].
    exists it'. cbn [it_steps]. rewrite E. tauto.
  - destruct (it_next_spec start stop asc false false fuel st it Hf T) as (it' & E & _ & _ & _ & M).
    destruct (leaves_of (outs start stop asc false false st)) as [|[k v] rest]; [discriminate|].
    destruct M as (_ & _ & _ & st' & T' & L' & LT).
    destruct (IH st' it') as (it'' & E' & V'' & T''); auto; try lia.
    { rewrite L'. cbn in Len. lia. }
    exists it''. split; auto. change (it_steps (S (S m)) fuel it) with
      (match it_next fuel it with None => None | Some it' => it_steps (S m) fuel it' end).
    rewrite E. exact E'.
Qed.

Theorem it_exhausted_stays_invalid t start stop asc :
  wf t ->
  let n := length (range_spec (elems t) start stop false asc) in
  exists it0 it1,
    it_new (tree_fuel t) start stop asc (Some (Some t)) = Some it0 /\
    it_steps n (tree_fuel t) it0 = Some it1 /\ it_valid it1 = false /\
    forall m, it_steps m (tree_fuel t) it1 = Some it1.
Proof.
  intros W n. destruct (it_new_shape t start stop asc W) as (it & E & OK & M).
  exists it. subst n.
  destruct (range_spec (elems t) start stop false asc) as [|[k v] rest].
  - exists it. repeat split; auto. intros m. apply it_invalid_stable; auto using tree_fuel_pos.
  - destruct M as (V & K & Vl & st & T & L & LT).
    destruct (it_steps_exhaust start stop asc (tree_fuel t) (length rest) st it) as (it1 & E1 & V1 & T1);
      auto; try lia.
    { rewrite L. reflexivity. }
    exists it1. repeat split; auto. intros m. apply it_invalid_stable; auto using tree_fuel_pos. intros _. exact T1.
Qed.

(** a nil tree gives an invalid iterator carrying the error; a nil root an invalid one *)
Lemma it_new_nil_tree fuel start stop asc :
  it_new fuel start stop asc None = Some (Iter start stop None None false true None).
Proof. reflexivity. Qed.
Lemma it_new_nil_root fuel start stop asc :
  it_new (S fuel) start stop asc (Some None) = Some (Iter start stop None None false false None).
Proof. reflexivity. Qed.

Lemma filter_all {A} (f : A -> bool) l : (forall x, f x = true) -> filter f l = l.
Proof. intros F. induction l as [|x l IH]; cbn [filter]; [reflexivity|]. rewrite F, IH. reflexivity. Qed.
Lemma filter_none {A} (f : A -> bool) l : (forall x, f x = false) -> filter f l = [].
Proof. intros F. induction l as [|x l IH]; cbn [filter]; [reflexivity|]. rewrite F, IH. reflexivity. Qed.

Lemma range_spec_all l : range_spec l None None false true = l.
Proof. unfold range_spec. apply filter_all. reflexivity. Qed.

(** ** Result 6 for ImmutableTree.Iterate *)
Theorem imm_iterate_spec t fn :
  wf t -> imm_iterate (Some t) fn = Some (upto fn (elems t)).
Proof.
  intros W. unfold imm_iterate.
  destruct (it_new_shape t None None true W) as (it & E & OK & M). rewrite E.
  rewrite range_spec_all in M. destruct (elems t) as [|[k v] rest].
  - rewrite it_loop_invalid; [reflexivity|unfold tree_fuel; lia|exact M].
  - destruct M as (V & K & Vl & st & T & L & LT).
    rewrite (it_loop_spec None None true false false (tree_fuel t) fn (tree_fuel t) st it k v);
      auto; try lia.
    rewrite L. reflexivity.
Qed.

(** * (c) the fast-index iterator *)
Lemma sel_none_all_ge start stop (l : kvs) e :
  stop = Some e -> Forall (fun p => e <=b fst p) l -> sel start stop false l = [].
Proof.
  intros -> F. unfold sel. induction l as [|[k v] l IH]; [reflexivity|].
  inversion F; subst. cbn [filter fst] in *. rewrite IH by auto.
  unfold in_range. replace (blt k e) with false; [rewrite andb_false_r; reflexivity|].
  symmetry. apply blt_false. auto.
Qed.

Lemma take_below_sel start stop (l : kvs) :
  sorted l -> Forall (fun p => match start with None => True | Some s => s <=b fst p end) l ->
  take_below stop l = sel start stop false l.
Proof.
  induction l as [|[k v] l IH]; intros S F; [reflexivity|].
  cbn [sorted] in S. destruct S as [Fk S]. inversion F as [|? ? Hk F']; subst. cbn [fst] in Hk.
  cbn [take_below]. unfold sel. cbn [filter fst].
  assert (IS : (match start with None => true | Some s => ble s k end) = true).
  { destruct start as [s|]; auto. apply ble_true. exact Hk. }
  unfold in_range at 1. rewrite IS. cbn [andb].
  destruct stop as [e|].
  - destruct (blt k e) eqn:B.
    + f_equal. apply IH; auto.
    + btests. symmetry. apply (sel_none_all_ge start (Some e) l e eq_refl).
      eapply Forall_impl; [|exact Fk]. cbn. intros p Hp. border.
  - f_equal. apply IH; auto.
Qed.

Lemma kv_scan_asc_spec (idx : kvs) start stop :
  sorted idx -> take_below stop (drop_below start idx) = sel start stop false idx.
Proof.
  induction idx as [|[k v] l IH]; intros S; [reflexivity|].
  pose proof S as S0. cbn [sorted] in S. destruct S as [Fk S].
  cbn [drop_below].
  destruct start as [s|].
  - destruct (blt k s) eqn:B.
    + rewrite IH by auto. unfold sel. cbn [filter fst]. unfold in_range at 2.
      replace (ble s k) with false; [reflexivity|]. btests. symmetry. apply ble_false. exact B.
    + btests. apply take_below_sel; auto. constructor; [exact B|].
      eapply Forall_impl; [|exact Fk]. cbn. intros p Hp. border.
  - apply take_below_sel; auto. apply Forall_forall. auto.
Qed.

Lemma kv_scan_spec idx start stop asc :
  sorted idx -> kv_scan idx start stop asc = range_spec idx start stop false asc.
Proof.
  intros S. unfold kv_scan, range_spec. rewrite kv_scan_asc_spec by exact S. reflexivity.
Qed.

(** position of a FastIterator over the remaining entries [kv] *)
Definition fi_pos (it : fiter) (kv : kvit) : Prop :=
  fi_it it = Some kv /\ fi_valid it = kv_valid kv /\ fi_ndb it <> None /\
  match kv with [] => True | x :: _ => fi_node it = Some x end.

Lemma fi_new_pos start stop asc idx :
  fi_pos (fi_new start stop asc (Some idx)) (kv_scan idx start stop asc).
Proof.
  unfold fi_new, fi_next. cbn [fi_ndb fi_it fi_start fi_stop fi_asc fi_valid fi_err fi_node].
  destruct (kv_scan idx start stop asc) as [|x kv]; cbn; unfold fi_pos; cbn; repeat split; congruence.
Qed.

Lemma fi_next_pos it x kv :
  fi_pos it (x :: kv) -> exists it', fi_next it = FOk it' /\ fi_pos it' kv.
Proof.
  intros (I & V & N & Nd). unfold fi_next. destruct (fi_ndb it) as [idx|] eqn:E; [|congruence].
  rewrite I. cbn [kv_next]. eexists. split; [reflexivity|].
  unfold fi_pos. cbn [fi_it fi_valid fi_ndb fi_node]. rewrite V. cbn [kv_valid andb].
  destruct kv as [|y kv]; cbn; repeat split; congruence.
Qed.

Lemma fi_pos_valid it kv : fi_pos it kv -> fi_is_valid it = kv_valid kv.
Proof.
  intros (I & V & _). unfold fi_is_valid. rewrite I, V. destruct (kv_valid kv); reflexivity.
Qed.
Lemma fi_pos_key it k v kv : fi_pos it ((k, v) :: kv) -> fi_key it = Some k /\ fi_value it = Some v.
Proof.
  intros (I & V & _ & N). unfold fi_key, fi_value. rewrite V, N. split; reflexivity.
Qed.

Lemma fi_loop_spec fn n : forall it kv,
  fi_pos it kv -> (length kv < n)%nat -> fi_loop n fn it = Some (upto fn kv).
Proof.
  induction n as [|n IH]; intros it kv P Hn; [lia|].
  cbn [fi_loop]. rewrite (fi_pos_valid it kv P).
  destruct kv as [|[k v] kv]; [reflexivity|]. cbn [kv_valid].
  destruct (fi_pos_key it k v kv P) as [K V]. rewrite K, V. cbn [ob upto].
  destruct (fn (k, v)); [reflexivity|].
  destruct (fi_next_pos it (k, v) kv P) as (it' & E & P'). rewrite E.
  rewrite (IH it' kv P') by (cbn in Hn; lia). destruct (upto fn kv); reflexivity.
Qed.

(** ** Result 3 *)
Theorem fast_iter_spec idx start stop asc :
  sorted idx -> fast_collect idx start stop asc = Some (range_spec idx start stop false asc).
Proof.
  intros S. unfold fast_collect.
  rewrite (fi_loop_spec _ _ _ _ (fi_new_pos start stop asc idx)).
  - rewrite upto_false, kv_scan_spec by exact S. reflexivity.
  - rewrite kv_scan_spec by exact S. unfold range_spec.
    assert (L : (length (filter (fun p : bytes * bytes => in_range start stop false (fst p)) idx) <= length idx)%nat).
    { clear S. induction idx as [|p l IH]; cbn [filter length]; [lia|].
      destruct (in_range start stop false (fst p)); cbn [length]; lia. }
    destruct asc; rewrite ?rev_length; lia.
Qed.

(** Next() on an exhausted FastIterator panics in the backing store iterator *)
Lemma fi_next_past_end it : fi_pos it [] -> fi_next it = FPanic.
Proof.
  intros (I & _ & N & _). unfold fi_next. destruct (fi_ndb it); [|congruence]. rewrite I. reflexivity.
Qed.

(** * (d) the unsaved fast iterator *)

(** ** sorted-list facts for the overlay *)
Lemma sorted_ins k v (l : kvs) : sorted l -> sorted (ins k v l).
Proof.
  induction l as [|[k' v'] l IH]; intros S; [cbn; auto|].
  cbn [sorted] in S. destruct S as [F S]. cbn [ins]. bcases k k'.
  - subst k'. cbn [sorted]. auto.
  - cbn [sorted]. split; [|split; auto]. constructor; [exact E|].
    eapply Forall_impl; [|exact F]. cbn. intros p Hp. border.
  - cbn [sorted]. split; [|auto]. apply Forall_ins; auto.
Qed.

Lemma sorted_del k (l : kvs) : sorted l -> sorted (del k l).
Proof.
  induction l as [|[k' v'] l IH]; intros S; [exact I|].
  pose proof S as S0. cbn [sorted] in S. destruct S as [F S]. cbn [del]. bcases k k'; auto.
  cbn [sorted]. split; [|auto]. apply Forall_del; auto.
Qed.

Lemma sorted_In_head k v (l : kvs) a b : sorted ((k, v) :: l) -> In (a, b) l -> k <b a.
Proof. cbn [sorted]. intros [F _] I. rewrite Forall_forall in F. exact (F _ I). Qed.

Lemma ins_In k v (l : kvs) a b :
  sorted l -> (In (a, b) (ins k v l) <-> (a = k /\ b = v) \/ (a <> k /\ In (a, b) l)).
Proof.
  induction l as [|[k' v'] l IH]; intros S.
  - cbn [ins In]. split.
    + intros [E|[]]. inversion E. auto.
    + intros [[-> ->]|[_ []]]. auto.
  - pose proof (sorted_In_head _ _ _ a b S) as HD.
    cbn [sorted] in S. destruct S as [F S]. specialize (IH S). cbn [ins]. bcases k k'.
    + subst k'. cbn [In]. split.
      * intros [E0|I0]; [inversion E0; auto|]. right. split; auto. specialize (HD I0). intro; subst; border.
      * intros [[-> ->]|[N [E0|I0]]]; auto. inversion E0; subst. congruence.
    + cbn [In]. split.
      * intros [E0|[E0|I0]]; [inversion E0; auto| |].
        -- inversion E0; subst. right. split; auto. intro; subst; border.
        -- right. split; auto. specialize (HD I0). intro; subst; border.
      * intros [[-> ->]|[N I0]]; auto.
    + cbn [In]. rewrite IH. split.
      * intros [E0|[[-> ->]|[N I0]]]; auto.
        inversion E0; subst. right. split; auto. intro; subst; border.
      * intros [[-> ->]|[N [E0|I0]]]; auto.
Qed.

Lemma del_In k (l : kvs) a b :
  sorted l -> (In (a, b) (del k l) <-> a <> k /\ In (a, b) l).
Proof.
  induction l as [|[k' v'] l IH]; intros S.
  - cbn. tauto.
  - pose proof (sorted_In_head _ _ _ a b S) as HD.
    cbn [sorted] in S. destruct S as [F S]. specialize (IH S). cbn [del]. bcases k k'.
    + subst k'. cbn [In]. split.
      * intros I0. split; auto. specialize (HD I0). intro; subst; border.
      * intros [N [E0|I0]]; auto. inversion E0; subst. congruence.
    + cbn [In]. split.
      * intros [E0|I0]; (split; [|auto]).
        -- inversion E0; subst. intro; subst; border.
        -- specialize (HD I0). intro; subst; border.
      * tauto.
    + cbn [In]. rewrite IH. split.
      * intros [E0|[N I0]]; auto. inversion E0; subst. split; auto. intro; subst; border.
      * intros [N [E0|I0]]; auto.
Qed.

(** the state the index-plus-uncommitted-changes iterator must present *)
Definition apply_overlay (idx adds : kvs) (rms : list bytes) : kvs :=
  fold_left (fun l p => ins (fst p) (snd p) l) adds (fold_left (fun l k => del k l) rms idx).

Lemma fold_del_spec rms : forall l : kvs,
  sorted l ->
  sorted (fold_left (fun l k => del k l) rms l) /\
  forall a b, In (a, b) (fold_left (fun l k => del k l) rms l) <-> In (a, b) l /\ ~ In a rms.
Proof.
  induction rms as [|k rms IH]; intros l S; cbn [fold_left].
  - split; auto. cbn. tauto.
  - destruct (IH (del k l) (sorted_del k l S)) as [S' I']. split; auto.
    intros a b. rewrite I', del_In by exact S. cbn [In]. split.
    + intros [[N I0] NI]. split; auto. intros [E|I1]; auto.
    + intros [I0 NI]. split; [split|]; auto.
Qed.

Lemma fold_ins_spec adds : forall l : kvs,
  sorted l -> NoDup (map fst adds) ->
  sorted (fold_left (fun l p => ins (fst p) (snd p) l) adds l) /\
  forall a b, In (a, b) (fold_left (fun l p => ins (fst p) (snd p) l) adds l) <->
              In (a, b) adds \/ (~ In a (map fst adds) /\ In (a, b) l).
Proof.
  induction adds as [|[k v] adds IH]; intros l S ND; cbn [fold_left fst snd].
  - split; auto. cbn. tauto.
  - cbn [map fst] in ND. inversion ND as [|? ? NI ND']; subst.
    destruct (IH (ins k v l) (sorted_ins k v l S) ND') as [S' I']. split; auto.
    intros a b. rewrite I', ins_In by exact S. cbn [In map fst]. split.
    + intros [I0|[NI0 [[-> ->]|[N I0]]]]; auto.
      right. split; auto. intros [E|I1]; auto.
    + intros [[E|I0]|[NI0 I0]]; auto.
      * inversion E; subst. right. split; auto.
      * right. split; auto. right. split; auto.
Qed.

Lemma apply_overlay_spec idx adds rms :
  sorted idx -> NoDup (map fst adds) ->
  sorted (apply_overlay idx adds rms) /\
  forall a b, In (a, b) (apply_overlay idx adds rms) <->
     In (a, b) adds \/ (~ In a (map fst adds) /\ In (a, b) idx /\ ~ In a rms).
Proof.
  intros S ND. unfold apply_overlay.
  destruct (fold_del_spec rms idx S) as [S1 I1].
  destruct (fold_ins_spec adds _ S1 ND) as [S2 I2]. split; auto.
  intros a b. rewrite I2, I1. tauto.
Qed.

Lemma assoc_In_NoDup (l : kvs) k v : NoDup (map fst l) -> (assoc k l = Some v <-> In (k, v) l).
Proof.
  induction l as [|[k' v'] l IH]; intros ND; cbn [assoc In].
  - split; [discriminate|tauto].
  - cbn [map fst] in ND. inversion ND as [|? ? NI ND']; subst. destruct (beq k k') eqn:B; btests.
    + subst k'. split.
      * intros E; inversion E; auto.
      * intros [E|I0]; [inversion E; auto|]. exfalso. apply NI. apply in_map_iff. exists (k, v). auto.
    + rewrite (IH ND'). split; auto. intros [E|I0]; auto. inversion E; subst. congruence.
Qed.

Lemma assoc_In_keys (l : kvs) k : In k (map fst l) -> assoc k l <> None.
Proof.
  induction l as [|[k' v'] l IH]; cbn [map fst In assoc]; [tauto|].
  intros [E|I0]; destruct (beq k k') eqn:B; btests; try congruence. auto.
Qed.

Definition aval (adds : kvs) (k : bytes) : bytes :=
  match assoc k adds with Some v => v | None => [] end.

Lemma aval_In adds k v :
  NoDup (map fst adds) -> (In k (map fst adds) /\ v = aval adds k <-> In (k, v) adds).
Proof.
  intros ND. unfold aval. split.
  - intros [I0 ->]. destruct (assoc k adds) as [v0|] eqn:A.
    + apply assoc_In_NoDup; auto.
    + exfalso. eapply assoc_In_keys; eauto.
  - intros I0. split; [apply in_map_iff; exists (k, v); auto|].
    apply (assoc_In_NoDup adds k v ND) in I0. rewrite I0. reflexivity.
Qed.

(** ** sorting the unsaved keys *)
Fixpoint ksorted (asc : bool) (l : list bytes) : Prop :=
  match l with
  | [] => True
  | k :: r => Forall (kbefore asc k) r /\ ksorted asc r
  end.

Lemma key_before_true asc a b : key_before asc a b = true <-> kbefore asc a b.
Proof. destruct asc; cbn; apply blt_true. Qed.

Lemma sort_ins_In asc k l x : In x (sort_ins asc k l) <-> x = k \/ In x l.
Proof.
  induction l as [|y l IH]; cbn [sort_ins In]; [intuition|].
  destruct (key_before asc k y); cbn [In]; [intuition|]. rewrite IH. intuition.
Qed.

Lemma sort_ins_sorted asc k l : ksorted asc l -> ~ In k l -> ksorted asc (sort_ins asc k l).
Proof.
  induction l as [|y l IH]; intros S NI; cbn [sort_ins].
  - cbn. auto.
  - cbn [ksorted] in S. destruct S as [F S]. destruct (key_before asc k y) eqn:B.
    + apply key_before_true in B. cbn [ksorted]. split; [|split; auto].
      constructor; auto. eapply Forall_impl; [|exact F]. intros z Hz. eapply kbefore_trans; eauto.
    + cbn [ksorted]. split; [|apply IH; auto; intro; apply NI; right; auto].
      assert (Hy : kbefore asc y k).
      { destruct (kbefore_total asc k y) as [H|[H|H]]; auto.
        - apply key_before_true in H. congruence.
        - subst. exfalso. apply NI. left; reflexivity. }
      apply Forall_forall. intros z Iz. apply sort_ins_In in Iz. destruct Iz as [->|Iz]; auto.
      rewrite Forall_forall in F. auto.
Qed.

Lemma sort_keys_In asc l x : In x (sort_keys asc l) <-> In x l.
Proof.
  induction l as [|y l IH]; cbn [sort_keys fold_right In]; [tauto|].
  fold (sort_keys asc l). rewrite sort_ins_In, IH. intuition.
Qed.

Lemma sort_keys_sorted asc l : NoDup l -> ksorted asc (sort_keys asc l).
Proof.
  induction l as [|y l IH]; intros ND; cbn [sort_keys fold_right]; [exact I|].
  fold (sort_keys asc l). inversion ND; subst. apply sort_ins_sorted; auto.
  rewrite sort_keys_In. auto.
Qed.

Lemma sort_ins_length asc k l : length (sort_ins asc k l) = S (length l).
Proof. induction l as [|y l IH]; cbn [sort_ins length]; [reflexivity|]. destruct (key_before asc k y); cbn [length]; lia. Qed.
Lemma sort_keys_length asc l : length (sort_keys asc l) = length l.
Proof. induction l as [|y l IH]; cbn [sort_keys fold_right length]; [reflexivity|]. fold (sort_keys asc l). rewrite sort_ins_length, IH. reflexivity. Qed.

Lemma in_rms_In k rms : in_rms k rms = true <-> In k rms.
Proof.
  unfold in_rms. rewrite existsb_exists. split.
  - intros (x & I0 & B). btests. subst. exact I0.
  - intros I0. exists k. split; auto. apply beq_true. reflexivity.
Qed.
Lemma in_rms_false k rms : in_rms k rms = false <-> ~ In k rms.
Proof. rewrite <- in_rms_In. destruct (in_rms k rms); split; congruence. Qed.

Lemma uf_keep_in_range start stop k : uf_keep start stop k = in_range start stop false k.
Proof.
  unfold uf_keep, in_range. f_equal.
  - destruct start as [s|]; [|reflexivity]. unfold blt, ble. rewrite (bcmp_antisym k s).
    destruct (bcmp k s); reflexivity.
  - destruct stop as [e|]; [|reflexivity]. destruct (blt k e); reflexivity.
Qed.

(** ** the merge performed by UnsavedFastIterator.Next(), as a function on the two sorted
    sequences: [D] the remaining disk entries, [U] the remaining unsaved keys *)
Section Merge.
  Variables (asc : bool) (adds : kvs) (rms : list bytes).

  Definition ubefore (uk dk : bytes) : bool := if asc then ble uk dk else ble dk uk.

  Fixpoint merge (D : kvs) : list bytes -> kvs :=
    match D with
    | [] => fun U => map (fun uk => (uk, aval adds uk)) U
    | (dk, dv) :: D' =>
        fix mU (U : list bytes) : kvs :=
          if in_rms dk rms then merge D' U else
          match U with
          | [] => (dk, dv) :: merge D' []
          | uk :: U' =>
              if ubefore uk dk then
                (uk, aval adds uk) :: (if beq dk uk then merge D' U' else mU U')
              else (dk, dv) :: merge D' U
          end
    end.

  Lemma merge_cons dk dv D' U :
    merge ((dk, dv) :: D') U =
      if in_rms dk rms then merge D' U else
      match U with
      | [] => (dk, dv) :: merge D' []
      | uk :: U' =>
          if ubefore uk dk then
            (uk, aval adds uk) :: (if beq dk uk then merge D' U' else merge ((dk, dv) :: D') U')
          else (dk, dv) :: merge D' U
      end.
  Proof. destruct U; reflexivity. Qed.

  Lemma merge_nil U : merge [] U = map (fun uk => (uk, aval adds uk)) U.
  Proof. reflexivity. Qed.

  Lemma ubefore_true uk dk : ubefore uk dk = true <-> kbefore asc uk dk \/ uk = dk.
  Proof.
    unfold ubefore, kbefore. destruct asc; rewrite ble_true; split.
    - intros H. bcases uk dk; auto; exfalso; border.
    - intros [H| ->]; border.
    - intros H. bcases uk dk; auto; exfalso; border.
    - intros [H| ->]; border.
  Qed.
  Lemma ubefore_false uk dk : ubefore uk dk = false <-> kbefore asc dk uk.
  Proof. unfold ubefore, kbefore. destruct asc; apply ble_false. Qed.

  Definition disj (U : list bytes) : Prop := forall k, In k U -> ~ In k rms.

  Lemma merge_In : forall D, dsorted asc D -> forall U, ksorted asc U -> disj U ->
    forall k v, In (k, v) (merge D U) <->
      (In k U /\ v = aval adds k) \/ (In (k, v) D /\ ~ In k rms /\ ~ In k U).
  Proof.
    induction D as [|[dk dv] D' IHD]; intros SD.
    - intros U SU DJ k v. rewrite merge_nil, in_map_iff. split.
      + intros (uk & E & I0). inversion E; subst. auto.
      + intros [[I0 ->]|[[] _]]. exists k. auto.
    - pose proof SD as SD0. cbn [dsorted] in SD. destruct SD as [FD SD'].
      rewrite Forall_forall in FD. specialize (IHD SD').
      induction U as [|uk U' IHU]; intros SU DJ k v; rewrite merge_cons;
        destruct (in_rms dk rms) eqn:R.
      + apply in_rms_In in R. rewrite (IHD [] SU DJ). cbn [In]. split.
        * intros [[[] _]|(B1 & B2 & B3)]. auto.
        * intros [[[] _]|([E|B1] & B2 & B3)]; auto. inversion E; subst. contradiction.
      + apply in_rms_false in R. cbn [In]. rewrite (IHD [] SU DJ). cbn [In]. split.
        * intros [E|[[[] _]|(B1 & B2 & B3)]]; auto. inversion E; subst. auto.
        * intros [[[] _]|([E|B1] & B2 & B3)]; auto.
      + apply in_rms_In in R. rewrite (IHD _ SU DJ). cbn [In]. split.
        * intros [A|(B1 & B2 & B3)]; auto.
        * intros [A|([E|B1] & B2 & B3)]; auto. inversion E; subst. contradiction.
      + apply in_rms_false in R.
        pose proof SU as SU0. cbn [ksorted] in SU. destruct SU as [FU SU'].
        rewrite Forall_forall in FU.
        assert (DJ' : disj U') by (intros x Ix; apply DJ; right; exact Ix).
        specialize (IHU SU' DJ').
        destruct (ubefore uk dk) eqn:B.
        * apply ubefore_true in B. destruct (beq dk uk) eqn:Q; btests.
          -- subst uk. cbn [In]. rewrite (IHD U' SU' DJ'). split.
             ++ intros [E|[[I0 ->]|(B1 & B2 & B3)]]; [inversion E; subst; auto|auto|].
                right. split; auto. split; auto. intros [E|I1]; auto. subst k.
                apply FD in B1. cbn in B1. eapply kbefore_irrefl; eauto.
             ++ intros [[[E|I0] ->]|([E|B1] & B2 & B3)]; auto.
                ** subst; auto.
                ** inversion E; subst. exfalso. apply B3. auto.
                ** right. right. split; auto.
          -- destruct B as [B|B]; [|congruence]. cbn [In]. rewrite IHU. split.
             ++ intros [E|[[I0 ->]|(B1 & B2 & B3)]]; [inversion E; subst; auto|auto|].
                right. split; auto. split; auto. intros [E|I1]; auto. subst k.
                destruct B1 as [E|B1].
                ** inversion E; subst. eapply kbefore_irrefl; eauto.
                ** apply FD in B1. cbn in B1. eapply kbefore_irrefl. eapply kbefore_trans; eauto.
             ++ intros [[[E|I0] ->]|(B1 & B2 & B3)]; auto.
                ** subst; auto.
                ** right. right. split; auto.
        * apply ubefore_false in B. cbn [In]. rewrite (IHD _ SU0 DJ). cbn [In]. split.
          -- intros [E|[A|(B1 & B2 & B3)]]; auto. inversion E; subst. right. split; auto. split; auto.
             intros [E'|I1].
             ++ subst. eapply kbefore_irrefl; eauto.
             ++ apply FU in I1. eapply kbefore_irrefl. eapply kbefore_trans; eauto.
          -- intros [A|([E|B1] & B2 & B3)]; auto.
  Qed.

  Lemma merge_Forall x D U :
    dsorted asc D -> ksorted asc U -> disj U ->
    Forall (fun p => kbefore asc x (fst p)) D -> Forall (kbefore asc x) U ->
    Forall (fun p => kbefore asc x (fst p)) (merge D U).
  Proof.
    intros SD SU DJ FD FU. apply Forall_forall. intros [k v] I0.
    apply (merge_In D SD U SU DJ) in I0. rewrite Forall_forall in FD, FU.
    destruct I0 as [[I0 _]|(I0 & _)]; [apply FU, I0|apply (FD _ I0)].
  Qed.

  Lemma merge_dsorted : forall D, dsorted asc D -> forall U, ksorted asc U -> disj U ->
    dsorted asc (merge D U).
  Proof.
    induction D as [|[dk dv] D' IHD]; intros SD.
    - intros U SU _. rewrite merge_nil. induction U as [|uk U IH]; [exact I|].
      cbn [ksorted] in SU. destruct SU as [FU SU]. cbn [map dsorted]. split; auto.
      apply Forall_forall. intros p Ip. apply in_map_iff in Ip. destruct Ip as (x & <- & Ix).
      rewrite Forall_forall in FU. apply FU, Ix.
    - pose proof SD as SD0. cbn [dsorted] in SD. destruct SD as [FD SD'].
      specialize (IHD SD').
      induction U as [|uk U' IHU]; intros SU DJ; rewrite merge_cons;
        destruct (in_rms dk rms) eqn:R; auto.
      + cbn [dsorted]. split; auto. apply merge_Forall; auto.
      + pose proof SU as SU0. cbn [ksorted] in SU. destruct SU as [FU SU'].
        assert (DJ' : disj U') by (intros x Ix; apply DJ; right; exact Ix).
        specialize (IHU SU' DJ').
        destruct (ubefore uk dk) eqn:B.
        * apply ubefore_true in B. destruct (beq dk uk) eqn:Q; btests.
          -- subst uk. cbn [dsorted]. split; auto. apply merge_Forall; auto.
          -- destruct B as [B|B]; [|congruence]. cbn [dsorted]. split; auto.
             apply merge_Forall; auto. constructor; [exact B|].
             eapply Forall_impl; [|exact FD]. cbn. intros p Hp. eapply kbefore_trans; eauto.
        * apply ubefore_false in B. cbn [dsorted]. split; auto.
          apply merge_Forall; auto. constructor; [exact B|].
          eapply Forall_impl; [|exact FU]. intros p Hp. eapply kbefore_trans; eauto.
  Qed.
End Merge.

(** ** the state machine follows [merge] *)
Definition bounds_ok (start stop : option bytes) : bool :=
  match start, stop with
  | Some s, Some e => match bcmp e s with Gt => true | _ => false end
  | _, _ => true
  end.

Lemma bounds_bad_range start stop k : bounds_ok start stop = false -> in_range start stop false k = false.
Proof.
  unfold bounds_ok, in_range. destruct start as [s|]; [|discriminate]. destruct stop as [e|]; [|discriminate].
  intros B. destruct (ble s k) eqn:L; [|reflexivity]. cbn [andb]. btests.
  apply blt_false. bcases e s; try discriminate; border.
Qed.

Lemma unsaved_key_false k : unsaved_key false k = Some k.
Proof. destruct k; reflexivity. Qed.

Section UF.
  Variables (start stop : option bytes) (asc : bool) (adds : kvs) (rms : list bytes).
  Notation mrg := (merge asc adds rms).

  Definition uf_at (it : ufiter) (D : kvit) (U : list bytes) : Prop :=
    fi_pos (uf_fast it) D /\ uf_todo it = U /\ uf_ndb_nil it = false /\ uf_adds it = adds /\
    uf_rms it = rms /\ uf_asc it = asc /\ uf_nilk it = false /\
    uf_start it = start /\ uf_stop it = stop.

  Lemma uf_at_set it D U k v fast' D' U' :
    uf_at it D U -> fi_pos fast' D' -> uf_at (uf_set it k v fast' U') D' U'.
  Proof.
    intros (_ & _ & A & B & C & E & F & G & H) P. unfold uf_at, uf_set.
    cbn [uf_fast uf_todo uf_ndb_nil uf_adds uf_rms uf_asc uf_nilk uf_start uf_stop]. auto 10.
  Qed.

  Definition known (U : list bytes) : Prop := forall uk, In uk U -> assoc uk adds <> None.

  Lemma aval_assoc uk uv : assoc uk adds = Some uv -> aval adds uk = uv.
  Proof. unfold aval. intros ->. reflexivity. Qed.

  Lemma uf_next_spec fuel : forall D U it,
    (length D < fuel)%nat -> uf_at it D U -> known U ->
    exists it', uf_next fuel it = UOk it' /\
      match mrg D U with
      | [] => uf_next_key it' = None /\ uf_next_val it' = None /\ uf_at it' [] []
      | (k, v) :: rest =>
          uf_next_key it' = Some k /\ uf_next_val it' = Some v /\
          exists D' U', uf_at it' D' U' /\ mrg D' U' = rest /\ known U' /\
            (length D' + length U' < length D + length U)%nat /\ (length D' <= length D)%nat
      end.
  Proof.
    induction fuel as [|f IH]; intros D U it Hf AT KN; [lia|].
    pose proof AT as (P & T & NN & AD & RM & AS & NK & ST & SP).
    cbn [uf_next]. rewrite NN, T, AD, RM, AS, NK. rewrite (fi_pos_valid _ _ P).
    destruct D as [|[dk dv] D'].
    - (* disk exhausted *)
      cbn [kv_valid]. destruct U as [|uk U'].
      + eexists. split; [reflexivity|]. rewrite merge_nil. cbn [map].
        cbn [uf_set uf_next_key uf_next_val]. split; auto. split; auto.
        eapply uf_at_set; eauto.
      + destruct (assoc uk adds) as [uv|] eqn:A; [|exfalso; apply (KN uk); [left; reflexivity|exact A]].
        eexists. split; [reflexivity|]. rewrite merge_nil. cbn [map].
        rewrite (aval_assoc uk uv A), unsaved_key_false.
        cbn [uf_set uf_next_key uf_next_val]. split; auto. split; auto.
        exists [], U'. split; [eapply uf_at_set; eauto|]. split; [reflexivity|].
        split; [intros x Ix; apply KN; right; exact Ix|]. cbn [length]. lia.
    - cbn [kv_valid]. destruct (fi_pos_key _ dk dv D' P) as [FK FV]. rewrite FK, FV. cbn [ob].
      destruct (fi_next_pos _ (dk, dv) D' P) as (fast' & FN & P').
      rewrite merge_cons.
      destruct (in_rms dk rms) eqn:R.
      + (* removed disk entry: skip and recurse *)
        assert (Hf' : (length D' < f)%nat) by (cbn [length] in Hf; lia).
        assert (AT' : uf_at (uf_set it (uf_next_key it) (uf_next_val it) fast' U) D' U)
          by (eapply uf_at_set; eauto).
        destruct (IH D' U _ Hf' AT' KN) as (it' & E & M).
        exists it'. split.
        { destruct U as [|uk U']; rewrite FN; exact E. }
        destruct (mrg D' U) as [|[k v] rest]; [exact M|].
        destruct M as (K & V & D'' & U'' & A1 & A2 & A3 & A4 & A5).
        split; auto. split; auto. exists D'', U''.
        split; [exact A1|]. split; [exact A2|]. split; [exact A3|]. cbn [length]. lia.
      + destruct U as [|uk U'].
        * rewrite FN. eexists. split; [reflexivity|].
          cbn [uf_set uf_next_key uf_next_val]. split; auto. split; auto.
          exists D', []. split; [eapply uf_at_set; eauto|]. split; [reflexivity|].
          split; [exact KN|]. cbn [length]. lia.
        * destruct (assoc uk adds) as [uv|] eqn:A; [|exfalso; apply (KN uk); [left; reflexivity|exact A]].
          assert (KN' : known U') by (intros x Ix; apply KN; right; exact Ix).
          change (if asc then ble uk dk else ble dk uk) with (ubefore asc uk dk).
          destruct (ubefore asc uk dk) eqn:B.
          -- rewrite (aval_assoc uk uv A), unsaved_key_false. destruct (beq dk uk) eqn:Q.
             ++ rewrite FN. eexists. split; [reflexivity|].
                cbn [uf_set uf_next_key uf_next_val]. split; auto. split; auto.
                exists D', U'. split; [eapply uf_at_set; eauto|]. split; [reflexivity|].
                split; [exact KN'|]. cbn [length]. lia.
             ++ eexists. split; [reflexivity|].
                cbn [uf_set uf_next_key uf_next_val]. split; auto. split; auto.
                exists ((dk, dv) :: D'), U'. split; [eapply uf_at_set; eauto|]. split; [reflexivity|].
                split; [exact KN'|]. cbn [length]. lia.
          -- rewrite FN. eexists. split; [reflexivity|].
             cbn [uf_set uf_next_key uf_next_val]. split; auto. split; auto.
             exists D', (uk :: U'). split; [eapply uf_at_set; eauto|]. split; [reflexivity|].
             split; [exact KN|]. cbn [length]. lia.
  Qed.
End UF.

Section UFLoop.
  Variables (start stop : option bytes) (asc : bool) (adds : kvs) (rms : list bytes).
  Notation mrg := (merge asc adds rms).
  Notation at_ := (uf_at start stop asc adds rms).

  Lemma uf_valid_current it D U k v :
    bounds_ok start stop = true -> at_ it D U ->
    uf_next_key it = Some k -> uf_next_val it = Some v -> uf_valid it = true.
  Proof.
    intros B (_ & _ & _ & _ & _ & _ & _ & ST & SP) K V. unfold uf_valid.
    change (match uf_start it, uf_stop it with
            | Some s, Some e => match bcmp e s with Gt => true | _ => false end
            | _, _ => true end) with (bounds_ok (uf_start it) (uf_stop it)).
    rewrite ST, SP, B, K, V. cbn [andb]. apply orb_true_r.
  Qed.

  Lemma uf_valid_end it :
    at_ it [] [] -> uf_next_key it = None -> uf_valid it = false.
  Proof.
    intros (P & T & _) K. unfold uf_valid. rewrite (fi_pos_valid _ _ P), T, K. cbn. apply andb_false_r.
  Qed.

  Lemma uf_loop_spec fuel fn n : forall D U it k v,
    bounds_ok start stop = true -> at_ it D U -> known adds U ->
    uf_next_key it = Some k -> uf_next_val it = Some v ->
    (length D < fuel)%nat -> (length D + length U + 1 < n)%nat ->
    uf_loop n fuel fn it = Some (upto fn ((k, v) :: mrg D U)).
  Proof.
    induction n as [|n IH]; intros D U it k v B AT KN K V Hf Hn; [lia|].
    cbn [uf_loop]. rewrite (uf_valid_current it D U k v B AT K V), K, V. cbn [ob upto].
    destruct (fn (k, v)); [reflexivity|].
    destruct (uf_next_spec start stop asc adds rms fuel D U it Hf AT KN) as (it' & E & M). rewrite E.
    destruct (mrg D U) as [|[k' v'] rest].
    - destruct M as (K' & _ & AT'). destruct n as [|n]; [lia|]. cbn [uf_loop].
      rewrite (uf_valid_end it' AT' K'). reflexivity.
    - destruct M as (K' & V' & D' & U' & AT' & MR & KN' & L1 & L2).
      rewrite (IH D' U' it' k' v'); auto; try lia.
      rewrite MR. destruct (upto fn ((k', v') :: rest)); reflexivity.
  Qed.
End UFLoop.

Lemma filter_length_le {A} (f : A -> bool) l : (length (filter f l) <= length l)%nat.
Proof. induction l as [|x l IH]; cbn [filter length]; [lia|]. destruct (f x); cbn [length]; lia. Qed.

Lemma range_spec_length l start stop incl asc : (length (range_spec l start stop incl asc) <= length l)%nat.
Proof. unfold range_spec. destruct asc; rewrite ?rev_length; apply filter_length_le. Qed.

(** the initial positions of the two cursors *)
Definition uf_D0 (idx : kvs) (start stop : option bytes) (asc : bool) : kvit := kv_scan idx start stop asc.
Definition uf_U0 (adds : kvs) (start stop : option bytes) (asc : bool) : list bytes :=
  sort_keys asc (filter (uf_keep start stop) (map fst adds)).

Lemma uf_U0_In adds start stop asc k :
  In k (uf_U0 adds start stop asc) <-> In k (map fst adds) /\ in_range start stop false k = true.
Proof. unfold uf_U0. rewrite sort_keys_In, filter_In, uf_keep_in_range. reflexivity. Qed.

Lemma uf_iterate_merge idx adds rms start stop asc fn :
  sorted idx ->
  uf_iterate idx adds rms start stop asc false fn =
  Some (upto fn (merge asc adds rms (uf_D0 idx start stop asc) (uf_U0 adds start stop asc))).
Proof.
  intros S. unfold uf_iterate, uf_new. cbv zeta.
  set (fast := fi_new start stop asc (Some idx)).
  set (U0 := uf_U0 adds start stop asc). set (D0 := uf_D0 idx start stop asc).
  change (sort_keys asc (filter (uf_keep start stop) (map fst adds))) with U0.
  match goal with |- context [uf_next _ ?i] => set (it0 := i) end.
  assert (AT : uf_at start stop asc adds rms it0 D0 U0).
  { unfold uf_at, it0, uf_set. cbn [uf_fast uf_todo uf_ndb_nil uf_adds uf_rms uf_asc uf_nilk uf_start uf_stop].
    split; [apply fi_new_pos|]. repeat split; reflexivity. }
  assert (KN : known adds U0).
  { intros uk Iu. apply uf_U0_In in Iu. apply assoc_In_keys. tauto. }
  assert (LD : (length D0 <= length idx)%nat).
  { unfold D0, uf_D0. rewrite kv_scan_spec by exact S. apply range_spec_length. }
  assert (LU : (length U0 <= length adds)%nat).
  { unfold U0, uf_U0. rewrite sort_keys_length. etransitivity; [apply filter_length_le|]. rewrite map_length. lia. }
  assert (Hf : (length D0 < uf_fuel idx adds)%nat) by (unfold uf_fuel; lia).
  destruct (uf_next_spec start stop asc adds rms _ D0 U0 it0 Hf AT KN) as (it' & E & M). rewrite E.
  destruct (merge asc adds rms D0 U0) as [|[k v] rest] eqn:MG.
  - destruct M as (K & _ & AT'). unfold uf_fuel at 1. rewrite Nat.add_comm. cbn [Nat.add uf_loop].
    rewrite (uf_valid_end start stop asc adds rms it' AT' K). reflexivity.
  - destruct M as (K & V & D' & U' & AT' & MR & KN' & L1 & L2).
    destruct (bounds_ok start stop) eqn:B.
    + rewrite (uf_loop_spec start stop asc adds rms _ fn _ D' U' it' k v); auto; try (unfold uf_fuel; lia).
      rewrite MR. reflexivity.
    + exfalso.
      assert (D0 = []).
      { unfold D0, uf_D0. rewrite kv_scan_spec by exact S. unfold range_spec.
        rewrite filter_none; [destruct asc; reflexivity|]. intros x. apply bounds_bad_range, B. }
      assert (U0 = []).
      { unfold U0, uf_U0. rewrite filter_none; [reflexivity|]. intros x. rewrite uf_keep_in_range.
        apply bounds_bad_range, B. }
      rewrite H, H0 in MG. discriminate.
Qed.

(** ** Result 4: the merge is the range selection of the overlaid state *)
Lemma merge_overlay idx adds rms start stop asc :
  sorted idx -> NoDup (map fst adds) -> (forall k, In k rms -> ~ In k (map fst adds)) ->
  merge asc adds rms (uf_D0 idx start stop asc) (uf_U0 adds start stop asc) =
  range_spec (apply_overlay idx adds rms) start stop false asc.
Proof.
  intros S ND DJ.
  destruct (apply_overlay_spec idx adds rms S ND) as [SO IO].
  assert (SD : dsorted asc (uf_D0 idx start stop asc)).
  { unfold uf_D0. rewrite kv_scan_spec by exact S. apply range_spec_dsorted, S. }
  assert (SU : ksorted asc (uf_U0 adds start stop asc)).
  { unfold uf_U0. apply sort_keys_sorted. apply NoDup_filter, ND. }
  assert (DU : disj rms (uf_U0 adds start stop asc)).
  { intros k Ik Ir. apply uf_U0_In in Ik. apply (DJ k Ir). tauto. }
  apply (dsorted_ext asc).
  - apply merge_dsorted; auto.
  - apply range_spec_dsorted, SO.
  - intros [k v]. rewrite (merge_In asc adds rms _ SD _ SU DU), range_spec_In, IO.
    unfold uf_D0. rewrite kv_scan_spec by exact S. rewrite range_spec_In, uf_U0_In. cbn [fst].
    rewrite <- (aval_In adds k v ND). split.
    + intros [[[I1 I2] E]|[[I1 I2] [I3 I4]]]; split; auto.
      right. split; [|auto]. intro I5. apply I4. auto.
    + intros [[[I1 E]|[I1 [I2 I3]]] I4]; [left; auto|].
      right. split; auto. split; auto. intros [I5 _]. auto.
Qed.

Theorem uf_iterate_spec idx adds rms start stop asc fn :
  sorted idx -> NoDup (map fst adds) -> (forall k, In k rms -> ~ In k (map fst adds)) ->
  uf_iterate idx adds rms start stop asc false fn =
  Some (upto fn (range_spec (apply_overlay idx adds rms) start stop false asc)).
Proof.
  intros S ND DJ. rewrite uf_iterate_merge by exact S. rewrite merge_overlay by assumption. reflexivity.
Qed.

Theorem unsaved_iter_spec idx adds rms start stop asc :
  sorted idx -> NoDup (map fst adds) -> (forall k, In k rms -> ~ In k (map fst adds)) ->
  uf_collect idx adds rms start stop asc false =
  Some (range_spec (apply_overlay idx adds rms) start stop false asc).
Proof.
  intros S ND DJ. unfold uf_collect. rewrite uf_iterate_spec by assumption.
  rewrite upto_false. reflexivity.
Qed.

(** The same statement FAILS when the unsaved addition under the empty key holds a nil key slice
    (MutableTree.Set(nil, v)): Valid() tests [nextKey != nil], so that entry ends the iteration
    when it is the last one delivered (always in descending order). *)
Theorem unsaved_iter_nil_key_refuted :
  exists idx adds rms start stop asc,
    sorted idx /\ NoDup (map fst adds) /\ (forall k, In k rms -> ~ In k (map fst adds)) /\
    uf_collect idx adds rms start stop asc true <>
    Some (range_spec (apply_overlay idx adds rms) start stop false asc).
Proof.
  exists [([1%N], [1%N])], [([], [7%N])], [], None, None, false.
  split; [cbn; auto|]. split; [repeat constructor; cbn; tauto|]. split; [intros k []|].
  vm_compute. discriminate.
Qed.

(** ** Result 6 for MutableTree.Iterate with the fast index *)
Theorem mut_iterate_spec t idx adds rms fn :
  sorted idx -> NoDup (map fst adds) -> (forall k, In k rms -> ~ In k (map fst adds)) ->
  mut_iterate (Some t) idx adds rms false fn = Some (upto fn (apply_overlay idx adds rms)).
Proof.
  intros S ND DJ. unfold mut_iterate. rewrite uf_iterate_spec by assumption.
  rewrite range_spec_all. reflexivity.
Qed.

(** ** Result 5 *)
Theorem three_iterators_agree tc tw adds rms start stop asc :
  wf tc -> wf tw -> NoDup (map fst adds) -> (forall k, In k rms -> ~ In k (map fst adds)) ->
  elems tw = apply_overlay (elems tc) adds rms ->
  iter_tree tw start stop false asc = uf_collect (elems tc) adds rms start stop asc false /\
  it_collect_tree tw start stop asc = uf_collect (elems tc) adds rms start stop asc false /\
  fast_collect (elems tc) start stop asc = iter_tree tc start stop false asc.
Proof.
  intros Wc Ww ND DJ E. pose proof (wf_sorted tc Wc) as S.
  rewrite (iter_tree_spec tw), (iter_tree_spec tc), it_collect_spec, unsaved_iter_spec, fast_iter_spec by assumption.
  rewrite E. auto.
Qed.

(** ** Result 7 *)
Theorem iter_tree_monotone t start stop incl asc l :
  wf t -> iter_tree t start stop incl asc = Some l -> dsorted asc l /\ NoDup (map fst l).
Proof.
  intros W E. rewrite iter_tree_spec in E by exact W. inversion E; subst.
  pose proof (range_spec_dsorted (elems t) start stop incl asc (wf_sorted t W)) as D.
  split; [exact D|eapply dsorted_NoDup; exact D].
Qed.

Theorem uf_collect_monotone idx adds rms start stop asc l :
  sorted idx -> NoDup (map fst adds) -> (forall k, In k rms -> ~ In k (map fst adds)) ->
  uf_collect idx adds rms start stop asc false = Some l -> dsorted asc l /\ NoDup (map fst l).
Proof.
  intros S ND DJ E. rewrite unsaved_iter_spec in E by assumption. inversion E; subst.
  destruct (apply_overlay_spec idx adds rms S ND) as [SO _].
  pose proof (range_spec_dsorted _ start stop false asc SO) as D.
  split; [exact D|eapply dsorted_NoDup; exact D].
Qed.

Theorem fast_collect_monotone idx start stop asc l :
  sorted idx -> fast_collect idx start stop asc = Some l -> dsorted asc l /\ NoDup (map fst l).
Proof.
  intros S E. rewrite fast_iter_spec in E by assumption. inversion E; subst.
  pose proof (range_spec_dsorted idx start stop false asc S) as D.
  split; [exact D|eapply dsorted_NoDup; exact D].
Qed.

(** an exhausted unsaved iterator stays invalid under further Next() calls (no panic: the
    backing iterator is only advanced while it is valid) *)
Theorem uf_invalid_stable start stop asc adds rms fuel it :
  uf_at start stop asc adds rms it [] [] ->
  exists it', uf_next (S fuel) it = UOk it' /\ uf_at start stop asc adds rms it' [] [] /\
              uf_next_key it' = None /\ uf_valid it' = false.
Proof.
  intros AT.
  destruct (uf_next_spec start stop asc adds rms (S fuel) [] [] it) as (it' & E & M); auto.
  { cbn. lia. } { intros x []. }
  rewrite merge_nil in M. cbn [map] in M. destruct M as (K & _ & AT').
  exists it'. split; [exact E|]. split; [exact AT'|]. split; [exact K|]. eapply uf_valid_end; eauto.
Qed.

(** empty trees *)
Lemma iterate_range_nil start stop asc incl fn : iterate_range None start stop asc incl fn = Some ([], false).
Proof. reflexivity. Qed.
Lemma imm_iterate_nil fn : imm_iterate None fn = Some ([], false).
Proof. reflexivity. Qed.
Lemma mut_iterate_nil idx adds rms nilk fn : mut_iterate None idx adds rms nilk fn = Some ([], false).
Proof. reflexivity. Qed.
