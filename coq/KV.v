(** KV.v -- executable models of the key-value backends of /repo/db (property C18).

    - spec: a sorted association list ([VMap.kvs]) with point operations and range iterators;
    - [cpIncr] (prefixdb.go) exactly as coded;
    - MemDB (memdb.go): the google/btree API abstracted as list functions on the sorted list,
      the [switch] of [newMemDBIteratorMtxChoice] and its visitor ([skipEqual]/[abortLessThan]);
    - GoLevelDB (goleveldb.go): goleveldb's [dbIter] as a cursor over the (range-restricted)
      sorted list, the adapter [goLevelDBIterator] (constructor, [Valid], [Next], [Key]);
    - PrefixDB (prefixdb.go) as a wrapper of an arbitrary underlying store step function;
    - batches ([memDBBatch] / [goLevelDBBatch] / [prefixDBBatch]);
    - step functions [kv_step] (spec), [mem_step], [ldb_step], [prefix_step] with one output type.

    Go [nil] vs. non-nil slices: at the API boundary a possibly-nil slice is an [option bytes]
    ([None] = nil).  Keys of point operations are plain [bytes] (Go only tests [len(key) == 0]). *)
From IAVL Require Import Bytes VMap.

(** * (a) Specification *)

Definition kv_get (m : kvs) (k : bytes) : option bytes := assoc k m.
Definition kv_has (m : kvs) (k : bytes) : bool := mem k m.
Definition kv_set (m : kvs) (k v : bytes) : kvs := ins k v m.
Definition kv_delete (m : kvs) (k : bytes) : kvs := del k m.

(** [start <= k < stop], [None] = open bound *)
Definition in_range (start stop : option bytes) (k : bytes) : bool :=
  (match start with None => true | Some s => ble s k end) &&
  (match stop with None => true | Some e => blt k e end).

Definition kv_iter (m : kvs) (start stop : option bytes) : kvs :=
  filter (fun e => in_range start stop (fst e)) m.
Definition kv_riter (m : kvs) (start stop : option bytes) : kvs :=
  rev (kv_iter m start stop).

(** Error kinds (types.go: errKeyEmpty, errValueNil, errBatchClosed; goleveldb.go / prefixdb.go use
    different message texts for the same three kinds: "key is empty", "value is nil",
    "batch is nil"). *)
Inductive kverr := ErrKeyEmpty | ErrValueNil | ErrBatchClosed.

(** One output type for all models. [OPanic]: the Go code panics (cpIncr on an empty prefix,
    Key() on an invalid iterator). [OFuel]: a model loop ran out of fuel (never happens, see
    KVFacts). [OBatch]: the error results of the successive calls of a batch program. *)
Inductive kvout :=
| OErr (e : kverr)
| OPanic
| OFuel
| OOk
| OBytes (v : option bytes)
| OBool (b : bool)
| OPairs (l : kvs)
| OBatch (rs : list (option kverr)).

(** batch program operation: [(true, k, v)] = [Set k v], [(false, k, _)] = [Delete k] *)
Definition bop := (bool * bytes * option bytes)%type.

(** [KBatch ops1 write ops2]: [b := NewBatch()]; issue [ops1]; then [b.Write()] if [write] else
    [b.Close()]; issue [ops2] on the same (now closed) batch; finally [b.Write()] again.
    Output: the error result of every call, in order. *)
Inductive kvop :=
| KGet (k : bytes)
| KHas (k : bytes)
| KSet (k : bytes) (v : option bytes)
| KDelete (k : bytes)
| KIter (start stop : option bytes)
| KRIter (start stop : option bytes)
| KBatch (ops1 : list bop) (write : bool) (ops2 : list bop).

Definition is_nil (o : option bytes) : bool := match o with None => true | Some _ => false end.
(** [start != nil && len(start) == 0] *)
Definition bad_bound (o : option bytes) : bool := match o with Some [] => true | _ => false end.
(** the key of [newKey(x)] / the slice appended by [append(_, x...)]: nil behaves as empty *)
Definition key_of (o : option bytes) : bytes := match o with None => [] | Some k => k end.
Definition is_empty (k : bytes) : bool := match k with [] => true | _ => false end.

(** * (f) Batches (memDBBatch; goLevelDBBatch has the same checks in the same order) *)

Inductive batch_op := BSet (k v : bytes) | BDel (k : bytes).
(** Go: [closed] <-> [b.ops == nil] (resp. [b.batch == nil]); a new batch has a non-nil empty list *)
Record batch := mkBatch { b_ops : list batch_op; b_closed : bool }.
Definition b_new : batch := mkBatch [] false.

Definition b_set (b : batch) (k : bytes) (v : option bytes) : batch * option kverr :=
  if is_empty k then (b, Some ErrKeyEmpty) else
  match v with
  | None => (b, Some ErrValueNil)
  | Some v' =>
      if b_closed b then (b, Some ErrBatchClosed)
      else (mkBatch (b_ops b ++ [BSet k v']) false, None)
  end.

Definition b_delete (b : batch) (k : bytes) : batch * option kverr :=
  if is_empty k then (b, Some ErrKeyEmpty) else
  if b_closed b then (b, Some ErrBatchClosed)
  else (mkBatch (b_ops b ++ [BDel k]) false, None).

Definition apply_op (m : kvs) (o : batch_op) : kvs :=
  match o with BSet k v => ins k v m | BDel k => del k m end.

(** [Close]: ops = nil, size = 0, never fails *)
Definition b_close (b : batch) : batch * option kverr := (mkBatch [] true, None).

(** [Write]: error on a closed batch; otherwise all operations are applied in order under one
    lock (one model step), then [Close()] *)
Definition b_write (b : batch) (m : kvs) : batch * kvs * option kverr :=
  if b_closed b then (b, m, Some ErrBatchClosed)
  else (fst (b_close b), fold_left apply_op (b_ops b) m, None).

(** [GetByteSize] of memDBBatch: sum of len(key)+len(value) of the accepted operations *)
Definition op_size (o : batch_op) : Z :=
  match o with
  | BSet k v => Z.of_nat (length k) + Z.of_nat (length v)
  | BDel k => Z.of_nat (length k)
  end%Z.
Definition b_byte_size (b : batch) : option Z :=
  if b_closed b then None else Some (fold_left (fun a o => a + op_size o)%Z (b_ops b) 0%Z).

(** prefixDBBatch: own checks, then the source batch with the prefixed key *)
Definition pb_set (p : bytes) (b : batch) (k : bytes) (v : option bytes) : batch * option kverr :=
  if is_empty k then (b, Some ErrKeyEmpty) else
  match v with
  | None => (b, Some ErrValueNil)
  | Some _ => b_set b (p ++ k) v
  end.
Definition pb_delete (p : bytes) (b : batch) (k : bytes) : batch * option kverr :=
  if is_empty k then (b, Some ErrKeyEmpty) else b_delete b (p ++ k).

Fixpoint run_bops (fset : batch -> bytes -> option bytes -> batch * option kverr)
                  (fdel : batch -> bytes -> batch * option kverr)
                  (b : batch) (ops : list bop) : batch * list (option kverr) :=
  match ops with
  | [] => (b, [])
  | (is_set, k, v) :: rest =>
      let (b', r) := if (is_set : bool) then fset b k v else fdel b k in
      let (b'', rs) := run_bops fset fdel b' rest in
      (b'', r :: rs)
  end.

Definition batch_prog (fset : batch -> bytes -> option bytes -> batch * option kverr)
                      (fdel : batch -> bytes -> batch * option kverr)
                      (m : kvs) (ops1 : list bop) (write : bool) (ops2 : list bop) : kvs * kvout :=
  let (b1, r1) := run_bops fset fdel b_new ops1 in
  let '(b2, m2, rw) := if write then b_write b1 m
                       else (fst (b_close b1), m, snd (b_close b1)) in
  let (b3, r2) := run_bops fset fdel b2 ops2 in
  let '(_, m4, rw2) := b_write b3 m2 in
  (m4, OBatch (r1 ++ [rw] ++ r2 ++ [rw2])).

(** * Spec step *)

Definition kv_step (m : kvs) (op : kvop) : kvs * kvout :=
  match op with
  | KGet k => if is_empty k then (m, OErr ErrKeyEmpty) else (m, OBytes (kv_get m k))
  | KHas k => if is_empty k then (m, OErr ErrKeyEmpty) else (m, OBool (kv_has m k))
  | KSet k v =>
      if is_empty k then (m, OErr ErrKeyEmpty) else
      match v with
      | None => (m, OErr ErrValueNil)
      | Some v' => (kv_set m k v', OOk)
      end
  | KDelete k => if is_empty k then (m, OErr ErrKeyEmpty) else (kv_delete m k, OOk)
  | KIter a b =>
      if bad_bound a || bad_bound b then (m, OErr ErrKeyEmpty) else (m, OPairs (kv_iter m a b))
  | KRIter a b =>
      if bad_bound a || bad_bound b then (m, OErr ErrKeyEmpty) else (m, OPairs (kv_riter m a b))
  | KBatch ops1 w ops2 => batch_prog b_set b_delete m ops1 w ops2
  end.

(** * (b) cpIncr (prefixdb.go) *)

(** The loop [for i := len-1; i >= 0; i--] on the reversed slice: a byte < 0xFF is incremented
    and the function returns [ret[:i+1]], i.e. the slice WITHOUT the tail of bytes already set to
    0x00 (fix 179067f; before it the zeroed tail was kept); a 0xFF byte is set to 0x00 -- which
    is therefore never observable -- and the loop continues; running off the front is the
    overflow ([nil]). *)
Fixpoint incr_le (l : bytes) : option bytes :=
  match l with
  | [] => None
  | x :: r =>
      if (x <? 255)%N then Some ((x + 1)%N :: r)
      else incr_le r
  end.

(** [cpIncr bz] for [len(bz) > 0]; Go panics on an empty slice, see [cpIncr_panics]. *)
Definition cpIncr (bz : bytes) : option bytes := option_map (@rev N) (incr_le (rev bz)).
Definition cpIncr_panics (bz : bytes) : bool := is_empty bz.

(** * (c) MemDB iterators *)

(** google/btree on [item.Less] = [bytes.Compare(..) == -1], abstracted on the sorted list *)
Definition bt_ascend (l : kvs) : kvs := l.
Definition bt_descend (l : kvs) : kvs := rev l.
Definition bt_ascend_ge (l : kvs) (a : bytes) : kvs := filter (fun e => ble a (fst e)) l.
Definition bt_ascend_lt (l : kvs) (b : bytes) : kvs := filter (fun e => blt (fst e) b) l.
Definition bt_ascend_range (l : kvs) (a b : bytes) : kvs :=
  filter (fun e => ble a (fst e) && blt (fst e) b) l.
Definition bt_descend_le (l : kvs) (pivot : bytes) : kvs :=
  rev (filter (fun e => ble (fst e) pivot) l).

(** the visitor closure run over the sequence the btree traversal offers; returning [false]
    (abort) ends the traversal *)
Fixpoint visit (seq : kvs) (skipEqual abortLessThan : option bytes) : kvs :=
  match seq with
  | [] => []
  | (k, v) :: rest =>
      if (match skipEqual with Some s => beq k s | None => false end)
      then visit rest None abortLessThan
      else if (match abortLessThan with Some a => blt k a | None => false end)
      then []
      else (k, v) :: visit rest skipEqual abortLessThan
  end.

(** the [switch] of newMemDBIteratorMtxChoice, cases in source order *)
Definition memdb_iter (l : kvs) (start stop : option bytes) (reverse : bool) : kvs :=
  if is_nil start && is_nil stop && negb reverse then visit (bt_ascend l) None None
  else if is_nil start && is_nil stop && reverse then visit (bt_descend l) None None
  else if is_nil stop && negb reverse then visit (bt_ascend_ge l (key_of start)) None None
  else if negb reverse then visit (bt_ascend_range l (key_of start) (key_of stop)) None None
  else if is_nil stop then visit (bt_descend l) None start
  else visit (bt_descend_le l (key_of stop)) stop start.

Definition mem_step (m : kvs) (op : kvop) : kvs * kvout :=
  match op with
  | KIter a b =>
      if bad_bound a || bad_bound b then (m, OErr ErrKeyEmpty)
      else (m, OPairs (memdb_iter m a b false))
  | KRIter a b =>
      if bad_bound a || bad_bound b then (m, OErr ErrKeyEmpty)
      else (m, OPairs (memdb_iter m a b true))
  | _ => kv_step m op     (* btree Get/Has/ReplaceOrInsert/Delete = assoc/mem/ins/del *)
  end.

(** * (d) GoLevelDB iterator adapter *)

(** goleveldb's dbIter over the source sequence [s]: before-first (dirSOI), at an entry (a zipper:
    the entries before it, nearest first; the entry; the entries after it), after-last (dirEOI).
    The index of the position is [length bef]. *)
Inductive lcur :=
| LSOI
| LAt (bef : kvs) (cur : bytes * bytes) (aft : kvs)
| LEOI.

Definition l_first (s : kvs) : lcur :=
  match s with [] => LEOI | x :: r => LAt [] x r end.
Definition l_last (s : kvs) : lcur :=
  match rev s with [] => LSOI | x :: r => LAt r x [] end.
Fixpoint l_seek_from (bef s : kvs) (k : bytes) : lcur :=
  match s with
  | [] => LEOI
  | x :: r => if ble k (fst x) then LAt bef x r else l_seek_from (x :: bef) r k
  end.
(** [Seek k]: the first entry with key >= k *)
Definition l_seek (s : kvs) (k : bytes) : lcur := l_seek_from [] s k.
Definition l_next (s : kvs) (c : lcur) : lcur :=
  match c with
  | LSOI => l_first s
  | LAt bef x [] => LEOI
  | LAt bef x (y :: aft) => LAt (x :: bef) y aft
  | LEOI => LEOI
  end.
Definition l_prev (s : kvs) (c : lcur) : lcur :=
  match c with
  | LSOI => LSOI
  | LAt [] x aft => LSOI
  | LAt (y :: bef) x aft => LAt bef y (x :: aft)
  | LEOI => l_last s
  end.
Definition l_valid (c : lcur) : bool := match c with LAt _ _ _ => true | _ => false end.
Definition l_key (c : lcur) : option (bytes * bytes) :=
  match c with LAt _ x _ => Some x | _ => None end.

(** newGoLevelDBIterator: positioning of the source *)
Definition ldb_new (s : kvs) (start stop : option bytes) (reverse : bool) : lcur :=
  if reverse then
    match stop with
    | None => l_last s
    | Some e =>
        let c := l_seek s e in
        if l_valid c then
          match l_key c with
          | Some (eoakey, _) => if ble e eoakey then l_prev s c else c
          | None => c
          end
        else l_last s
    end
  else
    match start with
    | None => l_first s
    | Some a => l_seek s a
    end.

(** [Valid()]: result and the new [isInvalid] flag (the source never errors in the model) *)
Definition ldb_valid (start stop : option bytes) (reverse : bool) (c : lcur) (inv : bool)
  : bool * bool :=
  if inv then (false, true) else
  match c with
  | LAt _ (key, _) _ =>
      if reverse then
        match start with
        | Some a => if blt key a then (false, true) else (true, false)
        | None => (true, false)
        end
      else
        match stop with
        | Some e => if ble e key then (false, true) else (true, false)
        | None => (true, false)
        end
  | _ => (false, true)
  end.

(** [for ; itr.Valid(); itr.Next() { emit (itr.Key(), itr.Value()) }] *)
Fixpoint ldb_loop (fuel : nat) (s : kvs) (start stop : option bytes) (reverse : bool)
                  (c : lcur) (inv : bool) : option kvs :=
  match fuel with
  | O => None
  | S f =>
      let (ok, inv') := ldb_valid start stop reverse c inv in
      if ok then
        match l_key c with
        | Some x =>
            option_map (cons x)
              (ldb_loop f s start stop reverse (if reverse then l_prev s c else l_next s c) inv')
        | None => None
        end
      else Some []
  end.

(** the adapter on an arbitrary source sequence [s] *)
Definition ldb_run (s : kvs) (start stop : option bytes) (reverse : bool) : option kvs :=
  ldb_loop (S (S (length s))) s start stop reverse (ldb_new s start stop reverse) false.

(** [db.db.NewIterator(&util.Range{Start: start, Limit: end}, nil)]: goleveldb restricts the
    source to [start <= k < end] (empty when the bounds are inverted), then the adapter runs *)
Definition ldb_collect (l : kvs) (start stop : option bytes) (reverse : bool) : option kvs :=
  ldb_run (kv_iter l start stop) start stop reverse.

Definition out_pairs (o : option kvs) : kvout :=
  match o with Some r => OPairs r | None => OFuel end.

Definition ldb_step (m : kvs) (op : kvop) : kvs * kvout :=
  match op with
  | KHas k => (m, OBool (kv_has m k))     (* GoLevelDB.Has has no empty-key check *)
  | KIter a b =>
      if bad_bound a || bad_bound b then (m, OErr ErrKeyEmpty)
      else (m, out_pairs (ldb_collect m a b false))
  | KRIter a b =>
      if bad_bound a || bad_bound b then (m, OErr ErrKeyEmpty)
      else (m, out_pairs (ldb_collect m a b true))
  | _ => kv_step m op
  end.

(** * (e) PrefixDB *)

Definition prefixed (p k : bytes) : bytes := p ++ k.
(** [key[len(prefix):]] *)
Definition strip (p k : bytes) : bytes := skipn (length p) k.

(** prefixDBIterator state: the remaining source sequence (head = current source position) and
    the [valid] flag.  ([err] is only set by a [Valid()] call that returns false; the loop below
    stops at the first such call, so it is not observable in the collected sequence.) *)
Definition pit_new (p : bytes) (src : kvs) : kvs * bool :=
  let src1 := match src with
              | (k, _) :: r => if beq k p then r else src
              | [] => src
              end in
  match src1 with
  | [] => (src1, false)
  | (k, _) :: _ => if is_prefix p k then (src1, true) else (src1, false)
  end.

Definition pit_valid (p : bytes) (st : kvs * bool) : bool :=
  if negb (snd st) then false else
  match fst st with
  | [] => false
  | (k, _) :: _ => is_prefix p k
  end.

(** [Next()] after [source.Next()] moved the source to [src] *)
Fixpoint pit_after_next (p : bytes) (src : kvs) : kvs * bool :=
  match src with
  | [] => ([], false)
  | (k, v) :: r =>
      if negb (is_prefix p k) then (src, false)
      else if beq k p then pit_after_next p r
      else (src, true)
  end.

Fixpoint pit_loop (fuel : nat) (p : bytes) (st : kvs * bool) : option kvs :=
  match fuel with
  | O => None
  | S f =>
      if pit_valid p st then
        match fst st with
        | (k, v) :: r => option_map (cons (strip p k, v)) (pit_loop f p (pit_after_next p r))
        | [] => None
        end
      else Some []
  end.

Definition pit_collect (p : bytes) (src : kvs) : option kvs :=
  pit_loop (S (length src)) p (pit_new p src).

Section Prefix.
  (** the wrapped store: any step function on the same state *)
  Variable under : kvs -> kvop -> kvs * kvout.
  Variable p : bytes.

  Definition pget (m : kvs) (k : bytes) : kvs * kvout :=
    if is_empty k then (m, OErr ErrKeyEmpty) else under m (KGet (prefixed p k)).
  Definition phas (m : kvs) (k : bytes) : kvs * kvout :=
    if is_empty k then (m, OErr ErrKeyEmpty) else under m (KHas (prefixed p k)).
  Definition pset (m : kvs) (k : bytes) (v : option bytes) : kvs * kvout :=
    if is_empty k then (m, OErr ErrKeyEmpty) else under m (KSet (prefixed p k) v).
  Definition pdelete (m : kvs) (k : bytes) : kvs * kvout :=
    if is_empty k then (m, OErr ErrKeyEmpty) else under m (KDelete (prefixed p k)).

  (** Iterator / ReverseIterator: [pstart = append(cp(prefix), start...)] is never nil;
      [pend = cpIncr(prefix)] (panics on an empty prefix) when [end == nil] *)
  Definition piter_gen (reverse : bool) (m : kvs) (start stop : option bytes) : kvs * kvout :=
    if bad_bound start || bad_bound stop then (m, OErr ErrKeyEmpty) else
    let pstart := Some (prefixed p (key_of start)) in
    match (match stop with
           | None => if cpIncr_panics p then None else Some (cpIncr p)
           | Some e => Some (Some (prefixed p e))
           end) with
    | None => (m, OPanic)
    | Some pend =>
        match under m (if reverse then KRIter pstart pend else KIter pstart pend) with
        | (m', OPairs src) => (m', out_pairs (pit_collect p src))
        | (m', o) => (m', o)
        end
    end.
  Definition piter := piter_gen false.
  Definition priter := piter_gen true.

  Definition prefix_step (m : kvs) (op : kvop) : kvs * kvout :=
    match op with
    | KGet k => pget m k
    | KHas k => phas m k
    | KSet k v => pset m k v
    | KDelete k => pdelete m k
    | KIter a b => piter m a b
    | KRIter a b => priter m a b
    | KBatch ops1 w ops2 => batch_prog (pb_set p) (pb_delete p) m ops1 w ops2
    end.
End Prefix.

(** run a program, collecting the outputs *)
Fixpoint kv_run (step : kvs -> kvop -> kvs * kvout) (m : kvs) (ops : list kvop) : kvs * list kvout :=
  match ops with
  | [] => (m, [])
  | op :: rest =>
      let (m', o) := step m op in
      let (m'', os) := kv_run step m' rest in
      (m'', o :: os)
  end.
