(** Executable model of iavl's on-disk encodings:
    - new-format nodes:   [Node.writeBytes] / [MakeNode]            (node.go)
    - legacy nodes:       [MakeLegacyNode] (+ the v0.x writer)       (node.go)
    - fast nodes:         [fastnode.WriteBytes] / [DeserializeNode]  (fastnode/fast_node.go)
    - node keys:          [NodeKey.GetKey] / [GetNodeKey] / [GetRootKey]
    - db keys:            the key formats at the top of nodedb.go (keyformat package)
    - root entries:       [GetRoot] / [isReferenceRoot] / [SaveRoot] / [SaveEmptyRoot]
    - storage version:    [SetFastStorageVersionToBatch] / [shouldForceFastStorageUpgrade]
    - size hints:         [Node.encodedSize], [fastnode.EncodedSize]

    Decoders return [dres]: [DOk] (Go returns a value), [DErr] (Go returns an error),
    [DPanic] (Go panics on this input). *)
From IAVL Require Import Bytes Varint.
Local Open Scope Z_scope.

Inductive dres (A : Type) : Type := DOk (a : A) | DErr | DPanic.
Arguments DOk {A} a.
Arguments DErr {A}.
Arguments DPanic {A}.

Definition of_opt {A} (o : option A) : dres A :=
  match o with Some a => DOk a | None => DErr end.

Definition dmap {A B} (f : A -> B) (r : dres A) : dres B :=
  match r with DOk a => DOk (f a) | DErr => DErr | DPanic => DPanic end.

Definition obind {A B} (o : option A) (f : A -> option B) : option B :=
  match o with Some a => f a | None => None end.

Local Notation "' p <- e ;; k" := (obind e (fun p => k))
  (at level 61, p pattern, e at next level, right associativity).

(** ** Go integer conversions *)

(** [int64(int8(z))] for an int64 [z] *)
Definition to_int8 (z : Z) : Z := (z + 128) mod 256 - 128.
(** [int64(uint32(z))] for an int64 [z] *)
Definition to_uint32 (z : Z) : Z := z mod 2 ^ 32.
(** [uint64(z)] for an int64 [z] (two's complement) *)
Definition to_uint64 (z : Z) : N := Z.to_N (z mod 2 ^ 64).
(** [int64(u)] for a uint64 [u] *)
Definition to_int64 (u : N) : Z :=
  let z := Z.of_N u mod 2 ^ 64 in if z <? 2 ^ 63 then z else z - 2 ^ 64.

(** ** Node keys (node.go: NodeKey.GetKey / GetNodeKey / GetRootKey) *)

(** [NodeKey{version, nonce}.GetKey()]: 8 bytes BE of [uint64(version)], 4 bytes BE of nonce *)
Definition node_key_bytes (version nonce : Z) : bytes :=
  be_enc 8 (to_uint64 version) ++ be_enc 4 (Z.to_N (nonce mod 2 ^ 32)).

(** [GetNodeKey(key)]: panics (index out of range) when [len(key) < 12]; longer keys are
    accepted and only their first 12 bytes are read. *)
Definition parse_node_key (key : bytes) : dres (Z * Z) :=
  if (length key <? 12)%nat then DPanic
  else DOk (to_int64 (be_dec (firstn 8 key)), Z.of_N (be_dec (firstn 4 (skipn 8 key)))).

(** [GetRootKey(version)] = key of (version, 1) *)
Definition root_key_bytes (version : Z) : bytes := node_key_bytes version 1.

(** ** DB keys (nodedb.go / keyformat) *)

(** [FastPrefixFormatter.Key(bz)]: a [1+w]-byte key; [copy(key[1:], bz)] truncates a longer
    [bz] and leaves zero padding after a shorter one. *)
Definition pad_right (w : nat) (bz : bytes) : bytes :=
  firstn w bz ++ repeat 0%N (w - length bz).
Definition fpf_key (prefix : N) (w : nat) (bz : bytes) : bytes := prefix :: pad_right w bz.

Definition prefix_node : N := 115.        (* 's' *)
Definition prefix_fast : N := 102.        (* 'f' *)
Definition prefix_meta : N := 109.        (* 'm' *)
Definition prefix_legacy_node : N := 110. (* 'n' *)
Definition prefix_legacy_orphan : N := 111. (* 'o' *)
Definition prefix_legacy_root : N := 114. (* 'r' *)

(** nodeKeyFormat.Key(nk) : 's' + 12 bytes *)
Definition db_node_key (nk : bytes) : bytes := fpf_key prefix_node 12 nk.
(** nodeKeyPrefixFormat.KeyInt64(version) : 's' + 8 bytes *)
Definition db_node_prefix_key (version : Z) : bytes :=
  prefix_node :: be_enc 8 (to_uint64 version).
(** nodeKeyFormat.Key(GetRootKey(version)) *)
Definition db_root_key (version : Z) : bytes := db_node_key (root_key_bytes version).
(** fastKeyFormat.KeyBytes(key) : 'f' + key (unbounded segment) *)
Definition db_fast_key (key : bytes) : bytes := prefix_fast :: key.
(** legacyNodeKeyFormat.Key(hash) : 'n' + 32 bytes *)
Definition db_legacy_node_key (hash : bytes) : bytes := fpf_key prefix_legacy_node 32 hash.
(** legacyRootKeyFormat.Key(version) : 'r' + 8 bytes BE of uint64(version) *)
Definition db_legacy_root_key (version : Z) : bytes :=
  prefix_legacy_root :: be_enc 8 (to_uint64 version).
(** "storage_version" *)
Definition storage_version_key : bytes :=
  [115; 116; 111; 114; 97; 103; 101; 95; 118; 101; 114; 115; 105; 111; 110]%N.
(** metadataKeyFormat.Key([]byte(storageVersionKey)) *)
Definition db_meta_key : bytes := prefix_meta :: storage_version_key.

(** ** Root entries (nodedb.go: GetRoot / isReferenceRoot / SaveRoot / SaveEmptyRoot) *)

(** The value stored under [db_root_key version]:
    - empty                         : the tree is empty at this version ([SaveEmptyRoot]);
    - first byte 's', 13 bytes      : reference to the root node key of an older version
                                      ([SaveRoot]: nodeKeyFormat.Key(nk.GetKey()));
    - first byte 's', 9 bytes       : pre-lazy-pruning reference (version only, nonce 1);
    - first byte 's', other length  : GetRoot returns "invalid reference root";
    - anything else                 : the entry is the root node's body itself and the root
                                      node key is (version, 1). *)
Inductive root_kind :=
| RootEmpty
| RootRef13 (version nonce : Z)
| RootRef9 (version : Z)
| RootBadRef
| RootNode.

Definition classify_root (v : bytes) : root_kind :=
  match v with
  | [] => RootEmpty
  | b :: tl =>
      if (b =? prefix_node)%N then
        if (length v =? 13)%nat then
          match parse_node_key tl with
          | DOk (ver, nonce) => RootRef13 ver nonce
          | _ => RootBadRef
          end
        else if (length v =? 9)%nat then RootRef9 (to_int64 (be_dec tl))
        else RootBadRef
      else RootNode
  end.

(** [SaveRoot(version, nk)] value and [SaveEmptyRoot] value *)
Definition root_ref_value (version nonce : Z) : bytes := db_node_key (node_key_bytes version nonce).
Definition root_empty_value : bytes := [].

(** ** Storage version label (nodedb.go) *)

(** [strings.Split(s, sep)] for a one-byte separator: always at least one element *)
Fixpoint split_on (sep : N) (s : bytes) : list bytes :=
  match s with
  | [] => [[]]
  | c :: s' =>
      if (c =? sep)%N then [] :: split_on sep s'
      else match split_on sep s' with
           | h :: t => (c :: h) :: t
           | [] => [[c]]
           end
  end.

(** decimal digits, most significant first; fuel = bit size, always enough *)
Fixpoint digits_fuel (f : nat) (n : N) : bytes :=
  match f with
  | O => []
  | S f' => if (n <? 10)%N then [(48 + n)%N]
            else digits_fuel f' (n / 10)%N ++ [(48 + n mod 10)%N]
  end.
Definition digits (n : N) : bytes := digits_fuel (S (N.to_nat (N.size n))) n.

(** [strconv.Itoa] *)
Definition itoa (z : Z) : bytes :=
  if z <? 0 then 45%N :: digits (Z.to_N (- z)) else digits (Z.to_N z).

(** value of a digit string (no validation) and a validating [Atoi] for non-empty digit
    strings with optional leading '-' *)
Definition dec_val (s : bytes) : N := fold_left (fun acc c => (acc * 10 + (c - 48))%N) s 0%N.
Definition all_digits (s : bytes) : bool :=
  forallb (fun c => (48 <=? c)%N && (c <=? 57)%N) s.
Definition atoi (s : bytes) : option Z :=
  match s with
  | [] => None
  | c :: s' =>
      if (c =? 45)%N then
        match s' with
        | [] => None
        | _ => if all_digits s' then Some (- Z.of_N (dec_val s')) else None
        end
      else if all_digits s then Some (Z.of_N (dec_val s)) else None
  end.

Definition default_storage_version : bytes := [49; 46; 48; 46; 48]%N. (* "1.0.0" *)
Definition fast_storage_version : bytes := [49; 46; 49; 46; 48]%N.    (* "1.1.0" *)
Definition storage_delim : N := 45.                                     (* "-" *)

(** "1.1.0-<version>" *)
Definition fast_storage_label (version : Z) : bytes :=
  fast_storage_version ++ storage_delim :: itoa version.

(** [hasUpgradedToFastStorage]: Go string comparison [storageVersion >= "1.1.0"] *)
Definition has_fast_storage (sv : bytes) : bool := ble fast_storage_version sv.

(** [SetFastStorageVersionToBatch(latest)] given the current label: the new label, or [None]
    for errInvalidFastStorageVersion. Note the kept prefix is [versions[0]] of the current
    label, not necessarily "1.1.0". *)
Definition set_fast_storage_version (cur : bytes) (latest : Z) : option bytes :=
  if has_fast_storage cur then
    let versions := split_on storage_delim cur in
    if (2 <? length versions)%nat then None
    else Some (hd [] versions ++ storage_delim :: itoa latest)
  else Some (fast_storage_label latest).

(** [shouldForceFastStorageUpgrade] given the current label and the latest version *)
Definition should_force_upgrade (cur : bytes) (latest : Z) : bool :=
  match split_on storage_delim cur with
  | [_; v] => negb (beq v (itoa latest))
  | _ => false
  end.

(** decoder for labels: [(storage version, Some latest)] or [(storage version, None)] when
    there is no "-<n>" suffix; [None] when malformed *)
Definition parse_storage_label (sv : bytes) : option (bytes * option Z) :=
  match split_on storage_delim sv with
  | [v] => Some (v, None)
  | [v; n] => match atoi n with Some z => Some (v, Some z) | None => None end
  | _ => None
  end.

(** ** Readers: state = (bytes consumed so far, remaining buffer) *)

Definition rstate := (nat * bytes)%type.

Definition rd_varint (st : rstate) : option (Z * rstate) :=
  match varint_dec (snd st) with
  | Some (x, n) => Some (x, ((fst st + n)%nat, skipn n (snd st)))
  | None => None
  end.

Definition rd_bytes (st : rstate) : option (bytes * rstate) :=
  match bytes_dec (snd st) with
  | Some (b, n) => Some (b, ((fst st + n)%nat, skipn n (snd st)))
  | None => None
  end.

(** ** New-format nodes *)

(** A child pointer as stored in [Node.leftNodeKey]/[rightNodeKey]:
    [RefNone] = nil (leaves), [RefNew v n] = the 12-byte key of (v, n),
    [RefLegacy h] = a byte string stored in legacy mode (a 32-byte hash; [MakeNode] and
    [MakeLegacyNode] reject any other length). *)
Inductive child_ref :=
| RefNone
| RefNew (version nonce : Z)
| RefLegacy (hash : bytes).

(** [rn_value = Some v] for leaves ([height = 0]), [None] for inner nodes.
    [rn_hash]: the stored hash of an inner node; [[]] for a decoded leaf (Go's [MakeNode]
    recomputes a leaf's hash from its contents and the version in [nk]; that is not part of
    the codec). The node's own key is passed separately ([nk]). *)
Record raw_node := mk_raw_node {
  rn_height : Z;
  rn_size : Z;
  rn_key : bytes;
  rn_value : option bytes;
  rn_hash : bytes;
  rn_left : child_ref;
  rn_right : child_ref
}.

Definition child_is_legacy (c : child_ref) : bool :=
  match c with RefLegacy _ => true | _ => false end.

Definition child_key_bytes (c : child_ref) : option bytes :=
  match c with
  | RefNone => None
  | RefNew v n => Some (node_key_bytes v n)
  | RefLegacy h => Some h
  end.

(** [encoding.Encode32BytesHash]: writes the fixed length byte 0x20 whatever [len(bz)] is *)
Definition enc32 (bz : bytes) : bytes := 32%N :: bz.

Definition encode_child (c : child_ref) : bytes :=
  match c with
  | RefNone => []
  | RefNew v n => varint_enc v ++ varint_enc n
  | RefLegacy h => enc32 h
  end.

Definition node_mode (l r : child_ref) : Z :=
  (if child_is_legacy l then 1 else 0) + (if child_is_legacy r then 2 else 0).

Definition opt_bytes (o : option bytes) : bytes := match o with Some b => b | None => [] end.

(** [Node.writeBytes] on nodes whose children are [RefNew] keys or 32-byte [RefLegacy]
    hashes (see [write_node] for the exact behaviour on the other inputs). *)
Definition encode_node (n : raw_node) : bytes :=
  varint_enc (rn_height n) ++ varint_enc (rn_size n) ++ bytes_enc (rn_key n) ++
  (if rn_height n =? 0 then bytes_enc (opt_bytes (rn_value n))
   else enc32 (rn_hash n) ++ varint_enc (node_mode (rn_left n) (rn_right n)) ++
        encode_child (rn_left n) ++ encode_child (rn_right n)).

(** [Node.writeBytes], exact on the Go representation of the children (byte strings): the
    legacy mode bit is [len(key) == 32]; any other non-nil key goes through [GetNodeKey], which
    panics on fewer than 12 bytes; a nil child key is an error. *)
Definition write_child (legacy : bool) (k : bytes) : dres bytes :=
  if legacy then DOk (enc32 k)
  else match parse_node_key k with
       | DOk (v, n) => DOk (varint_enc v ++ varint_enc n)
       | DErr => DErr
       | DPanic => DPanic
       end.

Definition write_node (n : raw_node) : dres bytes :=
  let header := varint_enc (rn_height n) ++ varint_enc (rn_size n) ++ bytes_enc (rn_key n) in
  if rn_height n =? 0 then DOk (header ++ bytes_enc (opt_bytes (rn_value n)))
  else
    match child_key_bytes (rn_left n) with
    | None => DErr (* ErrLeftNodeKeyEmpty *)
    | Some lk =>
        let rk := child_key_bytes (rn_right n) in
        let lleg := (length lk =? 32)%nat in
        let rleg := (length (opt_bytes rk) =? 32)%nat in
        let mode := (if lleg then 1 else 0) + (if rleg then 2 else 0) in
        match write_child lleg lk with
        | DOk lb =>
            match rk with
            | None => DErr (* ErrRightNodeKeyEmpty *)
            | Some rkb =>
                match write_child rleg rkb with
                | DOk rb => DOk (header ++ enc32 (rn_hash n) ++ varint_enc mode ++ lb ++ rb)
                | DErr => DErr
                | DPanic => DPanic
                end
            end
        | DErr => DErr
        | DPanic => DPanic
        end
    end.

Definition rd_child (legacy : bool) (st : rstate) : option (child_ref * rstate) :=
  if legacy then
    '(h, st1) <- rd_bytes st ;;
    (* if len(node.leftNodeKey) != hashSize { error } *)
    if negb (length h =? 32)%nat then None else Some (RefLegacy h, st1)
  else
    '(ver, st1) <- rd_varint st ;;
    '(nonce, st2) <- rd_varint st1 ;;
    (* leftNodeKey.nonce = uint32(nonce); if nonce != int64(leftNodeKey.nonce) { error } *)
    if negb (nonce =? to_uint32 nonce) then None else Some (RefNew ver nonce, st2).

(** header: height (must survive the int8 round trip), size, key *)
Definition decode_node_header (buf : bytes) : option (Z * Z * bytes * rstate) :=
  '(height, st1) <- rd_varint (0%nat, buf) ;;
  if negb (height =? to_int8 height) then None else
  '(size, st2) <- rd_varint st1 ;;
  '(key, st3) <- rd_bytes st2 ;;
  Some (height, size, key, st3).

Definition decode_node_body (height size : Z) (key : bytes) (st3 : rstate)
  : option (raw_node * nat) :=
  if height =? 0 then
    '(val, st4) <- rd_bytes st3 ;;
    Some (mk_raw_node height size key (Some val) [] RefNone RefNone, fst st4)
  else
    '(hash, st4) <- rd_bytes st3 ;;
    '(mode, st5) <- rd_varint st4 ;;
    if (mode <? 0) || (3 <? mode) then None else
    '(l, st6) <- rd_child (negb (Z.land mode 1 =? 0)) st5 ;;
    '(r, st7) <- rd_child (negb (Z.land mode 2 =? 0)) st6 ;;
    Some (mk_raw_node height size key None hash l r, fst st7).

(** [MakeNode(nk, buf)] together with the number of bytes of [buf] it looked at (Go does not
    return that number and ignores whatever follows). The node key must be exactly 12 bytes
    (checked first); [GetNodeKey(nk)] is evaluated after the header has been decoded and can
    then no longer panic. *)
Definition decode_node_n (nk buf : bytes) : dres (raw_node * nat) :=
  if negb (length nk =? 12)%nat then DErr else
  match decode_node_header buf with
  | None => DErr
  | Some (height, size, key, st3) =>
      match parse_node_key nk with
      | DOk _ => of_opt (decode_node_body height size key st3)
      | DErr => DErr
      | DPanic => DPanic
      end
  end.

Definition decode_node (nk buf : bytes) : dres raw_node := dmap fst (decode_node_n nk buf).

(** ** Legacy nodes *)

(** [ln_left]/[ln_right] are [[]] (Go nil) for leaves. The node's hash (its key) is passed
    separately. *)
Record raw_legacy_node := mk_raw_legacy_node {
  ln_height : Z;
  ln_size : Z;
  ln_version : Z;
  ln_key : bytes;
  ln_value : option bytes;
  ln_left : bytes;
  ln_right : bytes
}.

(** the iavl v0.x [writeBytes] (no encoder is left in the v1 tree) *)
Definition encode_legacy_node (n : raw_legacy_node) : bytes :=
  varint_enc (ln_height n) ++ varint_enc (ln_size n) ++ varint_enc (ln_version n) ++
  bytes_enc (ln_key n) ++
  (if ln_height n =? 0 then bytes_enc (opt_bytes (ln_value n))
   else bytes_enc (ln_left n) ++ bytes_enc (ln_right n)).

Definition decode_legacy_node_o (buf : bytes) : option (raw_legacy_node * nat) :=
  '(height, st1) <- rd_varint (0%nat, buf) ;;
  (* if height < int64(math.MinInt8) || height > int64(math.MaxInt8) { error } *)
  if (height <? -128) || (127 <? height) then None else
  '(size, st2) <- rd_varint st1 ;;
  '(ver, st3) <- rd_varint st2 ;;
  '(key, st4) <- rd_bytes st3 ;;
  if height =? 0 then
    '(val, st5) <- rd_bytes st4 ;;
    Some (mk_raw_legacy_node height size ver key (Some val) [] [], fst st5)
  else
    '(lh, st5) <- rd_bytes st4 ;;
    '(rh, st6) <- rd_bytes st5 ;;
    (* if len(leftHash) != hashSize || len(rightHash) != hashSize { error } *)
    if negb (length lh =? 32)%nat || negb (length rh =? 32)%nat then None else
    Some (mk_raw_legacy_node height size ver key None lh rh, fst st6).

(** [MakeLegacyNode(hash, buf)]: [hash] is stored in the node untouched *)
Definition decode_legacy_node_n (hash buf : bytes) : dres (raw_legacy_node * nat) :=
  of_opt (decode_legacy_node_o buf).
Definition decode_legacy_node (hash buf : bytes) : dres raw_legacy_node :=
  dmap fst (decode_legacy_node_n hash buf).

(** ** Fast nodes *)

Record raw_fast_node := mk_raw_fast_node {
  fn_key : bytes;
  fn_version : Z;
  fn_value : bytes
}.

(** [fastnode.Node.WriteBytes] *)
Definition encode_fast_node (version : Z) (value : bytes) : bytes :=
  varint_enc version ++ bytes_enc value.

Definition decode_fast_node_o (key buf : bytes) : option (raw_fast_node * nat) :=
  '(ver, st1) <- rd_varint (0%nat, buf) ;;
  '(val, st2) <- rd_bytes st1 ;;
  Some (mk_raw_fast_node key ver val, fst st2).

(** [fastnode.DeserializeNode(key, buf)] *)
Definition decode_fast_node_n (key buf : bytes) : dres (raw_fast_node * nat) :=
  of_opt (decode_fast_node_o key buf).
Definition decode_fast_node (key buf : bytes) : dres raw_fast_node :=
  dmap fst (decode_fast_node_n key buf).

(** ** Size hints *)

(** [encoding.EncodeUvarintSize]: [bits.Len64(u)] is [N.size u] *)
Definition uvarint_size (u : N) : nat :=
  if (u =? 0)%N then 1%nat else N.to_nat ((N.size u + 6) / 7).
(** [encoding.EncodeVarintSize] *)
Definition varint_size (x : Z) : nat := uvarint_size (zigzag x).
(** [encoding.EncodeBytesSize] *)
Definition bytes_size (b : bytes) : nat := (uvarint_size (N.of_nat (length b)) + length b)%nat.

(** the contribution of one child to [Node.encodedSize]: nothing for nil, otherwise
    [GetNodeKey] applied to the key bytes (also when they are a 32-byte legacy hash, whose
    first 12 bytes are then read as a version and a nonce); [DPanic] on 1..11 bytes. *)
Definition child_size (c : child_ref) : dres nat :=
  match child_key_bytes c with
  | None => DOk 0%nat
  | Some k =>
      match parse_node_key k with
      | DOk (v, n) => DOk (varint_size v + varint_size n)%nat
      | DErr => DErr
      | DPanic => DPanic
      end
  end.

(** [Node.encodedSize] (a [bytes.Buffer.Grow] hint in [SaveNode]) *)
Definition encoded_size (n : raw_node) : dres nat :=
  let base := (1 + varint_size (rn_size n) + bytes_size (rn_key n))%nat in
  if rn_height n =? 0 then DOk (base + bytes_size (opt_bytes (rn_value n)))%nat
  else
    match child_size (rn_left n), child_size (rn_right n) with
    | DOk a, DOk b => DOk (base + bytes_size (rn_hash n) + a + b)%nat
    | DPanic, _ => DPanic
    | _, DPanic => DPanic
    | _, _ => DErr
    end.

(** [fastnode.Node.EncodedSize] *)
Definition fast_encoded_size (version : Z) (value : bytes) : nat :=
  (varint_size version + bytes_size value)%nat.
