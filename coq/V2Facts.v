(** Proofs about the iavl/v2 model (V2.v): properties C19 and C20. *)
From Coq Require Import Permutation.
From IAVL Require Import Bytes Varint Tree VMap TreeFacts MTree MTreeFacts HashFacts Iter IterFacts V2.
Local Open Scope Z_scope.

(** * 1. v2 computes the same trees as v1 (C19) *)

(** ** The comparison relation.
    [veq wv t1 t2]: same constructors, keys (also the routing keys), values, heights, sizes and
    effective versions ([ver = 0] read as [wv]).  Only nonces (sequences) and stored hashes are
    free.  It refines [HashFacts.shape_eq] (which also frees the routing keys) and, unlike
    [shape_eq], is a congruence for the write operations without any well-formedness
    hypothesis, because the writes only look at keys, heights and sizes. *)
Fixpoint veq (wv : Z) (t1 t2 : node) : Prop :=
  match t1, t2 with
  | Leaf k1 v1 m1, Leaf k2 v2 m2 => k1 = k2 /\ v1 = v2 /\ eff_ver wv m1 = eff_ver wv m2
  | Inner k1 h1 s1 m1 l1 r1, Inner k2 h2 s2 m2 l2 r2 =>
      k1 = k2 /\ h1 = h2 /\ s1 = s2 /\ eff_ver wv m1 = eff_ver wv m2 /\
      veq wv l1 l2 /\ veq wv r1 r2
  | _, _ => False
  end.

Lemma veq_refl wv t : veq wv t t.
Proof. induction t; cbn [veq]; auto 7. Qed.

Lemma veq_sym wv t1 : forall t2, veq wv t1 t2 -> veq wv t2 t1.
Proof.
  induction t1 as [k v m|k h s m l IHl r IHr]; intros [k2 v2 m2|k2 h2 s2 m2 l2 r2];
    cbn [veq]; try tauto.
  - intros (A & B & C). auto.
  - intros (A & B & C & D & E & F). auto 7.
Qed.

Lemma veq_trans wv t1 : forall t2 t3, veq wv t1 t2 -> veq wv t2 t3 -> veq wv t1 t3.
Proof.
  induction t1 as [k v m|k h s m l IHl r IHr]; intros [k2 v2 m2|k2 h2 s2 m2 l2 r2]
    [k3 v3 m3|k3 h3 s3 m3 l3 r3]; cbn [veq]; try tauto.
  - intros (A & B & C) (A' & B' & C'). repeat split; congruence.
  - intros (A & B & C & D & E & F) (A' & B' & C' & D' & E' & F').
    split; [congruence|]. split; [congruence|]. split; [congruence|]. split; [congruence|].
    split; eauto.
Qed.

Lemma veq_shape_eq wv t1 : forall t2, veq wv t1 t2 -> shape_eq wv t1 t2.
Proof.
  induction t1 as [k v m|k h s m l IHl r IHr]; intros [k2 v2 m2|k2 h2 s2 m2 l2 r2];
    cbn [veq shape_eq]; try tauto.
  intros (A & B & C & D & E & F). auto 7.
Qed.

Lemma veq_height wv t1 t2 : veq wv t1 t2 -> height t1 = height t2.
Proof. destruct t1, t2; cbn [veq height]; tauto. Qed.
Lemma veq_size wv t1 t2 : veq wv t1 t2 -> size t1 = size t2.
Proof. destruct t1, t2; cbn [veq size]; tauto. Qed.
Lemma veq_nkey wv t1 t2 : veq wv t1 t2 -> nkey t1 = nkey t2.
Proof. destruct t1, t2; cbn [veq nkey]; tauto. Qed.
Lemma veq_bal_of wv t1 t2 : veq wv t1 t2 -> bal_of t1 = bal_of t2.
Proof.
  destruct t1, t2; cbn [veq bal_of]; try tauto.
  intros (_ & _ & _ & _ & A & B). rewrite (veq_height _ _ _ A), (veq_height _ _ _ B). reflexivity.
Qed.

Lemma veq_elems wv t1 t2 : veq wv t1 t2 -> elems t1 = elems t2.
Proof. intros E. eapply shape_eq_elems, veq_shape_eq, E. Qed.

Lemma veq_min_key wv t1 : forall t2, veq wv t1 t2 -> min_key t1 = min_key t2.
Proof.
  induction t1 as [k v m|k h s m l IHl r IHr]; intros [k2 v2 m2|k2 h2 s2 m2 l2 r2];
    cbn [veq min_key]; try tauto.
  intros (_ & _ & _ & _ & A & _). apply IHl, A.
Qed.

Lemma veq_keys_all wv P t1 : forall t2, veq wv t1 t2 -> keys_all P t1 -> keys_all P t2.
Proof.
  intros t2 E. rewrite !keys_all_elems, (veq_elems _ _ _ E). auto.
Qed.

Lemma veq_wf wv t1 : forall t2, veq wv t1 t2 -> wf t1 -> wf t2.
Proof.
  induction t1 as [k v m|k h s m l IHl r IHr]; intros [k2 v2 m2|k2 h2 s2 m2 l2 r2];
    cbn [veq]; try tauto.
  intros (A & B & C & D & E & F) W. cbn [wf] in *.
  {
    destruct W as (Wl & Wr & Kl & Kr & Hk & Hh & Hs). subst k2 h2 s2.
    rewrite <- (veq_height _ _ _ E), <- (veq_height _ _ _ F),
            <- (veq_size _ _ _ E), <- (veq_size _ _ _ F), <- (veq_min_key _ _ _ F).
    repeat split; eauto using veq_keys_all. }
Qed.

Lemma veq_avl wv t1 : forall t2, veq wv t1 t2 -> avl t1 -> avl t2.
Proof.
  induction t1 as [k v m|k h s m l IHl r IHr]; intros [k2 v2 m2|k2 h2 s2 m2 l2 r2];
    cbn [veq]; try tauto.
  intros (A & B & C & D & E & F) W. cbn [avl] in *. destruct W as (Al & Ar & Hb).
  rewrite <- (veq_height _ _ _ E), <- (veq_height _ _ _ F). auto.
Qed.

Lemma eff_ver_v2 wv sq : eff_ver wv (v2_meta wv sq) = wv.
Proof.
  unfold eff_ver, v2_meta. cbn [ver]. destruct (wv =? 0) eqn:E; [|reflexivity].
  reflexivity.
Qed.
Lemma eff_ver_new_meta wv : eff_ver wv new_meta = wv.
Proof. reflexivity. Qed.

(** a node mutated in [wv] against v1's fresh clone *)
Lemma veq_node_mk wv k l1 r1 l2 r2 :
  veq wv l1 l2 -> veq wv r1 r2 -> veq wv (v2_node wv k l1 r1) (mk k l2 r2).
Proof.
  intros A B. unfold v2_node, mk. cbn [veq].
  rewrite (veq_height _ _ _ A), (veq_height _ _ _ B), (veq_size _ _ _ A), (veq_size _ _ _ B),
          eff_ver_v2.
  auto 7.
Qed.

Lemma veq_node_node wv k l1 r1 l2 r2 :
  veq wv l1 l2 -> veq wv r1 r2 -> veq wv (v2_node wv k l1 r1) (v2_node wv k l2 r2).
Proof.
  intros A B. unfold v2_node. cbn [veq].
  rewrite (veq_height _ _ _ A), (veq_height _ _ _ B), (veq_size _ _ _ A), (veq_size _ _ _ B).
  auto 7.
Qed.

(** [R]-related option results, undefined on the left is unconstrained *)
Definition vimp {A B} (R : A -> B -> Prop) (x : option A) (y : B) : Prop :=
  match x with Some a => R a y | None => True end.

Lemma v2_rotR_veq wv t1 t2 : veq wv t1 t2 -> vimp (veq wv) (v2_rotR wv t1) (rotR t2).
Proof.
  destruct t1 as [|k h s m l r]; [exact (fun _ => I)|].
  destruct l as [|lk lh ls lm ll lr]; [exact (fun _ => I)|].
  destruct t2 as [|k2 h2 s2 m2 l2 r2]; [intros []|].
  destruct l2 as [|lk2 lh2 ls2 lm2 ll2 lr2]; cbn [veq]; [tauto|].
  intros (A & B & C & D & (A' & B' & C' & D' & E' & F') & F). subst.
  rewrite rotR_eq. cbn [v2_rotR vimp].
  apply veq_node_mk; [assumption|]. apply veq_node_mk; assumption.
Qed.

Lemma v2_rotL_veq wv t1 t2 : veq wv t1 t2 -> vimp (veq wv) (v2_rotL wv t1) (rotL t2).
Proof.
  destruct t1 as [|k h s m l r]; [exact (fun _ => I)|].
  destruct r as [|rk rh rs rm rl rr]; [exact (fun _ => I)|].
  destruct t2 as [|k2 h2 s2 m2 l2 r2]; [intros []|].
  destruct r2 as [|rk2 rh2 rs2 rm2 rl2 rr2]; cbn [veq]; [tauto|].
  intros (A & B & C & D & E & (A' & B' & C' & D' & E' & F')). subst.
  rewrite rotL_eq. cbn [v2_rotL vimp].
  apply veq_node_mk; [|assumption]. apply veq_node_mk; assumption.
Qed.

Lemma v2_balance_veq wv t1 t2 :
  veq wv t1 t2 -> vimp (veq wv) (v2_balance wv t1) (balance t2).
Proof.
  destruct t1 as [|k h s m l r]; [exact (fun _ => I)|].
  destruct t2 as [|k2 h2 s2 m2 l2 r2]; [intros []|].
  intros E. pose proof E as E0. cbn [veq] in E. destruct E as (A & B & C & D & El & Er).
  subst k2 h2 s2. rewrite balance_eq. cbn [v2_balance].
  destruct (hs m); [|exact I].
  rewrite <- (veq_height _ _ _ El), <- (veq_height _ _ _ Er),
          <- (veq_bal_of _ _ _ El), <- (veq_bal_of _ _ _ Er).
  destruct (1 <? height l - height r).
  - destruct (0 <=? bal_of l); [apply v2_rotR_veq, E0|].
    pose proof (v2_rotL_veq wv l l2 El) as RL.
    destruct (v2_rotL wv l) as [l'|]; [|exact I]. cbn [vimp] in RL.
    apply v2_rotR_veq. cbn [veq]. auto 7.
  - destruct (height l - height r <? -1); [|exact E0].
    destruct (bal_of r <=? 0); [apply v2_rotL_veq, E0|].
    pose proof (v2_rotR_veq wv r r2 Er) as RR.
    destruct (v2_rotR wv r) as [r'|]; [|exact I]. cbn [vimp] in RR.
    apply v2_rotL_veq. cbn [veq]. auto 7.
Qed.

Definition set_rel (wv : Z) (a b : node * bool) : Prop :=
  veq wv (fst a) (fst b) /\ snd a = snd b.

(** ** Item 1: one [Set] of v2 against one [Set] of v1.
    No normal-form hypothesis is needed: v1 marks a node new exactly when it clones it, v2
    stamps it [wv] exactly when it mutates it, and the two happen at the same nodes (the path,
    and both nodes of every rotation). *)
Lemma v2_set_veq wv sq k v t1 : forall t2,
  veq wv t1 t2 -> vimp (set_rel wv) (v2_set wv sq t1 k v) (set t2 k v).
Proof.
  induction t1 as [lk lv m|nk h s m l IHl r IHr]; intros [lk2 lv2 m2|nk2 h2 s2 m2 l2 r2];
    cbn [veq]; try tauto.
  - intros (A & B & C). subst lk2 lv2. cbn [v2_set set].
    destruct (bcmp k lk) eqn:Cmp; cbn [vimp]; unfold set_rel; cbn [fst snd veq];
      rewrite ?eff_ver_v2, ?eff_ver_new_meta.
    + apply bcmp_eq in Cmp. subst. auto.
    + auto 10.
    + auto 10.
  - intros (A & B & C & D & El & Er). subst nk2 h2 s2. cbn [v2_set set].
    destruct (blt k nk).
    + specialize (IHl l2 El). destruct (v2_set wv sq l k v) as [[l' upd]|]; [|exact I].
      cbn [vimp] in IHl. unfold set_rel in IHl. destruct (set l2 k v) as [l2' upd2].
      cbn [fst snd] in IHl. destruct IHl as [El' Eu]. subst upd2.
      destruct upd.
      * cbn [vimp]. unfold set_rel. cbn [fst snd veq]. rewrite eff_ver_v2, eff_ver_new_meta.
        auto 10.
      * pose proof (v2_balance_veq wv (v2_node wv nk l' r) (mk nk l2' r2)
                      (veq_node_mk wv nk _ _ _ _ El' Er)) as Bv.
        destruct (v2_balance wv (v2_node wv nk l' r)) as [t'|]; [|exact I].
        cbn [vimp] in *. unfold set_rel. cbn [fst snd]. auto.
    + specialize (IHr r2 Er). destruct (v2_set wv sq r k v) as [[r' upd]|]; [|exact I].
      cbn [vimp] in IHr. unfold set_rel in IHr. destruct (set r2 k v) as [r2' upd2].
      cbn [fst snd] in IHr. destruct IHr as [Er' Eu]. subst upd2.
      destruct upd.
      * cbn [vimp]. unfold set_rel. cbn [fst snd veq]. rewrite eff_ver_v2, eff_ver_new_meta.
        auto 10.
      * pose proof (v2_balance_veq wv (v2_node wv nk l r') (mk nk l2 r2')
                      (veq_node_mk wv nk _ _ _ _ El Er')) as Bv.
        destruct (v2_balance wv (v2_node wv nk l r')) as [t'|]; [|exact I].
        cbn [vimp] in *. unfold set_rel. cbn [fst snd]. auto.
Qed.

(** results of remove: same outputs, related new subtrees *)
Definition rm_rel (wv : Z) (a b : rm_res) : Prop :=
  rm_val a = rm_val b /\ rm_key a = rm_key b /\
  match rm_self a, rm_self b with
  | Some x, Some y => veq wv x y
  | None, None => True
  | _, _ => False
  end.

Lemma v2_remove_veq wv k t1 : forall t2,
  veq wv t1 t2 -> vimp (rm_rel wv) (v2_remove wv t1 k) (remove t2 k).
Proof.
  induction t1 as [lk lv m|nk h s m l IHl r IHr]; intros [lk2 lv2 m2|nk2 h2 s2 m2 l2 r2];
    cbn [veq]; try tauto.
  - intros (A & B & C). subst lk2 lv2. cbn [v2_remove remove vimp].
    destruct (beq k lk); unfold rm_rel; cbn [rm_val rm_key rm_self veq]; auto.
  - intros E. pose proof E as E0. destruct E as (A & B & C & D & El & Er). subst nk2 h2 s2.
    cbn [v2_remove remove]. cbv zeta.
    destruct (blt k nk).
    + specialize (IHl l2 El). destruct (v2_remove wv l k) as [res|]; [|exact I].
      cbn [vimp] in IHl. destruct IHl as (Ev & Ek & Es). rewrite <- Ev.
      destruct (rm_val res) as [val|].
      * destruct (rm_self res) as [l'|], (rm_self (remove l2 k)) as [l2'|]; try contradiction.
        -- pose proof (v2_balance_veq wv (v2_node wv nk l' r) (mk nk l2' r2)
                         (veq_node_mk wv nk _ _ _ _ Es Er)) as Bv.
           destruct (v2_balance wv (v2_node wv nk l' r)) as [t'|]; [|exact I].
           cbn [vimp] in *. unfold rm_rel. cbn [rm_val rm_key rm_self]. auto.
        -- cbn [vimp]. unfold rm_rel. cbn [rm_val rm_key rm_self]. auto.
      * cbn [vimp]. unfold rm_rel. cbn [rm_val rm_key rm_self]. auto.
    + specialize (IHr r2 Er). destruct (v2_remove wv r k) as [res|]; [|exact I].
      cbn [vimp] in IHr. destruct IHr as (Ev & Ek & Es). rewrite <- Ev, <- Ek.
      destruct (rm_val res) as [val|].
      * destruct (rm_self res) as [r'|], (rm_self (remove r2 k)) as [r2'|]; try contradiction.
        -- set (nk' := match rm_key res with Some k' => k' | None => nk end).
           pose proof (v2_balance_veq wv (v2_node wv nk' l r') (mk nk' l2 r2')
                         (veq_node_mk wv nk' _ _ _ _ El Es)) as Bv.
           destruct (v2_balance wv (v2_node wv nk' l r')) as [t'|]; [|exact I].
           cbn [vimp] in *. unfold rm_rel. cbn [rm_val rm_key rm_self]. auto.
        -- cbn [vimp]. unfold rm_rel. cbn [rm_val rm_key rm_self]. auto.
      * cbn [vimp]. unfold rm_rel. cbn [rm_val rm_key rm_self]. auto.
Qed.

(** ** The v2 operations never fail on well-formed trees *)
Lemma v2_balance_defined wv k l r :
  wf l -> wf r -> exists t', v2_balance wv (v2_node wv k l r) = Some t'.
Proof.
  intros Wl Wr. unfold v2_node. cbn [v2_balance v2_meta hs].
  pose proof (height_nonneg _ Wl) as Hl0. pose proof (height_nonneg _ Wr) as Hr0.
  destruct (1 <? height l - height r) eqn:C1.
  - apply Z.ltb_lt in C1. destruct l as [|lk lh ls lm ll lr]; [cbn [height] in *; lia|].
    cbn [wf] in Wl. destruct Wl as (Wll & Wlr & _ & _ & _ & Hlh & _).
    pose proof (height_nonneg _ Wll). pose proof (height_nonneg _ Wlr).
    cbn [bal_of]. destruct (0 <=? height ll - height lr) eqn:C2.
    + cbn [v2_rotR]. eauto.
    + apply Z.leb_gt in C2. destruct lr as [|rk rh rs rm rl rr]; [cbn [height] in *; lia|].
      cbn [v2_rotL v2_rotR v2_node]. eauto.
  - destruct (height l - height r <? -1) eqn:C3; [|eauto].
    apply Z.ltb_lt in C3. destruct r as [|rk rh rs rm rl rr]; [cbn [height] in *; lia|].
    cbn [wf] in Wr. destruct Wr as (Wrl & Wrr & _ & _ & _ & Hrh & _).
    pose proof (height_nonneg _ Wrl). pose proof (height_nonneg _ Wrr).
    cbn [bal_of]. destruct (height rl - height rr <=? 0) eqn:C2.
    + cbn [v2_rotL]. eauto.
    + apply Z.leb_gt in C2. destruct rl as [|lk lh ls lm ll lr]; [cbn [height] in *; lia|].
      cbn [v2_rotL v2_rotR v2_node]. eauto.
Qed.

Lemma v2_set_wf wv sq k v t t' u :
  wf t -> v2_set wv sq t k v = Some (t', u) -> wf t'.
Proof.
  intros W E. pose proof (v2_set_veq wv sq k v t t (veq_refl wv t)) as R. rewrite E in R.
  cbn [vimp] in R. destruct R as [R _]. cbn [fst] in R.
  eapply veq_wf; [apply veq_sym, R|]. apply set_spec, W.
Qed.

Lemma v2_set_defined wv sq k v t : wf t -> exists r, v2_set wv sq t k v = Some r.
Proof.
  induction t as [lk lv m|nk h s m l IHl r IHr]; intros W; cbn [v2_set].
  - destruct (bcmp k lk); eauto.
  - cbn [wf] in W. destruct W as (Wl & Wr & _).
    destruct (blt k nk).
    + destruct (IHl Wl) as ([l' upd] & E). rewrite E. destruct upd; [eauto|].
      destruct (v2_balance_defined wv nk l' r (v2_set_wf _ _ _ _ _ _ _ Wl E) Wr) as (t' & B).
      rewrite B. eauto.
    + destruct (IHr Wr) as ([r' upd] & E). rewrite E. destruct upd; [eauto|].
      destruct (v2_balance_defined wv nk l r' Wl (v2_set_wf _ _ _ _ _ _ _ Wr E)) as (t' & B).
      rewrite B. eauto.
Qed.

Lemma v2_remove_self_wf wv k t res t' :
  wf t -> avl t -> v2_remove wv t k = Some res -> rm_self res = Some t' -> wf t' /\ avl t'.
Proof.
  intros W A E S. pose proof (v2_remove_veq wv k t t (veq_refl wv t)) as R. rewrite E in R.
  cbn [vimp] in R. destruct R as (Ev & _ & Es). rewrite S in Es.
  pose proof (remove_spec t k W A) as P. unfold rm_post in P.
  destruct (rm_self (remove t k)) as [t1|] eqn:S1; [|contradiction].
  destruct (rm_val (remove t k)) as [val|] eqn:V1.
  - destruct P as (_ & W1 & A1 & _). split.
    + eapply veq_wf; [apply veq_sym, Es|exact W1].
    + eapply veq_avl; [apply veq_sym, Es|exact A1].
  - (* not removed: v1 returns the tree itself *)
    assert (t1 = t).
    { clear -S1 V1. destruct t as [lk lv m|nk h s m l r]; cbn [remove] in *.
      - destruct (beq k lk); cbn [rm_val rm_self] in *; congruence.
      - cbv zeta in *. destruct (blt k nk).
        + destruct (rm_val (remove l k)); [|cbn [rm_self] in S1; congruence].
          destruct (rm_self (remove l k)); cbn [rm_val] in V1; discriminate.
        + destruct (rm_val (remove r k)); [|cbn [rm_self] in S1; congruence].
          destruct (rm_self (remove r k)); cbn [rm_val] in V1; discriminate. }
    subst t1. split.
    + eapply veq_wf; [apply veq_sym, Es|exact W].
    + eapply veq_avl; [apply veq_sym, Es|exact A].
Qed.

Lemma v2_remove_defined wv k t : wf t -> avl t -> exists res, v2_remove wv t k = Some res.
Proof.
  induction t as [lk lv m|nk h s m l IHl r IHr]; intros W A; cbn [v2_remove]; [eauto|].
  cbn [wf] in W. destruct W as (Wl & Wr & _). cbn [avl] in A. destruct A as (Al & Ar & _).
  destruct (blt k nk).
  - destruct (IHl Wl Al) as (res & E). rewrite E.
    destruct (rm_val res) as [val|]; [|eauto].
    destruct (rm_self res) as [l'|] eqn:S; [|eauto].
    destruct (v2_remove_self_wf wv k l res l' Wl Al E S) as [W' _].
    destruct (v2_balance_defined wv nk l' r W' Wr) as (t' & B). rewrite B. eauto.
  - destruct (IHr Wr Ar) as (res & E). rewrite E.
    destruct (rm_val res) as [val|]; [|eauto].
    destruct (rm_self res) as [r'|] eqn:S; [|eauto].
    destruct (v2_remove_self_wf wv k r res r' Wr Ar E S) as [W' _].
    cbv zeta.
    destruct (v2_balance_defined wv (match rm_key res with Some k' => k' | None => nk end)
                l r' Wl W') as (t' & B). rewrite B. eauto.
Qed.

(** ** Predicates preserved by the v2 writes *)
Section Preserve.
  Variable wv : Z.
  Variable P : node -> Prop.
  Hypothesis P_sub : forall k h s m l r, P (Inner k h s m l r) -> P l /\ P r.
  Hypothesis P_inner : forall k h s sq l r, P l -> P r -> P (Inner k h s (v2_meta wv sq) l r).
  Hypothesis P_leaf : forall k v sq, P (Leaf k v (v2_meta wv sq)).

  Lemma P_node k l r : P l -> P r -> P (v2_node wv k l r).
  Proof. intros. unfold v2_node. apply P_inner; assumption. Qed.

  Lemma v2_rotR_pres t t' : P t -> v2_rotR wv t = Some t' -> P t'.
  Proof.
    destruct t as [|k h s m l r]; [discriminate|]. destruct l as [|lk lh ls lm ll lr]; [discriminate|].
    intros Pt E. cbn [v2_rotR] in E. injection E as <-.
    destruct (P_sub _ _ _ _ _ _ Pt) as [Pl Pr]. destruct (P_sub _ _ _ _ _ _ Pl) as [Pll Plr].
    apply P_node; [assumption|]. apply P_node; assumption.
  Qed.

  Lemma v2_rotL_pres t t' : P t -> v2_rotL wv t = Some t' -> P t'.
  Proof.
    destruct t as [|k h s m l r]; [discriminate|]. destruct r as [|rk rh rs rm rl rr]; [discriminate|].
    intros Pt E. cbn [v2_rotL] in E. injection E as <-.
    destruct (P_sub _ _ _ _ _ _ Pt) as [Pl Pr]. destruct (P_sub _ _ _ _ _ _ Pr) as [Prl Prr].
    apply P_node; [|assumption]. apply P_node; assumption.
  Qed.

  Lemma v2_balance_pres k l r t' :
    P l -> P r -> v2_balance wv (v2_node wv k l r) = Some t' -> P t'.
  Proof.
    intros Pl Pr. unfold v2_node. cbn [v2_balance v2_meta hs].
    assert (Pt : P (Inner k (Z.max (height l) (height r) + 1) (size l + size r) (v2_meta wv 0) l r))
      by (apply P_inner; assumption).
    destruct (1 <? height l - height r).
    - destruct (0 <=? bal_of l); [intros E; exact (v2_rotR_pres _ _ Pt E)|].
      destruct (v2_rotL wv l) as [l'|] eqn:E; [|discriminate].
      intros E2. refine (v2_rotR_pres _ _ _ E2).
      apply (P_inner k _ _ 0); [exact (v2_rotL_pres _ _ Pl E)|assumption].
    - destruct (height l - height r <? -1); [|intros E; injection E as <-; exact Pt].
      destruct (bal_of r <=? 0); [intros E; exact (v2_rotL_pres _ _ Pt E)|].
      destruct (v2_rotR wv r) as [r'|] eqn:E; [|discriminate].
      intros E2. refine (v2_rotL_pres _ _ _ E2).
      apply (P_inner k _ _ 0); [assumption|exact (v2_rotR_pres _ _ Pr E)].
  Qed.

  Lemma v2_set_pres sq k v t : forall t' u, P t -> v2_set wv sq t k v = Some (t', u) -> P t'.
  Proof.
    induction t as [lk lv m|nk h s m l IHl r IHr]; intros t' u Pt; cbn [v2_set].
    - destruct (bcmp k lk); intros E; injection E as <- _; auto.
    - destruct (P_sub _ _ _ _ _ _ Pt) as [Pl Pr].
      destruct (blt k nk).
      + destruct (v2_set wv sq l k v) as [[l' upd]|]; [|discriminate].
        specialize (IHl l' upd Pl eq_refl). destruct upd.
        * intros E; injection E as <- _. auto.
        * destruct (v2_balance wv (v2_node wv nk l' r)) as [t1|] eqn:B; [|discriminate].
          intros E; injection E as <- _. exact (v2_balance_pres _ _ _ _ IHl Pr B).
      + destruct (v2_set wv sq r k v) as [[r' upd]|]; [|discriminate].
        specialize (IHr r' upd Pr eq_refl). destruct upd.
        * intros E; injection E as <- _. auto.
        * destruct (v2_balance wv (v2_node wv nk l r')) as [t1|] eqn:B; [|discriminate].
          intros E; injection E as <- _. exact (v2_balance_pres _ _ _ _ Pl IHr B).
  Qed.

  Lemma v2_remove_pres k t : forall res t',
    P t -> v2_remove wv t k = Some res -> rm_self res = Some t' -> P t'.
  Proof.
    induction t as [lk lv m|nk h s m l IHl r IHr]; intros res t' Pt; cbn [v2_remove].
    - destruct (beq k lk); intros E; injection E as <-; cbn [rm_self]; intros S;
        [discriminate|injection S as <-; exact Pt].
    - destruct (P_sub _ _ _ _ _ _ Pt) as [Pl Pr].
      destruct (blt k nk).
      + destruct (v2_remove wv l k) as [res1|]; [|discriminate].
        destruct (rm_val res1) as [val|];
          [|intros E; injection E as <-; cbn [rm_self]; intros S; injection S as <-; exact Pt].
        destruct (rm_self res1) as [l'|] eqn:S1.
        * specialize (IHl res1 l' Pl eq_refl S1).
          destruct (v2_balance wv (v2_node wv nk l' r)) as [t1|] eqn:B; [|discriminate].
          intros E; injection E as <-; cbn [rm_self]; intros S; injection S as <-.
          exact (v2_balance_pres _ _ _ _ IHl Pr B).
        * intros E; injection E as <-; cbn [rm_self]; intros S; injection S as <-; exact Pr.
      + destruct (v2_remove wv r k) as [res1|]; [|discriminate].
        destruct (rm_val res1) as [val|];
          [|intros E; injection E as <-; cbn [rm_self]; intros S; injection S as <-; exact Pt].
        destruct (rm_self res1) as [r'|] eqn:S1.
        * specialize (IHr res1 r' Pr eq_refl S1). cbv zeta.
          destruct (v2_balance wv (v2_node wv _ l r')) as [t1|] eqn:B; [|discriminate].
          intros E; injection E as <-; cbn [rm_self]; intros S; injection S as <-.
          exact (v2_balance_pres _ _ _ _ Pl IHr B).
        * intros E; injection E as <-; cbn [rm_self]; intros S; injection S as <-; exact Pl.
  Qed.
End Preserve.

(** ** v2 trees carry no zero version *)
Lemma all_persisted_sub k h s m l r :
  all_persisted (Inner k h s m l r) -> all_persisted l /\ all_persisted r.
Proof. cbn [all_persisted]. tauto. Qed.

Lemma v2_set_persisted wv sq k v t t' u :
  wv <> 0 -> all_persisted t -> v2_set wv sq t k v = Some (t', u) -> all_persisted t'.
Proof.
  intros Hwv. apply (v2_set_pres wv all_persisted all_persisted_sub).
  - intros. cbn [all_persisted v2_meta ver]. auto.
  - intros. cbn [all_persisted v2_meta ver]. auto.
Qed.

Lemma v2_remove_persisted wv k t res t' :
  wv <> 0 -> all_persisted t -> v2_remove wv t k = Some res -> rm_self res = Some t' ->
  all_persisted t'.
Proof.
  intros Hwv. apply (v2_remove_pres wv all_persisted all_persisted_sub).
  intros. cbn [all_persisted v2_meta ver]. auto.
Qed.

(** on trees without zero versions [veq] does not depend on the working version *)
Lemma veq_persisted_any a b t1 : forall t2,
  all_persisted t1 -> all_persisted t2 -> veq a t1 t2 -> veq b t1 t2.
Proof.
  induction t1 as [k v m|k h s m l IHl r IHr]; intros [k2 v2 m2|k2 h2 s2 m2 l2 r2];
    cbn [veq all_persisted]; try tauto.
  - intros P1 P2 (A & B & C). rewrite !eff_ver_old in * by assumption. auto.
  - intros (P1 & Pl1 & Pr1) (P2 & Pl2 & Pr2) (A & B & C & D & E & F).
    rewrite !eff_ver_old in * by assumption. auto 8.
Qed.

Section HashV2.
  Variable H : bytes -> bytes.

  (** v2's hash from scratch is v1's structural hash (read with working version 0) *)
  Lemma v2_hash_pure t : v2_hash H t = pure_hash H 0 t.
  Proof.
    assert (EV : forall m, eff_ver 0 m = ver m).
    { intros m. unfold eff_ver. destruct (ver m =? 0) eqn:E; [apply Z.eqb_eq in E; auto|auto]. }
    induction t as [k v m|k h s m l IHl r IHr]; cbn [v2_hash pure_hash]; rewrite EV; congruence.
  Qed.

  (** stored hashes, where present, are right *)
  Fixpoint v2_hok (t : node) : Prop :=
    (hs (nmeta t) = [] \/ hs (nmeta t) = v2_hash H t) /\
    match t with
    | Leaf _ _ _ => True
    | Inner _ _ _ _ l r => v2_hok l /\ v2_hok r
    end.

  Lemma v2_hok_sub k h s m l r : v2_hok (Inner k h s m l r) -> v2_hok l /\ v2_hok r.
  Proof. cbn [v2_hok]. tauto. Qed.

  Lemma v2_set_hok wv sq k v t t' u : v2_hok t -> v2_set wv sq t k v = Some (t', u) -> v2_hok t'.
  Proof.
    apply (v2_set_pres wv v2_hok v2_hok_sub).
    - intros. cbn [v2_hok nmeta v2_meta hs]. auto.
    - intros. cbn [v2_hok nmeta v2_meta hs]. auto.
  Qed.

  Lemma v2_remove_hok wv k t res t' :
    v2_hok t -> v2_remove wv t k = Some res -> rm_self res = Some t' -> v2_hok t'.
  Proof.
    apply (v2_remove_pres wv v2_hok v2_hok_sub).
    intros. cbn [v2_hok nmeta v2_meta hs]. auto.
  Qed.

  Lemma v2_hash_meta_irrel_leaf k v m m' :
    ver m = ver m' -> v2_hash H (Leaf k v m) = v2_hash H (Leaf k v m').
  Proof. cbn [v2_hash]. intros ->. reflexivity. Qed.

  (** deepHash computes the hash from scratch, changes stored hashes only *)
  Lemma v2_deep_hash_spec t :
    v2_hok t ->
    hs (nmeta (v2_deep_hash H t)) = v2_hash H t /\
    v2_hash H (v2_deep_hash H t) = v2_hash H t /\
    v2_hok (v2_deep_hash H t) /\
    (forall wv, veq wv (v2_deep_hash H t) t).
  Proof.
    induction t as [k v m|k h s m l IHl r IHr]; intros Hok.
    - cbn [v2_deep_hash]. destruct (hs m) as [|b bs] eqn:E.
      + cbn [nmeta hs v2_hash ver v2_hok veq]. repeat split; auto.
      + destruct Hok as [[C|C] _]; cbn [nmeta] in C; [congruence|].
        split; [exact C|]. split; [reflexivity|]. split; [|intros; apply veq_refl].
        cbn [v2_hok nmeta]. auto.
    - cbn [v2_deep_hash]. destruct (hs m) as [|b bs] eqn:E.
      + destruct (v2_hok_sub _ _ _ _ _ _ Hok) as [Hl Hr].
        destruct (IHl Hl) as (A1 & A2 & A3 & A4). destruct (IHr Hr) as (B1 & B2 & B3 & B4).
        cbn [nmeta hs v2_hash ver]. rewrite A1, B1, A2, B2.
        split; [reflexivity|]. split; [reflexivity|]. split.
        * cbn [v2_hok nmeta hs v2_hash ver]. rewrite A2, B2. auto.
        * intros wv. cbn [veq]. unfold eff_ver. cbn [ver]. auto 8.
      + destruct Hok as [[C|C] Hc]; cbn [nmeta] in C; [congruence|].
        split; [exact C|]. split; [reflexivity|]. split; [|intros; apply veq_refl].
        cbn [v2_hok nmeta]. auto.
  Qed.

  Lemma v2_deep_hash_persisted t : all_persisted t -> all_persisted (v2_deep_hash H t).
  Proof.
    induction t as [k v m|k h s m l IHl r IHr]; cbn [v2_deep_hash all_persisted].
    - destruct (hs m); cbn [all_persisted ver]; auto.
    - intros (A & B & C). destruct (hs m); cbn [all_persisted ver]; auto.
  Qed.

  (** stamping changes nothing [veq] sees *)
  Lemma stamp_veq wv t : wv <> 0 -> forall n, veq wv t (fst (stamp H wv n t)).
  Proof.
    intros Hwv. induction t as [k v m|k h s m l IHl r IHr]; intros n.
    - rewrite stamp_leaf. unfold is_new. cbn [nmeta].
      destruct (ver m =? 0) eqn:E; cbn [negb fst]; [|apply veq_refl].
      apply Z.eqb_eq in E. cbn [veq].
      rewrite (eff_ver_new wv m E), eff_ver_old by exact Hwv. auto.
    - rewrite stamp_inner. unfold is_new. cbn [nmeta].
      destruct (ver m =? 0) eqn:E; cbn [negb fst]; [|apply veq_refl].
      apply Z.eqb_eq in E.
      specialize (IHl (n + 1)). destruct (stamp H wv (n + 1) l) as [l' n1].
      specialize (IHr n1). destruct (stamp H wv n1 r) as [r' n2].
      cbn [fst] in *. cbn [veq].
      rewrite (eff_ver_new wv m E), eff_ver_old by exact Hwv. auto 8.
  Qed.
End HashV2.

(** ** Item 2: histories.  The v2 Tree against the v1 MutableTree (MTree.step), operation by
    operation: same outputs (updated flags, removed values, root hashes, versions), related
    trees. *)
Definition oveq (wv : Z) (a b : option node) : Prop :=
  match a, b with
  | Some x, Some y => veq wv x y
  | None, None => True
  | _, _ => False
  end.

Definition opersisted (a : option node) : Prop :=
  match a with Some x => all_persisted x | None => True end.

Definition ohok (H : bytes -> bytes) (a : option node) : Prop :=
  match a with Some x => v2_hok H x | None => True end.

Lemma oveq_refl wv a : oveq wv a a.
Proof. destruct a; cbn [oveq]; auto using veq_refl. Qed.
Lemma oveq_sym wv a b : oveq wv a b -> oveq wv b a.
Proof. destruct a, b; cbn [oveq]; auto using veq_sym. Qed.
Lemma oveq_trans wv a b c : oveq wv a b -> oveq wv b c -> oveq wv a c.
Proof. destruct a, b, c; cbn [oveq]; try tauto. apply veq_trans. Qed.

Lemma lookup_above {A} v (l : list (Z * A)) :
  Forall (fun p => fst p < v) l -> lookup v l = None.
Proof.
  induction l as [|[w a] l IH]; intros F; [reflexivity|]. inversion F; subst. cbn [lookup fst] in *.
  replace (w =? v) with false by (symmetry; apply Z.eqb_neq; lia). auto.
Qed.

Section Simulation.
  Variable H : bytes -> bytes.

  Record sim (s1 : mstate) (s2 : v2tree) : Prop := Sim {
    sim_inv : state_inv s1;
    sim_hinv : hash_inv H s1;
    sim_init : init_set s1 = false;
    sim_ver : vt_version s2 = version s1;
    sim_forest : Forall (fun p => fst p < version s1 + 1) (forest s1);
    sim_root : oveq (version s1 + 1) (vt_root s2) (root s1);
    sim_pers : opersisted (vt_root s2);
    sim_hok : ohok H (vt_root s2)
  }.

  Lemma sim_init_state : sim (init_state 0 false) v2t_empty.
  Proof.
    constructor; cbn; auto.
    - apply state_inv_init. lia.
    - apply hash_inv_init. auto.
  Qed.

  Lemma sim_set s1 s2 k v :
    sim s1 s2 ->
    exists s2' u, v2t_set s2 k v = Some (s2', u) /\
                  XBool u = snd (do_set s1 k v) /\ sim (fst (do_set s1 k v)) s2'.
  Proof.
    intros S. pose proof (MTreeFacts.step_inv H s1 (OSet k v) (sim_inv _ _ S)) as SI'.
    pose proof (step_hash_inv H s1 (OSet k v) (sim_inv _ _ S) (sim_hinv _ _ S)) as HI'.
    cbn [MTree.step] in SI', HI'.
    pose proof (inv_version _ (sim_inv _ _ S)) as Hv.
    pose proof (inv_root _ (sim_inv _ _ S)) as IR.
    destruct S as [SI HI In Ev Fo Ro Pe Ho]. unfold v2t_set, do_set in *. rewrite Ev.
    destruct (root s1) as [n1|] eqn:R1, (vt_root s2) as [n2|] eqn:R2; cbn [oveq] in Ro; try contradiction.
    - cbn [oinv] in IR. destruct IR as [W1 A1].
      assert (W2 : wf n2) by (eapply veq_wf; [apply veq_sym, Ro|exact W1]).
      cbn [v2_root_set].
      destruct (v2_set_defined (version s1 + 1) (vt_lseq s2 + 1) k v n2 W2) as ([n2' u2] & E).
      rewrite E.
      pose proof (v2_set_veq (version s1 + 1) (vt_lseq s2 + 1) k v n2 n1 Ro) as Rl.
      rewrite E in Rl. cbn [vimp] in Rl. destruct Rl as [Rv Ru]. cbn [fst snd] in Rv, Ru.
      destruct (set n1 k v) as [n1' u1] eqn:E1. cbn [fst snd] in *. subst u1.
      eexists _, _. split; [reflexivity|]. split; [reflexivity|].
      constructor; cbn [root version init_set forest vt_root vt_version]; auto.
      + cbn [opersisted] in *. eapply v2_set_persisted; [|exact Pe|exact E]. lia.
      + cbn [ohok] in *. eapply v2_set_hok; eauto.
    - cbn [v2_root_set]. eexists _, _. split; [reflexivity|]. cbn [fst snd].
      split; [reflexivity|].
      constructor; cbn [root version init_set forest vt_root vt_version oveq veq]; auto.
      + rewrite eff_ver_v2, eff_ver_new_meta. auto.
      + cbn [opersisted all_persisted v2_meta ver]. lia.
      + cbn [ohok v2_hok nmeta v2_meta hs]. auto.
  Qed.

  Lemma sim_remove s1 s2 k :
    sim s1 s2 ->
    exists s2' x, v2t_step H s2 (WRemove k) = Some (s2', x) /\
                  x = snd (do_remove s1 k) /\ sim (fst (do_remove s1 k)) s2'.
  Proof.
    intros S. pose proof (MTreeFacts.step_inv H s1 (ORemove k) (sim_inv _ _ S)) as SI'.
    pose proof (step_hash_inv H s1 (ORemove k) (sim_inv _ _ S) (sim_hinv _ _ S)) as HI'.
    cbn [MTree.step] in SI', HI'.
    pose proof (inv_version _ (sim_inv _ _ S)) as Hv.
    pose proof (inv_root _ (sim_inv _ _ S)) as IR.
    pose proof S as S0.
    destruct S as [SI HI In Ev Fo Ro Pe Ho]. cbn [v2t_step]. unfold v2t_remove, do_remove in *.
    cbv zeta in *. rewrite Ev.
    destruct (root s1) as [n1|] eqn:R1, (vt_root s2) as [n2|] eqn:R2; cbn [oveq] in Ro; try contradiction.
    - cbn [oinv] in IR. destruct IR as [W1 A1].
      assert (W2 : wf n2) by (eapply veq_wf; [apply veq_sym, Ro|exact W1]).
      assert (A2 : avl n2) by (eapply veq_avl; [apply veq_sym, Ro|exact A1]).
      destruct (v2_remove_defined (version s1 + 1) k n2 W2 A2) as (res2 & E). rewrite E.
      pose proof (v2_remove_veq (version s1 + 1) k n2 n1 Ro) as Rl. rewrite E in Rl.
      cbn [vimp] in Rl. destruct Rl as (Rv & _ & Rs). rewrite <- Rv in SI', HI' |- *.
      destruct (rm_val res2) as [val|].
      + assert (NS : forall a b, sim (MState (rm_self (remove n1 k)) (version s1) (last_saved s1)
                       (forest s1) (init_ver s1) (init_set s1) (init_opt s1))
                       (V2Tree (rm_self res2) (version s1) a b)).
        { intros a b. cbn [fst] in SI', HI'.
          constructor; cbn [root version init_set forest vt_root vt_version]; auto.
          - destruct (rm_self res2) as [t'|] eqn:S2; cbn [opersisted]; [|exact I].
            eapply v2_remove_persisted; [|exact Pe|exact E|exact S2]. lia.
          - destruct (rm_self res2) as [t'|] eqn:S2; cbn [ohok]; [|exact I].
            eapply v2_remove_hok; [exact Ho|exact E|exact S2]. }
        destruct (match leaf_ver n2 k with Some lv => lv =? version s1 + 1 | None => false end);
          eexists _, _; (split; [reflexivity|]); cbn [fst snd]; (split; [reflexivity|]);
          apply NS.
      + eexists _, _. split; [reflexivity|]. cbn [fst snd]. split; [reflexivity|]. exact S0.
    - eexists _, _. split; [reflexivity|]. cbn [fst snd]. split; [reflexivity|]. exact S0.
  Qed.

  Lemma sim_save s1 s2 :
    sim s1 s2 ->
    exists s2' x, v2t_step H s2 WSave = Some (s2', x) /\
                  x = snd (do_save H s1) /\ sim (fst (do_save H s1)) s2'.
  Proof.
    intros S. pose proof (MTreeFacts.step_inv H s1 OSave (sim_inv _ _ S)) as SI'.
    pose proof (step_hash_inv H s1 OSave (sim_inv _ _ S) (sim_hinv _ _ S)) as HI'.
    cbn [MTree.step] in SI', HI'.
    pose proof (inv_version _ (sim_inv _ _ S)) as Hv.
    pose proof (hi_root H _ (sim_hinv _ _ S)) as HR.
    destruct S as [SI HI In Ev Fo Ro Pe Ho].
    assert (WV : working_version s1 = version s1 + 1).
    { unfold working_version. rewrite In, andb_false_r. reflexivity. }
    assert (L : lookup (version s1 + 1) (forest s1) = None) by (apply lookup_above, Fo).
    cbn [v2t_step v2t_save]. unfold do_save, version_exists in *. cbv zeta in *.
    rewrite WV in *. rewrite L in *. cbn [fst snd] in *.
    eexists _, _. split; [reflexivity|]. cbn [vt_version].
    assert (Hwv : version s1 + 1 <> 0) by lia.
    destruct (root s1) as [n1|] eqn:R1, (vt_root s2) as [n2|] eqn:R2; cbn [oveq] in Ro; try contradiction.
    - cbn [onode_ok] in HR. cbn [opersisted ohok] in Pe, Ho.
      destruct (stamp_hash_ok H (version s1 + 1) 0 n1 HR ltac:(lia)) as (A & B & C & D).
      destruct (v2_deep_hash_spec H n2 Ho) as (D1 & D2 & D3 & D4).
      split.
      + rewrite Ev. f_equal. f_equal. f_equal.
        rewrite (root_hash_stored H _ _ B), C. cbn [v2_compute_hash]. rewrite D1, v2_hash_pure.
        rewrite (pure_hash_persisted H n2 Pe 0 (version s1 + 1)).
        apply pure_hash_ext, veq_shape_eq, Ro.
      + constructor; cbn [root version init_set forest vt_root vt_version]; auto.
        * lia.
        * apply Forall_app. split.
          -- eapply Forall_impl; [|exact Fo]. cbn. intros; lia.
          -- constructor; [cbn; lia|constructor].
        * cbn [oveq]. apply (veq_persisted_any (version s1 + 1)).
          -- apply v2_deep_hash_persisted, Pe.
          -- exact B.
          -- eapply veq_trans; [apply D4|]. eapply veq_trans; [exact Ro|]. apply stamp_veq, Hwv.
        * cbn [opersisted]. apply v2_deep_hash_persisted, Pe.
    - split.
      + rewrite Ev. reflexivity.
      + constructor; cbn [root version init_set forest vt_root vt_version oveq opersisted ohok]; auto.
        * lia.
        * apply Forall_app. split.
          -- eapply Forall_impl; [|exact Fo]. cbn. intros; lia.
          -- constructor; [cbn; lia|constructor].
  Qed.

  Lemma sim_step s1 s2 o :
    sim s1 s2 ->
    exists s2' x, v2t_step H s2 o = Some (s2', x) /\
                  x = snd (MTree.step H s1 (wop_v1 o)) /\ sim (fst (MTree.step H s1 (wop_v1 o))) s2'.
  Proof.
    intros S. destruct o as [k v|k|]; cbn [wop_v1 MTree.step].
    - destruct (sim_set s1 s2 k v S) as (s2' & u & E & X & S'). cbn [v2t_step]. rewrite E. eauto.
    - apply sim_remove, S.
    - apply sim_save, S.
  Qed.

  Lemma sim_run ops : forall s1 s2,
    sim s1 s2 ->
    exists s2' xs, v2t_run H s2 ops = Some (s2', xs) /\
                   xs = snd (MTree.run H s1 (map wop_v1 ops)) /\
                   sim (fst (MTree.run H s1 (map wop_v1 ops))) s2'.
  Proof.
    induction ops as [|o ops IH]; intros s1 s2 S; cbn [v2t_run map MTree.run].
    - eexists _, _. split; [reflexivity|]. cbn [fst snd]. auto.
    - destruct (sim_step s1 s2 o S) as (s2a & x & E & X & S'). rewrite E.
      destruct (MTree.step H s1 (wop_v1 o)) as [s1a x1]. cbn [fst snd] in *. subst x1.
      destruct (IH s1a s2a S') as (s2b & xs & E2 & X2 & S2). rewrite E2.
      destruct (MTree.run H s1a (map wop_v1 ops)) as [s1b xs1]. cbn [fst snd] in *. subst xs1.
      eexists _, _. split; [reflexivity|]. auto.
  Qed.

  (** v2 never fails on a history of writes and commits, and answers every operation as v1
      does: the same "updated" flags, removed values, versions and ROOT HASHES. *)
  Theorem v2_same_hash ops :
    exists s2 xs,
      v2t_run H v2t_empty ops = Some (s2, xs) /\
      xs = snd (MTree.run H (init_state 0 false) (map wop_v1 ops)) /\
      sim (fst (MTree.run H (init_state 0 false) (map wop_v1 ops))) s2.
  Proof. apply sim_run, sim_init_state. Qed.
End Simulation.

(** ** Reads: every read of a v2 tree is the read of the related v1 tree, so the v1 results
    (C01 reads against the sorted-list specification, C11 balance) transfer. *)
Lemma veq_get wv k t1 : forall t2, veq wv t1 t2 -> get t1 k = get t2 k.
Proof.
  induction t1 as [lk lv m|nk h s m l IHl r IHr]; intros [lk2 lv2 m2|nk2 h2 s2 m2 l2 r2];
    cbn [veq]; try tauto.
  - intros (A & B & _). subst. reflexivity.
  - intros (A & B & C & D & E & F). subst. cbn [get].
    rewrite (IHl _ E), (IHr _ F), (veq_size _ _ _ F). reflexivity.
Qed.

Lemma veq_has wv k t1 : forall t2, veq wv t1 t2 -> has t1 k = has t2 k.
Proof.
  induction t1 as [lk lv m|nk h s m l IHl r IHr]; intros [lk2 lv2 m2|nk2 h2 s2 m2 l2 r2];
    cbn [veq]; try tauto.
  - intros (A & B & _). subst. reflexivity.
  - intros (A & B & C & D & E & F). subst. cbn [has nkey].
    rewrite (IHl _ E), (IHr _ F). reflexivity.
Qed.

Lemma veq_get_by_index wv t1 : forall t2 i, veq wv t1 t2 -> get_by_index t1 i = get_by_index t2 i.
Proof.
  induction t1 as [lk lv m|nk h s m l IHl r IHr]; intros [lk2 lv2 m2|nk2 h2 s2 m2 l2 r2] i;
    cbn [veq]; try tauto.
  - intros (A & B & _). subst. reflexivity.
  - intros (A & B & C & D & E & F). subst. cbn [get_by_index].
    rewrite (IHl _ _ E), (IHr _ _ F), (veq_size _ _ _ E). reflexivity.
Qed.

Theorem v2_reads_transfer wv t2 t1 :
  veq wv t2 t1 ->
  (forall k, get t2 k = get t1 k) /\ (forall k, has t2 k = has t1 k) /\
  (forall i, get_by_index t2 i = get_by_index t1 i) /\
  size t2 = size t1 /\ height t2 = height t1 /\ elems t2 = elems t1 /\
  (wf t1 -> wf t2) /\ (avl t1 -> avl t2) /\
  (forall H, pure_hash H wv t2 = pure_hash H wv t1).
Proof.
  intros E. repeat split.
  - intros k. apply (veq_get _ _ _ _ E).
  - intros k. apply (veq_has _ _ _ _ E).
  - intros i. apply (veq_get_by_index _ _ _ _ E).
  - apply (veq_size _ _ _ E).
  - apply (veq_height _ _ _ E).
  - apply (veq_elems _ _ _ E).
  - apply (veq_wf _ _ _ (veq_sym _ _ _ E)).
  - apply (veq_avl _ _ _ (veq_sym _ _ _ E)).
  - intros H. apply pure_hash_ext, veq_shape_eq, E.
Qed.

(** the step-level statements in the [shape_eq] vocabulary of HashFacts *)
Theorem v2_set_shape wv sq t k v :
  wf t ->
  exists t' , v2_set wv sq t k v = Some (t', snd (set t k v)) /\
              veq wv t' (fst (set t k v)) /\ shape_eq wv t' (fst (set t k v)).
Proof.
  intros W. destruct (v2_set_defined wv sq k v t W) as ([t' u] & E).
  pose proof (v2_set_veq wv sq k v t t (veq_refl wv t)) as R. rewrite E in R.
  destruct R as [R1 R2]. cbn [fst snd] in *. subst u.
  exists t'. split; [exact E|]. split; [exact R1|apply veq_shape_eq, R1].
Qed.

Theorem v2_remove_shape wv t k :
  wf t -> avl t ->
  exists res, v2_remove wv t k = Some res /\
    rm_val res = rm_val (remove t k) /\ rm_key res = rm_key (remove t k) /\
    match rm_self res, rm_self (remove t k) with
    | Some x, Some y => veq wv x y /\ shape_eq wv x y
    | None, None => True
    | _, _ => False
    end.
Proof.
  intros W A. destruct (v2_remove_defined wv k t W A) as (res & E).
  pose proof (v2_remove_veq wv k t t (veq_refl wv t)) as R. rewrite E in R.
  destruct R as (R1 & R2 & R3). exists res. repeat split; auto.
  destruct (rm_self res), (rm_self (remove t k)); auto using veq_shape_eq.
Qed.

(** * 2. The TreeIterator (item 3) *)

Lemma dsorted_app_r asc (a b : kvs) : dsorted asc (a ++ b) -> dsorted asc b.
Proof.
  induction a as [|[k v] a IH]; cbn [app dsorted]; [auto|]. intros [_ S]. auto.
Qed.

Lemma filter_nil_Forall {A} (f : A -> bool) l : Forall (fun x => f x = false) l -> filter f l = [].
Proof.
  induction l as [|x l IH]; intros F; [reflexivity|]. inversion F; subst. cbn [filter].
  rewrite H1. auto.
Qed.

Lemma filter_rev' {A} (f : A -> bool) l : filter f (rev l) = rev (filter f l).
Proof.
  induction l as [|x l IH]; [reflexivity|]. cbn [rev filter]. rewrite filter_app, IH. cbn [filter].
  destruct (f x); cbn [rev]; [reflexivity|]. rewrite app_nil_r. reflexivity.
Qed.

Lemma v2_nodes_pos t : (0 < v2_nodes t)%nat.
Proof. destruct t; cbn [v2_nodes]; lia. Qed.

Lemma elems_le_nodes t : (length (elems t) <= v2_nodes t)%nat.
Proof.
  induction t as [|k h s m l IHl r IHr]; cbn [elems v2_nodes length]; [lia|].
  rewrite app_length. lia.
Qed.

Lemma not_lt_nil (x : bytes) : ~ x <b [].
Proof. unfold BytesO.lt. destruct x; cbn; auto. Qed.

Definition nodes_of (st : list node) : nat := fold_right (fun n a => (v2_nodes n + a)%nat) 0%nat st.
Ltac nodes_lia := unfold nodes_of in *; cbn [fold_right v2_nodes] in *; lia.

Section IterProofs.
  Variables (start stop : option bytes) (incl : bool).

  Definition lo (k : bytes) : bool := match start with None => true | Some s => ble s k end.
  Definition hi (i : bool) (k : bytes) : bool :=
    match stop with None => true | Some e => if i then ble k e else blt k e end.

  Lemma in_range_lo_hi i k : in_range start stop i k = lo k && hi i k.
  Proof. reflexivity. Qed.

  Lemma start_test k : blt k (onil start) = negb (lo k).
  Proof.
    unfold lo, onil. destruct start as [s|].
    - unfold blt, ble. rewrite (bcmp_antisym k s). destruct (bcmp k s); reflexivity.
    - unfold blt. destruct k; reflexivity.
  Qed.

  Lemma past_end_asc_hi k : past_end_asc stop incl k = negb (hi incl k).
  Proof.
    unfold past_end_asc, hi. destruct stop as [e|]; [|reflexivity].
    unfold blt, ble. rewrite (bcmp_antisym k e). destruct incl, (bcmp k e); reflexivity.
  Qed.

  Lemma past_end_desc_lo k : past_end_desc start k = negb (lo k).
  Proof.
    unfold past_end_desc, lo. destruct start as [s|]; [|reflexivity].
    unfold blt, ble. rewrite (bcmp_antisym k s). destruct (bcmp k s); reflexivity.
  Qed.

  (** the inclusive flag is ignored by stepDescend's leaf test *)
  Lemma skip_desc_hi k : skip_desc stop incl k = negb (hi false k).
  Proof.
    unfold skip_desc, hi. destruct stop as [e|]; [|reflexivity].
    unfold blt, ble. rewrite (bcmp_antisym k e). destruct incl, (bcmp k e); reflexivity.
  Qed.

  Lemma lo_mono k k' : k <b k' -> lo k = true -> lo k' = true.
  Proof.
    unfold lo. destruct start as [s|]; [|auto]. intros L E. btests. apply ble_true. border.
  Qed.
  Lemma hi_mono i k k' : k <b k' -> hi i k = false -> hi i k' = false.
  Proof.
    unfold hi. destruct stop as [e|]; [|discriminate]. intros L E.
    destruct i; btests; [apply ble_false|apply blt_false]; border.
  Qed.
  Lemma lo_mono_inv k k' : k <b k' -> lo k' = false -> lo k = false.
  Proof.
    intros L E. destruct (lo k) eqn:C; [|reflexivity]. rewrite (lo_mono _ _ L C) in E. discriminate.
  Qed.
  Lemma hi_mono_inv i k k' : k <b k' -> hi i k' = true -> hi i k = true.
  Proof.
    intros L E. destruct (hi i k) eqn:C; [reflexivity|]. rewrite (hi_mono _ _ _ L C) in E. discriminate.
  Qed.

  (** what a stack stands for *)
  Definition rem_asc (st : list node) : kvs := flat_map elems st.
  Definition rem_desc (st : list node) : kvs := flat_map (fun n => rev (elems n)) st.

  Definition sel (i : bool) (p : bytes * bytes) : bool := in_range start stop i (fst p).

  Definition inv_asc (st : list node) (started : bool) : Prop :=
    Forall wf st /\ dsorted true (rem_asc st) /\
    (started = true -> Forall (fun p => lo (fst p) = true) (rem_asc st)).

  Definition inv_desc (st : list node) (started : bool) : Prop :=
    Forall wf st /\ dsorted false (rem_desc st) /\
    (started = true -> Forall (fun p => hi false (fst p) = true) (rem_desc st)).

  (** the contract of one Next() *)
  Definition next_ok (inv : list node -> bool -> Prop) (remf : list node -> kvs)
             (f : bytes * bytes -> bool) (st : list node)
             (r : option (bytes * bytes) * list node) : Prop :=
    match filter f (remf st) with
    | [] => fst r = None
    | kv :: tl =>
        fst r = Some kv /\ inv (snd r) true /\ filter f (remf (snd r)) = tl /\
        (nodes_of (snd r) < nodes_of st)%nat
    end.

  Lemma next_ok_weaken inv remf f st st0 r :
    filter f (remf st0) = filter f (remf st) -> (nodes_of st <= nodes_of st0)%nat ->
    next_ok inv remf f st r -> next_ok inv remf f st0 r.
  Proof.
    unfold next_ok. intros -> L. destruct (filter f (remf st)); [auto|].
    intros (A & B & C & D). repeat split; auto. lia.
  Qed.

  Lemma step_asc_ok fuel : forall st started,
    inv_asc st started -> (nodes_of st < fuel)%nat ->
    exists r, v2_step_asc start stop incl fuel st started = Some r /\
              next_ok inv_asc rem_asc (sel incl) st r.
  Proof.
    induction fuel as [|f IH]; intros st started (W & S & L) F; [lia|].
    destruct st as [|n st']; cbn [v2_step_asc].
    { eexists. split; [reflexivity|]. unfold next_ok. cbn. reflexivity. }
    inversion W as [|? ? Wn Wst]; subst.
    destruct n as [k v m|nk h s m l r].
    - (* leaf *)
      cbn [rem_asc flat_map elems app] in S, L. cbn [dsorted] in S. destruct S as [Fk S'].
      rewrite start_test, past_end_asc_hi.
      destruct (negb started && negb (lo k)) eqn:T1.
      + apply andb_prop in T1. destruct T1 as [T1 T2]. apply negb_true_iff in T1, T2. subst started.
        destruct (IH st' false) as (r & E & Ok).
        { split; [exact Wst|]. split; [exact S'|discriminate]. }
        { nodes_lia. }
        exists r. split; [exact E|].
        eapply next_ok_weaken; [| |exact Ok].
        * cbn [rem_asc flat_map elems app filter]. unfold sel at 1. cbn [fst].
          rewrite in_range_lo_hi, T2. reflexivity.
        * nodes_lia.
      + assert (Lk : lo k = true).
        { apply andb_false_iff in T1. destruct T1 as [T1|T1].
          - apply negb_false_iff in T1. specialize (L T1). inversion L; subst. assumption.
          - apply negb_false_iff in T1. exact T1. }
        destruct (hi incl k) eqn:Hk; cbn [negb].
        * eexists. split; [reflexivity|]. unfold next_ok.
          cbn [rem_asc flat_map elems app filter]. unfold sel at 1. cbn [fst].
          rewrite in_range_lo_hi, Lk, Hk. cbn [andb fst snd].
          split; [reflexivity|]. split; [|split; [reflexivity|nodes_lia]].
          split; [exact Wst|]. split; [exact S'|]. intros _.
          eapply Forall_impl; [|exact Fk]. cbn. intros p Hp. exact (lo_mono _ _ Hp Lk).
        * eexists. split; [reflexivity|]. unfold next_ok.
          cbn [rem_asc flat_map elems app filter]. unfold sel at 1. cbn [fst].
          rewrite in_range_lo_hi, Hk, andb_false_r.
          rewrite filter_nil_Forall; [reflexivity|].
          eapply Forall_impl; [|exact Fk]. cbn. intros p Hp. unfold sel.
          rewrite in_range_lo_hi, (hi_mono _ _ _ Hp Hk). apply andb_false_r.
    - (* branch *)
      cbn [wf] in Wn. destruct Wn as (Wl & Wr & Kl & _).
      destruct (blt (onil start) nk) eqn:T.
      + destruct (IH (l :: r :: st') started) as (r0 & E & Ok).
        { split; [auto|]. cbn [rem_asc flat_map elems] in *. rewrite <- app_assoc in S, L. auto. }
        { nodes_lia. }
        exists r0. split; [exact E|].
        eapply next_ok_weaken; [| |exact Ok].
        * cbn [rem_asc flat_map elems]. rewrite <- app_assoc. reflexivity.
        * nodes_lia.
      + assert (NL : Forall (fun p => sel incl p = false) (elems l)).
        { apply keys_all_elems in Kl. eapply Forall_impl; [|exact Kl]. cbn. intros p Hp.
          unfold sel. rewrite in_range_lo_hi. btests.
          replace (lo (fst p)) with false; [reflexivity|]. symmetry.
          unfold lo, onil in *. destruct start as [s0|].
          - apply ble_false. border.
          - exfalso. apply (not_lt_nil (fst p)). border. }
        cbn [rem_asc flat_map elems] in S, L. rewrite <- app_assoc in S, L.
        destruct (IH (r :: st') started) as (r0 & E & Ok).
        { split; [auto|]. split; [exact (dsorted_app_r _ _ _ S)|].
          intros St. specialize (L St). apply Forall_app in L. apply L. }
        { nodes_lia. }
        exists r0. split; [exact E|].
        eapply next_ok_weaken; [| |exact Ok].
        * cbn [rem_asc flat_map elems]. rewrite <- app_assoc, filter_app, (filter_nil_Forall _ _ NL).
          reflexivity.
        * nodes_lia.
  Qed.

  Lemma step_desc_ok fuel : forall st started,
    inv_desc st started -> (nodes_of st < fuel)%nat ->
    exists r, v2_step_desc start stop incl fuel st started = Some r /\
              next_ok inv_desc rem_desc (sel false) st r.
  Proof.
    induction fuel as [|f IH]; intros st started (W & S & L) F; [lia|].
    destruct st as [|n st']; cbn [v2_step_desc].
    { eexists. split; [reflexivity|]. unfold next_ok. cbn. reflexivity. }
    inversion W as [|? ? Wn Wst]; subst.
    destruct n as [k v m|nk h s m l r].
    - (* leaf *)
      cbn [rem_desc flat_map elems rev app] in S, L. cbn [dsorted] in S. destruct S as [Fk S'].
      rewrite skip_desc_hi, past_end_desc_lo.
      destruct (negb started && negb (hi false k)) eqn:T1.
      + apply andb_prop in T1. destruct T1 as [T1 T2]. apply negb_true_iff in T1, T2. subst started.
        destruct (IH st' false) as (r & E & Ok).
        { split; [exact Wst|]. split; [exact S'|discriminate]. }
        { nodes_lia. }
        exists r. split; [exact E|].
        eapply next_ok_weaken; [| |exact Ok].
        * cbn [rem_desc flat_map elems rev app filter]. unfold sel at 1. cbn [fst].
          rewrite in_range_lo_hi, T2, andb_false_r. reflexivity.
        * nodes_lia.
      + assert (Hk : hi false k = true).
        { apply andb_false_iff in T1. destruct T1 as [T1|T1].
          - apply negb_false_iff in T1. specialize (L T1). inversion L; subst. assumption.
          - apply negb_false_iff in T1. exact T1. }
        destruct (lo k) eqn:Lk; cbn [negb].
        * eexists. split; [reflexivity|]. unfold next_ok.
          cbn [rem_desc flat_map elems rev app filter]. unfold sel at 1. cbn [fst].
          rewrite in_range_lo_hi, Lk, Hk. cbn [andb fst snd].
          split; [reflexivity|]. split; [|split; [reflexivity|nodes_lia]].
          split; [exact Wst|]. split; [exact S'|]. intros _.
          eapply Forall_impl; [|exact Fk]. cbn. intros p Hp. exact (hi_mono_inv _ _ _ Hp Hk).
        * eexists. split; [reflexivity|]. unfold next_ok.
          cbn [rem_desc flat_map elems rev app filter]. unfold sel at 1. cbn [fst].
          rewrite in_range_lo_hi, Lk. cbn [andb].
          rewrite filter_nil_Forall; [reflexivity|].
          eapply Forall_impl; [|exact Fk]. cbn. intros p Hp. unfold sel.
          rewrite in_range_lo_hi, (lo_mono_inv _ _ Hp Lk). reflexivity.
    - (* branch *)
      cbn [wf] in Wn. destruct Wn as (Wl & Wr & _ & Kr & _).
      assert (RE : rem_desc (Inner nk h s m l r :: st') =
                   rev (elems r) ++ rev (elems l) ++ rem_desc st').
      { cbn [rem_desc flat_map elems]. rewrite rev_app_distr, <- app_assoc. reflexivity. }
      rewrite RE in S, L.
      destruct (match stop with None => true | Some e => ble nk e end) eqn:T.
      + destruct (IH (r :: l :: st') started) as (r0 & E & Ok).
        { split; [auto|]. cbn [rem_desc flat_map] in *. auto. }
        { nodes_lia. }
        exists r0. split; [exact E|].
        eapply next_ok_weaken; [| |exact Ok].
        * rewrite RE. reflexivity.
        * nodes_lia.
      + assert (NR : Forall (fun p => sel false p = false) (rev (elems r))).
        { apply keys_all_elems in Kr. apply Forall_rev. eapply Forall_impl; [|exact Kr]. cbn.
          intros p Hp. unfold sel. rewrite in_range_lo_hi.
          replace (hi false (fst p)) with false; [apply andb_false_r|]. symmetry.
          unfold hi. destruct stop as [e|]; [|discriminate]. btests. apply blt_false. border. }
        destruct (IH (l :: st') started) as (r0 & E & Ok).
        { split; [auto|]. split; [exact (dsorted_app_r _ _ _ S)|].
          intros St. specialize (L St). apply Forall_app in L. apply L. }
        { nodes_lia. }
        exists r0. split; [exact E|].
        eapply next_ok_weaken; [| |exact Ok].
        * rewrite RE, filter_app, (filter_nil_Forall _ _ NR). reflexivity.
        * nodes_lia.
  Qed.

  (** draining an iterator *)
  Lemma collect_ok asc (inv : list node -> bool -> Prop) remf f :
    (forall fuel st started, inv st started -> (nodes_of st < fuel)%nat ->
       exists r, v2_next start stop incl asc fuel st started = Some r /\ next_ok inv remf f st r) ->
    forall n fuel st started,
      inv st started -> (nodes_of st < fuel)%nat -> (length (filter f (remf st)) < n)%nat ->
      v2_collect start stop incl asc n fuel st started = Some (filter f (remf st)).
  Proof.
    intros Hstep. induction n as [|n IH]; intros fuel st started I F Ln; [lia|].
    cbn [v2_collect]. destruct (Hstep fuel st started I F) as ([o st'] & E & Ok). rewrite E.
    unfold next_ok in Ok. cbn [fst snd] in Ok.
    destruct (filter f (remf st)) as [|kv tl] eqn:Fl.
    - subst o. reflexivity.
    - destruct Ok as (-> & I' & Fl' & N').
      rewrite (IH fuel st' true I'); [rewrite Fl'; reflexivity|lia|rewrite Fl'; cbn [length] in Ln; lia].
  Qed.

  Lemma next_asc_ok fuel st started :
    inv_asc st started -> (nodes_of st < fuel)%nat ->
    exists r, v2_next start stop incl true fuel st started = Some r /\
              next_ok inv_asc rem_asc (sel incl) st r.
  Proof.
    intros I F. destruct st as [|n st'].
    - eexists. split; [reflexivity|]. unfold next_ok. cbn. reflexivity.
    - cbn [v2_next]. apply step_asc_ok; assumption.
  Qed.

  Lemma next_desc_ok fuel st started :
    inv_desc st started -> (nodes_of st < fuel)%nat ->
    exists r, v2_next start stop incl false fuel st started = Some r /\
              next_ok inv_desc rem_desc (sel false) st r.
  Proof.
    intros I F. destruct st as [|n st'].
    - eexists. split; [reflexivity|]. unfold next_ok. cbn. reflexivity.
    - cbn [v2_next]. apply step_desc_ok; assumption.
  Qed.
End IterProofs.

(** Item 3.  Forward iteration (inclusive or not) is the range selection of the sorted
    leaf list. *)
Theorem v2_iter_spec_asc t start stop incl :
  wf t ->
  v2_iter_collect (Some t) start stop incl true = Some (range_spec (elems t) start stop incl true).
Proof.
  intros W. unfold v2_iter_collect, range_spec.
  rewrite (collect_ok start stop incl true (inv_asc start) rem_asc (sel start stop incl)
             (next_asc_ok start stop incl)).
  - cbn [rem_asc flat_map]. rewrite app_nil_r. reflexivity.
  - split; [auto|]. split; [|discriminate]. cbn [rem_asc flat_map]. rewrite app_nil_r.
    apply dsorted_true, wf_sorted, W.
  - nodes_lia.
  - cbn [rem_asc flat_map]. rewrite app_nil_r.
    pose proof (filter_length_le (sel start stop incl) (elems t)). pose proof (elems_le_nodes t). lia.
Qed.

(** Reverse iteration is the reversed EXCLUSIVE range selection, whatever the [inclusive]
    field says (the public ReverseIterator always passes [false]). *)
Theorem v2_iter_spec_desc t start stop incl :
  wf t ->
  v2_iter_collect (Some t) start stop incl false =
    Some (range_spec (elems t) start stop false false).
Proof.
  intros W. unfold v2_iter_collect, range_spec.
  rewrite (collect_ok start stop incl false (inv_desc stop) rem_desc (sel start stop false)
             (next_desc_ok start stop incl)).
  - cbn [rem_desc flat_map]. rewrite app_nil_r, filter_rev'. reflexivity.
  - split; [auto|]. split; [|discriminate]. cbn [rem_desc flat_map]. rewrite app_nil_r.
    change false with (negb true). apply dsorted_rev, dsorted_true, wf_sorted, W.
  - nodes_lia.
  - cbn [rem_desc flat_map]. rewrite app_nil_r, filter_rev', rev_length.
    pose proof (filter_length_le (sel start stop false) (elems t)). pose proof (elems_le_nodes t). lia.
Qed.

Theorem v2_iter_spec root start stop incl asc :
  oinv root ->
  v2_iter_collect root start stop incl asc =
    Some (range_spec (oelems root) start stop (incl && asc) asc).
Proof.
  destruct root as [t|]; cbn [oinv oelems].
  - intros [W _]. destruct asc.
    + rewrite andb_true_r. apply v2_iter_spec_asc, W.
    + rewrite andb_false_r. apply v2_iter_spec_desc, W.
  - intros _. cbn [v2_iter_collect]. unfold range_spec. cbn. destruct asc; reflexivity.
Qed.

(** The [inclusive] branch of stepDescend is wrong: the end key itself is skipped.  It cannot
    be reached through the public API (ReverseIterator hard-codes inclusive = false). *)
Theorem v2_iter_desc_inclusive_refuted :
  exists t start stop,
    wf t /\
    v2_iter_collect (Some t) start stop true false <>
      Some (range_spec (elems t) start stop true false).
Proof.
  exists (Inner [2%N] 1 2 new_meta (Leaf [1%N] [10%N] new_meta) (Leaf [2%N] [20%N] new_meta)),
         None, (Some [2%N]).
  split.
  - cbn [wf keys_all min_key height size]. repeat split; try reflexivity; cbn; auto.
  - vm_compute. discriminate.
Qed.

(** [v2_same_hash] with the consequences of the simulation relation spelled out *)
Theorem v2_same_hash_full (H : bytes -> bytes) (ops : list wop) :
  let r1 := MTree.run H (init_state 0 false) (map wop_v1 ops) in
  exists s2 xs,
    v2t_run H v2t_empty ops = Some (s2, xs) /\
    xs = snd r1 /\
    vt_version s2 = version (fst r1) /\
    oveq (version (fst r1) + 1) (vt_root s2) (root (fst r1)) /\
    oelems (vt_root s2) = oelems (root (fst r1)) /\
    (forall H', opure_hash H' (version (fst r1) + 1) (vt_root s2) =
                opure_hash H' (version (fst r1) + 1) (root (fst r1))) /\
    oinv (vt_root s2).
Proof.
  intros r1. destruct (v2_same_hash H ops) as (s2 & xs & E & X & S). fold r1 in X, S.
  exists s2, xs. split; [exact E|]. split; [exact X|].
  pose proof (sim_root _ _ _ S) as R. pose proof (inv_root _ (sim_inv _ _ _ S)) as IR.
  split; [apply (sim_ver _ _ _ S)|]. split; [exact R|].
  destruct (vt_root s2) as [n2|], (root (fst r1)) as [n1|]; cbn [oveq] in R; try contradiction;
    cbn [oelems opure_hash oinv] in *.
  - split; [apply (veq_elems _ _ _ R)|]. split.
    + intros H'. apply pure_hash_ext, veq_shape_eq, R.
    + destruct IR as [W A]. split.
      * apply (veq_wf _ _ _ (veq_sym _ _ _ R) W).
      * apply (veq_avl _ _ _ (veq_sym _ _ _ R) A).
  - auto.
Qed.

(** * 3. Persistence (C20) *)

(** ** The leaves of a tree with their metadata *)
Fixpoint leaves (t : node) : list (bytes * bytes * meta) :=
  match t with
  | Leaf k v m => [(k, v, m)]
  | Inner _ _ _ _ l r => leaves l ++ leaves r
  end.

Definition oleaves (t : option node) : list (bytes * bytes * meta) :=
  match t with Some n => leaves n | None => [] end.

Lemma v2_rotR_leaves wv t t' : v2_rotR wv t = Some t' -> leaves t' = leaves t.
Proof.
  destruct t as [|k h s m l r]; [discriminate|]. destruct l as [|lk lh ls lm ll lr]; [discriminate|].
  cbn [v2_rotR]. intros E; injection E as <-. cbn [v2_node leaves]. apply app_assoc.
Qed.

Lemma v2_rotL_leaves wv t t' : v2_rotL wv t = Some t' -> leaves t' = leaves t.
Proof.
  destruct t as [|k h s m l r]; [discriminate|]. destruct r as [|rk rh rs rm rl rr]; [discriminate|].
  cbn [v2_rotL]. intros E; injection E as <-. cbn [v2_node leaves]. symmetry. apply app_assoc.
Qed.

Lemma v2_balance_leaves wv t t' : v2_balance wv t = Some t' -> leaves t' = leaves t.
Proof.
  destruct t as [|k h s m l r]; [discriminate|]. cbn [v2_balance].
  destruct (hs m); [|discriminate].
  destruct (1 <? height l - height r).
  - destruct (0 <=? bal_of l); [apply v2_rotR_leaves|].
    destruct (v2_rotL wv l) as [l'|] eqn:E; [|discriminate].
    intros E2. rewrite (v2_rotR_leaves _ _ _ E2). cbn [leaves].
    rewrite (v2_rotL_leaves _ _ _ E). reflexivity.
  - destruct (height l - height r <? -1); [|intros E; injection E as <-; reflexivity].
    destruct (bal_of r <=? 0); [apply v2_rotL_leaves|].
    destruct (v2_rotR wv r) as [r'|] eqn:E; [|discriminate].
    intros E2. rewrite (v2_rotL_leaves _ _ _ E2). cbn [leaves].
    rewrite (v2_rotR_leaves _ _ _ E). reflexivity.
Qed.

(** a Set inserts one leaf or replaces the leaf of the same key; all others are untouched *)
Lemma v2_set_leaves wv sq k v t : forall t' u,
  v2_set wv sq t k v = Some (t', u) ->
  exists l1 l2,
    leaves t' = l1 ++ (k, v, v2_meta wv sq) :: l2 /\
    (if u then exists v0 m0, leaves t = l1 ++ (k, v0, m0) :: l2 else leaves t = l1 ++ l2).
Proof.
  induction t as [lk lv m|nk h s m l IHl r IHr]; intros t' u; cbn [v2_set].
  - destruct (bcmp k lk) eqn:C; intros E; injection E as <- <-; cbn [leaves].
    + apply bcmp_eq in C. subst lk. exists [], []. split; [reflexivity|]. exists lv, m. reflexivity.
    + exists [], [(lk, lv, m)]. split; reflexivity.
    + exists [(lk, lv, m)], []. split; reflexivity.
  - destruct (blt k nk).
    + destruct (v2_set wv sq l k v) as [[l' upd]|]; [|discriminate].
      destruct (IHl l' upd eq_refl) as (l1 & l2 & E1 & E2).
      assert (G : forall t1, leaves t1 = leaves l' ++ leaves r -> exists l1 l2,
                  leaves t1 = l1 ++ (k, v, v2_meta wv sq) :: l2 /\
                  (if upd then exists v0 m0, leaves l ++ leaves r = l1 ++ (k, v0, m0) :: l2
                   else leaves l ++ leaves r = l1 ++ l2)).
      { intros t1 ->. exists l1, (l2 ++ leaves r). rewrite E1, <- app_assoc. split; [reflexivity|].
        destruct upd.
        - destruct E2 as (v0 & m0 & ->). exists v0, m0. rewrite <- app_assoc. reflexivity.
        - rewrite E2, <- app_assoc. reflexivity. }
      destruct upd.
      * intros E; injection E as <- <-. apply G. reflexivity.
      * destruct (v2_balance wv (v2_node wv nk l' r)) as [t1|] eqn:B; [|discriminate].
        intros E; injection E as <- <-. apply G. rewrite (v2_balance_leaves _ _ _ B). reflexivity.
    + destruct (v2_set wv sq r k v) as [[r' upd]|]; [|discriminate].
      destruct (IHr r' upd eq_refl) as (l1 & l2 & E1 & E2).
      assert (G : forall t1, leaves t1 = leaves l ++ leaves r' -> exists l1 l2,
                  leaves t1 = l1 ++ (k, v, v2_meta wv sq) :: l2 /\
                  (if upd then exists v0 m0, leaves l ++ leaves r = l1 ++ (k, v0, m0) :: l2
                   else leaves l ++ leaves r = l1 ++ l2)).
      { intros t1 ->. exists (leaves l ++ l1), l2. rewrite E1, <- app_assoc. split; [reflexivity|].
        destruct upd.
        - destruct E2 as (v0 & m0 & ->). exists v0, m0. rewrite <- app_assoc. reflexivity.
        - rewrite E2, <- app_assoc. reflexivity. }
      destruct upd.
      * intros E; injection E as <- <-. apply G. reflexivity.
      * destruct (v2_balance wv (v2_node wv nk l r')) as [t1|] eqn:B; [|discriminate].
        intros E; injection E as <- <-. apply G. rewrite (v2_balance_leaves _ _ _ B). reflexivity.
Qed.

(** a successful Remove deletes exactly the leaf [leaf_ver] looks at *)
Lemma v2_remove_leaves wv k t : forall res val,
  v2_remove wv t k = Some res -> rm_val res = Some val ->
  exists l1 v0 m0 l2,
    leaves t = l1 ++ (k, v0, m0) :: l2 /\ leaf_ver t k = Some (ver m0) /\
    match rm_self res with
    | Some t' => leaves t' = l1 ++ l2
    | None => l1 = [] /\ l2 = []
    end.
Proof.
  induction t as [lk lv m|nk h s m l IHl r IHr]; intros res val; cbn [v2_remove leaf_ver].
  - destruct (beq k lk) eqn:B; intros E; injection E as <-; cbn [rm_val rm_self]; [|discriminate].
    intros _. btests. subst lk. exists [], lv, m, []. cbn [leaves]. auto.
  - destruct (blt k nk).
    + destruct (v2_remove wv l k) as [res1|]; [|discriminate].
      destruct (rm_val res1) as [val1|] eqn:V1;
        [|intros E; injection E as <-; cbn [rm_val]; discriminate].
      destruct (IHl res1 val1 eq_refl V1) as (l1 & v0 & m0 & l2 & E1 & E2 & E3).
      destruct (rm_self res1) as [l'|].
      * destruct (v2_balance wv (v2_node wv nk l' r)) as [t1|] eqn:Bal; [|discriminate].
        intros E; injection E as <-; cbn [rm_val rm_self]. intros _.
        exists l1, v0, m0, (l2 ++ leaves r). cbn [leaves]. rewrite E1, <- app_assoc.
        split; [reflexivity|]. split; [exact E2|].
        rewrite (v2_balance_leaves _ _ _ Bal). cbn [v2_node leaves]. rewrite E3, <- app_assoc.
        reflexivity.
      * intros E; injection E as <-; cbn [rm_val rm_self]. intros _.
        destruct E3 as [-> ->]. exists [], v0, m0, (leaves r). cbn [leaves]. rewrite E1.
        auto.
    + destruct (v2_remove wv r k) as [res1|]; [|discriminate].
      destruct (rm_val res1) as [val1|] eqn:V1;
        [|intros E; injection E as <-; cbn [rm_val]; discriminate].
      destruct (IHr res1 val1 eq_refl V1) as (l1 & v0 & m0 & l2 & E1 & E2 & E3).
      destruct (rm_self res1) as [r'|].
      * cbv zeta. destruct (v2_balance wv (v2_node wv _ l r')) as [t1|] eqn:Bal; [|discriminate].
        intros E; injection E as <-; cbn [rm_val rm_self]. intros _.
        exists (leaves l ++ l1), v0, m0, l2. cbn [leaves]. rewrite E1, <- app_assoc.
        split; [reflexivity|]. split; [exact E2|].
        rewrite (v2_balance_leaves _ _ _ Bal). cbn [v2_node leaves]. rewrite E3, <- app_assoc.
        reflexivity.
      * intros E; injection E as <-; cbn [rm_val rm_self]. intros _.
        destruct E3 as [-> ->]. exists (leaves l), v0, m0, []. cbn [leaves]. rewrite E1, app_nil_r.
        auto.
Qed.

(** the changelog rows read off the leaves *)
Definition row_of (wv : Z) (x : bytes * bytes * meta) : list (Z * logop) :=
  let '(k, v, m) := x in if ver m =? wv then [(nonce m, LSet k v)] else [].
Definition rows_of (wv : Z) (ls : list (bytes * bytes * meta)) : list (Z * logop) :=
  flat_map (row_of wv) ls.

Lemma leaf_rows_leaves wv t : leaf_rows wv t = rows_of wv (leaves t).
Proof.
  induction t as [k v m|k h s m l IHl r IHr]; cbn [leaf_rows leaves].
  - unfold rows_of. cbn [flat_map row_of]. rewrite app_nil_r. reflexivity.
  - unfold rows_of in *. rewrite flat_map_app, IHl, IHr. reflexivity.
Qed.

Lemma rows_of_app wv a b : rows_of wv (a ++ b) = rows_of wv a ++ rows_of wv b.
Proof. apply flat_map_app. Qed.

(** ** Sorting rows by sequence *)
Fixpoint rsorted (l : list (Z * logop)) : Prop :=
  match l with
  | [] => True
  | x :: r => Forall (fun y => fst x < fst y) r /\ rsorted r
  end.
Fixpoint wsorted (l : list (Z * logop)) : Prop :=
  match l with
  | [] => True
  | x :: r => Forall (fun y => fst x <= fst y) r /\ wsorted r
  end.

Lemma ins_row_perm x l : Permutation (ins_row x l) (x :: l).
Proof.
  induction l as [|y l IH]; cbn [ins_row]; [reflexivity|].
  destruct (fst x <=? fst y); [reflexivity|].
  rewrite IH. apply perm_swap.
Qed.

Lemma sort_rows_perm l : Permutation (sort_rows l) l.
Proof.
  induction l as [|x l IH]; cbn [sort_rows fold_right]; [reflexivity|].
  fold (sort_rows l). rewrite ins_row_perm, IH. reflexivity.
Qed.

Lemma ins_row_wsorted x l : wsorted l -> wsorted (ins_row x l).
Proof.
  induction l as [|y l IH]; cbn [ins_row wsorted]; [auto|]. intros [F S].
  destruct (fst x <=? fst y) eqn:C.
  - apply Z.leb_le in C. cbn [wsorted]. split; [|auto]. constructor; [exact C|].
    eapply Forall_impl; [|exact F]. cbn. intros; lia.
  - apply Z.leb_gt in C. cbn [wsorted]. split; [|auto].
    eapply Permutation_Forall; [symmetry; apply ins_row_perm|]. constructor; [lia|exact F].
Qed.

Lemma sort_rows_wsorted l : wsorted (sort_rows l).
Proof.
  induction l as [|x l IH]; cbn [sort_rows fold_right]; [exact I|]. apply ins_row_wsorted, IH.
Qed.

Lemma sorted_perm_eq a : forall b, wsorted a -> rsorted b -> Permutation a b -> a = b.
Proof.
  induction a as [|x a IH]; intros b Wa Rb P.
  - apply Permutation_nil in P. auto.
  - destruct b as [|y b]; [symmetry in P; apply Permutation_nil in P; discriminate|].
    cbn [wsorted rsorted] in Wa, Rb. destruct Wa as [Fa Wa]. destruct Rb as [Fb Rb].
    assert (x = y).
    { assert (Ix : In x (y :: b)) by (eapply Permutation_in; [exact P|left; reflexivity]).
      assert (Iy : In y (x :: a))
        by (eapply Permutation_in; [symmetry; exact P|left; reflexivity]).
      destruct Ix as [->|Ix]; [reflexivity|]. destruct Iy as [->|Iy]; [reflexivity|].
      rewrite Forall_forall in Fa, Fb. specialize (Fa _ Iy). specialize (Fb _ Ix). lia. }
    subst y. f_equal. apply IH; auto. eapply Permutation_cons_inv, P.
Qed.

Lemma sort_rows_unique l l' : Permutation l l' -> rsorted l' -> sort_rows l = l'.
Proof.
  intros P R. apply sorted_perm_eq; [apply sort_rows_wsorted|exact R|].
  rewrite sort_rows_perm. exact P.
Qed.

(** ** The abstract content and normal-form histories *)
Definition op_key (o : logop) : bytes := match o with LSet k _ => k | LDel k => k end.

Definition apply_kv (m : kvs) (o : logop) : kvs :=
  match o with LSet k v => ins k v m | LDel k => del k m end.
Definition apply_kvs (m : kvs) (ops : list logop) : kvs := fold_left apply_kv ops m.

(** a version in normal form: every key touched at most once, removals only of keys that are
    present when the version starts *)
Definition nf_version (m : kvs) (ops : list logop) : Prop :=
  NoDup (map op_key ops) /\ forall k, In (LDel k) ops -> mem k m = true.

Fixpoint nf_history (m : kvs) (hist : list (list logop * bool)) : Prop :=
  match hist with
  | [] => True
  | e :: rest => nf_version m (fst e) /\ nf_history (apply_kvs m (fst e)) rest
  end.

Lemma assoc_ins' k k' v (l : kvs) : assoc k (ins k' v l) = if beq k k' then Some v else assoc k l.
Proof.
  induction l as [|[k2 v2] l IH]; cbn [ins assoc]; [reflexivity|].
  bcases k' k2; cbn [assoc].
  - subst k2. destruct (beq k k'); reflexivity.
  - reflexivity.
  - rewrite IH. destruct (beq k k2) eqn:B1; [|reflexivity]. btests. subst k2.
    replace (beq k k') with false; [reflexivity|]. symmetry. apply beq_false. intro; subst; border.
Qed.

Lemma assoc_del_ne' k k' (l : kvs) : k <> k' -> assoc k (del k' l) = assoc k l.
Proof.
  intros NE. induction l as [|[k2 v2] l IH]; cbn [del assoc]; [reflexivity|].
  bcases k' k2; cbn [assoc].
  - subst k2. replace (beq k k') with false; [reflexivity|]. symmetry. apply beq_false, NE.
  - reflexivity.
  - rewrite IH. reflexivity.
Qed.

Lemma mem_apply_other k ops : forall m, ~ In k (map op_key ops) -> mem k (apply_kvs m ops) = mem k m.
Proof.
  induction ops as [|o ops IH]; intros m NI; [reflexivity|].
  cbn [apply_kvs fold_left]. fold (apply_kvs (apply_kv m o) ops).
  cbn [map In] in NI. rewrite IH by tauto.
  unfold mem. destruct o as [k' v'|k']; cbn [apply_kv op_key] in *.
  - rewrite assoc_ins'. replace (beq k k') with false; [reflexivity|].
    symmetry. apply beq_false. intro; subst; tauto.
  - rewrite assoc_del_ne'; [reflexivity|]. intro; subst; tauto.
Qed.

(** ** One version: the run, its changelog, and the replay of that changelog *)
Definition good (H : bytes -> bytes) (r : option node) : Prop := oinv r /\ opersisted r /\ ohok H r.

Definition del_rows (d : list (Z * bytes)) : list (Z * logop) :=
  map (fun p => (fst p, LDel (snd p))) d.

Fixpoint numbered (i : Z) (ops : list logop) : list (Z * logop) :=
  match ops with
  | [] => []
  | o :: r => (i, o) :: numbered (i + 1) r
  end.

Lemma numbered_app i a b :
  numbered i (a ++ b) = numbered i a ++ numbered (i + Z.of_nat (length a)) b.
Proof.
  revert i. induction a as [|o a IH]; intros i; cbn [app numbered length].
  - rewrite Z.add_0_r. reflexivity.
  - rewrite IH. do 3 f_equal. lia.
Qed.

Lemma numbered_In i ops j o : In (j, o) (numbered i ops) -> In o ops /\ i <= j.
Proof.
  revert i. induction ops as [|o' ops IH]; intros i; cbn [numbered In]; [tauto|].
  intros [E|I]; [injection E as -> ->; split; [auto|lia]|].
  destruct (IH _ I). split; [auto|lia].
Qed.

Lemma numbered_rsorted i ops : rsorted (numbered i ops).
Proof.
  revert i. induction ops as [|o ops IH]; intros i; cbn [numbered rsorted]; [exact I|].
  split; [|apply IH]. apply Forall_forall. intros [j o'] Hj. apply numbered_In in Hj. cbn. lia.
Qed.

Lemma last_opt_snoc {A} (l : list A) x : last_opt (l ++ [x]) = Some x.
Proof.
  induction l as [|y l IH]; [reflexivity|]. cbn [app last_opt].
  destruct (l ++ [x]) eqn:E; [destruct l; discriminate|]. exact IH.
Qed.

Lemma perm_insert {A} (a b d n : list A) x :
  Permutation (a ++ b ++ d) n -> Permutation ((a ++ x :: b) ++ d) (n ++ [x]).
Proof.
  intros P. rewrite <- app_assoc. cbn [app].
  etransitivity; [symmetry; apply Permutation_middle|].
  etransitivity; [apply perm_skip, P|]. apply Permutation_cons_append.
Qed.

Lemma veq0_leaf_ver k t1 : forall t2, veq 0 t1 t2 -> leaf_ver t1 k = leaf_ver t2 k.
Proof.
  assert (EV : forall m, eff_ver 0 m = ver m).
  { intros m. unfold eff_ver. destruct (ver m =? 0) eqn:E; [apply Z.eqb_eq in E; auto|auto]. }
  induction t1 as [lk lv m|nk h s m l IHl r IHr]; intros [lk2 lv2 m2|nk2 h2 s2 m2 l2 r2];
    cbn [veq]; try tauto.
  - intros (A & B & C). subst. cbn [leaf_ver]. rewrite !EV in C. rewrite C. reflexivity.
  - intros (A & B & C & D & E & F). subst. cbn [leaf_ver]. rewrite (IHl _ E), (IHr _ F). reflexivity.
Qed.

Lemma leaves_deep_hash_ver H b t :
  Forall (fun x => ver (snd x) <= b) (leaves (v2_deep_hash H t)) <->
  Forall (fun x => ver (snd x) <= b) (leaves t).
Proof.
  induction t as [k v m|k h s m l IHl r IHr]; cbn [v2_deep_hash].
  - destruct (hs m); cbn [leaves]; [|reflexivity].
    split; intros F; inversion F; subst; constructor; auto.
  - destruct (hs m); cbn [leaves]; [|reflexivity]. rewrite !Forall_app, IHl, IHr. reflexivity.
Qed.

Section Version.
  Variable H : bytes -> bytes.
  Variable a : Z.                 (* the version the working tree is based on *)
  Hypothesis a_nonneg : 0 <= a.
  Variable m0 : kvs.              (* its content *)

  Let wv := a + 1.

  Record vinv (done : list logop) (s : v2tree) : Prop := VInv {
    vi_ver : vt_version s = a;
    vi_seq : vt_lseq s = Z.of_nat (length done);
    vi_good : good H (vt_root s);
    vi_elems : oelems (vt_root s) = apply_kvs m0 done;
    vi_below : Forall (fun x => ver (snd x) <= wv) (oleaves (vt_root s));
    vi_rows : Permutation (rows_of wv (oleaves (vt_root s)) ++ del_rows (vt_dels s))
                          (numbered 1 done)
  }.

  (** a leaf stamped in this version belongs to a key written in this version *)
  Lemma vinv_fresh done s k v0 m' :
    vinv done s -> In (k, v0, m') (oleaves (vt_root s)) -> ver m' = wv -> In k (map op_key done).
  Proof.
    intros V I E. pose proof (vi_rows _ _ V) as P.
    assert (I2 : In (nonce m', LSet k v0) (rows_of wv (oleaves (vt_root s)) ++ del_rows (vt_dels s))).
    { apply in_or_app. left. unfold rows_of. apply in_flat_map. exists (k, v0, m'). split; [exact I|].
      cbn [row_of]. rewrite E, Z.eqb_refl. left. reflexivity. }
    eapply Permutation_in in I2; [|exact P]. apply numbered_In in I2. destruct I2 as [I2 _].
    apply in_map_iff. exists (LSet k v0). auto.
  Qed.

  (** the replaying tree against the running tree *)
  Definition rel (s' s : v2tree) : Prop :=
    vt_version s' = vt_version s /\ vt_lseq s' = vt_lseq s /\ vt_dels s' = vt_dels s /\
    oveq 0 (vt_root s') (vt_root s) /\ good H (vt_root s').

  Lemma run_set done s k v :
    vinv done s -> ~ In k (map op_key done) ->
    exists s1 u, v2t_set s k v = Some (s1, u) /\ vinv (done ++ [LSet k v]) s1 /\
                 vt_lseq s1 = vt_lseq s + 1 /\ vt_dels s1 = vt_dels s.
  Proof.
    intros V NI. pose proof V as V0. destruct V as [Ev Es (Gi & Gp & Gh) Ee Eb Er].
    unfold v2t_set. rewrite Ev. fold wv.
    destruct (vt_root s) as [n|] eqn:R; cbn [v2_root_set].
    - cbn [oinv opersisted ohok oelems oleaves] in *. destruct Gi as [W A].
      destruct (v2_set_defined wv (vt_lseq s + 1) k v n W) as ([n1 u] & E). rewrite E.
      pose proof (v2_set_veq wv (vt_lseq s + 1) k v n n (veq_refl _ _)) as Rl. rewrite E in Rl.
      destruct Rl as [Rv _]. cbn [fst] in Rv.
      destruct (set_spec n k v W) as (W1 & E1 & _). destruct (set_avl n k v W A) as (A1 & _).
      destruct (v2_set_leaves _ _ _ _ _ _ _ E) as (l1 & l2 & L1 & L2).
      assert (LB : leaves n = l1 ++ l2 \/
                   exists v0 m', leaves n = l1 ++ (k, v0, m') :: l2 /\ ver m' <> wv).
      { destruct u; [|auto]. right. destruct L2 as (v0 & m' & L2). exists v0, m'. split; [exact L2|].
        intros Evr. apply NI. eapply (vinv_fresh done s k v0 m' V0); [|exact Evr].
        rewrite R. cbn [oleaves]. rewrite L2. apply in_or_app. right. left. reflexivity. }
      assert (RO : rows_of wv (leaves n) = rows_of wv l1 ++ rows_of wv l2).
      { destruct LB as [->|(v0 & m' & -> & Nv)]; rewrite rows_of_app; [reflexivity|].
        f_equal. unfold rows_of. cbn [flat_map row_of]. apply Z.eqb_neq in Nv. rewrite Nv.
        reflexivity. }
      assert (SUB : forall x, In x (l1 ++ l2) -> In x (leaves n)).
      { intros x Ix. destruct LB as [->|(v0 & m' & -> & _)]; [exact Ix|].
        apply in_app_or in Ix. apply in_or_app. destruct Ix; [left|right; right]; assumption. }
      eexists _, _. split; [reflexivity|]. cbn [vt_lseq vt_dels]. split; [|auto].
      constructor; cbn [vt_root vt_version vt_lseq vt_dels oinv opersisted ohok oelems oleaves].
      + first [exact Ev|reflexivity].
      + rewrite app_length, Nat2Z.inj_add, Es. reflexivity.
      + split; [|split].
        * split; [eapply veq_wf; [apply veq_sym, Rv|exact W1]
                 |eapply veq_avl; [apply veq_sym, Rv|exact A1]].
        * eapply v2_set_persisted; [|exact Gp|exact E]. unfold wv. lia.
        * eapply v2_set_hok; eauto.
      + rewrite (veq_elems _ _ _ Rv), E1, Ee. unfold apply_kvs. rewrite fold_left_app. reflexivity.
      + rewrite L1. apply Forall_app. rewrite Forall_forall in Eb. split.
        * apply Forall_forall. intros x Ix. apply Eb, SUB, in_or_app. auto.
        * constructor; [cbn; lia|]. apply Forall_forall. intros x Ix. apply Eb, SUB, in_or_app. auto.
      + rewrite numbered_app. cbn [numbered]. rewrite L1, rows_of_app.
        replace (rows_of wv ((k, v, v2_meta wv (vt_lseq s + 1)) :: l2))
          with ((vt_lseq s + 1, LSet k v) :: rows_of wv l2).
        2:{ unfold rows_of. cbn [flat_map row_of v2_meta ver nonce]. rewrite Z.eqb_refl. reflexivity. }
        rewrite Es. replace (Z.of_nat (length done) + 1) with (1 + Z.of_nat (length done)) by lia.
        apply perm_insert. rewrite app_assoc, <- RO. exact Er.
    - cbn [oelems oleaves] in *.
      eexists _, _. split; [reflexivity|]. cbn [vt_lseq vt_dels]. split; [|auto].
      constructor; cbn [vt_root vt_version vt_lseq vt_dels oinv opersisted ohok oelems oleaves leaves elems].
      + first [exact Ev|reflexivity].
      + rewrite app_length, Nat2Z.inj_add, Es. reflexivity.
      + split; [|split]; cbn [oinv wf avl opersisted all_persisted ohok v2_hok v2_meta ver nmeta hs]; auto.
        unfold wv. lia.
      + unfold apply_kvs. rewrite fold_left_app. cbn [fold_left apply_kv]. fold (apply_kvs m0 done).
        rewrite <- Ee. reflexivity.
      + constructor; [cbn; lia|constructor].
      + rewrite numbered_app. cbn [numbered]. unfold rows_of. cbn [flat_map row_of v2_meta ver nonce app].
        rewrite Z.eqb_refl. cbn [app]. rewrite Es.
        replace (Z.of_nat (length done) + 1) with (1 + Z.of_nat (length done)) by lia.
        cbn [rows_of flat_map app] in Er.
        etransitivity; [apply perm_skip, Er|]. apply Permutation_cons_append.
  Qed.

  Lemma run_del done s k :
    vinv done s -> ~ In k (map op_key done) -> mem k m0 = true ->
    exists s1 val, v2t_remove s k = Some (s1, Some val) /\ vinv (done ++ [LDel k]) s1 /\
                   vt_lseq s1 = vt_lseq s + 1 /\ vt_dels s1 = vt_dels s ++ [(vt_lseq s + 1, k)].
  Proof.
    intros V NI Mk. pose proof V as V0. destruct V as [Ev Es (Gi & Gp & Gh) Ee Eb Er].
    assert (Mk' : mem k (oelems (vt_root s)) = true) by (rewrite Ee, mem_apply_other; assumption).
    unfold v2t_remove. rewrite Ev. fold wv.
    destruct (vt_root s) as [n|] eqn:R; [|discriminate Mk'].
    cbn [oinv opersisted ohok oelems oleaves] in *. destruct Gi as [W A].
    destruct (v2_remove_defined wv k n W A) as (res & E). rewrite E.
    pose proof (v2_remove_veq wv k n n (veq_refl _ _)) as Rl. rewrite E in Rl.
    destruct Rl as (Rv & _ & Rs).
    pose proof (remove_spec n k W A) as Post. unfold rm_post in Post. rewrite <- Rv in Post.
    destruct (rm_val res) as [val|] eqn:Vl.
    2:{ unfold mem in Mk'. rewrite Post in Mk'. discriminate. }
    destruct Post as (_ & Post).
    destruct (v2_remove_leaves _ _ _ _ _ E Vl) as (l1 & v0 & m' & l2 & L1 & L2 & L3).
    assert (Nv : ver m' <> wv).
    { intros Evr. apply NI. eapply (vinv_fresh done s k v0 m' V0); [|exact Evr].
      rewrite R. cbn [oleaves]. rewrite L1. apply in_or_app. right. left. reflexivity. }
    rewrite L2. apply Z.eqb_neq in Nv. rewrite Nv.
    eexists _, _. split; [reflexivity|]. cbn [vt_lseq vt_dels]. split; [|auto].
    assert (RO : rows_of wv (leaves n) = rows_of wv (l1 ++ l2)).
    { rewrite L1, !rows_of_app. f_equal. unfold rows_of. cbn [flat_map row_of]. rewrite Nv. reflexivity. }
    assert (NL : oleaves (rm_self res) = l1 ++ l2).
    { destruct (rm_self res); cbn [oleaves]; [exact L3|]. destruct L3 as [-> ->]. reflexivity. }
    constructor; cbn [vt_root vt_version vt_lseq vt_dels].
    - first [exact Ev|reflexivity].
    - rewrite app_length, Nat2Z.inj_add, Es. reflexivity.
    - destruct (rm_self res) as [t'|] eqn:S1, (rm_self (remove n k)) as [t1|] eqn:S2; try contradiction.
      + destruct Post as (W1 & A1 & _). split; [|split]; cbn [oinv opersisted ohok].
        * split; [eapply veq_wf; [apply veq_sym, Rs|exact W1]
                 |eapply veq_avl; [apply veq_sym, Rs|exact A1]].
        * eapply v2_remove_persisted; [|exact Gp|exact E|exact S1]. unfold wv. lia.
        * eapply v2_remove_hok; [exact Gh|exact E|exact S1].
      + split; [|split]; exact I.
    - unfold apply_kvs. rewrite fold_left_app. cbn [fold_left apply_kv]. fold (apply_kvs m0 done).
      rewrite <- Ee.
      destruct (rm_self res) as [t'|] eqn:S1, (rm_self (remove n k)) as [t1|] eqn:S2; try contradiction;
        cbn [oelems].
      + destruct Post as (_ & _ & E1 & _). rewrite (veq_elems _ _ _ Rs). exact E1.
      + destruct Post as ((mm & ->) & _). cbn [elems del]. rewrite bcmp_refl. reflexivity.
    - rewrite NL. rewrite Forall_forall in Eb. apply Forall_forall. intros x Ix. apply Eb.
      rewrite L1. apply in_app_or in Ix. apply in_or_app. destruct Ix; [left|right; right]; assumption.
    - rewrite NL, <- RO. unfold del_rows. rewrite map_app. cbn [map fst snd].
      rewrite numbered_app. cbn [numbered]. rewrite app_assoc, Es.
      replace (Z.of_nat (length done) + 1) with (1 + Z.of_nat (length done)) by lia.
      apply Permutation_app_tail. exact Er.
  Qed.

  (** replaying a row on a related tree *)
  Lemma replay_set s' s k v s1 u :
    rel s' s -> vt_version s = a -> good H (vt_root s) ->
    v2t_set s k v = Some (s1, u) -> good H (vt_root s1) ->
    exists s1', replay_row s' (vt_lseq s + 1, LSet k v) = Some s1' /\ rel s1' s1.
  Proof.
    intros (Rv & Rq & Rd & Rr & (Gi' & Gp' & Gh')) Ev (Gi & Gp & Gh) E (Gi1 & Gp1 & Gh1).
    unfold replay_row. cbn [snd fst]. unfold v2t_set in *. rewrite Rv, Rq, Ev in *. fold wv in E |- *.
    destruct (vt_root s') as [n'|] eqn:R', (vt_root s) as [n|] eqn:R; cbn [oveq] in Rr; try contradiction;
      cbn [v2_root_set] in *.
    - cbn [oinv opersisted ohok] in *. destruct Gi' as [W' A'].
      destruct (v2_set_defined wv (vt_lseq s + 1) k v n' W') as ([n1' u'] & E'). rewrite E'.
      destruct (v2_set wv (vt_lseq s + 1) n k v) as [[n1 u1]|] eqn:E1; [|discriminate].
      injection E as <- <-. cbn [vt_lseq vt_root oinv opersisted ohok] in *.
      rewrite Z.eqb_refl. eexists. split; [reflexivity|].
      assert (Rw : veq wv n' n) by (apply (veq_persisted_any 0); assumption).
      pose proof (v2_set_veq wv (vt_lseq s + 1) k v n' n Rw) as X1. rewrite E' in X1.
      pose proof (v2_set_veq wv (vt_lseq s + 1) k v n n (veq_refl _ _)) as X2. rewrite E1 in X2.
      destruct X1 as [X1 _]. destruct X2 as [X2 _]. cbn [fst] in X1, X2.
      assert (Rn : veq wv n1' n1) by (eapply veq_trans; [exact X1|apply veq_sym, X2]).
      assert (P1' : all_persisted n1').
      { eapply v2_set_persisted; [|exact Gp'|exact E']. unfold wv. lia. }
      assert (Q1 : veq 0 n1' n1) by (apply (veq_persisted_any wv); assumption).
      assert (Q2 : wf n1') by (eapply v2_set_wf; [exact W'|exact E']).
      assert (Q3 : avl n1') by (destruct Gi1 as [_ A1]; eapply veq_avl; [apply veq_sym, Rn|exact A1]).
      assert (Q4 : v2_hok H n1') by (eapply v2_set_hok; [exact Gh'|exact E']).
      unfold rel, good. cbn [vt_version vt_lseq vt_dels vt_root oveq oinv opersisted ohok].
      repeat split; assumption.
    - injection E as <- <-. cbn [vt_lseq]. rewrite Z.eqb_refl. eexists. split; [reflexivity|].
      unfold rel. cbn [vt_version vt_lseq vt_dels vt_root oveq veq]. repeat split; auto.
  Qed.

  Lemma replay_del s' s k s1 val :
    rel s' s -> vt_version s = a -> good H (vt_root s) ->
    v2t_remove s k = Some (s1, val) -> vt_lseq s1 = vt_lseq s + 1 -> good H (vt_root s1) ->
    exists s1', replay_row s' (vt_lseq s + 1, LDel k) = Some s1' /\ rel s1' s1.
  Proof.
    intros (Rv & Rq & Rd & Rr & (Gi' & Gp' & Gh')) Ev (Gi & Gp & Gh) E Eq (Gi1 & Gp1 & Gh1).
    unfold replay_row. cbn [snd fst]. unfold v2t_remove in *. rewrite Rv, Rq, Rd, Ev in *. fold wv in E |- *.
    destruct (vt_root s') as [n'|] eqn:R', (vt_root s) as [n|] eqn:R; cbn [oveq] in Rr; try contradiction.
    2:{ injection E as <- <-. lia. }
    cbn [oinv opersisted ohok] in *. destruct Gi' as [W' A'].
    destruct (v2_remove_defined wv k n' W' A') as (res' & E'). rewrite E'.
    destruct (v2_remove wv n k) as [res|] eqn:E1; [|discriminate].
    assert (Rw : veq wv n' n) by (apply (veq_persisted_any 0); assumption).
    pose proof (v2_remove_veq wv k n' n Rw) as X1. rewrite E' in X1.
    pose proof (v2_remove_veq wv k n n (veq_refl _ _)) as X2. rewrite E1 in X2.
    destruct X1 as (V1 & _ & S1). destruct X2 as (V2 & _ & S2).
    rewrite V1, <- V2. rewrite (veq0_leaf_ver k n' n Rr).
    destruct (rm_val res) as [vl|] eqn:Vl; [|injection E as <- <-; lia].
    destruct (match leaf_ver n k with Some lv => lv =? wv | None => false end);
      [injection E as <- <-; cbn [vt_lseq] in Eq; lia|].
    injection E as <- <-. cbn [vt_dels vt_root vt_lseq oinv opersisted ohok] in *.
    rewrite last_opt_snoc. cbn [fst]. rewrite Z.eqb_refl. eexists. split; [reflexivity|].
    unfold rel. cbn [vt_version vt_lseq vt_dels vt_root]. repeat split; auto.
    - destruct (rm_self res') as [t'|] eqn:T', (rm_self res) as [t1|] eqn:T1,
               (rm_self (remove n k)) as [t0|]; cbn [oveq]; try contradiction; auto.
      cbn [opersisted] in Gp1.
      apply (veq_persisted_any wv); [| |eapply veq_trans; [exact S1|apply veq_sym, S2]]; [|assumption].
      eapply v2_remove_persisted; [|exact Gp'|exact E'|exact T']. unfold wv. lia.
    - destruct (rm_self res') as [t'|] eqn:T'; cbn [oinv]; [|exact I].
      eapply v2_remove_self_wf; eauto.
    - destruct (rm_self res') as [t'|] eqn:T'; cbn [opersisted]; [|exact I].
      eapply v2_remove_persisted; [|exact Gp'|exact E'|exact T']. unfold wv. lia.
    - destruct (rm_self res') as [t'|] eqn:T'; cbn [ohok]; [|exact I].
      eapply v2_remove_hok; [exact Gh'|exact E'|exact T'].
  Qed.

  (** running the operations of a version in normal form, and replaying the numbered rows *)
  Lemma version_run ops : forall done s s',
    vinv done s -> rel s' s ->
    NoDup (map op_key (done ++ ops)) -> (forall k, In (LDel k) ops -> mem k m0 = true) ->
    exists sp sp',
      v2_apply_all s ops = Some sp /\ vinv (done ++ ops) sp /\
      replay_rows s' (numbered (Z.of_nat (length done) + 1) ops) = Some sp' /\ rel sp' sp.
  Proof.
    induction ops as [|o ops IH]; intros done s s' V Rl ND Pr.
    - exists s, s'. rewrite app_nil_r. cbn [v2_apply_all numbered replay_rows]. auto.
    - assert (NI : ~ In (op_key o) (map op_key done)).
      { rewrite map_app in ND. cbn [map] in ND. apply NoDup_remove_2 in ND.
        intros C. apply ND. apply in_or_app. auto. }
      assert (ND' : NoDup (map op_key ((done ++ [o]) ++ ops))) by (rewrite <- app_assoc; exact ND).
      assert (Pr' : forall k, In (LDel k) ops -> mem k m0 = true) by (intros k0 I0; apply Pr; right; exact I0).
      cbn [v2_apply_all numbered replay_rows].
      assert (Sq : Z.of_nat (length done) + 1 = vt_lseq s + 1) by (rewrite (vi_seq _ _ V); reflexivity).
      rewrite Sq.
      assert (Sq' : vt_lseq s + 1 + 1 = Z.of_nat (length (done ++ [o])) + 1).
      { rewrite app_length, Nat2Z.inj_add, (vi_seq _ _ V). cbn [length]. lia. }
      rewrite Sq'.
      destruct o as [k v|k]; cbn [op_key] in NI.
      + destruct (run_set done s k v V NI) as (s1 & u & E & V1 & Q1 & D1).
        cbn [v2_apply]. rewrite E.
        destruct (replay_set s' s k v s1 u Rl (vi_ver _ _ V) (vi_good _ _ V) E (vi_good _ _ V1))
          as (s1' & E' & Rl1).
        rewrite E'.
        destruct (IH (done ++ [LSet k v]) s1 s1' V1 Rl1 ND' Pr') as (sp & sp' & A1 & A2 & A3 & A4).
        exists sp, sp'. rewrite <- app_assoc in A2. cbn [app] in A2. auto.
      + assert (Mk : mem k m0 = true) by (apply Pr; left; reflexivity).
        destruct (run_del done s k V NI Mk) as (s1 & val & E & V1 & Q1 & D1).
        cbn [v2_apply]. rewrite E.
        destruct (replay_del s' s k s1 (Some val) Rl (vi_ver _ _ V) (vi_good _ _ V) E Q1 (vi_good _ _ V1))
          as (s1' & E' & Rl1).
        rewrite E'.
        destruct (IH (done ++ [LDel k]) s1 s1' V1 Rl1 ND' Pr') as (sp & sp' & A1 & A2 & A3 & A4).
        exists sp, sp'. rewrite <- app_assoc in A2. cbn [app] in A2. auto.
  Qed.

  (** The version as a whole.  From a saved state [V2Tree R a 0 []] whose leaves all carry
      versions <= a: the operations succeed, the changelog SaveVersion writes is the list of
      operations numbered from 1, and replaying it (replayChangelog's per-version step) from
      any tree related to [R] succeeds and ends in a tree related to the result. *)
  Theorem version_replay R ops :
    good H R -> oelems R = m0 -> Forall (fun x => ver (snd x) <= a) (oleaves R) ->
    nf_version m0 ops ->
    exists sp,
      v2_apply_all (V2Tree R a 0 []) ops = Some sp /\
      vt_version sp = a /\ good H (vt_root sp) /\
      oelems (vt_root sp) = apply_kvs m0 ops /\
      Forall (fun x => ver (snd x) <= a + 1) (oleaves (vt_root sp)) /\
      v2_changelog sp = numbered 1 ops /\
      forall s', oveq 0 (vt_root s') R -> good H (vt_root s') ->
        exists s'', replay_version s' (a + 1, v2_changelog sp) = Some s'' /\
      oveq 0 (vt_root s'') (vt_root sp) /\ good H (vt_root s'').
  Proof.
    intros G Em Below [ND Pr].
    assert (V0 : vinv [] (V2Tree R a 0 [])).
    { constructor; cbn [vt_version vt_lseq vt_root vt_dels length]; auto.
      - eapply Forall_impl; [|exact Below]. cbn. intros. unfold wv. lia.
      - cbn [del_rows map numbered]. rewrite app_nil_r.
        replace (rows_of wv (oleaves R)) with (@nil (Z * logop)); [reflexivity|].
        symmetry. unfold rows_of. induction (oleaves R) as [|[[k v] m] l IHl]; [reflexivity|].
        inversion Below; subst. cbn [flat_map row_of]. cbn [snd] in *.
        replace (ver m =? wv) with false by (symmetry; apply Z.eqb_neq; unfold wv; lia).
        cbn [app]. apply IHl. assumption. }
    destruct (version_run ops [] (V2Tree R a 0 []) (V2Tree R a 0 []) V0) as (sp & sp0 & A1 & A2 & _ & _).
    { unfold rel. cbn [vt_version vt_lseq vt_dels vt_root]. repeat split; auto using oveq_refl; apply G. }
    { exact ND. } { exact Pr. }
    cbn [app] in A2. exists sp. split; [exact A1|].
    split; [apply (vi_ver _ _ A2)|]. split; [apply (vi_good _ _ A2)|].
    split; [apply (vi_elems _ _ A2)|]. split; [apply (vi_below _ _ A2)|].
    assert (CL : v2_changelog sp = numbered 1 ops).
    { unfold v2_changelog. rewrite (vi_ver _ _ A2). fold wv.
      apply sort_rows_unique; [|apply numbered_rsorted].
      replace (match vt_root sp with Some n => leaf_rows wv n | None => [] end)
        with (rows_of wv (oleaves (vt_root sp)))
        by (destruct (vt_root sp); cbn [oleaves]; [symmetry; apply leaf_rows_leaves|reflexivity]).
      exact (vi_rows _ _ A2). }
    split; [exact CL|].
    intros s' Rr G'. rewrite CL. unfold replay_version. cbn [fst snd].
    destruct (numbered 1 ops) as [|p l] eqn:En.
    - assert (ops = []) by (destruct ops; [reflexivity|discriminate En]). subst ops.
      exists s'. split; [reflexivity|]. split; [|exact G'].
      cbn [v2_apply_all] in A1. injection A1 as <-. exact Rr.
    - rewrite <- En.
      destruct (version_run ops [] (V2Tree R a 0 []) (V2Tree (vt_root s') a 0 []) V0)
        as (sp1 & sp' & B1 & _ & B3 & B4).
      { unfold rel. cbn [vt_version vt_lseq vt_dels vt_root]. repeat split; auto; apply G'. }
      { exact ND. } { exact Pr. }
      rewrite A1 in B1. injection B1 as <-. cbn [length Z.of_nat Z.add] in B3.
      replace (a + 1 - 1) with a by lia.
      exists sp'. split; [exact B3|]. destruct B4 as (_ & _ & _ & B4 & B5). auto.
  Qed.
End Version.


(** ** Item 5: FindPrevious *)
Fixpoint zsorted (l : list Z) : Prop :=
  match l with
  | [] => True
  | x :: r => Forall (fun y => x < y) r /\ zsorted r
  end.

(** [c] is the greatest element of [vs] that is <= [v] *)
Definition is_prev (vs : list Z) (v c : Z) : Prop :=
  In c vs /\ c <= v /\ forall x, In x vs -> x <= v -> x <= c.

Lemma is_prev_unique vs v c1 c2 : is_prev vs v c1 -> is_prev vs v c2 -> c1 = c2.
Proof.
  intros (I1 & L1 & M1) (I2 & L2 & M2). pose proof (M1 _ I2 L2). pose proof (M2 _ I1 L1). lia.
Qed.

Lemma zsorted_nth l : zsorted l -> forall i j, (i < j < length l)%nat -> nth i l 0 < nth j l 0.
Proof.
  induction l as [|x l IH]; intros S i j Hij; cbn [length] in Hij; [lia|].
  cbn [zsorted] in S. destruct S as [F S].
  destruct j as [|j]; [lia|]. destruct i as [|i]; cbn [nth].
  - rewrite Forall_forall in F. apply F, nth_In. lia.
  - apply IH; [exact S|lia].
Qed.

Lemma zsorted_nth_le l : zsorted l -> forall i j, (i <= j < length l)%nat -> nth i l 0 <= nth j l 0.
Proof.
  intros S i j Hij. destruct (Nat.eq_dec i j) as [->|NE]; [lia|].
  pose proof (zsorted_nth l S i j ltac:(lia)). lia.
Qed.

Lemma zindex_nth vs i :
  0 <= i < Z.of_nat (length vs) -> zindex vs i = Some (nth (Z.to_nat i) vs 0).
Proof.
  intros Hi. unfold zindex. replace (i <? 0) with false by (symmetry; apply Z.ltb_ge; lia).
  apply nth_error_nth'. lia.
Qed.

Lemma fp_loop_spec fuel : forall vs v low high,
  zsorted vs -> (0 < length vs)%nat -> nth 0 vs 0 <= v ->
  0 <= low -> high < Z.of_nat (length vs) -> low <= high + 1 ->
  (forall i, 0 <= i < low -> nth (Z.to_nat i) vs 0 < v) ->
  (forall i, high < i < Z.of_nat (length vs) -> v < nth (Z.to_nat i) vs 0) ->
  (Z.to_nat (high - low + 2) <= fuel)%nat ->
  exists c, fp_loop fuel vs v low high = FPVal c /\ is_prev vs v c.
Proof.
  induction fuel as [|f IH]; intros vs v low high S Ne H0 Hl Hh Hlh Lo Hi Fu; [lia|].
  cbn [fp_loop]. destruct (low <=? high) eqn:C.
  - apply Z.leb_le in C.
    assert (M : low <= (low + high) / 2 <= high)
      by (split; [apply Z.div_le_lower_bound; lia|apply Z.div_le_upper_bound; lia]).
    set (mid := (low + high) / 2) in *.
    rewrite (zindex_nth vs mid) by lia.
    destruct (nth (Z.to_nat mid) vs 0 =? v) eqn:E1.
    + apply Z.eqb_eq in E1. exists v. split; [reflexivity|]. split; [|split; [lia|auto]].
      rewrite <- E1. apply nth_In. lia.
    + apply Z.eqb_neq in E1. destruct (nth (Z.to_nat mid) vs 0 <? v) eqn:E2.
      * apply Z.ltb_lt in E2. apply IH; auto; try lia.
        intros i Hi'. destruct (Z_lt_dec i low); [apply Lo; lia|].
        pose proof (zsorted_nth_le vs S (Z.to_nat i) (Z.to_nat mid) ltac:(lia)). lia.
      * apply Z.ltb_ge in E2. apply IH; auto; try lia.
        intros i Hi'. destruct (Z_lt_dec high i); [apply Hi; lia|].
        pose proof (zsorted_nth_le vs S (Z.to_nat mid) (Z.to_nat i) ltac:(lia)). lia.
  - apply Z.leb_gt in C.
    assert (Hge : 0 <= high).
    { destruct (Z_lt_dec high 0) as [Neg|]; [|lia].
      specialize (Hi 0 ltac:(lia)). cbn in Hi. lia. }
    rewrite (zindex_nth vs high) by lia.
    eexists. split; [reflexivity|]. split; [apply nth_In; lia|]. split.
    + specialize (Lo high ltac:(lia)). lia.
    + intros x Ix Lx. destruct (In_nth vs x 0 Ix) as (i & Hi' & <-).
      destruct (Z_lt_dec high (Z.of_nat i)) as [G|G].
      * specialize (Hi (Z.of_nat i) ltac:(lia)). rewrite Nat2Z.id in Hi. lia.
      * apply (zsorted_nth_le vs S). lia.
Qed.

Theorem find_previous_spec vs v :
  zsorted vs ->
  match vs with
  | [] => find_previous vs v = FPVal (-1)
  | v0 :: _ =>
      if v <? v0 then find_previous vs v = FPVal (-1)
      else exists c, find_previous vs v = FPVal c /\ is_prev vs v c
  end.
Proof.
  intros S. destruct vs as [|v0 vs']; [reflexivity|]. cbn [find_previous].
  destruct (v <? v0) eqn:C; [reflexivity|]. apply Z.ltb_ge in C.
  apply fp_loop_spec; auto; cbn [length nth]; try lia.
Qed.

Lemma zsorted_app_snoc l x : zsorted l -> Forall (fun y => y < x) l -> zsorted (l ++ [x]).
Proof.
  induction l as [|y l IH]; cbn [app zsorted]; [auto|]. intros [F S] Fx. inversion Fx; subst.
  split; [|auto]. apply Forall_app. split; [exact F|]. constructor; [lia|constructor].
Qed.

Lemma zsorted_filter f l : zsorted l -> zsorted (filter f l).
Proof.
  induction l as [|y l IH]; cbn [filter zsorted]; [auto|]. intros [F S].
  destruct (f y); [|auto]. cbn [zsorted]. split; [|auto].
  apply Forall_forall. intros z Hz. apply filter_In in Hz. rewrite Forall_forall in F. apply F, Hz.
Qed.

Lemma zsorted_hd_le l x : zsorted l -> In x l -> hd 0 l <= x.
Proof.
  destruct l as [|y l]; [intros _ []|]. cbn [zsorted hd In]. intros [F _] [->|I]; [lia|].
  rewrite Forall_forall in F. specialize (F _ I). lia.
Qed.

(** usable form: a sorted list containing some element <= v *)
Lemma find_previous_some vs v x :
  zsorted vs -> In x vs -> x <= v -> exists c, find_previous vs v = FPVal c /\ is_prev vs v c.
Proof.
  intros S I L. pose proof (find_previous_spec vs v S) as P.
  destruct vs as [|v0 vs']; [destruct I|].
  pose proof (zsorted_hd_le _ _ S I) as Hh. cbn [hd] in Hh.
  replace (v <? v0) with false in P by (symmetry; apply Z.ltb_ge; lia). exact P.
Qed.

(** ** Item 4: histories, checkpoints and LoadVersion *)
Definition odeep (H : bytes -> bytes) (r : option node) : option node :=
  match r with None => None | Some n => Some (v2_deep_hash H n) end.

Lemma good_odeep H r : good H r -> good H (odeep H r) /\ oveq 0 (odeep H r) r.
Proof.
  destruct r as [n|]; cbn [odeep oveq]; [|auto]. intros ((W & A) & P & K).
  cbn [opersisted ohok] in *. destruct (v2_deep_hash_spec H n K) as (_ & _ & K' & V).
  split; [|apply V]. split; [|split]; cbn [oinv opersisted ohok].
  - split; [eapply veq_wf; [apply veq_sym, (V 0)|exact W]
           |eapply veq_avl; [apply veq_sym, (V 0)|exact A]].
  - apply v2_deep_hash_persisted, P.
  - exact K'.
Qed.

Lemma compute_hash_cong H r1 r2 :
  good H r1 -> good H r2 -> oveq 0 r1 r2 -> v2_compute_hash H r1 = v2_compute_hash H r2.
Proof.
  destruct r1 as [n1|], r2 as [n2|]; cbn [oveq]; try tauto.
  intros (_ & _ & K1) (_ & _ & K2) E. cbn [ohok v2_compute_hash] in *.
  destruct (v2_deep_hash_spec H n1 K1) as (-> & _). destruct (v2_deep_hash_spec H n2 K2) as (-> & _).
  rewrite !v2_hash_pure. apply pure_hash_ext, veq_shape_eq, E.
Qed.

Lemma good_None H : good H None.
Proof. repeat split. Qed.

Lemma replay_log_app l1 : forall s0 l2,
  replay_log s0 (l1 ++ l2) =
    match replay_log s0 l1 with Some s' => replay_log s' l2 | None => None end.
Proof.
  induction l1 as [|e l1 IH]; intros s0 l2; cbn [app replay_log]; [reflexivity|].
  destruct (replay_version s0 e); [apply IH|reflexivity].
Qed.

Lemma lookup_app_some {A} v (l1 l2 : list (Z * A)) a :
  lookup v l1 = Some a -> lookup v (l1 ++ l2) = Some a.
Proof. intros E. rewrite lookup_app, E. reflexivity. Qed.

Lemma lookup_range_none {A} v n (l : list (Z * A)) :
  Forall (fun p => fst p <= n) l -> n < v -> lookup v l = None.
Proof.
  intros F L. apply lookup_above. eapply Forall_impl; [|exact F]. cbn. intros; lia.
Qed.

Definition tree_at (trees : list (option node)) (v : Z) : option node :=
  nth (Z.to_nat (v - 1)) trees None.

Definition in_seg (c v : Z) (e : Z * list (Z * logop)) : bool := (c <? fst e) && (fst e <=? v).

Lemma tree_at_app_old trees t v :
  1 <= v <= Z.of_nat (length trees) -> tree_at (trees ++ [t]) v = tree_at trees v.
Proof. intros Hv. unfold tree_at. apply app_nth1. lia. Qed.

Lemma tree_at_app_new trees t :
  tree_at (trees ++ [t]) (Z.of_nat (length trees) + 1) = t.
Proof.
  unfold tree_at. replace (Z.to_nat (Z.of_nat (length trees) + 1 - 1)) with (length trees) by lia.
  apply nth_middle.
Qed.

Section History.
  Variable H : bytes -> bytes.
  Variable interval : Z.

  Definition replay_ok (db : v2db) (trees : list (option node)) (c v : Z) : Prop :=
    forall s', oveq 0 (vt_root s') (tree_at trees c) -> good H (vt_root s') ->
      exists s'', replay_log s' (filter (in_seg c v) (db_log db)) = Some s'' /\
                  oveq 0 (vt_root s'') (tree_at trees v) /\ good H (vt_root s'').

  Record hinv (n : Z) (trees : list (option node)) (s : v2tree) (db : v2db) : Prop := HInv {
    hi_len : Z.of_nat (length trees) = n;
    hi_state : s = V2Tree (if n =? 0 then None else tree_at trees n) n 0 [];
    hi_good : forall v, 1 <= v <= n -> good H (tree_at trees v);
    hi_below : Forall (fun x => ver (snd x) <= n) (oleaves (vt_root s));
    hi_sorted : zsorted (db_ckpts db);
    hi_range : Forall (fun c => 1 <= c <= n) (db_ckpts db);
    hi_first : 1 <= n -> In 1 (db_ckpts db);
    hi_roots : forall c, In c (db_ckpts db) -> lookup c (db_roots db) = Some (tree_at trees c);
    hi_roots_range : Forall (fun p => fst p <= n) (db_roots db);
    hi_hashes : forall v, 1 <= v <= n ->
                  lookup v (db_hashes db) = Some (v2_compute_hash H (tree_at trees v));
    hi_hashes_range : Forall (fun p => fst p <= n) (db_hashes db);
    hi_log : Forall (fun e => 1 <= fst e <= n) (db_log db);
    hi_replay : forall c v, In c (db_ckpts db) -> c <= v <= n -> replay_ok db trees c v
  }.

  Lemma hinv_empty : hinv 0 [] v2t_empty db_empty.
  Proof.
    constructor; cbn; auto; try lia; intros; try lia; try contradiction.
  Qed.

  Lemma hinv_root_good n trees s db : hinv n trees s db -> good H (vt_root s).
  Proof.
    intros I. rewrite (hi_state _ _ _ _ I). cbn [vt_root]. destruct (n =? 0) eqn:E.
    - apply good_None.
    - apply Z.eqb_neq in E. apply (hi_good _ _ _ _ I). pose proof (hi_len _ _ _ _ I). lia.
  Qed.

  (** one version preserves the invariant *)
  Lemma hinv_step n trees s db ops want :
    hinv n trees s db -> nf_version (oelems (vt_root s)) ops ->
    exists s1 db1 t,
      v2_version H interval (s, db) (ops, want) = Some (s1, db1) /\
      hinv (n + 1) (trees ++ [t]) s1 db1 /\
      vt_root s1 = t /\ oelems t = apply_kvs (oelems (vt_root s)) ops.
  Proof.
    intros I NF. pose proof (hinv_root_good _ _ _ _ I) as G.
    pose proof (hi_len _ _ _ _ I) as Hlen.
    assert (Hn : 0 <= n) by lia.
    pose proof (hi_state _ _ _ _ I) as St.
    assert (St' : s = V2Tree (vt_root s) n 0 []) by (rewrite St; reflexivity).
    set (R := vt_root s) in *.
    destruct (version_replay H n Hn (oelems R) R ops G eq_refl) as
      (sp & A1 & A2 & A3 & A4 & A5 & A6 & A7).
    { exact (hi_below _ _ _ _ I). }
    { exact NF. }
    rewrite <- St' in A1.
    set (R1 := odeep H (vt_root sp)).
    assert (ER1 : R1 = odeep H (vt_root sp)) by reflexivity.
    destruct (good_odeep H _ A3) as [G1 V1]. rewrite <- ER1 in G1, V1.
    set (ck := v2_should_checkpoint interval want (db_ckpts db) (n + 1)).
    set (DB1 := V2Db (if ck then db_ckpts db ++ [n + 1] else db_ckpts db)
                     (if ck then db_roots db ++ [(n + 1, R1)] else db_roots db)
                     (db_hashes db ++ [(n + 1, v2_compute_hash H (vt_root sp))])
                     (db_log db ++ [(n + 1, v2_changelog sp)])).
    assert (EV : v2_version H interval (s, db) (ops, want) = Some (V2Tree R1 (n + 1) 0 [], DB1)).
    { unfold v2_version. cbn [fst snd]. rewrite A1. unfold v2_commit, v2t_save. cbn [fst snd].
      rewrite A2. reflexivity. }
    exists (V2Tree R1 (n + 1) 0 []), DB1, R1. split; [exact EV|]. clear EV.
    assert (TA_old : forall v, 1 <= v <= n -> tree_at (trees ++ [R1]) v = tree_at trees v).
    { intros v Hv. apply tree_at_app_old. lia. }
    assert (TA_new : tree_at (trees ++ [R1]) (n + 1) = R1).
    { rewrite <- Hlen. apply tree_at_app_new. }
    assert (SEG_old : forall c v, v <= n ->
              filter (in_seg c v) (db_log db ++ [(n + 1, v2_changelog sp)]) =
              filter (in_seg c v) (db_log db)).
    { intros c v Hv. rewrite filter_app. cbn [filter]. unfold in_seg at 2. cbn [fst].
      replace (n + 1 <=? v) with false by (symmetry; apply Z.leb_gt; lia).
      rewrite andb_false_r, app_nil_r. reflexivity. }
    assert (SEG_new : forall c, c <= n ->
              filter (in_seg c (n + 1)) (db_log db ++ [(n + 1, v2_changelog sp)]) =
              filter (in_seg c n) (db_log db) ++ [(n + 1, v2_changelog sp)]).
    { intros c Hc. rewrite filter_app. cbn [filter]. unfold in_seg at 2. cbn [fst].
      replace (c <? n + 1) with true by (symmetry; apply Z.ltb_lt; lia).
      rewrite Z.leb_refl. cbn [andb]. f_equal.
      apply filter_ext_in. intros e He. pose proof (hi_log _ _ _ _ I) as Fl.
      rewrite Forall_forall in Fl. specialize (Fl _ He). unfold in_seg.
      replace (fst e <=? n + 1) with true by (symmetry; apply Z.leb_le; lia).
      replace (fst e <=? n) with true by (symmetry; apply Z.leb_le; lia). reflexivity. }
    assert (RP_old : forall c v, In c (db_ckpts db) -> c <= v <= n + 1 ->
              replay_ok DB1 (trees ++ [R1]) c v).
    { intros c v Ic Hcv. pose proof (hi_range _ _ _ _ I) as Rg. rewrite Forall_forall in Rg.
      specialize (Rg _ Ic). unfold replay_ok, DB1. cbn [db_log]. intros s' Rs' Gs'.
      rewrite TA_old in Rs' by lia.
      destruct (Z_le_gt_dec v n) as [Le|Gt].
      - rewrite SEG_old by lia. rewrite TA_old by lia.
        apply (hi_replay _ _ _ _ I c v Ic ltac:(lia) s' Rs' Gs').
      - assert (v = n + 1) by lia. subst v. rewrite SEG_new by lia. rewrite TA_new.
        destruct (hi_replay _ _ _ _ I c n Ic ltac:(lia) s' Rs' Gs') as (s2 & E2 & V2 & G2).
        rewrite replay_log_app, E2. cbn [replay_log].
        assert (V2' : oveq 0 (vt_root s2) R).
        { unfold R. rewrite St. cbn [vt_root]. destruct (n =? 0) eqn:En; [lia|exact V2]. }
        destruct (A7 s2 V2' G2) as (s3 & E3 & V3 & G3). rewrite E3.
        exists s3. split; [reflexivity|]. split; [|exact G3].
        eapply oveq_trans; [exact V3|apply oveq_sym, V1]. }
    split; [|split; [reflexivity|]].
    constructor; unfold DB1; cbn [db_ckpts db_roots db_hashes db_log vt_root].
    - rewrite app_length, Nat2Z.inj_add. cbn [length]. lia.
    - replace (n + 1 =? 0) with false by (symmetry; apply Z.eqb_neq; lia). rewrite TA_new. reflexivity.
    - intros v Hv. destruct (Z_le_gt_dec v n).
      + rewrite TA_old by lia. apply (hi_good _ _ _ _ I). lia.
      + replace v with (n + 1) by lia. rewrite TA_new. exact G1.
    - rewrite ER1. destruct (vt_root sp) as [n0|]; cbn [odeep oleaves] in *; [|constructor].
      apply leaves_deep_hash_ver. exact A5.
    - destruct ck; [|apply (hi_sorted _ _ _ _ I)].
      apply zsorted_app_snoc; [apply (hi_sorted _ _ _ _ I)|].
      eapply Forall_impl; [|apply (hi_range _ _ _ _ I)]. cbn. intros; lia.
    - assert (Fo : Forall (fun c => 1 <= c <= n + 1) (db_ckpts db)).
      { eapply Forall_impl; [|apply (hi_range _ _ _ _ I)]. cbn. intros; lia. }
      destruct ck; [|exact Fo]. apply Forall_app. split; [exact Fo|]. constructor; [lia|constructor].
    - intros _. destruct (Z.eq_dec n 0) as [E0|N0].
      + unfold ck, v2_should_checkpoint. rewrite E0. cbn [Z.add Z.eqb]. rewrite orb_true_r. cbn [orb].
        apply in_or_app. right. left. reflexivity.
      + assert (I1 : In 1 (db_ckpts db)) by (apply (hi_first _ _ _ _ I); lia).
        destruct ck; [apply in_or_app; left|]; exact I1.
    - intros c Ic.
      assert (Old : In c (db_ckpts db) ->
                lookup c (if ck then db_roots db ++ [(n + 1, R1)] else db_roots db) =
                Some (tree_at (trees ++ [R1]) c)).
      { intros Ic'. pose proof (hi_range _ _ _ _ I) as Rg. rewrite Forall_forall in Rg.
        specialize (Rg _ Ic'). rewrite TA_old by lia.
        destruct ck; [apply lookup_app_some|]; apply (hi_roots _ _ _ _ I c Ic'). }
      destruct ck eqn:Eck; [|apply Old, Ic].
      apply in_app_or in Ic. destruct Ic as [Ic|[<-|[]]]; [apply Old, Ic|].
      rewrite lookup_snoc, Z.eqb_refl, TA_new; [reflexivity|].
      apply (lookup_range_none _ n); [apply (hi_roots_range _ _ _ _ I)|lia].
    - assert (Fo : Forall (fun p : Z * option node => fst p <= n + 1) (db_roots db)).
      { eapply Forall_impl; [|apply (hi_roots_range _ _ _ _ I)]. cbn. intros; lia. }
      destruct ck; [|exact Fo]. apply Forall_app. split; [exact Fo|]. constructor; [cbn; lia|constructor].
    - intros v Hv. destruct (Z_le_gt_dec v n).
      + rewrite TA_old by lia. apply lookup_app_some, (hi_hashes _ _ _ _ I). lia.
      + replace v with (n + 1) by lia.
        rewrite lookup_snoc, Z.eqb_refl, TA_new;
          [|apply (lookup_range_none _ n); [apply (hi_hashes_range _ _ _ _ I)|lia]].
        f_equal. apply compute_hash_cong; [exact A3|exact G1|apply oveq_sym, V1].
    - apply Forall_app. split.
      + eapply Forall_impl; [|apply (hi_hashes_range _ _ _ _ I)]. cbn. intros; lia.
      + constructor; [cbn; lia|constructor].
    - apply Forall_app. split.
      + eapply Forall_impl; [|apply (hi_log _ _ _ _ I)]. cbn. intros; lia.
      + constructor; [cbn; lia|constructor].
    - intros c v Ic Hcv. destruct ck eqn:Eck; [|apply RP_old; assumption].
      apply in_app_or in Ic. destruct Ic as [Ic|[<-|[]]]; [apply RP_old; assumption|].
      assert (v = n + 1) by lia. subst v. unfold replay_ok, DB1. cbn [db_log]. intros s' Rs' Gs'.
      replace (filter (in_seg (n + 1) (n + 1)) (db_log db ++ [(n + 1, v2_changelog sp)]))
        with (@nil (Z * list (Z * logop))).
      * exists s'. split; [reflexivity|]. auto.
      * symmetry. apply filter_nil_Forall. apply Forall_app. split.
        -- eapply Forall_impl; [|apply (hi_log _ _ _ _ I)]. cbn. intros e He. unfold in_seg.
           replace (n + 1 <? fst e) with false by (symmetry; apply Z.ltb_ge; lia). reflexivity.
        -- constructor; [|constructor]. unfold in_seg. cbn [fst]. rewrite Z.ltb_irrefl. reflexivity.
    - rewrite ER1.
      destruct (good_odeep H _ A3) as [_ V]. rewrite <- A4.
      destruct (vt_root sp) as [n0|]; cbn [odeep oelems oveq] in *; [|reflexivity].
      apply (veq_elems _ _ _ V).
  Qed.

  Lemma v2_history_app h1 : forall sd h2,
    v2_history H interval sd (h1 ++ h2) =
      match v2_history H interval sd h1 with
      | Some sd' => v2_history H interval sd' h2
      | None => None
      end.
  Proof.
    induction h1 as [|e h1 IH]; intros sd h2; cbn [app v2_history]; [reflexivity|].
    destruct (v2_version H interval sd e); [apply IH|reflexivity].
  Qed.

  Definition content (m : kvs) (hist : list (list logop * bool)) : kvs :=
    fold_left (fun m e => apply_kvs m (fst e)) hist m.

  Lemma nf_history_app m h1 : forall h2,
    nf_history m (h1 ++ h2) <-> nf_history m h1 /\ nf_history (content m h1) h2.
  Proof.
    revert m. induction h1 as [|e h1 IH]; intros m h2; cbn [app nf_history content fold_left]; [tauto|].
    fold (content (apply_kvs m (fst e)) h1). rewrite IH. tauto.
  Qed.

  (** a whole history in normal form preserves the invariant *)
  Lemma hinv_history hist : forall n trees s db,
    hinv n trees s db -> nf_history (oelems (vt_root s)) hist ->
    exists s1 db1 ts,
      v2_history H interval (s, db) hist = Some (s1, db1) /\
      hinv (n + Z.of_nat (length hist)) (trees ++ ts) s1 db1 /\
      oelems (vt_root s1) = content (oelems (vt_root s)) hist.
  Proof.
    induction hist as [|[ops want] hist IH]; intros n trees s db I NF.
    - exists s, db, []. cbn [v2_history length content fold_left]. rewrite app_nil_r, Z.add_0_r. auto.
    - cbn [nf_history fst] in NF. destruct NF as [NF1 NF2].
      destruct (hinv_step n trees s db ops want I NF1) as (s1 & db1 & t & E1 & I1 & R1 & C1).
      cbn [v2_history]. rewrite E1.
      rewrite <- C1, <- R1 in NF2.
      destruct (IH (n + 1) (trees ++ [t]) s1 db1 I1 NF2) as (s2 & db2 & ts & E2 & I2 & C2).
      exists s2, db2, (t :: ts). split; [exact E2|]. split.
      + rewrite <- app_assoc in I2. cbn [app length] in *.
        replace (n + Z.of_nat (S (length hist))) with (n + 1 + Z.of_nat (length hist)) by lia. exact I2.
      + rewrite C2. cbn [content fold_left fst]. rewrite R1, C1. reflexivity.
  Qed.

  (** LoadVersion on a database satisfying the invariant *)
  Lemma hinv_load n trees s db v :
    hinv n trees s db -> 1 <= v <= n ->
    exists s', v2_load H db v = Some s' /\
      vt_version s' = v /\ vt_lseq s' = 0 /\ vt_dels s' = [] /\
      oveq 0 (vt_root s') (tree_at trees v) /\ good H (vt_root s') /\
      v2_compute_hash H (vt_root s') = v2_compute_hash H (tree_at trees v).
  Proof.
    intros I Hv.
    destruct (find_previous_some (db_ckpts db) v 1 (hi_sorted _ _ _ _ I) (hi_first _ _ _ _ I ltac:(lia))
                ltac:(lia)) as (c & Ec & Ic & Lc & Mc).
    unfold v2_load. rewrite Ec, (hi_roots _ _ _ _ I c Ic).
    pose proof (hi_range _ _ _ _ I) as Rg. rewrite Forall_forall in Rg. specialize (Rg _ Ic).
    destruct (c <? v) eqn:C.
    - apply Z.ltb_lt in C. rewrite (hi_hashes _ _ _ _ I v Hv).
      destruct (hi_replay _ _ _ _ I c v Ic ltac:(lia) (V2Tree (tree_at trees c) c 0 []))
        as (s2 & E2 & V2 & G2).
      { cbn [vt_root]. apply oveq_refl. }
      { cbn [vt_root]. apply (hi_good _ _ _ _ I). lia. }
      unfold in_seg in E2. rewrite E2.
      pose proof (compute_hash_cong H _ _ G2 (hi_good _ _ _ _ I v Hv) V2) as EH.
      destruct (list_eq_dec N.eq_dec (v2_compute_hash H (tree_at trees v)) (v2_compute_hash H (vt_root s2)))
        as [_|NE]; [|congruence].
      eexists. split; [reflexivity|]. unfold v2t_save. cbn [fst vt_root vt_version vt_lseq vt_dels].
      destruct (good_odeep H _ G2) as [G3 V3]. unfold odeep in G3, V3.
      split; [lia|]. split; [reflexivity|]. split; [reflexivity|].
      split; [eapply oveq_trans; [exact V3|exact V2]|]. split; [exact G3|].
      apply compute_hash_cong; [exact G3|apply (hi_good _ _ _ _ I v Hv)|].
      eapply oveq_trans; [exact V3|exact V2].
    - apply Z.ltb_ge in C. assert (c = v) by lia. subst c.
      eexists. split; [reflexivity|]. cbn [vt_root vt_version vt_lseq vt_dels].
      repeat split; auto using oveq_refl; apply (hi_good _ _ _ _ I v Hv).
  Qed.
End History.

(** [replay_deterministic].  For every history in normal form, every checkpoint interval and
    every pattern of externally requested checkpoints: the run succeeds, and LoadVersion of
    ANY version [v] of the resulting database succeeds (sequence checks and root-hash check
    pass) and returns the tree the uninterrupted run had right after saving [v]: same keys,
    values, heights, sizes and node versions ([oveq 0]), hence the same root hash. *)
Theorem replay_deterministic (H : bytes -> bytes) (interval : Z) (hist : list (list logop * bool)) :
  nf_history [] hist ->
  exists s db,
    v2_history H interval (v2t_empty, db_empty) hist = Some (s, db) /\
    forall v, 1 <= v <= Z.of_nat (length hist) ->
      exists sv dbv s',
        v2_history H interval (v2t_empty, db_empty) (firstn (Z.to_nat v) hist) = Some (sv, dbv) /\
        v2_load H db v = Some s' /\
        vt_version s' = v /\ vt_version sv = v /\ vt_lseq s' = 0 /\ vt_dels s' = [] /\
        oveq 0 (vt_root s') (vt_root sv) /\
        oelems (vt_root s') = oelems (vt_root sv) /\
        v2_compute_hash H (vt_root s') = v2_compute_hash H (vt_root sv) /\
        good H (vt_root s').
Proof.
  intros NF.
  destruct (hinv_history H interval hist 0 [] v2t_empty db_empty (hinv_empty H) NF)
    as (s & db & ts & E & I & _).
  exists s, db. split; [exact E|]. intros v Hv.
  set (h1 := firstn (Z.to_nat v) hist). set (h2 := skipn (Z.to_nat v) hist).
  assert (Eh : hist = h1 ++ h2) by (symmetry; apply firstn_skipn).
  assert (L1 : Z.of_nat (length h1) = v) by (unfold h1; rewrite firstn_length; lia).
  rewrite Eh in NF. apply nf_history_app in NF. destruct NF as [NF1 NF2].
  destruct (hinv_history H interval h1 0 [] v2t_empty db_empty (hinv_empty H) NF1)
    as (sv & dbv & ts1 & E1 & I1 & C1).
  cbn [app Z.add] in I1. rewrite L1 in I1.
  cbn [v2t_empty vt_root oelems] in C1.
  rewrite <- C1 in NF2.
  destruct (hinv_history H interval h2 v ts1 sv dbv I1 NF2) as (s2 & db2 & ts2 & E2 & I2 & _).
  assert (Es : (s2, db2) = (s, db)).
  { rewrite Eh, v2_history_app, E1, E2 in E. congruence. }
  injection Es as -> ->.
  assert (Ln : v + Z.of_nat (length h2) = Z.of_nat (length hist)).
  { rewrite Eh, app_length, Nat2Z.inj_add. lia. }
  destruct (hinv_load H _ _ _ _ v I2 ltac:(lia)) as (s' & El & A1 & A2 & A3 & A4 & A5 & A6).
  assert (TA : tree_at (ts1 ++ ts2) v = vt_root sv).
  { rewrite (hi_state _ _ _ _ _ I1). cbn [vt_root].
    replace (v =? 0) with false by (symmetry; apply Z.eqb_neq; lia).
    unfold tree_at. apply app_nth1. pose proof (hi_len _ _ _ _ _ I1). lia. }
  rewrite TA in A4, A6.
  exists sv, dbv, s'. split; [exact E1|]. split; [exact El|].
  split; [exact A1|]. split; [rewrite (hi_state _ _ _ _ _ I1); reflexivity|].
  split; [exact A2|]. split; [exact A3|]. split; [exact A4|]. split; [|split; [exact A6|exact A5]].
  destruct (vt_root s'), (vt_root sv); cbn [oveq oelems] in *; try contradiction; [|reflexivity].
  apply (veq_elems _ _ _ A4).
Qed.

(** ** Continuing from a loaded tree gives the same future *)
Lemma veq0_leaf_vers t1 : forall t2,
  veq 0 t1 t2 -> map (fun x => ver (snd x)) (leaves t1) = map (fun x => ver (snd x)) (leaves t2).
Proof.
  assert (EV : forall m, eff_ver 0 m = ver m).
  { intros m. unfold eff_ver. destruct (ver m =? 0) eqn:E; [apply Z.eqb_eq in E; auto|auto]. }
  induction t1 as [k v m|k h s m l IHl r IHr]; intros [k2 v2 m2|k2 h2 s2 m2 l2 r2];
    cbn [veq]; try tauto.
  - intros (_ & _ & C). rewrite !EV in C. cbn [leaves map snd]. rewrite C. reflexivity.
  - intros (_ & _ & _ & _ & E & F). cbn [leaves]. rewrite !map_app, (IHl _ E), (IHr _ F). reflexivity.
Qed.

Lemma oveq0_below a r1 r2 :
  oveq 0 r1 r2 -> Forall (fun x => ver (snd x) <= a) (oleaves r2) ->
  Forall (fun x => ver (snd x) <= a) (oleaves r1).
Proof.
  destruct r1 as [t1|], r2 as [t2|]; cbn [oveq oleaves]; try tauto.
  intros E F. apply veq0_leaf_vers in E.
  assert (F2 : Forall (fun z => z <= a) (map (fun x => ver (snd x)) (leaves t2)))
    by (rewrite Forall_map; exact F).
  rewrite <- E, Forall_map in F2. exact F2.
Qed.

(** the same version executed on the original tree and on a related (reloaded) tree: same
    changelog, same root hash, related results *)
Theorem continue_version (H : bytes -> bytes) (a : Z) (R R' : option node) (ops : list logop) :
  0 <= a -> good H R -> good H R' -> oveq 0 R' R ->
  Forall (fun x => ver (snd x) <= a) (oleaves R) -> nf_version (oelems R) ops ->
  exists sp sp',
    v2_apply_all (V2Tree R a 0 []) ops = Some sp /\
    v2_apply_all (V2Tree R' a 0 []) ops = Some sp' /\
    oveq 0 (vt_root sp') (vt_root sp) /\ good H (vt_root sp) /\ good H (vt_root sp') /\
    v2_changelog sp' = v2_changelog sp /\
    v2_compute_hash H (vt_root sp') = v2_compute_hash H (vt_root sp).
Proof.
  intros Ha G G' V B NF.
  assert (Ee : oelems R' = oelems R).
  { destruct R' as [t'|], R as [t|]; cbn [oveq oelems] in *; try contradiction; [|reflexivity].
    apply (veq_elems _ _ _ V). }
  destruct (version_replay H a Ha (oelems R) R ops G eq_refl B NF)
    as (sp & A1 & A2 & A3 & A4 & A5 & A6 & A7).
  rewrite <- Ee in NF.
  destruct (version_replay H a Ha (oelems R') R' ops G' eq_refl (oveq0_below a R' R V B) NF)
    as (sp' & B1 & B2 & B3 & B4 & B5 & B6 & B7).
  exists sp, sp'. split; [exact A1|]. split; [exact B1|].
  destruct (A7 (V2Tree R' a 0 []) V G') as (s1 & E1 & V1 & G1).
  destruct (B7 (V2Tree R' a 0 []) (oveq_refl 0 R') G') as (s2 & E2 & V2 & G2).
  rewrite A6 in E1. rewrite B6 in E2. rewrite E1 in E2. injection E2 as <-.
  assert (VV : oveq 0 (vt_root sp') (vt_root sp))
    by (eapply oveq_trans; [apply oveq_sym, V2|exact V1]).
  split; [exact VV|]. split; [exact A3|]. split; [exact B3|].
  split; [rewrite A6, B6; reflexivity|]. apply compute_hash_cong; assumption.
Qed.

(** ** Item 5: pruning *)
Lemma filter_filter_imp {A} (f g : A -> bool) l :
  (forall x, f x = true -> g x = true) -> filter f (filter g l) = filter f l.
Proof.
  intros Imp. induction l as [|x l IH]; [reflexivity|]. cbn [filter].
  destruct (g x) eqn:G; cbn [filter].
  - rewrite IH. reflexivity.
  - destruct (f x) eqn:F; [rewrite (Imp _ F) in G; discriminate|exact IH].
Qed.

Lemma is_prev_filter vs v c x :
  zsorted vs -> is_prev vs v x -> c <= x -> is_prev (filter (fun y => c <=? y) vs) v x.
Proof.
  intros S (I & L & M) Hc. split; [|split; [exact L|]].
  - apply filter_In. split; [exact I|]. apply Z.leb_le, Hc.
  - intros y Iy Ly. apply filter_In in Iy. apply M; tauto.
Qed.

(** After DeleteVersionsTo(n), with [c] the last checkpoint at or before [n]: every version
    >= c loads exactly as before (everything below [c] is gone). *)
Theorem prune_keeps (H : bytes -> bytes) (db : v2db) (n c v : Z) :
  zsorted (db_ckpts db) ->
  find_previous (db_ckpts db) n = FPVal c -> c <> -1 -> In c (db_ckpts db) -> c <= v ->
  v2_load H (v2_prune db n) v = v2_load H db v.
Proof.
  intros S Ec Nc Ic Hv. unfold v2_prune. rewrite Ec.
  replace (c =? -1) with false by (symmetry; apply Z.eqb_neq, Nc).
  destruct (find_previous_some (db_ckpts db) v c S Ic Hv) as (x & Ex & Px).
  assert (Hcx : c <= x) by (destruct Px as (_ & _ & M); apply M; [exact Ic|exact Hv]).
  assert (Px' : is_prev (filter (fun y => c <=? y) (db_ckpts db)) v x)
    by (apply is_prev_filter; assumption).
  destruct (find_previous_some (filter (fun y => c <=? y) (db_ckpts db)) v c) as (x' & Ex' & Px'').
  { apply zsorted_filter, S. }
  { apply filter_In. split; [exact Ic|apply Z.leb_le; lia]. }
  { exact Hv. }
  assert (x' = x) by (eapply is_prev_unique; eassumption). subst x'.
  unfold v2_load. cbn [db_ckpts db_roots db_hashes db_log]. rewrite Ex, Ex'.
  rewrite (lookup_filter (fun y => c <=? y) x (db_roots db)).
  replace (c <=? x) with true by (symmetry; apply Z.leb_le, Hcx).
  destruct (lookup x (db_roots db)) as [r|]; [|reflexivity].
  destruct (x <? v) eqn:C; [|reflexivity].
  rewrite (lookup_filter (fun y => c <=? y) v (db_hashes db)).
  replace (c <=? v) with true by (symmetry; apply Z.leb_le, Hv).
  destruct (lookup v (db_hashes db)) as [target|]; [|reflexivity].
  rewrite filter_filter_imp; [reflexivity|].
  intros e He. apply andb_prop in He. destruct He as [He _]. apply Z.ltb_lt in He.
  apply Z.leb_le. lia.
Qed.

(** what the prune removes *)
Theorem prune_removes (db : v2db) (n c : Z) :
  find_previous (db_ckpts db) n = FPVal c -> c <> -1 ->
  Forall (fun x => c <= x) (db_ckpts (v2_prune db n)) /\
  Forall (fun p => c <= fst p) (db_roots (v2_prune db n)) /\
  Forall (fun p => c <= fst p) (db_hashes (v2_prune db n)) /\
  Forall (fun p => c <= fst p) (db_log (v2_prune db n)).
Proof.
  intros Ec Nc. unfold v2_prune. rewrite Ec.
  replace (c =? -1) with false by (symmetry; apply Z.eqb_neq, Nc).
  cbn [db_ckpts db_roots db_hashes db_log].
  repeat split; apply Forall_forall; intros x Hx; apply filter_In in Hx; destruct Hx as [_ Hx];
    apply Z.leb_le, Hx.
Qed.

(** ** Item 6: snapshots *)

(** cached heights and sizes consistent enough for the readers: a branch is higher than both
    children (hence not mistaken for a leaf) and stores the sum of the sizes *)
Fixpoint hproper (t : node) : Prop :=
  match t with
  | Leaf _ _ _ => True
  | Inner _ h s _ l r =>
      0 <= height l < h /\ 0 <= height r < h /\ s = size l + size r /\ hproper l /\ hproper r
  end.

Lemma wf_hproper t : wf t -> hproper t.
Proof.
  induction t as [|k h s m l IHl r IHr]; cbn [wf hproper]; [auto|].
  intros (Wl & Wr & _ & _ & _ & Hh & Hs).
  pose proof (height_nonneg _ Wl). pose proof (height_nonneg _ Wr).
  repeat split; auto; lia.
Qed.

Section Snapshot.
  Variable H : bytes -> bytes.

  (** every node stores its hash *)
  Fixpoint v2_full (t : node) : Prop :=
    hs (nmeta t) = v2_hash H t /\
    match t with
    | Leaf _ _ _ => True
    | Inner _ _ _ _ l r => v2_full l /\ v2_full r
    end.

  Lemma rehash_full t : v2_full t -> rehash H t = t.
  Proof.
    induction t as [k v m|k h s m l IHl r IHr]; cbn [v2_full rehash]; [auto|].
    intros (E & Fl & Fr). rewrite (IHl Fl), (IHr Fr).
    assert (hs (nmeta l) = v2_hash H l) by (destruct l; apply Fl).
    assert (hs (nmeta r) = v2_hash H r) by (destruct r; apply Fr).
    cbn [nmeta v2_hash] in E. rewrite H0, H1, <- E. destruct m; reflexivity.
  Qed.

  Lemma import_finish_full t rest : v2_full t -> import_finish H (Some (t, rest)) = Some t.
  Proof.
    intros F. unfold import_finish. rewrite (rehash_full t F).
    destruct (list_eq_dec N.eq_dec (hs (nmeta t)) (hs (nmeta t))); [reflexivity|congruence].
  Qed.

  Lemma leaf_of_row_of k v m : leaf_of_row (srow_of (Leaf k v m)) = Leaf k v m.
  Proof. unfold leaf_of_row. cbn. destruct m; reflexivity. Qed.
  Lemma inner_of_row_of k h s m l r l' r' :
    inner_of_row (srow_of (Inner k h s m l r)) l' r' = Inner k h s m l' r'.
  Proof. unfold inner_of_row. cbn. destruct m; reflexivity. Qed.

  Lemma snapshot_pre_length t : length (snapshot_pre t) = v2_nodes t.
  Proof.
    induction t as [|k h s m l IHl r IHr]; cbn [snapshot_pre v2_nodes length]; [reflexivity|].
    rewrite app_length, IHl, IHr. reflexivity.
  Qed.
  Lemma snapshot_post_length t : length (snapshot_post t) = v2_nodes t.
  Proof.
    induction t as [|k h s m l IHl r IHr]; cbn [snapshot_post v2_nodes length]; [reflexivity|].
    rewrite !app_length, IHl, IHr. cbn [length]. lia.
  Qed.

  Lemma import_pre_step_spec t : forall fuel rest,
    hproper t -> (v2_nodes t <= fuel)%nat ->
    import_pre_step fuel (snapshot_pre t ++ rest) = Some (t, rest).
  Proof.
    induction t as [k v m|k h s m l IHl r IHr]; intros fuel rest P F;
      (destruct fuel as [|f]; [pose proof (v2_nodes_pos (Leaf [] [] new_meta)); cbn [v2_nodes] in F; lia|]).
    - cbn [snapshot_pre app import_pre_step srow_of sr_height Z.eqb].
      change (SRow (ver m) (nonce m) 0 1 k (hs m) v) with (srow_of (Leaf k v m)).
      rewrite leaf_of_row_of. reflexivity.
    - cbn [hproper] in P. destruct P as (Hl & Hr & Hs & Pl & Pr).
      cbn [v2_nodes] in F.
      cbn [snapshot_pre app import_pre_step]. cbn [srow_of sr_height].
      replace (h =? 0) with false by (symmetry; apply Z.eqb_neq; lia).
      rewrite <- app_assoc, (IHl f _ Pl ltac:(lia)), (IHr f _ Pr ltac:(lia)).
      change (SRow (ver m) (nonce m) h s k (hs m) []) with (srow_of (Inner k h s m l r)).
      rewrite inner_of_row_of. reflexivity.
  Qed.

  Lemma import_post_step_spec t : forall fuel rest,
    hproper t -> (v2_nodes t <= fuel)%nat ->
    import_post_step fuel (rev (snapshot_post t) ++ rest) = Some (t, rest).
  Proof.
    induction t as [k v m|k h s m l IHl r IHr]; intros fuel rest P F;
      (destruct fuel as [|f]; [pose proof (v2_nodes_pos (Leaf [] [] new_meta)); cbn [v2_nodes] in F; lia|]).
    - cbn [snapshot_post rev app import_post_step srow_of sr_height Z.eqb].
      change (SRow (ver m) (nonce m) 0 1 k (hs m) v) with (srow_of (Leaf k v m)).
      rewrite leaf_of_row_of. reflexivity.
    - cbn [hproper] in P. destruct P as (Hl & Hr & Hs & Pl & Pr).
      cbn [v2_nodes] in F.
      cbn [snapshot_post]. rewrite !rev_app_distr. cbn [rev app].
      cbn [import_post_step]. cbn [srow_of sr_height].
      replace (h =? 0) with false by (symmetry; apply Z.eqb_neq; lia).
      rewrite <- app_assoc, (IHr f _ Pr ltac:(lia)), (IHl f _ Pl ltac:(lia)).
      change (SRow (ver m) (nonce m) h s k (hs m) []) with (srow_of (Inner k h s m l r)).
      rewrite inner_of_row_of. reflexivity.
  Qed.

  (** A snapshot written in pre-order imports to exactly the tree that was written (node
      keys, heights, sizes, keys, values and hashes), and the root-hash check passes. *)
  Theorem snapshot_roundtrip_pre t :
    hproper t -> v2_full t -> import_pre H (snapshot_pre t) = Some t.
  Proof.
    intros P F. unfold import_pre.
    rewrite <- (app_nil_r (snapshot_pre t)) at 2.
    rewrite import_pre_step_spec; [apply import_finish_full, F|exact P|].
    rewrite snapshot_pre_length. lia.
  Qed.

  Theorem snapshot_roundtrip_post t :
    hproper t -> v2_full t -> import_post H (snapshot_post t) = Some t.
  Proof.
    intros P F. unfold import_post.
    rewrite <- (app_nil_r (rev (snapshot_post t))).
    rewrite import_post_step_spec; [apply import_finish_full, F|exact P|].
    rewrite snapshot_post_length. lia.
  Qed.

  (** WriteSnapshot(PostOrder) from an export stream rebuilds a related, fully hashed tree *)
  Lemma restore_post_spec t : forall ord stack rest,
    hproper t ->
    exists t', restore_post_loop H ord stack (export_post t ++ rest) =
                 restore_post_loop H (ord + Z.of_nat (v2_nodes t)) (t' :: stack) rest /\
               veq 0 t' t /\ v2_full t' /\ hproper t'.
  Proof.
    induction t as [k v m|k h s m l IHl r IHr]; intros ord stack rest P.
    - cbn [export_post app restore_post_loop sn_height Z.eqb sn_key sn_val sn_ver v2_nodes].
      eexists. split; [reflexivity|]. cbn [veq v2_full nmeta hs v2_hash ver hproper].
      unfold eff_ver. cbn [ver]. repeat split; auto.
    - cbn [hproper] in P. destruct P as (Hl & Hr & Hs & Pl & Pr).
      cbn [export_post]. rewrite <- !app_assoc.
      destruct (IHl ord stack (export_post r ++ [SNode k [] (ver m) h] ++ rest) Pl)
        as (l' & El & Vl & Fl & Pl').
      rewrite El.
      destruct (IHr (ord + Z.of_nat (v2_nodes l)) (l' :: stack) ([SNode k [] (ver m) h] ++ rest) Pr)
        as (r' & Er & Vr & Fr & Pr').
      rewrite Er. cbn [app restore_post_loop sn_height sn_key sn_val sn_ver].
      replace (h =? 0) with false by (symmetry; apply Z.eqb_neq; lia).
      rewrite (veq_height _ _ _ Vl), (veq_height _ _ _ Vr).
      replace (height r <? h) with true by (symmetry; apply Z.ltb_lt; lia).
      replace (height l <? h) with true by (symmetry; apply Z.ltb_lt; lia).
      cbn [andb]. eexists. split.
      + f_equal. cbn [v2_nodes]. lia.
      + assert (hs (nmeta l') = v2_hash H l') by (destruct l'; apply Fl).
        assert (hs (nmeta r') = v2_hash H r') by (destruct r'; apply Fr).
        cbn [veq v2_full nmeta hs v2_hash ver hproper]. unfold eff_ver. cbn [ver].
        rewrite (veq_size _ _ _ Vl), (veq_size _ _ _ Vr), (veq_height _ _ _ Vl), (veq_height _ _ _ Vr).
        rewrite H0, H1. repeat split; auto; lia.
  Qed.

  Theorem restore_post_roundtrip t :
    hproper t ->
    exists t', restore_post H (export_post t) = Some t' /\
               veq 0 t' t /\ v2_hash H t' = v2_hash H t /\ v2_full t' /\
               import_post H (snapshot_post t') = Some t'.
  Proof.
    intros P. unfold restore_post.
    destruct (restore_post_spec t 0 [] [] P) as (t' & E & V & F & P').
    rewrite app_nil_r in E. rewrite E. cbn [restore_post_loop].
    exists t'. split; [reflexivity|]. split; [exact V|]. split.
    - rewrite !v2_hash_pure. apply pure_hash_ext, veq_shape_eq, V.
    - split; [exact F|]. apply snapshot_roundtrip_post; assumption.
  Qed.

  (** WriteSnapshot(PreOrder) *)
  Lemma restore_pre_spec t : forall fuel ord rest,
    hproper t -> (v2_nodes t <= fuel)%nat ->
    exists t' ord', restore_pre_step H fuel ord (export_pre t ++ rest) = Some (t', ord', rest) /\
                    veq 0 t' t /\ v2_full t' /\ hproper t'.
  Proof.
    induction t as [k v m|k h s m l IHl r IHr]; intros fuel ord rest P F;
      (destruct fuel as [|f]; [pose proof (v2_nodes_pos (Leaf [] [] new_meta)); cbn [v2_nodes] in F; lia|]).
    - cbn [export_pre app restore_pre_step sn_height Z.eqb sn_key sn_val sn_ver].
      eexists _, _. split; [reflexivity|]. cbn [veq v2_full nmeta hs v2_hash ver hproper].
      unfold eff_ver. cbn [ver]. repeat split; auto.
    - cbn [hproper] in P. destruct P as (Hl & Hr & Hs & Pl & Pr). cbn [v2_nodes] in F.
      cbn [export_pre app restore_pre_step sn_height sn_key sn_val sn_ver].
      replace (h =? 0) with false by (symmetry; apply Z.eqb_neq; lia).
      rewrite <- app_assoc.
      destruct (IHl f (ord + 1) (export_pre r ++ rest) Pl ltac:(lia)) as (l' & o1 & El & Vl & Fl & Pl').
      rewrite El.
      destruct (IHr f o1 rest Pr ltac:(lia)) as (r' & o2 & Er & Vr & Fr & Pr').
      rewrite Er. eexists _, _. split; [reflexivity|].
      assert (hs (nmeta l') = v2_hash H l') by (destruct l'; apply Fl).
      assert (hs (nmeta r') = v2_hash H r') by (destruct r'; apply Fr).
      cbn [veq v2_full nmeta hs v2_hash ver hproper]. unfold eff_ver. cbn [ver].
      rewrite (veq_size _ _ _ Vl), (veq_size _ _ _ Vr), (veq_height _ _ _ Vl), (veq_height _ _ _ Vr).
      rewrite H0, H1. repeat split; auto; lia.
  Qed.

  Lemma export_pre_length t : length (export_pre t) = v2_nodes t.
  Proof.
    induction t as [|k h s m l IHl r IHr]; cbn [export_pre v2_nodes length]; [reflexivity|].
    rewrite app_length, IHl, IHr. reflexivity.
  Qed.

  Theorem restore_pre_roundtrip t :
    hproper t ->
    exists t', restore_pre H (export_pre t) = Some t' /\
               veq 0 t' t /\ v2_hash H t' = v2_hash H t /\ v2_full t' /\
               import_pre H (snapshot_pre t') = Some t'.
  Proof.
    intros P. unfold restore_pre.
    destruct (restore_pre_spec t (S (length (export_pre t))) 0 [] P) as (t' & o & E & V & F & P').
    { rewrite export_pre_length. lia. }
    rewrite app_nil_r in E. rewrite E.
    exists t'. split; [reflexivity|]. split; [exact V|]. split.
    - rewrite !v2_hash_pure. apply pure_hash_ext, veq_shape_eq, V.
    - split; [exact F|]. apply snapshot_roundtrip_pre; assumption.
  Qed.

  (** a tree all of whose hashes were cleared or are right becomes fully hashed by
      computeHash when nothing is stale, e.g. after SaveVersion of a tree built from scratch;
      in general: *)
  Lemma v2_full_hok t : v2_full t -> v2_hok H t.
  Proof.
    induction t as [k v m|k h s m l IHl r IHr]; cbn [v2_full v2_hok]; [tauto|].
    intros (E & Fl & Fr). auto.
  Qed.
End Snapshot.

(** ** Outside the normal form LoadVersion can fail (findings) *)

(** the hash function is irrelevant for these two witnesses *)
Definition idh : bytes -> bytes := fun b => b.

(** A key written twice in one version: the leaf row carries the sequence of the SECOND write
    (mutateNode draws a new leaf sequence), the replay writes it once and stops with
    "sequence mismatch". *)
Theorem load_double_write_refuted :
  exists hist s db,
    ~ nf_history [] hist /\
    v2_history idh 0 (v2t_empty, db_empty) hist = Some (s, db) /\
    vt_version s = 2 /\ v2_load idh db 1 <> None /\ v2_load idh db 2 = None.
Proof.
  exists [([LSet [1%N] [10%N]], false); ([LSet [2%N] [20%N]; LSet [2%N] [21%N]], false)].
  eexists _, _. split.
  - intros (_ & (ND & _) & _). cbn in ND. inversion ND as [|? ? NI _]. apply NI. left. reflexivity.
  - split; [vm_compute; reflexivity|]. split; [reflexivity|]. split; vm_compute; congruence.
Qed.

(** A key that exists, is updated and then removed in the same version: addDelete skips the
    delete row because the leaf already carries the working version, the updated leaf is not
    in the final tree, so the changelog of the version is EMPTY; the replay keeps the key and
    stops with "root hash mismatch". *)
Theorem load_update_then_remove_refuted :
  exists hist s db,
    ~ nf_history [] hist /\
    v2_history idh 0 (v2t_empty, db_empty) hist = Some (s, db) /\
    lookup 2 (db_log db) = Some [] /\
    oelems (vt_root s) = [([2%N], [20%N])] /\
    v2_load idh db 2 = None.
Proof.
  exists [([LSet [1%N] [10%N]; LSet [2%N] [20%N]], false); ([LSet [1%N] [11%N]; LDel [1%N]], false)].
  eexists _, _. split.
  - intros (_ & (ND & _) & _). cbn in ND. inversion ND as [|? ? NI _]. apply NI. left. reflexivity.
  - split; [vm_compute; reflexivity|]. repeat split; vm_compute; reflexivity.
Qed.

(** ** Pruning after a history *)
Lemma find_previous_In vs v c :
  zsorted vs -> find_previous vs v = FPVal c -> c <> -1 -> is_prev vs v c.
Proof.
  intros S E N. pose proof (find_previous_spec vs v S) as P.
  destruct vs as [|v0 vs']; [rewrite P in E; injection E as <-; contradiction N; reflexivity|].
  destruct (v <? v0); [rewrite P in E; injection E as <-; contradiction N; reflexivity|].
  destruct P as (c' & E' & P). rewrite E' in E. injection E as <-. exact P.
Qed.

Theorem history_checkpoints (H : bytes -> bytes) (interval : Z) (hist : list (list logop * bool)) s db :
  nf_history [] hist ->
  v2_history H interval (v2t_empty, db_empty) hist = Some (s, db) ->
  zsorted (db_ckpts db) /\
  Forall (fun c => 1 <= c <= Z.of_nat (length hist)) (db_ckpts db) /\
  (hist <> [] -> In 1 (db_ckpts db)) /\
  vt_version s = Z.of_nat (length hist).
Proof.
  intros NF E.
  destruct (hinv_history H interval hist 0 [] v2t_empty db_empty (hinv_empty H) NF)
    as (s1 & db1 & ts & E1 & I & _).
  rewrite E in E1. injection E1 as <- <-. cbn [Z.add] in I.
  split; [apply (hi_sorted _ _ _ _ _ I)|]. split; [apply (hi_range _ _ _ _ _ I)|]. split.
  - intros NE. apply (hi_first _ _ _ _ _ I). destruct hist; [contradiction NE; reflexivity|].
    cbn [length]. lia.
  - rewrite (hi_state _ _ _ _ _ I). reflexivity.
Qed.

(** After DeleteVersionsTo(n) on the database of a normal-form history: with [c] the last
    checkpoint <= n, every version from [c] on still loads, to the same tree as before. *)
Theorem prune_then_load (H : bytes -> bytes) (interval : Z) (hist : list (list logop * bool)) s db n c v :
  nf_history [] hist ->
  v2_history H interval (v2t_empty, db_empty) hist = Some (s, db) ->
  find_previous (db_ckpts db) n = FPVal c -> c <> -1 -> c <= v ->
  v2_load H (v2_prune db n) v = v2_load H db v.
Proof.
  intros NF E Ec Nc Hv.
  destruct (history_checkpoints H interval hist s db NF E) as (S & _).
  apply (prune_keeps H db n c v S Ec Nc); [|exact Hv].
  apply (find_previous_In _ _ _ S Ec Nc).
Qed.
