(** Proofs about the iavl/v2 model (V2.v): properties C19 and C20. *)
From IAVL Require Import Bytes Varint Tree VMap TreeFacts MTree MTreeFacts HashFacts Iter IterFacts V2.
Local Open Scope Z_scope.

(** * 1. v2 computes the same trees as v1 (C19) *)

(** ** The comparison relation.
    [veq wv t1 t2]: same constructors, keys (also the routing keys), values, heights, sizes and
    effective versions ([ver = 0] read as [wv]).  Only nonces (sequences) and stored hashes are
    free.  It refines [HashFacts.shape_eq] (which also frees the routing keys) and, unlike
    [shape_eq], is a congruence for the write operations without any well-formedness
    hypothesis, because the writes only look at keys, heights and sizes. *)
Fixpoint veq (wv : Z) (t1 t2 : node) : Prop :=
  match t1, t2 with
  | Leaf k1 v1 m1, Leaf k2 v2 m2 => k1 = k2 /\ v1 = v2 /\ eff_ver wv m1 = eff_ver wv m2
  | Inner k1 h1 s1 m1 l1 r1, Inner k2 h2 s2 m2 l2 r2 =>
      k1 = k2 /\ h1 = h2 /\ s1 = s2 /\ eff_ver wv m1 = eff_ver wv m2 /\
      veq wv l1 l2 /\ veq wv r1 r2
  | _, _ => False
  end.

Lemma veq_refl wv t : veq wv t t.
Proof. induction t; cbn [veq]; auto 7. Qed.

Lemma veq_sym wv t1 : forall t2, veq wv t1 t2 -> veq wv t2 t1.
Proof.
  induction t1 as [k v m|k h s m l IHl r IHr]; intros [k2 v2 m2|k2 h2 s2 m2 l2 r2];
    cbn [veq]; try tauto.
  - intros (A & B & C). auto.
  - intros (A & B & C & D & E & F). auto 7.
Qed.

Lemma veq_trans wv t1 : forall t2 t3, veq wv t1 t2 -> veq wv t2 t3 -> veq wv t1 t3.
Proof.
  induction t1 as [k v m|k h s m l IHl r IHr]; intros [k2 v2 m2|k2 h2 s2 m2 l2 r2]
    [k3 v3 m3|k3 h3 s3 m3 l3 r3]; cbn [veq]; try tauto.
  - intros (A & B & C) (A' & B' & C'). repeat split; congruence.
  - intros (A & B & C & D & E & F) (A' & B' & C' & D' & E' & F').
    split; [congruence|]. split; [congruence|]. split; [congruence|]. split; [congruence|].
    split; eauto.
Qed.

Lemma veq_shape_eq wv t1 : forall t2, veq wv t1 t2 -> shape_eq wv t1 t2.
Proof.
  induction t1 as [k v m|k h s m l IHl r IHr]; intros [k2 v2 m2|k2 h2 s2 m2 l2 r2];
    cbn [veq shape_eq]; try tauto.
  intros (A & B & C & D & E & F). auto 7.
Qed.

Lemma veq_height wv t1 t2 : veq wv t1 t2 -> height t1 = height t2.
Proof. destruct t1, t2; cbn [veq height]; tauto. Qed.
Lemma veq_size wv t1 t2 : veq wv t1 t2 -> size t1 = size t2.
Proof. destruct t1, t2; cbn [veq size]; tauto. Qed.
Lemma veq_nkey wv t1 t2 : veq wv t1 t2 -> nkey t1 = nkey t2.
Proof. destruct t1, t2; cbn [veq nkey]; tauto. Qed.
Lemma veq_bal_of wv t1 t2 : veq wv t1 t2 -> bal_of t1 = bal_of t2.
Proof.
  destruct t1, t2; cbn [veq bal_of]; try tauto.
  intros (_ & _ & _ & _ & A & B). rewrite (veq_height _ _ _ A), (veq_height _ _ _ B). reflexivity.
Qed.

Lemma veq_elems wv t1 t2 : veq wv t1 t2 -> elems t1 = elems t2.
Proof. intros E. eapply shape_eq_elems, veq_shape_eq, E. Qed.

Lemma veq_min_key wv t1 : forall t2, veq wv t1 t2 -> min_key t1 = min_key t2.
Proof.
  induction t1 as [k v m|k h s m l IHl r IHr]; intros [k2 v2 m2|k2 h2 s2 m2 l2 r2];
    cbn [veq min_key]; try tauto.
  intros (_ & _ & _ & _ & A & _). apply IHl, A.
Qed.

Lemma veq_keys_all wv P t1 : forall t2, veq wv t1 t2 -> keys_all P t1 -> keys_all P t2.
Proof.
  intros t2 E. rewrite !keys_all_elems, (veq_elems _ _ _ E). auto.
Qed.

Lemma veq_wf wv t1 : forall t2, veq wv t1 t2 -> wf t1 -> wf t2.
Proof.
  induction t1 as [k v m|k h s m l IHl r IHr]; intros [k2 v2 m2|k2 h2 s2 m2 l2 r2];
    cbn [veq]; try tauto.
  intros (A & B & C & D & E & F) W. cbn [wf] in *.
  {
    destruct W as (Wl & Wr & Kl & Kr & Hk & Hh & Hs). subst k2 h2 s2.
    rewrite <- (veq_height _ _ _ E), <- (veq_height _ _ _ F),
            <- (veq_size _ _ _ E), <- (veq_size _ _ _ F), <- (veq_min_key _ _ _ F).
    repeat split; eauto using veq_keys_all. }
Qed.

Lemma veq_avl wv t1 : forall t2, veq wv t1 t2 -> avl t1 -> avl t2.
Proof.
  induction t1 as [k v m|k h s m l IHl r IHr]; intros [k2 v2 m2|k2 h2 s2 m2 l2 r2];
    cbn [veq]; try tauto.
  intros (A & B & C & D & E & F) W. cbn [avl] in *. destruct W as (Al & Ar & Hb).
  rewrite <- (veq_height _ _ _ E), <- (veq_height _ _ _ F). auto.
Qed.

Lemma eff_ver_v2 wv sq : eff_ver wv (v2_meta wv sq) = wv.
Proof.
  unfold eff_ver, v2_meta. cbn [ver]. destruct (wv =? 0) eqn:E; [|reflexivity].
  reflexivity.
Qed.
Lemma eff_ver_new_meta wv : eff_ver wv new_meta = wv.
Proof. reflexivity. Qed.

(** a node mutated in [wv] against v1's fresh clone *)
Lemma veq_node_mk wv k l1 r1 l2 r2 :
  veq wv l1 l2 -> veq wv r1 r2 -> veq wv (v2_node wv k l1 r1) (mk k l2 r2).
Proof.
  intros A B. unfold v2_node, mk. cbn [veq].
  rewrite (veq_height _ _ _ A), (veq_height _ _ _ B), (veq_size _ _ _ A), (veq_size _ _ _ B),
          eff_ver_v2.
  auto 7.
Qed.

Lemma veq_node_node wv k l1 r1 l2 r2 :
  veq wv l1 l2 -> veq wv r1 r2 -> veq wv (v2_node wv k l1 r1) (v2_node wv k l2 r2).
Proof.
  intros A B. unfold v2_node. cbn [veq].
  rewrite (veq_height _ _ _ A), (veq_height _ _ _ B), (veq_size _ _ _ A), (veq_size _ _ _ B).
  auto 7.
Qed.

(** [R]-related option results, undefined on the left is unconstrained *)
Definition vimp {A B} (R : A -> B -> Prop) (x : option A) (y : B) : Prop :=
  match x with Some a => R a y | None => True end.

Lemma v2_rotR_veq wv t1 t2 : veq wv t1 t2 -> vimp (veq wv) (v2_rotR wv t1) (rotR t2).
Proof.
  destruct t1 as [|k h s m l r]; [exact (fun _ => I)|].
  destruct l as [|lk lh ls lm ll lr]; [exact (fun _ => I)|].
  destruct t2 as [|k2 h2 s2 m2 l2 r2]; [intros []|].
  destruct l2 as [|lk2 lh2 ls2 lm2 ll2 lr2]; cbn [veq]; [tauto|].
  intros (A & B & C & D & (A' & B' & C' & D' & E' & F') & F). subst.
  rewrite rotR_eq. cbn [v2_rotR vimp].
  apply veq_node_mk; [assumption|]. apply veq_node_mk; assumption.
Qed.

Lemma v2_rotL_veq wv t1 t2 : veq wv t1 t2 -> vimp (veq wv) (v2_rotL wv t1) (rotL t2).
Proof.
  destruct t1 as [|k h s m l r]; [exact (fun _ => I)|].
  destruct r as [|rk rh rs rm rl rr]; [exact (fun _ => I)|].
  destruct t2 as [|k2 h2 s2 m2 l2 r2]; [intros []|].
  destruct r2 as [|rk2 rh2 rs2 rm2 rl2 rr2]; cbn [veq]; [tauto|].
  intros (A & B & C & D & E & (A' & B' & C' & D' & E' & F')). subst.
  rewrite rotL_eq. cbn [v2_rotL vimp].
  apply veq_node_mk; [|assumption]. apply veq_node_mk; assumption.
Qed.

Lemma v2_balance_veq wv t1 t2 :
  veq wv t1 t2 -> vimp (veq wv) (v2_balance wv t1) (balance t2).
Proof.
  destruct t1 as [|k h s m l r]; [exact (fun _ => I)|].
  destruct t2 as [|k2 h2 s2 m2 l2 r2]; [intros []|].
  intros E. pose proof E as E0. cbn [veq] in E. destruct E as (A & B & C & D & El & Er).
  subst k2 h2 s2. rewrite balance_eq. cbn [v2_balance].
  destruct (hs m); [|exact I].
  rewrite <- (veq_height _ _ _ El), <- (veq_height _ _ _ Er),
          <- (veq_bal_of _ _ _ El), <- (veq_bal_of _ _ _ Er).
  destruct (1 <? height l - height r).
  - destruct (0 <=? bal_of l); [apply v2_rotR_veq, E0|].
    pose proof (v2_rotL_veq wv l l2 El) as RL.
    destruct (v2_rotL wv l) as [l'|]; [|exact I]. cbn [vimp] in RL.
    apply v2_rotR_veq. cbn [veq]. auto 7.
  - destruct (height l - height r <? -1); [|exact E0].
    destruct (bal_of r <=? 0); [apply v2_rotL_veq, E0|].
    pose proof (v2_rotR_veq wv r r2 Er) as RR.
    destruct (v2_rotR wv r) as [r'|]; [|exact I]. cbn [vimp] in RR.
    apply v2_rotL_veq. cbn [veq]. auto 7.
Qed.

Definition set_rel (wv : Z) (a b : node * bool) : Prop :=
  veq wv (fst a) (fst b) /\ snd a = snd b.

(** ** Item 1: one [Set] of v2 against one [Set] of v1.
    No normal-form hypothesis is needed: v1 marks a node new exactly when it clones it, v2
    stamps it [wv] exactly when it mutates it, and the two happen at the same nodes (the path,
    and both nodes of every rotation). *)
Lemma v2_set_veq wv sq k v t1 : forall t2,
  veq wv t1 t2 -> vimp (set_rel wv) (v2_set wv sq t1 k v) (set t2 k v).
Proof.
  induction t1 as [lk lv m|nk h s m l IHl r IHr]; intros [lk2 lv2 m2|nk2 h2 s2 m2 l2 r2];
    cbn [veq]; try tauto.
  - intros (A & B & C). subst lk2 lv2. cbn [v2_set set].
    destruct (bcmp k lk) eqn:Cmp; cbn [vimp]; unfold set_rel; cbn [fst snd veq];
      rewrite ?eff_ver_v2, ?eff_ver_new_meta.
    + apply bcmp_eq in Cmp. subst. auto.
    + auto 10.
    + auto 10.
  - intros (A & B & C & D & El & Er). subst nk2 h2 s2. cbn [v2_set set].
    destruct (blt k nk).
    + specialize (IHl l2 El). destruct (v2_set wv sq l k v) as [[l' upd]|]; [|exact I].
      cbn [vimp] in IHl. unfold set_rel in IHl. destruct (set l2 k v) as [l2' upd2].
      cbn [fst snd] in IHl. destruct IHl as [El' Eu]. subst upd2.
      destruct upd.
      * cbn [vimp]. unfold set_rel. cbn [fst snd veq]. rewrite eff_ver_v2, eff_ver_new_meta.
        auto 10.
      * pose proof (v2_balance_veq wv (v2_node wv nk l' r) (mk nk l2' r2)
                      (veq_node_mk wv nk _ _ _ _ El' Er)) as Bv.
        destruct (v2_balance wv (v2_node wv nk l' r)) as [t'|]; [|exact I].
        cbn [vimp] in *. unfold set_rel. cbn [fst snd]. auto.
    + specialize (IHr r2 Er). destruct (v2_set wv sq r k v) as [[r' upd]|]; [|exact I].
      cbn [vimp] in IHr. unfold set_rel in IHr. destruct (set r2 k v) as [r2' upd2].
      cbn [fst snd] in IHr. destruct IHr as [Er' Eu]. subst upd2.
      destruct upd.
      * cbn [vimp]. unfold set_rel. cbn [fst snd veq]. rewrite eff_ver_v2, eff_ver_new_meta.
        auto 10.
      * pose proof (v2_balance_veq wv (v2_node wv nk l r') (mk nk l2 r2')
                      (veq_node_mk wv nk _ _ _ _ El Er')) as Bv.
        destruct (v2_balance wv (v2_node wv nk l r')) as [t'|]; [|exact I].
        cbn [vimp] in *. unfold set_rel. cbn [fst snd]. auto.
Qed.

(** results of remove: same outputs, related new subtrees *)
Definition rm_rel (wv : Z) (a b : rm_res) : Prop :=
  rm_val a = rm_val b /\ rm_key a = rm_key b /\
  match rm_self a, rm_self b with
  | Some x, Some y => veq wv x y
  | None, None => True
  | _, _ => False
  end.

Lemma v2_remove_veq wv k t1 : forall t2,
  veq wv t1 t2 -> vimp (rm_rel wv) (v2_remove wv t1 k) (remove t2 k).
Proof.
  induction t1 as [lk lv m|nk h s m l IHl r IHr]; intros [lk2 lv2 m2|nk2 h2 s2 m2 l2 r2];
    cbn [veq]; try tauto.
  - intros (A & B & C). subst lk2 lv2. cbn [v2_remove remove vimp].
    destruct (beq k lk); unfold rm_rel; cbn [rm_val rm_key rm_self veq]; auto.
  - intros E. pose proof E as E0. destruct E as (A & B & C & D & El & Er). subst nk2 h2 s2.
    cbn [v2_remove remove]. cbv zeta.
    destruct (blt k nk).
    + specialize (IHl l2 El). destruct (v2_remove wv l k) as [res|]; [|exact I].
      cbn [vimp] in IHl. destruct IHl as (Ev & Ek & Es). rewrite <- Ev.
      destruct (rm_val res) as [val|].
      * destruct (rm_self res) as [l'|], (rm_self (remove l2 k)) as [l2'|]; try contradiction.
        -- pose proof (v2_balance_veq wv (v2_node wv nk l' r) (mk nk l2' r2)
                         (veq_node_mk wv nk _ _ _ _ Es Er)) as Bv.
           destruct (v2_balance wv (v2_node wv nk l' r)) as [t'|]; [|exact I].
           cbn [vimp] in *. unfold rm_rel. cbn [rm_val rm_key rm_self]. auto.
        -- cbn [vimp]. unfold rm_rel. cbn [rm_val rm_key rm_self]. auto.
      * cbn [vimp]. unfold rm_rel. cbn [rm_val rm_key rm_self]. auto.
    + specialize (IHr r2 Er). destruct (v2_remove wv r k) as [res|]; [|exact I].
      cbn [vimp] in IHr. destruct IHr as (Ev & Ek & Es). rewrite <- Ev, <- Ek.
      destruct (rm_val res) as [val|].
      * destruct (rm_self res) as [r'|], (rm_self (remove r2 k)) as [r2'|]; try contradiction.
        -- set (nk' := match rm_key res with Some k' => k' | None => nk end).
           pose proof (v2_balance_veq wv (v2_node wv nk' l r') (mk nk' l2 r2')
                         (veq_node_mk wv nk' _ _ _ _ El Es)) as Bv.
           destruct (v2_balance wv (v2_node wv nk' l r')) as [t'|]; [|exact I].
           cbn [vimp] in *. unfold rm_rel. cbn [rm_val rm_key rm_self]. auto.
        -- cbn [vimp]. unfold rm_rel. cbn [rm_val rm_key rm_self]. auto.
      * cbn [vimp]. unfold rm_rel. cbn [rm_val rm_key rm_self]. auto.
Qed.

(** ** The v2 operations never fail on well-formed trees *)
Lemma v2_balance_defined wv k l r :
  wf l -> wf r -> exists t', v2_balance wv (v2_node wv k l r) = Some t'.
Proof.
  intros Wl Wr. unfold v2_node. cbn [v2_balance v2_meta hs].
  pose proof (height_nonneg _ Wl) as Hl0. pose proof (height_nonneg _ Wr) as Hr0.
  destruct (1 <? height l - height r) eqn:C1.
  - apply Z.ltb_lt in C1. destruct l as [|lk lh ls lm ll lr]; [cbn [height] in *; lia|].
    cbn [wf] in Wl. destruct Wl as (Wll & Wlr & _ & _ & _ & Hlh & _).
    pose proof (height_nonneg _ Wll). pose proof (height_nonneg _ Wlr).
    cbn [bal_of]. destruct (0 <=? height ll - height lr) eqn:C2.
    + cbn [v2_rotR]. eauto.
    + apply Z.leb_gt in C2. destruct lr as [|rk rh rs rm rl rr]; [cbn [height] in *; lia|].
      cbn [v2_rotL v2_rotR v2_node]. eauto.
  - destruct (height l - height r <? -1) eqn:C3; [|eauto].
    apply Z.ltb_lt in C3. destruct r as [|rk rh rs rm rl rr]; [cbn [height] in *; lia|].
    cbn [wf] in Wr. destruct Wr as (Wrl & Wrr & _ & _ & _ & Hrh & _).
    pose proof (height_nonneg _ Wrl). pose proof (height_nonneg _ Wrr).
    cbn [bal_of]. destruct (height rl - height rr <=? 0) eqn:C2.
    + cbn [v2_rotL]. eauto.
    + apply Z.leb_gt in C2. destruct rl as [|lk lh ls lm ll lr]; [cbn [height] in *; lia|].
      cbn [v2_rotL v2_rotR v2_node]. eauto.
Qed.

Lemma v2_set_wf wv sq k v t t' u :
  wf t -> v2_set wv sq t k v = Some (t', u) -> wf t'.
Proof.
  intros W E. pose proof (v2_set_veq wv sq k v t t (veq_refl wv t)) as R. rewrite E in R.
  cbn [vimp] in R. destruct R as [R _]. cbn [fst] in R.
  eapply veq_wf; [apply veq_sym, R|]. apply set_spec, W.
Qed.

Lemma v2_set_defined wv sq k v t : wf t -> exists r, v2_set wv sq t k v = Some r.
Proof.
  induction t as [lk lv m|nk h s m l IHl r IHr]; intros W; cbn [v2_set].
  - destruct (bcmp k lk); eauto.
  - cbn [wf] in W. destruct W as (Wl & Wr & _).
    destruct (blt k nk).
    + destruct (IHl Wl) as ([l' upd] & E). rewrite E. destruct upd; [eauto|].
      destruct (v2_balance_defined wv nk l' r (v2_set_wf _ _ _ _ _ _ _ Wl E) Wr) as (t' & B).
      rewrite B. eauto.
    + destruct (IHr Wr) as ([r' upd] & E). rewrite E. destruct upd; [eauto|].
      destruct (v2_balance_defined wv nk l r' Wl (v2_set_wf _ _ _ _ _ _ _ Wr E)) as (t' & B).
      rewrite B. eauto.
Qed.

Lemma v2_remove_self_wf wv k t res t' :
  wf t -> avl t -> v2_remove wv t k = Some res -> rm_self res = Some t' -> wf t' /\ avl t'.
Proof.
  intros W A E S. pose proof (v2_remove_veq wv k t t (veq_refl wv t)) as R. rewrite E in R.
  cbn [vimp] in R. destruct R as (Ev & _ & Es). rewrite S in Es.
  pose proof (remove_spec t k W A) as P. unfold rm_post in P.
  destruct (rm_self (remove t k)) as [t1|] eqn:S1; [|contradiction].
  destruct (rm_val (remove t k)) as [val|] eqn:V1.
  - destruct P as (_ & W1 & A1 & _). split.
    + eapply veq_wf; [apply veq_sym, Es|exact W1].
    + eapply veq_avl; [apply veq_sym, Es|exact A1].
  - (* not removed: v1 returns the tree itself *)
    assert (t1 = t).
    { clear -S1 V1. destruct t as [lk lv m|nk h s m l r]; cbn [remove] in *.
      - destruct (beq k lk); cbn [rm_val rm_self] in *; congruence.
      - cbv zeta in *. destruct (blt k nk).
        + destruct (rm_val (remove l k)); [|cbn [rm_self] in S1; congruence].
          destruct (rm_self (remove l k)); cbn [rm_val] in V1; discriminate.
        + destruct (rm_val (remove r k)); [|cbn [rm_self] in S1; congruence].
          destruct (rm_self (remove r k)); cbn [rm_val] in V1; discriminate. }
    subst t1. split.
    + eapply veq_wf; [apply veq_sym, Es|exact W].
    + eapply veq_avl; [apply veq_sym, Es|exact A].
Qed.

Lemma v2_remove_defined wv k t : wf t -> avl t -> exists res, v2_remove wv t k = Some res.
Proof.
  induction t as [lk lv m|nk h s m l IHl r IHr]; intros W A; cbn [v2_remove]; [eauto|].
  cbn [wf] in W. destruct W as (Wl & Wr & _). cbn [avl] in A. destruct A as (Al & Ar & _).
  destruct (blt k nk).
  - destruct (IHl Wl Al) as (res & E). rewrite E.
    destruct (rm_val res) as [val|]; [|eauto].
    destruct (rm_self res) as [l'|] eqn:S; [|eauto].
    destruct (v2_remove_self_wf wv k l res l' Wl Al E S) as [W' _].
    destruct (v2_balance_defined wv nk l' r W' Wr) as (t' & B). rewrite B. eauto.
  - destruct (IHr Wr Ar) as (res & E). rewrite E.
    destruct (rm_val res) as [val|]; [|eauto].
    destruct (rm_self res) as [r'|] eqn:S; [|eauto].
    destruct (v2_remove_self_wf wv k r res r' Wr Ar E S) as [W' _].
    cbv zeta.
    destruct (v2_balance_defined wv (match rm_key res with Some k' => k' | None => nk end)
                l r' Wl W') as (t' & B). rewrite B. eauto.
Qed.

(** ** Predicates preserved by the v2 writes *)
Section Preserve.
  Variable wv : Z.
  Variable P : node -> Prop.
  Hypothesis P_sub : forall k h s m l r, P (Inner k h s m l r) -> P l /\ P r.
  Hypothesis P_inner : forall k h s sq l r, P l -> P r -> P (Inner k h s (v2_meta wv sq) l r).
  Hypothesis P_leaf : forall k v sq, P (Leaf k v (v2_meta wv sq)).

  Lemma P_node k l r : P l -> P r -> P (v2_node wv k l r).
  Proof. intros. unfold v2_node. apply P_inner; assumption. Qed.

  Lemma v2_rotR_pres t t' : P t -> v2_rotR wv t = Some t' -> P t'.
  Proof.
    destruct t as [|k h s m l r]; [discriminate|]. destruct l as [|lk lh ls lm ll lr]; [discriminate|].
    intros Pt E. cbn [v2_rotR] in E. injection E as <-.
    destruct (P_sub _ _ _ _ _ _ Pt) as [Pl Pr]. destruct (P_sub _ _ _ _ _ _ Pl) as [Pll Plr].
    apply P_node; [assumption|]. apply P_node; assumption.
  Qed.

  Lemma v2_rotL_pres t t' : P t -> v2_rotL wv t = Some t' -> P t'.
  Proof.
    destruct t as [|k h s m l r]; [discriminate|]. destruct r as [|rk rh rs rm rl rr]; [discriminate|].
    intros Pt E. cbn [v2_rotL] in E. injection E as <-.
    destruct (P_sub _ _ _ _ _ _ Pt) as [Pl Pr]. destruct (P_sub _ _ _ _ _ _ Pr) as [Prl Prr].
    apply P_node; [|assumption]. apply P_node; assumption.
  Qed.

  Lemma v2_balance_pres k l r t' :
    P l -> P r -> v2_balance wv (v2_node wv k l r) = Some t' -> P t'.
  Proof.
    intros Pl Pr. unfold v2_node. cbn [v2_balance v2_meta hs].
    assert (Pt : P (Inner k (Z.max (height l) (height r) + 1) (size l + size r) (v2_meta wv 0) l r))
      by (apply P_inner; assumption).
    destruct (1 <? height l - height r).
    - destruct (0 <=? bal_of l); [intros E; exact (v2_rotR_pres _ _ Pt E)|].
      destruct (v2_rotL wv l) as [l'|] eqn:E; [|discriminate].
      intros E2. refine (v2_rotR_pres _ _ _ E2).
      apply (P_inner k _ _ 0); [exact (v2_rotL_pres _ _ Pl E)|assumption].
    - destruct (height l - height r <? -1); [|intros E; injection E as <-; exact Pt].
      destruct (bal_of r <=? 0); [intros E; exact (v2_rotL_pres _ _ Pt E)|].
      destruct (v2_rotR wv r) as [r'|] eqn:E; [|discriminate].
      intros E2. refine (v2_rotL_pres _ _ _ E2).
      apply (P_inner k _ _ 0); [assumption|exact (v2_rotR_pres _ _ Pr E)].
  Qed.

  Lemma v2_set_pres sq k v t : forall t' u, P t -> v2_set wv sq t k v = Some (t', u) -> P t'.
  Proof.
    induction t as [lk lv m|nk h s m l IHl r IHr]; intros t' u Pt; cbn [v2_set].
    - destruct (bcmp k lk); intros E; injection E as <- _; auto.
    - destruct (P_sub _ _ _ _ _ _ Pt) as [Pl Pr].
      destruct (blt k nk).
      + destruct (v2_set wv sq l k v) as [[l' upd]|]; [|discriminate].
        specialize (IHl l' upd Pl eq_refl). destruct upd.
        * intros E; injection E as <- _. auto.
        * destruct (v2_balance wv (v2_node wv nk l' r)) as [t1|] eqn:B; [|discriminate].
          intros E; injection E as <- _. exact (v2_balance_pres _ _ _ _ IHl Pr B).
      + destruct (v2_set wv sq r k v) as [[r' upd]|]; [|discriminate].
        specialize (IHr r' upd Pr eq_refl). destruct upd.
        * intros E; injection E as <- _. auto.
        * destruct (v2_balance wv (v2_node wv nk l r')) as [t1|] eqn:B; [|discriminate].
          intros E; injection E as <- _. exact (v2_balance_pres _ _ _ _ Pl IHr B).
  Qed.

  Lemma v2_remove_pres k t : forall res t',
    P t -> v2_remove wv t k = Some res -> rm_self res = Some t' -> P t'.
  Proof.
    induction t as [lk lv m|nk h s m l IHl r IHr]; intros res t' Pt; cbn [v2_remove].
    - destruct (beq k lk); intros E; injection E as <-; cbn [rm_self]; intros S;
        [discriminate|injection S as <-; exact Pt].
    - destruct (P_sub _ _ _ _ _ _ Pt) as [Pl Pr].
      destruct (blt k nk).
      + destruct (v2_remove wv l k) as [res1|]; [|discriminate].
        destruct (rm_val res1) as [val|];
          [|intros E; injection E as <-; cbn [rm_self]; intros S; injection S as <-; exact Pt].
        destruct (rm_self res1) as [l'|] eqn:S1.
        * specialize (IHl res1 l' Pl eq_refl S1).
          destruct (v2_balance wv (v2_node wv nk l' r)) as [t1|] eqn:B; [|discriminate].
          intros E; injection E as <-; cbn [rm_self]; intros S; injection S as <-.
          exact (v2_balance_pres _ _ _ _ IHl Pr B).
        * intros E; injection E as <-; cbn [rm_self]; intros S; injection S as <-; exact Pr.
      + destruct (v2_remove wv r k) as [res1|]; [|discriminate].
        destruct (rm_val res1) as [val|];
          [|intros E; injection E as <-; cbn [rm_self]; intros S; injection S as <-; exact Pt].
        destruct (rm_self res1) as [r'|] eqn:S1.
        * specialize (IHr res1 r' Pr eq_refl S1). cbv zeta.
          destruct (v2_balance wv (v2_node wv _ l r')) as [t1|] eqn:B; [|discriminate].
          intros E; injection E as <-; cbn [rm_self]; intros S; injection S as <-.
          exact (v2_balance_pres _ _ _ _ Pl IHr B).
        * intros E; injection E as <-; cbn [rm_self]; intros S; injection S as <-; exact Pl.
  Qed.
End Preserve.

(** ** v2 trees carry no zero version *)
Lemma all_persisted_sub k h s m l r :
  all_persisted (Inner k h s m l r) -> all_persisted l /\ all_persisted r.
Proof. cbn [all_persisted]. tauto. Qed.

Lemma v2_set_persisted wv sq k v t t' u :
  wv <> 0 -> all_persisted t -> v2_set wv sq t k v = Some (t', u) -> all_persisted t'.
Proof.
  intros Hwv. apply (v2_set_pres wv all_persisted all_persisted_sub).
  - intros. cbn [all_persisted v2_meta ver]. auto.
  - intros. cbn [all_persisted v2_meta ver]. auto.
Qed.

Lemma v2_remove_persisted wv k t res t' :
  wv <> 0 -> all_persisted t -> v2_remove wv t k = Some res -> rm_self res = Some t' ->
  all_persisted t'.
Proof.
  intros Hwv. apply (v2_remove_pres wv all_persisted all_persisted_sub).
  intros. cbn [all_persisted v2_meta ver]. auto.
Qed.

(** on trees without zero versions [veq] does not depend on the working version *)
Lemma veq_persisted_any a b t1 : forall t2,
  all_persisted t1 -> all_persisted t2 -> veq a t1 t2 -> veq b t1 t2.
Proof.
  induction t1 as [k v m|k h s m l IHl r IHr]; intros [k2 v2 m2|k2 h2 s2 m2 l2 r2];
    cbn [veq all_persisted]; try tauto.
  - intros P1 P2 (A & B & C). rewrite !eff_ver_old in * by assumption. auto.
  - intros (P1 & Pl1 & Pr1) (P2 & Pl2 & Pr2) (A & B & C & D & E & F).
    rewrite !eff_ver_old in * by assumption. auto 8.
Qed.

Section HashV2.
  Variable H : bytes -> bytes.

  (** v2's hash from scratch is v1's structural hash (read with working version 0) *)
  Lemma v2_hash_pure t : v2_hash H t = pure_hash H 0 t.
  Proof.
    assert (EV : forall m, eff_ver 0 m = ver m).
    { intros m. unfold eff_ver. destruct (ver m =? 0) eqn:E; [apply Z.eqb_eq in E; auto|auto]. }
    induction t as [k v m|k h s m l IHl r IHr]; cbn [v2_hash pure_hash]; rewrite EV; congruence.
  Qed.

  (** stored hashes, where present, are right *)
  Fixpoint v2_hok (t : node) : Prop :=
    (hs (nmeta t) = [] \/ hs (nmeta t) = v2_hash H t) /\
    match t with
    | Leaf _ _ _ => True
    | Inner _ _ _ _ l r => v2_hok l /\ v2_hok r
    end.

  Lemma v2_hok_sub k h s m l r : v2_hok (Inner k h s m l r) -> v2_hok l /\ v2_hok r.
  Proof. cbn [v2_hok]. tauto. Qed.

  Lemma v2_set_hok wv sq k v t t' u : v2_hok t -> v2_set wv sq t k v = Some (t', u) -> v2_hok t'.
  Proof.
    apply (v2_set_pres wv v2_hok v2_hok_sub).
    - intros. cbn [v2_hok nmeta v2_meta hs]. auto.
    - intros. cbn [v2_hok nmeta v2_meta hs]. auto.
  Qed.

  Lemma v2_remove_hok wv k t res t' :
    v2_hok t -> v2_remove wv t k = Some res -> rm_self res = Some t' -> v2_hok t'.
  Proof.
    apply (v2_remove_pres wv v2_hok v2_hok_sub).
    intros. cbn [v2_hok nmeta v2_meta hs]. auto.
  Qed.

  Lemma v2_hash_meta_irrel_leaf k v m m' :
    ver m = ver m' -> v2_hash H (Leaf k v m) = v2_hash H (Leaf k v m').
  Proof. cbn [v2_hash]. intros ->. reflexivity. Qed.

  (** deepHash computes the hash from scratch, changes stored hashes only *)
  Lemma v2_deep_hash_spec t :
    v2_hok t ->
    hs (nmeta (v2_deep_hash H t)) = v2_hash H t /\
    v2_hash H (v2_deep_hash H t) = v2_hash H t /\
    v2_hok (v2_deep_hash H t) /\
    (forall wv, veq wv (v2_deep_hash H t) t).
  Proof.
    induction t as [k v m|k h s m l IHl r IHr]; intros Hok.
    - cbn [v2_deep_hash]. destruct (hs m) as [|b bs] eqn:E.
      + cbn [nmeta hs v2_hash ver v2_hok veq]. repeat split; auto.
      + destruct Hok as [[C|C] _]; cbn [nmeta] in C; [congruence|].
        split; [exact C|]. split; [reflexivity|]. split; [|intros; apply veq_refl].
        cbn [v2_hok nmeta]. auto.
    - cbn [v2_deep_hash]. destruct (hs m) as [|b bs] eqn:E.
      + destruct (v2_hok_sub _ _ _ _ _ _ Hok) as [Hl Hr].
        destruct (IHl Hl) as (A1 & A2 & A3 & A4). destruct (IHr Hr) as (B1 & B2 & B3 & B4).
        cbn [nmeta hs v2_hash ver]. rewrite A1, B1, A2, B2.
        split; [reflexivity|]. split; [reflexivity|]. split.
        * cbn [v2_hok nmeta hs v2_hash ver]. rewrite A2, B2. auto.
        * intros wv. cbn [veq]. unfold eff_ver. cbn [ver]. auto 8.
      + destruct Hok as [[C|C] Hc]; cbn [nmeta] in C; [congruence|].
        split; [exact C|]. split; [reflexivity|]. split; [|intros; apply veq_refl].
        cbn [v2_hok nmeta]. auto.
  Qed.

  Lemma v2_deep_hash_persisted t : all_persisted t -> all_persisted (v2_deep_hash H t).
  Proof.
    induction t as [k v m|k h s m l IHl r IHr]; cbn [v2_deep_hash all_persisted].
    - destruct (hs m); cbn [all_persisted ver]; auto.
    - intros (A & B & C). destruct (hs m); cbn [all_persisted ver]; auto.
  Qed.

  (** stamping changes nothing [veq] sees *)
  Lemma stamp_veq wv t : wv <> 0 -> forall n, veq wv t (fst (stamp H wv n t)).
  Proof.
    intros Hwv. induction t as [k v m|k h s m l IHl r IHr]; intros n.
    - rewrite stamp_leaf. unfold is_new. cbn [nmeta].
      destruct (ver m =? 0) eqn:E; cbn [negb fst]; [|apply veq_refl].
      apply Z.eqb_eq in E. cbn [veq].
      rewrite (eff_ver_new wv m E), eff_ver_old by exact Hwv. auto.
    - rewrite stamp_inner. unfold is_new. cbn [nmeta].
      destruct (ver m =? 0) eqn:E; cbn [negb fst]; [|apply veq_refl].
      apply Z.eqb_eq in E.
      specialize (IHl (n + 1)). destruct (stamp H wv (n + 1) l) as [l' n1].
      specialize (IHr n1). destruct (stamp H wv n1 r) as [r' n2].
      cbn [fst] in *. cbn [veq].
      rewrite (eff_ver_new wv m E), eff_ver_old by exact Hwv. auto 8.
  Qed.
End HashV2.
